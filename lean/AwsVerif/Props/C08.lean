import AwsVerif.Model.ThreadSched
import AwsVerif.Proofs.C08.Main
/-!
C08 — thread scheduler delivers each task once, on its own thread, whatever the timing.

All theorems quantify over every well-formed set of client programs and task functions
(`WF progs cbs`: reference discipline per client thread; no task pushed twice, whether by client
operations or by task functions — any number of client threads; a task function may re-enter the
scheduler with one schedule / cancel call when it is invoked) and over *every* schedule
`acts : List Act` of the transition system `Model/ThreadSched.lean` (scheduler thread, client
threads, spurious wake-ups, clock ticks), for the code as it is now (`Cfg.fixed`).  They are
consequences of one inductive invariant (`Proofs/C08/Inv.lean`, preserved by every step:
`Proofs/C08/StepSched.lean`, `StepClient.lean`).  `WFStrict` (a cancel targets a task its thread
scheduled) is the API contract; none of the theorems needs it.

Exactly-once and no-leak carry the remaining well-formedness clause for re-entrant task functions,
`NoReentryAfterLastRelease`: in the run at hand no task function invoked *by the destroy callback*
(reference count already zero) called schedule / cancel.  Task functions invoked by the scheduler
thread — with RUN, or with CANCELED through an explicit cancel — re-enter freely.
`c08_no_canceled_reentry_suffices` gives a static sufficient condition;
`c08_reentry_after_last_release_*` document what the code does at the excluded point.

The `c08_prefix_*` theorems are regression witnesses: the two pre-fix variants of the model
(`drain := false`: before 04fad6b; `guardCancel := false`: before 797252a) violate
exactly-once / no-leak / at-most-once on explicit short schedules.
-/
namespace AwsVerif.Props.C08
open AwsVerif.ThreadSched AwsVerif.Proofs.C08

/-- the state reached by the current code from the initial state under schedule `acts` -/
abbrev reach (progs : List (List Op)) (cbs : Cbs) (acts : List Act) : Sys := run Cfg.fixed (init progs cbs) acts

structure Safety (s : Sys) : Prop where
  /-- every scheduled task is in exactly one of: a hand-over queue, a cancellation record with the
  removed flag, the inner scheduler (incl. the batch `run_all` is working through), the invocation
  log; a task not yet scheduled is in none -/
  one_place : ∀ t,
    (handOver s).count t + (remTasks (recs s)).count t + (innerTasks s).count t + (logTasks s).count t
      = if t ∈ s.scheduled then 1 else 0
  /-- each invocation happens on the scheduler thread (id 0), or — with the canceled status — on the
  thread whose release took the reference count to zero (inside the final drain / clean-up) -/
  on_thread : ∀ e ∈ s.log, e.thread = 0 ∨ (e.status = .canceled ∧ s.destroyer = some e.thread ∧ s.refCount = 0)
  /-- RUN only on the scheduler thread and only with clock ≥ time stamp -/
  never_early : ∀ e ∈ s.log, e.status = .run → e.thread = 0 ∧ s.tsOf e.task ≤ e.time
  /-- once the final release has returned no thread can take a step (so nothing is invoked) -/
  quiet : s.released = true → ∀ a, a.isThread = true → step Cfg.fixed s a = none

theorem c08_safety (progs : List (List Op)) (cbs : Cbs) (hwf : WF progs cbs) (acts : List Act) :
    Safety (reach progs cbs acts) := by
  have h := inv_run hwf acts
  refine ⟨one_place_of_inv h, ?_, ?_, quiet_of_released h⟩
  · intro e he
    rcases (h.t.logInv e he).1 with h0 | ⟨h1, h2⟩
    · exact Or.inl h0
    · exact Or.inr ⟨h1, h2, h.r.dRef (by rw [h2]; simp)⟩
  · intro e he; exact (h.t.logInv e he).2

/-- nothing is invoked after the final release returned: whatever happens next, the log stays -/
theorem c08_log_frozen_after_release (progs : List (List Op)) (cbs : Cbs) (hwf : WF progs cbs) (acts more : List Act)
    (hr : (reach progs cbs acts).released = true) :
    (reach progs cbs (acts ++ more)).log = (reach progs cbs acts).log := by
  show (run Cfg.fixed (init progs cbs) (acts ++ more)).log = _
  rw [run_append]
  exact (log_frozen (inv_run hwf acts) hr more).1

/-- no task is invoked twice (this is where 797252a matters) -/
theorem c08_at_most_once (progs : List (List Op)) (cbs : Cbs) (hwf : WF progs cbs) (acts : List Act) (t : Task) :
    (logTasks (reach progs cbs acts)).count t ≤ 1 :=
  at_most_once_of_inv (inv_run hwf acts) t

/-- no task function is invoked while the invoking thread holds the hand-over mutex: whenever a step
makes the log grow, the thread that takes the step is not the owner of the mutex (so a task function
that calls schedule / cancel — which lock that mutex — cannot self-deadlock) -/
theorem c08_callbacks_run_unlocked (progs : List (List Op)) (cbs : Cbs) (hwf : WF progs cbs) (acts : List Act)
    (a : Act) (s' : Sys) (hs : step Cfg.fixed (reach progs cbs acts) a = some s')
    (hl : s'.log ≠ (reach progs cbs acts).log) :
    ∃ k, a.thread = some k ∧ (reach progs cbs acts).mutex ≠ some k :=
  callbacks_unlocked_of_inv (inv_run hwf acts) a hs hl

/-- at termination (all client programs finished, final release returned), in a run without re-entry
after the last release: every task that was scheduled — by a client or by a task function — has
exactly one log entry, nothing else has one, and every schedule operation of every client program has
been carried out (this is where 04fad6b matters) -/
theorem c08_exactly_once (progs : List (List Op)) (cbs : Cbs) (hwf : WF progs cbs) (acts : List Act)
    (hterm : terminated (reach progs cbs acts) = true) (hno : NoReentryAfterLastRelease (reach progs cbs acts))
    (t : Task) :
    (logTasks (reach progs cbs acts)).count t = (if t ∈ (reach progs cbs acts).scheduled then 1 else 0) ∧
    (t ∈ progs.flatMap schedTasks → t ∈ (reach progs cbs acts).scheduled) := by
  have h := inv_run hwf acts
  have h1 : (logTasks (reach progs cbs acts)).count t = (reach progs cbs acts).scheduled.count t :=
    (exactly_once_of_inv h hterm hno t).1
  have h2 : (progs.flatMap schedTasks).count t ≤ (reach progs cbs acts).scheduled.count t :=
    (exactly_once_of_inv h hterm hno t).2
  have h3 : (reach progs cbs acts).scheduled.count t ≤ 1 := h.p.sched_le t
  constructor
  · by_cases hm : t ∈ (reach progs cbs acts).scheduled
    · have := List.count_pos_iff.mpr hm; simp only [hm, if_true]; omega
    · have := List.count_eq_zero.mpr hm; simp only [hm, if_false]; omega
  · intro hin
    have := List.count_pos_iff.mpr hin
    exact List.count_pos_iff.mp (by omega)

/-- every reachable state that is not final has an enabled thread step (clock ticks do not count) —
also with re-entrant task functions —, and the mutex is never held across a wait
(condition-variable wait, join) -/
theorem c08_no_deadlock (progs : List (List Op)) (cbs : Cbs) (hwf : WF progs cbs) (acts : List Act) :
    (terminated (reach progs cbs acts) = false →
      ∃ a, a.isThread = true ∧ (step Cfg.fixed (reach progs cbs acts) a).isSome = true) ∧
    (((reach progs cbs acts).st.pc = .blocked ∨ ∃ b, (reach progs cbs acts).st.pc = .reacq b) →
      (reach progs cbs acts).mutex ≠ some 0) ∧
    (∀ (j : Nat) (c : Client), (reach progs cbs acts).clients[j]? = some c → c.pc = .dJoin →
      (reach progs cbs acts).mutex ≠ some (j + 1)) := by
  have h := inv_run hwf acts
  exact ⟨no_deadlock_of_inv h, (no_mutex_across_wait h).1, (no_mutex_across_wait h).2⟩

/-- every cancellation record is freed at most once at any time, and — in a run without re-entry
after the last release — exactly once at termination -/
theorem c08_no_leak (progs : List (List Op)) (cbs : Cbs) (hwf : WF progs cbs) (acts : List Act) (id : Nat) :
    (reach progs cbs acts).freed.count id ≤ 1 ∧
    (terminated (reach progs cbs acts) = true → NoReentryAfterLastRelease (reach progs cbs acts) →
      (reach progs cbs acts).freed.count id = if id < (reach progs cbs acts).nextRec then 1 else 0) := by
  have h := inv_run hwf acts
  exact ⟨no_leak_of_inv h id, fun ht hm => no_leak_terminated h ht hm id⟩

/-- a static sufficient condition for `NoReentryAfterLastRelease`: task functions re-enter only when
invoked with RUN -/
theorem c08_no_canceled_reentry_suffices (progs : List (List Op)) (cbs : Cbs) (hn : NoCanceledReentry cbs)
    (acts : List Act) : NoReentryAfterLastRelease (reach progs cbs acts) :=
  static_no_misuse hn acts

/-! ### Regression witnesses: the pre-fix variants violate the properties -/

def clientSteps (i n : Nat) : List Act := List.replicate n (.client i)
def schedSteps (n : Nat) : List Act := List.replicate n .sched

/-- `schedule_now(0); release` — the client runs through the release before the scheduler thread's
first pass; the thread sees the flag and exits; the task is still in the hand-over queue -/
def f2Progs : List (List Op) := [[.scheduleNow 0, .release]]
def f2Acts : List Act := clientSteps 0 7 ++ schedSteps 1 ++ clientSteps 0 3

/-- before 04fad6b (no drain after the join) exactly-once fails: the run terminates and task 0 has
no log entry -/
theorem c08_prefix_no_drain_violates_exactly_once :
    WF f2Progs ∧
    terminated (run { drain := false, guardCancel := true } (init f2Progs) f2Acts) = true ∧
    (logTasks (run { drain := false, guardCancel := true } (init f2Progs) f2Acts)).count 0 = 0 := by
  decide

/-- `schedule_now(0); cancel(0); release` with the cancel after the task was handed over: before
04fad6b the queued cancellation record is never freed -/
def f2bProgs : List (List Op) := [[.scheduleNow 0, .cancel 0, .release]]
def f2bActs : List Act := clientSteps 0 4 ++ schedSteps 10 ++ clientSteps 0 7 ++ schedSteps 7 ++ clientSteps 0 3

theorem c08_prefix_no_drain_leaks_record :
    WF f2bProgs ∧
    terminated (run { drain := false, guardCancel := true } (init f2bProgs) f2bActs) = true ∧
    (run { drain := false, guardCancel := true } (init f2bProgs) f2bActs).nextRec = 1 ∧
    (run { drain := false, guardCancel := true } (init f2bProgs) f2bActs).freed = [] := by
  decide

/-- `schedule_now(0); <task runs>; cancel(0)`: before 797252a the cancellation that lost the race is
still applied and task 0 is invoked a second time (RUN, then CANCELED) -/
def f5Acts : List Act := clientSteps 0 4 ++ schedSteps 10 ++ clientSteps 0 4 ++ schedSteps 12

theorem c08_prefix_unguarded_cancel_violates_at_most_once :
    WF f2bProgs ∧
    (run { drain := true, guardCancel := false } (init f2bProgs) f5Acts).log =
      [{ task := 0, status := .run, thread := 0, time := 0 },
       { task := 0, status := .canceled, thread := 0, time := 0 }] := by
  decide

/-! ### What the code does when a task function re-enters after the last release -/

/-- `schedule_future(0, UINT64_MAX); release`, and task 0's function schedules task 1 when it is
invoked with CANCELED: task 0 is cancelled by the clean-up on the releasing thread, its function's
`schedule_now(1)` puts task 1 into the scheduling queue, which nobody looks at again — the run
terminates with task 1 stranded there, never invoked -/
def lateProgs : List (List Op) := [[.scheduleFuture 0 U64MAX, .release]]
def lateCbs : Cbs := [{ task := 0, status := .canceled, op := .scheduleNow 1 }]
def lateActs : List Act := clientSteps 0 7 ++ schedSteps 1 ++ clientSteps 0 13

theorem c08_reentry_after_last_release_loses_task :
    WF lateProgs lateCbs ∧
    terminated (reach lateProgs lateCbs lateActs) = true ∧
    (reach lateProgs lateCbs lateActs).misuse = true ∧
    (reach lateProgs lateCbs lateActs).scheduled = [0, 1] ∧
    (reach lateProgs lateCbs lateActs).schedQ = [1] ∧
    (logTasks (reach lateProgs lateCbs lateActs)) = [0] := by
  decide

/-- the same with a function that cancels another task: the cancellation record it queues during the
clean-up is never freed -/
def lateProgs2 : List (List Op) := [[.scheduleFuture 0 U64MAX, .scheduleFuture 2 (U64MAX - 1), .release]]
def lateCbs2 : Cbs := [{ task := 0, status := .canceled, op := .cancel 2 }]
def lateActs2 : List Act := clientSteps 0 11 ++ schedSteps 1 ++ clientSteps 0 16

theorem c08_reentry_after_last_release_leaks_record :
    WF lateProgs2 lateCbs2 ∧
    terminated (reach lateProgs2 lateCbs2 lateActs2) = true ∧
    (reach lateProgs2 lateCbs2 lateActs2).misuse = true ∧
    (reach lateProgs2 lateCbs2 lateActs2).nextRec = 1 ∧
    (reach lateProgs2 lateCbs2 lateActs2).freed = [] ∧
    (logTasks (reach lateProgs2 lateCbs2 lateActs2)) = [2, 0] := by
  decide

/-! ### The hypotheses are satisfiable and the theorems are not vacuous -/

/-- the same schedules on the code as it is: the stranded task is invoked as canceled by the
releasing thread (thread id 1), and the late cancellation is skipped -/
example : terminated (reach f2Progs [] (f2Acts ++ clientSteps 0 8)) = true ∧
    (reach f2Progs [] (f2Acts ++ clientSteps 0 8)).log = [{ task := 0, status := .canceled, thread := 1, time := 0 }] := by
  decide

example : (reach f2bProgs [] f5Acts).log = [{ task := 0, status := .run, thread := 0, time := 0 }] ∧
    (reach f2bProgs [] f5Acts).freed = [0] := by
  decide

/-- a task at UINT64_MAX that is the only thing pending at the final release is cancelled by it -/
example : terminated (reach lateProgs [] lateActs) = true ∧
    (reach lateProgs [] lateActs).log = [{ task := 0, status := .canceled, thread := 1, time := 0 }] := by
  decide

/-- re-entry on the scheduler thread: task 0 is cancelled explicitly, its function (CANCELED)
schedules task 1, which then runs; task 1's function (RUN) cancels itself too late: skipped -/
def reProgs : List (List Op) := [[.scheduleFuture 0 U64MAX, .cancel 0, .release]]
def reCbs : Cbs := [{ task := 0, status := .canceled, op := .scheduleNow 1 }, { task := 1, status := .run, op := .cancel 1 }]
def reActs : List Act :=
  clientSteps 0 4 ++ schedSteps 9 ++ clientSteps 0 4 ++ schedSteps 60 ++ clientSteps 0 8 ++ schedSteps 12 ++ clientSteps 0 12

example : WFStrict reProgs reCbs := by decide

set_option maxRecDepth 16000 in
example : terminated (reach reProgs reCbs reActs) = true ∧
    NoReentryAfterLastRelease (reach reProgs reCbs reActs) ∧
    (reach reProgs reCbs reActs).log.map (fun e => (e.task, e.status, e.thread)) = [(0, .canceled, 0), (1, .run, 0)] ∧
    (reach reProgs reCbs reActs).freed = [0, 1] := by
  decide

/-- a terminating schedule of a two-client program set with a timed task that runs at its time -/
def demoProgs : List (List Op) := [[.scheduleFuture 0 5, .release], [.scheduleNow 1, .cancel 1, .release]]

example : WFStrict demoProgs := by decide

def demoActs : List Act :=
  clientSteps 0 4 ++ clientSteps 1 4 ++ [.tick 7] ++ schedSteps 12 ++ clientSteps 1 12 ++ schedSteps 8 ++
    clientSteps 0 12 ++ schedSteps 30 ++ clientSteps 0 16 ++ clientSteps 1 16

set_option maxRecDepth 8000 in
example : terminated (reach demoProgs [] demoActs) = true ∧
    (reach demoProgs [] demoActs).log.map (fun e => (e.task, e.status, e.thread)) = [(1, .run, 0), (0, .run, 0)] := by
  decide

end AwsVerif.Props.C08
