import AwsVerif.Proofs.C03.Mem
/-!
C03 — the small-block allocator hands out disjoint, intact, fully accounted memory.

Theorems about the model `AwsVerif.Sba` (a transcription of `source/allocator_sba.c`, constants
regenerated from the source on every run).  A state is `Reachable` when it results from a fresh
allocator by *any* finite sequence of atomic actions (`Act`: allocate, free, the owner's stores,
`memcpy` between two of the caller's blocks, realloc's keep-the-pointer path), with the OS page
source and the parent allocator arbitrary (any page / block id not currently held may be offered,
including ones returned earlier).  Bin operations are atomic actions because the C code runs them
under the bin mutex; a history of several threads is a merge of their action sequences.
-/
namespace AwsVerif.Props.C03
open AwsVerif.Sba AwsVerif.Gen.SbaConsts AwsVerif.Proofs.C03

/-- reachable from a fresh allocator by any sequence of atomic actions -/
def Reachable (s : State) : Prop := ∃ mt as, s = run (init mt) as

/-! ### the clauses -/

/-- free lists: duplicate-free, pairwise disjoint, disjoint from the live blocks, and made only of
chunks of pages currently held by the same bin (no chunk of a released page anywhere) -/
def FreeListsClause (s : State) : Prop :=
  (∀ i, (s.bins i).freeChunks.Nodup) ∧
  (∀ i j f, f ∈ (s.bins i).freeChunks → f ∈ (s.bins j).freeChunks → i = j) ∧
  (∀ i f, f ∈ (s.bins i).freeChunks → Ptr.chunk f ∉ keys s.live) ∧
  (∀ i f, f ∈ (s.bins i).freeChunks → ∃ pg, s.pages f.page = some pg ∧ pg.bin = i ∧ SlotOff (binSize i) f.off) ∧
  (∀ a n, (Ptr.chunk a, n) ∈ s.live → ∃ pg, s.pages a.page = some pg ∧ SlotOff (binSize pg.bin) a.off) ∧
  (∀ i p, p ∈ binPages (s.bins i) → ∃ pg, s.pages p = some pg ∧ pg.bin = i)

/-- per held page: live chunks + free chunks + the not-yet-carved tail account for every chunk slot;
live and free chunks lie on the slot grid strictly below the cursor of a working page -/
def PartitionClause (s : State) : Prop :=
  (∀ p pg, s.pages p = some pg →
    liveCount s.live p + freeCount (s.bins pg.bin).freeChunks p +
      (slotsPerPage (binSize pg.bin) - carvedSlots (binSize pg.bin) (s.bins pg.bin).cursor p) = slotsPerPage (binSize pg.bin)) ∧
  (∀ i c, (s.bins i).cursor = some c → SlotOff (binSize i) c.off ∧
    (∀ f, f ∈ (s.bins i).freeChunks → f.page = c.page → f.off < c.off) ∧
    (∀ a n, (Ptr.chunk a, n) ∈ s.live → a.page = c.page → a.off < c.off))

/-- live blocks: distinct, byte ranges pairwise disjoint, chunk blocks inside a held page behind the
header with the bin's chunk size covering the request, 32-byte aligned -/
def DisjointClause (s : State) : Prop :=
  (keys s.live).Nodup ∧
  (∀ p1 n1 p2 n2, (p1, n1) ∈ s.live → (p2, n2) ∈ s.live → p1 ≠ p2 → ∀ i j, i < n1 → j < n2 → p1.at i ≠ p2.at j) ∧
  (∀ a n, (Ptr.chunk a, n) ∈ s.live → ∃ pg, s.pages a.page = some pg ∧ pg.bin < binCount ∧ hdrSize ≤ a.off ∧
    a.off + binSize pg.bin ≤ pageSize ∧ a.off % 32 = 0 ∧ 1 ≤ n ∧ n ≤ binSize pg.bin) ∧
  (∀ id n, (Ptr.big id, n) ∈ s.live → (s.parent id).isSome)

def AllocCountClause (s : State) : Prop :=
  ∀ p pg, s.pages p = some pg → pg.allocCount = liveCount s.live p

def BytesActiveClause (s : State) : Prop :=
  bytesActive s = ((s.live.map (classOf s)).sum) % SIZE_MOD

/-- nothing live ⇒ no active page, at most the cursor page per bin, nothing held from the parent -/
def QuiescentClause (s : State) : Prop :=
  s.live = [] → (∀ i, (s.bins i).activePages = [] ∧ binHeld s i ≤ 1) ∧ (∀ id, s.parent id = none) ∧ bytesActive s = 0

/-- `destroy` hands exactly the held pages to the OS, each once; afterwards no page is held -/
def DestroyClause (s : State) : Prop :=
  (∀ p, p ∈ destroyPages s ↔ (s.pages p).isSome) ∧ (destroyPages s).Nodup ∧ (∀ p, (destroy s).pages p = none)

theorem reachable_inv {s : State} (hr : Reachable s) : Inv s := by
  obtain ⟨mt, as, rfl⟩ := hr
  exact inv_run (inv_init mt) as

/-! ### theorems -/

theorem c03_free_lists (s : State) (hr : Reachable s) : FreeListsClause s := by
  have h := reachable_inv hr
  refine ⟨h.free_nodup, ?_, ?_, ?_, ?_, ?_⟩
  · intro i j f hi hj
    obtain ⟨⟨pg, hp, hb⟩, _, _⟩ := h.free_ok i f hi
    rw [← hb]; exact free_bin h hj hp
  · intro i f hf; exact (h.free_ok i f hf).2.2
  · intro i f hf
    obtain ⟨⟨pg, hp, hb⟩, hs, _⟩ := h.free_ok i f hf
    exact ⟨pg, hp, hb, hs⟩
  · intro a n hm
    obtain ⟨pg, hp, hs, _⟩ := h.live_chunk a n hm
    exact ⟨pg, hp, hs⟩
  · intro i p hp; exact held_of_binPages h hp

theorem c03_partition (s : State) (hr : Reachable s) : PartitionClause s := by
  have h := reachable_inv hr
  refine ⟨?_, ?_⟩
  · intro p pg hp
    have h1 := h.page_part p pg hp
    have h2 := h.page_count p pg hp
    have h3 := carved_le h pg.bin (page_bin_lt h hp) p
    omega
  · intro i c hc
    exact ⟨(h.cursor_ok i c hc).2.1, fun f hf e => h.cursor_above_free i c f hc hf e,
      fun a n hm e => h.cursor_above_live i c a n hc hm e⟩

/-- [A] in every reachable state the live blocks are pairwise disjoint, each at least as large as
requested, 32-byte aligned, inside pages currently held -/
theorem c03_disjoint (s : State) (hr : Reachable s) : DisjointClause s := by
  have h := reachable_inv hr
  exact ⟨h.live_nodup, fun p1 n1 p2 n2 h1 h2 hne => live_disjoint h h1 h2 hne,
    fun a n hm => live_chunk_geometry h hm, fun id n hm => (h.live_big id n hm).1⟩

/-- [A] `page.alloc_count` = number of live chunks of the page -/
theorem c03_alloc_count (s : State) (hr : Reachable s) : AllocCountClause s :=
  (reachable_inv hr).page_count

/-- [A] `aws_small_block_allocator_bytes_active` = Σ size class of the live small blocks (mod 2^64) -/
theorem c03_bytes_active (s : State) (hr : Reachable s) : BytesActiveClause s :=
  bytesActive_eq (reachable_inv hr)

/-- [A] once everything is released each bin holds at most its cursor page and no active page -/
theorem c03_quiescent (s : State) (hr : Reachable s) : QuiescentClause s := by
  have h := reachable_inv hr
  intro hq
  refine ⟨fun i => ⟨quiescent_active h hq i, quiescent_held h hq i⟩, quiescent_parent h hq, ?_⟩
  rw [bytesActive_eq h, hq]; rfl

/-- [A] `destroy` releases exactly the remaining pages -/
theorem c03_destroy (s : State) (hr : Reachable s) : DestroyClause s := by
  have h := reachable_inv hr
  exact ⟨mem_destroyPages h, destroyPages_nodup h, destroy_pages_none h⟩

/-- every in-contract allocation returns a block (the "allocate a page and restart" recursion of
`s_sba_alloc_from_bin` needs fuel 2 only); the block was not live before; a bin serves it iff the
size is at most `s_max_bin_size`, and then it is the smallest bin that fits -/
theorem c03_alloc_total (s : State) (hr : Reachable s) (size os big : Nat) (h0 : size ≠ 0) (hlt : size < SIZE_MOD)
    (hos : s.pages os = none) (hbig : s.parent big = none) :
    ∃ s' p, act s (.alloc size os big) = (s', some p) ∧ s'.live = s.live ++ [(p, size)] ∧ p ∉ keys s.live ∧
      s'.mem = s.mem ∧
      (size ≤ maxBinSize → findBin size < binCount ∧ size ≤ binSize (findBin size) ∧ ∀ j, j < findBin size → binSize j < size) := by
  have h := reachable_inv hr
  obtain ⟨s', p, heq, hinv, hl, hm, _⟩ := act_alloc_spec h size os big h0 hlt hos hbig
  refine ⟨s', p, heq, hl, ?_, hm, ?_⟩
  · have := hinv.live_nodup
    rw [hl] at this
    exact not_mem_keys_of_append this
  · intro hs
    have : size < 513 := by rw [maxBinSize_eq] at hs; omega
    exact ⟨(findBin_spec size this).1, (findBin_spec size this).2, findBin_min size this⟩

/-- every request above `s_max_bin_size` — for ALL sizes up to SIZE_MAX, not a sample — is handed to the parent:
no bin, page or counter changes, `bytes_active` is unchanged, the parent holds a block of exactly that size.
(`servedByBin`, the test in `s_sba_alloc`, is generated from the source text; `servedByBin_iff` ties it.) -/
theorem c03_large_to_parent (s : State) (size os big : Nat) (hbig : maxBinSize < size) (hlt : size < SIZE_MOD)
    (hos : s.pages os = none) (hfresh : s.parent big = none) :
    ¬ servedByBin size ∧
    ∃ s', act s (.alloc size os big) = (s', some (.big big)) ∧ s'.bins = s.bins ∧ s'.pages = s.pages ∧
      bytesActive s' = bytesActive s ∧ s'.parent big = some size ∧ s'.live = s.live ++ [(.big big, size)] := by
  have hns : ¬ servedByBin size := fun hh => by have := (servedByBin_iff size).mp hh; omega
  refine ⟨hns, ?_⟩
  have hg : ¬ (size = 0 ∨ size ≥ SIZE_MOD ∨ (s.pages os).isSome ∨ (s.parent big).isSome) := by
    rw [hos, hfresh]; simp; omega
  refine ⟨withLive (setParent s big (some size)) (s.live ++ [(.big big, size)]), ?_, rfl, rfl, rfl, ?_, rfl⟩
  · simp only [act, hg, if_false, sbaAlloc, hns]
    rfl
  · simp [withLive, setParent]

/-- `aws_mem_calloc` with a product `num * size` that does not fit a `size_t` returns no block and changes nothing
(the library's fatal assert); with a product that fits, the total handed to `s_sba_alloc` is exactly `num * size`
(`aws_mul_size_checked` is the generated function) -/
theorem c03_calloc_checked (s : State) (num size os big : Nat) :
    (SIZE_MOD ≤ num * size → calloc s num size os big = (s, none)) ∧
    (num ≠ 0 → size ≠ 0 → num * size < SIZE_MOD →
      calloc s num size os big =
        (match (act s (.alloc (num * size) os big)).2 with
         | some p => ((act (act s (.alloc (num * size) os big)).1 (.write p (List.replicate (num * size) 0))).1, some p)
         | none => ((act s (.alloc (num * size) os big)).1, none))) := by
  constructor
  · intro h
    unfold calloc
    split
    · rfl
    · obtain ⟨e, he⟩ := mul_size_checked_err h
      rw [he]
  · intro h1 h2 h3
    have hg : ¬ (num = 0 ∨ size = 0) := by omega
    simp only [calloc, hg, if_false, mul_size_checked_ok h3]
    rfl

/-- [B] realloc (all four cases; across the 512-byte boundary in both directions) preserves
`min old new` bytes, keeps every other live block live and writes to none of them -/
theorem c03_realloc_contents (s : State) (hr : Reachable s) (p : Ptr) (old new os big : Nat)
    (hp : (p, old) ∈ s.live) (hnew : 1 ≤ new) (hlt : new < SIZE_MOD) (hos : s.pages os = none) (hbig : s.parent big = none) :
    ∃ s' q, realloc s p old new os big = (s', some q) ∧ (q, new) ∈ s'.live ∧
      (∀ i, i < min old new → s'.mem (q.at i) = s.mem (p.at i)) ∧
      (∀ r n, (r, n) ∈ s.live → r ≠ p → (r, n) ∈ s'.live ∧ r ≠ q ∧ ∀ i, i < n → s'.mem (r.at i) = s.mem (r.at i)) ∧
      (∀ r n, (r, n) ∈ s'.live → (r = q ∧ n = new) ∨ ((r, n) ∈ s.live ∧ r ≠ p)) := by
  obtain ⟨s', q, heq, _, h1, h2, h3, h4⟩ := realloc_spec (reachable_inv hr) p old new os big hp hnew hlt hos hbig
  exact ⟨s', q, heq, h1, h2, h3, h4⟩

/-- calloc returns a block of zeros and writes to no other live block -/
theorem c03_calloc_contents (s : State) (hr : Reachable s) (num size os big : Nat) (h1 : num ≠ 0) (h2 : size ≠ 0)
    (hlt : num * size < SIZE_MOD) (hos : s.pages os = none) (hbig : s.parent big = none) :
    ∃ s' q, calloc s num size os big = (s', some q) ∧ q ∉ keys s.live ∧ s'.live = s.live ++ [(q, num * size)] ∧
      (∀ i, i < num * size → s'.mem (q.at i) = 0) ∧
      (∀ r n, (r, n) ∈ s.live → ∀ i, i < n → s'.mem (r.at i) = s.mem (r.at i)) := by
  obtain ⟨s', q, heq, _, k1, k2, k3, k4⟩ := calloc_spec (reachable_inv hr) num size os big h1 h2 hlt hos hbig
  exact ⟨s', q, heq, k1, k2, k3, k4⟩

/-- release and the other actions never disturb the contents of other live blocks: an action
changes bytes only inside the block it is allowed to write -/
theorem c03_frame (s : State) (hr : Reachable s) (a : Act) (r : Ptr) (n : Nat) (hm : (r, n) ∈ s.live)
    (hw : ∀ bs, a ≠ .write r bs) (hc : ∀ src k, a ≠ .copy r src k) :
    ∀ i, i < n → (act s a).1.mem (r.at i) = s.mem (r.at i) := by
  have h := reachable_inv hr
  intro i hi
  cases a with
  | alloc size os big =>
    by_cases hg : size = 0 ∨ size ≥ SIZE_MOD ∨ (s.pages os).isSome ∨ (s.parent big).isSome
    · simp only [act, hg, if_true]
    · have h0 : size ≠ 0 := fun e => hg (Or.inl e)
      have hlt : size < SIZE_MOD := by
        rcases Nat.lt_or_ge size SIZE_MOD with x | x
        · exact x
        · exact absurd (Or.inr (Or.inl x)) hg
      have hos : s.pages os = none := by
        cases hx : s.pages os with
        | none => rfl
        | some v => exact absurd (Or.inr (Or.inr (Or.inl (by rw [hx]; rfl)))) hg
      have hbig : s.parent big = none := by
        cases hx : s.parent big with
        | none => rfl
        | some v => exact absurd (Or.inr (Or.inr (Or.inr (by rw [hx]; rfl)))) hg
      obtain ⟨s', p, heq, _, _, hmm, _⟩ := act_alloc_spec h size os big h0 hlt hos hbig
      rw [heq]; simp only; rw [hmm]
  | free p =>
    by_cases hp : p ∈ keys s.live
    · rw [(act_free_spec h p hp).2.2.1]
    · simp only [act, hp, if_false]
  | write p bs =>
    simp only [act]
    split
    · rename_i m hs
      split
      · rename_i hle
        simp only
        have hp : (p, m) ∈ s.live := sizeOf?_some hs
        have hne : r ≠ p := fun e => hw bs (by rw [e])
        apply writeBytes_frame
        intro j hj
        exact live_disjoint h hm hp hne i j hi (by omega)
      · rfl
    · rfl
  | copy dst src k =>
    simp only [act]
    split
    · rename_i nd ns hd hs
      split
      · rename_i hle
        simp only
        have hp : (dst, nd) ∈ s.live := sizeOf?_some hd
        have hne : r ≠ dst := fun e => hc src k (by rw [e])
        apply writeBytes_frame
        intro j hj
        rw [readBytes_length] at hj
        exact live_disjoint h hm hp hne i j hi (by omega)
      · rfl
    · rfl
  | resize p k =>
    simp only [act]
    split
    · split <;> rfl
    · rfl

/-- the purge loop of `s_sba_free_to_bin` as written — `chunk_idx` from `length` down to 0,
swap-with-last removal, and `page_start` / `page_end` / the range test GENERATED from the current
source text (`Gen/SbaConsts.lean`: `purgeStart`, `purgeEnd`, `purgeHit`) — removes exactly the chunks
of the drained page from a list of chunk addresses of the bin's slot grid, keeping every other chunk
exactly once; this includes the chunk at the very end of a page (32-byte class) -/
theorem c03_purge_exact (fc : List Addr) (p i : Nat) (hi : i < binCount) (hfc : ∀ g ∈ fc, SlotOff (binSize i) g.off) :
    (purgeLoop (purgeStart (p * pageSize) (binSize i)) (purgeEnd (p * pageSize) (binSize i)) fc.length fc).Perm
      (fc.filter (fun g => g.page != p)) :=
  purge_perm_page p (binSize_mem hi) hfc

/-! ### interleavings -/

/-- `m` is a merge (interleaving) of the per-thread action sequences `ts` -/
inductive IsMerge : List (List Act) → List Act → Prop where
  | done (ts : List (List Act)) : (∀ t, t ∈ ts → t = []) → IsMerge ts []
  | step (ts : List (List Act)) (k : Nat) (a : Act) (rest m : List Act) :
      ts[k]? = some (a :: rest) → IsMerge (ts.set k rest) m → IsMerge ts (a :: m)

/-- [A] every clause holds after every merge of per-thread action sequences (bin operations are
atomic actions of the model: a merged history is a history).

WHAT THIS ASSUMES ABOUT THE SOURCE: each `Act.alloc` / `Act.free` is ONE step — for `free` that
includes the working-page test and the decision to return the page.  The theorem says nothing
about a program that reads `bin->page_cursor` (or any other bin state) before `sba->lock` and acts
on the stale value inside the lock; such a program is a different transition system (split step).
The current source evaluates the test inside the locked part; this is checked textually at
regeneration (`check_critical_sections`) and by the scheduled run of the real allocator under
`detsched` (every single preemption at lock/unlock points, per size class). -/
theorem c03_linearised (mt : Bool) (ts : List (List Act)) (m : List Act) (_hm : IsMerge ts m) :
    let s := run (init mt) m
    FreeListsClause s ∧ PartitionClause s ∧ DisjointClause s ∧ AllocCountClause s ∧ BytesActiveClause s ∧
      QuiescentClause s ∧ DestroyClause s := by
  have hr : Reachable (run (init mt) m) := ⟨mt, m, rfl⟩
  exact ⟨c03_free_lists _ hr, c03_partition _ hr, c03_disjoint _ hr, c03_alloc_count _ hr, c03_bytes_active _ hr,
    c03_quiescent _ hr, c03_destroy _ hr⟩

/-! ### the hypotheses are satisfiable by non-trivial states -/

/-- a merge of two thread sequences exists -/
example : IsMerge [[.alloc 48 0 0, .free (.chunk ⟨0, 32⟩)], [.alloc 600 1 0]]
    [.alloc 48 0 0, .alloc 600 1 0, .free (.chunk ⟨0, 32⟩)] := by
  refine .step _ 0 _ [.free (.chunk ⟨0, 32⟩)] _ rfl ?_
  refine .step _ 1 _ [] _ rfl ?_
  refine .step _ 0 _ [] _ rfl ?_
  exact .done _ (by intro t ht; simp at ht; exact ht)

/-- concrete reachable state with a live chunk and a live parent block (hypotheses of the realloc
theorem): 48 bytes are served at page 0 offset 32 by bin 1, 600 bytes by the parent -/
example : (run (init false) [.alloc 48 0 0, .alloc 600 1 0]).live = [(.chunk ⟨0, 32⟩, 48), (.big 0, 600)] := by
  decide

/-- draining a page: after 7 allocations of 512 bytes the page is full (moved to the active list);
freeing all of them returns the page, nothing is held afterwards -/
example :
    let s := run (init false) ((List.range 7).map (fun i => Act.alloc 512 (i + 10) 0))
    (s.bins 4).activePages = [10] ∧ (s.bins 4).cursor = none ∧ bytesActive s = 3584 := by
  decide

/-- … an eighth block opens a second page; releasing the first seven drains the first page, which
is purged and returned to the OS (the quiescence premise `live = []` is reachable too) -/
example :
    let allocs := (List.range 8).map (fun i => Act.alloc 512 (i + 10) 0)
    let frees := (List.range 7).map (fun k => Act.free (.chunk ⟨10, 32 + 512 * k⟩))
    let s := run (init true) (allocs ++ frees)
    (s.pages 10).isNone ∧ (s.bins 4).activePages = [] ∧ (s.bins 4).freeChunks = [] ∧
      s.live = [(.chunk ⟨17, 32⟩, 512)] ∧ bytesActive s = 512 ∧
      (run s [Act.free (.chunk ⟨17, 32⟩)]).live = [] := by
  decide

end AwsVerif.Props.C03
