import AwsVerif.Proofs.C10.FloatInt
/-! C10: what `aws_cbor_encoder_write_float` chooses, against the numeric specification. -/
namespace AwsVerif.Proofs.C10
open AwsVerif.Cbor

/-- what `narrow` returns, by path -/
theorem narrow_cases (n : Nat) (hfin : fExp n ≠ 2047) :
    (∃ f, intPath n = some f ∧ narrow n = f) ∨
    (intPath n = none ∧ n % 2^63 ≤ FLT_MAX_BITS ∧ ∃ f, toFloat32? n = some f ∧ narrow n = .single f) ∨
    (intPath n = none ∧ (¬ n % 2^63 ≤ FLT_MAX_BITS ∨ toFloat32? n = none) ∧ narrow n = .double n) := by
  unfold narrow
  rw [if_neg hfin]
  cases hi : intPath n with
  | some f => exact Or.inl ⟨f, rfl, rfl⟩
  | none =>
    right
    show (none = none ∧ _) ∨ (none = none ∧ _)
    by_cases hr : n % 2^63 ≤ FLT_MAX_BITS
    · rw [if_pos hr]
      cases ht : toFloat32? n with
      | some f => exact Or.inl ⟨rfl, hr, f, rfl, rfl⟩
      | none => exact Or.inr ⟨rfl, Or.inr rfl, rfl⟩
    · rw [if_neg hr]
      exact Or.inr ⟨rfl, Or.inl hr, rfl⟩

theorem narrow_value (n : Nat) (hn : n < 2^64) (hfin : fExp n ≠ 2047) :
    (∀ v, narrow n = .uint v → v < 2^63 ∧ scaled64 n = (v : Int) * 2^1074) ∧
    (∀ v, narrow n = .negint v → v < 2^63 ∧ scaled64 n = -((v : Int) + 1) * 2^1074) ∧
    (∀ f, narrow n = .single f → f < 2^32 ∧ e32 f ≠ 255 ∧ scaled64 n = scaled32 f * 2^925 ∧ widen f = n) ∧
    (∀ d, narrow n = .double d → d = n) := by
  rcases narrow_cases n hfin with ⟨f, hi, hnar⟩ | ⟨hi, hr, f, ht, hnar⟩ | ⟨hi, _, hnar⟩
  · have hs := intPath_sound n hn f hi
    rw [hnar]
    refine ⟨?_, ?_, ?_, ?_⟩
    · intro v hv; subst hv
      obtain ⟨h1, h2, h3⟩ := hs
      refine ⟨h1, ?_⟩
      unfold scaled64
      rcases h3 with h3 | h3
      · rw [if_neg (by omega), h2, cast_mul_pow]
      · subst h3
        rw [h2, Nat.zero_mul, Nat.cast_zero, Int.zero_mul]
        split <;> simp
    · intro v hv; subst hv
      obtain ⟨h1, h2, h3⟩ := hs
      refine ⟨h1, ?_⟩
      unfold scaled64
      rw [if_pos h2, h3, cast_mul_pow, Nat.cast_add, Nat.cast_one, Int.neg_mul]
    · intro g hg; subst hg; exact hs.elim
    · intro g hg; subst hg; exact hs.elim
  · obtain ⟨h1, h2, h3, h4, h5⟩ := toFloat32_sound n hn f ht
    rw [hnar]
    refine ⟨(by intro v hv; cases hv), (by intro v hv; cases hv), ?_, (by intro v hv; cases hv)⟩
    intro g hg
    cases hg
    refine ⟨h1, h2, ?_, h5⟩
    unfold scaled64 scaled32
    rw [h3, h4, cast_mul_pow]
    split
    · rw [Int.neg_mul]
    · rfl
  · rw [hnar]
    refine ⟨(by intro v hv; cases hv), (by intro v hv; cases hv), (by intro v hv; cases hv), ?_⟩
    intro d hd; cases hd; rfl

theorem narrow_smallest (n : Nat) (hn : n < 2^64) (hfin : fExp n ≠ 2047) :
    (IsInt64 n → ∃ v, narrow n = .uint v ∨ narrow n = .negint v) ∧
    (¬ IsInt64 n → IsSingle n → ∃ f, narrow n = .single f) ∧
    (¬ IsInt64 n → ¬ IsSingle n → narrow n = .double n) := by
  have hint_none : ¬ IsInt64 n → intPath n = none := by
    intro hni
    cases hi : intPath n with
    | none => rfl
    | some f =>
      exfalso; apply hni
      have hs := intPath_sound n hn f hi
      cases f with
      | uint v => exact isInt64_of_uint n v hs.1 hs.2.1 hs.2.2
      | negint v => exact isInt64_of_negint n v hs.1 hs.2.1 hs.2.2
      | single _ => exact hs.elim
      | double _ => exact hs.elim
  refine ⟨?_, ?_, ?_⟩
  · intro hi
    obtain ⟨a, ha, hb⟩ := isInt64_mag n hi
    obtain ⟨f, hf, v, hv⟩ := intPath_complete n hn a ha hb
    have : narrow n = f := by
      unfold narrow; rw [if_neg hfin, hf]
    rw [this]; exact ⟨v, hv⟩
  · intro hni hsi
    have hnone := hint_none hni
    obtain ⟨f, hf, he, hm⟩ := isSingle_mag n hsi
    obtain ⟨hr, hsome⟩ := toFloat32_complete n hn f hf he hm
    obtain ⟨g, hg⟩ := Option.isSome_iff_exists.mp hsome
    refine ⟨g, ?_⟩
    unfold narrow; rw [if_neg hfin, hnone]
    show (if n % 2^63 ≤ FLT_MAX_BITS then _ else _) = _
    rw [if_pos hr, hg]
  · intro hni hns
    have hnone := hint_none hni
    rcases narrow_cases n hfin with ⟨f, hi, _⟩ | ⟨_, _, f, ht, _⟩ | ⟨_, _, hnar⟩
    · rw [hnone] at hi; cases hi
    · exfalso; apply hns
      obtain ⟨h1, h2, h3, h4, _⟩ := toFloat32_sound n hn f ht
      exact isSingle_of_sound n f h1 h2 h3 h4
    · exact hnar

theorem narrow_nonfinite (n : Nat) (hn : n < 2^64) (hinf : fExp n = 2047) :
    ∃ f, narrow n = .single f ∧ f < 2^32 ∧ e32 f = 255 ∧ fExp (widen f) = 2047 ∧ fSign (widen f) = fSign n ∧
      (fMant (widen f) = 0 ↔ fMant n = 0) ∧ (fMant n = 0 → widen f = n) := by
  obtain ⟨h1, h2, _, _, h5, h6, h7, h8⟩ := castNonFinite_sound n hn hinf
  refine ⟨castNonFinite n, ?_, h1, h2, h5, h6, h7, h8⟩
  unfold narrow; rw [if_pos hinf]

end AwsVerif.Proofs.C10
