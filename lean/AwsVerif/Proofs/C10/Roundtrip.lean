import AwsVerif.Proofs.C10.Heads
import AwsVerif.Proofs.C10.FloatBounds
/-! C10 helper lemmas: one encoded item is decoded back by the stream decoder; the pop loop. -/
namespace AwsVerif.Proofs.C10
open AwsVerif.Cbor

/-- C's `size_t` bound on what can be handed to `write_bytes` / `write_text` -/
def ItemOk : Item → Prop
  | .bytes b => b.length < 2^64
  | .text b => b.length < 2^64
  | _ => True

theorem streamDecode_single (f : Nat) (hf : f < 2^32) (rest : List UInt8) :
    streamDecode (encUint32 f 0xE0 ++ rest) = .ok (.float (UInt64.ofNat (widen f))) 5 := by
  have hb : (b8 (0x1A + 0xE0)).toNat = 250 := by rw [b8_toNat]
  have hl : loadBE [UInt8.ofNat (f / 16777216), UInt8.ofNat (f / 65536), UInt8.ofNat (f / 256), UInt8.ofNat f] = f := by
    rw [loadBE_4]; simp only [UInt8.toNat_ofNat']; omega
  simp only [encUint32, List.cons_append, List.nil_append, streamDecode, hb, decodeSimple]
  simp [hl]

theorem streamDecode_double (d : Nat) (hd : d < 2^64) (rest : List UInt8) :
    streamDecode (encUint64 d 0xE0 ++ rest) = .ok (.float (UInt64.ofNat d)) 9 := by
  have hb : (b8 (0x1B + 0xE0)).toNat = 251 := by rw [b8_toNat]
  have hl : loadBE [UInt8.ofNat (d / 72057594037927936), UInt8.ofNat (d / 281474976710656),
      UInt8.ofNat (d / 1099511627776), UInt8.ofNat (d / 4294967296), UInt8.ofNat (d / 16777216),
      UInt8.ofNat (d / 65536), UInt8.ofNat (d / 256), UInt8.ofNat d] = d := by
    rw [loadBE_8]; simp only [UInt8.toNat_ofNat']; omega
  simp only [encUint64, List.cons_append, List.nil_append, streamDecode, hb, decodeSimple]
  simp [hl]

theorem streamDecode_encItem (i : Item) (hi : ItemOk i) (rest : List UInt8) :
    streamDecode (encItem i ++ rest) = .ok (normalise i) (encItem i).length := by
  cases i with
  | uint v =>
    have := streamDecode_head 0 (by omega) v.toNat v.toNat_lt rest
    simpa [encItem, normalise, headResult, encUint_length] using this
  | negint v =>
    have := streamDecode_head 1 (by omega) v.toNat v.toNat_lt rest
    simpa [encItem, normalise, headResult, encUint_length] using this
  | arrayStart v =>
    have := streamDecode_head 4 (by omega) v.toNat v.toNat_lt rest
    simpa [encItem, normalise, headResult, encUint_length] using this
  | mapStart v =>
    have := streamDecode_head 5 (by omega) v.toNat v.toNat_lt rest
    simpa [encItem, normalise, headResult, encUint_length] using this
  | tag v =>
    have := streamDecode_head 6 (by omega) v.toNat v.toNat_lt rest
    simpa [encItem, normalise, headResult, encUint_length] using this
  | bytes b =>
    have := streamDecode_head 2 (by omega) b.length hi (b ++ rest)
    simpa [encItem, normalise, headResult, encUint_length] using this
  | text b =>
    have := streamDecode_head 3 (by omega) b.length hi (b ++ rest)
    simpa [encItem, normalise, headResult, encUint_length] using this
  | float bits =>
    have hok := narrow_ok bits.toNat bits.toNat_lt
    simp only [encItem, normalise]
    cases hn : narrow bits.toNat with
    | uint v =>
      rw [hn] at hok
      have := streamDecode_head 0 (by omega) v (by simp only [FormOk] at hok; omega) rest
      simpa [encForm, headResult, encUint_length] using this
    | negint v =>
      rw [hn] at hok
      have := streamDecode_head 1 (by omega) v (by simp only [FormOk] at hok; omega) rest
      simpa [encForm, headResult, encUint_length] using this
    | single f =>
      rw [hn] at hok
      simpa [encForm, encUint32] using streamDecode_single f hok rest
    | double d =>
      have hd : d = bits.toNat := by
        unfold narrow at hn
        split at hn
        · simp at hn
        · split at hn
          · rename_i f hf
            subst hn
            -- intPath never yields `.double`
            unfold intPath at hf
            simp only at hf
            repeat' split at hf
            all_goals simp at hf
          · split at hn
            · split at hn <;> simp at hn
              exact hn.symm
            · simp at hn; exact hn.symm
      subst hd
      simpa [encForm, encUint64] using streamDecode_double bits.toNat bits.toNat_lt rest
  | bool b => cases b <;> rfl
  | null => rfl
  | undefined => rfl
  | indefBytesStart => rfl
  | indefTextStart => rfl
  | indefArrayStart => rfl
  | indefMapStart => rfl
  | brk => rfl

theorem popAny_of_streamDecode (s : List UInt8) (it : Item) (n : Nat) (h : streamDecode s = .ok it n) :
    popAny { src := s, cache := none, err := none } = ({ src := s.drop n, cache := none, err := none }, .ok it) := by
  cases it <;>
    simp [popAny, peekType, decodeNext, h, Item.ty, popWith, mapRes, selUint, selNegint, selFloat, selBool, selText,
      selBytes, selMap, selArray, selTag, popSimple, consumeSingle]

theorem encItem_length_pos (i : Item) : 1 ≤ (encItem i).length := by
  have hl : ∀ v, 1 ≤ headLen v := by
    intro v; unfold headLen; repeat' split
    all_goals omega
  cases i <;> simp [encItem, encUint_length, hl, encUint8]
  · rename_i bits
    cases narrow bits.toNat <;> simp [encForm, encUint_length, hl, encUint32, encUint64]
  · have := hl (List.length ‹List UInt8›); omega
  · have := hl (List.length ‹List UInt8›); omega
  · rename_i b; cases b <;> simp

theorem popAny_encItem (i : Item) (hi : ItemOk i) (rest : List UInt8) :
    popAny { src := encItem i ++ rest, cache := none, err := none } =
      ({ src := rest, cache := none, err := none }, .ok (normalise i)) := by
  rw [popAny_of_streamDecode _ _ _ (streamDecode_encItem i hi rest)]
  simp

theorem decodeAllAux_encodeAll (is : List Item) (his : ∀ i ∈ is, ItemOk i) :
    ∀ (fuel : Nat) (acc : List Item), is.length ≤ fuel →
      decodeAllAux fuel { src := encodeAll is, cache := none, err := none } acc =
        ({ src := [], cache := none, err := none }, .ok (acc.reverse ++ is.map normalise)) := by
  induction is with
  | nil =>
    intro fuel acc _
    cases fuel <;> simp [decodeAllAux, encodeAll]
  | cons i is ih =>
    intro fuel acc hf
    cases fuel with
    | zero => simp at hf
    | succ fuel =>
      have hpos := encItem_length_pos i
      have hne : (encItem i ++ encodeAll is).isEmpty = false := by
        cases h : encItem i with
        | nil => rw [h] at hpos; simp at hpos
        | cons a l => rfl
      simp only [decodeAllAux, encodeAll, hne]
      rw [popAny_encItem i (his i (by simp))]
      simp only [Bool.false_eq_true, false_and, if_false]
      rw [ih (fun j hj => his j (by simp [hj])) fuel (normalise i :: acc) (by simpa using hf)]
      simp

theorem encodeAll_length_ge (is : List Item) : is.length ≤ (encodeAll is).length := by
  induction is with
  | nil => simp [encodeAll]
  | cons i is ih => have := encItem_length_pos i; simp [encodeAll]; omega

theorem decodeAll_encodeAll (is : List Item) (his : ∀ i ∈ is, ItemOk i) :
    decodeAll (encodeAll is) = ({ src := [], cache := none, err := none }, .ok (is.map normalise)) := by
  unfold decodeAll Decoder.new
  rw [decodeAllAux_encodeAll is his _ [] (encodeAll_length_ge is)]
  simp
end AwsVerif.Proofs.C10
