import AwsVerif.Proofs.C10.FloatBounds
import Mathlib.Tactic.Ring
import Mathlib.Tactic.Linarith
/-! C10: numeric meaning of binary64 / binary32 patterns as scaled integers, and the soundness of
the narrowing of `aws_cbor_encoder_write_float` with respect to it.

A finite double is `(-1)^s * mag64 * 2^-1074`, a finite float is `(-1)^s * mag32 * 2^-149`
(every finite value of the format is an integer multiple of the smallest subnormal), so
"same numeric value" between a double `n` and a float `f` is `mag64 n = mag32 f * 2^925` with equal
signs (or both magnitudes zero), and between a double and an integer `z` it is
`mag64 n = |z| * 2^1074`. No rationals are needed. -/
namespace AwsVerif.Proofs.C10
open AwsVerif.Cbor

/-- magnitude of a finite double in units of 2^-1074 -/
def mag64 (n : Nat) : Nat := if fExp n = 0 then fMant n else (2^52 + fMant n) * 2^(fExp n - 1)
def s32 (f : Nat) : Nat := f / 2^31 % 2
def e32 (f : Nat) : Nat := f / 2^23 % 256
def m32 (f : Nat) : Nat := f % 2^23
/-- magnitude of a finite float in units of 2^-149 -/
def mag32 (f : Nat) : Nat := if e32 f = 0 then m32 f else (2^23 + m32 f) * 2^(e32 f - 1)

theorem pow_split {a b : Nat} (h : b ≤ a) : 2^a = 2^(a - b) * 2^b := by
  rw [← Nat.pow_add]; congr 1; omega

theorem two_pow_pos (k : Nat) : 0 < 2^k := Nat.pow_pos (by decide)

/-- fields of an assembled binary32 pattern -/
theorem fields32 (s e m : Nat) (hs : s ≤ 1) (he : e < 256) (hm : m < 2^23) :
    s32 (s * 2^31 + e * 2^23 + m) = s ∧ e32 (s * 2^31 + e * 2^23 + m) = e ∧ m32 (s * 2^31 + e * 2^23 + m) = m := by
  unfold s32 e32 m32; omega

theorem widen_fields (f : Nat) :
    widen f = (if e32 f = 255 then
        s32 f * 2^63 + 0x7FF * 2^52 + (if m32 f = 0 then 0 else (if m32 f / 2^22 = 1 then m32 f else m32 f + 2^22) * 2^29)
      else if e32 f = 0 then
        (if m32 f = 0 then s32 f * 2^63
         else s32 f * 2^63 + (Nat.log2 (m32 f) + 874) * 2^52 + (m32 f - 2^(Nat.log2 (m32 f))) * 2^(52 - Nat.log2 (m32 f)))
      else s32 f * 2^63 + (e32 f + 896) * 2^52 + m32 f * 2^29) := rfl


theorem sound_normal (s e m : Nat) (hs : s ≤ 1) (he : 897 ≤ e ∧ e ≤ 1150) (hm : m < 2^52) (h29 : m % 2^29 = 0) :
    e32 (s * 2^31 + (e - 896) * 2^23 + m / 2^29) ≠ 255 ∧
    s32 (s * 2^31 + (e - 896) * 2^23 + m / 2^29) = s ∧
    (2^52 + m) * 2^(e - 1) = mag32 (s * 2^31 + (e - 896) * 2^23 + m / 2^29) * 2^925 ∧
    widen (s * 2^31 + (e - 896) * 2^23 + m / 2^29) = s * 2^63 + e * 2^52 + m := by
  obtain ⟨h3, h1, h2⟩ := fields32 s (e - 896) (m / 2^29) hs (by omega) (by omega)
  refine ⟨by omega, h3, ?_, ?_⟩
  · have hne : e - 896 ≠ 0 := by omega
    simp only [mag32, h1, h2, hne, if_false]
    have hM : 2^52 + m = (2^23 + m / 2^29) * 2^29 := by omega
    have hp : (2:Nat)^(e - 1) = 2^(e - 896 - 1) * 2^896 := by
      rw [← Nat.pow_add]; congr 1; omega
    rw [hM, hp]
    have : (2:Nat)^925 = 2^29 * 2^896 := by rw [← Nat.pow_add]
    rw [this]
    generalize (2:Nat)^896 = A
    ring
  · rw [widen_fields, h1, h2, h3]
    have h255 : e - 896 ≠ 255 := by omega
    have h0 : e - 896 ≠ 0 := by omega
    simp only [h255, h0, if_false]
    omega

theorem sound_sub (s e m : Nat) (hs : s ≤ 1) (he : 874 ≤ e ∧ e ≤ 896) (hm : m < 2^52)
    (hmod : (2^52 + m) % 2^(926 - e) = 0) :
    e32 (s * 2^31 + (2^52 + m) / 2^(926 - e)) ≠ 255 ∧
    s32 (s * 2^31 + (2^52 + m) / 2^(926 - e)) = s ∧
    (2^52 + m) * 2^(e - 1) = mag32 (s * 2^31 + (2^52 + m) / 2^(926 - e)) * 2^925 ∧
    widen (s * 2^31 + (2^52 + m) / 2^(926 - e)) = s * 2^63 + e * 2^52 + m := by
  generalize hk : 926 - e = k at hmod ⊢
  have hk30 : 30 ≤ k := by omega
  have hk52 : k ≤ 52 := by omega
  generalize hq : (2^52 + m) / 2^k = q
  have hM : 2^52 + m = q * 2^k := by
    have := Nat.div_add_mod (2^52 + m) (2^k)
    rw [hmod, hq] at this; rw [← this]; ring
  have h52 : (2:Nat)^52 = 2^(52 - k) * 2^k := pow_split hk52
  have hkpos : 0 < 2^k := two_pow_pos k
  have hqlo : 2^(52 - k) ≤ q := by
    have : 2^(52-k) * 2^k ≤ q * 2^k := by rw [← h52, ← hM]; omega
    exact Nat.le_of_mul_le_mul_right this hkpos
  have hqhi : q < 2^(52 - k + 1) := by
    have : q * 2^k < 2^(52 - k + 1) * 2^k := by
      have : (2:Nat)^(52 - k + 1) * 2^k = 2 * 2^52 := by rw [h52, Nat.pow_succ]; ring
      rw [this, ← hM]; omega
    exact Nat.lt_of_mul_lt_mul_right this
  have hq23 : q < 2^23 := by
    calc q < 2^(52 - k + 1) := hqhi
      _ ≤ 2^23 := pow_ge_of_le (by omega)
  have hq0 : q ≠ 0 := by
    have : 0 < 2^(52-k) := two_pow_pos _
    omega
  obtain ⟨h3, h1, h2⟩ := fields32 s 0 q hs (by omega) hq23
  simp only [Nat.zero_mul, Nat.add_zero] at h1 h2 h3
  refine ⟨by omega, h3, ?_, ?_⟩
  · simp only [mag32, h1, h2, if_true, hM]
    have : (2:Nat)^925 = 2^k * 2^(e - 1) := by
      rw [← Nat.pow_add]; congr 1; omega
    rw [this]; ring
  · rw [widen_fields, h1, h2, h3]
    have hlog : Nat.log2 q = 52 - k := (Nat.log2_eq_iff hq0).2 ⟨hqlo, hqhi⟩
    have h255 : (0:Nat) ≠ 255 := by omega
    simp only [h255, hq0, hlog, if_false, if_true]
    have hkk : 52 - (52 - k) = k := by omega
    rw [hkk]
    have hmm : (q - 2^(52-k)) * 2^k = m := by
      rw [Nat.sub_mul, ← h52, ← hM]; omega
    rw [hmm]
    have : 52 - k + 874 = e := by omega
    rw [this]


/-- soundness of `toFloat32?`: the float it returns is finite, has the double's sign and value, and
widening it gives back the double's pattern -/
theorem toFloat32_sound (n : Nat) (hn : n < 2^64) (f : Nat) (h : toFloat32? n = some f) :
    f < 2^32 ∧ e32 f ≠ 255 ∧ s32 f = fSign n ∧ mag64 n = mag32 f * 2^925 ∧ widen f = n := by
  have hlt := toFloat32_lt n hn f h
  obtain ⟨hnf, hs, he, hm, _⟩ := fields_of n hn
  refine ⟨hlt, ?_⟩
  unfold toFloat32? at h
  simp only at h
  split at h
  · -- zero
    rename_i he0
    split at h <;> simp only [Option.some.injEq, reduceCtorEq] at h
    rename_i hm0
    subst h
    obtain ⟨h3, h1, h2⟩ := fields32 (fSign n) 0 0 hs (by omega) (by omega)
    simp only [Nat.zero_mul, Nat.add_zero] at h1 h2 h3
    refine ⟨by omega, h3, ?_, ?_⟩
    · simp only [mag64, mag32, he0, hm0, h1, h2, if_true, Nat.zero_mul]
    · rw [widen_fields, h1, h2, h3]
      have h255 : (0:Nat) ≠ 255 := by omega
      simp only [h255, if_false, if_true]
      omega
  · rename_i he0
    split at h
    · rename_i her
      split at h <;> simp only [Option.some.injEq, reduceCtorEq] at h
      rename_i hm29
      subst h
      obtain ⟨a, b, c, d⟩ := sound_normal (fSign n) (fExp n) (fMant n) hs her hm hm29
      refine ⟨a, b, ?_, ?_⟩
      · simp only [mag64, he0, if_false]; exact c
      · rw [d]; exact hnf.symm
    · split at h
      · rename_i her
        split at h <;> simp only [Option.some.injEq, reduceCtorEq] at h
        rename_i hmod
        subst h
        obtain ⟨a, b, c, d⟩ := sound_sub (fSign n) (fExp n) (fMant n) hs her hm hmod
        refine ⟨a, b, ?_, ?_⟩
        · simp only [mag64, he0, if_false]; exact c
        · rw [d]; exact hnf.symm
      · simp at h


/-- magnitude (units of 2^-1074) from the fields -/
def magOf (e m : Nat) : Nat := if e = 0 then m else (2^52 + m) * 2^(e - 1)

theorem mag64_eq (n : Nat) : mag64 n = magOf (fExp n) (fMant n) := rfl

/-- when the truncation drops nothing the double *is* the integer `truncMag` -/
theorem integral_value (e m : Nat) (h : isIntegral e m = true) : magOf e m = truncMag e m * 2^1074 := by
  unfold isIntegral at h
  unfold magOf truncMag
  split
  · rename_i he0
    simp only [he0, if_true, decide_eq_true_eq] at h
    rw [h, Nat.zero_mul]
  · rename_i he0
    simp only [he0, if_false] at h
    split
    · rename_i hge
      have : (2:Nat)^(e - 1) = 2^(e - 1075) * 2^1074 := by
        rw [← Nat.pow_add]; congr 1; omega
      rw [this, Nat.mul_assoc]
    · rename_i hlt
      simp only [hlt, if_false, decide_eq_true_eq] at h
      generalize hk : 1075 - e = k at h ⊢
      have hM : 2^52 + m = (2^52 + m) / 2^k * 2^k := by
        have := Nat.div_add_mod (2^52 + m) (2^k)
        rw [h] at this; rw [Nat.mul_comm]; omega
      have : (2:Nat)^1074 = 2^k * 2^(e - 1) := by
        rw [← Nat.pow_add]; congr 1; omega
      rw [this]
      generalize (2^52 + m) / 2^k = q at hM ⊢
      rw [hM]; ring

theorem intPath_sound (n : Nat) (hn : n < 2^64) (f : FloatForm) (h : intPath n = some f) :
    match f with
    | .uint v => v < 2^63 ∧ mag64 n = v * 2^1074 ∧ (fSign n = 0 ∨ v = 0)
    | .negint v => v < 2^63 ∧ fSign n = 1 ∧ mag64 n = (v + 1) * 2^1074
    | _ => False := by
  have hok := intPath_ok n hn f h
  obtain ⟨_, hs, _, hm, hr⟩ := fields_of n hn
  unfold intPath at h
  simp only at h
  split at h
  · split at h
    · simp at h
    · split at h
      · rename_i hint
        have hv := integral_value _ _ hint
        rw [← mag64_eq] at hv
        split at h <;> simp only [Option.some.injEq] at h <;> subst h <;> simp only [FormOk] at hok ⊢
        · rename_i hneg
          refine ⟨hok, hneg.1, ?_⟩
          have : truncMag (fExp n) (fMant n) - 1 + 1 = truncMag (fExp n) (fMant n) := by
            have := hneg.2; omega
          rw [this]; exact hv
        · rename_i hneg
          refine ⟨hok, hv, ?_⟩
          by_cases h0 : fSign n = 0
          · exact Or.inl h0
          · right; by_contra hne; exact hneg ⟨by omega, hne⟩
      · simp at h
  · simp at h


/-- infinities and NaNs: written as a float of the same class and sign; an infinity widens back to
the same pattern, a NaN to a NaN -/
theorem castNonFinite_sound (n : Nat) (hn : n < 2^64) (hinf : fExp n = 2047) :
    castNonFinite n < 2^32 ∧ e32 (castNonFinite n) = 255 ∧ s32 (castNonFinite n) = fSign n ∧
    (m32 (castNonFinite n) = 0 ↔ fMant n = 0) ∧
    fExp (widen (castNonFinite n)) = 2047 ∧ fSign (widen (castNonFinite n)) = fSign n ∧
    (fMant (widen (castNonFinite n)) = 0 ↔ fMant n = 0) ∧ (fMant n = 0 → widen (castNonFinite n) = n) := by
  obtain ⟨hnf, hs, he, hm, _⟩ := fields_of n hn
  have hlt := castNonFinite_lt n hn
  -- f = s * 2^31 + 255 * 2^23 + x with x < 2^23, x = 0 iff mantissa = 0, and bit 22 of x set otherwise
  obtain ⟨x, hx, hx23, hx0, hxq⟩ : ∃ x, castNonFinite n = fSign n * 2^31 + 255 * 2^23 + x ∧ x < 2^23 ∧
      (x = 0 ↔ fMant n = 0) ∧ (x ≠ 0 → x / 2^22 = 1) := by
    unfold castNonFinite
    simp only
    split
    · exact ⟨0, by omega, by omega, by omega, by omega⟩
    · split
      · exact ⟨fMant n / 2^29, by omega, by omega, by omega, by omega⟩
      · exact ⟨fMant n / 2^29 + 2^22, by omega, by omega, by omega, by omega⟩
  obtain ⟨h3, h1, h2⟩ := fields32 (fSign n) 255 x hs (by omega) hx23
  rw [hx]
  rw [← hx]
  refine ⟨hlt, ?_⟩
  rw [hx]
  refine ⟨h1, h3, by rw [h2]; exact hx0, ?_⟩
  rw [widen_fields, h1, h2, h3]
  simp only [if_true]
  by_cases hz : x = 0
  · have hm0 := hx0.1 hz
    simp only [hz, if_true]
    unfold fExp fSign fMant at *
    omega
  · have hq := hxq hz
    have hm0 : fMant n ≠ 0 := fun h => hz (hx0.2 h)
    simp only [hz, hq, if_false, if_true]
    unfold fExp fSign fMant at *
    omega

end AwsVerif.Proofs.C10
