import AwsVerif.Proofs.C10.FloatSpec
/-! C10: completeness of the narrowing — a double that *is* an int64 / a float value is written as one. -/
namespace AwsVerif.Proofs.C10
open AwsVerif.Cbor

theorem pow_lt_pow_iff' {a b : Nat} : 2^a < 2^b ↔ a < b := Nat.pow_lt_pow_iff_right (by decide)

/-- two numbers with known leading-bit positions, scaled by powers of two, can only be equal when the
leading bits line up -/
theorem pow_window (a b x y p q : Nat) (ha : 2^p ≤ a) (ha' : a < 2^(p+1)) (hb : 2^q ≤ b) (hb' : b < 2^(q+1))
    (h : a * 2^x = b * 2^y) : p + x = q + y := by
  have hx := two_pow_pos x
  have hy := two_pow_pos y
  have h1 : 2^(p + x) < 2^(q + 1 + y) := by
    calc 2^(p+x) = 2^p * 2^x := Nat.pow_add ..
      _ ≤ a * 2^x := Nat.mul_le_mul_right _ ha
      _ = b * 2^y := h
      _ < 2^(q+1) * 2^y := Nat.mul_lt_mul_of_pos_right hb' hy
      _ = 2^(q+1+y) := (Nat.pow_add ..).symm
  have h2 : 2^(q + y) < 2^(p + 1 + x) := by
    calc 2^(q+y) = 2^q * 2^y := Nat.pow_add ..
      _ ≤ b * 2^y := Nat.mul_le_mul_right _ hb
      _ = a * 2^x := h.symm
      _ < 2^(p+1) * 2^x := Nat.mul_lt_mul_of_pos_right ha' hx
      _ = 2^(p+1+x) := (Nat.pow_add ..).symm
  rw [pow_lt_pow_iff'] at h1 h2
  omega

/-- cancel a common power of two -/
theorem mul_pow_cancel (a b x y : Nat) (h : a * 2^x = b * 2^y) (hxy : x ≤ y) : a = b * 2^(y - x) := by
  have : (2:Nat)^y = 2^(y - x) * 2^x := pow_split hxy
  rw [this, ← Nat.mul_assoc] at h
  exact Nat.eq_of_mul_eq_mul_right (two_pow_pos x) h

theorem integral_complete (e m a : Nat) (hm : m < 2^52) (h : magOf e m = a * 2^1074) :
    isIntegral e m = true ∧ truncMag e m = a := by
  unfold magOf at h
  unfold isIntegral truncMag
  split at h
  · rename_i he0
    have ha : a = 0 := by
      by_contra hne
      have h1 : 1 ≤ a := by omega
      have : (2:Nat)^52 ≤ 2^1074 := pow_ge_of_le (by omega)
      have : 2^1074 ≤ a * 2^1074 := Nat.le_mul_of_pos_left _ h1
      generalize (2:Nat)^1074 = P at *
      omega
    subst ha
    simp only [Nat.zero_mul] at h
    simp [he0, h]
  · rename_i he0
    simp only [he0, if_false]
    split
    · rename_i hge
      refine ⟨rfl, ?_⟩
      have hk : e - 1 - 1074 = e - 1075 := by clear h; omega
      have hle : 1074 ≤ e - 1 := by clear h; omega
      have := mul_pow_cancel a (2^52 + m) 1074 (e - 1) h.symm hle
      rw [this, hk]
    · rename_i hlt
      have hle : e - 1 ≤ 1074 := by clear h; omega
      have hM := mul_pow_cancel (2^52 + m) a (e - 1) 1074 h hle
      have hk : 1074 - (e - 1) = 1075 - e := by clear h hM; omega
      rw [hk] at hM
      rw [hM]
      have hpos := two_pow_pos (1075 - e)
      refine ⟨by simp [Nat.mul_mod_left], ?_⟩
      exact Nat.mul_div_cancel _ hpos

theorem int_range (e m a : Nat) (hm : m < 2^52) (ha : a ≤ 2^63) (h : truncMag e m = a) :
    e * 2^52 + m ≤ TWO63_BITS := by
  unfold TWO63_BITS
  unfold truncMag at h
  by_cases hlt : e < 1086
  · clear h; omega
  · have he0 : e ≠ 0 := by omega
    have hge : 1075 ≤ e := by omega
    simp only [he0, hge, if_false, if_true] at h
    have hp : 2^11 ≤ 2^(e - 1075) := pow_ge_of_le (by omega)
    by_cases h6 : e = 1086
    · subst h6
      have h11 : (2^52 + m) * 2^11 ≤ 2^63 := by
        have : (1086 - 1075) = 11 := rfl
        rw [this] at h; clear hp; omega
      have hm0 : m = 0 := by clear hp h; omega
      subst hm0; decide
    · have hp : 2^12 ≤ 2^(e - 1075) := pow_ge_of_le (by omega)
      have : 2^52 * 2^12 ≤ (2^52 + m) * 2^(e - 1075) := Nat.mul_le_mul (by omega) hp
      omega

/-- completeness of the integer path: a finite double whose value is an integer `a` (magnitude), with
`a < 2^63` if positive and `a ≤ 2^63` if negative, is written as that integer -/
theorem intPath_complete (n : Nat) (hn : n < 2^64) (a : Nat) (h : mag64 n = a * 2^1074)
    (ha : if fSign n = 1 then a ≤ 2^63 else a < 2^63) :
    ∃ f, intPath n = some f ∧ (∃ v, f = .uint v ∨ f = .negint v) := by
  obtain ⟨_, hs, _, hm, hr⟩ := fields_of n hn
  rw [mag64_eq] at h
  obtain ⟨hint, ht⟩ := integral_complete _ _ a hm h
  have ha63 : a ≤ 2^63 := by split at ha <;> omega
  have hrange := int_range _ _ a hm ha63 ht
  unfold intPath
  simp only [hr, hrange, if_true, hint, ht]
  have hq : ¬ (fSign n = 0 ∧ a = 2^63) := by
    intro ⟨h0, h63⟩
    rw [if_neg (by omega)] at ha
    omega
  simp only [hq, if_false]
  split
  · exact ⟨_, rfl, _, Or.inr rfl⟩
  · exact ⟨_, rfl, _, Or.inl rfl⟩


/-- completeness of the single-precision path: a finite double equal in value to some finite float is
within `[-FLT_MAX, FLT_MAX]` and `toFloat32?` finds a float -/
theorem toFloat32_complete (n : Nat) (hn : n < 2^64) (f : Nat) (_hf : f < 2^32)
    (hf255 : e32 f ≠ 255) (h : mag64 n = mag32 f * 2^925) :
    n % 2^63 ≤ FLT_MAX_BITS ∧ (toFloat32? n).isSome = true := by
  obtain ⟨_, hs, he, hm, hr⟩ := fields_of n hn
  have hm23 : m32 f < 2^23 := by unfold m32; omega
  have he8 : e32 f < 256 := by unfold e32; omega
  rw [hr]
  unfold mag64 at h
  unfold toFloat32? FLT_MAX_BITS
  simp only
  split at h
  · -- the double is zero or subnormal: only zero is a float value
    rename_i he0
    have hz : mag32 f = 0 := by
      by_contra hne
      have h1 : 1 ≤ mag32 f := by omega
      have : (2:Nat)^52 ≤ 2^925 := pow_ge_of_le (by omega)
      have : 2^925 ≤ mag32 f * 2^925 := Nat.le_mul_of_pos_left _ h1
      generalize (2:Nat)^925 = P at *
      omega
    rw [hz, Nat.zero_mul] at h
    rw [if_pos he0, if_pos h]
    refine ⟨?_, rfl⟩
    rw [he0, h]; decide
  · rename_i he0
    rw [if_neg he0]
    unfold mag32 at h
    split at h
    · -- subnormal float
      rename_i h8
      have hq0 : m32 f ≠ 0 := by
        intro hq; rw [hq, Nat.zero_mul] at h
        have := two_pow_pos (fExp n - 1)
        have : 0 < (2^52 + fMant n) * 2^(fExp n - 1) := Nat.mul_pos (by omega) this
        omega
      have hle : fExp n - 1 ≤ 925 := by
        by_contra hgt
        have hM := mul_pow_cancel (m32 f) (2^52 + fMant n) 925 (fExp n - 1) h.symm (by omega)
        have : 1 ≤ 2^(fExp n - 1 - 925) := two_pow_pos _
        have : 2^52 + fMant n ≤ (2^52 + fMant n) * 2^(fExp n - 1 - 925) := Nat.le_mul_of_pos_right _ this
        omega
      have hM := mul_pow_cancel (2^52 + fMant n) (m32 f) (fExp n - 1) 925 h hle
      have hk : 925 - (fExp n - 1) = 926 - fExp n := by omega
      rw [hk] at hM
      clear h
      generalize hkk : 926 - fExp n = k at hM
      -- 2^k ≤ M < 2^53 and 2^52 ≤ M < 2^23 * 2^k
      have hk52 : k ≤ 52 := by
        by_contra hgt
        have : 2^53 ≤ 2^k := pow_ge_of_le (by omega)
        have : 2^k ≤ m32 f * 2^k := Nat.le_mul_of_pos_left _ (by omega)
        omega
      have hk30 : 30 ≤ k := by
        by_contra hlt
        have : 2^k ≤ 2^29 := pow_ge_of_le (by omega)
        have : m32 f * 2^k ≤ (2^23 - 1) * 2^29 := Nat.mul_le_mul (by omega) this
        omega
      have her : 874 ≤ fExp n ∧ fExp n ≤ 896 := by omega
      have hnr : ¬ (897 ≤ fExp n ∧ fExp n ≤ 1150) := by omega
      have hmod : (2^52 + fMant n) % 2^k = 0 := by
        rw [hM]; exact Nat.mul_mod_left _ _
      rw [if_neg hnr, if_pos her, if_pos hmod]
      refine ⟨?_, rfl⟩
      clear hM hmod
      omega
    · -- normal float
      rename_i h8
      have hw := pow_window (2^52 + fMant n) (2^23 + m32 f) (fExp n - 1) (e32 f - 1 + 925) 52 23
        (by omega) (by omega) (by omega) (by omega) (by rw [h, Nat.pow_add, Nat.mul_assoc])
      have her : 897 ≤ fExp n ∧ fExp n ≤ 1150 := by omega
      have hx : e32 f - 1 + 925 = 29 + (fExp n - 1) := by omega
      have h' : (2^52 + fMant n) * 2^(fExp n - 1) = (2^23 + m32 f) * 2^29 * 2^(fExp n - 1) := by
        rw [h, Nat.mul_assoc, ← Nat.pow_add, hx, Nat.pow_add, Nat.mul_assoc]
      have hM : 2^52 + fMant n = (2^23 + m32 f) * 2^29 := Nat.eq_of_mul_eq_mul_right (two_pow_pos _) h'
      have h29 : fMant n % 2^29 = 0 := by omega
      rw [if_pos her, if_pos h29]
      refine ⟨?_, rfl⟩
      clear h h'
      omega

end AwsVerif.Proofs.C10
