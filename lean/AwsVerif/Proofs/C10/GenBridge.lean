import AwsVerif.Model.Cbor
import AwsVerif.Gen.CborConsts
import AwsVerif.Proofs.C10.Heads
/-! C10: bridge between the hand-written model `AwsVerif.Cbor` and the layer regenerated from /repo on
every run (`AwsVerif.Gen.Cbor`, gen/cbor_gen.py): width decision and stored bytes of the libcbor head
encoders, loaders, `claim_bytes`, the reservation in front of every libcbor encode call of cbor.c, and
the per-initial-byte table of `cbor_stream_decode`. -/
namespace AwsVerif.Proofs.C10
open AwsVerif.Cbor
open AwsVerif.Gen.Cbor

/-! ## `_cbor_encode_uint`: width decision -/

/-- the generated decision of `_cbor_encode_uint` picks the model's branch -/
theorem gen_width_decision (v off : Nat) :
    encUint v off =
      (if encodeUintWidth v = 8 then encUint8 v off else if encodeUintWidth v = 16 then encUint16 v off
       else if encodeUintWidth v = 32 then encUint32 v off else encUint64 v off) := by
  unfold encUint encodeUintWidth
  by_cases h1 : v ≤ 65535 <;> by_cases h2 : v ≤ 255 <;> by_cases h3 : v ≤ 4294967295 <;> simp [h1, h2, h3]

/-- … and only ever answers 8, 16, 32 or 64, by exactly the four thresholds -/
theorem gen_width_values (v : Nat) :
    encodeUintWidth v = (if v < 2^8 then 8 else if v < 2^16 then 16 else if v < 2^32 then 32 else 64) := by
  unfold encodeUintWidth
  repeat' split
  all_goals omega

/-! ## `_cbor_encode_uintN`: stored bytes and returned length -/

theorem shr_eq (v k : Nat) : v >>> k = v / 2^k := Nat.shiftRight_eq_div_pow v k

theorem b8_mod (n : Nat) : b8 (n % 256) = b8 n := by
  apply UInt8.toNat.inj; simp [b8]

theorem b8_mod32 (n : Nat) : b8 (n % 4294967296 % 256) = b8 n := by
  apply UInt8.toNat.inj; simp only [b8, UInt8.toNat_ofNat']; omega

theorem gen_bytes8 (v off : Nat) (hv : v < 256) :
    encUint8 v off =
      (if v ≤ 23 then [b8 (enc8_b0 v true 2 off).2] else [b8 (enc8_b0 v true 2 off).2, b8 (enc8_b1 v true 2 off).2]) := by
  have hs : ((v + 2147483648) % 4294967296 ≤ (23 + 2147483648) % 4294967296) ↔ v ≤ 23 := by omega
  by_cases h : v ≤ 23 <;> simp [encUint8, enc8_b0, enc8_b1, hs, h] <;>
    (apply UInt8.toNat.inj; simp [UInt8.toNat_add]; try omega)

theorem gen_bytes16 (v off : Nat) :
    encUint16 v off = [b8 (enc16_b0 v true 3 off).2, b8 (enc16_b1 v true 3 off).2, b8 (enc16_b2 v true 3 off).2] := by
  simp [encUint16, enc16_b0, enc16_b1, enc16_b2, shr_eq, b8_mod]

theorem gen_bytes32 (v off : Nat) :
    encUint32 v off = [b8 (enc32_b0 v true 5 off).2, b8 (enc32_b1 v true 5 off).2, b8 (enc32_b2 v true 5 off).2,
      b8 (enc32_b3 v true 5 off).2, b8 (enc32_b4 v true 5 off).2] := by
  simp [encUint32, enc32_b0, enc32_b1, enc32_b2, enc32_b3, enc32_b4, shr_eq, b8_mod]

theorem gen_bytes64 (v off : Nat) :
    encUint64 v off = [b8 (enc64_b0 v true 9 off).2, b8 (enc64_b1 v true 9 off).2, b8 (enc64_b2 v true 9 off).2,
      b8 (enc64_b3 v true 9 off).2, b8 (enc64_b4 v true 9 off).2, b8 (enc64_b5 v true 9 off).2,
      b8 (enc64_b6 v true 9 off).2, b8 (enc64_b7 v true 9 off).2, b8 (enc64_b8 v true 9 off).2] := by
  simp [encUint64, enc64_b0, enc64_b1, enc64_b2, enc64_b3, enc64_b4, enc64_b5, enc64_b6, enc64_b7, enc64_b8,
    shr_eq, b8_mod]

/-- the number of stores is the length returned -/
theorem gen_stored_bytes : storedBytes = [(8, 2), (16, 3), (32, 5), (64, 9)] := by decide

/-- with room, the length returned by the generated writer is the length of the model's bytes -/
theorem gen_len8 (v bs off : Nat) (hv : v < 256) (h : 2 ≤ bs) : enc8Len v bs off = (encUint8 v off).length := by
  unfold enc8Len encUint8
  have hs : ((v + 2147483648) % 4294967296 ≤ (23 + 2147483648) % 4294967296) ↔ v ≤ 23 := by omega
  by_cases h23 : v ≤ 23 <;> simp [hs, h23] <;> omega
theorem gen_len16 (v bs off : Nat) (h : 3 ≤ bs) : enc16Len v bs off = (encUint16 v off).length := by
  simp [enc16Len, encUint16, h]
theorem gen_len32 (v bs off : Nat) (h : 5 ≤ bs) : enc32Len v bs off = (encUint32 v off).length := by
  simp [enc32Len, encUint32, h]
theorem gen_len64 (v bs off : Nat) (h : 9 ≤ bs) : enc64Len v bs off = (encUint64 v off).length := by
  simp [enc64Len, encUint64, h]


/-! ## loaders -/

theorem shl_eq (v k : Nat) : v <<< k = v * 2^k := Nat.shiftLeft_eq v k

theorem gen_load16 (b0 b1 : Nat) (_h0 : b0 < 256) (h1 : b1 < 256) :
    loadUint16 b0 b1 = loadBE [b8 b0, b8 b1] := by
  rw [loadBE_2]; simp only [b8_toNat, loadUint16, shl_eq]; omega

theorem gen_load32 (b0 b1 b2 b3 : Nat) (_h0 : b0 < 256) (h1 : b1 < 256) (h2 : b2 < 256) (h3 : b3 < 256) :
    loadUint32 b0 b1 b2 b3 = loadBE [b8 b0, b8 b1, b8 b2, b8 b3] := by
  rw [loadBE_4]; simp only [b8_toNat, loadUint32, shl_eq]; omega

theorem gen_load64 (b0 b1 b2 b3 b4 b5 b6 b7 : Nat) (_h0 : b0 < 256) (h1 : b1 < 256) (h2 : b2 < 256)
    (h3 : b3 < 256) (h4 : b4 < 256) (h5 : b5 < 256) (h6 : b6 < 256) (h7 : b7 < 256) :
    loadUint64 b0 b1 b2 b3 b4 b5 b6 b7 = loadBE [b8 b0, b8 b1, b8 b2, b8 b3, b8 b4, b8 b5, b8 b6, b8 b7] := by
  rw [loadBE_8]; simp only [b8_toNat, loadUint64, shl_eq]
  have : b6 * 2^8 % 4294967296 < 2147483648 := by omega
  simp only [this, if_true]
  omega

/-- every loader reads as many bytes as its name says -/
theorem gen_loader_widths :
    loaderWidths = [("_cbor_decode_half", 2), ("_cbor_load_double", 8), ("_cbor_load_float", 4), ("_cbor_load_half", 2),
      ("_cbor_load_uint16", 2), ("_cbor_load_uint32", 4), ("_cbor_load_uint64", 8), ("_cbor_load_uint8", 1)] := by decide

/-! ## `claim_bytes` -/

/-- `claim_bytes` succeeds iff the bytes not yet read cover the request -/
theorem gen_claim_bytes (required provided read : Nat) (hr : read ≤ provided) (hp : provided < 2^64) :
    claimBytes required provided read = decide (required ≤ provided - read) := by
  unfold claimBytes
  have : (provided + 18446744073709551616 - read) % 18446744073709551616 = provided - read := by omega
  rw [this]
  by_cases h : required > provided - read
  · simp [h]
  · simp [h]; omega

/-- the model's "need more data" test on the argument bytes is `claim_bytes(argBytes, 1 + rest, read = 1)` -/
theorem gen_claim_model (ai : Nat) (rest : List UInt8) (hl : 1 + rest.length < 2^64) :
    claimBytes (argBytes ai) (1 + rest.length) 1 = !decide (rest.length < argBytes ai) := by
  rw [gen_claim_bytes _ _ _ (by omega) hl]
  by_cases h : rest.length < argBytes ai <;> simp [h] <;> omega


/-! ## reservation in front of every libcbor encode call of cbor.c -/

/-- length returned by the inner writer named `inner` (encoders.c / encoding.c, generated) for `value`
with `room` bytes available; `_cbor_encode_uint` = its generated width decision followed by the
generated `_cbor_encode_uintN` with the value cast to that width -/
def innerLen (inner : String) (value room off : Nat) : Option Nat :=
  if inner = "_cbor_encode_uint" then
    some (if encodeUintWidth value = 8 then enc8Len (value % 2^8) room off
          else if encodeUintWidth value = 16 then enc16Len (value % 2^16) room off
          else if encodeUintWidth value = 32 then enc32Len (value % 2^32) room off
          else enc64Len value room off)
  else if inner = "_cbor_encode_uint8" then some (enc8Len (value % 2^8) room off)
  else if inner = "_cbor_encode_uint16" then some (enc16Len (value % 2^16) room off)
  else if inner = "_cbor_encode_uint32" then some (enc32Len (value % 2^32) room off)
  else if inner = "_cbor_encode_uint64" then some (enc64Len value room off)
  else if inner = "_cbor_encode_byte" then some (encByteLen off room)
  else none

/-- room that always suffices for the inner writer (`values` = the only values it is given, if known) -/
def innerNeed (inner : String) (values : List Nat) : Option Nat :=
  if inner = "_cbor_encode_uint" then some 9
  else if inner = "_cbor_encode_uint8" then (if values ≠ [] ∧ values.all (fun v => decide (v ≤ 23)) then some 1 else some 2)
  else if inner = "_cbor_encode_uint16" then some 3
  else if inner = "_cbor_encode_uint32" then some 5
  else if inner = "_cbor_encode_uint64" then some 9
  else if inner = "_cbor_encode_byte" then some 1
  else none

theorem enc8Len_pos (v room off : Nat) (hv : v < 256) (h : (if v ≤ 23 then 1 else 2) ≤ room) :
    0 < enc8Len v room off ∧ enc8Len v room off ≤ (if v ≤ 23 then 1 else 2) := by
  unfold enc8Len
  have hs : ((v + 2147483648) % 4294967296 ≤ (23 + 2147483648) % 4294967296) ↔ v ≤ 23 := by omega
  by_cases h23 : v ≤ 23
  · simp only [hs, h23, if_true] at h ⊢
    have : room ≥ 1 := h
    simp [this]
  · simp only [hs, h23, if_false] at h ⊢
    have : room ≥ 2 := h
    simp [this]

theorem innerNeed_sound (inner : String) (values : List Nat) (n value room off : Nat)
    (hn : innerNeed inner values = some n) (hv : values ≠ [] → value ∈ values) (hroom : n ≤ room) :
    ∃ k, innerLen inner value room off = some k ∧ 0 < k ∧ k ≤ n := by
  unfold innerNeed at hn
  unfold innerLen
  split at hn
  · rename_i h; subst h
    simp only [Option.some.injEq] at hn; subst hn
    simp only [if_true]
    refine ⟨_, rfl, ?_⟩
    split
    · have := enc8Len_pos (value % 2^8) room off (Nat.mod_lt _ (by decide)) (by split <;> omega)
      constructor
      · exact this.1
      · have h2 := this.2; split at h2 <;> omega
    · split
      · simp [enc16Len, show room ≥ 3 by omega]
      · split
        · simp [enc32Len, show room ≥ 5 by omega]
        · simp [enc64Len, show room ≥ 9 by omega]
  · split at hn
    · rename_i h0 h; subst h
      simp only [show ("_cbor_encode_uint8" = "_cbor_encode_uint") = False from by decide, if_false, if_true]
      refine ⟨_, rfl, ?_⟩
      split at hn
      · rename_i hall
        simp only [Option.some.injEq] at hn; subst hn
        have hmem := hv hall.1
        have hle : value ≤ 23 := by
          have := List.all_eq_true.mp hall.2 value hmem
          simpa using this
        have hm : value % 2^8 = value := Nat.mod_eq_of_lt (by omega)
        rw [hm]
        have := enc8Len_pos value room off (by omega) (by simp [hle]; omega)
        simpa [hle] using this
      · simp only [Option.some.injEq] at hn; subst hn
        have := enc8Len_pos (value % 2^8) room off (Nat.mod_lt _ (by decide)) (by split <;> omega)
        constructor
        · exact this.1
        · have h2 := this.2; split at h2 <;> omega
    · split at hn
      · rename_i h; subst h
        simp only [Option.some.injEq] at hn; subst hn
        refine ⟨3, ?_, by omega, by omega⟩
        simp [enc16Len, show room ≥ 3 by omega]
      · split at hn
        · rename_i h; subst h
          simp only [Option.some.injEq] at hn; subst hn
          refine ⟨5, ?_, by omega, by omega⟩
          simp [enc32Len, show room ≥ 5 by omega]
        · split at hn
          · rename_i h; subst h
            simp only [Option.some.injEq] at hn; subst hn
            refine ⟨9, ?_, by omega, by omega⟩
            simp [enc64Len, show room ≥ 9 by omega]
          · split at hn
            · rename_i h; subst h
              simp only [Option.some.injEq] at hn; subst hn
              refine ⟨1, ?_, by omega, by omega⟩
              simp [encByteLen, show room ≥ 1 by omega]
            · simp at hn

/-- decidable check of one site against the generated tables -/
def siteOk (s : Site) : Bool :=
  s.reserveFn == "aws_byte_buf_reserve_smart_relative" &&
  match encFns.find? (fun f => f.1 == s.encoder) with
  | none => false
  | some f =>
    match innerNeed f.2.1 s.values with
    | none => false
    | some n => decide (n ≤ s.base)

/-- what the check means: the reserve function is the *relative* one, and for every value the site can
pass, with the reserved room (`base`, plus `len` for strings) the libcbor writer returns a non-zero
length (so `AWS_FATAL_ASSERT(encoded_len != 0)` cannot fire) and the string payload still fits -/
def SiteSafe (s : Site) : Prop :=
  s.reserveFn = "aws_byte_buf_reserve_smart_relative" ∧
  ∃ f ∈ encFns, f.1 = s.encoder ∧
    ∀ value len room : Nat, (s.values ≠ [] → value ∈ s.values) →
      s.base + (if s.plusLen then len else 0) ≤ room →
      ∃ k, innerLen f.2.1 value room f.2.2 = some k ∧ 0 < k ∧ k + (if s.plusLen then len else 0) ≤ room

theorem siteOk_sound (s : Site) (h : siteOk s = true) : SiteSafe s := by
  unfold siteOk at h
  simp only [Bool.and_eq_true, beq_iff_eq] at h
  obtain ⟨h1, h2⟩ := h
  refine ⟨h1, ?_⟩
  cases hf : encFns.find? (fun f => f.1 == s.encoder) with
  | none => rw [hf] at h2; simp at h2
  | some f =>
    rw [hf] at h2
    simp only at h2
    have hmem := List.mem_of_find?_eq_some hf
    have hname : f.1 = s.encoder := by simpa using List.find?_some hf
    refine ⟨f, hmem, hname, ?_⟩
    cases hn : innerNeed f.2.1 s.values with
    | none => rw [hn] at h2; simp at h2
    | some n =>
      rw [hn] at h2
      have hle : n ≤ s.base := by simpa using h2
      intro value len room hv hroom
      obtain ⟨k, hk, hpos, hkn⟩ := innerNeed_sound f.2.1 s.values n value room f.2.2 hn hv (by omega)
      exact ⟨k, hk, hpos, by omega⟩

/-- **every** libcbor encode call of cbor.c is preceded by a sufficient *relative* reservation
(over the values regenerated from cbor.c / encoding.c / encoders.c) -/
theorem gen_sites_ok : sites.all siteOk = true := by decide

theorem gen_sites_safe : ∀ s ∈ sites, SiteSafe s := by
  intro s hs
  exact siteOk_sound s (List.all_eq_true.mp gen_sites_ok s hs)

/-- no writer other than `write_float` (whose early returns are the narrowing, modelled by `narrow`) can
leave before its reserve + encode, and none hides them behind a branch: every call writes its item -/
theorem gen_writers_unconditional :
    writersWithReturn = ["aws_cbor_encoder_write_float"] ∧ writersWithBranch = [] := by decide

/-! ## the functions the model transcribes, as text

Rendered by gen/cbor_gen.py from the clang AST of the current source (implicit casts and parentheses
dropped, explicit casts kept, logging collapsed to `LOG;`, fatal assertions to `ASSERT(cond);`).  The
`expected…` values below are what `Model/Cbor.lean` was written from; the theorems are `rfl`, so any edit
to one of these functions stops the build here. -/

/-- `s_cbor_decode_next_element` = `decodeNext`; `aws_cbor_decoder_peek_type` = `peekType`;
`aws_cbor_decoder_consume_next_whole_data_item` = `consumeWhole` / `consumeBody` / `iter` / `breakLoop` /
`untilBreak`; `aws_cbor_decoder_consume_next_single_element` = `consumeSingle` -/
def expectedDecoderBodies : List (String × String) := [
  ("s_cbor_decode_next_element", "{result=cbor_stream_decode(decoder->src.ptr,decoder->src.len,&s_callbacks,decoder); switch(result.status){case CBOR_DECODER_NEDATA:LOG; (decoder->error_code=AWS_ERROR_INVALID_CBOR); break; case CBOR_DECODER_ERROR:LOG; (decoder->error_code=AWS_ERROR_INVALID_CBOR); break; default:break;} if(decoder->error_code){return aws_raise_error(decoder->error_code);} aws_byte_cursor_advance(&decoder->src,result.read); return 0;}"),
  ("aws_cbor_decoder_peek_type", "{if(decoder->error_code){return aws_raise_error(decoder->error_code);} if((decoder->cached_context.type!=AWS_CBOR_TYPE_UNKNOWN)){(*out_type=decoder->cached_context.type); return 0;} if(s_cbor_decode_next_element(decoder)){return -1;} (*out_type=decoder->cached_context.type); return 0;}"),
  ("aws_cbor_decoder_consume_next_whole_data_item", "{if(decoder->error_code){return aws_raise_error(decoder->error_code);} if((decoder->cached_context.type==AWS_CBOR_TYPE_UNKNOWN)){if(s_cbor_decode_next_element(decoder)){return -1;}} switch(decoder->cached_context.type){case AWS_CBOR_TYPE_TAG:(decoder->cached_context.type=AWS_CBOR_TYPE_UNKNOWN); if(aws_cbor_decoder_consume_next_whole_data_item(decoder)){return -1;} break; case AWS_CBOR_TYPE_MAP_START:{num_map_item=decoder->cached_context.u.map_start; (decoder->cached_context.type=AWS_CBOR_TYPE_UNKNOWN); for(i=0;;;(i<num_map_item);i++){if(aws_cbor_decoder_consume_next_whole_data_item(decoder)){return -1;} if(aws_cbor_decoder_consume_next_whole_data_item(decoder)){return -1;}} break;} case AWS_CBOR_TYPE_ARRAY_START:{num_array_item=decoder->cached_context.u.array_start; (decoder->cached_context.type=AWS_CBOR_TYPE_UNKNOWN); for(i=0;;;(i<num_array_item);i++){if(aws_cbor_decoder_consume_next_whole_data_item(decoder)){return -1;}} break;} case AWS_CBOR_TYPE_INDEF_BYTES_START:case AWS_CBOR_TYPE_INDEF_TEXT_START:case AWS_CBOR_TYPE_INDEF_ARRAY_START:case AWS_CBOR_TYPE_INDEF_MAP_START:{next_type=?; (decoder->cached_context.type=AWS_CBOR_TYPE_UNKNOWN); if(aws_cbor_decoder_peek_type(decoder,&next_type)){return -1;} while((next_type!=AWS_CBOR_TYPE_BREAK)){if(aws_cbor_decoder_consume_next_whole_data_item(decoder)){return -1;} if(aws_cbor_decoder_peek_type(decoder,&next_type)){return -1;}} break;} default:break;} (decoder->cached_context.type=AWS_CBOR_TYPE_UNKNOWN); return 0;}"),
  ("aws_cbor_decoder_consume_next_single_element", "{out_type=0; if(aws_cbor_decoder_peek_type(decoder,&out_type)){return -1;} (decoder->cached_context.type=AWS_CBOR_TYPE_UNKNOWN); return 0;}")]

theorem gen_decoder_bodies : decoderBodies = expectedDecoderBodies := rfl

/-- the nine expansions of `GET_NEXT_ITEM` = `popWith sel…`: sticky error first, then the cache, then one decode; a
type mismatch raises UNEXPECTED_TYPE and leaves the cache; a match clears the cache and hands out the union field -/
def expectedPopBodies : List (String × String × String) := [
  ("unsigned_int_val", "AWS_CBOR_TYPE_UINT", "{if(decoder->error_code){return aws_raise_error(decoder->error_code);} if((decoder->cached_context.type!=AWS_CBOR_TYPE_UNKNOWN)){goto;} if(s_cbor_decode_next_element(decoder)){return -1;} decode_done:if((decoder->cached_context.type!=AWS_CBOR_TYPE_UINT)){LOG; return aws_raise_error(AWS_ERROR_CBOR_UNEXPECTED_TYPE);}else{(decoder->cached_context.type=AWS_CBOR_TYPE_UNKNOWN); (*out=decoder->cached_context.u.unsigned_int_val);} return 0;}"),
  ("negative_int_val", "AWS_CBOR_TYPE_NEGINT", "{if(decoder->error_code){return aws_raise_error(decoder->error_code);} if((decoder->cached_context.type!=AWS_CBOR_TYPE_UNKNOWN)){goto;} if(s_cbor_decode_next_element(decoder)){return -1;} decode_done:if((decoder->cached_context.type!=AWS_CBOR_TYPE_NEGINT)){LOG; return aws_raise_error(AWS_ERROR_CBOR_UNEXPECTED_TYPE);}else{(decoder->cached_context.type=AWS_CBOR_TYPE_UNKNOWN); (*out=decoder->cached_context.u.negative_int_val);} return 0;}"),
  ("float_val", "AWS_CBOR_TYPE_FLOAT", "{if(decoder->error_code){return aws_raise_error(decoder->error_code);} if((decoder->cached_context.type!=AWS_CBOR_TYPE_UNKNOWN)){goto;} if(s_cbor_decode_next_element(decoder)){return -1;} decode_done:if((decoder->cached_context.type!=AWS_CBOR_TYPE_FLOAT)){LOG; return aws_raise_error(AWS_ERROR_CBOR_UNEXPECTED_TYPE);}else{(decoder->cached_context.type=AWS_CBOR_TYPE_UNKNOWN); (*out=decoder->cached_context.u.float_val);} return 0;}"),
  ("boolean_val", "AWS_CBOR_TYPE_BOOL", "{if(decoder->error_code){return aws_raise_error(decoder->error_code);} if((decoder->cached_context.type!=AWS_CBOR_TYPE_UNKNOWN)){goto;} if(s_cbor_decode_next_element(decoder)){return -1;} decode_done:if((decoder->cached_context.type!=AWS_CBOR_TYPE_BOOL)){LOG; return aws_raise_error(AWS_ERROR_CBOR_UNEXPECTED_TYPE);}else{(decoder->cached_context.type=AWS_CBOR_TYPE_UNKNOWN); (*out=decoder->cached_context.u.boolean_val);} return 0;}"),
  ("text_val", "AWS_CBOR_TYPE_TEXT", "{if(decoder->error_code){return aws_raise_error(decoder->error_code);} if((decoder->cached_context.type!=AWS_CBOR_TYPE_UNKNOWN)){goto;} if(s_cbor_decode_next_element(decoder)){return -1;} decode_done:if((decoder->cached_context.type!=AWS_CBOR_TYPE_TEXT)){LOG; return aws_raise_error(AWS_ERROR_CBOR_UNEXPECTED_TYPE);}else{(decoder->cached_context.type=AWS_CBOR_TYPE_UNKNOWN); (*out=decoder->cached_context.u.text_val);} return 0;}"),
  ("bytes_val", "AWS_CBOR_TYPE_BYTES", "{if(decoder->error_code){return aws_raise_error(decoder->error_code);} if((decoder->cached_context.type!=AWS_CBOR_TYPE_UNKNOWN)){goto;} if(s_cbor_decode_next_element(decoder)){return -1;} decode_done:if((decoder->cached_context.type!=AWS_CBOR_TYPE_BYTES)){LOG; return aws_raise_error(AWS_ERROR_CBOR_UNEXPECTED_TYPE);}else{(decoder->cached_context.type=AWS_CBOR_TYPE_UNKNOWN); (*out=decoder->cached_context.u.bytes_val);} return 0;}"),
  ("map_start", "AWS_CBOR_TYPE_MAP_START", "{if(decoder->error_code){return aws_raise_error(decoder->error_code);} if((decoder->cached_context.type!=AWS_CBOR_TYPE_UNKNOWN)){goto;} if(s_cbor_decode_next_element(decoder)){return -1;} decode_done:if((decoder->cached_context.type!=AWS_CBOR_TYPE_MAP_START)){LOG; return aws_raise_error(AWS_ERROR_CBOR_UNEXPECTED_TYPE);}else{(decoder->cached_context.type=AWS_CBOR_TYPE_UNKNOWN); (*out=decoder->cached_context.u.map_start);} return 0;}"),
  ("array_start", "AWS_CBOR_TYPE_ARRAY_START", "{if(decoder->error_code){return aws_raise_error(decoder->error_code);} if((decoder->cached_context.type!=AWS_CBOR_TYPE_UNKNOWN)){goto;} if(s_cbor_decode_next_element(decoder)){return -1;} decode_done:if((decoder->cached_context.type!=AWS_CBOR_TYPE_ARRAY_START)){LOG; return aws_raise_error(AWS_ERROR_CBOR_UNEXPECTED_TYPE);}else{(decoder->cached_context.type=AWS_CBOR_TYPE_UNKNOWN); (*out=decoder->cached_context.u.array_start);} return 0;}"),
  ("tag_val", "AWS_CBOR_TYPE_TAG", "{if(decoder->error_code){return aws_raise_error(decoder->error_code);} if((decoder->cached_context.type!=AWS_CBOR_TYPE_UNKNOWN)){goto;} if(s_cbor_decode_next_element(decoder)){return -1;} decode_done:if((decoder->cached_context.type!=AWS_CBOR_TYPE_TAG)){LOG; return aws_raise_error(AWS_ERROR_CBOR_UNEXPECTED_TYPE);}else{(decoder->cached_context.type=AWS_CBOR_TYPE_UNKNOWN); (*out=decoder->cached_context.u.tag_val);} return 0;}")]

theorem gen_pop_bodies : popBodies = expectedPopBodies := rfl

/-- the `ENCODE_THROUGH_LIBCBOR` expansion (reserve, assert, encode at position / remaining, assert non-zero, advance
`len`) as it appears in `write_uint`; `aws_cbor_encoder_write_float` = `narrow` / `intPath` / `toFloat32?`;
`write_bytes` / `write_text` = head then `aws_byte_buf_append`; `write_bool`'s choice; the type-only switch -/
def expectedEncoderBodies : List (String × String) := [
  ("aws_cbor_encoder_write_uint", "{do{error=aws_byte_buf_reserve_smart_relative(&encoder->encoded_buf,s_cbor_element_width_64bit); error; ASSERT(!(error==AWS_ERROR_SUCCESS)); encoded_len=cbor_encode_uint(value,s_get_encoder_current_position(encoder),s_get_encoder_remaining_len(encoder)); ASSERT(!(encoded_len!=0)); (encoder->encoded_buf.len+=encoded_len);}while(0);}"),
  ("aws_cbor_encoder_write_float", "{if(!__builtin_isfinite(value)){aws_cbor_encoder_write_single_float(encoder,(float)value); return ;} if(((value<=(double)9223372036854775807)&&(value>=(double)(-9223372036854775807-1)))){int_value=(int64_t)value; if((value==(double)int_value)){if((int_value<0)){aws_cbor_encoder_write_negint(encoder,(uint64_t)(-1-int_value));}else{aws_cbor_encoder_write_uint(encoder,(uint64_t)int_value);} return ;}} if(((value<=3.40282347E+38)&&(value>=-3.40282347E+38))){float_value=(float)value; converted_value=(double)float_value; if((value==converted_value)){aws_cbor_encoder_write_single_float(encoder,float_value); return ;}} do{error=aws_byte_buf_reserve_smart_relative(&encoder->encoded_buf,s_cbor_element_width_64bit); error; ASSERT(!(error==AWS_ERROR_SUCCESS)); encoded_len=cbor_encode_double(value,s_get_encoder_current_position(encoder),s_get_encoder_remaining_len(encoder)); ASSERT(!(encoded_len!=0)); (encoder->encoded_buf.len+=encoded_len);}while(0);}"),
  ("aws_cbor_encoder_write_bytes", "{do{error=aws_byte_buf_reserve_smart_relative(&encoder->encoded_buf,(s_cbor_element_width_64bit+from.len)); error; ASSERT(!(error==AWS_ERROR_SUCCESS)); encoded_len=cbor_encode_bytestring_start(from.len,s_get_encoder_current_position(encoder),s_get_encoder_remaining_len(encoder)); ASSERT(!(encoded_len!=0)); (encoder->encoded_buf.len+=encoded_len);}while(0); aws_byte_buf_append(&encoder->encoded_buf,&from);}"),
  ("aws_cbor_encoder_write_text", "{do{error=aws_byte_buf_reserve_smart_relative(&encoder->encoded_buf,(s_cbor_element_width_64bit+from.len)); error; ASSERT(!(error==AWS_ERROR_SUCCESS)); encoded_len=cbor_encode_string_start(from.len,s_get_encoder_current_position(encoder),s_get_encoder_remaining_len(encoder)); ASSERT(!(encoded_len!=0)); (encoder->encoded_buf.len+=encoded_len);}while(0); aws_byte_buf_append(&encoder->encoded_buf,&from);}"),
  ("aws_cbor_encoder_write_bool", "{ctrl_value=((value==1)?AWS_CBOR_SIMPLE_VAL_TRUE:AWS_CBOR_SIMPLE_VAL_FALSE); do{error=aws_byte_buf_reserve_smart_relative(&encoder->encoded_buf,1); error; ASSERT(!(error==AWS_ERROR_SUCCESS)); encoded_len=cbor_encode_ctrl(ctrl_value,s_get_encoder_current_position(encoder),s_get_encoder_remaining_len(encoder)); ASSERT(!(encoded_len!=0)); (encoder->encoded_buf.len+=encoded_len);}while(0);}"),
  ("s_cbor_encoder_write_type_only", "{aws_byte_buf_reserve_smart_relative(&encoder->encoded_buf,1); encoded_len=0; switch(type){case AWS_CBOR_TYPE_INDEF_BYTES_START:(encoded_len=cbor_encode_indef_bytestring_start(s_get_encoder_current_position(encoder),s_get_encoder_remaining_len(encoder))); break; case AWS_CBOR_TYPE_INDEF_TEXT_START:(encoded_len=cbor_encode_indef_string_start(s_get_encoder_current_position(encoder),s_get_encoder_remaining_len(encoder))); break; case AWS_CBOR_TYPE_INDEF_ARRAY_START:(encoded_len=cbor_encode_indef_array_start(s_get_encoder_current_position(encoder),s_get_encoder_remaining_len(encoder))); break; case AWS_CBOR_TYPE_INDEF_MAP_START:(encoded_len=cbor_encode_indef_map_start(s_get_encoder_current_position(encoder),s_get_encoder_remaining_len(encoder))); break; case AWS_CBOR_TYPE_BREAK:(encoded_len=cbor_encode_break(s_get_encoder_current_position(encoder),s_get_encoder_remaining_len(encoder))); break; default:; break;} ; (encoder->encoded_buf.len+=encoded_len);}")]

theorem gen_encoder_bodies : encoderBodies = expectedEncoderBodies := rfl

/-- `aws_byte_buf_append` (fails without writing when the room is short, else copies and advances `len`),
`aws_byte_buf_reserve` (capacity becomes exactly the request), `aws_byte_buf_reset` (`len = 0`) -/
def expectedByteBufBodies : List (String × String) := [
  ("aws_byte_buf_append", "{; ; if(((to->capacity-to->len)<from->len)){; ; return aws_raise_error(AWS_ERROR_DEST_COPY_TOO_SMALL);} if((from->len>0)){; ; memcpy((to->buffer+to->len),from->ptr,from->len); (to->len+=from->len);} ; ; return 0;}"),
  ("aws_byte_buf_reserve", "{do{if(!buffer->allocator){return aws_raise_error(AWS_ERROR_INVALID_ARGUMENT);}}while(0); do{if(!aws_byte_buf_is_valid(buffer)){return aws_raise_error(AWS_ERROR_INVALID_ARGUMENT);}}while(0); if((requested_capacity<=buffer->capacity)){; return 0;} if(((!buffer->buffer&&!buffer->capacity)&&(requested_capacity>buffer->capacity))){if(aws_byte_buf_init(buffer,buffer->allocator,requested_capacity)){return -1;} ; return 0;} if(aws_mem_realloc(buffer->allocator,(void **)&buffer->buffer,buffer->capacity,requested_capacity)){return -1;} (buffer->capacity=requested_capacity); ; return 0;}"),
  ("aws_byte_buf_reset", "{if(zero_contents){aws_byte_buf_secure_zero(buf);} (buf->len=0);}")]

theorem gen_bytebuf_bodies : byteBufBodies = expectedByteBufBodies := rfl

/-! ## `aws_byte_buf_reserve_smart` (byte_buf.c), regenerated -/

/-- after `reserve_smart(requested)` the capacity covers the request -/
theorem gen_reserve_smart_ge (cap req : Nat) (_hc : cap < 2^64) (hr : req < 2^64) : req ≤ reserveSmartCap cap req := by
  unfold reserveSmartCap aws_max_size aws_add_size_saturating aws_add_u64_saturating
  simp only
  repeat' split
  all_goals omega

/-- … it never shrinks, and it is the model's growth policy (request vs twice the capacity) -/
theorem gen_reserve_smart_model (cap len add : Nat) (hc : cap + cap < 2^64) (hr : len + add < 2^64) :
    reserveSmartCap cap (len + add) = reserveSmart cap len add := by
  unfold reserveSmartCap aws_max_size aws_add_size_saturating aws_add_u64_saturating reserveSmart
  simp only
  repeat' split
  all_goals (try simp only [Nat.max_def]; try split) <;> omega

/-- the model's `reserveLen` is the reservation of the corresponding site -/
def modelReserve (encoder : String) : Option (Nat × Bool) :=
  if encoder = "cbor_encode_uint" then some (reserveLen (.uint 0), false)
  else if encoder = "cbor_encode_negint" then some (reserveLen (.negint 0), false)
  else if encoder = "cbor_encode_single" then some (5, false)
  else if encoder = "cbor_encode_double" then some (9, false)
  else if encoder = "cbor_encode_map_start" then some (reserveLen (.mapStart 0), false)
  else if encoder = "cbor_encode_array_start" then some (reserveLen (.arrayStart 0), false)
  else if encoder = "cbor_encode_tag" then some (reserveLen (.tag 0), false)
  else if encoder = "cbor_encode_bytestring_start" then some (reserveLen (.bytes []), true)
  else if encoder = "cbor_encode_string_start" then some (reserveLen (.text []), true)
  else if encoder = "cbor_encode_ctrl" then some (reserveLen .null, false)
  else if encoder = "cbor_encode_indef_bytestring_start" then some (reserveLen .indefBytesStart, false)
  else if encoder = "cbor_encode_indef_string_start" then some (reserveLen .indefTextStart, false)
  else if encoder = "cbor_encode_indef_array_start" then some (reserveLen .indefArrayStart, false)
  else if encoder = "cbor_encode_indef_map_start" then some (reserveLen .indefMapStart, false)
  else if encoder = "cbor_encode_break" then some (reserveLen .brk, false)
  else none

theorem gen_reserve_model : sites.all (fun s => modelReserve s.encoder == some (s.base, s.plusLen)) = true := by decide

/-- the model's offsets per item kind are the offsets encoding.c passes -/
theorem gen_offsets_model :
    encFns.lookup "cbor_encode_uint" = some ("_cbor_encode_uint", 0x00) ∧
    encFns.lookup "cbor_encode_negint" = some ("_cbor_encode_uint", 0x20) ∧
    encFns.lookup "cbor_encode_bytestring_start" = some ("_cbor_encode_uint", 0x40) ∧
    encFns.lookup "cbor_encode_string_start" = some ("_cbor_encode_uint", 0x60) ∧
    encFns.lookup "cbor_encode_array_start" = some ("_cbor_encode_uint", 0x80) ∧
    encFns.lookup "cbor_encode_map_start" = some ("_cbor_encode_uint", 0xA0) ∧
    encFns.lookup "cbor_encode_tag" = some ("_cbor_encode_uint", 0xC0) ∧
    encFns.lookup "cbor_encode_ctrl" = some ("_cbor_encode_uint8", 0xE0) ∧
    encFns.lookup "cbor_encode_single" = some ("_cbor_encode_uint32", 0xE0) ∧
    encFns.lookup "cbor_encode_double" = some ("_cbor_encode_uint64", 0xE0) ∧
    encFns.lookup "cbor_encode_indef_bytestring_start" = some ("_cbor_encode_byte", 0x5F) ∧
    encFns.lookup "cbor_encode_indef_string_start" = some ("_cbor_encode_byte", 0x7F) ∧
    encFns.lookup "cbor_encode_indef_array_start" = some ("_cbor_encode_byte", 0x9F) ∧
    encFns.lookup "cbor_encode_indef_map_start" = some ("_cbor_encode_byte", 0xBF) ∧
    encFns.lookup "cbor_encode_break" = some ("_cbor_encode_byte", 0xFF) := by decide

/-- the control values cbor.c passes are the simple values the model writes -/
theorem gen_simple_values :
    AWS_CBOR_SIMPLE_VAL_FALSE = 20 ∧ AWS_CBOR_SIMPLE_VAL_TRUE = 21 ∧ AWS_CBOR_SIMPLE_VAL_NULL = 22 ∧
    AWS_CBOR_SIMPLE_VAL_UNDEFINED = 23 ∧ AWS_CBOR_SIMPLE_VAL_BREAK = 31 ∧
    s_cbor_element_width_64bit = 9 ∧ s_cbor_element_width_32bit = 5 := by decide


/-! ## the switch of `cbor_stream_decode`, one row per initial byte -/

/-- inside the generated table: where there is a loader it reads exactly the bytes that were claimed —
the initial byte itself (offset 0, one byte, nothing more claimed) or the `claim` bytes after it —
and a string's data starts right behind its length bytes -/
def rowConsistent (r : Row) : Bool :=
  r.error ||
  ((r.loader == "" && r.claim == 0) ||
   (r.loadOff == 0 && r.loadWidth == 1 && r.claim == 0) ||
   (r.loadOff == 1 && r.loadWidth == r.claim)) &&
  (!r.payload || (r.dataOff == 1 + r.claim && r.loader != ""))

set_option maxRecDepth 8000 in
theorem gen_loader_matches_claim : decodeTable.all rowConsistent = true := by decide

set_option maxRecDepth 8000 in
theorem gen_table_length : decodeTable.length = 256 := by decide

/-- model type for an `AWS_CBOR_TYPE_*` name -/
def tyOfName (n : String) : Option Ty :=
  if n = "AWS_CBOR_TYPE_UINT" then some .uint else if n = "AWS_CBOR_TYPE_NEGINT" then some .negint
  else if n = "AWS_CBOR_TYPE_FLOAT" then some .float else if n = "AWS_CBOR_TYPE_BYTES" then some .bytes
  else if n = "AWS_CBOR_TYPE_TEXT" then some .text else if n = "AWS_CBOR_TYPE_ARRAY_START" then some .arrayStart
  else if n = "AWS_CBOR_TYPE_MAP_START" then some .mapStart else if n = "AWS_CBOR_TYPE_TAG" then some .tag
  else if n = "AWS_CBOR_TYPE_BOOL" then some .bool else if n = "AWS_CBOR_TYPE_NULL" then some .null
  else if n = "AWS_CBOR_TYPE_UNDEFINED" then some .undefined else if n = "AWS_CBOR_TYPE_BREAK" then some .brk
  else if n = "AWS_CBOR_TYPE_INDEF_BYTES_START" then some .indefBytes
  else if n = "AWS_CBOR_TYPE_INDEF_TEXT_START" then some .indefText
  else if n = "AWS_CBOR_TYPE_INDEF_ARRAY_START" then some .indefArray
  else if n = "AWS_CBOR_TYPE_INDEF_MAP_START" then some .indefMap else none

/-- the aws type a libcbor callback slot produces, read off the regenerated `s_callbacks` table of cbor.c -/
def callbackTy (cb : String) : Option Ty :=
  match awsCallbacks.find? (fun r => r.1 == cb) with
  | some r => tyOfName r.2.2.1
  | none => none

set_option maxRecDepth 20000 in
/-- `s_callbacks`, regenerated: every libcbor slot is served by the aws callback of the matching kind, which
stores exactly one element type and the libcbor argument itself, widened by the one cast shown (8/16/32-bit
integers to `uint64_t`, half/single floats to `double`) — no arithmetic, no truncation -/
theorem gen_callbacks :
    awsCallbacks = [
  ("uint8", "s_uint8_callback", "AWS_CBOR_TYPE_UINT", "unsigned_int_val", "uint64_t"),
  ("uint16", "s_uint16_callback", "AWS_CBOR_TYPE_UINT", "unsigned_int_val", "uint64_t"),
  ("uint32", "s_uint32_callback", "AWS_CBOR_TYPE_UINT", "unsigned_int_val", "uint64_t"),
  ("uint64", "s_unsigned_int_val_callback", "AWS_CBOR_TYPE_UINT", "unsigned_int_val", ""),
  ("negint64", "s_negative_int_val_callback", "AWS_CBOR_TYPE_NEGINT", "negative_int_val", ""),
  ("negint32", "s_negint32_callback", "AWS_CBOR_TYPE_NEGINT", "negative_int_val", "uint64_t"),
  ("negint16", "s_negint16_callback", "AWS_CBOR_TYPE_NEGINT", "negative_int_val", "uint64_t"),
  ("negint8", "s_negint8_callback", "AWS_CBOR_TYPE_NEGINT", "negative_int_val", "uint64_t"),
  ("byte_string_start", "s_inf_bytes_callback", "AWS_CBOR_TYPE_INDEF_BYTES_START", "", ""),
  ("byte_string", "s_bytes_callback", "AWS_CBOR_TYPE_BYTES", "bytes_val.len,bytes_val.ptr", ""),
  ("string", "s_str_callback", "AWS_CBOR_TYPE_TEXT", "text_val.len,text_val.ptr", ""),
  ("string_start", "s_inf_str_callback", "AWS_CBOR_TYPE_INDEF_TEXT_START", "", ""),
  ("indef_array_start", "s_inf_array_callback", "AWS_CBOR_TYPE_INDEF_ARRAY_START", "", ""),
  ("array_start", "s_array_start_callback", "AWS_CBOR_TYPE_ARRAY_START", "array_start", ""),
  ("indef_map_start", "s_inf_map_callback", "AWS_CBOR_TYPE_INDEF_MAP_START", "", ""),
  ("map_start", "s_map_start_callback", "AWS_CBOR_TYPE_MAP_START", "map_start", ""),
  ("tag", "s_tag_val_callback", "AWS_CBOR_TYPE_TAG", "tag_val", ""),
  ("float2", "s_float_callback", "AWS_CBOR_TYPE_FLOAT", "float_val", "double"),
  ("float4", "s_float_callback", "AWS_CBOR_TYPE_FLOAT", "float_val", "double"),
  ("float8", "s_float_val_callback", "AWS_CBOR_TYPE_FLOAT", "float_val", ""),
  ("undefined", "s_undefined_callback", "AWS_CBOR_TYPE_UNDEFINED", "", ""),
  ("null", "s_null_callback", "AWS_CBOR_TYPE_NULL", "", ""),
  ("boolean", "s_boolean_val_callback", "AWS_CBOR_TYPE_BOOL", "boolean_val", ""),
  ("indef_break", "s_inf_break_callback", "AWS_CBOR_TYPE_BREAK", "", "")] := by decide

set_option maxRecDepth 20000 in
/-- the bookkeeping functions of cbor.c are literally: new = calloc + init 256; reset = `aws_byte_buf_reset`;
encoded data = the whole buffer; position = buffer + len; remaining = capacity - len; decoder_new = calloc + src +
empty cache; remaining length = src.len -/
theorem gen_accessors :
    accessorBodies = [
  ("aws_cbor_encoder_new", "{encoder=aws_mem_calloc(allocator,1,<UnaryExprOrTypeTraitExpr>); (encoder->allocator=allocator) aws_byte_buf_init(&encoder->encoded_buf,allocator,256) return encoder;}"),
  ("aws_cbor_encoder_reset", "{aws_byte_buf_reset(&encoder->encoded_buf,0)}"),
  ("aws_cbor_encoder_get_encoded_data", "{return aws_byte_cursor_from_buf(&encoder->encoded_buf);}"),
  ("s_get_encoder_current_position", "{return (encoder->encoded_buf.buffer+encoder->encoded_buf.len);}"),
  ("s_get_encoder_remaining_len", "{return (encoder->encoded_buf.capacity-encoder->encoded_buf.len);}"),
  ("aws_cbor_decoder_new", "{decoder=aws_mem_calloc(allocator,1,<UnaryExprOrTypeTraitExpr>); (decoder->allocator=allocator) (decoder->src=src) (decoder->cached_context.type=AWS_CBOR_TYPE_UNKNOWN) return decoder;}"),
  ("aws_cbor_decoder_get_remaining_length", "{return decoder->src.len;}"),
  ("aws_byte_buf_reserve_smart_relative", "{requested_capacity=0; if(__builtin_expect(!!aws_add_size_checked(buffer->len,additional_length,&requested_capacity),0)){return -1;} return aws_byte_buf_reserve_smart(buffer,requested_capacity);}")] := by decide

/-- integer argument of an element, where it has one -/
def itemArg : Item → Option Nat
  | .uint v | .negint v | .arrayStart v | .mapStart v | .tag v => some v.toNat
  | .bool b => some (if b then 1 else 0)
  | .bytes b | .text b => some b.length
  | _ => none

/-- the model's `streamDecode` agrees with row `r` for initial byte `b`: same error verdict; needs
exactly `r.claim` bytes behind the initial byte before it stops saying "need more"; produces the aws
type the row's callback produces; an embedded argument is `b - r.sub`; a literal argument is `r.lit`;
a string of length `L` needs exactly `L` more bytes and returns them -/
def rowAgrees (b : Nat) (r : Row) : Bool :=
  let ib : UInt8 := UInt8.ofNat b
  let zeros (k : Nat) : List UInt8 := List.replicate k 0
  if r.error then streamDecode (ib :: zeros 9) == .error
  else
    (r.claim == 0 || streamDecode (ib :: zeros (r.claim - 1)) == .needMore) &&
    ((r.payload && r.claim == 0) ||
     match streamDecode (ib :: zeros r.claim) with
     | .ok it n =>
       n == 1 + r.claim && callbackTy r.callback == some it.ty &&
       (r.loadOff != 0 || r.loader == "" || itemArg it == some (b - r.sub)) &&
       (r.loader != "" || r.callback != "boolean" || itemArg it == some r.lit)
     | _ => false) &&
    (!r.payload ||
      (let L := if r.claim = 0 then b - r.sub else 1
       let head : List UInt8 := ib :: (if r.claim = 0 then [] else zeros (r.claim - 1) ++ [1])
       let pay : List UInt8 := List.replicate L 0x55
       (L == 0 || streamDecode (head ++ List.replicate (L - 1) 0x55) == .needMore) &&
       (match streamDecode (head ++ pay ++ [0xAA]) with
        | .ok (.bytes p) n => p == pay && n == 1 + r.claim + L && callbackTy r.callback == some .bytes
        | .ok (.text p) n => p == pay && n == 1 + r.claim + L && callbackTy r.callback == some .text
        | _ => false)))

def tableAgrees : List Row → Nat → Bool
  | [], _ => true
  | r :: rs, b => rowAgrees b r && tableAgrees rs (b + 1)

set_option maxRecDepth 8000 in
/-- the model's stream decoder and the regenerated switch agree on every initial byte -/
theorem gen_table_matches_model : tableAgrees decodeTable 0 = true := by decide

end AwsVerif.Proofs.C10
