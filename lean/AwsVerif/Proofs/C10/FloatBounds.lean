import AwsVerif.Model.Cbor
import Mathlib.Tactic.NormNum
/-! C10 helper lemmas: size bounds of what the double narrowing produces. -/
namespace AwsVerif.Proofs.C10
open AwsVerif.Cbor

theorem fields_of (n : Nat) (hn : n < 2^64) :
    n = fSign n * 2^63 + fExp n * 2^52 + fMant n ∧ fSign n ≤ 1 ∧ fExp n < 2048 ∧ fMant n < 2^52 ∧
    n % 2^63 = fExp n * 2^52 + fMant n := by
  unfold fSign fExp fMant; omega

theorem castNonFinite_lt (n : Nat) (hn : n < 2^64) : castNonFinite n < 2^32 := by
  unfold castNonFinite
  obtain ⟨_, hs, _, hm, _⟩ := fields_of n hn
  simp only
  split <;> [skip; split] <;> omega

theorem pow_ge_of_le {a b : Nat} (h : a ≤ b) : 2^a ≤ 2^b := Nat.pow_le_pow_right (by decide) h

theorem toFloat32_lt (n : Nat) (hn : n < 2^64) (f : Nat) (h : toFloat32? n = some f) : f < 2^32 := by
  obtain ⟨_, hs, _, hm, _⟩ := fields_of n hn
  unfold toFloat32? at h
  simp only at h
  split at h
  · split at h <;> simp at h; omega
  · split at h
    · split at h <;> simp at h; omega
    · split at h
      · split at h <;> simp only [Option.some.injEq, reduceCtorEq] at h
        rename_i he _
        have : (2^52 + fMant n) / 2^(926 - fExp n) < 2^23 := by
          apply Nat.div_lt_of_lt_mul
          have : 2^30 ≤ 2^(926 - fExp n) := pow_ge_of_le (by omega)
          calc 2^52 + fMant n < 2^53 := by omega
            _ = 2^30 * 2^23 := by norm_num
            _ ≤ 2^(926 - fExp n) * 2^23 := Nat.mul_le_mul_right _ this
        omega
      · simp at h

theorem truncMag_le (e m : Nat) (hm : m < 2^52) (h : e * 2^52 + m ≤ TWO63_BITS) : truncMag e m ≤ 2^63 := by
  unfold TWO63_BITS at h
  unfold truncMag
  split
  · omega
  · split
    · have he : e ≤ 1086 := by omega
      by_cases h6 : e = 1086
      · have : m = 0 := by omega
        subst this; subst h6; norm_num
      · have : 2^(e - 1075) ≤ 2^10 := pow_ge_of_le (by omega)
        calc (2^52 + m) * 2^(e-1075) ≤ 2^53 * 2^10 := Nat.mul_le_mul (by omega) this
          _ = 2^63 := by norm_num
    · calc (2^52 + m) / 2^(1075 - e) ≤ 2^52 + m := Nat.div_le_self _ _
        _ ≤ 2^63 := by omega

/-- every form chosen by the narrowing fits its head -/
def FormOk : FloatForm → Prop
  | .uint v => v < 2^63
  | .negint v => v < 2^63
  | .single f => f < 2^32
  | .double d => d < 2^64

theorem intPath_ok (n : Nat) (hn : n < 2^64) (f : FloatForm) (h : intPath n = some f) : FormOk f := by
  obtain ⟨_, hs, _, hm, hr⟩ := fields_of n hn
  unfold intPath at h
  simp only at h
  split at h
  · rename_i hle
    rw [hr] at hle
    have ht := truncMag_le _ _ hm hle
    split at h
    · simp at h
    · rename_i hne
      split at h
      · split at h <;> simp only [Option.some.injEq] at h <;> subst h <;> simp only [FormOk]
        · omega
        · rename_i hneg
          by_cases hs0 : fSign n = 0
          · have : truncMag (fExp n) (fMant n) ≠ 2^63 := fun h => hne ⟨hs0, h⟩
            omega
          · have hs1 : fSign n = 1 := by omega
            have : truncMag (fExp n) (fMant n) = 0 := by
              by_contra h0; exact hneg ⟨hs1, h0⟩
            omega
      · simp at h
  · simp at h

theorem narrow_ok (n : Nat) (hn : n < 2^64) : FormOk (narrow n) := by
  unfold narrow
  split
  · exact castNonFinite_lt n hn
  · split
    · rename_i f h; exact intPath_ok n hn f h
    · split
      · split
        · rename_i f h; exact toFloat32_lt n hn f h
        · exact hn
      · exact hn

end AwsVerif.Proofs.C10
