import AwsVerif.Proofs.C10.Consume
/-! C10: an RFC 8949 reader written as a Lean specification, directly from the pseudo-code of
RFC 8949 appendix C (`well_formed` / `well_formed_indefinite`), independent of libcbor's decoder and
of the model's `streamDecode`: it shares only the byte type.  -/
namespace AwsVerif.Proofs.C10.Rfc
open AwsVerif.Cbor

/-- return value of `well_formed`: the major type for a finite item, `99` for an indefinite-length
item, `-1` for a break -/
inductive Kind where
  | finite (mt : Nat)
  | indefinite
  | brk
deriving DecidableEq, Repr

/-- `take(n)`: the next `n` bytes, or fail -/
def take (n : Nat) (s : List UInt8) : Option (List UInt8 × List UInt8) :=
  if s.length < n then none else some (s.take n, s.drop n)

/-- `uint(bytes)`: big-endian -/
def uint (bs : List UInt8) : Nat := bs.foldl (fun acc b => acc * 256 + b.toNat) 0

/-- `for (i = 0; i < n; i++) well_formed();` -/
def repeatN (wf : List UInt8 → Option (Kind × List UInt8)) : Nat → List UInt8 → Option (List UInt8)
  | 0, s => some s
  | k + 1, s =>
    match wf s with
    | none => none
    | some (_, s') => repeatN wf k s'

/-- `while ((it = well_formed(true)) != -1) body(it);` — `k` bounds the iterations (each takes ≥ 1 byte) -/
def whileNotBreak (wfb : List UInt8 → Option (Kind × List UInt8))
    (body : Kind → List UInt8 → Option (List UInt8)) : Nat → List UInt8 → Option (List UInt8)
  | 0, _ => none
  | k + 1, s =>
    match wfb s with
    | none => none
    | some (.brk, s') => some s'
    | some (it, s') =>
      match body it s' with
      | none => none
      | some s'' => whileNotBreak wfb body k s''

/-- the argument of the head: `val` -/
def arg (ai : Nat) (s : List UInt8) : Option (Nat × List UInt8) :=
  if ai < 24 then some (ai, s)
  else if ai = 24 then (take 1 s).map (fun p => (uint p.1, p.2))
  else if ai = 25 then (take 2 s).map (fun p => (uint p.1, p.2))
  else if ai = 26 then (take 4 s).map (fun p => (uint p.1, p.2))
  else if ai = 27 then (take 8 s).map (fun p => (uint p.1, p.2))
  else none

/-- RFC 8949 appendix C `well_formed(breakable)`; `fuel` bounds the nesting depth.  Returns the kind
of the data item read and the unread rest, `none` = `fail()`. -/
def wellFormed : Nat → Bool → List UInt8 → Option (Kind × List UInt8)
  | 0, _, _ => none
  | fuel + 1, breakable, s =>
    match s with
    | [] => none
    | ib :: s1 =>
      let mt := ib.toNat / 32
      let ai := ib.toNat % 32
      if ai = 31 then
        -- well_formed_indefinite(mt, breakable)
        if mt = 2 ∨ mt = 3 then
          (whileNotBreak (wellFormed fuel true)
            (fun it r => if it = .finite mt then some r else none) (s1.length + 1) s1).map (fun r => (.indefinite, r))
        else if mt = 4 then
          (whileNotBreak (wellFormed fuel true) (fun _ r => some r) (s1.length + 1) s1).map (fun r => (.indefinite, r))
        else if mt = 5 then
          (whileNotBreak (wellFormed fuel true) (fun _ r => (wellFormed fuel false r).map (·.2))
            (s1.length + 1) s1).map (fun r => (.indefinite, r))
        else if mt = 7 then (if breakable then some (.brk, s1) else none)
        else none
      else
        match arg ai s1 with
        | none => none      -- includes ai = 28, 29, 30
        | some (val, s2) =>
          if mt = 2 ∨ mt = 3 then (take val s2).map (fun p => (.finite mt, p.2))
          else if mt = 4 then (repeatN (wellFormed fuel false) val s2).map (fun r => (.finite mt, r))
          else if mt = 5 then (repeatN (wellFormed fuel false) (val * 2) s2).map (fun r => (.finite mt, r))
          else if mt = 6 then (wellFormed fuel false s2).map (fun p => (.finite mt, p.2))
          else if mt = 7 then (if ai = 24 ∧ val < 32 then none else some (.finite mt, s2))
          else some (.finite mt, s2)


/-! ### The encoder's output is accepted -/

open AwsVerif.Proofs.C10

theorem uint_eq_loadBE (bs : List UInt8) : uint bs = loadBE bs := rfl

/-- bridge between the two head parsers: where the model's `readArg` finds `v` after `k` argument
bytes, the RFC reader's `arg` finds `v` and leaves what follows those bytes -/
theorem arg_of_readArg (ai v : Nat) (tl rest : List UInt8) (hai : ai < 28) (hl : tl.length = argBytes ai)
    (h : readArg ai (tl ++ rest) = some v) : arg ai (tl ++ rest) = some (v, rest) := by
  unfold readArg at h
  unfold arg
  by_cases h24 : ai < 24
  · simp only [h24, if_true, Option.some.injEq] at h ⊢
    have : tl = [] := by
      have : argBytes ai = 0 := by simp [argBytes, h24]
      rw [this] at hl; exact List.eq_nil_of_length_eq_zero hl
    subst this; simp [h]
  · simp only [h24, if_false] at h ⊢
    have hlen : ¬ (tl ++ rest).length < argBytes ai := by simp [List.length_append, hl]
    simp only [hlen, if_false, Option.some.injEq] at h
    have htake : (tl ++ rest).take (argBytes ai) = tl := List.take_left' hl
    have hdrop : (tl ++ rest).drop (argBytes ai) = rest := List.drop_left' hl
    rw [htake] at h
    have hcases : ai = 24 ∨ ai = 25 ∨ ai = 26 ∨ ai = 27 := by omega
    rcases hcases with h' | h' | h' | h' <;> subst h' <;>
      simp only [argBytes, take] at * <;> simp_all [uint_eq_loadBE]


/-- what the RFC reader does after a definite head of major type `mt < 7` with argument `v` -/
def afterHead (fuel mt v : Nat) (rest : List UInt8) : Option (Kind × List UInt8) :=
  if mt = 2 ∨ mt = 3 then (take v rest).map (fun p => (.finite mt, p.2))
  else if mt = 4 then (repeatN (wellFormed fuel false) v rest).map (fun r => (.finite mt, r))
  else if mt = 5 then (repeatN (wellFormed fuel false) (v * 2) rest).map (fun r => (.finite mt, r))
  else if mt = 6 then (wellFormed fuel false rest).map (fun p => (.finite mt, p.2))
  else some (.finite mt, rest)

theorem wf_head (fuel : Nat) (breakable : Bool) (mt v : Nat) (hmt : mt < 7) (hv : v < 2^64)
    (rest : List UInt8) :
    wellFormed (fuel + 1) breakable (encUint v (32 * mt) ++ rest) = afterHead fuel mt v rest := by
  obtain ⟨b, tl, ai, he, h1, h2, h3, h4, h5⟩ := head_decode mt (by omega) v hv rest
  have ha := arg_of_readArg ai v tl rest h3 h4 h5
  rw [he]
  simp only [List.cons_append, wellFormed, h1, h2, ha]
  have h31 : ai ≠ 31 := by omega
  have h7 : mt ≠ 7 := by omega
  simp only [h31, h7, if_false, afterHead]

/-- single-byte simple values false / true / null / undefined -/
theorem wf_simple (fuel : Nat) (breakable : Bool) (v : Nat) (hv : 20 ≤ v ∧ v ≤ 23) (rest : List UInt8) :
    wellFormed (fuel + 1) breakable (encUint8 v 0xE0 ++ rest) = some (.finite 7, rest) := by
  have hb : (b8 (v + 0xE0)).toNat = v + 224 := by rw [b8_toNat]; omega
  have h23 : v ≤ 23 := hv.2
  simp only [encUint8, h23, if_true, List.cons_append, List.nil_append, wellFormed, hb]
  have h1 : (v + 224) / 32 = 7 := by omega
  have h2 : (v + 224) % 32 = v := by omega
  have h31 : v ≠ 31 := by omega
  have h24 : v < 24 := by omega
  have hne : ¬ (v = 24 ∧ v < 32) := by omega
  simp [h1, h2, h31, arg, h24, hne]

theorem wf_single (fuel : Nat) (breakable : Bool) (f : Nat) (rest : List UInt8) :
    wellFormed (fuel + 1) breakable (encUint32 f 0xE0 ++ rest) = some (.finite 7, rest) := by
  have hb : (b8 (0x1A + 0xE0)).toNat = 250 := by rw [b8_toNat]
  simp only [encUint32, List.cons_append, List.nil_append, wellFormed, hb]
  have hlen : ¬ (rest.length + 1 + 1 + 1 + 1 < 4) := by omega
  simp [arg, take, hlen]

theorem wf_double (fuel : Nat) (breakable : Bool) (d : Nat) (rest : List UInt8) :
    wellFormed (fuel + 1) breakable (encUint64 d 0xE0 ++ rest) = some (.finite 7, rest) := by
  have hb : (b8 (0x1B + 0xE0)).toNat = 251 := by rw [b8_toNat]
  simp only [encUint64, List.cons_append, List.nil_append, wellFormed, hb]
  have hlen : ¬ (rest.length + 1 + 1 + 1 + 1 + 1 + 1 + 1 + 1 < 8) := by omega
  simp [arg, take, hlen]


/-- major type of the encoding of a scalar item -/
def leafMt : Item → Nat
  | .uint _ => 0
  | .negint _ => 1
  | .bytes _ => 2
  | .text _ => 3
  | .float bits => (match narrow bits.toNat with | .uint _ => 0 | .negint _ => 1 | _ => 7)
  | _ => 7

theorem take_append (b rest : List UInt8) : take b.length (b ++ rest) = some (b, rest) := by
  simp [take]

theorem wf_leaf (i : Item) (hs : IsScalar i) (hok : ItemOk i) (fuel : Nat) (breakable : Bool)
    (rest : List UInt8) :
    wellFormed (fuel + 1) breakable (encItem i ++ rest) = some (.finite (leafMt i), rest) := by
  cases i <;> simp only [IsScalar] at hs
  · rename_i v
    have := wf_head fuel breakable 0 v.toNat (by omega) v.toNat_lt rest
    simpa [encItem, afterHead, leafMt] using this
  · rename_i v
    have := wf_head fuel breakable 1 v.toNat (by omega) v.toNat_lt rest
    simpa [encItem, afterHead, leafMt] using this
  · rename_i bits
    have hokf := narrow_ok bits.toNat bits.toNat_lt
    simp only [encItem, leafMt]
    cases hn : narrow bits.toNat with
    | uint v =>
      rw [hn] at hokf
      have := wf_head fuel breakable 0 v (by omega) (by simp only [FormOk] at hokf; omega) rest
      simpa [encForm, afterHead] using this
    | negint v =>
      rw [hn] at hokf
      have := wf_head fuel breakable 1 v (by omega) (by simp only [FormOk] at hokf; omega) rest
      simpa [encForm, afterHead] using this
    | single f => simpa [encForm] using wf_single fuel breakable f rest
    | double d => simpa [encForm] using wf_double fuel breakable d rest
  · rename_i b
    have := wf_head fuel breakable 2 b.length (by omega) hok (b ++ rest)
    simpa [encItem, afterHead, leafMt, take_append] using this
  · rename_i b
    have := wf_head fuel breakable 3 b.length (by omega) hok (b ++ rest)
    simpa [encItem, afterHead, leafMt, take_append] using this
  · rename_i b
    cases b
    · exact wf_simple fuel breakable 20 (by omega) rest
    · exact wf_simple fuel breakable 21 (by omega) rest
  · exact wf_simple fuel breakable 22 (by omega) rest
  · exact wf_simple fuel breakable 23 (by omega) rest

/-- what `well_formed` returns for the item -/
def kindOf : DataItem → Kind
  | .leaf i => .finite (leafMt i)
  | .tag _ _ => .finite 6
  | .arr _ _ => .finite 4
  | .map _ _ => .finite 5
  | .indef _ _ => .indefinite

theorem kindOf_ne_brk (t : DataItem) : kindOf t ≠ .brk := by
  cases t <;> simp [kindOf]

mutual
/-- RFC-level strictness beyond `WF`: an indefinite-length map holds an even number of items -/
def Strict : DataItem → Prop
  | .leaf _ => True
  | .tag _ x => Strict x
  | .arr _ xs => Stricts xs
  | .map _ xs => Stricts xs
  | .indef k xs => Stricts xs ∧ (k = .map → xs.len % 2 = 0)
def Stricts : DataItems → Prop
  | .nil => True
  | .cons x xs => Strict x ∧ Stricts xs
end

theorem wf_break (fuel : Nat) (rest : List UInt8) :
    wellFormed (fuel + 1) true (0xFF :: rest) = some (.brk, rest) := rfl


theorem chunk_kind_bytes (x : DataItem) (h : ChunkOk .bytes x) : kindOf x = .finite 2 := by
  cases x with
  | leaf i => cases i <;> simp_all [ChunkOk, kindOf, leafMt]
  | _ => simp [ChunkOk] at h

theorem chunk_kind_text (x : DataItem) (h : ChunkOk .text x) : kindOf x = .finite 3 := by
  cases x with
  | leaf i => cases i <;> simp_all [ChunkOk, kindOf, leafMt]
  | _ => simp [ChunkOk] at h

mutual
theorem rfc_item : (t : DataItem) → t.WF → Strict t → ∀ (fuel : Nat) (breakable : Bool) (rest : List UInt8),
    t.depth < fuel →
    wellFormed fuel breakable (encodeAll t.flatten ++ rest) = some (kindOf t, rest)
  | .leaf i, hwf, _, fuel, br, rest, hf => by
    cases fuel with
    | zero => simp [DataItem.depth] at hf
    | succ fuel =>
      simp only [DataItem.flatten, encodeAll, List.append_nil, kindOf]
      exact wf_leaf i hwf.1 hwf.2 fuel br rest
  | .tag t x, hwf, hst, fuel, br, rest, hf => by
    cases fuel with
    | zero => simp [DataItem.depth] at hf
    | succ fuel =>
      simp only [DataItem.flatten, encodeAll, List.append_assoc, kindOf]
      have := wf_head fuel br 6 t.toNat (by omega) t.toNat_lt (encodeAll x.flatten ++ rest)
      simp only [encItem]
      rw [show (0xC0 : Nat) = 32 * 6 from rfl, this]
      simp only [afterHead]
      rw [rfc_item x hwf hst fuel false rest (by simp [DataItem.depth] at hf; omega)]
      simp
  | .arr n xs, hwf, hst, fuel, br, rest, hf => by
    cases fuel with
    | zero => simp [DataItem.depth] at hf
    | succ fuel =>
      simp only [DataItem.flatten, encodeAll, List.append_assoc, kindOf]
      have := wf_head fuel br 4 n.toNat (by omega) n.toNat_lt (encodeAll xs.flatten ++ rest)
      simp only [encItem]
      rw [show (0x80 : Nat) = 32 * 4 from rfl, this]
      simp only [afterHead]
      rw [← hwf.1, rfc_repeat xs hwf.2 hst fuel rest (by simp [DataItem.depth] at hf; omega)]
      simp
  | .map n xs, hwf, hst, fuel, br, rest, hf => by
    cases fuel with
    | zero => simp [DataItem.depth] at hf
    | succ fuel =>
      simp only [DataItem.flatten, encodeAll, List.append_assoc, kindOf]
      have := wf_head fuel br 5 n.toNat (by omega) n.toNat_lt (encodeAll xs.flatten ++ rest)
      simp only [encItem]
      rw [show (0xA0 : Nat) = 32 * 5 from rfl, this]
      simp only [afterHead]
      rw [Nat.mul_comm, ← hwf.1, rfc_repeat xs hwf.2 hst fuel rest (by simp [DataItem.depth] at hf; omega)]
      simp
  | .indef k xs, hwf, hst, fuel, br, rest, hf => by
    cases fuel with
    | zero => simp [DataItem.depth] at hf
    | succ fuel =>
      have hd : xs.depth < fuel := by simp [DataItem.depth] at hf; omega
      have hlen : xs.len + 1 ≤ (encodeAll xs.flatten ++ 0xFF :: rest).length + 1 := by
        have h1 := len_le_flatten xs
        have h2 := encodeAll_length_ge xs.flatten
        simp only [List.length_append, List.length_cons]; omega
      simp only [DataItem.flatten, encodeAll, encodeAll_append, List.append_assoc, kindOf]
      cases k with
      | bytes =>
        show wellFormed (fuel + 1) br (0x5F :: (encodeAll xs.flatten ++ 0xFF :: rest)) = _
        have := rfc_while_str xs hwf.1 hst.1 fuel rest 2 .bytes (Or.inl ⟨rfl, rfl⟩) hwf.2 _ hd hlen
        generalize encodeAll xs.flatten ++ 0xFF :: rest = s1 at this ⊢
        show Option.map _ (whileNotBreak (wellFormed fuel true)
          (fun it r => if it = Kind.finite 2 then some r else none) (s1.length + 1) s1) = _
        rw [this]; rfl
      | text =>
        show wellFormed (fuel + 1) br (0x7F :: (encodeAll xs.flatten ++ 0xFF :: rest)) = _
        have := rfc_while_str xs hwf.1 hst.1 fuel rest 3 .text (Or.inr ⟨rfl, rfl⟩) hwf.2 _ hd hlen
        generalize encodeAll xs.flatten ++ 0xFF :: rest = s1 at this ⊢
        show Option.map _ (whileNotBreak (wellFormed fuel true)
          (fun it r => if it = Kind.finite 3 then some r else none) (s1.length + 1) s1) = _
        rw [this]; rfl
      | array =>
        show wellFormed (fuel + 1) br (0x9F :: (encodeAll xs.flatten ++ 0xFF :: rest)) = _
        have := rfc_while_arr xs hwf.1 hst.1 fuel rest _ hd hlen
        generalize encodeAll xs.flatten ++ 0xFF :: rest = s1 at this ⊢
        show Option.map _ (whileNotBreak (wellFormed fuel true) _ (s1.length + 1) s1) = _
        rw [this]; rfl
      | map =>
        show wellFormed (fuel + 1) br (0xBF :: (encodeAll xs.flatten ++ 0xFF :: rest)) = _
        have := rfc_while_map xs hwf.1 hst.1 (hst.2 rfl) fuel rest _ hd hlen
        generalize encodeAll xs.flatten ++ 0xFF :: rest = s1 at this ⊢
        show Option.map _ (whileNotBreak (wellFormed fuel true) _ (s1.length + 1) s1) = _
        rw [this]; rfl
theorem rfc_repeat : (xs : DataItems) → xs.WF → Stricts xs → ∀ (fuel : Nat) (rest : List UInt8),
    xs.depth < fuel →
    repeatN (wellFormed fuel false) xs.len (encodeAll xs.flatten ++ rest) = some rest
  | .nil, _, _, fuel, rest, _ => by simp [DataItems.len, DataItems.flatten, encodeAll, repeatN]
  | .cons x xs, hwf, hst, fuel, rest, hf => by
    simp only [DataItems.depth] at hf
    simp only [DataItems.len, DataItems.flatten, encodeAll_append, List.append_assoc, repeatN]
    rw [rfc_item x hwf.1 hst.1 fuel false _ (by omega)]
    exact rfc_repeat xs hwf.2 hst.2 fuel rest (by omega)
theorem rfc_while_arr : (xs : DataItems) → xs.WF → Stricts xs → ∀ (fuel : Nat) (rest : List UInt8) (k : Nat),
    xs.depth < fuel → xs.len + 1 ≤ k →
    whileNotBreak (wellFormed fuel true) (fun _ r => some r) k (encodeAll xs.flatten ++ 0xFF :: rest) =
      some rest
  | .nil, _, _, fuel, rest, k, _, hk => by
    cases k with
    | zero => simp at hk
    | succ k =>
      cases fuel with
      | zero => omega
      | succ fuel => simp [DataItems.flatten, encodeAll, whileNotBreak, wf_break]
  | .cons x xs, hwf, hst, fuel, rest, k, hf, hk => by
    simp only [DataItems.depth] at hf
    cases k with
    | zero => simp at hk
    | succ k =>
      simp only [DataItems.flatten, encodeAll_append, List.append_assoc, whileNotBreak]
      rw [rfc_item x hwf.1 hst.1 fuel true _ (by omega)]
      have hnb := kindOf_ne_brk x
      have ih := rfc_while_arr xs hwf.2 hst.2 fuel rest k (by omega) (by simp [DataItems.len] at hk; omega)
      cases hk' : kindOf x with
      | brk => exact absurd hk' hnb
      | finite m => simpa using ih
      | indefinite => simpa using ih
theorem rfc_while_str : (xs : DataItems) → xs.WF → Stricts xs → ∀ (fuel : Nat) (rest : List UInt8) (mt : Nat)
    (kd : IndefKind), (kd = .bytes ∧ mt = 2) ∨ (kd = .text ∧ mt = 3) → xs.AllChunks kd → ∀ (k : Nat),
    xs.depth < fuel → xs.len + 1 ≤ k →
    whileNotBreak (wellFormed fuel true) (fun it r => if it = .finite mt then some r else none) k
      (encodeAll xs.flatten ++ 0xFF :: rest) = some rest
  | .nil, _, _, fuel, rest, mt, kd, _, _, k, _, hk => by
    cases k with
    | zero => simp at hk
    | succ k =>
      cases fuel with
      | zero => omega
      | succ fuel => simp [DataItems.flatten, encodeAll, whileNotBreak, wf_break]
  | .cons x xs, hwf, hst, fuel, rest, mt, kd, hkd, hch, k, hf, hk => by
    simp only [DataItems.depth] at hf
    cases k with
    | zero => simp at hk
    | succ k =>
      simp only [DataItems.flatten, encodeAll_append, List.append_assoc, whileNotBreak]
      rw [rfc_item x hwf.1 hst.1 fuel true _ (by omega)]
      have hkx : kindOf x = .finite mt := by
        rcases hkd with ⟨h1, h2⟩ | ⟨h1, h2⟩
        · subst h1; subst h2; exact chunk_kind_bytes x hch.1
        · subst h1; subst h2; exact chunk_kind_text x hch.1
      have ih := rfc_while_str xs hwf.2 hst.2 fuel rest mt kd hkd hch.2 k (by omega)
        (by simp [DataItems.len] at hk; omega)
      rw [hkx]
      simpa using ih
theorem rfc_while_map : (xs : DataItems) → xs.WF → Stricts xs → xs.len % 2 = 0 →
    ∀ (fuel : Nat) (rest : List UInt8) (k : Nat), xs.depth < fuel → xs.len + 1 ≤ k →
    whileNotBreak (wellFormed fuel true) (fun _ r => (wellFormed fuel false r).map (·.2)) k
      (encodeAll xs.flatten ++ 0xFF :: rest) = some rest
  | .nil, _, _, _, fuel, rest, k, _, hk => by
    cases k with
    | zero => simp at hk
    | succ k =>
      cases fuel with
      | zero => omega
      | succ fuel => simp [DataItems.flatten, encodeAll, whileNotBreak, wf_break]
  | .cons x .nil, _, _, hev, _, _, _, _, _ => by simp [DataItems.len] at hev
  | .cons x (.cons y xs), hwf, hst, hev, fuel, rest, k, hf, hk => by
    simp only [DataItems.depth] at hf
    cases k with
    | zero => simp at hk
    | succ k =>
      simp only [DataItems.flatten, encodeAll_append, List.append_assoc, whileNotBreak]
      rw [rfc_item x hwf.1 hst.1 fuel true _ (by omega)]
      have hnb := kindOf_ne_brk x
      have hy := rfc_item y hwf.2.1 hst.2.1 fuel false (encodeAll xs.flatten ++ 0xFF :: rest) (by omega)
      have ih := rfc_while_map xs hwf.2.2 hst.2.2 (by simp [DataItems.len] at hev; omega) fuel rest k (by omega)
        (by simp [DataItems.len] at hk; omega)
      cases hk' : kindOf x with
      | brk => exact absurd hk' hnb
      | finite m => simp [hy]; exact ih
      | indefinite => simp [hy]; exact ih
end


/-- with a fuel that depends on the input length only -/
theorem rfc_accepts (t : DataItem) (hwf : t.WF) (hst : Strict t) (breakable : Bool) (rest : List UInt8) :
    wellFormed ((encodeAll t.flatten ++ rest).length + 1) breakable (encodeAll t.flatten ++ rest) =
      some (kindOf t, rest) := by
  apply rfc_item t hwf hst
  have h1 := depth_le_flatten t
  have h2 := encodeAll_length_ge t.flatten
  simp only [List.length_append]; omega

end AwsVerif.Proofs.C10.Rfc
