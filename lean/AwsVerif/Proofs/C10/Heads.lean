import AwsVerif.Model.Cbor
/-! C10 helper lemmas: libcbor head encoding / decoding on bytes. -/
namespace AwsVerif.Proofs.C10
open AwsVerif.Cbor

theorem b8_toNat (n : Nat) : (b8 n).toNat = n % 256 := by simp [b8]

/-- shortest-width table -/
def headLen (v : Nat) : Nat :=
  if v < 24 then 1 else if v < 2^8 then 2 else if v < 2^16 then 3 else if v < 2^32 then 5 else 9

theorem encUint_length (v off : Nat) : (encUint v off).length = headLen v := by
  unfold encUint headLen encUint8 encUint16 encUint32 encUint64
  repeat' split
  all_goals first | rfl | (exfalso; omega)

theorem loadBE_1 (a : UInt8) : loadBE [a] = a.toNat := by simp [loadBE]
theorem loadBE_2 (a b : UInt8) : loadBE [a, b] = a.toNat * 256 + b.toNat := by simp [loadBE]
theorem loadBE_4 (a b c d : UInt8) :
    loadBE [a, b, c, d] = ((a.toNat * 256 + b.toNat) * 256 + c.toNat) * 256 + d.toNat := by simp [loadBE]
theorem loadBE_8 (a b c d e f g h : UInt8) :
    loadBE [a, b, c, d, e, f, g, h] =
      ((((((a.toNat * 256 + b.toNat) * 256 + c.toNat) * 256 + d.toNat) * 256 + e.toNat) * 256 + f.toNat) * 256
        + g.toNat) * 256 + h.toNat := by simp [loadBE]

/-- What the stream decoder sees of a head written by `_cbor_encode_uint` with offset `32 * mt`. -/
theorem head_decode (mt : Nat) (hmt : mt < 8) (v : Nat) (hv : v < 2^64) (rest : List UInt8) :
    ∃ b tl ai, encUint v (32 * mt) = b :: tl ∧ b.toNat / 32 = mt ∧ b.toNat % 32 = ai ∧ ai < 28 ∧
      tl.length = argBytes ai ∧ readArg ai (tl ++ rest) = some v := by
  unfold encUint
  split
  · split
    · unfold encUint8
      split
      · refine ⟨_, [], v, rfl, ?_, ?_, by omega, ?_, ?_⟩
        · rw [b8_toNat]; omega
        · rw [b8_toNat]; omega
        · simp [argBytes]; omega
        · simp [readArg]; omega
      · refine ⟨_, [b8 v], 24, rfl, ?_, ?_, by omega, ?_, ?_⟩
        · rw [b8_toNat]; omega
        · rw [b8_toNat]; omega
        · simp [argBytes]
        · simp [readArg, argBytes, loadBE_1]; omega
    · refine ⟨_, [b8 (v / 2^8), b8 v], 25, rfl, ?_, ?_, by omega, ?_, ?_⟩
      · rw [b8_toNat]; omega
      · rw [b8_toNat]; omega
      · simp [argBytes]
      · simp [readArg, argBytes, loadBE_2]; omega
  · split
    · refine ⟨_, [b8 (v / 2^24), b8 (v / 2^16), b8 (v / 2^8), b8 v], 26, rfl, ?_, ?_, by omega, ?_, ?_⟩
      · rw [b8_toNat]; omega
      · rw [b8_toNat]; omega
      · simp [argBytes]
      · simp [readArg, argBytes, loadBE_4]; omega
    · refine ⟨_, [b8 (v / 2^56), b8 (v / 2^48), b8 (v / 2^40), b8 (v / 2^32), b8 (v / 2^24), b8 (v / 2^16),
                  b8 (v / 2^8), b8 v], 27, rfl, ?_, ?_, by omega, ?_, ?_⟩
      · rw [b8_toNat]; omega
      · rw [b8_toNat]; omega
      · simp [argBytes]
      · simp [readArg, argBytes, loadBE_8]; omega

/-- result of the stream decoder on a definite head of major type `mt < 7` with argument `v` -/
def headResult (mt v : Nat) (rest : List UInt8) : DecRes :=
  if mt = 0 then .ok (.uint (UInt64.ofNat v)) (headLen v)
  else if mt = 1 then .ok (.negint (UInt64.ofNat v)) (headLen v)
  else if mt = 2 then (if rest.length < v then .needMore else .ok (.bytes (rest.take v)) (headLen v + v))
  else if mt = 3 then (if rest.length < v then .needMore else .ok (.text (rest.take v)) (headLen v + v))
  else if mt = 4 then .ok (.arrayStart (UInt64.ofNat v)) (headLen v)
  else if mt = 5 then .ok (.mapStart (UInt64.ofNat v)) (headLen v)
  else .ok (.tag (UInt64.ofNat v)) (headLen v)

theorem streamDecode_head (mt : Nat) (hmt : mt < 7) (v : Nat) (hv : v < 2^64) (rest : List UInt8) :
    streamDecode (encUint v (32 * mt) ++ rest) = headResult mt v rest := by
  obtain ⟨b, tl, ai, he, h1, h2, h3, h4, h5⟩ := head_decode mt (by omega) v hv rest
  have hl : 1 + argBytes ai = headLen v := by
    have := encUint_length v (32 * mt)
    rw [he] at this
    simp at this
    omega
  rw [he]
  simp only [List.cons_append, streamDecode, h1, h2, h5]
  have h7 : mt ≠ 7 := by omega
  have h31 : ai ≠ 31 := by omega
  have h28 : ¬ 28 ≤ ai := by omega
  simp only [h7, h31, h28, if_false]
  have hd : List.drop (argBytes ai) (tl ++ rest) = rest := List.drop_left' h4
  simp only [hd, hl, headResult]
  
end AwsVerif.Proofs.C10
