import AwsVerif.Proofs.C10.Roundtrip
/-! C10: well-formed data items as trees, and `consume_next_whole_data_item` on their encoding. -/
namespace AwsVerif.Proofs.C10
open AwsVerif.Cbor

/-- one element that is a complete data item by itself -/
def IsScalar : Item → Prop
  | .uint _ | .negint _ | .float _ | .bytes _ | .text _ | .bool _ | .null | .undefined => True
  | _ => False

inductive IndefKind where
  | bytes | text | array | map
deriving DecidableEq

def IndefKind.start : IndefKind → Item
  | .bytes => .indefBytesStart | .text => .indefTextStart | .array => .indefArrayStart | .map => .indefMapStart

mutual
/-- a well-formed CBOR data item as a tree (RFC 8949 §1.2 "data item"), as written through the aws
encoder API: a head element followed by the content the head announces -/
inductive DataItem where
  | leaf (i : Item)
  | tag (t : UInt64) (x : DataItem)
  | arr (n : UInt64) (xs : DataItems)
  | map (n : UInt64) (xs : DataItems)
  | indef (k : IndefKind) (xs : DataItems)
inductive DataItems where
  | nil
  | cons (x : DataItem) (xs : DataItems)
end

mutual
/-- the sequence of encoder calls that writes the data item -/
def DataItem.flatten : DataItem → List Item
  | .leaf i => [i]
  | .tag t x => .tag t :: x.flatten
  | .arr n xs => .arrayStart n :: xs.flatten
  | .map n xs => .mapStart n :: xs.flatten
  | .indef k xs => k.start :: (xs.flatten ++ [.brk])
def DataItems.flatten : DataItems → List Item
  | .nil => []
  | .cons x xs => x.flatten ++ xs.flatten
end

def DataItems.len : DataItems → Nat
  | .nil => 0
  | .cons _ xs => xs.len + 1

mutual
/-- nesting depth (number of recursive `consume_next_whole_data_item` frames) -/
def DataItem.depth : DataItem → Nat
  | .leaf _ => 1
  | .tag _ x => x.depth + 1
  | .arr _ xs => xs.depth + 1
  | .map _ xs => xs.depth + 1
  | .indef _ xs => xs.depth + 1
def DataItems.depth : DataItems → Nat
  | .nil => 0
  | .cons x xs => max x.depth xs.depth
end

/-- chunk of an indefinite-length string of kind `k` (no constraint for arrays / maps) -/
def ChunkOk (k : IndefKind) : DataItem → Prop
  | .leaf (.bytes _) => k ≠ .text
  | .leaf (.text _) => k ≠ .bytes
  | _ => k = .array ∨ k = .map

def DataItems.AllChunks (k : IndefKind) : DataItems → Prop
  | .nil => True
  | .cons x xs => ChunkOk k x ∧ xs.AllChunks k

mutual
/-- well-formedness: counts match the heads, leaves are scalars within `size_t`, chunks of an
indefinite string are definite strings of the same major type.  (An indefinite map with an odd
number of items is admitted: the claim about `consume` does not need the parity.) -/
def DataItem.WF : DataItem → Prop
  | .leaf i => IsScalar i ∧ ItemOk i
  | .tag _ x => x.WF
  | .arr n xs => xs.len = n.toNat ∧ xs.WF
  | .map n xs => xs.len = 2 * n.toNat ∧ xs.WF
  | .indef k xs => xs.WF ∧ xs.AllChunks k
def DataItems.WF : DataItems → Prop
  | .nil => True
  | .cons x xs => x.WF ∧ xs.WF
end


def DataItem.head : DataItem → Item
  | .leaf i => i
  | .tag t _ => .tag t
  | .arr n _ => .arrayStart n
  | .map n _ => .mapStart n
  | .indef k _ => k.start

def DataItem.tail : DataItem → List Item
  | .leaf _ => []
  | .tag _ x => x.flatten
  | .arr _ xs => xs.flatten
  | .map _ xs => xs.flatten
  | .indef _ xs => xs.flatten ++ [.brk]

theorem flatten_eq (t : DataItem) : t.flatten = t.head :: t.tail := by
  cases t <;> simp [DataItem.flatten, DataItem.head, DataItem.tail]

theorem encodeAll_append (a b : List Item) : encodeAll (a ++ b) = encodeAll a ++ encodeAll b := by
  induction a with
  | nil => rfl
  | cons i a ih => simp [encodeAll, ih]

theorem head_ok (t : DataItem) (h : t.WF) : ItemOk t.head := by
  cases t with
  | leaf i => exact h.2
  | tag _ _ => trivial
  | arr _ _ => trivial
  | map _ _ => trivial
  | indef k _ => cases k <;> trivial

theorem head_not_brk (t : DataItem) (h : t.WF) : (normalise t.head).ty ≠ .brk := by
  cases t with
  | leaf i =>
    have := h.1
    cases i <;> simp [IsScalar] at this <;> simp [DataItem.head, normalise, Item.ty]
    rename_i bits
    cases narrow bits.toNat <;> simp
  | tag _ _ => simp [DataItem.head, normalise, Item.ty]
  | arr _ _ => simp [DataItem.head, normalise, Item.ty]
  | map _ _ => simp [DataItem.head, normalise, Item.ty]
  | indef k _ => cases k <;> simp [DataItem.head, IndefKind.start, normalise, Item.ty]

theorem depth_pos (t : DataItem) : 1 ≤ t.depth := by
  cases t <;> simp [DataItem.depth]

theorem flatten_length_pos (t : DataItem) : 1 ≤ t.flatten.length := by
  rw [flatten_eq]; simp

theorem len_le_flatten : (xs : DataItems) → xs.len ≤ xs.flatten.length
  | .nil => by simp [DataItems.len]
  | .cons x xs => by
    have := flatten_length_pos x
    have := len_le_flatten xs
    simp [DataItems.len, DataItems.flatten]; omega

/-- decoding the head element of an encoded data item -/
theorem streamDecode_tree (t : DataItem) (h : t.WF) (rest : List UInt8) :
    streamDecode (encodeAll t.flatten ++ rest) =
      .ok (normalise t.head) (encItem t.head).length ∧
    (encodeAll t.flatten ++ rest).drop (encItem t.head).length = encodeAll t.tail ++ rest := by
  rw [flatten_eq]
  simp only [encodeAll, List.append_assoc]
  exact ⟨streamDecode_encItem _ (head_ok t h) _, by simp⟩

theorem consumeWhole_uncached (fuel : Nat) (s : List UInt8) (it : Item) (n : Nat)
    (h : streamDecode s = .ok it n) :
    consumeWhole (fuel + 1) ⟨s, none, none⟩ =
      finishConsume (consumeBody (consumeWhole fuel) it ⟨s.drop n, some it, none⟩ ⟨s.drop n, none, none⟩) := by
  simp [consumeWhole, decodeNext, h]

theorem consumeWhole_cached (fuel : Nat) (s : List UInt8) (it : Item) :
    consumeWhole (fuel + 1) ⟨s, some it, none⟩ =
      finishConsume (consumeBody (consumeWhole fuel) it ⟨s, some it, none⟩ ⟨s, none, none⟩) := by
  simp [consumeWhole]

theorem peekType_uncached (s : List UInt8) (it : Item) (n : Nat) (h : streamDecode s = .ok it n) :
    peekType ⟨s, none, none⟩ = (⟨s.drop n, some it, none⟩, .ok it.ty) := by
  simp [peekType, decodeNext, h]

theorem peekType_cached (s : List UInt8) (it : Item) :
    peekType ⟨s, some it, none⟩ = (⟨s, some it, none⟩, .ok it.ty) := by
  simp [peekType]


/-- consuming with the head element already peeked is the same as consuming from scratch -/
theorem consumeWhole_peeked (fuel : Nat) (s : List UInt8) (it : Item) (n : Nat)
    (h : streamDecode s = .ok it n) :
    consumeWhole (fuel + 1) ⟨s.drop n, some it, none⟩ = consumeWhole (fuel + 1) ⟨s, none, none⟩ := by
  rw [consumeWhole_uncached fuel s it n h, consumeWhole_cached]

theorem scalar_body (self : Decoder → Decoder × Option Err) (i : Item) (hs : IsScalar i) (d1 d0 : Decoder) :
    consumeBody self (normalise i) d1 d0 = (d1, none) := by
  cases i <;> simp [IsScalar] at hs <;> simp [normalise, consumeBody]
  rename_i bits
  cases narrow bits.toNat <;> simp

mutual
theorem consume_item : (t : DataItem) → t.WF → ∀ (fuel : Nat) (rest : List UInt8), t.depth ≤ fuel →
    consumeWhole fuel ⟨encodeAll t.flatten ++ rest, none, none⟩ = (⟨rest, none, none⟩, none)
  | .leaf i, hwf, fuel, rest, hf => by
    cases fuel with
    | zero => simp [DataItem.depth] at hf
    | succ fuel =>
      obtain ⟨hd, hdrop⟩ := streamDecode_tree (.leaf i) hwf rest
      rw [consumeWhole_uncached fuel _ _ _ hd, hdrop]
      simp only [DataItem.head, DataItem.tail, encodeAll, List.nil_append]
      rw [scalar_body _ i hwf.1]
      rfl
  | .tag t x, hwf, fuel, rest, hf => by
    cases fuel with
    | zero => simp [DataItem.depth] at hf
    | succ fuel =>
      obtain ⟨hd, hdrop⟩ := streamDecode_tree (.tag t x) hwf rest
      rw [consumeWhole_uncached fuel _ _ _ hd, hdrop]
      simp only [DataItem.head, DataItem.tail, normalise, consumeBody]
      rw [consume_item x hwf fuel rest (by simp [DataItem.depth] at hf; omega)]
      rfl
  | .arr n xs, hwf, fuel, rest, hf => by
    cases fuel with
    | zero => simp [DataItem.depth] at hf
    | succ fuel =>
      obtain ⟨hd, hdrop⟩ := streamDecode_tree (.arr n xs) hwf rest
      rw [consumeWhole_uncached fuel _ _ _ hd, hdrop]
      simp only [DataItem.head, DataItem.tail, normalise, consumeBody]
      rw [← hwf.1, consume_iter xs hwf.2 fuel rest (by simp [DataItem.depth] at hf; omega)]
      rfl
  | .map n xs, hwf, fuel, rest, hf => by
    cases fuel with
    | zero => simp [DataItem.depth] at hf
    | succ fuel =>
      obtain ⟨hd, hdrop⟩ := streamDecode_tree (.map n xs) hwf rest
      rw [consumeWhole_uncached fuel _ _ _ hd, hdrop]
      simp only [DataItem.head, DataItem.tail, normalise, consumeBody]
      rw [← hwf.1, consume_iter xs hwf.2 fuel rest (by simp [DataItem.depth] at hf; omega)]
      rfl
  | .indef k xs, hwf, fuel, rest, hf => by
    cases fuel with
    | zero => simp [DataItem.depth] at hf
    | succ fuel =>
      obtain ⟨hd, hdrop⟩ := streamDecode_tree (.indef k xs) hwf rest
      rw [consumeWhole_uncached fuel _ _ _ hd, hdrop]
      have hb : ∀ d1 d0, consumeBody (consumeWhole fuel) (normalise (DataItem.indef k xs).head) d1 d0 =
          breakLoop (consumeWhole fuel) (d0.src.length + 1) d0 := by
        intro d1 d0; cases k <;> rfl
      rw [hb]
      simp only [DataItem.tail, encodeAll_append, List.append_assoc]
      have hbrk : encodeAll [Item.brk] ++ rest = 0xFF :: rest := rfl
      rw [hbrk]
      rw [consume_loop xs hwf.1 fuel rest _ (by simp [DataItem.depth] at hf; omega)
        (by
          have h1 := len_le_flatten xs
          have h2 := encodeAll_length_ge xs.flatten
          simp only [List.length_append, List.length_cons]; omega)]
      rfl
theorem consume_iter : (xs : DataItems) → xs.WF → ∀ (fuel : Nat) (rest : List UInt8), xs.depth ≤ fuel →
    iter (consumeWhole fuel) xs.len ⟨encodeAll xs.flatten ++ rest, none, none⟩ = (⟨rest, none, none⟩, none)
  | .nil, _, fuel, rest, _ => by
    simp [DataItems.len, DataItems.flatten, encodeAll, iter]
  | .cons x xs, hwf, fuel, rest, hf => by
    simp only [DataItems.len, DataItems.flatten, encodeAll_append, List.append_assoc, iter]
    simp only [DataItems.depth] at hf
    rw [consume_item x hwf.1 fuel _ (by omega)]
    exact consume_iter xs hwf.2 fuel rest (by omega)
theorem consume_loop : (xs : DataItems) → xs.WF → ∀ (fuel : Nat) (rest : List UInt8) (k : Nat),
    xs.depth ≤ fuel → xs.len + 1 ≤ k →
    breakLoop (consumeWhole fuel) k ⟨encodeAll xs.flatten ++ 0xFF :: rest, none, none⟩ =
      (⟨rest, some .brk, none⟩, none)
  | .nil, _, fuel, rest, k, _, hk => by
    cases k with
    | zero => simp at hk
    | succ k =>
      have hd : streamDecode (0xFF :: rest) = .ok .brk 1 := rfl
      simp only [DataItems.flatten, encodeAll, List.nil_append, breakLoop]
      rw [peekType_uncached _ _ _ hd]
      simp [untilBreak, Item.ty]
  | .cons x xs, hwf, fuel, rest, k, hf, hk => by
    simp only [DataItems.depth] at hf
    have hx := depth_pos x
    cases fuel with
    | zero => omega
    | succ fuel =>
      cases k with
      | zero => simp at hk
      | succ k =>
        simp only [DataItems.flatten, encodeAll_append, List.append_assoc, breakLoop]
        obtain ⟨hd, _⟩ := streamDecode_tree x hwf.1 (encodeAll xs.flatten ++ 0xFF :: rest)
        rw [peekType_uncached _ _ _ hd]
        simp only [untilBreak, head_not_brk x hwf.1, if_false]
        rw [consumeWhole_peeked fuel _ _ _ hd, consume_item x hwf.1 (fuel + 1) _ (by omega)]
        have := consume_loop xs hwf.2 (fuel + 1) rest k (by omega) (by simp [DataItems.len] at hk; omega)
        simp only [breakLoop] at this
        exact this
end


mutual
theorem depth_le_flatten : (t : DataItem) → t.depth ≤ t.flatten.length
  | .leaf _ => by simp [DataItem.depth, DataItem.flatten]
  | .tag _ x => by have := depth_le_flatten x; simp [DataItem.depth, DataItem.flatten]; omega
  | .arr _ xs => by have := depths_le_flatten xs; simp [DataItem.depth, DataItem.flatten]; omega
  | .map _ xs => by have := depths_le_flatten xs; simp [DataItem.depth, DataItem.flatten]; omega
  | .indef _ xs => by have := depths_le_flatten xs; simp [DataItem.depth, DataItem.flatten]; omega
theorem depths_le_flatten : (xs : DataItems) → xs.depth ≤ xs.flatten.length
  | .nil => by simp [DataItems.depth]
  | .cons x xs => by
    have := depth_le_flatten x
    have := depths_le_flatten xs
    simp [DataItems.depth, DataItems.flatten]; omega
end

/-- with the fuel the driver gives (`src.length + 2`) -/
theorem consumeWholeItem_tree (t : DataItem) (hwf : t.WF) (rest : List UInt8) :
    consumeWholeItem ⟨encodeAll t.flatten ++ rest, none, none⟩ = (⟨rest, none, none⟩, none) := by
  unfold consumeWholeItem
  apply consume_item t hwf
  have h1 := depth_le_flatten t
  have h2 := encodeAll_length_ge t.flatten
  simp only [List.length_append]; omega

end AwsVerif.Proofs.C10
