import AwsVerif.Proofs.C10.Roundtrip
/-! C10: the encoder's buffer bookkeeping never changes what is written, and the reserved capacity
always covers what the libcbor encoder is about to write. -/
namespace AwsVerif.Proofs.C10
open AwsVerif.Cbor

theorem headLen_le (v : Nat) : headLen v ≤ 9 := by
  unfold headLen; repeat' split
  all_goals omega

theorem encItem_le_reserve (i : Item) : (encItem i).length ≤ reserveLen i := by
  cases i <;> simp [encItem, reserveLen, encUint_length, headLen_le, encUint8]
  · rename_i bits
    cases narrow bits.toNat <;> simp [encForm, encUint_length, headLen_le, encUint32, encUint64]
  · rename_i b; cases b <;> simp

theorem reserveSmart_ge (cap len add : Nat) : len + add ≤ reserveSmart cap len add := by
  unfold reserveSmart
  simp only
  split
  · assumption
  · exact Nat.le_max_left _ _

theorem writeAll_spec (is : List Item) :
    ∀ e : Encoder, e.buf.length ≤ e.cap →
      (is.foldl Encoder.write e).buf = e.buf ++ encodeAll is ∧
      (is.foldl Encoder.write e).buf.length ≤ (is.foldl Encoder.write e).cap := by
  induction is with
  | nil => intro e h; simp [encodeAll, h]
  | cons i is ih =>
    intro e _
    have hstep : (e.write i).buf.length ≤ (e.write i).cap := by
      simp only [Encoder.write, List.length_append]
      have h1 := encItem_le_reserve i
      have h2 := reserveSmart_ge e.cap e.buf.length (reserveLen i)
      omega
    obtain ⟨h1, h2⟩ := ih (e.write i) hstep
    refine ⟨?_, h2⟩
    rw [List.foldl_cons, h1]
    simp only [Encoder.write, encodeAll, List.append_assoc]

end AwsVerif.Proofs.C10
