import AwsVerif.Proofs.C10.FloatComplete
/-! C10: the numeric specification of the narrowing on signed scaled integers (`Int`), and the
bridge to the magnitude lemmas. -/
namespace AwsVerif.Proofs.C10
open AwsVerif.Cbor

/-- the double as an integer multiple of 2^-1074 -/
def scaled64 (n : Nat) : Int := if fSign n = 1 then -(mag64 n : Int) else (mag64 n : Int)
/-- the float as an integer multiple of 2^-149 -/
def scaled32 (f : Nat) : Int := if s32 f = 1 then -(mag32 f : Int) else (mag32 f : Int)

/-- the finite double `n` is an integer in `[-2^63, 2^63)` -/
def IsInt64 (n : Nat) : Prop := ∃ z : Int, -2^63 ≤ z ∧ z < 2^63 ∧ scaled64 n = z * 2^1074
/-- the finite double `n` has the value of some finite binary32 number -/
def IsSingle (n : Nat) : Prop := ∃ f : Nat, f < 2^32 ∧ e32 f ≠ 255 ∧ scaled64 n = scaled32 f * 2^925

theorem cast_mul_pow (a k : Nat) : ((a * 2^k : Nat) : Int) = (a : Int) * (2:Int)^k := by
  rw [Nat.cast_mul, Nat.cast_pow, Nat.cast_ofNat]

theorem int_pow_pos (k : Nat) : (0:Int) < 2^k := by positivity

theorem isInt64_mag (n : Nat) (h : IsInt64 n) :
    ∃ a : Nat, mag64 n = a * 2^1074 ∧ (if fSign n = 1 then a ≤ 2^63 else a < 2^63) := by
  obtain ⟨z, hlo, hhi, hz⟩ := h
  unfold scaled64 at hz
  have hP := int_pow_pos 1074
  have h0 : (0:Int) ≤ mag64 n := Int.natCast_nonneg _
  generalize hPP : (2:Int)^1074 = P at *
  split at hz
  · rename_i hs
    have hz0 : z ≤ 0 := by
      by_contra hpos
      have : 0 < z * P := Int.mul_pos (by omega) hP
      omega
    refine ⟨(-z).toNat, ?_, ?_⟩
    · have h1 : ((-z).toNat : Int) = -z := Int.toNat_of_nonneg (by omega)
      have : ((mag64 n : Nat) : Int) = (((-z).toNat * 2^1074 : Nat) : Int) := by
        rw [cast_mul_pow, h1, hPP]; linarith
      exact Int.natCast_inj.mp this
    · rw [if_pos hs]; omega
  · rename_i hs
    have hz0 : 0 ≤ z := by
      by_contra hneg
      have : z * P < 0 := Int.mul_neg_of_neg_of_pos (by omega) hP
      omega
    refine ⟨z.toNat, ?_, ?_⟩
    · have h1 : (z.toNat : Int) = z := Int.toNat_of_nonneg hz0
      have : ((mag64 n : Nat) : Int) = ((z.toNat * 2^1074 : Nat) : Int) := by
        rw [cast_mul_pow, h1, hPP]; exact hz
      exact Int.natCast_inj.mp this
    · rw [if_neg hs]; omega

theorem isSingle_mag (n : Nat) (h : IsSingle n) :
    ∃ f : Nat, f < 2^32 ∧ e32 f ≠ 255 ∧ mag64 n = mag32 f * 2^925 := by
  obtain ⟨f, hf, he, hz⟩ := h
  refine ⟨f, hf, he, ?_⟩
  unfold scaled64 scaled32 at hz
  have hP := int_pow_pos 925
  have h0 : (0:Int) ≤ mag64 n := Int.natCast_nonneg _
  have h1 : (0:Int) ≤ mag32 f := Int.natCast_nonneg _
  have key : ((mag64 n : Nat) : Int) = ((mag32 f * 2^925 : Nat) : Int) := by
    rw [cast_mul_pow]
    generalize (2:Int)^925 = P at *
    have h2 : (0:Int) ≤ (mag32 f : Int) * P := Int.mul_nonneg h1 (le_of_lt hP)
    generalize (mag64 n : Int) = A at *
    generalize (mag32 f : Int) = B at *
    split at hz <;> split at hz
    · linarith
    · have : B * P = 0 := by nlinarith
      linarith
    · have : B * P = 0 := by nlinarith
      linarith
    · exact hz
  exact Int.natCast_inj.mp key

theorem isInt64_of_uint (n v : Nat) (hv : v < 2^63) (h : mag64 n = v * 2^1074) (hs : fSign n = 0 ∨ v = 0) :
    IsInt64 n := by
  rcases hs with hs | hs
  · refine ⟨(v : Int), by omega, by omega, ?_⟩
    unfold scaled64
    rw [if_neg (by omega), h, cast_mul_pow]
  · subst hs
    refine ⟨0, by omega, by omega, ?_⟩
    unfold scaled64
    rw [h, Nat.zero_mul, Int.zero_mul]; simp

theorem isInt64_of_negint (n v : Nat) (hv : v < 2^63) (hs : fSign n = 1) (h : mag64 n = (v + 1) * 2^1074) :
    IsInt64 n := by
  refine ⟨-((v : Int) + 1), by omega, by omega, ?_⟩
  unfold scaled64
  rw [if_pos hs, h, cast_mul_pow, Nat.cast_add, Nat.cast_one, Int.neg_mul]

theorem isSingle_of_sound (n f : Nat) (hf : f < 2^32) (he : e32 f ≠ 255) (hs : s32 f = fSign n)
    (h : mag64 n = mag32 f * 2^925) : IsSingle n := by
  refine ⟨f, hf, he, ?_⟩
  unfold scaled64 scaled32
  rw [hs, h, cast_mul_pow]
  split
  · rw [Int.neg_mul]
  · rfl

end AwsVerif.Proofs.C10
