import AwsVerif.Proofs.C08.StepSched
/-! Steps of the client threads (including the destroy callback) preserve the invariant. -/
set_option linter.unusedSimpArgs false
set_option linter.unusedVariables false
namespace AwsVerif.Proofs.C08
open AwsVerif.ThreadSched

variable {progs : List (List Op)} {s s' : Sys} {i : Nat} {c c' : Client}

theorem clientPend_set (hci : s.clients[i]? = some c) (hcl : s'.clients = s.clients.set i c') (a : Task) :
    (clientPend s').count a + (pend c).count a = (clientPend s).count a + (pend c').count a := by
  unfold clientPend; rw [hcl]; exact count_flatMap_set pend a hci

/-- a client step that pushes nothing and invokes nothing -/
theorem InvP.frameClient (h : InvP progs s) (hci : s.clients[i]? = some c)
    (hs : s'.scheduled = s.scheduled) (hcl : s'.clients = s.clients.set i c') (hpend : pend c' = pend c)
    (hpp : pcPendS s'.st = pcPendS s.st) (hcbs : s'.cbs = s.cbs) (hl : s'.log = s.log) : InvP progs s' :=
  h.frame hs (fun a => by have := clientPend_set hci hcl a; rw [hpend] at this; omega) hpp hcbs hl

theorem InvT.frame' (h : InvT s)
    (hp : ∀ a, (places s').count a = (places s).count a) (hs : s'.scheduled = s.scheduled)
    (hi : s'.inner = s.inner) (ht : s'.tsOf = s.tsOf) (hl : s'.log = s.log)
    (hlo : ∀ e ∈ s.log, logOk s e → logOk s' e) (hclock : s.clock ≤ s'.clock)
    (hex : s'.st.pc ≠ .exited → s.st.pc ≠ .exited) : InvT s' := by
  refine ⟨?_, ?_, ?_, ?_, ?_⟩
  · intro t; rw [hp t, hs]; exact h.cntPlaces t
  · intro t; unfold innerTasks; rw [hi]; exact h.flagInv t
  · intro t ht'; rw [hi] at ht'; rw [ht]; exact h.asapTs t ht'
  · intro e he; rw [hl] at he; exact hlo e he (h.logInv e he)
  · intro hne t ht'; rw [hi] at ht'; rw [ht]; have := h.runTs (hex hne) t ht'; omega

theorem InvM.frameClient (h : InvM s) (hci : s.clients[i]? = some c)
    (hcl : s'.clients = s.clients.set i c') (hclock : s'.clock = s.clock)
    (hnow : s'.st.now = s.st.now) (hcpy : cpyOk s'.st) (hcs : schedCS s'.st.pc = schedCS s.st.pc)
    (hm0 : s'.mutex = some 0 ↔ s.mutex = some 0)
    (hme : clientCS c'.pc = true ↔ s'.mutex = some (i + 1))
    (hmo : ∀ j, j ≠ i → (s'.mutex = some (j + 1) ↔ s.mutex = some (j + 1))) : InvM s' := by
  have hil : i < s.clients.length := (List.getElem?_eq_some_iff.mp hci).1
  refine ⟨?_, hcpy, ?_, ?_, ?_⟩
  · rw [hnow, hclock]; exact h.nowLe
  · rw [hm0, hcs]; exact h.mutexS
  · intro j cj hj
    rw [hcl] at hj
    rcases set_get_cases hj with ⟨e1, e2, _⟩ | ⟨e1, e2⟩
    · subst e1; subst e2; exact hme
    · rw [hmo j e1]; exact h.mutexC j cj e2
  · intro k hk
    rw [hcl, List.length_set]
    cases k with
    | zero => omega
    | succ j =>
      by_cases hji : j = i
      · omega
      · exact h.mutexB _ ((hmo j hji).mp hk)

/-- same mutex state, the client stays inside / outside its critical section -/
theorem InvM.frameClientSame (h : InvM s) (hci : s.clients[i]? = some c)
    (hcl : s'.clients = s.clients.set i c') (hclock : s'.clock = s.clock)
    (hnow : s'.st.now = s.st.now) (hcpy : cpyOk s'.st) (hcs : schedCS s'.st.pc = schedCS s.st.pc)
    (hmx : s'.mutex = s.mutex) (hpc : clientCS c'.pc = clientCS c.pc) : InvM s' :=
  h.frameClient hci hcl hclock hnow hcpy hcs (by rw [hmx]) (by rw [hmx, hpc]; exact h.mutexC i c hci)
    (fun j _ => by rw [hmx])

theorem InvR.noDestroyer (h : InvR s) (hci : s.clients[i]? = some c) (hheld : 1 ≤ c.held) :
    s.destroyer = none := by
  cases hd : s.destroyer with
  | none => rfl
  | some k =>
    have h0 := h.dRef (by rw [hd]; simp)
    have := h.refSum
    rw [h0] at this
    have := sum_map_eq_zero (·.held) this.symm hci
    omega

/-- a client step outside the destroy callback that keeps `refCount = Σ held` -/
theorem InvR.frameNormal (h : InvR s) (hci : s.clients[i]? = some c) (hheld : 1 ≤ c.held)
    (hcl : s'.clients = s.clients.set i c') (hsum : s'.refCount + c.held = s.refCount + c'.held)
    (hnd : inDestroy c'.pc = false) (hw : cwfOk c')
    (hd : s'.destroyer = s.destroyer) (hrel : s'.released = s.released) (hse : s'.shouldExit = s.shouldExit)
    (hpc : s'.st.pc = .exited → s.st.pc = .exited)
    (hrp : runningPhase s'.st.pc = runningPhase s.st.pc) (hir : s'.inner.running = s.inner.running)
    (hsw : s'.sweeping = s.sweeping) (hmis : s'.misuse = s.misuse) : InvR s' := by
  have hnone := h.noDestroyer hci hheld
  refine ⟨?_, ?_, ?_, ?_, ?_, ?_, ?_, ?_, ?_, ?_, ?_⟩
  · have := sum_map_set (·.held) (a := c') hci
    have := h.refSum
    rw [hcl]; omega
  · intro j cj hj; rw [hcl] at hj
    rcases set_get_cases hj with ⟨e1, e2, _⟩ | ⟨e1, e2⟩
    · subst e2; exact hw
    · exact h.cwf j cj e2
  · intro j cj hj hin; rw [hcl] at hj
    rcases set_get_cases hj with ⟨e1, e2, _⟩ | ⟨e1, e2⟩
    · subst e2; rw [hnd] at hin; cases hin
    · have := h.dIn j cj e2 hin; rw [hnone] at this; cases this
  · intro hne; rw [hd, hnone] at hne; exact absurd rfl hne
  · intro k hk; rw [hd, hnone] at hk; cases hk
  · intro j cj hdj; rw [hd, hnone] at hdj; cases hdj
  · intro hr; rw [hrel] at hr; exact absurd hnone (h.relD hr)
  · rw [hse, hd]
    refine ⟨fun he => h.exitFlag.1 (hpc he), h.exitFlag.2⟩
  · rw [hrp, hsw, hir]; exact h.runInv
  · rw [hsw, hd]; exact h.sweepD
  · rw [hmis, hd]; exact h.misuseD

theorem cpyOk_wake (s : Sys) (h : cpyOk s.st) : cpyOk (wake s).st := by
  unfold wake; split
  · rename_i hb; simp [cpyOk, hb] at h ⊢; exact h
  · exact h

/-- lock acquisition at the start of schedule_future / cancel_task -/
theorem inv_lock (h : Inv progs s) {c : Client} (hci : s.clients[i]? = some c) (hpc : c.pc = .idle)
    (hmx : s.mutex = none) (op : Op) (rest : List Op) (hprog : c.prog = op :: rest) (pc' : CPc)
    (hcs : clientCS pc' = true) (hnd : inDestroy pc' = false)
    (hpend : pend { c with prog := rest, pc := pc' } = pend c)
    (hw' : cwfOk { c with prog := rest, pc := pc' }) :
    Inv progs { s with mutex := some (i + 1), clients := s.clients.set i { c with prog := rest, pc := pc' } } := by
  have hw := h.r.cwf i c hci
  simp only [cwfOk, hpc, hprog] at hw
  have hheld := wfProg_cons hw
  refine ⟨h.t.frame rfl rfl rfl rfl rfl rfl (Nat.le_refl _) (fun e => e),
    h.p.frameClient hci rfl rfl hpend rfl rfl rfl, ?_, ?_, h.k.frame rfl rfl rfl⟩
  · refine h.m.frameClient hci rfl rfl rfl h.m.cpy rfl ?_ ?_ ?_
    · simp [hmx]
    · simp [hcs]
    · intro j hj; simp [hmx]; omega
  · exact h.r.frameNormal hci hheld rfl (by simp) hnd hw' rfl rfl rfl (fun e => e) rfl rfl rfl rfl

theorem inv_release (h : Inv progs s) {c : Client} (hci : s.clients[i]? = some c) (hpc : c.pc = .idle)
    (rest : List Op) (hprog : c.prog = .release :: rest) :
    Inv progs { s with
      refCount := s.refCount - 1,
      destroyer := if s.refCount = 1 then some (i + 1) else s.destroyer,
      clients := s.clients.set i
        { prog := rest, held := c.held - 1, pc := if s.refCount = 1 then .dStore else .idle } } := by
  have hw := h.r.cwf i c hci
  simp only [cwfOk, hpc, hprog] at hw
  have hheld := wfProg_cons hw
  simp [wfProg] at hw
  have hle : c.held ≤ s.refCount := by rw [h.r.refSum]; exact le_sum_map (·.held) hci
  have hnone := h.r.noDestroyer hci hheld
  have hil : i < s.clients.length := (List.getElem?_eq_some_iff.mp hci).1
  by_cases h1 : s.refCount = 1
  · simp only [h1, if_true]
    have hc1 : c.held = 1 := by omega
    have hrest : rest = [] := by rw [hc1] at hw; exact wfProg_zero hw.2
    subst hrest
    refine ⟨?_, h.p.frameClient hci rfl rfl (by simp [pend, hpc, hprog, schedTasks]) rfl rfl rfl, ?_, ?_, h.k.frame rfl rfl rfl⟩
    · refine h.t.frame' (fun _ => rfl) rfl rfl rfl rfl ?_ (Nat.le_refl _) (fun e => e)
      intro e he hlo
      rcases hlo.1 with h0 | ⟨_, hd⟩
      · exact ⟨Or.inl h0, hlo.2⟩
      · rw [hnone] at hd; cases hd
    · exact h.m.frameClientSame hci rfl rfl rfl h.m.cpy rfl rfl (by simp [hpc, clientCS])
    · refine ⟨?_, ?_, ?_, ?_, ?_, ?_, ?_, ?_, h.r.runInv, ?_, ?_⟩
      · have := sum_map_set (·.held) (a := ({ prog := [], held := c.held - 1, pc := .dStore } : Client)) hci
        have := h.r.refSum
        simp only at *; omega
      · intro j cj hj
        rcases set_get_cases hj with ⟨e1, e2, _⟩ | ⟨e1, e2⟩
        · subst e2; simp [cwfOk]; omega
        · exact h.r.cwf j cj e2
      · intro j cj hj hin
        rcases set_get_cases hj with ⟨e1, e2, _⟩ | ⟨e1, e2⟩
        · subst e1; rfl
        · have := h.r.dIn j cj e2 hin; rw [hnone] at this; cases this
      · intro _; simp only <;> omega
      · intro k hk; simp only [Option.some.injEq] at hk; subst hk; rw [List.length_set]; omega
      · intro j cj hdj hj
        simp only [Option.some.injEq, Nat.add_right_cancel_iff] at hdj; subst hdj
        rw [get_set_self hci] at hj; injection hj with hj; subst hj
        simp only [phaseOk]
        constructor
        · cases hr : s.released with
          | false => rfl
          | true => exact absurd hnone (h.r.relD hr)
        · cases hr : s.sweeping with
          | false => rfl
          | true => exact absurd hnone (h.r.sweepD hr)
      · intro _; simp
      · exact ⟨h.r.exitFlag.1, fun _ => by simp⟩
      · intro _; simp
      · intro _; simp
  · simp only [h1, if_false]
    refine ⟨h.t.frame rfl rfl rfl rfl rfl rfl (Nat.le_refl _) (fun e => e),
      h.p.frameClient hci rfl rfl (by simp [pend, hpc, hprog, schedTasks]) rfl rfl rfl, ?_, ?_,
      h.k.frame rfl rfl rfl⟩
    · exact h.m.frameClientSame hci rfl rfl rfl h.m.cpy rfl rfl (by simp [hpc])
    · exact h.r.frameNormal hci hheld rfl (by simp only; omega) (by simp [inDestroy]) (by simp [cwfOk, hw])
        rfl rfl rfl (fun e => e) rfl rfl rfl rfl

/-! ### `wake` changes only the scheduler thread's program counter, `blocked` → `reacq false` -/
section wakeFrame
variable (s : Sys)
@[simp] theorem wake_schedQ : (wake s).schedQ = s.schedQ := by unfold wake; split <;> rfl
@[simp] theorem wake_cancelQ : (wake s).cancelQ = s.cancelQ := by unfold wake; split <;> rfl
@[simp] theorem wake_mutex : (wake s).mutex = s.mutex := by unfold wake; split <;> rfl
@[simp] theorem wake_shouldExit : (wake s).shouldExit = s.shouldExit := by unfold wake; split <;> rfl
@[simp] theorem wake_refCount : (wake s).refCount = s.refCount := by unfold wake; split <;> rfl
@[simp] theorem wake_inner : (wake s).inner = s.inner := by unfold wake; split <;> rfl
@[simp] theorem wake_tsOf : (wake s).tsOf = s.tsOf := by unfold wake; split <;> rfl
@[simp] theorem wake_clock : (wake s).clock = s.clock := by unfold wake; split <;> rfl
@[simp] theorem wake_log : (wake s).log = s.log := by unfold wake; split <;> rfl
@[simp] theorem wake_clients : (wake s).clients = s.clients := by unfold wake; split <;> rfl
@[simp] theorem wake_scheduled : (wake s).scheduled = s.scheduled := by unfold wake; split <;> rfl
@[simp] theorem wake_nextRec : (wake s).nextRec = s.nextRec := by unfold wake; split <;> rfl
@[simp] theorem wake_freed : (wake s).freed = s.freed := by unfold wake; split <;> rfl
@[simp] theorem wake_destroyer : (wake s).destroyer = s.destroyer := by unfold wake; split <;> rfl
@[simp] theorem wake_released : (wake s).released = s.released := by unfold wake; split <;> rfl
@[simp] theorem wake_cbs : (wake s).cbs = s.cbs := by unfold wake; split <;> rfl
@[simp] theorem wake_sweeping : (wake s).sweeping = s.sweeping := by unfold wake; split <;> rfl
@[simp] theorem wake_misuse : (wake s).misuse = s.misuse := by unfold wake; split <;> rfl
@[simp] theorem wake_listCpy : (wake s).st.listCpy = s.st.listCpy := by unfold wake; split <;> rfl
@[simp] theorem wake_cancelCpy : (wake s).st.cancelCpy = s.st.cancelCpy := by unfold wake; split <;> rfl
@[simp] theorem wake_now : (wake s).st.now = s.st.now := by unfold wake; split <;> rfl
theorem wake_schedCS : schedCS (wake s).st.pc = schedCS s.st.pc := by
  unfold wake; split
  · rename_i hb; simp [hb, schedCS]
  · rfl
theorem wake_exited (h : (wake s).st.pc = .exited) : s.st.pc = .exited := by
  unfold wake at h; split at h
  · simp at h
  · exact h
theorem wake_exited_iff : (wake s).st.pc = .exited ↔ s.st.pc = .exited := by
  constructor
  · exact wake_exited s
  · intro h; unfold wake; simp [h]
theorem wake_runningPhase : runningPhase (wake s).st.pc = runningPhase s.st.pc := by
  unfold wake; split
  · rename_i hb; simp [hb, runningPhase]
  · rfl
theorem wake_pcPendS : pcPendS (wake s).st = pcPendS s.st := by
  unfold wake; split
  · rename_i hb; simp [hb, pcPendS]
  · rfl
end wakeFrame

theorem cwfOk_destroy {c' : Client} (hh : c'.held = 0) (hp : c'.prog = [])
    (hpc' : inDestroy c'.pc = true ∨ c'.pc = .idle) : cwfOk c' := by
  rcases hpc' with h1 | h1
  · cases hpc : c'.pc <;> simp [hpc, inDestroy] at h1 <;> simp [cwfOk, hpc, hh, hp]
  · simp [cwfOk, h1, hh, hp, wfProg]

/-- a step of the destroy callback that moves the destroying client's program counter -/
theorem InvR.frameDestroy (h : InvR s) (hci : s.clients[i]? = some c) (hd : s.destroyer = some (i + 1))
    (hcl : s'.clients = s.clients.set i c') (hh : c'.held = 0) (hp : c'.prog = [])
    (hpc' : inDestroy c'.pc = true ∨ c'.pc = .idle)
    (hrc : s'.refCount = s.refCount) (hdd : s'.destroyer = s.destroyer)
    (hphase : phaseOk s' c'.pc)
    (hex : s'.st.pc = .exited → s'.shouldExit = true)
    (hrun : runningPhase s'.st.pc = false → s'.sweeping = false → s'.inner.running = []) : InvR s' := by
  have hil : i < s.clients.length := (List.getElem?_eq_some_iff.mp hci).1
  have hcw : c.held = 0 := by
    have h0 := h.dRef (by rw [hd]; simp)
    have := h.refSum; rw [h0] at this
    exact sum_map_eq_zero (·.held) this.symm hci
  refine ⟨?_, ?_, ?_, ?_, ?_, ?_, ?_, ?_, hrun, ?_, ?_⟩
  · have := sum_map_set (·.held) (a := c') hci
    have := h.refSum
    rw [hcl, hrc]; omega
  · intro j cj hj; rw [hcl] at hj
    rcases set_get_cases hj with ⟨e1, e2, _⟩ | ⟨e1, e2⟩
    · subst e2; exact cwfOk_destroy hh hp hpc'
    · exact h.cwf j cj e2
  · intro j cj hj hin; rw [hcl] at hj; rw [hdd]
    rcases set_get_cases hj with ⟨e1, e2, _⟩ | ⟨e1, e2⟩
    · subst e1; exact hd
    · exact h.dIn j cj e2 hin
  · intro _; rw [hrc]; exact h.dRef (by rw [hd]; simp)
  · intro k hk; rw [hdd] at hk; rw [hcl, List.length_set]; exact h.dBound k hk
  · intro j cj hdj hj
    rw [hdd, hd] at hdj
    simp only [Option.some.injEq, Nat.add_right_cancel_iff] at hdj; subst hdj
    rw [hcl, get_set_self hci] at hj; injection hj with hj; subst hj
    exact hphase
  · intro _; rw [hdd, hd]; simp
  · exact ⟨hex, fun _ => by rw [hdd, hd]; simp⟩
  · intro _; rw [hdd, hd]; simp
  · intro _; rw [hdd, hd]; simp

/-- a step of the destroy callback that leaves the client record alone (one element of a drain loop) -/
theorem InvR.frameDestroySame (h : InvR s) (hci : s.clients[i]? = some c) (hd : s.destroyer = some (i + 1))
    (hcl : s'.clients = s.clients) (hrc : s'.refCount = s.refCount) (hdd : s'.destroyer = s.destroyer)
    (hphase : phaseOk s' c.pc)
    (hex : s'.st.pc = .exited → s'.shouldExit = true)
    (hrun : runningPhase s'.st.pc = false → s'.sweeping = false → s'.inner.running = []) : InvR s' := by
  refine ⟨?_, ?_, ?_, ?_, ?_, ?_, ?_, ?_, hrun, ?_, ?_⟩
  · rw [hrc, hcl]; exact h.refSum
  · rw [hcl]; exact h.cwf
  · rw [hcl, hdd]; exact h.dIn
  · rw [hdd, hrc]; exact h.dRef
  · rw [hdd, hcl]; exact h.dBound
  · intro j cj hdj hj
    rw [hdd, hd] at hdj
    simp only [Option.some.injEq, Nat.add_right_cancel_iff] at hdj; subst hdj
    rw [hcl, hci] at hj; injection hj with hj; subst hj
    exact hphase
  · intro _; rw [hdd, hd]; simp
  · exact ⟨hex, fun _ => by rw [hdd, hd]; simp⟩
  · intro _; rw [hdd, hd]; simp
  · intro _; rw [hdd, hd]; simp

theorem pend_afterInvokeD (c : Client) (op : CbOp) (ret : DRet) :
    pend { c with pc := afterInvokeD op ret } = op.target ++ schedTasks c.prog := by
  cases op <;> cases ret <;> rfl

theorem clientCS_afterInvokeD (op : CbOp) (ret : DRet) : clientCS (afterInvokeD op ret) = false := by
  cases op <;> cases ret <;> rfl

theorem inDestroy_afterInvokeD (op : CbOp) (ret : DRet) : inDestroy (afterInvokeD op ret) = true := by
  cases op <;> cases ret <;> rfl

theorem phaseOk_afterInvokeD_drainC {s : Sys} (op : CbOp) (hj : joined s) (hsw : s.sweeping = false)
    (h0 : op = .none → s.misuse = false → s.schedQ = []) (h1 : op ≠ .none → s.misuse = true) :
    phaseOk s (afterInvokeD op .drainC) := by
  cases op with
  | none => exact ⟨hj, hsw, h0 rfl⟩
  | scheduleNow t => exact ⟨hj, hsw, h1 (by simp)⟩
  | scheduleFuture t τ => exact ⟨hj, hsw, h1 (by simp)⟩
  | cancel t => exact ⟨hj, hsw, h1 (by simp)⟩

theorem phaseOk_afterInvokeD_sweep {s : Sys} (op : CbOp) (hj : joined s) (hsw : s.sweeping = true)
    (h0 : op = .none → s.misuse = false → qEmpty s) (h1 : op ≠ .none → s.misuse = true) :
    phaseOk s (afterInvokeD op .sweep) := by
  cases op with
  | none => exact ⟨hj, hsw, h0 rfl⟩
  | scheduleNow t => exact ⟨hj, hsw, h1 (by simp)⟩
  | scheduleFuture t τ => exact ⟨hj, hsw, h1 (by simp)⟩
  | cancel t => exact ⟨hj, hsw, h1 (by simp)⟩

theorem inv_stepClient (h : Inv progs s) (hs : stepClient Cfg.fixed s i = some s') : Inv progs s' := by
  unfold stepClient at hs
  cases hci : s.clients[i]? with
  | none => simp [hci] at hs
  | some c =>
    simp only [hci] at hs
    have hw := h.r.cwf i c hci
    have hmC := h.m.mutexC i c hci
    have hT := h.t
    have hP := h.p
    cases hpc : c.pc with
    | idle =>
      simp only [hpc] at hs
      cases hprog : c.prog with
      | nil => simp [hprog] at hs
      | cons op rest =>
        simp only [hprog] at hs
        simp only [cwfOk, hpc, hprog] at hw
        have hheld := wfProg_cons hw
        cases op with
        | scheduleNow t =>
          simp only at hs
          split at hs
          · rename_i hmx
            injection hs with hs; subst hs
            exact inv_lock h hci hpc hmx _ rest hprog (.sBody t 0) rfl rfl
              (by simp [pend, hpc, hprog, schedTasks]) (by simp [wfProg] at hw; simp [cwfOk, hw])
          · cases hs
        | scheduleFuture t τ =>
          simp only at hs
          split at hs
          · rename_i hmx
            injection hs with hs; subst hs
            exact inv_lock h hci hpc hmx _ rest hprog (.sBody t τ) rfl rfl
              (by simp [pend, hpc, hprog, schedTasks]) (by simp [wfProg] at hw; simp [cwfOk, hw])
          · cases hs
        | cancel t =>
          simp only at hs
          split at hs
          · rename_i hmx
            injection hs with hs; subst hs
            exact inv_lock h hci hpc hmx _ rest hprog (.cBody t) rfl rfl
              (by simp [pend, hpc, hprog, schedTasks]) (by simp [wfProg] at hw; simp [cwfOk, hw])
          · cases hs
        | acquire =>
          simp only at hs
          injection hs with hs; subst hs
          simp [wfProg] at hw
          refine ⟨h.t.frame rfl rfl rfl rfl rfl rfl (Nat.le_refl _) (fun e => e),
            h.p.frameClient hci rfl rfl (by simp [pend, hpc, hprog, schedTasks]) rfl rfl rfl, ?_, ?_,
            h.k.frame rfl rfl rfl⟩
          · exact h.m.frameClientSame hci rfl rfl rfl h.m.cpy rfl rfl (by simp [hpc])
          · exact h.r.frameNormal hci hheld rfl (by simp; omega) (by simp [inDestroy, hpc]) (by simp [cwfOk, hpc, hw])
              rfl rfl rfl (fun e => e) rfl rfl rfl rfl
        | release =>
          simp only at hs
          injection hs with hs; subst hs
          exact inv_release h hci hpc rest hprog
    | sBody t τ =>
      simp only [hpc] at hs
      injection hs with hs; subst hs
      simp only [cwfOk, hpc] at hw
      have hpe : pend c = t :: schedTasks c.prog := by simp [pend, hpc]
      have hpe' : pend { c with pc := CPc.unlock } = schedTasks c.prog := by simp [pend]
      have ht0 : s.scheduled.count t = 0 := by
        have := hP.cntSched t
        have := count_le_flatMap pend t hci
        rw [hpe] at this; simp [List.count_cons] at this
        simp only [pendAll, clientPend, List.count_append] at *; omega
      have hset := clientPend_set (s' := { s with clients := s.clients.set i { c with pc := CPc.unlock } }) hci rfl
      refine ⟨?_, ?_, ?_, ?_, h.k.frame rfl rfl rfl⟩
      · exact (pushTask_T hT t τ ht0).frame rfl rfl rfl rfl rfl rfl (Nat.le_refl _) (fun e => e)
      · refine hP.push [t] rfl rfl rfl ?_ ?_
        · intro a; have := hset a; rw [hpe, hpe'] at this
          simp only [List.count_cons, List.count_nil, clientPend] at this ⊢; omega
        · intro a; have := hset a; rw [hpe, hpe'] at this
          simp only [List.count_cons, List.count_nil, clientPend] at this ⊢; omega
      · exact h.m.frameClientSame hci rfl rfl rfl h.m.cpy rfl rfl (by simp [hpc, clientCS])
      · exact h.r.frameNormal hci hw.1 rfl (by simp) (by simp [inDestroy]) (by simp [cwfOk, hw])
          rfl rfl rfl (fun e => e) rfl rfl rfl rfl
    | cBody t =>
      simp only [hpc] at hs
      injection hs with hs; subst hs
      simp only [cwfOk, hpc] at hw
      refine ⟨?_, ?_, ?_, ?_, ?_⟩
      · exact (pushCancel_T hT t).frame rfl rfl rfl rfl rfl rfl (Nat.le_refl _) (fun e => e)
      · exact hP.frameClient hci rfl rfl (by simp [pend, hpc]) rfl rfl rfl
      · exact h.m.frameClientSame hci rfl rfl rfl h.m.cpy rfl rfl (by simp [hpc, clientCS])
      · exact h.r.frameNormal hci hw.1 rfl (by simp) (by simp [inDestroy]) (by simp [cwfOk, hw])
          rfl rfl rfl (fun e => e) rfl rfl rfl rfl
      · exact (pushCancel_K h.k t).frame rfl rfl rfl
    | unlock =>
      simp only [hpc] at hs
      injection hs with hs; subst hs
      simp only [cwfOk, hpc] at hw
      have hmx : s.mutex = some (i + 1) := hmC.mp (by simp [hpc, clientCS])
      refine ⟨h.t.frame rfl rfl rfl rfl rfl rfl (Nat.le_refl _) (fun e => e),
        h.p.frameClient hci rfl rfl (by simp [pend, hpc]) rfl rfl rfl, ?_, ?_, h.k.frame rfl rfl rfl⟩
      · refine h.m.frameClient hci rfl rfl rfl h.m.cpy rfl ?_ ?_ ?_
        · simp [hmx]
        · simp [clientCS]
        · intro j hj; simp [hmx]; omega
      · exact h.r.frameNormal hci hw.1 rfl (by simp) (by simp [inDestroy]) (by simp [cwfOk, hw])
          rfl rfl rfl (fun e => e) rfl rfl rfl rfl
    | notify =>
      simp only [hpc] at hs
      injection hs with hs; subst hs
      simp only [cwfOk, hpc] at hw
      refine ⟨h.t.frame ?_ (by simp) (by simp) (by simp) (by simp) (by simp) (by simp) ?_,
        h.p.frameClient (c' := { c with pc := CPc.idle }) hci (by simp) (by simp) (by simp [pend, hpc]) (wake_pcPendS s) (by simp) (by simp),
        ?_, ?_, h.k.frame ?_ (by simp) (by simp)⟩
      · simp [places, handOver, recs, innerTasks, logTasks]
      · intro hne e; exact hne ((wake_exited_iff s).mpr e)
      · exact h.m.frameClientSame (c' := { c with pc := CPc.idle }) hci (by simp) (by simp) (by simp) (cpyOk_wake s h.m.cpy) (wake_schedCS s) (by simp)
          (by simp [hpc, clientCS])
      · exact h.r.frameNormal (c' := { c with pc := CPc.idle }) hci hw.1 (by simp) (by simp) (by simp [inDestroy]) (by simp [cwfOk, hw])
          (by simp) (by simp) (by simp) (wake_exited s) (wake_runningPhase s) (by simp) (by simp) (by simp)
      · simp [recs]
    | dStore =>
      simp only [hpc] at hs
      injection hs with hs; subst hs
      simp only [cwfOk, hpc] at hw
      have hd : s.destroyer = some (i + 1) := h.r.dIn i c hci (by simp [hpc, inDestroy])
      have hph := h.r.dPhase i c hd hci
      simp only [hpc, phaseOk] at hph
      refine ⟨h.t.frame rfl rfl rfl rfl rfl rfl (Nat.le_refl _) (fun e => e),
        h.p.frameClient hci rfl rfl (by simp [pend, hpc]) rfl rfl rfl, ?_, ?_, h.k.frame rfl rfl rfl⟩
      · exact h.m.frameClientSame hci rfl rfl rfl h.m.cpy rfl rfl (by simp [hpc, clientCS])
      · exact h.r.frameDestroy hci hd rfl hw.1 hw.2 (Or.inl rfl) rfl rfl hph (fun _ => rfl) h.r.runInv
    | dNotify =>
      simp only [hpc] at hs
      injection hs with hs; subst hs
      simp only [cwfOk, hpc] at hw
      have hd : s.destroyer = some (i + 1) := h.r.dIn i c hci (by simp [hpc, inDestroy])
      have hph := h.r.dPhase i c hd hci
      simp only [hpc, phaseOk] at hph
      refine ⟨h.t.frame ?_ (by simp) (by simp) (by simp) (by simp) (by simp) (by simp) ?_,
        h.p.frameClient (c' := { c with pc := CPc.dJoin }) hci (by simp) (by simp) (by simp [pend, hpc]) (wake_pcPendS s) (by simp) (by simp),
        ?_, ?_, h.k.frame ?_ (by simp) (by simp)⟩
      · simp [places, handOver, recs, innerTasks, logTasks]
      · intro hne e; exact hne ((wake_exited_iff s).mpr e)
      · exact h.m.frameClientSame (c' := { c with pc := CPc.dJoin }) hci (by simp) (by simp) (by simp) (cpyOk_wake s h.m.cpy) (wake_schedCS s) (by simp)
          (by simp [hpc, clientCS])
      · refine h.r.frameDestroy (c' := { c with pc := CPc.dJoin }) hci hd (by simp) hw.1 hw.2 (Or.inl rfl) (by simp) (by simp) ?_ ?_ ?_
        · simp [phaseOk, hph]
        · intro he; simp only [wake_shouldExit]; exact h.r.exitFlag.1 (wake_exited s he)
        · rw [wake_runningPhase]; simp only [wake_sweeping, wake_inner]; exact h.r.runInv
      · simp [recs]
    | dJoin =>
      simp only [hpc] at hs
      split at hs
      · rename_i hex
        injection hs with hs; subst hs
        simp only [cwfOk, hpc] at hw
        have hd : s.destroyer = some (i + 1) := h.r.dIn i c hci (by simp [hpc, inDestroy])
        have hph := h.r.dPhase i c hd hci
        simp only [hpc, phaseOk] at hph
        refine ⟨h.t.frame rfl rfl rfl rfl rfl rfl (Nat.le_refl _) (fun e => e),
          h.p.frameClient hci rfl rfl (by simp [pend, hpc, Cfg.fixed]) rfl rfl rfl, ?_, ?_, h.k.frame rfl rfl rfl⟩
        · exact h.m.frameClientSame hci rfl rfl rfl h.m.cpy rfl rfl (by simp [hpc, clientCS, Cfg.fixed])
        · exact h.r.frameDestroy hci hd rfl hw.1 hw.2 (Or.inl (by simp [Cfg.fixed, inDestroy])) rfl rfl
            (by simp [Cfg.fixed, phaseOk, joined, hph, hex]) h.r.exitFlag.1 h.r.runInv
      · cases hs
    | dDrainQ =>
      simp only [hpc] at hs
      simp only [cwfOk, hpc] at hw
      have hd : s.destroyer = some (i + 1) := h.r.dIn i c hci (by simp [hpc, inDestroy])
      have hph := h.r.dPhase i c hd hci
      simp only [hpc, phaseOk, joined] at hph
      split at hs
      · rename_i hq
        injection hs with hs; subst hs
        refine ⟨h.t.frame rfl rfl rfl rfl rfl rfl (Nat.le_refl _) (fun e => e),
          h.p.frameClient hci rfl rfl (by simp [pend, hpc]) rfl rfl rfl, ?_, ?_, h.k.frame rfl rfl rfl⟩
        · exact h.m.frameClientSame hci rfl rfl rfl h.m.cpy rfl rfl (by simp [hpc, clientCS])
        · exact h.r.frameDestroy hci hd rfl hw.1 hw.2 (Or.inl rfl) rfl rfl
            (by simp [phaseOk, joined, hph, hq]) h.r.exitFlag.1 h.r.runInv
      · rename_i t r hq
        injection hs with hs; subst hs
        refine ⟨?_, h.p.frame rfl (fun _ => rfl) rfl rfl rfl, ⟨h.m.nowLe, h.m.cpy, h.m.mutexS, h.m.mutexC, h.m.mutexB⟩,
          ?_, h.k.frame rfl rfl rfl⟩
        · refine ⟨?_, ?_, ?_, hT.logInv, ?_⟩
          · intro a
            have := hT.cntPlaces a
            have hc := count_schedule s.inner s.tsOf t a
            simp only [places, handOver, recs, logTasks, innerTasks, innerT, hq, List.count_append, List.count_cons,
              beq_iff_eq] at this hc ⊢
            omega
          · exact flagInv_schedule s.inner s.tsOf t hT.flagInv
          · intro u hu
            rcases asap_schedule s.inner s.tsOf t u hu with h1 | ⟨h1, h2⟩
            · exact hT.asapTs u h1
            · subst h1; exact h2
          · intro hne; exact absurd hph.1.2 hne
        · exact h.r.frameDestroySame hci hd rfl rfl rfl (by simp [hpc, phaseOk, joined, hph]) h.r.exitFlag.1
            (fun h1 h2 => by simp only [running_schedule]; exact h.r.runInv h1 h2)
    | dFree =>
      simp only [hpc] at hs
      injection hs with hs; subst hs
      simp only [cwfOk, hpc] at hw
      have hd : s.destroyer = some (i + 1) := h.r.dIn i c hci (by simp [hpc, inDestroy])
      have hph := h.r.dPhase i c hd hci
      simp only [hpc, phaseOk, joined] at hph
      refine ⟨h.t.frame rfl rfl rfl rfl rfl rfl (Nat.le_refl _) (fun e => e),
        h.p.frameClient hci rfl rfl (by simp [pend, hpc]) rfl rfl rfl, ?_, ?_, h.k.frame rfl rfl rfl⟩
      · exact h.m.frameClientSame hci rfl rfl rfl h.m.cpy rfl rfl (by simp [hpc, clientCS])
      · exact h.r.frameDestroy hci hd rfl hw.1 hw.2 (Or.inr rfl) rfl rfl
          (by show _ ∧ _; exact ⟨rfl, hph.1.2, hph.2.1, hph.2.2.1, hph.2.2.2⟩) h.r.exitFlag.1 h.r.runInv
    | dDrainC =>
      simp only [hpc] at hs
      simp only [cwfOk, hpc] at hw
      have hd : s.destroyer = some (i + 1) := h.r.dIn i c hci (by simp [hpc, inDestroy])
      have hph := h.r.dPhase i c hd hci
      simp only [hpc, phaseOk, joined] at hph
      split at hs
      · rename_i hq
        injection hs with hs; subst hs
        refine ⟨h.t.frame rfl rfl rfl rfl rfl rfl (Nat.le_refl _) (fun e => e),
          h.p.frameClient hci rfl rfl (by simp [pend, hpc]) rfl rfl rfl, ?_, ?_, h.k.frame rfl rfl rfl⟩
        · exact h.m.frameClientSame hci rfl rfl rfl h.m.cpy rfl rfl (by simp [hpc, clientCS])
        · exact h.r.frameDestroy hci hd rfl hw.1 hw.2 (Or.inl rfl) rfl rfl
            (by simp only [phaseOk, joined, qEmpty]; exact ⟨hph.1, hph.2.1, fun hm => ⟨hph.2.2 hm, hq⟩⟩)
            h.r.exitFlag.1 h.r.runInv
      · rename_i r rest hq
        injection hs with hs; subst hs
        have hcnt : ∀ a, (places { s with cancelQ := rest }).count a +
            (if r.removed = true ∧ r.task = a then 1 else 0) = s.scheduled.count a := by
          intro a
          have := hT.cntPlaces a
          simp only [places, handOver, recs, logTasks, innerTasks, hq, remTasks_append, remTasks_cons,
            List.count_append] at this ⊢
          cases hr : r.removed <;> simp [hr, List.count_cons] at this ⊢ <;> omega
        have hTp := procRec_T (i + 1) r { s with cancelQ := rest } hcnt hP.sched_le hT.flagInv
          hT.asapTs hT.logInv hT.runTs (Or.inr hd)
        have hpe : pend c = [] := by simp [pend, hpc, hw.2, schedTasks]
        have hsp : schedTasks c.prog = [] := by rw [hw.2]; rfl
        refine ⟨?_, ?_, ?_, ?_, ?_⟩
        · exact hTp.frame rfl rfl rfl rfl rfl rfl (Nat.le_refl _) (fun e => e)
        · by_cases hg : procGuard Cfg.fixed s r = true
          · have hfresh := procRec_fresh r { s with cancelQ := rest } hcnt hP.sched_le hT.flagInv hg
            have hg' : procGuard Cfg.fixed { s with cancelQ := rest } r = true := hg
            refine hP.invoke r.task .canceled (by simp) (by simp) ?_ hfresh ?_ ?_
            · simp [logTasks, procRec_log, hg']
            · intro a
              have := clientPend_set (s' := { s with clients := s.clients.set i { c with pc := afterInvokeD (s.cbs.get r.task .canceled) .drainC } }) hci rfl a
              rw [hpe, pend_afterInvokeD, hsp] at this
              simp only [hg, if_true, procRec_clients, procRec_st, clientPend, List.append_nil,
                List.count_nil] at this ⊢
              omega
            · intro a
              have := clientPend_set (s' := { s with clients := s.clients.set i { c with pc := afterInvokeD (s.cbs.get r.task .canceled) .drainC } }) hci rfl a
              rw [hpe, pend_afterInvokeD, hsp] at this
              simp only [hg, if_true, procRec_clients, clientPend, List.append_nil, List.count_nil] at this ⊢
              omega
          · have hg' : procGuard Cfg.fixed { s with cancelQ := rest } r = false := by
              have : procGuard Cfg.fixed s r = false := by simpa using hg
              exact this
            refine hP.frameClient (c' := { c with pc := CPc.dDrainC }) hci (by simp) ?_ (by simp [pend, hpc]) (by simp) (by simp) ?_
            · simp [hg, afterInvokeD, DRet.pc]
            · simp [procRec_log, hg']
        · refine h.m.frameClientSame (c' := { c with pc := afterInvokeD (if procGuard Cfg.fixed s r = true then s.cbs.get r.task .canceled else .none) .drainC })
            hci (by simp) (by simp) (by simp) (by simpa using h.m.cpy) (by simp) (by simp) ?_
          show clientCS (afterInvokeD _ _) = clientCS c.pc
          rw [clientCS_afterInvokeD, hpc]; rfl
        · refine h.r.frameDestroy (c' := { c with pc := afterInvokeD (if procGuard Cfg.fixed s r = true then s.cbs.get r.task .canceled else .none) .drainC })
            hci hd (by simp) hw.1 hw.2 (Or.inl (inDestroy_afterInvokeD _ _)) (by simp) (by simp) ?_ ?_ ?_
          · refine phaseOk_afterInvokeD_drainC _ ?_ (by simpa using hph.2.1) ?_ ?_
            · simpa [joined] using hph.1
            · intro h0 hm; simp [h0] at hm; simpa using hph.2.2 hm
            · intro h1; simp [h1]
          · simpa using h.r.exitFlag.1
          · intro h1 h2
            have := h.r.runInv (by simpa using h1) (by simpa using h2)
            apply List.eq_nil_iff_forall_not_mem.mpr
            intro u hu
            have := procRec_running_sub _ _ _ _ u hu
            simp_all
        · constructor; intro id
          have := h.k.recCount id
          simp only [recs, hq, procRec_freed, procRec_cancelQ, procRec_st, procRec_nextRec, List.map_append,
            List.map_cons, List.count_append, List.count_cons, List.count_nil] at this ⊢
          omega
    | dCleanUp =>
      simp only [hpc] at hs
      simp only [cwfOk, hpc] at hw
      have hd : s.destroyer = some (i + 1) := h.r.dIn i c hci (by simp [hpc, inDestroy])
      have hph := h.r.dPhase i c hd hci
      simp only [hpc, phaseOk, joined] at hph
      split at hs
      · rename_i hht
        injection hs with hs; subst hs
        refine ⟨?_, h.p.frameClient hci rfl rfl (by simp [pend, hpc]) rfl rfl rfl, ?_, ?_, h.k.frame rfl rfl rfl⟩
        · refine ⟨?_, ?_, ?_, hT.logInv, ?_⟩
          · intro a
            have := hT.cntPlaces a
            have hc := count_sweepAll s.inner a
            simp only [places, handOver, recs, logTasks, innerTasks, innerT, List.count_append] at this hc ⊢
            omega
          · exact flagInv_of_count hT.flagInv rfl (count_sweepAll s.inner)
          · intro u hu; simp [Inner.sweepAll] at hu
          · intro hne; exact absurd hph.1.2 hne
        · exact h.m.frameClientSame hci rfl rfl rfl h.m.cpy rfl rfl (by simp [hpc, clientCS])
        · exact h.r.frameDestroy hci hd rfl hw.1 hw.2 (Or.inl rfl) rfl rfl
            (by show _ ∧ _; exact ⟨hph.1, rfl, hph.2.2⟩) h.r.exitFlag.1 (fun _ h2 => by simp at h2)
      · rename_i hht
        injection hs with hs; subst hs
        have hrun := h.r.runInv (by simp [hph.1.2, runningPhase]) hph.2.1
        have hie : iEmpty s := by
          simp [Inner.hasTasks] at hht
          exact ⟨hht.1, hht.2, hrun⟩
        refine ⟨h.t.frame rfl rfl rfl rfl rfl rfl (Nat.le_refl _) (fun e => e),
          h.p.frameClient hci rfl rfl (by simp [pend, hpc]) rfl rfl rfl, ?_, ?_, h.k.frame rfl rfl rfl⟩
        · exact h.m.frameClientSame hci rfl rfl rfl h.m.cpy rfl rfl (by simp [hpc, clientCS])
        · exact h.r.frameDestroy hci hd rfl hw.1 hw.2 (Or.inl rfl) rfl rfl
            (by show _ ∧ _; exact ⟨hph.1, hph.2.1, hie, hph.2.2⟩) h.r.exitFlag.1 h.r.runInv
    | dSweep =>
      simp only [hpc] at hs
      simp only [cwfOk, hpc] at hw
      have hd : s.destroyer = some (i + 1) := h.r.dIn i c hci (by simp [hpc, inDestroy])
      have hph := h.r.dPhase i c hd hci
      simp only [hpc, phaseOk, joined] at hph
      split at hs
      · rename_i hpop
        injection hs with hs; subst hs
        refine ⟨h.t.frame rfl rfl rfl rfl rfl rfl (Nat.le_refl _) (fun e => e),
          h.p.frameClient hci rfl rfl (by simp [pend, hpc]) rfl rfl rfl, ?_, ?_, h.k.frame rfl rfl rfl⟩
        · exact h.m.frameClientSame hci rfl rfl rfl h.m.cpy rfl rfl (by simp [hpc, clientCS])
        · exact h.r.frameDestroy hci hd rfl hw.1 hw.2 (Or.inl rfl) rfl rfl
            (by show _ ∧ _; exact ⟨hph.1, rfl, hph.2.2⟩) h.r.exitFlag.1 (fun _ _ => popRunning_none hpop)
      · rename_i t I hpop
        injection hs with hs; subst hs
        obtain ⟨r, hr, hI⟩ := popRunning_eq hpop
        have hin : (innerT s.inner).count t ≤ 1 := by
          have := hT.cntPlaces t; have := hP.sched_le t
          simp only [places, innerTasks, innerT, List.count_append] at *; omega
        have hpos : 0 < s.inner.running.count t := by rw [hr]; simp
        have hfresh : t ∉ logTasks s := by
          intro hin'
          have h1 := List.count_pos_iff.mpr hin'
          have := hT.cntPlaces t; have := hP.sched_le t
          simp only [places, innerTasks, List.count_append] at *; omega
        have hpe : pend c = [] := by simp [pend, hpc, hw.2, schedTasks]
        have hsp : schedTasks c.prog = [] := by rw [hw.2]; rfl
        refine ⟨?_, ?_, ?_, ?_, h.k.frame rfl rfl rfl⟩
        · refine ⟨?_, ?_, ?_, ?_, ?_⟩
          · intro a
            have := hT.cntPlaces a
            have hc := count_popRunning hpop a
            simp only [places, handOver, recs, logTasks, innerTasks, innerT, List.count_append, List.map_append,
              List.map_cons, List.map_nil, List.count_cons, List.count_nil, beq_iff_eq] at this hc ⊢
            omega
          · exact flagInv_popRunning hpop hT.flagInv hin
          · intro u hu; subst hI; exact hT.asapTs u hu
          · intro e he
            simp only [List.mem_append, List.mem_singleton] at he
            rcases he with he | he
            · exact hT.logInv e he
            · subst he
              exact ⟨Or.inr ⟨rfl, hd⟩, by simp⟩
          · intro hne; exact absurd hph.1.2 hne
        · refine hP.invoke t .canceled rfl rfl (by simp [logTasks]) hfresh ?_ ?_
          · intro a
            have := clientPend_set (s' := { s with clients := s.clients.set i { c with pc := afterInvokeD (s.cbs.get t .canceled) .sweep } }) hci rfl a
            rw [hpe, pend_afterInvokeD, hsp] at this
            simp only [clientPend, List.append_nil, List.count_nil] at this ⊢
            omega
          · intro a
            have := clientPend_set (s' := { s with clients := s.clients.set i { c with pc := afterInvokeD (s.cbs.get t .canceled) .sweep } }) hci rfl a
            rw [hpe, pend_afterInvokeD, hsp] at this
            simp only [clientPend, List.append_nil, List.count_nil] at this ⊢
            omega
        · refine h.m.frameClientSame (c' := { c with pc := afterInvokeD (s.cbs.get t .canceled) .sweep })
            hci rfl rfl rfl h.m.cpy rfl rfl ?_
          show clientCS (afterInvokeD _ _) = clientCS c.pc
          rw [clientCS_afterInvokeD, hpc]; rfl
        · refine h.r.frameDestroy (c' := { c with pc := afterInvokeD (s.cbs.get t .canceled) .sweep })
            hci hd rfl hw.1 hw.2 (Or.inl (inDestroy_afterInvokeD _ _)) rfl rfl ?_ h.r.exitFlag.1 (fun _ h2 => ?_)
          · refine phaseOk_afterInvokeD_sweep _ hph.1 hph.2.1 ?_ ?_
            · intro h0 hm; simp [h0] at hm; exact hph.2.2 hm
            · intro h1; simp [h1]
          · rw [hph.2.1] at h2; cases h2
    | dcbLock op ret =>
      simp only [hpc] at hs
      simp only [cwfOk, hpc] at hw
      have hd : s.destroyer = some (i + 1) := h.r.dIn i c hci (by simp [hpc, inDestroy])
      have hph := h.r.dPhase i c hd hci
      split at hs
      · rename_i hmx
        injection hs with hs; subst hs
        refine ⟨h.t.frame rfl rfl rfl rfl rfl rfl (Nat.le_refl _) (fun e => e),
          h.p.frameClient hci rfl rfl (by simp [pend, hpc]) rfl rfl rfl, ?_, ?_, h.k.frame rfl rfl rfl⟩
        · refine h.m.frameClient hci rfl rfl rfl h.m.cpy rfl ?_ ?_ ?_
          · simp [hmx]
          · simp [clientCS]
          · intro j hj; simp [hmx]; omega
        · exact h.r.frameDestroy hci hd rfl hw.1 hw.2 (Or.inl rfl) rfl rfl
            (by cases ret <;> simp only [hpc, phaseOk] at hph ⊢ <;> exact hph) h.r.exitFlag.1 h.r.runInv
      · cases hs
    | dcbBody op ret =>
      simp only [hpc] at hs
      injection hs with hs; subst hs
      simp only [cwfOk, hpc] at hw
      have hd : s.destroyer = some (i + 1) := h.r.dIn i c hci (by simp [hpc, inDestroy])
      have hph := h.r.dPhase i c hd hci
      have hsp : schedTasks c.prog = [] := by rw [hw.2]; rfl
      have hpe : pend c = op.target := by simp [pend, hpc, hsp]
      have h0 : ∀ t ∈ op.target, s.scheduled.count t = 0 := by
        intro t ht
        have := hP.cntSched t
        have h2 := count_le_flatMap pend t hci
        rw [hpe] at h2
        have := List.count_pos_iff.mpr ht
        simp only [pendAll, clientPend, List.count_append] at *; omega
      have hset := clientPend_set (s' := { s with clients := s.clients.set i { c with pc := CPc.dcbUnlock ret } }) hci rfl
      refine ⟨?_, ?_, ?_, ?_, ?_⟩
      · exact (apiBody_T hT op h0).frame rfl rfl rfl rfl rfl rfl (Nat.le_refl _) (fun e => e)
      · refine hP.push op.target (by simp [apiBody_scheduled]) (by simp) (by simp) ?_ ?_
        · intro a; have := hset a; rw [hpe] at this
          simp only [pend, hsp, List.append_nil, List.count_nil, clientPend, apiBody_clients, apiBody_st] at this ⊢; omega
        · intro a; have := hset a; rw [hpe] at this
          simp only [pend, hsp, List.append_nil, List.count_nil, clientPend, apiBody_clients] at this ⊢; omega
      · exact h.m.frameClientSame (c' := { c with pc := CPc.dcbUnlock ret }) hci (by simp) (by simp) (by simp)
          (by simpa using h.m.cpy) (by simp) (by simp) (by simp [hpc, clientCS])
      · refine h.r.frameDestroy (c' := { c with pc := CPc.dcbUnlock ret }) hci hd (by simp) hw.1 hw.2 (Or.inl rfl)
          (by simp) (by simp) ?_ (by simpa using h.r.exitFlag.1) (by simpa using h.r.runInv)
        cases ret <;> simp only [hpc, phaseOk, joined] at hph ⊢ <;> simpa using hph
      · exact (apiBody_K h.k op).frame (by simp [recs]) (by simp) (by simp)
    | dcbUnlock ret =>
      simp only [hpc] at hs
      injection hs with hs; subst hs
      simp only [cwfOk, hpc] at hw
      have hd : s.destroyer = some (i + 1) := h.r.dIn i c hci (by simp [hpc, inDestroy])
      have hph := h.r.dPhase i c hd hci
      have hmx : s.mutex = some (i + 1) := hmC.mp (by simp [hpc, clientCS])
      refine ⟨h.t.frame rfl rfl rfl rfl rfl rfl (Nat.le_refl _) (fun e => e),
        h.p.frameClient hci rfl rfl (by simp [pend, hpc]) rfl rfl rfl, ?_, ?_, h.k.frame rfl rfl rfl⟩
      · refine h.m.frameClient hci rfl rfl rfl h.m.cpy rfl ?_ ?_ ?_
        · simp [hmx]
        · simp [clientCS]
        · intro j hj; simp [hmx]; omega
      · exact h.r.frameDestroy hci hd rfl hw.1 hw.2 (Or.inl rfl) rfl rfl
          (by cases ret <;> simp only [hpc, phaseOk] at hph ⊢ <;> exact hph) h.r.exitFlag.1 h.r.runInv
    | dcbNotify ret =>
      simp only [hpc] at hs
      injection hs with hs; subst hs
      simp only [cwfOk, hpc] at hw
      have hd : s.destroyer = some (i + 1) := h.r.dIn i c hci (by simp [hpc, inDestroy])
      have hph := h.r.dPhase i c hd hci
      refine ⟨h.t.frame ?_ (by simp) (by simp) (by simp) (by simp) (by simp) (by simp) ?_,
        h.p.frameClient (c' := { c with pc := ret.pc }) hci (by simp) (by simp)
          (by cases ret <;> simp [pend, hpc, DRet.pc]) (wake_pcPendS s) (by simp) (by simp),
        ?_, ?_, h.k.frame ?_ (by simp) (by simp)⟩
      · simp [places, handOver, recs, innerTasks, logTasks]
      · intro hne e; exact hne ((wake_exited_iff s).mpr e)
      · exact h.m.frameClientSame (c' := { c with pc := ret.pc }) hci (by simp) (by simp) (by simp) (cpyOk_wake s h.m.cpy)
          (wake_schedCS s) (by simp) (by cases ret <;> simp [hpc, clientCS, DRet.pc])
      · refine h.r.frameDestroy (c' := { c with pc := ret.pc }) hci hd (by simp) hw.1 hw.2
          (Or.inl (by cases ret <;> rfl)) (by simp) (by simp) ?_ ?_ ?_
        · cases ret <;> simp only [hpc, phaseOk, joined, DRet.pc] at hph ⊢
          · refine ⟨⟨by simpa using hph.1.1, (wake_exited_iff s).mpr hph.1.2⟩, by simpa using hph.2.1, ?_⟩
            intro hm; simp [hph.2.2] at hm
          · refine ⟨⟨by simpa using hph.1.1, (wake_exited_iff s).mpr hph.1.2⟩, by simpa using hph.2.1, ?_⟩
            intro hm; simp [hph.2.2] at hm
        · intro he; simp only [wake_shouldExit]; exact h.r.exitFlag.1 (wake_exited s he)
        · rw [wake_runningPhase]; simp only [wake_sweeping, wake_inner]; exact h.r.runInv
      · simp [recs]

end AwsVerif.Proofs.C08
