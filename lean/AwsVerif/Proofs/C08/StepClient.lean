import AwsVerif.Proofs.C08.StepSched
/-! Steps of the client threads (including the destroy callback) preserve the invariant. -/
set_option linter.unusedSimpArgs false
set_option linter.unusedVariables false
namespace AwsVerif.Proofs.C08
open AwsVerif.ThreadSched

variable {progs : List (List Op)} {s s' : Sys} {i : Nat} {c c' : Client}

theorem pendAll_set (hci : s.clients[i]? = some c) (hcl : s'.clients = s.clients.set i c') (a : Task) :
    (pendAll s').count a + (pend c).count a = (pendAll s).count a + (pend c').count a := by
  unfold pendAll; rw [hcl]; exact count_flatMap_set pend a hci

theorem InvT.frameClient' (h : InvT progs s) (hci : s.clients[i]? = some c)
    (hp : ∀ a, (places s').count a = (places s).count a) (hs : s'.scheduled = s.scheduled) (hcl : s'.clients = s.clients.set i c')
    (hpend : pend c' = pend c)
    (hi : s'.inner = s.inner) (ht : s'.tsOf = s.tsOf) (hl : s'.log = s.log)
    (hlo : ∀ e ∈ s.log, logOk s e → logOk s' e) : InvT progs s' := by
  refine ⟨h.wf1, ?_, ?_, ?_, ?_, ?_⟩
  · intro t; rw [hp t, hs]; exact h.cntPlaces t
  · intro t; have := pendAll_set hci hcl t; rw [hpend] at this; rw [hs]; have := h.cntSched t; omega
  · intro t; unfold innerTasks; rw [hi]; exact h.flagInv t
  · intro t ht'; rw [hi] at ht'; rw [ht]; exact h.asapTs t ht'
  · intro e he; rw [hl] at he; exact hlo e he (h.logInv e he)

theorem InvT.frameClient (h : InvT progs s) (hci : s.clients[i]? = some c)
    (hp : places s' = places s) (hs : s'.scheduled = s.scheduled) (hcl : s'.clients = s.clients.set i c')
    (hpend : pend c' = pend c)
    (hi : s'.inner = s.inner) (ht : s'.tsOf = s.tsOf) (hl : s'.log = s.log)
    (hd : s'.destroyer = s.destroyer) : InvT progs s' :=
  h.frameClient' hci (fun a => by rw [hp]) hs hcl hpend hi ht hl (fun e _ he => by unfold logOk at *; rw [hd, ht]; exact he)

theorem InvM.frameClient (h : InvM s) (hci : s.clients[i]? = some c)
    (hcl : s'.clients = s.clients.set i c') (hclock : s'.clock = s.clock)
    (hnow : s'.st.now = s.st.now) (hcpy : cpyOk s'.st) (hcs : schedCS s'.st.pc = schedCS s.st.pc)
    (hm0 : s'.mutex = some 0 ↔ s.mutex = some 0)
    (hme : clientCS c'.pc = true ↔ s'.mutex = some (i + 1))
    (hmo : ∀ j, j ≠ i → (s'.mutex = some (j + 1) ↔ s.mutex = some (j + 1))) : InvM s' := by
  have hil : i < s.clients.length := (List.getElem?_eq_some_iff.mp hci).1
  refine ⟨?_, hcpy, ?_, ?_, ?_⟩
  · rw [hnow, hclock]; exact h.nowLe
  · rw [hm0, hcs]; exact h.mutexS
  · intro j cj hj
    rw [hcl] at hj
    rcases set_get_cases hj with ⟨e1, e2, _⟩ | ⟨e1, e2⟩
    · subst e1; subst e2; exact hme
    · rw [hmo j e1]; exact h.mutexC j cj e2
  · intro k hk
    rw [hcl, List.length_set]
    cases k with
    | zero => omega
    | succ j =>
      by_cases hji : j = i
      · omega
      · exact h.mutexB _ ((hmo j hji).mp hk)

/-- same mutex state, the client stays inside / outside its critical section -/
theorem InvM.frameClientSame (h : InvM s) (hci : s.clients[i]? = some c)
    (hcl : s'.clients = s.clients.set i c') (hclock : s'.clock = s.clock)
    (hnow : s'.st.now = s.st.now) (hcpy : cpyOk s'.st) (hcs : schedCS s'.st.pc = schedCS s.st.pc)
    (hmx : s'.mutex = s.mutex) (hpc : clientCS c'.pc = clientCS c.pc) : InvM s' :=
  h.frameClient hci hcl hclock hnow hcpy hcs (by rw [hmx]) (by rw [hmx, hpc]; exact h.mutexC i c hci)
    (fun j _ => by rw [hmx])

theorem InvR.noDestroyer (h : InvR s) (hci : s.clients[i]? = some c) (hheld : 1 ≤ c.held) :
    s.destroyer = none := by
  cases hd : s.destroyer with
  | none => rfl
  | some k =>
    have h0 := h.dRef (by rw [hd]; simp)
    have := h.refSum
    rw [h0] at this
    have := sum_map_eq_zero (·.held) this.symm hci
    omega

/-- a client step outside the destroy callback that keeps `refCount = Σ held` -/
theorem InvR.frameNormal (h : InvR s) (hci : s.clients[i]? = some c) (hheld : 1 ≤ c.held)
    (hcl : s'.clients = s.clients.set i c') (hsum : s'.refCount + c.held = s.refCount + c'.held)
    (hnd : inDestroy c'.pc = false) (hw : cwfOk c')
    (hd : s'.destroyer = s.destroyer) (hrel : s'.released = s.released) (hse : s'.shouldExit = s.shouldExit)
    (hpc : s'.st.pc = .exited → s.st.pc = .exited) : InvR s' := by
  have hnone := h.noDestroyer hci hheld
  refine ⟨?_, ?_, ?_, ?_, ?_, ?_, ?_, ?_⟩
  · have := sum_map_set (·.held) (a := c') hci
    have := h.refSum
    rw [hcl]; omega
  · intro j cj hj; rw [hcl] at hj
    rcases set_get_cases hj with ⟨e1, e2, _⟩ | ⟨e1, e2⟩
    · subst e2; exact hw
    · exact h.cwf j cj e2
  · intro j cj hj hin; rw [hcl] at hj
    rcases set_get_cases hj with ⟨e1, e2, _⟩ | ⟨e1, e2⟩
    · subst e2; rw [hnd] at hin; cases hin
    · have := h.dIn j cj e2 hin; rw [hnone] at this; cases this
  · intro hne; rw [hd, hnone] at hne; exact absurd rfl hne
  · intro k hk; rw [hd, hnone] at hk; cases hk
  · intro j cj hdj; rw [hd, hnone] at hdj; cases hdj
  · intro hr; rw [hrel] at hr; exact absurd hnone (h.relD hr)
  · rw [hse, hd]
    refine ⟨fun he => h.exitFlag.1 (hpc he), h.exitFlag.2⟩

theorem cpyOk_wake (s : Sys) (h : cpyOk s.st) : cpyOk (wake s).st := by
  unfold wake; split
  · rename_i hb; simp [cpyOk, hb] at h ⊢; exact h
  · exact h

/-- lock acquisition at the start of schedule_future / cancel_task -/
theorem inv_lock (h : Inv progs s) {c : Client} (hci : s.clients[i]? = some c) (hpc : c.pc = .idle)
    (hmx : s.mutex = none) (op : Op) (rest : List Op) (hprog : c.prog = op :: rest) (pc' : CPc)
    (hcs : clientCS pc' = true) (hnd : inDestroy pc' = false)
    (hpend : pend { c with prog := rest, pc := pc' } = pend c)
    (hw' : cwfOk { c with prog := rest, pc := pc' }) :
    Inv progs { s with mutex := some (i + 1), clients := s.clients.set i { c with prog := rest, pc := pc' } } := by
  have hw := h.r.cwf i c hci
  simp only [cwfOk, hpc, hprog] at hw
  have hheld := wfProg_cons hw
  refine ⟨h.t.frameClient hci rfl rfl rfl hpend rfl rfl rfl rfl, ?_, ?_, h.k.frame rfl rfl rfl⟩
  · refine h.m.frameClient hci rfl rfl rfl h.m.cpy rfl ?_ ?_ ?_
    · simp [hmx]
    · simp [hcs]
    · intro j hj; simp [hmx]; omega
  · exact h.r.frameNormal hci hheld rfl (by simp) hnd hw' rfl rfl rfl (fun e => e)

theorem inv_release (h : Inv progs s) {c : Client} (hci : s.clients[i]? = some c) (hpc : c.pc = .idle)
    (rest : List Op) (hprog : c.prog = .release :: rest) :
    Inv progs { s with
      refCount := s.refCount - 1,
      destroyer := if s.refCount = 1 then some (i + 1) else s.destroyer,
      clients := s.clients.set i
        { prog := rest, held := c.held - 1, pc := if s.refCount = 1 then .dStore else .idle } } := by
  have hw := h.r.cwf i c hci
  simp only [cwfOk, hpc, hprog] at hw
  have hheld := wfProg_cons hw
  simp [wfProg] at hw
  have hle : c.held ≤ s.refCount := by rw [h.r.refSum]; exact le_sum_map (·.held) hci
  have hnone := h.r.noDestroyer hci hheld
  have hil : i < s.clients.length := (List.getElem?_eq_some_iff.mp hci).1
  by_cases h1 : s.refCount = 1
  · simp only [h1, if_true]
    have hc1 : c.held = 1 := by omega
    have hrest : rest = [] := by rw [hc1] at hw; exact wfProg_zero hw.2
    subst hrest
    refine ⟨?_, ?_, ?_, h.k.frame rfl rfl rfl⟩
    · refine h.t.frameClient' hci (fun _ => rfl) rfl rfl (by simp [pend, hpc, hprog, schedTasks]) rfl rfl rfl ?_
      intro e he hlo
      rcases hlo.1 with h0 | ⟨_, hd⟩
      · exact ⟨Or.inl h0, hlo.2⟩
      · rw [hnone] at hd; cases hd
    · exact h.m.frameClientSame hci rfl rfl rfl h.m.cpy rfl rfl (by simp [hpc, clientCS])
    · refine ⟨?_, ?_, ?_, ?_, ?_, ?_, ?_, ?_⟩
      · have := sum_map_set (·.held) (a := ({ prog := [], held := c.held - 1, pc := .dStore } : Client)) hci
        have := h.r.refSum
        simp only at *; omega
      · intro j cj hj
        rcases set_get_cases hj with ⟨e1, e2, _⟩ | ⟨e1, e2⟩
        · subst e2; simp [cwfOk]; omega
        · exact h.r.cwf j cj e2
      · intro j cj hj hin
        rcases set_get_cases hj with ⟨e1, e2, _⟩ | ⟨e1, e2⟩
        · subst e1; rfl
        · have := h.r.dIn j cj e2 hin; rw [hnone] at this; cases this
      · intro _; simp only <;> omega
      · intro k hk; simp only [Option.some.injEq] at hk; subst hk; rw [List.length_set]; omega
      · intro j cj hdj hj
        simp only [Option.some.injEq, Nat.add_right_cancel_iff] at hdj; subst hdj
        rw [get_set_self hci] at hj; injection hj with hj; subst hj
        simp only [phaseOk]
        cases hr : s.released with
        | false => rfl
        | true => exact absurd hnone (h.r.relD hr)
      · intro _; simp
      · exact ⟨h.r.exitFlag.1, fun _ => by simp⟩
  · simp only [h1, if_false]
    refine ⟨h.t.frameClient hci rfl rfl rfl (by simp [pend, hpc, hprog, schedTasks]) rfl rfl rfl rfl, ?_, ?_,
      h.k.frame rfl rfl rfl⟩
    · exact h.m.frameClientSame hci rfl rfl rfl h.m.cpy rfl rfl (by simp [hpc])
    · exact h.r.frameNormal hci hheld rfl (by simp only; omega) (by simp [inDestroy]) (by simp [cwfOk, hw])
        rfl rfl rfl (fun e => e)

/-! ### `wake` changes only the scheduler thread's program counter, `blocked` → `reacq false` -/
section wakeFrame
variable (s : Sys)
@[simp] theorem wake_schedQ : (wake s).schedQ = s.schedQ := by unfold wake; split <;> rfl
@[simp] theorem wake_cancelQ : (wake s).cancelQ = s.cancelQ := by unfold wake; split <;> rfl
@[simp] theorem wake_mutex : (wake s).mutex = s.mutex := by unfold wake; split <;> rfl
@[simp] theorem wake_shouldExit : (wake s).shouldExit = s.shouldExit := by unfold wake; split <;> rfl
@[simp] theorem wake_refCount : (wake s).refCount = s.refCount := by unfold wake; split <;> rfl
@[simp] theorem wake_inner : (wake s).inner = s.inner := by unfold wake; split <;> rfl
@[simp] theorem wake_tsOf : (wake s).tsOf = s.tsOf := by unfold wake; split <;> rfl
@[simp] theorem wake_clock : (wake s).clock = s.clock := by unfold wake; split <;> rfl
@[simp] theorem wake_log : (wake s).log = s.log := by unfold wake; split <;> rfl
@[simp] theorem wake_clients : (wake s).clients = s.clients := by unfold wake; split <;> rfl
@[simp] theorem wake_scheduled : (wake s).scheduled = s.scheduled := by unfold wake; split <;> rfl
@[simp] theorem wake_nextRec : (wake s).nextRec = s.nextRec := by unfold wake; split <;> rfl
@[simp] theorem wake_freed : (wake s).freed = s.freed := by unfold wake; split <;> rfl
@[simp] theorem wake_destroyer : (wake s).destroyer = s.destroyer := by unfold wake; split <;> rfl
@[simp] theorem wake_released : (wake s).released = s.released := by unfold wake; split <;> rfl
@[simp] theorem wake_listCpy : (wake s).st.listCpy = s.st.listCpy := by unfold wake; split <;> rfl
@[simp] theorem wake_cancelCpy : (wake s).st.cancelCpy = s.st.cancelCpy := by unfold wake; split <;> rfl
@[simp] theorem wake_now : (wake s).st.now = s.st.now := by unfold wake; split <;> rfl
theorem wake_schedCS : schedCS (wake s).st.pc = schedCS s.st.pc := by
  unfold wake; split
  · rename_i hb; simp [hb, schedCS]
  · rfl
theorem wake_exited (h : (wake s).st.pc = .exited) : s.st.pc = .exited := by
  unfold wake at h; split at h
  · simp at h
  · exact h
theorem wake_exited_iff : (wake s).st.pc = .exited ↔ s.st.pc = .exited := by
  constructor
  · exact wake_exited s
  · intro h; unfold wake; simp [h]
end wakeFrame

/-- a step of the destroy callback that moves the destroying client's program counter -/
theorem InvR.frameDestroy (h : InvR s) (hci : s.clients[i]? = some c) (hd : s.destroyer = some (i + 1))
    (hcw : c.held = 0 ∧ c.prog = [])
    (hcl : s'.clients = s.clients.set i c') (hh : c'.held = 0) (hp : c'.prog = [])
    (hpc' : inDestroy c'.pc = true ∨ c'.pc = .idle)
    (hrc : s'.refCount = s.refCount) (hdd : s'.destroyer = s.destroyer)
    (hphase : phaseOk s' c'.pc)
    (hex : s'.st.pc = .exited → s'.shouldExit = true) : InvR s' := by
  have hil : i < s.clients.length := (List.getElem?_eq_some_iff.mp hci).1
  refine ⟨?_, ?_, ?_, ?_, ?_, ?_, ?_, ?_⟩
  · have := sum_map_set (·.held) (a := c') hci
    have := h.refSum
    rw [hcl, hrc]; omega
  · intro j cj hj; rw [hcl] at hj
    rcases set_get_cases hj with ⟨e1, e2, _⟩ | ⟨e1, e2⟩
    · subst e2
      rcases hpc' with h1 | h1
      · cases hpc : cj.pc <;> simp [hpc, inDestroy] at h1 <;> simp [cwfOk, hpc, hh, hp]
      · simp [cwfOk, h1, hh, hp, wfProg]
    · exact h.cwf j cj e2
  · intro j cj hj hin; rw [hcl] at hj; rw [hdd]
    rcases set_get_cases hj with ⟨e1, e2, _⟩ | ⟨e1, e2⟩
    · subst e1; exact hd
    · exact h.dIn j cj e2 hin
  · intro _; rw [hrc]; exact h.dRef (by rw [hd]; simp)
  · intro k hk; rw [hdd] at hk; rw [hcl, List.length_set]; exact h.dBound k hk
  · intro j cj hdj hj
    rw [hdd, hd] at hdj
    simp only [Option.some.injEq, Nat.add_right_cancel_iff] at hdj; subst hdj
    rw [hcl, get_set_self hci] at hj; injection hj with hj; subst hj
    exact hphase
  · intro _; rw [hdd, hd]; simp
  · exact ⟨hex, fun _ => by rw [hdd, hd]; simp⟩

/-- a step of the destroy callback that leaves the client record alone (one element of a drain loop) -/
theorem InvR.frameDestroySame (h : InvR s) (hci : s.clients[i]? = some c) (hd : s.destroyer = some (i + 1))
    (hcl : s'.clients = s.clients) (hrc : s'.refCount = s.refCount) (hdd : s'.destroyer = s.destroyer)
    (hphase : phaseOk s' c.pc)
    (hex : s'.st.pc = .exited → s'.shouldExit = true) : InvR s' := by
  refine ⟨?_, ?_, ?_, ?_, ?_, ?_, ?_, ?_⟩
  · rw [hrc, hcl]; exact h.refSum
  · rw [hcl]; exact h.cwf
  · rw [hcl, hdd]; exact h.dIn
  · rw [hdd, hrc]; exact h.dRef
  · rw [hdd, hcl]; exact h.dBound
  · intro j cj hdj hj
    rw [hdd, hd] at hdj
    simp only [Option.some.injEq, Nat.add_right_cancel_iff] at hdj; subst hdj
    rw [hcl, hci] at hj; injection hj with hj; subst hj
    exact hphase
  · intro _; rw [hdd, hd]; simp
  · exact ⟨hex, fun _ => by rw [hdd, hd]; simp⟩

theorem inv_stepClient (h : Inv progs s) (hs : stepClient Cfg.fixed s i = some s') : Inv progs s' := by
  unfold stepClient at hs
  cases hci : s.clients[i]? with
  | none => simp [hci] at hs
  | some c =>
    simp only [hci] at hs
    have hw := h.r.cwf i c hci
    have hmC := h.m.mutexC i c hci
    have hT := h.t
    cases hpc : c.pc with
    | idle =>
      simp only [hpc] at hs
      cases hprog : c.prog with
      | nil => simp [hprog] at hs
      | cons op rest =>
        simp only [hprog] at hs
        simp only [cwfOk, hpc, hprog] at hw
        have hheld := wfProg_cons hw
        cases op with
        | scheduleNow t =>
          simp only at hs
          split at hs
          · rename_i hmx
            injection hs with hs; subst hs
            exact inv_lock h hci hpc hmx _ rest hprog (.sBody t 0) rfl rfl
              (by simp [pend, hpc, hprog, schedTasks]) (by simp [wfProg] at hw; simp [cwfOk, hw])
          · cases hs
        | scheduleFuture t τ =>
          simp only at hs
          split at hs
          · rename_i hmx
            injection hs with hs; subst hs
            exact inv_lock h hci hpc hmx _ rest hprog (.sBody t τ) rfl rfl
              (by simp [pend, hpc, hprog, schedTasks]) (by simp [wfProg] at hw; simp [cwfOk, hw])
          · cases hs
        | cancel t =>
          simp only at hs
          split at hs
          · rename_i hmx
            injection hs with hs; subst hs
            exact inv_lock h hci hpc hmx _ rest hprog (.cBody t) rfl rfl
              (by simp [pend, hpc, hprog, schedTasks]) (by simp [wfProg] at hw; simp [cwfOk, hw])
          · cases hs
        | acquire =>
          simp only at hs
          injection hs with hs; subst hs
          simp [wfProg] at hw
          refine ⟨h.t.frameClient hci rfl rfl rfl (by simp [pend, hpc, hprog, schedTasks]) rfl rfl rfl rfl, ?_, ?_,
            h.k.frame rfl rfl rfl⟩
          · exact h.m.frameClientSame hci rfl rfl rfl h.m.cpy rfl rfl (by simp [hpc])
          · exact h.r.frameNormal hci hheld rfl (by simp; omega) (by simp [inDestroy, hpc]) (by simp [cwfOk, hpc, hw])
              rfl rfl rfl (fun e => e)
        | release =>
          simp only at hs
          injection hs with hs; subst hs
          exact inv_release h hci hpc rest hprog
    | sBody t τ =>
      simp only [hpc] at hs
      injection hs with hs; subst hs
      simp only [cwfOk, hpc] at hw
      have hpe : pend c = t :: schedTasks c.prog := by simp [pend, hpc]
      have hpe' : pend { c with pc := CPc.unlock } = schedTasks c.prog := by simp [pend]
      have ht0 : s.scheduled.count t = 0 := by
        have := hT.cntSched t; have := hT.wf1 t
        have := count_le_flatMap pend t hci
        rw [hpe] at this; simp [List.count_cons] at this
        unfold pendAll at *; omega
      have htp : (places s).count t = 0 := by rw [hT.cntPlaces t]; exact ht0
      have hnasap : t ∉ s.inner.asap := by
        intro hin; have := List.count_pos_iff.mpr hin
        simp only [places, innerTasks, List.count_append] at htp; omega
      have hnlog : t ∉ logTasks s := by
        intro hin; have := List.count_pos_iff.mpr hin
        simp only [places, List.count_append] at htp; omega
      refine ⟨?_, ?_, ?_, h.k.frame rfl rfl rfl⟩
      · refine ⟨hT.wf1, ?_, ?_, hT.flagInv, ?_, ?_⟩
        · intro a
          have := hT.cntPlaces a
          simp only [places, handOver, recs, logTasks, innerTasks, List.count_append, List.count_cons,
            List.count_nil] at this ⊢
          omega
        · intro a
          have e1 := pendAll_set (s' := { s with clients := s.clients.set i { c with pc := CPc.unlock } }) hci rfl a
          rw [hpe, hpe'] at e1
          have := hT.cntSched a
          simp only [List.count_append, List.count_cons, List.count_nil] at e1 ⊢
          unfold pendAll at *
          simp only at e1 ⊢
          omega
        · intro u hu
          have hne : u ≠ t := fun e => hnasap (e ▸ hu)
          simp only [hne, if_false]
          exact hT.asapTs u hu
        · intro e he
          have := hT.logInv e he
          have hne : e.task ≠ t := fun e' => hnlog (by rw [← e']; exact List.mem_map_of_mem he)
          unfold logOk at *
          simp only [hne, if_false]
          exact this
      · exact h.m.frameClientSame hci rfl rfl rfl h.m.cpy rfl rfl (by simp [hpc, clientCS])
      · exact h.r.frameNormal hci hw.1 rfl (by simp) (by simp [inDestroy]) (by simp [cwfOk, hw])
          rfl rfl rfl (fun e => e)
    | cBody t =>
      simp only [hpc] at hs
      injection hs with hs; subst hs
      simp only [cwfOk, hpc] at hw
      refine ⟨?_, ?_, ?_, ?_⟩
      · refine h.t.frameClient' hci ?_ rfl rfl (by simp [pend, hpc]) rfl rfl rfl
          (fun e _ he => he)
        intro a
        by_cases hf : t ∈ s.schedQ
        · have := List.count_pos_iff.mpr hf
          simp only [places, handOver, recs, logTasks, innerTasks, hf, decide_true, if_true, remTasks_append,
            remTasks_cons, remTasks_nil, List.count_append, List.count_cons, List.count_nil, List.count_erase,
            beq_iff_eq]
          by_cases hta : t = a
          · subst hta; simp; omega
          · simp [hta]
        · simp only [places, handOver, recs, logTasks, innerTasks, hf, decide_false, if_false, remTasks_append,
            remTasks_cons, remTasks_nil, List.count_append, List.count_cons, List.count_nil, Bool.false_eq_true]
          simp
      · exact h.m.frameClientSame hci rfl rfl rfl h.m.cpy rfl rfl (by simp [hpc, clientCS])
      · exact h.r.frameNormal hci hw.1 rfl (by simp) (by simp [inDestroy]) (by simp [cwfOk, hw])
          rfl rfl rfl (fun e => e)
      · constructor; intro id
        have := h.k.recCount id
        simp only [recs, List.map_append, List.map_cons, List.map_nil, List.count_append, List.count_cons,
          List.count_nil, beq_iff_eq] at this ⊢
        by_cases hid : s.nextRec = id
        · subst hid; simp at this ⊢; omega
        · simp only [hid, if_false] at this ⊢
          split at this <;> split <;> omega
    | unlock =>
      simp only [hpc] at hs
      injection hs with hs; subst hs
      simp only [cwfOk, hpc] at hw
      have hmx : s.mutex = some (i + 1) := hmC.mp (by simp [hpc, clientCS])
      refine ⟨h.t.frameClient hci rfl rfl rfl (by simp [pend, hpc]) rfl rfl rfl rfl, ?_, ?_, h.k.frame rfl rfl rfl⟩
      · refine h.m.frameClient hci rfl rfl rfl h.m.cpy rfl ?_ ?_ ?_
        · simp [hmx]
        · simp [clientCS]
        · intro j hj; simp [hmx]; omega
      · exact h.r.frameNormal hci hw.1 rfl (by simp) (by simp [inDestroy]) (by simp [cwfOk, hw])
          rfl rfl rfl (fun e => e)
    | notify =>
      simp only [hpc] at hs
      injection hs with hs; subst hs
      simp only [cwfOk, hpc] at hw
      refine ⟨h.t.frameClient hci ?_ (by simp) (by simp; rfl) (by simp [pend, hpc]) (by simp) (by simp) (by simp) (by simp),
        ?_, ?_, h.k.frame ?_ (by simp) (by simp)⟩
      · simp [places, handOver, recs, innerTasks, logTasks]
      · exact h.m.frameClientSame hci (by simp; rfl) (by simp) (by simp) (cpyOk_wake s h.m.cpy) (wake_schedCS s) (by simp)
          (by simp [hpc, clientCS])
      · exact h.r.frameNormal hci hw.1 (by simp; rfl) (by simp) (by simp [inDestroy]) (by simp [cwfOk, hw])
          (by simp) (by simp) (by simp) (wake_exited s)
      · simp [recs]
    | dStore =>
      simp only [hpc] at hs
      injection hs with hs; subst hs
      simp only [cwfOk, hpc] at hw
      have hd : s.destroyer = some (i + 1) := h.r.dIn i c hci (by simp [hpc, inDestroy])
      have hph := h.r.dPhase i c hd hci
      simp only [hpc, phaseOk] at hph
      refine ⟨h.t.frameClient hci rfl rfl rfl (by simp [pend, hpc]) rfl rfl rfl rfl, ?_, ?_, h.k.frame rfl rfl rfl⟩
      · exact h.m.frameClientSame hci rfl rfl rfl h.m.cpy rfl rfl (by simp [hpc, clientCS])
      · exact h.r.frameDestroy hci hd hw rfl hw.1 hw.2 (Or.inl rfl) rfl rfl hph (fun _ => rfl)
    | dNotify =>
      simp only [hpc] at hs
      injection hs with hs; subst hs
      simp only [cwfOk, hpc] at hw
      have hd : s.destroyer = some (i + 1) := h.r.dIn i c hci (by simp [hpc, inDestroy])
      have hph := h.r.dPhase i c hd hci
      simp only [hpc, phaseOk] at hph
      refine ⟨h.t.frameClient hci ?_ (by simp) (by simp; rfl) (by simp [pend, hpc]) (by simp) (by simp) (by simp) (by simp),
        ?_, ?_, h.k.frame ?_ (by simp) (by simp)⟩
      · simp [places, handOver, recs, innerTasks, logTasks]
      · exact h.m.frameClientSame hci (by simp; rfl) (by simp) (by simp) (cpyOk_wake s h.m.cpy) (wake_schedCS s) (by simp)
          (by simp [hpc, clientCS])
      · refine h.r.frameDestroy (c' := { c with pc := CPc.dJoin }) hci hd hw (by simp) hw.1 hw.2 (Or.inl rfl) (by simp) (by simp) ?_ ?_
        · simp [phaseOk, hph]
        · intro he; simp only [wake_shouldExit]; exact h.r.exitFlag.1 (wake_exited s he)
      · simp [recs]
    | dJoin =>
      simp only [hpc] at hs
      split at hs
      · rename_i hex
        injection hs with hs; subst hs
        simp only [cwfOk, hpc] at hw
        have hd : s.destroyer = some (i + 1) := h.r.dIn i c hci (by simp [hpc, inDestroy])
        have hph := h.r.dPhase i c hd hci
        simp only [hpc, phaseOk] at hph
        refine ⟨h.t.frameClient hci rfl rfl rfl (by simp [pend, hpc, Cfg.fixed]) rfl rfl rfl rfl, ?_, ?_, h.k.frame rfl rfl rfl⟩
        · exact h.m.frameClientSame hci rfl rfl rfl h.m.cpy rfl rfl (by simp [hpc, clientCS, Cfg.fixed])
        · exact h.r.frameDestroy hci hd hw rfl hw.1 hw.2 (Or.inl (by simp [Cfg.fixed, inDestroy])) rfl rfl
            (by simp [Cfg.fixed, phaseOk, hph, hex]) h.r.exitFlag.1
      · cases hs
    | dDrainQ =>
      simp only [hpc] at hs
      simp only [cwfOk, hpc] at hw
      have hd : s.destroyer = some (i + 1) := h.r.dIn i c hci (by simp [hpc, inDestroy])
      have hph := h.r.dPhase i c hd hci
      simp only [hpc, phaseOk] at hph
      split at hs
      · rename_i hq
        injection hs with hs; subst hs
        refine ⟨h.t.frameClient hci rfl rfl rfl (by simp [pend, hpc]) rfl rfl rfl rfl, ?_, ?_, h.k.frame rfl rfl rfl⟩
        · exact h.m.frameClientSame hci rfl rfl rfl h.m.cpy rfl rfl (by simp [hpc, clientCS])
        · exact h.r.frameDestroy hci hd hw rfl hw.1 hw.2 (Or.inl rfl) rfl rfl
            (by simp [phaseOk, hph, hq]) h.r.exitFlag.1
      · rename_i t r hq
        injection hs with hs; subst hs
        refine ⟨?_, ⟨h.m.nowLe, h.m.cpy, h.m.mutexS, h.m.mutexC, h.m.mutexB⟩, ?_, h.k.frame rfl rfl rfl⟩
        · refine ⟨hT.wf1, ?_, hT.cntSched, ?_, ?_, hT.logInv⟩
          · intro a
            have := hT.cntPlaces a
            have hc := count_schedule s.inner s.tsOf t a
            simp only [places, handOver, recs, logTasks, innerTasks, innerT, hq, List.count_append, List.count_cons,
              beq_iff_eq] at this hc ⊢
            omega
          · exact flagInv_schedule s.inner s.tsOf t hT.flagInv
          · intro u hu
            rcases asap_schedule s.inner s.tsOf t u hu with h1 | ⟨h1, h2⟩
            · exact hT.asapTs u h1
            · subst h1; exact h2
        · exact h.r.frameDestroySame hci hd rfl rfl rfl (by simp [hpc, phaseOk, hph]) h.r.exitFlag.1
    | dDrainC =>
      simp only [hpc] at hs
      simp only [cwfOk, hpc] at hw
      have hd : s.destroyer = some (i + 1) := h.r.dIn i c hci (by simp [hpc, inDestroy])
      have hph := h.r.dPhase i c hd hci
      simp only [hpc, phaseOk] at hph
      split at hs
      · rename_i hq
        injection hs with hs; subst hs
        refine ⟨h.t.frameClient hci rfl rfl rfl (by simp [pend, hpc]) rfl rfl rfl rfl, ?_, ?_, h.k.frame rfl rfl rfl⟩
        · exact h.m.frameClientSame hci rfl rfl rfl h.m.cpy rfl rfl (by simp [hpc, clientCS])
        · exact h.r.frameDestroy hci hd hw rfl hw.1 hw.2 (Or.inl rfl) rfl rfl
            (by simp [phaseOk, qEmpty, hph, hq]) h.r.exitFlag.1
      · rename_i r rest hq
        injection hs with hs; subst hs
        refine ⟨?_, ?_, ?_, ?_⟩
        · refine procRec_T (i + 1) r _ hT.wf1 ?_ hT.cntSched hT.flagInv hT.asapTs hT.logInv (Or.inr hd)
          intro a
          have := hT.cntPlaces a
          simp only [places, handOver, recs, logTasks, innerTasks, hq, remTasks_append, remTasks_cons,
            List.count_append] at this ⊢
          cases hr : r.removed <;> simp [hr, List.count_cons] at this ⊢ <;> omega
        · have hm := h.m
          refine ⟨by simpa using hm.nowLe, by simpa using hm.cpy, by simpa using hm.mutexS, ?_, ?_⟩
          · intro j cj hj; simp only [procRec_clients, procRec_mutex] at hj ⊢; exact hm.mutexC j cj hj
          · intro k hk; simp only [procRec_clients, procRec_mutex] at hk ⊢; exact hm.mutexB k hk
        · exact h.r.frameDestroySame hci hd (by simp) (by simp) (by simp) (by simp [hpc, phaseOk, hph])
            (by simpa using h.r.exitFlag.1)
        · constructor; intro id
          have := h.k.recCount id
          simp only [recs, hq, procRec_freed, procRec_cancelQ, procRec_st, procRec_nextRec, List.map_append,
            List.map_cons, List.count_append, List.count_cons, List.count_nil] at this ⊢
          omega
    | dCleanUp =>
      simp only [hpc] at hs
      injection hs with hs; subst hs
      simp only [cwfOk, hpc] at hw
      have hd : s.destroyer = some (i + 1) := h.r.dIn i c hci (by simp [hpc, inDestroy])
      have hph := h.r.dPhase i c hd hci
      simp only [hpc, phaseOk] at hph
      refine ⟨?_, ?_, ?_, h.k.frame rfl rfl rfl⟩
      · refine ⟨hT.wf1, ?_, ?_, ?_, ?_, ?_⟩
        · intro a
          have := hT.cntPlaces a
          simp only [places, handOver, recs, logTasks, innerTasks, Inner.cleanUp, List.count_append, List.map_append,
            List.map_map, List.count_nil] at this ⊢
          have hmap : ∀ l : List Task, (List.map ((fun x : Entry => x.task) ∘ fun t => ({ task := t, status := Status.canceled, thread := i + 1, time := s.clock } : Entry))
              l) = l := by
            intro l; simp [Function.comp_def]
          simp only [hmap]; omega
        · intro a
          have e1 := pendAll_set (s' := { s with clients := s.clients.set i { c with pc := CPc.dFree } }) hci rfl a
          have : pend { c with pc := CPc.dFree } = pend c := by simp [pend, hpc]
          rw [this] at e1
          have := hT.cntSched a
          unfold pendAll at *
          simp only at e1 ⊢
          omega
        · exact flagInv_cleanUp s.inner hT.flagInv
        · intro u hu; simp [Inner.cleanUp] at hu
        · intro e he
          simp only [List.mem_append, List.mem_map] at he
          rcases he with he | ⟨t, ht, he⟩
          · exact hT.logInv e he
          · subst he
            exact ⟨Or.inr ⟨rfl, hd⟩, by simp⟩
      · exact h.m.frameClientSame hci rfl rfl rfl h.m.cpy rfl rfl (by simp [hpc, clientCS])
      · exact h.r.frameDestroy hci hd hw rfl hw.1 hw.2 (Or.inl rfl) rfl rfl
          (by simp [phaseOk, qEmpty, iEmpty, Inner.cleanUp, hph] at hph ⊢; exact hph) h.r.exitFlag.1
    | dFree =>
      simp only [hpc] at hs
      injection hs with hs; subst hs
      simp only [cwfOk, hpc] at hw
      have hd : s.destroyer = some (i + 1) := h.r.dIn i c hci (by simp [hpc, inDestroy])
      have hph := h.r.dPhase i c hd hci
      simp only [hpc, phaseOk] at hph
      refine ⟨h.t.frameClient hci rfl rfl rfl (by simp [pend, hpc]) rfl rfl rfl rfl, ?_, ?_, h.k.frame rfl rfl rfl⟩
      · exact h.m.frameClientSame hci rfl rfl rfl h.m.cpy rfl rfl (by simp [hpc, clientCS])
      · exact h.r.frameDestroy hci hd hw rfl hw.1 hw.2 (Or.inr rfl) rfl rfl
          (by simp [phaseOk, qEmpty, iEmpty] at hph ⊢; exact ⟨hph.2.1, hph.2.2.1, hph.2.2.2⟩) h.r.exitFlag.1

end AwsVerif.Proofs.C08
