import AwsVerif.Model.ThreadSched
import AwsVerif.Proofs.C08.ListLemmas
/-! The inductive invariant of the thread-scheduler transition system and the lemmas about the
inner scheduler's operations. -/
set_option linter.unusedSimpArgs false
set_option linter.unusedVariables false
namespace AwsVerif.Proofs.C08
open AwsVerif.ThreadSched

/-- tasks a client is still going to push: its remaining schedule operations, the one it is in the
middle of, and (destroy callback) the target of the task-function call it is executing -/
def pend (c : Client) : List Task :=
  (match c.pc with
   | .sBody t _ => [t]
   | .dcbLock op _ => op.target
   | .dcbBody op _ => op.target
   | _ => []) ++ schedTasks c.prog

def clientPend (s : Sys) : List Task := s.clients.flatMap pend

/-- target of the task-function call the scheduler thread is executing -/
def pcPendS (st : SThread) : List Task :=
  match st.pc with
  | .cbLock op _ => op.target
  | .cbBody op _ => op.target
  | _ => []

/-- targets of the task functions of tasks that have not been invoked yet -/
def cbPend : Cbs → List Task → List Task
  | [], _ => []
  | e :: r, done => (if e.task ∈ done then [] else e.op.target) ++ cbPend r done

def pendAll (s : Sys) : List Task := clientPend s ++ pcPendS s.st ++ cbPend s.cbs (logTasks s)

def allTasks (progs : List (List Op)) : List Task := progs.flatMap schedTasks

def schedCS : SPc → Bool
  | .swap | .unlock1 | .predClock | .predLoad | .wait | .unlock2 | .cbBody _ _ | .cbUnlock _ => true
  | _ => false

def clientCS : CPc → Bool
  | .sBody _ _ | .cBody _ | .unlock | .dcbBody _ _ | .dcbUnlock _ => true
  | _ => false

def inDestroy : CPc → Bool
  | .dStore | .dNotify | .dJoin | .dDrainQ | .dDrainC | .dCleanUp | .dSweep | .dcbLock _ _ | .dcbBody _ _
  | .dcbUnlock _ | .dcbNotify _ | .dFree => true
  | _ => false

/-- the scheduler thread is inside `s_run_all` -/
def runningPhase : SPc → Bool
  | .running | .cbLock _ .running | .cbBody _ .running | .cbUnlock .running | .cbNotify .running => true
  | _ => false

/-- the scheduler thread is inside the cancellation loop -/
def cancelsPhase : SPc → Bool
  | .cancels | .cbLock _ .cancels | .cbBody _ .cancels | .cbUnlock .cancels | .cbNotify .cancels => true
  | _ => false

def cpyOk (st : SThread) : Prop :=
  (st.pc ≠ .unlock1 → st.pc ≠ .feed → st.listCpy = []) ∧
  (st.pc ≠ .unlock1 → st.pc ≠ .feed → cancelsPhase st.pc = false → st.cancelCpy = [])

def cwfOk (c : Client) : Prop :=
  match c.pc with
  | .idle => wfProg c.held c.prog = true
  | .sBody _ _ | .cBody _ | .unlock | .notify => 1 ≤ c.held ∧ wfProg c.held c.prog = true
  | _ => c.held = 0 ∧ c.prog = []

def qEmpty (s : Sys) : Prop := s.schedQ = [] ∧ s.cancelQ = []
def iEmpty (s : Sys) : Prop := s.inner.asap = [] ∧ s.inner.timed = [] ∧ s.inner.running = []

/-- after the join: the thread is gone, nothing is released yet -/
def joined (s : Sys) : Prop := s.released = false ∧ s.st.pc = .exited

/-- what is known while the destroying client is at a given program point -/
def phaseOk (s : Sys) : CPc → Prop
  | .dStore | .dNotify | .dJoin => s.released = false ∧ s.sweeping = false
  | .dDrainQ => joined s ∧ s.sweeping = false
  | .dDrainC => joined s ∧ s.sweeping = false ∧ (s.misuse = false → s.schedQ = [])
  | .dcbLock _ .drainC | .dcbBody _ .drainC | .dcbUnlock .drainC | .dcbNotify .drainC =>
      joined s ∧ s.sweeping = false ∧ s.misuse = true
  | .dCleanUp => joined s ∧ s.sweeping = false ∧ (s.misuse = false → qEmpty s)
  | .dSweep => joined s ∧ s.sweeping = true ∧ (s.misuse = false → qEmpty s)
  | .dcbLock _ .sweep | .dcbBody _ .sweep | .dcbUnlock .sweep | .dcbNotify .sweep =>
      joined s ∧ s.sweeping = true ∧ s.misuse = true
  | .dFree => joined s ∧ s.sweeping = false ∧ iEmpty s ∧ (s.misuse = false → qEmpty s)
  | .idle => s.released = true ∧ s.st.pc = .exited ∧ s.sweeping = false ∧ iEmpty s ∧ (s.misuse = false → qEmpty s)
  | _ => False

def logOk (s : Sys) (e : Entry) : Prop :=
  (e.thread = 0 ∨ (e.status = .canceled ∧ s.destroyer = some e.thread)) ∧
  (e.status = .run → e.thread = 0 ∧ s.tsOf e.task ≤ e.time)

/-- what is still going to be pushed -/
structure InvP (progs : List (List Op)) (s : Sys) : Prop where
  /-- nothing is pushed twice: scheduled, or still to be pushed by a client or a task function -/
  cntSched : ∀ t, s.scheduled.count t + (pendAll s).count t ≤ 1
  /-- every schedule operation of a client program is either done or still ahead -/
  cntProg : ∀ t, (allTasks progs).count t ≤ s.scheduled.count t + (clientPend s).count t

/-- where the tasks are -/
structure InvT (s : Sys) : Prop where
  cntPlaces : ∀ t, (places s).count t = s.scheduled.count t
  flagInv : ∀ t, s.inner.flag t = true ↔ t ∈ innerTasks s
  asapTs : ∀ t ∈ s.inner.asap, s.tsOf t = 0
  logInv : ∀ e ∈ s.log, logOk s e
  /-- what `run_all` swept is due -/
  runTs : s.st.pc ≠ .exited → ∀ t ∈ s.inner.running, s.tsOf t ≤ s.clock

/-- mutex, private copies, clock -/
structure InvM (s : Sys) : Prop where
  nowLe : s.st.now ≤ s.clock
  cpy : cpyOk s.st
  mutexS : s.mutex = some 0 ↔ schedCS s.st.pc = true
  mutexC : ∀ (j : Nat) (c : Client), s.clients[j]? = some c → (clientCS c.pc = true ↔ s.mutex = some (j + 1))
  mutexB : ∀ k, s.mutex = some k → k ≤ s.clients.length

/-- reference counting and the shutdown handshake -/
structure InvR (s : Sys) : Prop where
  refSum : s.refCount = (s.clients.map (·.held)).sum
  cwf : ∀ (j : Nat) (c : Client), s.clients[j]? = some c → cwfOk c
  dIn : ∀ (j : Nat) (c : Client), s.clients[j]? = some c → inDestroy c.pc = true → s.destroyer = some (j + 1)
  dRef : s.destroyer ≠ none → s.refCount = 0
  dBound : ∀ k, s.destroyer = some k → 1 ≤ k ∧ k ≤ s.clients.length
  dPhase : ∀ (j : Nat) (c : Client), s.destroyer = some (j + 1) → s.clients[j]? = some c → phaseOk s c.pc
  relD : s.released = true → s.destroyer ≠ none
  exitFlag : (s.st.pc = .exited → s.shouldExit = true) ∧ (s.shouldExit = true → s.destroyer ≠ none)
  /-- the running list is empty outside `s_run_all` -/
  runInv : runningPhase s.st.pc = false → s.sweeping = false → s.inner.running = []
  sweepD : s.sweeping = true → s.destroyer ≠ none
  misuseD : s.misuse = true → s.destroyer ≠ none

/-- cancellation records -/
structure InvK (s : Sys) : Prop where
  recCount : ∀ id, ((recs s).map (·.id) ++ s.freed).count id = if id < s.nextRec then 1 else 0

structure Inv (progs : List (List Op)) (s : Sys) : Prop where
  t : InvT s
  p : InvP progs s
  m : InvM s
  r : InvR s
  k : InvK s

/-! ### remTasks -/

theorem remTasks_append (a b : List CRec) : remTasks (a ++ b) = remTasks a ++ remTasks b := by
  simp [remTasks, List.filter_append]

theorem remTasks_cons (r : CRec) (l : List CRec) :
    remTasks (r :: l) = (if r.removed then [r.task] else []) ++ remTasks l := by
  cases hr : r.removed <;> simp [remTasks, List.filter_cons, hr]

theorem remTasks_nil : remTasks [] = [] := rfl

/-! ### inner scheduler operations -/

def innerT (I : Inner) : List Task := I.asap ++ I.timed ++ I.running

theorem count_insertTs (ts : Task → Nat) (t a : Task) (l : List Task) :
    (insertTs ts t l).count a = l.count a + if t = a then 1 else 0 := by
  induction l with
  | nil => simp [insertTs, List.count_cons]
  | cons u r ih =>
    unfold insertTs
    by_cases h : ts t < ts u
    · simp [h, List.count_cons] <;> omega
    · simp [h, List.count_cons, ih] <;> omega

theorem count_schedule (I : Inner) (ts : Task → Nat) (t a : Task) :
    (innerT (I.schedule ts t)).count a = (innerT I).count a + if t = a then 1 else 0 := by
  unfold Inner.schedule innerT
  by_cases h : ts t = 0
  · simp [h, List.count_cons] <;> omega
  · simp [h, count_insertTs] <;> omega

theorem mem_innerT_iff (I : Inner) (a : Task) : a ∈ innerT I ↔ 0 < (innerT I).count a :=
  List.count_pos_iff.symm

theorem flag_schedule (I : Inner) (ts : Task → Nat) (t u : Task) :
    (I.schedule ts t).flag u = if u = t then true else I.flag u := by
  unfold Inner.schedule
  by_cases h : ts t = 0 <;> simp [h, setF]

theorem asap_schedule (I : Inner) (ts : Task → Nat) (t u : Task) (h : u ∈ (I.schedule ts t).asap) :
    u ∈ I.asap ∨ (u = t ∧ ts t = 0) := by
  unfold Inner.schedule at h
  by_cases h0 : ts t = 0
  · simp [h0] at h; rcases h with h | h
    · exact Or.inl h
    · exact Or.inr ⟨h, h0⟩
  · simp [h0] at h; exact Or.inl h

theorem running_schedule (I : Inner) (ts : Task → Nat) (t : Task) : (I.schedule ts t).running = I.running := by
  unfold Inner.schedule; split <;> rfl

theorem flagInv_schedule (I : Inner) (ts : Task → Nat) (t : Task)
    (hf : ∀ u, I.flag u = true ↔ u ∈ innerT I) :
    ∀ u, (I.schedule ts t).flag u = true ↔ u ∈ innerT (I.schedule ts t) := by
  intro u
  have hfu := hf u
  rw [mem_innerT_iff] at hfu
  rw [flag_schedule, mem_innerT_iff, count_schedule]
  by_cases h : u = t
  · subst h; simp
  · have h' : ¬ t = u := fun e => h e.symm
    simp only [h, h', if_false, Nat.add_zero]
    exact hfu

theorem count_cancel (I : Inner) (t a : Task) :
    (innerT (I.cancel t)).count a
      = (I.asap.count a - if t = a then 1 else 0) + (I.timed.count a - if t = a then 1 else 0)
        + (I.running.count a - if t = a then 1 else 0) := by
  unfold Inner.cancel innerT
  simp [List.count_erase, Nat.add_assoc]

theorem flagInv_cancel (I : Inner) (t : Task)
    (hf : ∀ u, I.flag u = true ↔ u ∈ innerT I) (hn : (innerT I).count t ≤ 1) :
    ∀ u, (I.cancel t).flag u = true ↔ u ∈ innerT (I.cancel t) := by
  intro u
  rw [mem_innerT_iff, count_cancel]
  have hfu := hf u
  rw [mem_innerT_iff] at hfu
  unfold innerT at hn hfu
  simp only [List.count_append] at hn hfu
  by_cases h : u = t
  · subst h
    simp [Inner.cancel, setF]; omega
  · have h' : ¬ t = u := fun e => h e.symm
    simp [Inner.cancel, setF, h, h', hfu]

theorem asap_cancel (I : Inner) (t u : Task) (h : u ∈ (I.cancel t).asap) : u ∈ I.asap := by
  unfold Inner.cancel at h
  exact List.mem_of_mem_erase h

theorem running_cancel (I : Inner) (t u : Task) (h : u ∈ (I.cancel t).running) : u ∈ I.running := by
  unfold Inner.cancel at h
  exact List.mem_of_mem_erase h

theorem count_sweepDue (I : Inner) (ts : Task → Nat) (now : Nat) (a : Task) :
    (innerT (I.sweepDue ts now)).count a = (innerT I).count a := by
  unfold Inner.sweepDue innerT
  simp only [List.count_append, List.nil_append, List.count_nil]
  have := count_filter_add (fun t => decide (ts t ≤ now)) a I.timed
  omega

theorem count_sweepAll (I : Inner) (a : Task) : (innerT I.sweepAll).count a = (innerT I).count a := by
  unfold Inner.sweepAll innerT
  simp only [List.count_append, List.nil_append, List.count_nil]
  omega

theorem mem_sweepDue_running (I : Inner) (ts : Task → Nat) (now : Nat) (a : Task)
    (h : a ∈ (I.sweepDue ts now).running) : a ∈ I.running ∨ a ∈ I.asap ∨ (a ∈ I.timed ∧ ts a ≤ now) := by
  unfold Inner.sweepDue at h
  simp at h
  rcases h with h | h | h
  · exact Or.inl h
  · exact Or.inr (Or.inl h)
  · exact Or.inr (Or.inr h)

/-- a sweep moves tasks between the three lists and leaves the flags alone -/
theorem flagInv_of_count {I I' : Inner} (hf : ∀ u, I.flag u = true ↔ u ∈ innerT I) (hfl : I'.flag = I.flag)
    (hc : ∀ a, (innerT I').count a = (innerT I).count a) : ∀ u, I'.flag u = true ↔ u ∈ innerT I' := by
  intro u
  rw [hfl, mem_innerT_iff, hc u, ← mem_innerT_iff]
  exact hf u

theorem popRunning_eq {I I' : Inner} {t : Task} (h : I.popRunning = some (t, I')) :
    ∃ r, I.running = t :: r ∧ I' = { I with running := r, flag := setF I.flag t false } := by
  unfold Inner.popRunning at h
  split at h
  · cases h
  · rename_i t' r hr
    injection h with h; injection h with h1 h2
    subst h1; subst h2
    exact ⟨r, hr, rfl⟩

theorem count_popRunning {I I' : Inner} {t : Task} (h : I.popRunning = some (t, I')) (a : Task) :
    (innerT I').count a + (if t = a then 1 else 0) = (innerT I).count a := by
  obtain ⟨r, hr, rfl⟩ := popRunning_eq h
  unfold innerT
  simp only [hr, List.count_append, List.count_cons, beq_iff_eq]
  omega

theorem flagInv_popRunning {I I' : Inner} {t : Task} (h : I.popRunning = some (t, I'))
    (hf : ∀ u, I.flag u = true ↔ u ∈ innerT I) (hn : (innerT I).count t ≤ 1) :
    ∀ u, I'.flag u = true ↔ u ∈ innerT I' := by
  intro u
  have hc := count_popRunning h u
  have hfu := hf u
  rw [mem_innerT_iff] at hfu ⊢
  obtain ⟨r, hr, rfl⟩ := popRunning_eq h
  by_cases hu : u = t
  · subst hu
    simp only [if_true] at hc
    have h0 : (innerT { I with running := r, flag := setF I.flag u false }).count u = 0 := by omega
    rw [h0]; simp [setF]
  · have hu' : ¬ t = u := fun e => hu e.symm
    simp only [hu', if_false, Nat.add_zero] at hc
    simp only [setF, hu, if_false]
    rw [hc]; exact hfu

theorem popRunning_none {I : Inner} (h : I.popRunning = none) : I.running = [] := by
  unfold Inner.popRunning at h
  split at h
  · assumption
  · cases h

/-! ### task functions still to fire -/

theorem cbPend_mono (cbs : Cbs) (done : List Task) (u a : Task) :
    (cbPend cbs (done ++ [u])).count a ≤ (cbPend cbs done).count a := by
  induction cbs with
  | nil => simp [cbPend]
  | cons e r ih =>
    simp only [cbPend, List.count_append]
    by_cases h1 : e.task ∈ done
    · have h2 : e.task ∈ done ++ [u] := List.mem_append_left _ h1
      simp only [h1, h2, if_true, List.count_nil]; omega
    · by_cases h3 : e.task = u
      · have h2 : e.task ∈ done ++ [u] := by simp [h3]
        simp only [h1, h2, if_true, if_false, List.count_nil]; omega
      · have h2 : e.task ∉ done ++ [u] := by simp [h1, h3]
        simp only [h1, h2, if_false]; omega

/-- invoking `u` (not invoked before) retires its task functions; the one that fires passes its
target on to the invoking thread's program counter -/
theorem cbPend_invoke (cbs : Cbs) (done : List Task) (u : Task) (st : Status) (a : Task) (hu : u ∉ done) :
    (cbPend cbs (done ++ [u])).count a + (cbs.get u st).target.count a ≤ (cbPend cbs done).count a := by
  induction cbs with
  | nil => simp [cbPend, Cbs.get, CbOp.target]
  | cons e r ih =>
    have hm := cbPend_mono r done u a
    simp only [cbPend, Cbs.get, List.count_append]
    by_cases h3 : e.task = u
    · subst h3
      have h2 : e.task ∈ done ++ [e.task] := by simp
      by_cases h4 : e.status = st
      · simp only [hu, h2, h4, and_self, if_true, if_false, List.count_nil]; omega
      · simp only [hu, h2, h4, and_false, if_true, if_false, List.count_nil]; omega
    · have h5 : ¬ (e.task = u ∧ e.status = st) := fun h => h3 h.1
      by_cases h1 : e.task ∈ done
      · have h2 : e.task ∈ done ++ [u] := List.mem_append_left _ h1
        simp only [h1, h2, h5, if_true, if_false, List.count_nil]; omega
      · have h2 : e.task ∉ done ++ [u] := by simp [h1, h3]
        simp only [h1, h2, h5, if_false]; omega

theorem cbPend_nil (cbs : Cbs) : cbPend cbs [] = cbTargets cbs := by
  induction cbs with
  | nil => rfl
  | cons e r ih => simp [cbPend, cbTargets, List.flatMap_cons] at ih ⊢; exact ih

/-! ### well-formed programs -/

theorem wfProg_zero {p : List Op} (h : wfProg 0 p = true) : p = [] := by
  cases p with
  | nil => rfl
  | cons o r => cases o <;> simp [wfProg] at h

theorem wfProg_cons {h : Nat} {o : Op} {r : List Op} (hw : wfProg h (o :: r) = true) : 1 ≤ h := by
  cases o <;> simp [wfProg] at hw <;> exact hw.1

end AwsVerif.Proofs.C08
