import AwsVerif.Model.ThreadSched
import AwsVerif.Proofs.C08.ListLemmas
/-! The inductive invariant of the thread-scheduler transition system and the lemmas about the
inner scheduler's operations. -/
set_option linter.unusedSimpArgs false
set_option linter.unusedVariables false
namespace AwsVerif.Proofs.C08
open AwsVerif.ThreadSched

/-- tasks a client is still going to push -/
def pend (c : Client) : List Task :=
  (match c.pc with | .sBody t _ => [t] | _ => []) ++ schedTasks c.prog

def pendAll (s : Sys) : List Task := s.clients.flatMap pend

def allTasks (progs : List (List Op)) : List Task := progs.flatMap schedTasks

def schedCS : SPc → Bool
  | .swap | .unlock1 | .predClock | .predLoad | .wait | .unlock2 => true
  | _ => false

def clientCS : CPc → Bool
  | .sBody _ _ | .cBody _ | .unlock => true
  | _ => false

def inDestroy : CPc → Bool
  | .dStore | .dNotify | .dJoin | .dDrainQ | .dDrainC | .dCleanUp | .dFree => true
  | _ => false

def cpyOk (st : SThread) : Prop :=
  (st.pc ≠ .unlock1 → st.pc ≠ .feed → st.listCpy = []) ∧
  (st.pc ≠ .unlock1 → st.pc ≠ .feed → st.pc ≠ .cancels → st.cancelCpy = [])

def cwfOk (c : Client) : Prop :=
  match c.pc with
  | .idle => wfProg c.held c.prog = true
  | .sBody _ _ | .cBody _ | .unlock | .notify => 1 ≤ c.held ∧ wfProg c.held c.prog = true
  | _ => c.held = 0 ∧ c.prog = []

def qEmpty (s : Sys) : Prop := s.schedQ = [] ∧ s.cancelQ = []
def iEmpty (s : Sys) : Prop := s.inner.asap = [] ∧ s.inner.timed = []

/-- what is known while the destroying client is at a given program point -/
def phaseOk (s : Sys) : CPc → Prop
  | .dStore | .dNotify | .dJoin => s.released = false
  | .dDrainQ => s.released = false ∧ s.st.pc = .exited
  | .dDrainC => s.released = false ∧ s.st.pc = .exited ∧ s.schedQ = []
  | .dCleanUp => s.released = false ∧ s.st.pc = .exited ∧ qEmpty s
  | .dFree => s.released = false ∧ s.st.pc = .exited ∧ qEmpty s ∧ iEmpty s
  | .idle => s.released = true ∧ s.st.pc = .exited ∧ qEmpty s ∧ iEmpty s
  | _ => False

def logOk (s : Sys) (e : Entry) : Prop :=
  (e.thread = 0 ∨ (e.status = .canceled ∧ s.destroyer = some e.thread)) ∧
  (e.status = .run → e.thread = 0 ∧ s.tsOf e.task ≤ e.time)

/-- where the tasks are -/
structure InvT (progs : List (List Op)) (s : Sys) : Prop where
  wf1 : ∀ t, (allTasks progs).count t ≤ 1
  cntPlaces : ∀ t, (places s).count t = s.scheduled.count t
  cntSched : ∀ t, s.scheduled.count t + (pendAll s).count t = (allTasks progs).count t
  flagInv : ∀ t, s.inner.flag t = true ↔ t ∈ innerTasks s
  asapTs : ∀ t ∈ s.inner.asap, s.tsOf t = 0
  logInv : ∀ e ∈ s.log, logOk s e

/-- mutex, private copies, clock -/
structure InvM (s : Sys) : Prop where
  nowLe : s.st.now ≤ s.clock
  cpy : cpyOk s.st
  mutexS : s.mutex = some 0 ↔ schedCS s.st.pc = true
  mutexC : ∀ (j : Nat) (c : Client), s.clients[j]? = some c → (clientCS c.pc = true ↔ s.mutex = some (j + 1))
  mutexB : ∀ k, s.mutex = some k → k ≤ s.clients.length

/-- reference counting and the shutdown handshake -/
structure InvR (s : Sys) : Prop where
  refSum : s.refCount = (s.clients.map (·.held)).sum
  cwf : ∀ (j : Nat) (c : Client), s.clients[j]? = some c → cwfOk c
  dIn : ∀ (j : Nat) (c : Client), s.clients[j]? = some c → inDestroy c.pc = true → s.destroyer = some (j + 1)
  dRef : s.destroyer ≠ none → s.refCount = 0
  dBound : ∀ k, s.destroyer = some k → 1 ≤ k ∧ k ≤ s.clients.length
  dPhase : ∀ (j : Nat) (c : Client), s.destroyer = some (j + 1) → s.clients[j]? = some c → phaseOk s c.pc
  relD : s.released = true → s.destroyer ≠ none
  exitFlag : (s.st.pc = .exited → s.shouldExit = true) ∧ (s.shouldExit = true → s.destroyer ≠ none)

/-- cancellation records -/
structure InvK (s : Sys) : Prop where
  recCount : ∀ id, ((recs s).map (·.id) ++ s.freed).count id = if id < s.nextRec then 1 else 0

structure Inv (progs : List (List Op)) (s : Sys) : Prop where
  t : InvT progs s
  m : InvM s
  r : InvR s
  k : InvK s

/-! ### remTasks -/

theorem remTasks_append (a b : List CRec) : remTasks (a ++ b) = remTasks a ++ remTasks b := by
  simp [remTasks, List.filter_append]

theorem remTasks_cons (r : CRec) (l : List CRec) :
    remTasks (r :: l) = (if r.removed then [r.task] else []) ++ remTasks l := by
  cases hr : r.removed <;> simp [remTasks, List.filter_cons, hr]

theorem remTasks_nil : remTasks [] = [] := rfl

/-! ### inner scheduler operations -/

def innerT (I : Inner) : List Task := I.asap ++ I.timed

theorem count_insertTs (ts : Task → Nat) (t a : Task) (l : List Task) :
    (insertTs ts t l).count a = l.count a + if t = a then 1 else 0 := by
  induction l with
  | nil => simp [insertTs, List.count_cons]
  | cons u r ih =>
    unfold insertTs
    by_cases h : ts t < ts u
    · simp [h, List.count_cons] <;> omega
    · simp [h, List.count_cons, ih] <;> omega

theorem count_schedule (I : Inner) (ts : Task → Nat) (t a : Task) :
    (innerT (I.schedule ts t)).count a = (innerT I).count a + if t = a then 1 else 0 := by
  unfold Inner.schedule innerT
  by_cases h : ts t = 0
  · simp [h, List.count_cons] <;> omega
  · simp [h, count_insertTs] <;> omega

theorem mem_innerT_iff (I : Inner) (a : Task) : a ∈ innerT I ↔ 0 < (innerT I).count a :=
  List.count_pos_iff.symm

theorem flag_schedule (I : Inner) (ts : Task → Nat) (t u : Task) :
    (I.schedule ts t).flag u = if u = t then true else I.flag u := by
  unfold Inner.schedule
  by_cases h : ts t = 0 <;> simp [h, setF]

theorem asap_schedule (I : Inner) (ts : Task → Nat) (t u : Task) (h : u ∈ (I.schedule ts t).asap) :
    u ∈ I.asap ∨ (u = t ∧ ts t = 0) := by
  unfold Inner.schedule at h
  by_cases h0 : ts t = 0
  · simp [h0] at h; rcases h with h | h
    · exact Or.inl h
    · exact Or.inr ⟨h, h0⟩
  · simp [h0] at h; exact Or.inl h

theorem flagInv_schedule (I : Inner) (ts : Task → Nat) (t : Task)
    (hf : ∀ u, I.flag u = true ↔ u ∈ innerT I) :
    ∀ u, (I.schedule ts t).flag u = true ↔ u ∈ innerT (I.schedule ts t) := by
  intro u
  have hfu := hf u
  rw [mem_innerT_iff] at hfu
  rw [flag_schedule, mem_innerT_iff, count_schedule]
  by_cases h : u = t
  · subst h; simp
  · have h' : ¬ t = u := fun e => h e.symm
    simp only [h, h', if_false, Nat.add_zero]
    exact hfu

theorem count_cancel (I : Inner) (t a : Task) :
    (innerT (I.cancel t)).count a
      = (I.asap.count a - if t = a then 1 else 0) + (I.timed.count a - if t = a then 1 else 0) := by
  unfold Inner.cancel innerT
  simp [List.count_erase]

theorem flagInv_cancel (I : Inner) (t : Task)
    (hf : ∀ u, I.flag u = true ↔ u ∈ innerT I) (hn : (innerT I).count t ≤ 1) :
    ∀ u, (I.cancel t).flag u = true ↔ u ∈ innerT (I.cancel t) := by
  intro u
  rw [mem_innerT_iff, count_cancel]
  have hfu := hf u
  rw [mem_innerT_iff] at hfu
  unfold innerT at hn hfu
  simp only [List.count_append] at hn hfu
  by_cases h : u = t
  · subst h
    simp [Inner.cancel, setF]; omega
  · have h' : ¬ t = u := fun e => h e.symm
    simp [Inner.cancel, setF, h, h', hfu]

theorem asap_cancel (I : Inner) (t u : Task) (h : u ∈ (I.cancel t).asap) : u ∈ I.asap := by
  unfold Inner.cancel at h
  exact List.mem_of_mem_erase h

theorem count_runAll (I : Inner) (ts : Task → Nat) (now : Nat) (a : Task) :
    (innerT (I.runAll ts now).1).count a + ((I.runAll ts now).2).count a = (innerT I).count a := by
  unfold Inner.runAll innerT
  simp only [List.count_append, List.nil_append]
  have := count_filter_add (fun t => decide (ts t ≤ now)) a I.timed
  omega

theorem mem_runAll_running (I : Inner) (ts : Task → Nat) (now : Nat) (a : Task)
    (h : a ∈ (I.runAll ts now).2) : a ∈ I.asap ∨ (a ∈ I.timed ∧ ts a ≤ now) := by
  unfold Inner.runAll at h
  simp at h
  exact h

theorem flagInv_runAll (I : Inner) (ts : Task → Nat) (now : Nat)
    (hf : ∀ u, I.flag u = true ↔ u ∈ innerT I) (hn : ∀ a, (innerT I).count a ≤ 1) :
    ∀ u, (I.runAll ts now).1.flag u = true ↔ u ∈ innerT (I.runAll ts now).1 := by
  intro u
  have hfu := hf u
  have hnu := hn u
  unfold innerT at hfu hnu
  simp only [List.count_append] at hnu
  rw [List.mem_append] at hfu
  show (if u ∈ I.asap ++ I.timed.filter (fun t => decide (ts t ≤ now)) then false else I.flag u) = true ↔
      u ∈ [] ++ I.timed.filter (fun t => !decide (ts t ≤ now))
  rw [List.nil_append, List.mem_filter]
  by_cases hr : u ∈ I.asap ++ I.timed.filter (fun t => decide (ts t ≤ now))
  · rw [if_pos hr]
    rw [List.mem_append, List.mem_filter] at hr
    constructor
    · intro h; cases h
    · intro ⟨h1, h2⟩
      exfalso
      rcases hr with ha | ⟨_, hd⟩
      · have := List.count_pos_iff.mpr ha
        have := List.count_pos_iff.mpr h1
        omega
      · simp at hd h2; omega
  · rw [if_neg hr]
    rw [List.mem_append, List.mem_filter] at hr
    constructor
    · intro h
      rcases hfu.mp h with h1 | h1
      · exact absurd (Or.inl h1) hr
      · refine ⟨h1, ?_⟩
        by_cases hd : ts u ≤ now
        · exact absurd (Or.inr ⟨h1, by simpa using hd⟩) hr
        · simpa using hd
    · intro ⟨h1, _⟩
      exact hfu.mpr (Or.inr h1)

theorem flagInv_cleanUp (I : Inner) (hf : ∀ u, I.flag u = true ↔ u ∈ innerT I) :
    ∀ u, I.cleanUp.1.flag u = true ↔ u ∈ innerT I.cleanUp.1 := by
  intro u
  have hfu := hf u
  unfold innerT at hfu
  show (if u ∈ I.asap ++ I.timed then false else I.flag u) = true ↔ u ∈ [] ++ []
  by_cases h : u ∈ I.asap ++ I.timed
  · simp [h]
  · simp only [if_neg h, List.append_nil, List.not_mem_nil, iff_false]
    intro hu; exact h (hfu.mp hu)

/-! ### well-formed programs -/

theorem wfProg_zero {p : List Op} (h : wfProg 0 p = true) : p = [] := by
  cases p with
  | nil => rfl
  | cons o r => cases o <;> simp [wfProg] at h

theorem wfProg_cons {h : Nat} {o : Op} {r : List Op} (hw : wfProg h (o :: r) = true) : 1 ≤ h := by
  cases o <;> simp [wfProg] at hw <;> exact hw.1

end AwsVerif.Proofs.C08
