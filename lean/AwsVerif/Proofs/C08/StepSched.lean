import AwsVerif.Proofs.C08.Inv
/-! Steps of the scheduler thread preserve the invariant. -/
set_option linter.unusedSimpArgs false
set_option linter.unusedVariables false
namespace AwsVerif.Proofs.C08
open AwsVerif.ThreadSched

variable {progs : List (List Op)} {s s' : Sys}

theorem InvT.frame (h : InvT progs s)
    (hp : places s' = places s) (hs : s'.scheduled = s.scheduled) (hc : s'.clients = s.clients)
    (hi : s'.inner = s.inner) (ht : s'.tsOf = s.tsOf) (hl : s'.log = s.log)
    (hd : s'.destroyer = s.destroyer) : InvT progs s' := by
  refine ⟨h.wf1, ?_, ?_, ?_, ?_, ?_⟩
  · intro t; rw [hp, hs]; exact h.cntPlaces t
  · intro t; unfold pendAll; rw [hs, hc]; exact h.cntSched t
  · intro t; unfold innerTasks; rw [hi]; exact h.flagInv t
  · intro t ht'; rw [hi] at ht'; rw [ht]; exact h.asapTs t ht'
  · intro e he; rw [hl] at he; have := h.logInv e he
    unfold logOk at *; rw [hd, ht]; exact this

theorem InvK.frame (h : InvK s) (hr : recs s' = recs s) (hf : s'.freed = s.freed)
    (hn : s'.nextRec = s.nextRec) : InvK s' := by
  constructor; intro id; rw [hr, hf, hn]; exact h.recCount id

/-- a scheduler-thread step touches none of the shutdown state except its own program counter -/
theorem InvR.frameSched (h : InvR s) (hne : s.st.pc ≠ .exited)
    (hc : s'.clients = s.clients) (hrc : s'.refCount = s.refCount) (hd : s'.destroyer = s.destroyer)
    (hrel : s'.released = s.released) (hse : s'.shouldExit = s.shouldExit)
    (hex : s'.st.pc = .exited → s.shouldExit = true) : InvR s' := by
  refine ⟨?_, ?_, ?_, ?_, ?_, ?_, ?_, ?_⟩
  · rw [hrc, hc]; exact h.refSum
  · rw [hc]; exact h.cwf
  · rw [hc, hd]; exact h.dIn
  · rw [hd, hrc]; exact h.dRef
  · rw [hd, hc]; exact h.dBound
  · intro j c hdj hcj
    rw [hd] at hdj; rw [hc] at hcj
    have := h.dPhase j c hdj hcj
    cases hp : c.pc <;> simp only [hp, phaseOk] at this ⊢ <;>
      first
        | (rw [hrel]; exact this)
        | exact this
        | (exact absurd this.2.1 hne)
        | (exact absurd this.2 hne)
  · rw [hrel, hd]; exact h.relD
  · rw [hse, hd]; exact ⟨hex, h.exitFlag.2⟩

theorem InvM.frameSched (h : InvM s) (hclock : s.clock ≤ s'.clock) (hnow : s'.st.now ≤ s.st.now ∨ s'.st.now = s.clock)
    (hcl : s'.clients = s.clients) (hcpy : cpyOk s'.st)
    (hmS : s'.mutex = some 0 ↔ schedCS s'.st.pc = true)
    (hmO : ∀ k, k ≠ 0 → (s'.mutex = some k ↔ s.mutex = some k)) : InvM s' := by
  refine ⟨?_, hcpy, hmS, ?_, ?_⟩
  · have := h.nowLe; rcases hnow with h1 | h1 <;> omega
  · intro j c hj; rw [hcl] at hj; rw [hmO (j+1) (by omega)]; exact h.mutexC j c hj
  · intro k hk; rw [hcl]
    by_cases k0 : k = 0
    · omega
    · exact h.mutexB k ((hmO k k0).mp hk)

theorem InvT.sched_le (h : InvT progs s) (a : Task) : s.scheduled.count a ≤ 1 := by
  have := h.cntSched a; have := h.wf1 a; omega

/-- `s_process_cancellation` on a state `s1` from which the record `r` has just been popped
(so a task that lives only in `r` is momentarily not in `places s1`) -/
theorem procRec_T (thr : Nat) (r : CRec) (s1 : Sys)
    (wf1 : ∀ t, (allTasks progs).count t ≤ 1)
    (hcnt : ∀ a, (places s1).count a + (if r.removed = true ∧ r.task = a then 1 else 0) = s1.scheduled.count a)
    (hsch : ∀ t, s1.scheduled.count t + (pendAll s1).count t = (allTasks progs).count t)
    (hfl : ∀ u, s1.inner.flag u = true ↔ u ∈ innerTasks s1)
    (hasap : ∀ t ∈ s1.inner.asap, s1.tsOf t = 0)
    (hlog : ∀ e ∈ s1.log, logOk s1 e)
    (hthr : thr = 0 ∨ s1.destroyer = some thr) :
    InvT progs (procRec Cfg.fixed thr s1 r) := by
  have hle : ∀ a, s1.scheduled.count a ≤ 1 := by
    intro a; have := hsch a; have := wf1 a; omega
  unfold procRec
  by_cases hc : (r.removed || s1.inner.flag r.task || !Cfg.fixed.guardCancel) = true
  · rw [if_pos hc]
    simp [Cfg.fixed] at hc
    have hin : (innerT s1.inner).count r.task ≤ 1 := by
      have := hcnt r.task; have := hle r.task
      simp only [places, innerTasks, innerT, List.count_append] at *; omega
    refine ⟨wf1, ?_, hsch, ?_, ?_, ?_⟩
    · intro a
      have e1 := hcnt a; have e3 := hle a
      have e4 := count_cancel s1.inner r.task a
      simp only [places, handOver, recs, logTasks, innerTasks, innerT, List.count_append, List.map_append,
        List.map_cons, List.map_nil, List.count_cons, List.count_nil, beq_iff_eq] at e1 e4 ⊢
      by_cases hta : r.task = a
      · simp only [hta, if_true, and_true] at e1 e4 ⊢
        rcases hc with hc | hc
        · simp only [hc, if_true] at e1; omega
        · have := (hfl r.task).mp hc
          have := List.count_pos_iff.mpr this
          simp only [innerTasks, List.count_append, hta] at this
          split at e1 <;> omega
      · simp only [hta, if_false, and_false] at e1 e4 ⊢; omega
    · exact flagInv_cancel s1.inner r.task hfl hin
    · intro u hu; exact hasap u (asap_cancel s1.inner r.task u hu)
    · intro e he
      simp only [List.mem_append, List.mem_singleton] at he
      rcases he with he | he
      · exact hlog e he
      · subst he
        refine ⟨?_, by simp⟩
        rcases hthr with h0 | h0
        · exact Or.inl h0
        · exact Or.inr ⟨rfl, h0⟩
  · rw [if_neg hc]
    simp [Cfg.fixed] at hc
    refine ⟨wf1, ?_, hsch, hfl, hasap, hlog⟩
    intro a
    have e1 := hcnt a
    simp only [hc.1, Bool.false_eq_true, false_and, if_false, Nat.add_zero] at e1
    exact e1


/-! ### `procRec` touches only the inner scheduler, the log and the free list -/
section procRecFrame
variable (cfg : Cfg) (thr : Nat) (s : Sys) (r : CRec)
@[simp] theorem procRec_st : (procRec cfg thr s r).st = s.st := by unfold procRec; split <;> rfl
@[simp] theorem procRec_mutex : (procRec cfg thr s r).mutex = s.mutex := by unfold procRec; split <;> rfl
@[simp] theorem procRec_clients : (procRec cfg thr s r).clients = s.clients := by unfold procRec; split <;> rfl
@[simp] theorem procRec_refCount : (procRec cfg thr s r).refCount = s.refCount := by unfold procRec; split <;> rfl
@[simp] theorem procRec_destroyer : (procRec cfg thr s r).destroyer = s.destroyer := by unfold procRec; split <;> rfl
@[simp] theorem procRec_released : (procRec cfg thr s r).released = s.released := by unfold procRec; split <;> rfl
@[simp] theorem procRec_shouldExit : (procRec cfg thr s r).shouldExit = s.shouldExit := by unfold procRec; split <;> rfl
@[simp] theorem procRec_clock : (procRec cfg thr s r).clock = s.clock := by unfold procRec; split <;> rfl
@[simp] theorem procRec_schedQ : (procRec cfg thr s r).schedQ = s.schedQ := by unfold procRec; split <;> rfl
@[simp] theorem procRec_cancelQ : (procRec cfg thr s r).cancelQ = s.cancelQ := by unfold procRec; split <;> rfl
@[simp] theorem procRec_nextRec : (procRec cfg thr s r).nextRec = s.nextRec := by unfold procRec; split <;> rfl
@[simp] theorem procRec_scheduled : (procRec cfg thr s r).scheduled = s.scheduled := by unfold procRec; split <;> rfl
@[simp] theorem procRec_tsOf : (procRec cfg thr s r).tsOf = s.tsOf := by unfold procRec; split <;> rfl
@[simp] theorem procRec_freed : (procRec cfg thr s r).freed = s.freed ++ [r.id] := by unfold procRec; split <;> rfl
theorem procRec_asap_sub (u : Task) (h : u ∈ (procRec cfg thr s r).inner.asap) : u ∈ s.inner.asap := by
  unfold procRec at h; split at h
  · exact asap_cancel _ _ _ h
  · exact h
theorem procRec_timed_sub (u : Task) (h : u ∈ (procRec cfg thr s r).inner.timed) : u ∈ s.inner.timed := by
  unfold procRec at h; split at h
  · exact List.mem_of_mem_erase h
  · exact h
end procRecFrame

theorem inv_stepSched (h : Inv progs s) (hs : stepSched Cfg.fixed s = some s') : Inv progs s' := by
  have hne : s.st.pc ≠ .exited := by intro e; simp [stepSched, e] at hs
  have hm := h.m
  have hcpy := hm.cpy
  have hmS := hm.mutexS
  have hT := h.t
  cases hpc : s.st.pc with
  | loadExit =>
    simp only [stepSched, hpc] at hs; injection hs with hs; subst hs
    refine ⟨h.t.frame rfl rfl rfl rfl rfl rfl rfl, ?_, ?_, h.k.frame rfl rfl rfl⟩
    · refine hm.frameSched (Nat.le_refl _) (Or.inl (Nat.le_refl _)) rfl ?_ ?_ (fun _ _ => Iff.rfl)
      · cases hse : s.shouldExit <;> simp [cpyOk, hpc, hse] at hcpy ⊢ <;> (try simp [hcpy])
      · cases hse : s.shouldExit <;> simp [hpc, schedCS, hse] at hmS ⊢ <;> (try simp [hmS])
    · exact h.r.frameSched hne rfl rfl rfl rfl rfl (by simp)
  | lock1 =>
    simp only [stepSched, hpc] at hs
    split at hs
    · rename_i hmx
      injection hs with hs; subst hs
      refine ⟨h.t.frame rfl rfl rfl rfl rfl rfl rfl, ?_, ?_, h.k.frame rfl rfl rfl⟩
      · refine hm.frameSched (Nat.le_refl _) (Or.inl (Nat.le_refl _)) rfl ?_ ?_ ?_
        · simp [cpyOk, hpc] at hcpy ⊢; simp [hcpy]
        · simp [schedCS]
        · intro k hk; simp [hmx]; omega
      · exact h.r.frameSched hne rfl rfl rfl rfl rfl (by simp)
    · cases hs
  | swap =>
    simp only [stepSched, hpc] at hs; injection hs with hs; subst hs
    simp [cpyOk, hpc] at hcpy
    refine ⟨h.t.frame ?_ rfl rfl rfl rfl rfl rfl, ?_, ?_, h.k.frame ?_ rfl rfl⟩
    · simp [places, handOver, recs, innerTasks, logTasks, hcpy.1, hcpy.2]
    · refine hm.frameSched (Nat.le_refl _) (Or.inl (Nat.le_refl _)) rfl ?_ ?_ (fun _ _ => Iff.rfl)
      · simp [cpyOk]
      · simp [hpc, schedCS] at hmS ⊢; exact hmS
    · exact h.r.frameSched hne rfl rfl rfl rfl rfl (by simp)
    · simp [recs, hcpy.2]
  | unlock1 =>
    simp only [stepSched, hpc] at hs; injection hs with hs; subst hs
    refine ⟨h.t.frame rfl rfl rfl rfl rfl rfl rfl, ?_, ?_, h.k.frame rfl rfl rfl⟩
    · refine hm.frameSched (Nat.le_refl _) (Or.inl (Nat.le_refl _)) rfl ?_ ?_ ?_
      · simp [cpyOk]
      · simp [schedCS]
      · intro k hk; simp [hpc, schedCS] at hmS; simp [hmS]; omega
    · exact h.r.frameSched hne rfl rfl rfl rfl rfl (by simp)
  | feed =>
    simp only [stepSched, hpc] at hs
    split at hs
    · rename_i hl
      injection hs with hs; subst hs
      refine ⟨h.t.frame rfl rfl rfl rfl rfl rfl rfl, ?_, ?_, h.k.frame rfl rfl rfl⟩
      · refine hm.frameSched (Nat.le_refl _) (Or.inl (Nat.le_refl _)) rfl ?_ ?_ (fun _ _ => Iff.rfl)
        · simp [cpyOk, hl]
        · simp [hpc, schedCS] at hmS ⊢; exact hmS
      · exact h.r.frameSched hne rfl rfl rfl rfl rfl (by simp)
    · rename_i t r hl
      injection hs with hs; subst hs
      refine ⟨?_, ?_, ?_, h.k.frame rfl rfl rfl⟩
      · refine ⟨hT.wf1, ?_, hT.cntSched, ?_, ?_, hT.logInv⟩
        · intro a
          have := hT.cntPlaces a
          have hc := count_schedule s.inner s.tsOf t a
          simp only [places, handOver, recs, logTasks, innerTasks, innerT, hl, List.count_append, List.count_cons, beq_iff_eq] at this hc ⊢
          omega
        · exact flagInv_schedule s.inner s.tsOf t hT.flagInv
        · intro u hu
          rcases asap_schedule s.inner s.tsOf t u hu with h1 | ⟨h1, h2⟩
          · exact hT.asapTs u h1
          · subst h1; exact h2
      · refine hm.frameSched (Nat.le_refl _) (Or.inl (Nat.le_refl _)) rfl ?_ ?_ (fun _ _ => Iff.rfl)
        · simp [cpyOk, hpc] at hcpy ⊢
        · simp [hpc, schedCS] at hmS ⊢; exact hmS
      · exact h.r.frameSched hne rfl rfl rfl rfl rfl (by simp [hpc])
  | cancels =>
    simp only [stepSched, hpc] at hs
    split at hs
    · rename_i hl
      injection hs with hs; subst hs
      refine ⟨h.t.frame rfl rfl rfl rfl rfl rfl rfl, ?_, ?_, h.k.frame rfl rfl rfl⟩
      · refine hm.frameSched (Nat.le_refl _) (Or.inl (Nat.le_refl _)) rfl ?_ ?_ (fun _ _ => Iff.rfl)
        · simp [cpyOk, hpc] at hcpy ⊢; simp [hl, hcpy]
        · simp [hpc, schedCS] at hmS ⊢; exact hmS
      · exact h.r.frameSched hne rfl rfl rfl rfl rfl (by simp)
    · rename_i r rest hl
      injection hs with hs; subst hs
      refine ⟨?_, ?_, ?_, ?_⟩
      · refine procRec_T 0 r _ hT.wf1 ?_ hT.cntSched hT.flagInv hT.asapTs hT.logInv (Or.inl rfl)
        intro a
        have := hT.cntPlaces a
        simp only [places, handOver, recs, logTasks, innerTasks, hl, remTasks_append, remTasks_cons,
          List.count_append] at this ⊢
        cases hr : r.removed <;> simp [hr, List.count_cons] at this ⊢ <;> omega
      · refine hm.frameSched (by simp) (Or.inl (by simp)) (by simp) ?_ ?_ (by simp)
        · simp [cpyOk, hpc] at hcpy ⊢; simp [hpc, hcpy]
        · simp [hpc, schedCS] at hmS ⊢; exact hmS
      · exact h.r.frameSched hne (by simp) (by simp) (by simp) (by simp) (by simp) (by simp [hpc])
      · constructor; intro id
        have := h.k.recCount id
        simp only [recs, hl, procRec_freed, procRec_cancelQ, procRec_st, procRec_nextRec, List.map_append,
          List.map_cons, List.count_append, List.count_cons, List.count_nil] at this ⊢
        omega
  | readClock =>
    simp only [stepSched, hpc] at hs; injection hs with hs; subst hs
    refine ⟨h.t.frame rfl rfl rfl rfl rfl rfl rfl, ?_, ?_, h.k.frame rfl rfl rfl⟩
    · refine hm.frameSched (Nat.le_refl _) (Or.inr rfl) rfl ?_ ?_ (fun _ _ => Iff.rfl)
      · simp [cpyOk, hpc] at hcpy ⊢; simp [hcpy]
      · simp [hpc, schedCS] at hmS ⊢; exact hmS
    · exact h.r.frameSched hne rfl rfl rfl rfl rfl (by simp)
  | runAll =>
    simp only [stepSched, hpc] at hs; injection hs with hs; subst hs
    refine ⟨?_, ?_, ?_, h.k.frame rfl rfl rfl⟩
    · have hn : ∀ a, (innerT s.inner).count a ≤ 1 := by
        intro a; have := hT.cntPlaces a; have := hT.sched_le a
        simp only [places, innerTasks, innerT, List.count_append] at *; omega
      refine ⟨hT.wf1, ?_, hT.cntSched, ?_, ?_, ?_⟩
      · intro a
        have := hT.cntPlaces a
        have hc := count_runAll s.inner s.tsOf s.st.now a
        simp only [places, handOver, recs, logTasks, innerTasks, innerT, List.count_append, List.map_append,
          List.map_map] at this hc ⊢
        have hmap : (List.map ((fun x : Entry => x.task) ∘ fun t => ({ task := t, status := Status.run, thread := 0, time := s.clock } : Entry))
            (s.inner.runAll s.tsOf s.st.now).2) = (s.inner.runAll s.tsOf s.st.now).2 := by
          simp [Function.comp_def]
        rw [hmap]; omega
      · exact flagInv_runAll s.inner s.tsOf s.st.now hT.flagInv hn
      · intro u hu; simp [Inner.runAll] at hu
      · intro e he
        simp only [List.mem_append, List.mem_map] at he
        rcases he with he | ⟨t, ht, he⟩
        · exact hT.logInv e he
        · subst he
          refine ⟨Or.inl rfl, fun _ => ⟨rfl, ?_⟩⟩
          have hnow := hm.nowLe
          rcases mem_runAll_running _ _ _ _ ht with h1 | ⟨_, h2⟩
          · have := hT.asapTs t h1; simp only at this ⊢; omega
          · simp only at h2 ⊢; omega
    · refine hm.frameSched (Nat.le_refl _) (Or.inl (Nat.le_refl _)) rfl ?_ ?_ (fun _ _ => Iff.rfl)
      · simp [cpyOk, hpc] at hcpy ⊢; simp [hcpy]
      · simp [hpc, schedCS] at hmS ⊢; exact hmS
    · exact h.r.frameSched hne rfl rfl rfl rfl rfl (by simp)
  | timeout =>
    simp only [stepSched, hpc] at hs; injection hs with hs; subst hs
    refine ⟨h.t.frame rfl rfl rfl rfl rfl rfl rfl, ?_, ?_, h.k.frame rfl rfl rfl⟩
    · refine hm.frameSched (Nat.le_refl _) (Or.inl (Nat.le_refl _)) rfl ?_ ?_ (fun _ _ => Iff.rfl)
      · cases hse : timeoutPos (s.inner.next s.tsOf) s.st.now <;> simp [cpyOk, hpc, hse] at hcpy ⊢ <;> (try simp [hcpy])
      · cases hse : timeoutPos (s.inner.next s.tsOf) s.st.now <;> simp [hpc, schedCS, hse] at hmS ⊢ <;> (try simp [hmS])
    · exact h.r.frameSched hne rfl rfl rfl rfl rfl (by simp; intro h; split at h <;> cases h)
  | lock2 =>
    simp only [stepSched, hpc] at hs
    split at hs
    · rename_i hmx
      injection hs with hs; subst hs
      refine ⟨h.t.frame rfl rfl rfl rfl rfl rfl rfl, ?_, ?_, h.k.frame rfl rfl rfl⟩
      · refine hm.frameSched (Nat.le_refl _) (Or.inl (Nat.le_refl _)) rfl ?_ ?_ ?_
        · simp [cpyOk, hpc] at hcpy ⊢; simp [hcpy]
        · simp [schedCS]
        · intro k hk; simp [hmx]; omega
      · exact h.r.frameSched hne rfl rfl rfl rfl rfl (by simp)
    · cases hs
  | predClock =>
    simp only [stepSched, hpc] at hs; injection hs with hs; subst hs
    refine ⟨h.t.frame rfl rfl rfl rfl rfl rfl rfl, ?_, ?_, h.k.frame rfl rfl rfl⟩
    · refine hm.frameSched (Nat.le_refl _) (Or.inl (Nat.le_refl _)) rfl ?_ ?_ (fun _ _ => Iff.rfl)
      · simp [cpyOk, hpc] at hcpy ⊢; simp [hcpy]
      · simp [hpc, schedCS] at hmS ⊢; exact hmS
    · exact h.r.frameSched hne rfl rfl rfl rfl rfl (by simp)
  | predLoad =>
    simp only [stepSched, hpc] at hs; injection hs with hs; subst hs
    generalize (s.shouldExit || !s.schedQ.isEmpty || !s.cancelQ.isEmpty || decide (s.inner.next s.tsOf ≤ s.st.pnow)) = r
    refine ⟨h.t.frame rfl rfl rfl rfl rfl rfl rfl, ?_, ?_, h.k.frame rfl rfl rfl⟩
    · refine hm.frameSched (Nat.le_refl _) (Or.inl (Nat.le_refl _)) rfl ?_ ?_ (fun _ _ => Iff.rfl)
      · cases r <;> simp [cpyOk, hpc] at hcpy ⊢ <;> (try simp [hcpy])
      · cases r <;> simp [hpc, schedCS] at hmS ⊢ <;> (try simp [hmS])
    · exact h.r.frameSched hne rfl rfl rfl rfl rfl (by cases r <;> simp)
  | wait =>
    simp only [stepSched, hpc] at hs; injection hs with hs; subst hs
    refine ⟨h.t.frame rfl rfl rfl rfl rfl rfl rfl, ?_, ?_, h.k.frame rfl rfl rfl⟩
    · refine hm.frameSched (Nat.le_refl _) (Or.inl (Nat.le_refl _)) rfl ?_ ?_ ?_
      · simp [cpyOk, hpc] at hcpy ⊢; simp [hcpy]
      · simp [schedCS]
      · intro k hk; simp [hpc, schedCS] at hmS; simp [hmS]; omega
    · exact h.r.frameSched hne rfl rfl rfl rfl rfl (by simp)
  | blocked =>
    simp only [stepSched, hpc] at hs; injection hs with hs; subst hs
    refine ⟨h.t.frame rfl rfl rfl rfl rfl rfl rfl, ?_, ?_, h.k.frame rfl rfl rfl⟩
    · refine hm.frameSched (Nat.le_refl _) (Or.inl (Nat.le_refl _)) rfl ?_ ?_ (fun _ _ => Iff.rfl)
      · simp [cpyOk, hpc] at hcpy ⊢; simp [hcpy]
      · simp [hpc, schedCS] at hmS ⊢; exact hmS
    · exact h.r.frameSched hne rfl rfl rfl rfl rfl (by simp)
  | reacq b =>
    simp only [stepSched, hpc] at hs
    split at hs
    · rename_i hmx
      injection hs with hs; subst hs
      refine ⟨h.t.frame rfl rfl rfl rfl rfl rfl rfl, ?_, ?_, h.k.frame rfl rfl rfl⟩
      · refine hm.frameSched (Nat.le_refl _) (Or.inl (Nat.le_refl _)) rfl ?_ ?_ ?_
        · simp [cpyOk, hpc] at hcpy ⊢; cases b <;> simp [hcpy]
        · cases b <;> simp [schedCS]
        · intro k hk; simp [hmx]; omega
      · exact h.r.frameSched hne rfl rfl rfl rfl rfl (by cases b <;> simp)
    · cases hs
  | unlock2 =>
    simp only [stepSched, hpc] at hs; injection hs with hs; subst hs
    refine ⟨h.t.frame rfl rfl rfl rfl rfl rfl rfl, ?_, ?_, h.k.frame rfl rfl rfl⟩
    · refine hm.frameSched (Nat.le_refl _) (Or.inl (Nat.le_refl _)) rfl ?_ ?_ ?_
      · simp [cpyOk, hpc] at hcpy ⊢; simp [hcpy]
      · simp [schedCS]
      · intro k hk; simp [hpc, schedCS] at hmS; simp [hmS]; omega
    · exact h.r.frameSched hne rfl rfl rfl rfl rfl (by simp)
  | exited => exact absurd hpc hne

theorem InvR.frameEq (h : InvR s)
    (hc : s'.clients = s.clients) (hrc : s'.refCount = s.refCount) (hd : s'.destroyer = s.destroyer)
    (hrel : s'.released = s.released) (hse : s'.shouldExit = s.shouldExit) (hpc : s'.st.pc = s.st.pc)
    (hq : s'.schedQ = s.schedQ) (hcq : s'.cancelQ = s.cancelQ) (hi : s'.inner = s.inner) : InvR s' := by
  refine ⟨?_, ?_, ?_, ?_, ?_, ?_, ?_, ?_⟩
  · rw [hrc, hc]; exact h.refSum
  · rw [hc]; exact h.cwf
  · rw [hc, hd]; exact h.dIn
  · rw [hd, hrc]; exact h.dRef
  · rw [hd, hc]; exact h.dBound
  · intro j c hdj hcj
    rw [hd] at hdj; rw [hc] at hcj
    have := h.dPhase j c hdj hcj
    cases hp : c.pc <;> simp only [hp, phaseOk, qEmpty, iEmpty] at this ⊢ <;>
      simp only [hrel, hpc, hq, hcq, hi] <;> exact this
  · rw [hrel, hd]; exact h.relD
  · rw [hse, hd, hpc]; exact h.exitFlag

theorem inv_stepSpurious (h : Inv progs s) (hs : stepSpurious s = some s') : Inv progs s' := by
  unfold stepSpurious at hs
  split at hs
  · rename_i hpc
    injection hs with hs; subst hs
    have hm := h.m
    have hcpy := hm.cpy
    have hmS := hm.mutexS
    have hne : s.st.pc ≠ .exited := by rw [hpc]; simp
    refine ⟨h.t.frame rfl rfl rfl rfl rfl rfl rfl, ?_, ?_, h.k.frame rfl rfl rfl⟩
    · refine hm.frameSched (Nat.le_refl _) (Or.inl (Nat.le_refl _)) rfl ?_ ?_ (fun _ _ => Iff.rfl)
      · simp [cpyOk, hpc] at hcpy ⊢; simp [hcpy]
      · simp [hpc, schedCS] at hmS ⊢; exact hmS
    · exact h.r.frameSched hne rfl rfl rfl rfl rfl (by simp)
  · cases hs

theorem inv_tick (h : Inv progs s) (d : Nat) : Inv progs { s with clock := s.clock + d } := by
  refine ⟨h.t.frame rfl rfl rfl rfl rfl rfl rfl, ?_, h.r.frameEq rfl rfl rfl rfl rfl rfl rfl rfl rfl,
    h.k.frame rfl rfl rfl⟩
  have hm := h.m
  exact ⟨by have := hm.nowLe; simp only; omega, hm.cpy, hm.mutexS, hm.mutexC, hm.mutexB⟩

end AwsVerif.Proofs.C08
