import AwsVerif.Proofs.C08.Inv
/-! Steps of the scheduler thread preserve the invariant. -/
set_option linter.unusedSimpArgs false
set_option linter.unusedVariables false
namespace AwsVerif.Proofs.C08
open AwsVerif.ThreadSched

variable {progs : List (List Op)} {s s' : Sys}

theorem InvT.frame (h : InvT s)
    (hp : places s' = places s) (hs : s'.scheduled = s.scheduled)
    (hi : s'.inner = s.inner) (ht : s'.tsOf = s.tsOf) (hl : s'.log = s.log)
    (hd : s'.destroyer = s.destroyer) (hclock : s.clock ≤ s'.clock)
    (hex : s'.st.pc ≠ .exited → s.st.pc ≠ .exited) : InvT s' := by
  refine ⟨?_, ?_, ?_, ?_, ?_⟩
  · intro t; rw [hp, hs]; exact h.cntPlaces t
  · intro t; unfold innerTasks; rw [hi]; exact h.flagInv t
  · intro t ht'; rw [hi] at ht'; rw [ht]; exact h.asapTs t ht'
  · intro e he; rw [hl] at he; have := h.logInv e he
    unfold logOk at *; rw [hd, ht]; exact this
  · intro hne t ht'; rw [hi] at ht'; rw [ht]; have := h.runTs (hex hne) t ht'; omega

/-- nothing pushed, nobody's pending targets changed, nobody invoked -/
theorem InvP.frame (h : InvP progs s) (hs : s'.scheduled = s.scheduled)
    (hcp : ∀ a, (clientPend s').count a = (clientPend s).count a) (hpp : pcPendS s'.st = pcPendS s.st)
    (hcbs : s'.cbs = s.cbs) (hl : s'.log = s.log) : InvP progs s' := by
  constructor
  · intro t; have := h.cntSched t
    simp only [pendAll, logTasks, List.count_append, hs, hcp, hpp, hcbs, hl] at this ⊢; exact this
  · intro t; rw [hs, hcp]; exact h.cntProg t

theorem InvP.sched_le (h : InvP progs s) (a : Task) : s.scheduled.count a ≤ 1 := by
  have := h.cntSched a; omega

theorem InvK.frame (h : InvK s) (hr : recs s' = recs s) (hf : s'.freed = s.freed)
    (hn : s'.nextRec = s.nextRec) : InvK s' := by
  constructor; intro id; rw [hr, hf, hn]; exact h.recCount id

def earlyPhase : CPc → Bool
  | .dStore | .dNotify | .dJoin => true
  | _ => false

/-- every later phase of the destroy callback comes after the join -/
theorem phaseOk_exited {pc : CPc} (h : phaseOk s pc) (he : earlyPhase pc = false) : s.st.pc = .exited := by
  cases pc with
  | dStore => simp [earlyPhase] at he
  | dNotify => simp [earlyPhase] at he
  | dJoin => simp [earlyPhase] at he
  | idle => exact h.2.1
  | dDrainQ => exact h.1.2
  | dDrainC => exact h.1.2
  | dCleanUp => exact h.1.2
  | dSweep => exact h.1.2
  | dFree => exact h.1.2
  | dcbLock op ret => cases ret <;> exact h.1.2
  | dcbBody op ret => cases ret <;> exact h.1.2
  | dcbUnlock ret => cases ret <;> exact h.1.2
  | dcbNotify ret => cases ret <;> exact h.1.2
  | sBody t τ => exact absurd h (by simp [phaseOk])
  | cBody t => exact absurd h (by simp [phaseOk])
  | unlock => exact absurd h (by simp [phaseOk])
  | notify => exact absurd h (by simp [phaseOk])

theorem phaseOk_early {pc : CPc} (he : earlyPhase pc = true) :
    phaseOk s pc = (s.released = false ∧ s.sweeping = false) := by
  cases pc <;> simp [earlyPhase] at he <;> rfl

/-- a scheduler-thread step touches none of the shutdown state except its own program counter -/
theorem InvR.frameSched (h : InvR s) (hne : s.st.pc ≠ .exited)
    (hc : s'.clients = s.clients) (hrc : s'.refCount = s.refCount) (hd : s'.destroyer = s.destroyer)
    (hrel : s'.released = s.released) (hse : s'.shouldExit = s.shouldExit)
    (hsw : s'.sweeping = s.sweeping) (hmis : s'.misuse = s.misuse)
    (hex : s'.st.pc = .exited → s.shouldExit = true)
    (hrun : runningPhase s'.st.pc = false → s.sweeping = false → s'.inner.running = []) : InvR s' := by
  refine ⟨?_, ?_, ?_, ?_, ?_, ?_, ?_, ?_, ?_, ?_, ?_⟩
  · rw [hrc, hc]; exact h.refSum
  · rw [hc]; exact h.cwf
  · rw [hc, hd]; exact h.dIn
  · rw [hd, hrc]; exact h.dRef
  · rw [hd, hc]; exact h.dBound
  · intro j c hdj hcj
    rw [hd] at hdj; rw [hc] at hcj
    have := h.dPhase j c hdj hcj
    cases he : earlyPhase c.pc with
    | false => exact absurd (phaseOk_exited this he) hne
    | true => rw [phaseOk_early he] at this ⊢; rw [hrel, hsw]; exact this
  · rw [hrel, hd]; exact h.relD
  · rw [hse, hd]; exact ⟨hex, h.exitFlag.2⟩
  · rw [hsw]; exact hrun
  · rw [hsw, hd]; exact h.sweepD
  · rw [hmis, hd]; exact h.misuseD

theorem InvR.runInv_same (h : InvR s) (hi : s'.inner.running = s.inner.running)
    (hph : runningPhase s'.st.pc = false → runningPhase s.st.pc = false) :
    runningPhase s'.st.pc = false → s.sweeping = false → s'.inner.running = [] := by
  intro h1 h2; rw [hi]; exact h.runInv (hph h1) h2

theorem InvM.frameSched (h : InvM s) (hclock : s.clock ≤ s'.clock) (hnow : s'.st.now ≤ s.st.now ∨ s'.st.now = s.clock)
    (hcl : s'.clients = s.clients) (hcpy : cpyOk s'.st)
    (hmS : s'.mutex = some 0 ↔ schedCS s'.st.pc = true)
    (hmO : ∀ k, k ≠ 0 → (s'.mutex = some k ↔ s.mutex = some k)) : InvM s' := by
  refine ⟨?_, hcpy, hmS, ?_, ?_⟩
  · have := h.nowLe; rcases hnow with h1 | h1 <;> omega
  · intro j c hj; rw [hcl] at hj; rw [hmO (j+1) (by omega)]; exact h.mutexC j c hj
  · intro k hk; rw [hcl]
    by_cases k0 : k = 0
    · omega
    · exact h.mutexB k ((hmO k k0).mp hk)

/-- `s_process_cancellation` on a state `s1` from which the record `r` has just been popped
(so a task that lives only in `r` is momentarily not in `places s1`) -/
theorem procRec_T (thr : Nat) (r : CRec) (s1 : Sys)
    (hcnt : ∀ a, (places s1).count a + (if r.removed = true ∧ r.task = a then 1 else 0) = s1.scheduled.count a)
    (hle : ∀ a, s1.scheduled.count a ≤ 1)
    (hfl : ∀ u, s1.inner.flag u = true ↔ u ∈ innerTasks s1)
    (hasap : ∀ t ∈ s1.inner.asap, s1.tsOf t = 0)
    (hlog : ∀ e ∈ s1.log, logOk s1 e)
    (hrun : s1.st.pc ≠ .exited → ∀ t ∈ s1.inner.running, s1.tsOf t ≤ s1.clock)
    (hthr : thr = 0 ∨ s1.destroyer = some thr) :
    InvT (procRec Cfg.fixed thr s1 r) := by
  unfold procRec
  by_cases hc : procGuard Cfg.fixed s1 r = true
  · rw [if_pos hc]
    simp [procGuard, Cfg.fixed] at hc
    have hin : (innerT s1.inner).count r.task ≤ 1 := by
      have := hcnt r.task; have := hle r.task
      simp only [places, innerTasks, innerT, List.count_append] at *; omega
    refine ⟨?_, ?_, ?_, ?_, ?_⟩
    · intro a
      have e1 := hcnt a; have e3 := hle a
      have e4 := count_cancel s1.inner r.task a
      simp only [places, handOver, recs, logTasks, innerTasks, innerT, List.count_append, List.map_append,
        List.map_cons, List.map_nil, List.count_cons, List.count_nil, beq_iff_eq] at e1 e4 ⊢
      by_cases hta : r.task = a
      · simp only [hta, if_true, and_true] at e1 e4 ⊢
        rcases hc with hc | hc
        · simp only [hc, if_true] at e1; omega
        · have := (hfl r.task).mp hc
          have := List.count_pos_iff.mpr this
          simp only [innerTasks, List.count_append, hta] at this
          split at e1 <;> omega
      · simp only [hta, if_false, and_false] at e1 e4 ⊢; omega
    · exact flagInv_cancel s1.inner r.task hfl hin
    · intro u hu; exact hasap u (asap_cancel s1.inner r.task u hu)
    · intro e he
      simp only [List.mem_append, List.mem_singleton] at he
      rcases he with he | he
      · exact hlog e he
      · subst he
        refine ⟨?_, by simp⟩
        rcases hthr with h0 | h0
        · exact Or.inl h0
        · exact Or.inr ⟨rfl, h0⟩
    · intro hne u hu; exact hrun hne u (running_cancel s1.inner r.task u hu)
  · rw [if_neg hc]
    simp [procGuard, Cfg.fixed] at hc
    refine ⟨?_, hfl, hasap, hlog, hrun⟩
    intro a
    have e1 := hcnt a
    simp only [hc.1, Bool.false_eq_true, false_and, if_false, Nat.add_zero] at e1
    exact e1

/-- the task `procRec` invokes was not invoked before -/
theorem procRec_fresh (r : CRec) (s1 : Sys)
    (hcnt : ∀ a, (places s1).count a + (if r.removed = true ∧ r.task = a then 1 else 0) = s1.scheduled.count a)
    (hle : ∀ a, s1.scheduled.count a ≤ 1)
    (hfl : ∀ u, s1.inner.flag u = true ↔ u ∈ innerTasks s1)
    (hg : procGuard Cfg.fixed s1 r = true) : r.task ∉ logTasks s1 := by
  intro hin
  have h1 := List.count_pos_iff.mpr hin
  have e1 := hcnt r.task; have e3 := hle r.task
  simp [procGuard, Cfg.fixed] at hg
  simp only [places, List.count_append, and_true] at e1
  rcases hg with hg | hg
  · simp only [hg, if_true] at e1; omega
  · have := List.count_pos_iff.mpr ((hfl r.task).mp hg)
    omega

/-! ### `procRec` touches only the inner scheduler, the log and the free list -/
section procRecFrame
variable (cfg : Cfg) (thr : Nat) (s : Sys) (r : CRec)
@[simp] theorem procRec_st : (procRec cfg thr s r).st = s.st := by unfold procRec; split <;> rfl
@[simp] theorem procRec_mutex : (procRec cfg thr s r).mutex = s.mutex := by unfold procRec; split <;> rfl
@[simp] theorem procRec_clients : (procRec cfg thr s r).clients = s.clients := by unfold procRec; split <;> rfl
@[simp] theorem procRec_refCount : (procRec cfg thr s r).refCount = s.refCount := by unfold procRec; split <;> rfl
@[simp] theorem procRec_destroyer : (procRec cfg thr s r).destroyer = s.destroyer := by unfold procRec; split <;> rfl
@[simp] theorem procRec_released : (procRec cfg thr s r).released = s.released := by unfold procRec; split <;> rfl
@[simp] theorem procRec_shouldExit : (procRec cfg thr s r).shouldExit = s.shouldExit := by unfold procRec; split <;> rfl
@[simp] theorem procRec_clock : (procRec cfg thr s r).clock = s.clock := by unfold procRec; split <;> rfl
@[simp] theorem procRec_schedQ : (procRec cfg thr s r).schedQ = s.schedQ := by unfold procRec; split <;> rfl
@[simp] theorem procRec_cancelQ : (procRec cfg thr s r).cancelQ = s.cancelQ := by unfold procRec; split <;> rfl
@[simp] theorem procRec_nextRec : (procRec cfg thr s r).nextRec = s.nextRec := by unfold procRec; split <;> rfl
@[simp] theorem procRec_scheduled : (procRec cfg thr s r).scheduled = s.scheduled := by unfold procRec; split <;> rfl
@[simp] theorem procRec_tsOf : (procRec cfg thr s r).tsOf = s.tsOf := by unfold procRec; split <;> rfl
@[simp] theorem procRec_cbs : (procRec cfg thr s r).cbs = s.cbs := by unfold procRec; split <;> rfl
@[simp] theorem procRec_sweeping : (procRec cfg thr s r).sweeping = s.sweeping := by unfold procRec; split <;> rfl
@[simp] theorem procRec_misuse : (procRec cfg thr s r).misuse = s.misuse := by unfold procRec; split <;> rfl
@[simp] theorem procRec_freed : (procRec cfg thr s r).freed = s.freed ++ [r.id] := by unfold procRec; split <;> rfl
theorem procRec_log : (procRec cfg thr s r).log =
    if procGuard cfg s r then s.log ++ [{ task := r.task, status := .canceled, thread := thr, time := s.clock }] else s.log := by
  unfold procRec; split <;> rfl
theorem procRec_running_sub (u : Task) (h : u ∈ (procRec cfg thr s r).inner.running) : u ∈ s.inner.running := by
  unfold procRec at h; split at h
  · exact running_cancel _ _ _ h
  · exact h
end procRecFrame

/-! ### the critical section of a task function's API call -/
section apiFrame
variable (s : Sys) (op : CbOp)
@[simp] theorem apiBody_st : (apiBody s op).st = s.st := by cases op <;> rfl
@[simp] theorem apiBody_mutex : (apiBody s op).mutex = s.mutex := by cases op <;> rfl
@[simp] theorem apiBody_clients : (apiBody s op).clients = s.clients := by cases op <;> rfl
@[simp] theorem apiBody_refCount : (apiBody s op).refCount = s.refCount := by cases op <;> rfl
@[simp] theorem apiBody_destroyer : (apiBody s op).destroyer = s.destroyer := by cases op <;> rfl
@[simp] theorem apiBody_released : (apiBody s op).released = s.released := by cases op <;> rfl
@[simp] theorem apiBody_shouldExit : (apiBody s op).shouldExit = s.shouldExit := by cases op <;> rfl
@[simp] theorem apiBody_clock : (apiBody s op).clock = s.clock := by cases op <;> rfl
@[simp] theorem apiBody_inner : (apiBody s op).inner = s.inner := by cases op <;> rfl
@[simp] theorem apiBody_log : (apiBody s op).log = s.log := by cases op <;> rfl
@[simp] theorem apiBody_freed : (apiBody s op).freed = s.freed := by cases op <;> rfl
@[simp] theorem apiBody_cbs : (apiBody s op).cbs = s.cbs := by cases op <;> rfl
@[simp] theorem apiBody_sweeping : (apiBody s op).sweeping = s.sweeping := by cases op <;> rfl
@[simp] theorem apiBody_misuse : (apiBody s op).misuse = s.misuse := by cases op <;> rfl
theorem apiBody_scheduled : (apiBody s op).scheduled = s.scheduled ++ op.target := by
  cases op <;> simp [apiBody, pushTask, pushCancel, CbOp.target]
end apiFrame

/-- pushing a task that is not scheduled yet: the hand-over queue gains it -/
theorem pushTask_T (h : InvT s) (t : Task) (τ : Nat) (ht0 : s.scheduled.count t = 0) : InvT (pushTask s t τ) := by
  have htp : (places s).count t = 0 := by rw [h.cntPlaces t]; exact ht0
  have hnot : ∀ l : List Task, (∀ a, l.count a ≤ (places s).count a) → t ∉ l := by
    intro l hl hin; have := List.count_pos_iff.mpr hin; have := hl t; omega
  have hnasap : t ∉ s.inner.asap := hnot _ (by intro a; simp only [places, innerTasks, List.count_append]; omega)
  have hnrun : t ∉ s.inner.running := hnot _ (by intro a; simp only [places, innerTasks, List.count_append]; omega)
  have hnlog : t ∉ logTasks s := hnot _ (by intro a; simp only [places, List.count_append]; omega)
  refine ⟨?_, h.flagInv, ?_, ?_, ?_⟩
  · intro a
    have := h.cntPlaces a
    simp only [pushTask, places, handOver, recs, logTasks, innerTasks, List.count_append, List.count_cons,
      List.count_nil] at this ⊢
    omega
  · intro u hu
    have hne : u ≠ t := fun e => hnasap (e ▸ hu)
    simp only [pushTask, hne, if_false]
    exact h.asapTs u hu
  · intro e he
    have := h.logInv e he
    have hne : e.task ≠ t := fun e' => hnlog (by rw [← e']; exact List.mem_map_of_mem he)
    unfold logOk at *
    simp only [pushTask, hne, if_false]
    exact this
  · intro hne u hu
    have hne' : u ≠ t := fun e => hnrun (e ▸ hu)
    simp only [pushTask, hne', if_false]
    exact h.runTs hne u hu

theorem pushCancel_T (h : InvT s) (t : Task) : InvT (pushCancel s t) := by
  refine ⟨?_, h.flagInv, h.asapTs, h.logInv, h.runTs⟩
  intro a
  have := h.cntPlaces a
  by_cases hf : t ∈ s.schedQ
  · have hpos := List.count_pos_iff.mpr hf
    simp only [pushCancel, places, handOver, recs, logTasks, innerTasks, hf, decide_true, if_true, remTasks_append,
      remTasks_cons, remTasks_nil, List.count_append, List.count_cons, List.count_nil, List.count_erase,
      beq_iff_eq] at this ⊢
    by_cases hta : t = a
    · subst hta; simp at this ⊢; omega
    · simp [hta] at this ⊢; omega
  · simp only [pushCancel, places, handOver, recs, logTasks, innerTasks, hf, decide_false, if_false, remTasks_append,
      remTasks_cons, remTasks_nil, List.count_append, List.count_cons, List.count_nil, Bool.false_eq_true] at this ⊢
    simp at this ⊢; omega

theorem pushCancel_K (h : InvK s) (t : Task) : InvK (pushCancel s t) := by
  constructor; intro id
  have := h.recCount id
  simp only [pushCancel, recs, List.map_append, List.map_cons, List.map_nil, List.count_append, List.count_cons,
    List.count_nil, beq_iff_eq] at this ⊢
  by_cases hid : s.nextRec = id
  · subst hid; simp at this ⊢; omega
  · simp only [hid, if_false] at this ⊢
    by_cases h1 : id < s.nextRec
    · have h2 : id < s.nextRec + 1 := by omega
      simp only [h1, h2, if_true] at this ⊢; omega
    · have h2 : ¬ id < s.nextRec + 1 := by omega
      simp only [h1, h2, if_false] at this ⊢; omega

/-- the API call of a task function whose target (if any) has not been pushed yet -/
theorem apiBody_T (h : InvT s) (op : CbOp) (h0 : ∀ t ∈ op.target, s.scheduled.count t = 0) : InvT (apiBody s op) := by
  cases op with
  | none => exact h
  | scheduleNow t => exact pushTask_T h t 0 (h0 t (by simp [CbOp.target]))
  | scheduleFuture t τ => exact pushTask_T h t τ (h0 t (by simp [CbOp.target]))
  | cancel t => exact pushCancel_T h t

theorem apiBody_K (h : InvK s) (op : CbOp) : InvK (apiBody s op) := by
  cases op with
  | none => exact h
  | scheduleNow t => exact h.frame rfl rfl rfl
  | scheduleFuture t τ => exact h.frame rfl rfl rfl
  | cancel t => exact pushCancel_K h t

/-- a task function fires: its task enters the log, its target moves to the invoking thread -/
theorem InvP.invoke (h : InvP progs s) (u : Task) (st : Status) (hs : s'.scheduled = s.scheduled)
    (hcbs : s'.cbs = s.cbs) (hl : logTasks s' = logTasks s ++ [u]) (hu : u ∉ logTasks s)
    (hpend : ∀ a, (clientPend s').count a + (pcPendS s'.st).count a
      = (clientPend s).count a + (pcPendS s.st).count a + (s.cbs.get u st).target.count a)
    (hcp : ∀ a, (clientPend s).count a ≤ (clientPend s').count a) : InvP progs s' := by
  constructor
  · intro t
    have h1 := h.cntSched t
    have h2 := cbPend_invoke s.cbs (logTasks s) u st t hu
    have h3 := hpend t
    simp only [pendAll, List.count_append, hs, hcbs, hl] at h1 ⊢
    omega
  · intro t; have := h.cntProg t; have := hcp t; rw [hs]; omega

/-- a pending target is pushed -/
theorem InvP.push (h : InvP progs s) (tg : List Task) (hs : s'.scheduled = s.scheduled ++ tg)
    (hcbs : s'.cbs = s.cbs) (hl : s'.log = s.log)
    (hpend : ∀ a, (clientPend s').count a + (pcPendS s'.st).count a + tg.count a
      = (clientPend s).count a + (pcPendS s.st).count a)
    (hprog : ∀ a, (clientPend s).count a ≤ (clientPend s').count a + tg.count a) : InvP progs s' := by
  constructor
  · intro t
    have h1 := h.cntSched t
    have h3 := hpend t
    simp only [pendAll, logTasks, List.count_append, hs, hcbs, hl] at h1 ⊢
    omega
  · intro t; have := h.cntProg t; have := hprog t; rw [hs, List.count_append]; omega

/-- a scheduler-thread step that only changes its own control state (and possibly the mutex) -/
theorem inv_sched_stmove (h : Inv progs s) (hne : s.st.pc ≠ .exited) (st' : SThread) (mx' : Option Nat)
    (hlc : st'.listCpy = s.st.listCpy) (hcc : st'.cancelCpy = s.st.cancelCpy)
    (hnow : st'.now ≤ s.st.now ∨ st'.now = s.clock)
    (hpp : pcPendS st' = pcPendS s.st)
    (hcpy : cpyOk st')
    (hmS : mx' = some 0 ↔ schedCS st'.pc = true)
    (hmO : ∀ k, k ≠ 0 → (mx' = some k ↔ s.mutex = some k))
    (hex : st'.pc = .exited → s.shouldExit = true)
    (hrun : runningPhase st'.pc = false → s.sweeping = false → s.inner.running = []) :
    Inv progs { s with mutex := mx', st := st' } := by
  refine ⟨h.t.frame ?_ rfl rfl rfl rfl rfl (Nat.le_refl _) (fun _ => hne), h.p.frame rfl (fun _ => rfl) hpp rfl rfl,
    ?_, ?_, h.k.frame ?_ rfl rfl⟩
  · simp [places, handOver, recs, innerTasks, logTasks, hlc, hcc]
  · exact h.m.frameSched (Nat.le_refl _) hnow rfl hcpy hmS hmO
  · exact h.r.frameSched hne rfl rfl rfl rfl rfl rfl rfl hex hrun
  · simp [recs, hcc]

theorem pcPendS_afterInvoke (st : SThread) (op : CbOp) (ret : SRet) :
    pcPendS { st with pc := afterInvokeS op ret } = op.target := by
  cases op <;> cases ret <;> rfl

theorem cpyOk_afterInvoke_cancels (st : SThread) (op : CbOp) (h : st.listCpy = []) :
    cpyOk { st with pc := afterInvokeS op .cancels } := by
  cases op <;> simp [cpyOk, afterInvokeS, SRet.pc, cancelsPhase, h]

theorem cpyOk_afterInvoke_running (st : SThread) (op : CbOp) (h : st.listCpy = []) (h2 : st.cancelCpy = []) :
    cpyOk { st with pc := afterInvokeS op .running } := by
  cases op <;> simp [cpyOk, afterInvokeS, SRet.pc, cancelsPhase, h, h2]

theorem schedCS_afterInvoke (op : CbOp) (ret : SRet) : schedCS (afterInvokeS op ret) = false := by
  cases op <;> cases ret <;> rfl

theorem afterInvoke_ne_exited (op : CbOp) (ret : SRet) : afterInvokeS op ret ≠ .exited := by
  cases op <;> cases ret <;> simp [afterInvokeS, SRet.pc]

theorem runningPhase_afterInvoke_cancels (op : CbOp) : runningPhase (afterInvokeS op .cancels) = false := by
  cases op <;> rfl

theorem runningPhase_afterInvoke_running (op : CbOp) : runningPhase (afterInvokeS op .running) = true := by
  cases op <;> rfl

theorem inv_stepSched (h : Inv progs s) (hs : stepSched Cfg.fixed s = some s') : Inv progs s' := by
  have hne : s.st.pc ≠ .exited := by intro e; simp [stepSched, e] at hs
  have hm := h.m
  have hcpy := hm.cpy
  have hmS := hm.mutexS
  have hT := h.t
  have hP := h.p
  -- the running list is empty whenever the thread is outside `s_run_all`
  have hrun0 : runningPhase s.st.pc = false → ∀ pc' : SPc, runningPhase pc' = false → s.sweeping = false →
      s.inner.running = [] := fun h0 _ _ hsw => h.r.runInv h0 hsw
  cases hpc : s.st.pc with
  | loadExit =>
    simp only [stepSched, hpc] at hs; injection hs with hs; subst hs
    refine inv_sched_stmove h hne _ s.mutex ?_ ?_ ?_ ?_ ?_ ?_ ?_ ?_ ?_
    · rfl
    · rfl
    · exact Or.inl (Nat.le_refl _)
    · cases hse : s.shouldExit <;> simp [pcPendS, hpc]
    · cases hse : s.shouldExit <;> simp [cpyOk, cancelsPhase, hpc] at hcpy ⊢ <;> (try simp [hcpy])
    · cases hse : s.shouldExit <;> simp [hpc, schedCS] at hmS ⊢ <;> (try simp [hmS])
    · exact fun _ _ => Iff.rfl
    · cases hse : s.shouldExit <;> simp
    · exact hrun0 (by simp [hpc, runningPhase]) _
  | lock1 =>
    simp only [stepSched, hpc] at hs
    split at hs
    · rename_i hmx
      injection hs with hs; subst hs
      refine inv_sched_stmove h hne _ (some 0) ?_ ?_ ?_ ?_ ?_ ?_ ?_ ?_ ?_
      · rfl
      · rfl
      · exact Or.inl (Nat.le_refl _)
      · simp [pcPendS, hpc]
      · simp [cpyOk, cancelsPhase, hpc] at hcpy ⊢ <;> (try simp [hcpy])
      · simp [schedCS]
      · intro k hk; simp [hmx]; omega
      · simp
      · exact hrun0 (by simp [hpc, runningPhase]) _
    · cases hs
  | swap =>
    simp only [stepSched, hpc] at hs; injection hs with hs; subst hs
    simp [cpyOk, cancelsPhase, hpc] at hcpy
    refine ⟨h.t.frame ?_ rfl rfl rfl rfl rfl (Nat.le_refl _) (fun _ => hne),
      h.p.frame rfl (fun _ => rfl) (by simp [pcPendS, hpc]) rfl rfl, ?_, ?_, h.k.frame ?_ rfl rfl⟩
    · simp [places, handOver, recs, innerTasks, logTasks, hcpy.1, hcpy.2]
    · refine hm.frameSched (Nat.le_refl _) (Or.inl (Nat.le_refl _)) rfl ?_ ?_ (fun _ _ => Iff.rfl)
      · simp [cpyOk]
      · simp [hpc, schedCS] at hmS ⊢; exact hmS
    · exact h.r.frameSched hne rfl rfl rfl rfl rfl rfl rfl (by simp)
        (fun _ hsw => h.r.runInv (by simp [hpc, runningPhase]) hsw)
    · simp [recs, hcpy.2]
  | unlock1 =>
    simp only [stepSched, hpc] at hs; injection hs with hs; subst hs
    exact inv_sched_stmove h hne _ none (by rfl) (by rfl) (by exact Or.inl (Nat.le_refl _)) (by simp [pcPendS, hpc])
      (by simp [cpyOk, cancelsPhase]) (by simp [schedCS])
      (by intro k hk; simp [hpc, schedCS] at hmS; simp [hmS]; omega) (by simp)
      (hrun0 (by simp [hpc, runningPhase]) _)
  | feed =>
    simp only [stepSched, hpc] at hs
    split at hs
    · rename_i hl
      injection hs with hs; subst hs
      exact inv_sched_stmove h hne _ s.mutex (by rfl) (by rfl) (by exact Or.inl (Nat.le_refl _)) (by simp [pcPendS, hpc])
        (by simp [cpyOk, cancelsPhase, hl]) (by simp [hpc, schedCS] at hmS ⊢; exact hmS)
        (fun _ _ => Iff.rfl) (by simp) (hrun0 (by simp [hpc, runningPhase]) _)
    · rename_i t r hl
      injection hs with hs; subst hs
      refine ⟨?_, h.p.frame rfl (fun _ => rfl) (by simp [pcPendS, hpc]) rfl rfl, ?_, ?_, h.k.frame rfl rfl rfl⟩
      · refine ⟨?_, ?_, ?_, hT.logInv, ?_⟩
        · intro a
          have := hT.cntPlaces a
          have hc := count_schedule s.inner s.tsOf t a
          simp only [places, handOver, recs, logTasks, innerTasks, innerT, hl, List.count_append, List.count_cons,
            beq_iff_eq] at this hc ⊢
          omega
        · exact flagInv_schedule s.inner s.tsOf t hT.flagInv
        · intro u hu
          rcases asap_schedule s.inner s.tsOf t u hu with h1 | ⟨h1, h2⟩
          · exact hT.asapTs u h1
          · subst h1; exact h2
        · intro hne' u hu
          rw [running_schedule] at hu
          exact hT.runTs hne u hu
      · refine hm.frameSched (Nat.le_refl _) (Or.inl (Nat.le_refl _)) rfl ?_ ?_ (fun _ _ => Iff.rfl)
        · simp [cpyOk, cancelsPhase, hpc] at hcpy ⊢
        · simp [hpc, schedCS] at hmS ⊢; exact hmS
      · exact h.r.frameSched hne rfl rfl rfl rfl rfl rfl rfl (by simp [hpc])
          (fun _ hsw => by rw [running_schedule]; exact h.r.runInv (by simp [hpc, runningPhase]) hsw)
  | cancels =>
    simp only [stepSched, hpc] at hs
    split at hs
    · rename_i hl
      injection hs with hs; subst hs
      exact inv_sched_stmove h hne _ s.mutex (by rfl) (by rfl) (by exact Or.inl (Nat.le_refl _)) (by simp [pcPendS, hpc])
        (by simp [cpyOk, cancelsPhase, hpc] at hcpy ⊢; simp [hl, hcpy])
        (by simp [hpc, schedCS] at hmS ⊢; exact hmS)
        (fun _ _ => Iff.rfl) (by simp) (hrun0 (by simp [hpc, runningPhase]) _)
    · rename_i r rest hl
      injection hs with hs; subst hs
      simp [cpyOk, cancelsPhase, hpc] at hcpy
      have hcnt : ∀ a, (places { s with st := { s.st with pc := SPc.cancels, cancelCpy := rest } }).count a +
          (if r.removed = true ∧ r.task = a then 1 else 0) = s.scheduled.count a := by
        intro a
        have := hT.cntPlaces a
        simp only [places, handOver, recs, logTasks, innerTasks, hl, remTasks_append, remTasks_cons,
          List.count_append] at this ⊢
        cases hr : r.removed <;> simp [hr, List.count_cons] at this ⊢ <;> omega
      have hTp := procRec_T 0 r { s with st := { s.st with pc := SPc.cancels, cancelCpy := rest } } hcnt hP.sched_le hT.flagInv
        hT.asapTs hT.logInv (fun _ => hT.runTs hne) (Or.inl rfl)
      refine ⟨?_, ?_, ?_, ?_, ?_⟩
      · exact hTp.frame rfl (by simp) (by simp) (by simp) (by simp) (by simp) (by simp) (fun _ => by simp)
      · by_cases hg : procGuard Cfg.fixed s r = true
        · have hfresh := procRec_fresh r { s with st := { s.st with pc := SPc.cancels, cancelCpy := rest } } hcnt hP.sched_le hT.flagInv hg
          refine hP.invoke r.task .canceled (by simp) (by simp) ?_ hfresh ?_ (fun _ => by simp [clientPend])
          · have hg' : procGuard Cfg.fixed { s with st := { s.st with pc := SPc.cancels, cancelCpy := rest } } r = true := hg
            simp [logTasks, procRec_log, hg']
          · intro a
            simp only [hg, if_true, pcPendS_afterInvoke, clientPend, procRec_clients]
            simp [pcPendS, hpc]
        · have hg' : procGuard Cfg.fixed { s with st := { s.st with pc := SPc.cancels, cancelCpy := rest } } r = false := by
            have : procGuard Cfg.fixed s r = false := by simpa using hg
            exact this
          refine hP.frame (by simp) (fun _ => by simp [clientPend]) ?_ (by simp) ?_
          · simp only [hg, pcPendS_afterInvoke]; simp [pcPendS, hpc, CbOp.target]
          · simp [procRec_log, hg']
      · refine hm.frameSched (by simp) (Or.inl (by simp)) (by simp) ?_ ?_ (by simp)
        · exact cpyOk_afterInvoke_cancels _ _ (by simpa using hcpy)
        · simp [hpc, schedCS] at hmS; simp [schedCS_afterInvoke, hmS]
      · refine h.r.frameSched hne (by simp) (by simp) (by simp) (by simp) (by simp) (by simp) (by simp)
          (fun e => absurd e (afterInvoke_ne_exited _ _)) ?_
        intro _ hsw
        have := h.r.runInv (by simp [hpc, runningPhase]) hsw
        apply List.eq_nil_iff_forall_not_mem.mpr
        intro u hu
        have := procRec_running_sub _ _ _ _ u hu
        simp_all
      · constructor; intro id
        have := h.k.recCount id
        simp only [recs, hl, procRec_freed, procRec_cancelQ, procRec_st, procRec_nextRec, List.map_append,
          List.map_cons, List.count_append, List.count_cons, List.count_nil] at this ⊢
        omega
  | readClock =>
    simp only [stepSched, hpc] at hs; injection hs with hs; subst hs
    exact inv_sched_stmove h hne _ s.mutex (by rfl) (by rfl) (by exact Or.inr rfl) (by simp [pcPendS, hpc])
      (by simp [cpyOk, cancelsPhase, hpc] at hcpy ⊢; simp [hcpy]) (by simp [hpc, schedCS] at hmS ⊢; exact hmS)
      (fun _ _ => Iff.rfl) (by simp) (hrun0 (by simp [hpc, runningPhase]) _)
  | runAll =>
    simp only [stepSched, hpc] at hs; injection hs with hs; subst hs
    refine ⟨?_, h.p.frame rfl (fun _ => rfl) (by simp [pcPendS, hpc]) rfl rfl, ?_, ?_, h.k.frame rfl rfl rfl⟩
    · refine ⟨?_, ?_, ?_, hT.logInv, ?_⟩
      · intro a
        have := hT.cntPlaces a
        have hc := count_sweepDue s.inner s.tsOf s.st.now a
        simp only [places, handOver, recs, logTasks, innerTasks, innerT, List.count_append] at this hc ⊢
        omega
      · exact flagInv_of_count hT.flagInv rfl (count_sweepDue s.inner s.tsOf s.st.now)
      · intro u hu; simp [Inner.sweepDue] at hu
      · intro _ u hu
        have hnow := hm.nowLe
        rcases mem_sweepDue_running _ _ _ _ hu with h1 | h1 | ⟨_, h2⟩
        · exact hT.runTs hne u h1
        · have := hT.asapTs u h1; simp only at this ⊢; omega
        · simp only at h2 ⊢; omega
    · refine hm.frameSched (Nat.le_refl _) (Or.inl (Nat.le_refl _)) rfl ?_ ?_ (fun _ _ => Iff.rfl)
      · simp [cpyOk, cancelsPhase, hpc] at hcpy ⊢; simp [hcpy]
      · simp [hpc, schedCS] at hmS ⊢; exact hmS
    · exact h.r.frameSched hne rfl rfl rfl rfl rfl rfl rfl (by simp) (by simp [runningPhase])
  | running =>
    simp only [stepSched, hpc] at hs
    split at hs
    · rename_i hpop
      injection hs with hs; subst hs
      exact inv_sched_stmove h hne _ s.mutex (by rfl) (by rfl) (by exact Or.inl (Nat.le_refl _)) (by simp [pcPendS, hpc])
        (by simp [cpyOk, cancelsPhase, hpc] at hcpy ⊢; simp [hcpy]) (by simp [hpc, schedCS] at hmS ⊢; exact hmS)
        (fun _ _ => Iff.rfl) (by simp) (fun _ _ => popRunning_none hpop)
    · rename_i t I hpop
      injection hs with hs; subst hs
      simp [cpyOk, cancelsPhase, hpc] at hcpy
      obtain ⟨r, hr, hI⟩ := popRunning_eq hpop
      have hin : (innerT s.inner).count t ≤ 1 := by
        have := hT.cntPlaces t; have := hP.sched_le t
        simp only [places, innerTasks, innerT, List.count_append] at *; omega
      have hpos : 0 < s.inner.running.count t := by rw [hr]; simp
      have hfresh : t ∉ logTasks s := by
        intro hin'
        have h1 := List.count_pos_iff.mpr hin'
        have := hT.cntPlaces t; have := hP.sched_le t
        simp only [places, innerTasks, List.count_append] at *; omega
      refine ⟨?_, ?_, ?_, ?_, h.k.frame rfl rfl rfl⟩
      · refine ⟨?_, ?_, ?_, ?_, ?_⟩
        · intro a
          have := hT.cntPlaces a
          have hc := count_popRunning hpop a
          simp only [places, handOver, recs, logTasks, innerTasks, innerT, List.count_append, List.map_append,
            List.map_cons, List.map_nil, List.count_cons, List.count_nil, beq_iff_eq] at this hc ⊢
          omega
        · exact flagInv_popRunning hpop hT.flagInv hin
        · intro u hu; subst hI; exact hT.asapTs u hu
        · intro e he
          simp only [List.mem_append, List.mem_singleton] at he
          rcases he with he | he
          · exact hT.logInv e he
          · subst he
            refine ⟨Or.inl rfl, fun _ => ⟨rfl, ?_⟩⟩
            exact hT.runTs hne t (by rw [hr]; simp)
        · intro _ u hu
          subst hI
          exact hT.runTs hne u (by rw [hr]; exact List.mem_cons_of_mem _ hu)
      · refine hP.invoke t .run rfl rfl (by simp [logTasks]) hfresh ?_ (fun _ => Nat.le_refl _)
        intro a
        simp only [pcPendS_afterInvoke]
        simp [pcPendS, hpc, clientPend]
      · refine hm.frameSched (Nat.le_refl _) (Or.inl (Nat.le_refl _)) rfl ?_ ?_ (fun _ _ => Iff.rfl)
        · exact cpyOk_afterInvoke_running _ _ hcpy.1 hcpy.2
        · simp [hpc, schedCS] at hmS; simp [schedCS_afterInvoke, hmS]
      · exact h.r.frameSched hne rfl rfl rfl rfl rfl rfl rfl (fun e => absurd e (afterInvoke_ne_exited _ _))
          (by simp [runningPhase_afterInvoke_running])
  | cbLock op ret =>
    simp only [stepSched, hpc] at hs
    split at hs
    · rename_i hmx
      injection hs with hs; subst hs
      exact inv_sched_stmove h hne _ (some 0) (by rfl) (by rfl) (by exact Or.inl (Nat.le_refl _)) (by simp [pcPendS, hpc])
        (by cases ret <;> simp [cpyOk, cancelsPhase, hpc] at hcpy ⊢ <;> (try simp [hcpy]))
        (by simp [schedCS]) (by intro k hk; simp [hmx]; omega) (by simp)
        (fun h1 hsw => h.r.runInv (by cases ret <;> simp [runningPhase, hpc] at h1 ⊢) hsw)
    · cases hs
  | cbBody op ret =>
    simp only [stepSched, hpc] at hs; injection hs with hs; subst hs
    have h0 : ∀ t ∈ op.target, s.scheduled.count t = 0 := by
      intro t ht
      have := hP.cntSched t
      have hp1 : 0 < (pcPendS s.st).count t := by simp [pcPendS, hpc]; exact ht
      simp only [pendAll, List.count_append] at this; omega
    refine ⟨?_, ?_, ?_, ?_, ?_⟩
    · exact (apiBody_T hT op h0).frame rfl rfl (by simp) rfl rfl rfl (Nat.le_refl _) (fun _ => by simpa using hne)
    · refine hP.push op.target (by simp [apiBody_scheduled]) (by simp) (by simp) ?_ (fun _ => by simp [clientPend])
      intro a; simp [pcPendS, hpc, clientPend]
    · refine hm.frameSched (by simp) (Or.inl (by simp)) (by simp) ?_ ?_ (by simp)
      · cases ret <;> simp [cpyOk, cancelsPhase, hpc] at hcpy ⊢ <;> (try simp [hcpy])
      · simp [hpc, schedCS] at hmS; simp [schedCS, hmS]
    · exact h.r.frameSched hne (by simp) (by simp) (by simp) (by simp) (by simp) (by simp) (by simp) (by simp)
        (fun h1 hsw => by simp only [apiBody_inner]; exact h.r.runInv (by cases ret <;> simp [runningPhase, hpc] at h1 ⊢) hsw)
    · have := apiBody_K h.k op
      exact this.frame (by simp [recs]) (by simp) rfl
  | cbUnlock ret =>
    simp only [stepSched, hpc] at hs; injection hs with hs; subst hs
    exact inv_sched_stmove h hne _ none (by rfl) (by rfl) (by exact Or.inl (Nat.le_refl _)) (by simp [pcPendS, hpc])
      (by cases ret <;> simp [cpyOk, cancelsPhase, hpc] at hcpy ⊢ <;> (try simp [hcpy]))
      (by simp [schedCS]) (by intro k hk; simp [hpc, schedCS] at hmS; simp [hmS]; omega) (by simp)
      (fun h1 hsw => h.r.runInv (by cases ret <;> simp [runningPhase, hpc] at h1 ⊢) hsw)
  | cbNotify ret =>
    simp only [stepSched, hpc] at hs; injection hs with hs; subst hs
    exact inv_sched_stmove h hne _ s.mutex (by rfl) (by rfl) (by exact Or.inl (Nat.le_refl _))
      (by cases ret <;> simp [pcPendS, hpc, SRet.pc])
      (by cases ret <;> simp [cpyOk, cancelsPhase, hpc, SRet.pc] at hcpy ⊢ <;> (try simp [hcpy]))
      (by cases ret <;> simp [hpc, schedCS, SRet.pc] at hmS ⊢ <;> exact hmS) (fun _ _ => Iff.rfl)
      (by cases ret <;> simp [SRet.pc])
      (fun h1 hsw => h.r.runInv (by cases ret <;> simp [runningPhase, hpc, SRet.pc] at h1 ⊢) hsw)
  | timeout =>
    simp only [stepSched, hpc] at hs; injection hs with hs; subst hs
    refine inv_sched_stmove h hne _ s.mutex (by rfl) (by rfl) (by exact Or.inl (Nat.le_refl _)) ?_ ?_ ?_
      (fun _ _ => Iff.rfl) ?_ (hrun0 (by simp [hpc, runningPhase]) _)
    · cases hse : timeoutPos (s.inner.next s.tsOf) s.st.now <;> simp [pcPendS, hpc]
    · cases hse : timeoutPos (s.inner.next s.tsOf) s.st.now <;> simp [cpyOk, cancelsPhase, hpc] at hcpy ⊢ <;> (try simp [hcpy])
    · cases hse : timeoutPos (s.inner.next s.tsOf) s.st.now <;> simp [hpc, schedCS] at hmS ⊢ <;> (try simp [hmS])
    · cases hse : timeoutPos (s.inner.next s.tsOf) s.st.now <;> simp
  | lock2 =>
    simp only [stepSched, hpc] at hs
    split at hs
    · rename_i hmx
      injection hs with hs; subst hs
      exact inv_sched_stmove h hne _ (some 0) (by rfl) (by rfl) (by exact Or.inl (Nat.le_refl _)) (by simp [pcPendS, hpc])
        (by simp [cpyOk, cancelsPhase, hpc] at hcpy ⊢; simp [hcpy])
        (by simp [schedCS]) (by intro k hk; simp [hmx]; omega) (by simp) (hrun0 (by simp [hpc, runningPhase]) _)
    · cases hs
  | predClock =>
    simp only [stepSched, hpc] at hs; injection hs with hs; subst hs
    exact inv_sched_stmove h hne _ s.mutex (by rfl) (by rfl) (by exact Or.inl (Nat.le_refl _)) (by simp [pcPendS, hpc])
      (by simp [cpyOk, cancelsPhase, hpc] at hcpy ⊢; simp [hcpy]) (by simp [hpc, schedCS] at hmS ⊢; exact hmS)
      (fun _ _ => Iff.rfl) (by simp) (hrun0 (by simp [hpc, runningPhase]) _)
  | predLoad =>
    simp only [stepSched, hpc] at hs; injection hs with hs; subst hs
    generalize (s.shouldExit || !s.schedQ.isEmpty || !s.cancelQ.isEmpty || decide (s.inner.next s.tsOf ≤ s.st.pnow)) = r
    exact inv_sched_stmove h hne _ s.mutex (by rfl) (by rfl) (by exact Or.inl (Nat.le_refl _))
      (by cases r <;> simp [pcPendS, hpc])
      (by cases r <;> simp [cpyOk, cancelsPhase, hpc] at hcpy ⊢ <;> (try simp [hcpy]))
      (by cases r <;> simp [hpc, schedCS] at hmS ⊢ <;> (try simp [hmS]))
      (fun _ _ => Iff.rfl) (by cases r <;> simp) (hrun0 (by simp [hpc, runningPhase]) _)
  | wait =>
    simp only [stepSched, hpc] at hs; injection hs with hs; subst hs
    exact inv_sched_stmove h hne _ none (by rfl) (by rfl) (by exact Or.inl (Nat.le_refl _)) (by simp [pcPendS, hpc])
      (by simp [cpyOk, cancelsPhase, hpc] at hcpy ⊢; simp [hcpy]) (by simp [schedCS])
      (by intro k hk; simp [hpc, schedCS] at hmS; simp [hmS]; omega) (by simp) (hrun0 (by simp [hpc, runningPhase]) _)
  | blocked =>
    simp only [stepSched, hpc] at hs; injection hs with hs; subst hs
    exact inv_sched_stmove h hne _ s.mutex (by rfl) (by rfl) (by exact Or.inl (Nat.le_refl _)) (by simp [pcPendS, hpc])
      (by simp [cpyOk, cancelsPhase, hpc] at hcpy ⊢; simp [hcpy]) (by simp [hpc, schedCS] at hmS ⊢; exact hmS)
      (fun _ _ => Iff.rfl) (by simp) (hrun0 (by simp [hpc, runningPhase]) _)
  | reacq b =>
    simp only [stepSched, hpc] at hs
    split at hs
    · rename_i hmx
      injection hs with hs; subst hs
      exact inv_sched_stmove h hne _ (some 0) (by rfl) (by rfl) (by exact Or.inl (Nat.le_refl _))
        (by cases b <;> simp [pcPendS, hpc])
        (by cases b <;> simp [cpyOk, cancelsPhase, hpc] at hcpy ⊢ <;> (try simp [hcpy]))
        (by cases b <;> simp [schedCS]) (by intro k hk; simp [hmx]; omega) (by cases b <;> simp)
        (hrun0 (by simp [hpc, runningPhase]) _)
    · cases hs
  | unlock2 =>
    simp only [stepSched, hpc] at hs; injection hs with hs; subst hs
    exact inv_sched_stmove h hne _ none (by rfl) (by rfl) (by exact Or.inl (Nat.le_refl _)) (by simp [pcPendS, hpc])
      (by simp [cpyOk, cancelsPhase, hpc] at hcpy ⊢; simp [hcpy]) (by simp [schedCS])
      (by intro k hk; simp [hpc, schedCS] at hmS; simp [hmS]; omega) (by simp) (hrun0 (by simp [hpc, runningPhase]) _)
  | exited => exact absurd hpc hne

theorem inv_stepSpurious (h : Inv progs s) (hs : stepSpurious s = some s') : Inv progs s' := by
  unfold stepSpurious at hs
  split at hs
  · rename_i hpc
    injection hs with hs; subst hs
    have hcpy := h.m.cpy
    have hmS := h.m.mutexS
    have hne : s.st.pc ≠ .exited := by rw [hpc]; simp
    exact inv_sched_stmove h hne _ s.mutex (by rfl) (by rfl) (by exact Or.inl (Nat.le_refl _)) (by simp [pcPendS, hpc])
      (by simp [cpyOk, cancelsPhase, hpc] at hcpy ⊢; simp [hcpy]) (by simp [hpc, schedCS] at hmS ⊢; exact hmS)
      (fun _ _ => Iff.rfl) (by simp) (fun _ hsw => h.r.runInv (by simp [hpc, runningPhase]) hsw)
  · cases hs

theorem InvR.frameEq (h : InvR s)
    (hc : s'.clients = s.clients) (hrc : s'.refCount = s.refCount) (hd : s'.destroyer = s.destroyer)
    (hrel : s'.released = s.released) (hse : s'.shouldExit = s.shouldExit) (hpc : s'.st.pc = s.st.pc)
    (hq : s'.schedQ = s.schedQ) (hcq : s'.cancelQ = s.cancelQ) (hi : s'.inner = s.inner)
    (hsw : s'.sweeping = s.sweeping) (hmis : s'.misuse = s.misuse) : InvR s' := by
  refine ⟨?_, ?_, ?_, ?_, ?_, ?_, ?_, ?_, ?_, ?_, ?_⟩
  · rw [hrc, hc]; exact h.refSum
  · rw [hc]; exact h.cwf
  · rw [hc, hd]; exact h.dIn
  · rw [hd, hrc]; exact h.dRef
  · rw [hd, hc]; exact h.dBound
  · intro j c hdj hcj
    rw [hd] at hdj; rw [hc] at hcj
    have := h.dPhase j c hdj hcj
    have e : phaseOk s' c.pc = phaseOk s c.pc := by
      cases c.pc <;> simp only [phaseOk, joined, qEmpty, iEmpty, hrel, hpc, hq, hcq, hi, hsw, hmis]
    rw [e]; exact this
  · rw [hrel, hd]; exact h.relD
  · rw [hse, hd, hpc]; exact h.exitFlag
  · rw [hpc, hsw, hi]; exact h.runInv
  · rw [hsw, hd]; exact h.sweepD
  · rw [hmis, hd]; exact h.misuseD

theorem inv_tick (h : Inv progs s) (d : Nat) : Inv progs { s with clock := s.clock + d } := by
  refine ⟨h.t.frame rfl rfl rfl rfl rfl rfl (Nat.le_add_right _ _) (fun e => e),
    h.p.frame rfl (fun _ => rfl) rfl rfl rfl, ?_,
    h.r.frameEq rfl rfl rfl rfl rfl rfl rfl rfl rfl rfl rfl, h.k.frame rfl rfl rfl⟩
  have hm := h.m
  exact ⟨by have := hm.nowLe; simp only; omega, hm.cpy, hm.mutexS, hm.mutexC, hm.mutexB⟩

end AwsVerif.Proofs.C08
