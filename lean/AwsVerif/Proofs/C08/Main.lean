import AwsVerif.Proofs.C08.StepClient
/-! The invariant holds in every reachable state; consequences used by `Props/C08.lean`. -/
set_option linter.unusedSimpArgs false
set_option linter.unusedVariables false
namespace AwsVerif.Proofs.C08
open AwsVerif.ThreadSched

variable {progs : List (List Op)} {cbs : Cbs} {s s' : Sys}

theorem inv_step (h : Inv progs s) (a : Act) (hs : step Cfg.fixed s a = some s') : Inv progs s' := by
  cases a with
  | tick d => simp only [step] at hs; injection hs with hs; subst hs; exact inv_tick h d
  | sched => exact inv_stepSched h hs
  | spurious => exact inv_stepSpurious h hs
  | client i => exact inv_stepClient h hs

theorem sum_held_init (progs : List (List Op)) :
    ((progs.map (fun p => ({ prog := p, pc := .idle, held := 1 } : Client))).map (·.held)).sum = progs.length := by
  induction progs with
  | nil => rfl
  | cons p ps ih => simp only [List.map_cons, List.sum_cons, List.length_cons, ih]; omega

theorem init_client {progs : List (List Op)} {cbs : Cbs} {j : Nat} {c : Client}
    (h : (init progs cbs).clients[j]? = some c) : ∃ p ∈ progs, c = { prog := p, pc := .idle, held := 1 } := by
  simp only [init, List.getElem?_map, Option.map_eq_some_iff] at h
  obtain ⟨p, hp, e⟩ := h
  exact ⟨p, List.mem_of_getElem? hp, e.symm⟩

theorem clientPend_init (progs : List (List Op)) (cbs : Cbs) : clientPend (init progs cbs) = allTasks progs := by
  simp [clientPend, init, allTasks, List.flatMap_map, pend, Function.comp_def]

theorem inv_init (hwf : WF progs cbs) : Inv progs (init progs cbs) := by
  have hnd := List.nodup_iff_count.mp hwf.2
  refine ⟨⟨?_, ?_, ?_, ?_, ?_⟩, ⟨?_, ?_⟩, ⟨?_, ?_, ?_, ?_, ?_⟩, ⟨?_, ?_, ?_, ?_, ?_, ?_, ?_, ?_, ?_, ?_, ?_⟩, ⟨?_⟩⟩
  · intro t; simp [places, handOver, recs, remTasks, innerTasks, logTasks, init, Inner.empty, SThread.init]
  · intro t; simp [init, Inner.empty, innerTasks]
  · intro t ht; simp [init, Inner.empty] at ht
  · intro e he; simp [init] at he
  · intro _ t ht; simp [init, Inner.empty] at ht
  · intro t
    have := hnd t
    have e1 : (pendAll (init progs cbs)).count t = (allTasks progs ++ cbTargets cbs).count t := by
      simp only [pendAll, clientPend_init, List.count_append]
      simp [init, SThread.init, pcPendS, logTasks, cbPend_nil]
    have e2 : (init progs cbs).scheduled = [] := rfl
    rw [e1, e2]; simpa [allTasks] using this
  · intro t; rw [clientPend_init]; simp [init]
  · simp [init, SThread.init]
  · simp [cpyOk, init, SThread.init, cancelsPhase]
  · simp [init, SThread.init, schedCS]
  · intro j c hj
    obtain ⟨p, _, e⟩ := init_client hj
    subst e; simp [clientCS, init]
  · intro k hk; simp [init] at hk
  · simp only [init]; exact (sum_held_init progs).symm
  · intro j c hj
    obtain ⟨p, hp, e⟩ := init_client hj
    subst e; simp only [cwfOk]; exact hwf.1 p hp
  · intro j c hj hin
    obtain ⟨p, _, e⟩ := init_client hj
    subst e; simp [inDestroy] at hin
  · intro hne; simp [init] at hne
  · intro k hk; simp [init] at hk
  · intro j c hd; simp [init] at hd
  · intro hr; simp [init] at hr
  · simp [init, SThread.init]
  · intro _ _; simp [init, Inner.empty]
  · intro hr; simp [init] at hr
  · intro hr; simp [init] at hr
  · intro id; simp [recs, init, SThread.init]

theorem inv_run_from (h : Inv progs s) (acts : List Act) : Inv progs (run Cfg.fixed s acts) := by
  induction acts generalizing s with
  | nil => exact h
  | cons a as ih =>
    simp only [run, List.foldl_cons]
    cases hs : step Cfg.fixed s a with
    | none => simp only [Option.getD_none]; exact ih h
    | some s' => simp only [Option.getD_some]; exact ih (inv_step h a hs)

theorem inv_run (hwf : WF progs cbs) (acts : List Act) : Inv progs (run Cfg.fixed (init progs cbs) acts) :=
  inv_run_from (inv_init hwf) acts

theorem done_iff (c : Client) : c.done = true ↔ c.pc = .idle ∧ c.prog = [] := by
  simp [Client.done, List.isEmpty_iff]

theorem at_most_once_of_inv (h : Inv progs s) (t : Task) : (logTasks s).count t ≤ 1 := by
  have := h.t.cntPlaces t; have := h.p.sched_le t
  simp only [places, List.count_append] at *; omega

theorem one_place_of_inv (h : Inv progs s) (t : Task) :
    (handOver s).count t + (remTasks (recs s)).count t + (innerTasks s).count t + (logTasks s).count t
      = if t ∈ s.scheduled then 1 else 0 := by
  have h1 := h.t.cntPlaces t; have h2 := h.p.sched_le t
  simp only [places, List.count_append] at h1
  by_cases hm : t ∈ s.scheduled
  · have := List.count_pos_iff.mpr hm; simp only [hm, if_true]; omega
  · have := List.count_eq_zero.mpr hm; simp only [hm, if_false]; omega

/-- once some client is in the destroy callback every other client has finished -/
theorem others_done (h : Inv progs s) {i j : Nat} {cj : Client} (hd : s.destroyer = some (i + 1))
    (hj : s.clients[j]? = some cj) (hne : j ≠ i) : cj.pc = .idle ∧ cj.prog = [] := by
  have h0 := h.r.dRef (by rw [hd]; simp)
  have hs := h.r.refSum
  rw [h0] at hs
  have hheld : cj.held = 0 := sum_map_eq_zero (·.held) hs.symm hj
  have hw := h.r.cwf j cj hj
  have hin := h.r.dIn j cj hj
  by_cases hdes : inDestroy cj.pc = true
  · exfalso; have := hin hdes; rw [hd] at this
    simp only [Option.some.injEq, Nat.add_right_cancel_iff] at this; exact hne this.symm
  · cases hpc : cj.pc <;> simp [hpc, inDestroy] at hdes <;> simp only [cwfOk, hpc] at hw
    · rw [hheld] at hw; exact ⟨rfl, wfProg_zero hw⟩
    all_goals omega

theorem stepClient_done (cfg : Cfg) {j : Nat} {cj : Client} (hj : s.clients[j]? = some cj)
    (hd : cj.pc = .idle ∧ cj.prog = []) : stepClient cfg s j = none := by
  unfold stepClient; simp [hj, hd.1, hd.2]

/-- the state once the final release has returned -/
theorem released_facts (h : Inv progs s) (hr : s.released = true) :
    ∃ i c, s.destroyer = some (i + 1) ∧ s.clients[i]? = some c ∧ c.pc = .idle ∧ c.prog = [] ∧
      s.st.pc = .exited ∧ iEmpty s ∧ (s.misuse = false → qEmpty s) ∧ s.st.listCpy = [] ∧ s.st.cancelCpy = [] := by
  have hdn := h.r.relD hr
  cases hd : s.destroyer with
  | none => exact absurd hd hdn
  | some k =>
    obtain ⟨hk1, hk2⟩ := h.r.dBound k hd
    obtain ⟨i, rfl⟩ : ∃ i, k = i + 1 := ⟨k - 1, by omega⟩
    have hil : i < s.clients.length := by omega
    have hci : s.clients[i]? = some s.clients[i] := List.getElem?_eq_getElem hil
    have hph := h.r.dPhase i _ hd hci
    have hidle : s.clients[i].pc = .idle := by
      cases he : earlyPhase s.clients[i].pc with
      | true => rw [phaseOk_early he] at hph; rw [hr] at hph; simp at hph
      | false =>
        cases hpc : s.clients[i].pc with
        | idle => rfl
        | dStore => simp [hpc, earlyPhase] at he
        | dNotify => simp [hpc, earlyPhase] at he
        | dJoin => simp [hpc, earlyPhase] at he
        | dDrainQ => rw [hpc] at hph; have := hph.1.1; rw [hr] at this; cases this
        | dDrainC => rw [hpc] at hph; have := hph.1.1; rw [hr] at this; cases this
        | dCleanUp => rw [hpc] at hph; have := hph.1.1; rw [hr] at this; cases this
        | dSweep => rw [hpc] at hph; have := hph.1.1; rw [hr] at this; cases this
        | dFree => rw [hpc] at hph; have := hph.1.1; rw [hr] at this; cases this
        | dcbLock op ret => rw [hpc] at hph; cases ret <;> (have := hph.1.1; rw [hr] at this; cases this)
        | dcbBody op ret => rw [hpc] at hph; cases ret <;> (have := hph.1.1; rw [hr] at this; cases this)
        | dcbUnlock ret => rw [hpc] at hph; cases ret <;> (have := hph.1.1; rw [hr] at this; cases this)
        | dcbNotify ret => rw [hpc] at hph; cases ret <;> (have := hph.1.1; rw [hr] at this; cases this)
        | sBody t τ => rw [hpc] at hph; exact absurd hph (by simp [phaseOk])
        | cBody t => rw [hpc] at hph; exact absurd hph (by simp [phaseOk])
        | unlock => rw [hpc] at hph; exact absurd hph (by simp [phaseOk])
        | notify => rw [hpc] at hph; exact absurd hph (by simp [phaseOk])
    rw [hidle] at hph
    have hw := h.r.cwf i _ hci
    simp only [cwfOk, hidle] at hw
    have h0 := h.r.dRef (by rw [hd]; simp)
    have hs := h.r.refSum
    rw [h0] at hs
    have hheld : s.clients[i].held = 0 := sum_map_eq_zero (·.held) hs.symm hci
    rw [hheld] at hw
    have hcpy := h.m.cpy
    simp [cpyOk, hph.2.1, cancelsPhase] at hcpy
    exact ⟨i, _, rfl, hci, hidle, wfProg_zero hw, hph.2.1, hph.2.2.2.1, hph.2.2.2.2, hcpy.1, hcpy.2⟩

/-- after the final release has returned no thread can take a step -/
theorem quiet_of_released (h : Inv progs s) (hr : s.released = true) (a : Act) (ha : a.isThread = true) :
    step Cfg.fixed s a = none := by
  obtain ⟨i, c, hd, hci, hpc, hprog, hex, _⟩ := released_facts h hr
  cases a with
  | tick d => cases ha
  | sched => simp [step, stepSched, hex]
  | spurious => simp [step, stepSpurious, hex]
  | client j =>
    simp only [step]
    cases hj : s.clients[j]? with
    | none => unfold stepClient; simp [hj]
    | some cj =>
      by_cases hji : j = i
      · subst hji
        rw [hci] at hj; injection hj with hj; subst hj
        exact stepClient_done _ hci ⟨hpc, hprog⟩
      · exact stepClient_done _ hj (others_done h hd hj hji)

theorem terminated_iff : terminated s = true ↔ s.released = true ∧ ∀ c ∈ s.clients, c.pc = .idle ∧ c.prog = [] := by
  simp [terminated, List.all_eq_true, done_iff]

theorem clientPend_nil_of_done (hall : ∀ c ∈ s.clients, c.pc = .idle ∧ c.prog = []) : clientPend s = [] := by
  unfold clientPend
  rw [List.flatMap_eq_nil_iff]
  intro c hc
  obtain ⟨h1, h2⟩ := hall c hc
  simp [pend, h1, h2, schedTasks]

/-- at termination, if no task function re-entered after the last release: the log is exactly the
scheduled tasks, and every schedule operation of every client program has been carried out -/
theorem exactly_once_of_inv (h : Inv progs s) (ht : terminated s = true) (hm : s.misuse = false) (t : Task) :
    (logTasks s).count t = s.scheduled.count t ∧ (allTasks progs).count t ≤ s.scheduled.count t := by
  obtain ⟨hr, hall⟩ := terminated_iff.mp ht
  obtain ⟨i, c, hd, hci, hpc, hprog, hex, hi, hq, hl, hc⟩ := released_facts h hr
  have hq := hq hm
  have h1 := h.t.cntPlaces t
  have h2 := h.p.cntProg t
  rw [clientPend_nil_of_done hall] at h2
  simp only [places, handOver, recs, innerTasks, hq.1, hq.2, hi.1, hi.2.1, hi.2.2, hl, hc, remTasks_nil, List.append_nil,
    List.nil_append, List.count_nil, Nat.add_zero] at h1 h2
  omega

theorem no_leak_of_inv (h : Inv progs s) (id : Nat) : s.freed.count id ≤ 1 := by
  have := h.k.recCount id
  simp only [List.count_append] at this
  split at this <;> omega

theorem no_leak_terminated (h : Inv progs s) (ht : terminated s = true) (hm : s.misuse = false) (id : Nat) :
    s.freed.count id = if id < s.nextRec then 1 else 0 := by
  obtain ⟨hr, hall⟩ := terminated_iff.mp ht
  obtain ⟨i, c, hd, hci, hpc, hprog, hex, hi, hq, hl, hc⟩ := released_facts h hr
  have hq := hq hm
  have := h.k.recCount id
  simpa [recs, hq.2, hc] using this

theorem stepSched_enabled_free (cfg : Cfg) (hne : s.st.pc ≠ .exited) (hm : s.mutex = none) :
    (stepSched cfg s).isSome = true := by
  unfold stepSched
  cases hpc : s.st.pc <;> simp only [hpc, hm] <;> try rfl
  · cases s.st.listCpy <;> rfl
  · cases s.st.cancelCpy <;> rfl
  · cases s.inner.popRunning with
    | none => rfl
    | some p => rfl
  · exact absurd hpc hne

theorem stepSched_enabled_cs (cfg : Cfg) (hcs : schedCS s.st.pc = true) : (stepSched cfg s).isSome = true := by
  unfold stepSched
  cases hpc : s.st.pc <;> simp [hpc, schedCS] at hcs ⊢

theorem stepClient_enabled_cs (cfg : Cfg) {j : Nat} {c : Client} (hj : s.clients[j]? = some c)
    (hcs : clientCS c.pc = true) : (stepClient cfg s j).isSome = true := by
  unfold stepClient
  cases hpc : c.pc <;> simp [hj, hpc, clientCS] at hcs ⊢

theorem stepClient_enabled_free (cfg : Cfg) {j : Nat} {c : Client} (hj : s.clients[j]? = some c)
    (hnd : ¬ (c.pc = .idle ∧ c.prog = [])) (hm : s.mutex = none) (hex : s.st.pc = .exited) :
    (stepClient cfg s j).isSome = true := by
  unfold stepClient
  cases hpc : c.pc <;> simp only [hj, hpc, hm, hex] <;> try rfl
  · cases hprog : c.prog with
    | nil => exact absurd ⟨hpc, hprog⟩ hnd
    | cons op rest => cases op <;> rfl
  · cases s.schedQ <;> rfl
  · cases s.cancelQ <;> rfl
  · cases s.inner.hasTasks <;> rfl
  · cases s.inner.popRunning with
    | none => rfl
    | some p => rfl

theorem no_deadlock_of_inv (h : Inv progs s) (hnt : terminated s = false) :
    ∃ a, a.isThread = true ∧ (step Cfg.fixed s a).isSome = true := by
  have client_cs : ∀ j, s.mutex = some (j + 1) → ∃ a, a.isThread = true ∧ (step Cfg.fixed s a).isSome = true := by
    intro j hm
    have hb := h.m.mutexB _ hm
    have hjl : j < s.clients.length := by omega
    have hcj : s.clients[j]? = some s.clients[j] := List.getElem?_eq_getElem hjl
    have hcs := (h.m.mutexC j _ hcj).mpr hm
    exact ⟨.client j, rfl, stepClient_enabled_cs _ hcj hcs⟩
  cases hm : s.mutex with
  | some k =>
    cases k with
    | zero => exact ⟨.sched, rfl, stepSched_enabled_cs _ (h.m.mutexS.mp hm)⟩
    | succ j => exact client_cs j hm
  | none =>
    by_cases hex : s.st.pc = .exited
    · -- some client has not finished
      have hnd : ∃ (j : Nat) (c : Client), s.clients[j]? = some c ∧ ¬ (c.pc = .idle ∧ c.prog = []) := by
        apply Classical.byContradiction
        intro hcon
        have hall : ∀ c ∈ s.clients, c.pc = .idle ∧ c.prog = [] := by
          intro c hc
          obtain ⟨j, hj⟩ := List.mem_iff_getElem?.mp hc
          apply Classical.byContradiction
          intro hn; exact hcon ⟨j, c, hj, hn⟩
        have hse := h.r.exitFlag.1 hex
        have hdn := h.r.exitFlag.2 hse
        cases hd : s.destroyer with
        | none => exact hdn hd
        | some k =>
          obtain ⟨hk1, hk2⟩ := h.r.dBound k hd
          obtain ⟨i, rfl⟩ : ∃ i, k = i + 1 := ⟨k - 1, by omega⟩
          have hil : i < s.clients.length := by omega
          have hci : s.clients[i]? = some s.clients[i] := List.getElem?_eq_getElem hil
          have hph := h.r.dPhase i _ hd hci
          have hid := (hall _ (List.getElem_mem hil)).1
          simp only [hid, phaseOk] at hph
          have : terminated s = true := terminated_iff.mpr ⟨hph.1, hall⟩
          rw [this] at hnt; cases hnt
      obtain ⟨j, c, hj, hn⟩ := hnd
      exact ⟨.client j, rfl, stepClient_enabled_free _ hj hn hm hex⟩
    · exact ⟨.sched, rfl, stepSched_enabled_free _ hex hm⟩

/-- the mutex is never held across a wait: not by the scheduler thread inside the condition-variable
wait, not by a client blocked in the join -/
theorem no_mutex_across_wait (h : Inv progs s) :
    ((s.st.pc = .blocked ∨ ∃ b, s.st.pc = .reacq b) → s.mutex ≠ some 0) ∧
    (∀ (j : Nat) (c : Client), s.clients[j]? = some c → c.pc = .dJoin → s.mutex ≠ some (j + 1)) := by
  constructor
  · intro hb hm
    have := h.m.mutexS.mp hm
    rcases hb with hb | ⟨b, hb⟩ <;> simp [hb, schedCS] at this
  · intro j c hj hpc hm
    have := (h.m.mutexC j c hj).mpr hm
    simp [hpc, clientCS] at this

/-! ### task functions are invoked without the hand-over mutex -/

theorem log_change_sched {cfg : Cfg} (hs : stepSched cfg s = some s') (hl : s'.log ≠ s.log) :
    s.st.pc = .cancels ∨ s.st.pc = .running := by
  unfold stepSched at hs
  cases hpc : s.st.pc <;> simp only [hpc] at hs
  case cancels => exact Or.inl rfl
  case running => exact Or.inr rfl
  all_goals
    first
      | (injection hs with hs; subst hs; exact absurd rfl hl)
      | (split at hs <;> first | (injection hs with hs; subst hs; exact absurd rfl hl) | cases hs)
      | (injection hs with hs; subst hs; simp at hl)
      | cases hs

theorem log_change_client {cfg : Cfg} {i : Nat} {c : Client} (hci : s.clients[i]? = some c)
    (hs : stepClient cfg s i = some s') (hl : s'.log ≠ s.log) : c.pc = .dDrainC ∨ c.pc = .dSweep := by
  unfold stepClient at hs
  simp only [hci] at hs
  cases hpc : c.pc <;> simp only [hpc] at hs
  case dDrainC => exact Or.inl rfl
  case dSweep => exact Or.inr rfl
  case idle =>
    cases hprog : c.prog with
    | nil => simp [hprog] at hs
    | cons op rest =>
      simp only [hprog] at hs
      cases op <;> simp only at hs <;>
        first
          | (injection hs with hs; subst hs; exact absurd rfl hl)
          | (split at hs <;> first | (injection hs with hs; subst hs; exact absurd rfl hl) | cases hs)
  all_goals
    first
      | (injection hs with hs; subst hs; exact absurd rfl hl)
      | (split at hs <;> first | (injection hs with hs; subst hs; exact absurd rfl hl) | cases hs)
      | (injection hs with hs; subst hs; simp at hl)

/-- whenever a step invokes a task function (the log grows) the invoking thread does not hold the
hand-over mutex -/
theorem callbacks_unlocked_of_inv (h : Inv progs s) (a : Act) (hs : step Cfg.fixed s a = some s')
    (hl : s'.log ≠ s.log) : ∃ k, a.thread = some k ∧ s.mutex ≠ some k := by
  cases a with
  | tick d => simp only [step] at hs; injection hs with hs; subst hs; exact absurd rfl hl
  | spurious =>
    simp only [step, stepSpurious] at hs
    split at hs
    · injection hs with hs; subst hs; exact absurd rfl hl
    · cases hs
  | sched =>
    refine ⟨0, rfl, fun hm => ?_⟩
    have hcs := h.m.mutexS.mp hm
    rcases log_change_sched hs hl with hp | hp <;> simp [hp, schedCS] at hcs
  | client i =>
    refine ⟨i + 1, rfl, fun hm => ?_⟩
    simp only [step] at hs
    cases hci : s.clients[i]? with
    | none => unfold stepClient at hs; simp [hci] at hs
    | some c =>
      have hcs := (h.m.mutexC i c hci).mpr hm
      rcases log_change_client hci hs hl with hp | hp <;> simp [hp, clientCS] at hcs

theorem run_append (cfg : Cfg) (s : Sys) (a b : List Act) : run cfg s (a ++ b) = run cfg (run cfg s a) b := by
  simp [run, List.foldl_append]

/-- nothing is invoked after the final release returned: the log is frozen -/
theorem log_frozen (h : Inv progs s) (hr : s.released = true) (acts : List Act) :
    (run Cfg.fixed s acts).log = s.log ∧ (run Cfg.fixed s acts).released = true := by
  induction acts generalizing s with
  | nil => exact ⟨rfl, hr⟩
  | cons a as ih =>
    simp only [run, List.foldl_cons]
    cases a with
    | tick d =>
      simp only [step, Option.getD_some]
      exact ih (inv_tick h d) hr
    | sched => rw [quiet_of_released h hr .sched rfl]; exact ih h hr
    | spurious => rw [quiet_of_released h hr .spurious rfl]; exact ih h hr
    | client j => rw [quiet_of_released h hr (.client j) rfl]; exact ih h hr

theorem get_canceled_none {cbs : Cbs} (hn : NoCanceledReentry cbs) (t : Task) : cbs.get t .canceled = .none := by
  induction cbs with
  | nil => rfl
  | cons e r ih =>
    simp only [Cbs.get]
    by_cases h : e.task = t ∧ e.status = .canceled
    · simp only [h, and_self, if_true]; exact hn e (by simp) h.2
    · simp only [h, if_false]; exact ih (fun e' he' => hn e' (List.mem_cons_of_mem _ he'))

theorem stepSched_static {cfg : Cfg} (hs : stepSched cfg s = some s') : s'.cbs = s.cbs ∧ s'.misuse = s.misuse := by
  unfold stepSched at hs
  cases hpc : s.st.pc <;> simp only [hpc] at hs
  all_goals try (split at hs)
  all_goals first
    | (cases hs; done)
    | (injection hs with hs; subst hs; first | exact ⟨rfl, rfl⟩ | simp)

theorem stepClient_static {cfg : Cfg} {i : Nat} (hn : NoCanceledReentry s.cbs) (hs : stepClient cfg s i = some s') :
    s'.cbs = s.cbs ∧ (s.misuse = false → s'.misuse = false) := by
  unfold stepClient at hs
  cases hci : s.clients[i]? with
  | none => simp [hci] at hs
  | some c =>
    simp only [hci] at hs
    cases hpc : c.pc <;> simp only [hpc] at hs
    case idle =>
      cases hprog : c.prog with
      | nil => simp [hprog] at hs
      | cons op rest =>
        simp only [hprog] at hs
        cases op <;> simp only at hs
        all_goals try (split at hs)
        all_goals first
          | (cases hs; done)
          | (injection hs with hs; subst hs; exact ⟨rfl, id⟩)
    case dDrainC =>
      split at hs
      · injection hs with hs; subst hs; exact ⟨rfl, id⟩
      · injection hs with hs; subst hs
        refine ⟨by simp, fun hm => ?_⟩
        simp only [procRec_misuse, hm, Bool.false_or, decide_eq_false_iff_not, Decidable.not_not]
        split
        · exact get_canceled_none hn _
        · rfl
    case dSweep =>
      split at hs
      · injection hs with hs; subst hs; exact ⟨rfl, id⟩
      · injection hs with hs; subst hs
        refine ⟨rfl, fun hm => ?_⟩
        simp only [hm, Bool.false_or, decide_eq_false_iff_not, Decidable.not_not]
        exact get_canceled_none hn _
    all_goals try (split at hs)
    all_goals first
      | (cases hs; done)
      | (injection hs with hs; subst hs; first | exact ⟨rfl, id⟩ | simp)

/-- if no task function re-enters when invoked with CANCELED, no run has a re-entry after the last release -/
theorem static_no_misuse {cbs : Cbs} (hn : NoCanceledReentry cbs) (acts : List Act) :
    (run Cfg.fixed (init progs cbs) acts).misuse = false := by
  suffices h : ∀ s : Sys, s.cbs = cbs → s.misuse = false →
      (run Cfg.fixed s acts).misuse = false from h _ rfl rfl
  induction acts with
  | nil => intro s _ hm; exact hm
  | cons a as ih =>
    intro s hc hm
    simp only [run, List.foldl_cons]
    cases hs : step Cfg.fixed s a with
    | none => simp only [Option.getD_none]; exact ih s hc hm
    | some s' =>
      simp only [Option.getD_some]
      cases a with
      | tick d => simp only [step] at hs; injection hs with hs; subst hs; exact ih _ hc hm
      | sched => have := stepSched_static hs; exact ih s' (this.1.trans hc) (this.2.trans hm)
      | spurious =>
        simp only [step, stepSpurious] at hs
        split at hs
        · injection hs with hs; subst hs; exact ih _ hc hm
        · cases hs
      | client i =>
        have := stepClient_static (hc ▸ hn) hs
        exact ih s' (this.1.trans hc) (this.2 hm)

end AwsVerif.Proofs.C08
