/-! List lemmas used by the C08 invariant proofs (core Lean only). -/
namespace AwsVerif.Proofs.C08

theorem set_get_cases {α} {l : List α} {i j : Nat} {a c : α} (h : (l.set i a)[j]? = some c) :
    (j = i ∧ c = a ∧ i < l.length) ∨ (j ≠ i ∧ l[j]? = some c) := by
  rw [List.getElem?_set] at h
  by_cases hij : i = j
  · subst hij
    simp only [if_true] at h
    by_cases hl : i < l.length
    · simp [hl] at h; exact Or.inl ⟨rfl, h.symm, hl⟩
    · simp [hl] at h
  · simp only [hij, if_false] at h
    exact Or.inr ⟨fun e => hij e.symm, h⟩

theorem get_set_self {α} {l : List α} {i : Nat} {a c : α} (h : l[i]? = some c) : (l.set i a)[i]? = some a := by
  have := (List.getElem?_eq_some_iff.mp h).1
  simp [this]

theorem get_set_ne {α} {l : List α} {i j : Nat} {a : α} (h : j ≠ i) : (l.set i a)[j]? = l[j]? := by
  simp [Ne.symm h]

theorem sum_map_set {α} (g : α → Nat) {l : List α} {i : Nat} {a c : α} (h : l[i]? = some c) :
    ((l.set i a).map g).sum + g c = (l.map g).sum + g a := by
  induction l generalizing i with
  | nil => simp at h
  | cons x xs ih =>
    cases i with
    | zero => simp at h; subst h; simp [List.set]; omega
    | succ n =>
      simp at h
      have := ih h
      simp only [List.set_cons_succ, List.map_cons, List.sum_cons] at this ⊢; omega

theorem le_sum_map {α} (g : α → Nat) {l : List α} {i : Nat} {c : α} (h : l[i]? = some c) :
    g c ≤ (l.map g).sum := by
  induction l generalizing i with
  | nil => simp at h
  | cons x xs ih =>
    cases i with
    | zero => simp at h; subst h; simp
    | succ n => simp at h; have := ih h; simp; omega

theorem sum_map_eq_zero {α} (g : α → Nat) {l : List α} (h : (l.map g).sum = 0) {i : Nat} {c : α}
    (hc : l[i]? = some c) : g c = 0 := by
  have := le_sum_map g hc; omega

theorem count_flatMap_set {α β} [BEq β] (f : α → List β) (x : β) {l : List α} {i : Nat} {a c : α}
    (h : l[i]? = some c) :
    List.count x ((l.set i a).flatMap f) + List.count x (f c) = List.count x (l.flatMap f) + List.count x (f a) := by
  rw [List.count_flatMap, List.count_flatMap]
  exact sum_map_set (List.count x ∘ f) h

theorem count_le_flatMap {α β} [BEq β] (f : α → List β) (x : β) {l : List α} {i : Nat} {c : α}
    (h : l[i]? = some c) : List.count x (f c) ≤ List.count x (l.flatMap f) := by
  rw [List.count_flatMap]
  exact le_sum_map (List.count x ∘ f) h

theorem count_filter_add {α} [BEq α] [LawfulBEq α] (p : α → Bool) (a : α) (l : List α) :
    List.count a (l.filter p) + List.count a (l.filter (fun x => !p x)) = List.count a l := by
  induction l with
  | nil => simp
  | cons x xs ih =>
    by_cases hp : p x = true
    · simp [hp, List.count_cons]; omega
    · simp [hp, List.count_cons]; omega

end AwsVerif.Proofs.C08
