import AwsVerif.Proofs.C03.InvAct
/-! Consequences of the invariant: the active-bytes metric, the set of pages `destroy` frees,
quiescence. -/
namespace AwsVerif.Proofs.C03
open AwsVerif.Sba AwsVerif.Gen.SbaConsts

/-- size class of the bin page `p` belongs to (0 for a page not held) -/
def pageWeight (s : State) (p : Nat) : Nat :=
  match s.pages p with
  | some pg => binSize pg.bin
  | none => 0

/-- size class serving a live block (0 for parent-served blocks) -/
def classOf (s : State) (e : Ptr × Nat) : Nat :=
  match e.1 with
  | .chunk a => pageWeight s a.page
  | .big _ => 0

/-! ### sums -/

theorem sum_map_add {α} (l : List α) (f g : α → Nat) :
    (l.map (fun x => f x + g x)).sum = (l.map f).sum + (l.map g).sum := by
  induction l with
  | nil => rfl
  | cons x l ih => simp only [List.map_cons, List.sum_cons, ih]; omega

theorem sum_map_zero {α} (l : List α) : (l.map (fun _ => 0)).sum = 0 := by
  induction l with
  | nil => rfl
  | cons x l ih => simp only [List.map_cons, List.sum_cons, ih]

theorem sum_map_congr {α} (l : List α) (f g : α → Nat) (h : ∀ x ∈ l, f x = g x) : (l.map f).sum = (l.map g).sum := by
  rw [List.map_congr_left h]

theorem sum_flatMap {α β} (l : List α) (g : α → List β) (f : β → Nat) :
    ((l.flatMap g).map f).sum = (l.map (fun i => ((g i).map f).sum)).sum := by
  induction l with
  | nil => rfl
  | cons x l ih => simp only [List.flatMap_cons, List.map_append, List.sum_append, List.map_cons, List.sum_cons, ih]

/-- in a duplicate-free list the indicator of a member picks out exactly its weight -/
theorem sum_indicator (P : List Nat) (W : Nat → Nat) (x : Nat) (hnd : P.Nodup) (hx : x ∈ P) :
    (P.map (fun p => (if x = p then 1 else 0) * W p)).sum = W x := by
  induction P with
  | nil => simp at hx
  | cons q P ih =>
    obtain ⟨hq, hnd'⟩ := List.nodup_cons.mp hnd
    simp only [List.map_cons, List.sum_cons]
    rcases List.mem_cons.mp hx with e | e
    · subst e
      have : (P.map (fun p => (if x = p then 1 else 0) * W p)).sum = 0 := by
        rw [sum_map_congr P _ (fun _ => 0) ?_]
        · exact sum_map_zero P
        · intro p hp
          have : x ≠ p := fun e => hq (e ▸ hp)
          simp [this]
      rw [this]; simp
    · have : x ≠ q := fun e' => hq (e' ▸ e)
      rw [ih hnd' e]; simp [this]

/-- double counting: pages weighted by their number of live chunks = live chunks weighted by their page -/
theorem sum_liveCount (P : List Nat) (W : Nat → Nat) (L : List (Ptr × Nat)) (hnd : P.Nodup)
    (hP : ∀ a n, (Ptr.chunk a, n) ∈ L → a.page ∈ P) :
    (P.map (fun p => liveCount L p * W p)).sum =
      (L.map (fun e => match e.1 with | .chunk a => W a.page | .big _ => 0)).sum := by
  induction L with
  | nil =>
    simp only [liveCount, List.countP_nil, Nat.zero_mul, List.map_nil, List.sum_nil]
    exact sum_map_zero P
  | cons e L ih =>
    have ih' := ih (fun a n hm => hP a n (List.mem_cons_of_mem _ hm))
    have hsplit : ∀ p, liveCount (e :: L) p * W p = liveCount L p * W p + (if isChunkOf p e then 1 else 0) * W p := by
      intro p
      simp only [liveCount, List.countP_cons]
      rw [Nat.add_mul]
    rw [sum_map_congr P _ _ (fun p _ => hsplit p), sum_map_add, ih']
    simp only [List.map_cons, List.sum_cons]
    have : (P.map (fun p => (if isChunkOf p e then 1 else 0) * W p)).sum =
        (match e.1 with | .chunk a => W a.page | .big _ => 0) := by
      cases e with
      | mk k n =>
        cases k with
        | chunk a =>
          have hmem := hP a n (List.mem_cons_self)
          simp only [isChunkOf, beq_iff_eq]
          exact sum_indicator P W a.page hnd hmem
        | big id =>
          simp only [isChunkOf, Bool.false_eq_true, if_false, Nat.zero_mul]
          exact sum_map_zero P
    rw [this]; omega

theorem nodup_flatMap_of (l : List Nat) (f : Nat → List Nat) (hl : l.Nodup) (hf : ∀ i ∈ l, (f i).Nodup)
    (hd : ∀ i ∈ l, ∀ j ∈ l, ∀ p, p ∈ f i → p ∈ f j → i = j) : (l.flatMap f).Nodup := by
  induction l with
  | nil => simp
  | cons i l ih =>
    obtain ⟨hi, hl'⟩ := List.nodup_cons.mp hl
    simp only [List.flatMap_cons]
    rw [List.nodup_append]
    refine ⟨hf i List.mem_cons_self, ?_, ?_⟩
    · exact ih hl' (fun j hj => hf j (List.mem_cons_of_mem _ hj))
        (fun a ha b hb p => hd a (List.mem_cons_of_mem _ ha) b (List.mem_cons_of_mem _ hb) p)
    · intro p hp q hq e
      subst e
      obtain ⟨j, hj, hpj⟩ := List.mem_flatMap.mp hq
      have := hd i List.mem_cons_self j (List.mem_cons_of_mem _ hj) p hp hpj
      subst this
      exact hi hj

/-! ### the pages registered with the bins -/

theorem binPages_nodup {s : State} (h : Inv s) (i : Nat) : (binPages (s.bins i)).Nodup := by
  unfold binPages
  cases hc : (s.bins i).cursor with
  | none => simp; exact h.active_nodup i
  | some c =>
    simp only
    rw [List.nodup_append]
    refine ⟨h.active_nodup i, by simp, ?_⟩
    intro a ha b hb
    simp at hb; subst hb
    intro e; subst e
    exact (h.cursor_ok i c hc).2.2 ha

theorem held_of_binPages {s : State} (h : Inv s) {i p : Nat} (hm : p ∈ binPages (s.bins i)) :
    ∃ pg, s.pages p = some pg ∧ pg.bin = i := by
  rcases mem_binPages.mp hm with hm | ⟨c, hc, hcp⟩
  · obtain ⟨pg, hp, hb, _⟩ := h.active_ok i p hm; exact ⟨pg, hp, hb⟩
  · obtain ⟨⟨pg, hp, hb⟩, _, _⟩ := h.cursor_ok i c hc; exact ⟨pg, hcp ▸ hp, hb⟩

theorem destroyPages_nodup {s : State} (h : Inv s) : (destroyPages s).Nodup := by
  unfold destroyPages
  apply nodup_flatMap_of _ _ List.nodup_range (fun i _ => binPages_nodup h i)
  intro i _ j _ p hpi hpj
  obtain ⟨pg, hp, hb⟩ := held_of_binPages h hpi
  obtain ⟨pg', hp', hb'⟩ := held_of_binPages h hpj
  rw [hp] at hp'; injection hp' with e; subst e
  rw [← hb, ← hb']

/-- `s_sba_clean_up` frees exactly the pages held -/
theorem mem_destroyPages {s : State} (h : Inv s) (p : Nat) : p ∈ destroyPages s ↔ (s.pages p).isSome := by
  unfold destroyPages
  rw [List.mem_flatMap]
  constructor
  · rintro ⟨i, _, hm⟩
    obtain ⟨pg, hp, _⟩ := held_of_binPages h hm
    rw [hp]; rfl
  · intro hs
    cases hp : s.pages p with
    | none => rw [hp] at hs; cases hs
    | some pg =>
      obtain ⟨_, _, hlt, hm⟩ := h.page_ok p pg hp
      exact ⟨pg.bin, List.mem_range.mpr hlt, hm⟩

theorem destroy_pages_none {s : State} (h : Inv s) (p : Nat) : (destroy s).pages p = none := by
  simp only [destroy]
  split
  · rfl
  · rename_i hn
    cases hp : s.pages p with
    | none => rfl
    | some pg => exact absurd ((mem_destroyPages h p).mpr (by rw [hp]; rfl)) hn

/-! ### `aws_small_block_allocator_bytes_active` -/

theorem foldl_add_mod {α} (f : α → Nat) (l : List α) (u : Nat) (hu : u < SIZE_MOD) :
    l.foldl (fun u p => (u + f p) % SIZE_MOD) u = (u + (l.map f).sum) % SIZE_MOD := by
  induction l generalizing u with
  | nil => simp [Nat.mod_eq_of_lt hu]
  | cons x l ih =>
    simp only [List.foldl_cons, List.map_cons, List.sum_cons]
    rw [ih _ (Nat.mod_lt _ (by rw [SIZE_MOD_eq]; omega))]
    rw [SIZE_MOD_eq]; omega

theorem binActive_eq (s : State) (used i : Nat) (hu : used < SIZE_MOD) :
    binActive s used i =
      (used + ((binPages (s.bins i)).map (fun p => pageCount s p * (s.bins i).size)).sum) % SIZE_MOD := by
  unfold binActive binPages
  simp only
  rw [foldl_add_mod (fun p => pageCount s p * (s.bins i).size) _ _ hu]
  cases (s.bins i).cursor with
  | none => simp
  | some c =>
    simp only [List.map_append, List.sum_append, List.map_cons, List.map_nil, List.sum_cons, List.sum_nil]
    rw [SIZE_MOD_eq]; omega

theorem binActive_lt (s : State) (used i : Nat) (hu : used < SIZE_MOD) : binActive s used i < SIZE_MOD := by
  rw [binActive_eq s used i hu]
  exact Nat.mod_lt _ (by rw [SIZE_MOD_eq]; omega)

theorem foldl_binActive (s : State) (l : List Nat) (u : Nat) (hu : u < SIZE_MOD) :
    l.foldl (binActive s) u =
      (u + (l.map (fun i => ((binPages (s.bins i)).map (fun p => pageCount s p * (s.bins i).size)).sum)).sum) % SIZE_MOD := by
  induction l generalizing u with
  | nil => simp [Nat.mod_eq_of_lt hu]
  | cons x l ih =>
    simp only [List.foldl_cons, List.map_cons, List.sum_cons]
    rw [ih _ (binActive_lt s u x hu), binActive_eq s u x hu]
    rw [SIZE_MOD_eq]; omega

/-- the reported active byte count is the sum of the size classes of the live small blocks -/
theorem bytesActive_eq {s : State} (h : Inv s) :
    bytesActive s = ((s.live.map (classOf s)).sum) % SIZE_MOD := by
  unfold bytesActive
  rw [foldl_binActive s _ 0 (by rw [SIZE_MOD_eq]; omega), Nat.zero_add]
  congr 1
  -- per bin: counts are live counts, the bin size is the weight of its pages
  have hbin : ∀ i, ((binPages (s.bins i)).map (fun p => pageCount s p * (s.bins i).size)).sum =
      ((binPages (s.bins i)).map (fun p => liveCount s.live p * pageWeight s p)).sum := by
    intro i
    apply sum_map_congr
    intro p hp
    obtain ⟨pg, hpg, hb⟩ := held_of_binPages h hp
    simp only [pageCount, pageWeight, hpg, h.page_count p pg hpg, h.size_eq i, hb]
  rw [sum_map_congr _ _ _ (fun i _ => hbin i), ← sum_flatMap]
  have := sum_liveCount (destroyPages s) (pageWeight s) s.live (destroyPages_nodup h) (by
    intro a n hm
    obtain ⟨pg, hpg, _⟩ := h.live_chunk a n hm
    exact (mem_destroyPages h _).mpr (by rw [hpg]; rfl))
  unfold destroyPages at this
  rw [this]
  rfl

/-! ### quiescence -/

theorem quiescent_active {s : State} (h : Inv s) (hq : s.live = []) (i : Nat) : (s.bins i).activePages = [] := by
  cases hl : (s.bins i).activePages with
  | nil => rfl
  | cons p ps =>
    exfalso
    have hm : p ∈ (s.bins i).activePages := by rw [hl]; exact List.mem_cons_self
    obtain ⟨pg, hp, _, h1⟩ := h.active_ok i p hm
    have := h.page_count p pg hp
    rw [hq] at this
    simp [liveCount] at this
    omega

theorem quiescent_held {s : State} (h : Inv s) (hq : s.live = []) (i : Nat) : binHeld s i ≤ 1 := by
  unfold binHeld binPages
  rw [quiescent_active h hq i]
  cases (s.bins i).cursor <;> simp

theorem quiescent_parent {s : State} (h : Inv s) (hq : s.live = []) (id : Nat) : s.parent id = none := by
  cases hp : s.parent id with
  | none => rfl
  | some v =>
    have := h.parent_live id (by rw [hp]; rfl)
    rw [hq] at this
    simp [keys] at this

end AwsVerif.Proofs.C03
