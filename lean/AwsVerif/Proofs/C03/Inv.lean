import AwsVerif.Proofs.C03.Consts
import AwsVerif.Proofs.C03.Lists
/-! The inductive invariant of the small-block allocator model and its basic lemmas. -/
namespace AwsVerif.Proofs.C03
open AwsVerif.Sba AwsVerif.Gen.SbaConsts

/-- the live entry is a chunk of page `p` -/
def isChunkOf (p : Nat) (e : Ptr × Nat) : Bool :=
  match e.1 with
  | .chunk a => a.page == p
  | .big _ => false

/-- number of live chunks of page `p` -/
def liveCount (live : List (Ptr × Nat)) (p : Nat) : Nat := live.countP (isChunkOf p)

/-- number of chunks of page `p` in a free list -/
def freeCount (fc : List Addr) (p : Nat) : Nat := fc.countP (fun a => a.page == p)

/-- number of chunk slots of page `p` already carved (all of them unless `p` is the cursor page) -/
def carvedSlots (sz : Nat) (cur : Option Addr) (p : Nat) : Nat :=
  match cur with
  | some c => if c.page = p then (c.off - hdrSize) / sz else slotsPerPage sz
  | none => slotsPerPage sz

structure Inv (s : State) : Prop where
  size_eq : ∀ i, (s.bins i).size = binSize i
  /-- every page held is tagged, belongs to an existing bin and is that bin's cursor page or one of its active pages -/
  page_ok : ∀ p pg, s.pages p = some pg →
    pg.tag = tagValue ∧ pg.tag2 = tagValue ∧ pg.bin < binCount ∧ p ∈ binPages (s.bins pg.bin)
  /-- `alloc_count` = number of live chunks of the page -/
  page_count : ∀ p pg, s.pages p = some pg → pg.allocCount = liveCount s.live p
  /-- live chunks + free chunks + not-yet-carved tail = all slots of the page -/
  page_part : ∀ p pg, s.pages p = some pg →
    pg.allocCount + freeCount (s.bins pg.bin).freeChunks p = carvedSlots (binSize pg.bin) (s.bins pg.bin).cursor p
  cursor_ok : ∀ i c, (s.bins i).cursor = some c →
    (∃ pg, s.pages c.page = some pg ∧ pg.bin = i) ∧ SlotOff (binSize i) c.off ∧ c.page ∉ (s.bins i).activePages
  cursor_above_free : ∀ i c f, (s.bins i).cursor = some c → f ∈ (s.bins i).freeChunks → f.page = c.page → f.off < c.off
  cursor_above_live : ∀ i c a n, (s.bins i).cursor = some c → (Ptr.chunk a, n) ∈ s.live → a.page = c.page → a.off < c.off
  active_ok : ∀ i p, p ∈ (s.bins i).activePages → ∃ pg, s.pages p = some pg ∧ pg.bin = i ∧ 1 ≤ pg.allocCount
  active_nodup : ∀ i, (s.bins i).activePages.Nodup
  free_nodup : ∀ i, (s.bins i).freeChunks.Nodup
  /-- a free chunk lies in a held page of its bin, on the slot grid, and is not live -/
  free_ok : ∀ i f, f ∈ (s.bins i).freeChunks →
    (∃ pg, s.pages f.page = some pg ∧ pg.bin = i) ∧ SlotOff (binSize i) f.off ∧ Ptr.chunk f ∉ keys s.live
  live_nodup : (keys s.live).Nodup
  /-- a live chunk lies in a held page, on the slot grid of the page's bin, which is large enough -/
  live_chunk : ∀ a n, (Ptr.chunk a, n) ∈ s.live →
    ∃ pg, s.pages a.page = some pg ∧ SlotOff (binSize pg.bin) a.off ∧ 1 ≤ n ∧ n ≤ binSize pg.bin
  live_big : ∀ id n, (Ptr.big id, n) ∈ s.live → (s.parent id).isSome ∧ 1 ≤ n
  parent_live : ∀ id, (s.parent id).isSome → Ptr.big id ∈ keys s.live

/-! ### projections of the state updates -/

@[simp] theorem setBin_bins (s : State) (i j : Nat) (b : Bin) : (setBin s i b).bins j = if j = i then b else s.bins j := rfl
@[simp] theorem setBin_pages (s : State) (i : Nat) (b : Bin) : (setBin s i b).pages = s.pages := rfl
@[simp] theorem setBin_live (s : State) (i : Nat) (b : Bin) : (setBin s i b).live = s.live := rfl
@[simp] theorem setBin_parent (s : State) (i : Nat) (b : Bin) : (setBin s i b).parent = s.parent := rfl
@[simp] theorem setBin_mem (s : State) (i : Nat) (b : Bin) : (setBin s i b).mem = s.mem := rfl
@[simp] theorem setPage_pages (s : State) (p q : Nat) (v : Option Page) : (setPage s p v).pages q = if q = p then v else s.pages q := rfl
@[simp] theorem setPage_bins (s : State) (p : Nat) (v : Option Page) : (setPage s p v).bins = s.bins := rfl
@[simp] theorem setPage_live (s : State) (p : Nat) (v : Option Page) : (setPage s p v).live = s.live := rfl
@[simp] theorem setPage_parent (s : State) (p : Nat) (v : Option Page) : (setPage s p v).parent = s.parent := rfl
@[simp] theorem setPage_mem (s : State) (p : Nat) (v : Option Page) : (setPage s p v).mem = s.mem := rfl
@[simp] theorem setParent_parent (s : State) (i j : Nat) (v : Option Nat) : (setParent s i v).parent j = if j = i then v else s.parent j := rfl
@[simp] theorem setParent_bins (s : State) (i : Nat) (v : Option Nat) : (setParent s i v).bins = s.bins := rfl
@[simp] theorem setParent_pages (s : State) (i : Nat) (v : Option Nat) : (setParent s i v).pages = s.pages := rfl
@[simp] theorem setParent_live (s : State) (i : Nat) (v : Option Nat) : (setParent s i v).live = s.live := rfl
@[simp] theorem setParent_mem (s : State) (i : Nat) (v : Option Nat) : (setParent s i v).mem = s.mem := rfl

/-- replace the ghost list of live blocks -/
def withLive (s : State) (l : List (Ptr × Nat)) : State := { s with live := l }
@[simp] theorem withLive_bins (s : State) (l) : (withLive s l).bins = s.bins := rfl
@[simp] theorem withLive_pages (s : State) (l) : (withLive s l).pages = s.pages := rfl
@[simp] theorem withLive_live (s : State) (l) : (withLive s l).live = l := rfl
@[simp] theorem withLive_parent (s : State) (l) : (withLive s l).parent = s.parent := rfl
@[simp] theorem withLive_mem (s : State) (l) : (withLive s l).mem = s.mem := rfl

/-! ### lists of live blocks -/

theorem mem_keys {l : List (Ptr × Nat)} {p : Ptr} : p ∈ keys l ↔ ∃ n, (p, n) ∈ l := by
  simp [keys]

theorem keys_append (l₁ l₂ : List (Ptr × Nat)) : keys (l₁ ++ l₂) = keys l₁ ++ keys l₂ := by
  simp [keys]

theorem liveCount_append (l₁ l₂ : List (Ptr × Nat)) (p : Nat) :
    liveCount (l₁ ++ l₂) p = liveCount l₁ p + liveCount l₂ p := by
  simp [liveCount, List.countP_append]

theorem liveCount_single_chunk (a : Addr) (n p : Nat) :
    liveCount [(Ptr.chunk a, n)] p = if a.page = p then 1 else 0 := by
  simp [liveCount, isChunkOf]

theorem liveCount_single_big (id n p : Nat) : liveCount [(Ptr.big id, n)] p = 0 := by
  simp [liveCount, isChunkOf]

theorem liveCount_pos {l : List (Ptr × Nat)} {a : Addr} {n : Nat} (h : (Ptr.chunk a, n) ∈ l) :
    1 ≤ liveCount l a.page := by
  unfold liveCount
  apply List.countP_pos_iff.mpr
  exact ⟨_, h, by simp [isChunkOf]⟩

theorem liveCount_zero {l : List (Ptr × Nat)} {p : Nat} (h : liveCount l p = 0) (a : Addr) (n : Nat)
    (hm : (Ptr.chunk a, n) ∈ l) : a.page ≠ p := by
  unfold liveCount at h
  rw [List.countP_eq_zero] at h
  have := h _ hm
  simpa [isChunkOf] using this

/-- the list after `p` has been given back -/
def dropKey (l : List (Ptr × Nat)) (p : Ptr) : List (Ptr × Nat) := l.filter (fun e => e.1 ≠ p)

theorem mem_dropKey {l : List (Ptr × Nat)} {p : Ptr} {e : Ptr × Nat} : e ∈ dropKey l p ↔ e ∈ l ∧ e.1 ≠ p := by
  simp [dropKey]

theorem keys_dropKey (l : List (Ptr × Nat)) (p : Ptr) : keys (dropKey l p) = (keys l).filter (fun q => q ≠ p) := by
  simp [dropKey, keys, List.filter_map, Function.comp_def]

theorem mem_keys_dropKey {l : List (Ptr × Nat)} {p q : Ptr} : q ∈ keys (dropKey l p) ↔ q ∈ keys l ∧ q ≠ p := by
  rw [keys_dropKey]; simp

theorem nodup_keys_dropKey {l : List (Ptr × Nat)} (p : Ptr) (h : (keys l).Nodup) : (keys (dropKey l p)).Nodup := by
  rw [keys_dropKey]
  exact List.Nodup.sublist List.filter_sublist h

theorem liveCount_dropKey {l : List (Ptr × Nat)} {x : Ptr} {n : Nat} (hnd : (keys l).Nodup) (hm : (x, n) ∈ l) (p : Nat) :
    liveCount (dropKey l x) p + (if isChunkOf p (x, n) then 1 else 0) = liveCount l p := by
  induction l with
  | nil => simp at hm
  | cons e l ih =>
    have hnd' : (keys l).Nodup := (List.nodup_cons.mp (by simpa [keys] using hnd)).2
    have hnot : e.1 ∉ keys l := (List.nodup_cons.mp (by simpa [keys] using hnd)).1
    rcases List.mem_cons.mp hm with h | h
    · -- e is the dropped entry; it does not occur in the tail
      subst h
      have htail : dropKey l x = l := by
        apply List.filter_eq_self.mpr
        intro e he
        simp only [ne_eq, decide_not, Bool.not_eq_eq_eq_not, Bool.not_true, decide_eq_false_iff_not]
        intro hex
        apply hnot
        rw [← hex]
        exact mem_keys.mpr ⟨e.2, he⟩
      have : dropKey ((x, n) :: l) x = dropKey l x := by simp [dropKey]
      rw [this, htail]
      simp only [liveCount, List.countP_cons]
    · have hne : e.1 ≠ x := by
        intro hex
        apply hnot
        rw [hex]
        exact mem_keys.mpr ⟨n, h⟩
      have : dropKey (e :: l) x = e :: dropKey l x := by simp [dropKey, hne]
      rw [this]
      have ih' := ih hnd' h
      simp only [liveCount, List.countP_cons] at ih' ⊢
      omega

theorem isChunkOf_key (p : Nat) (x : Ptr) (n m : Nat) : isChunkOf p (x, n) = isChunkOf p (x, m) := rfl

/-- the list after `p`'s requested size has been changed to `n` -/
def setSize (l : List (Ptr × Nat)) (p : Ptr) (n : Nat) : List (Ptr × Nat) := l.map (fun e => if e.1 = p then (p, n) else e)

theorem keys_setSize (l : List (Ptr × Nat)) (p : Ptr) (n : Nat) : keys (setSize l p n) = keys l := by
  induction l with
  | nil => rfl
  | cons e l ih =>
    simp only [setSize, keys, List.map_cons] at ih ⊢
    rw [ih]
    by_cases h : e.1 = p <;> simp [h]

theorem liveCount_setSize (l : List (Ptr × Nat)) (x : Ptr) (n p : Nat) : liveCount (setSize l x n) p = liveCount l p := by
  induction l with
  | nil => rfl
  | cons e l ih =>
    simp only [setSize, liveCount, List.map_cons, List.countP_cons] at ih ⊢
    rw [ih]
    by_cases h : e.1 = x
    · have : isChunkOf p (x, n) = isChunkOf p e := by
        cases e with | mk a b => simp at h; subst h; rfl
      simp [h, this]
    · simp [h]

theorem mem_setSize {l : List (Ptr × Nat)} {x : Ptr} {n : Nat} {e : Ptr × Nat} (h : e ∈ setSize l x n) :
    (e ∈ l ∧ e.1 ≠ x) ∨ (e = (x, n) ∧ ∃ m, (x, m) ∈ l) := by
  simp only [setSize, List.mem_map] at h
  obtain ⟨e', he', heq⟩ := h
  by_cases hx : e'.1 = x
  · rw [if_pos hx] at heq
    right
    refine ⟨heq.symm, e'.2, ?_⟩
    rw [← hx]; exact he'
  · rw [if_neg hx] at heq
    left; subst heq; exact ⟨he', hx⟩

theorem sizeOf?_some {l : List (Ptr × Nat)} {p : Ptr} {n : Nat} (h : sizeOf? l p = some n) : (p, n) ∈ l := by
  simp only [sizeOf?, Option.map_eq_some_iff] at h
  obtain ⟨e, he, hn⟩ := h
  have hm := List.mem_of_find?_eq_some he
  have hp := List.find?_some he
  simp at hp
  cases e with | mk a b => simp at hp hn; subst hp; subst hn; exact hm

theorem sizeOf?_of_mem {l : List (Ptr × Nat)} {p : Ptr} {n : Nat} (hnd : (keys l).Nodup) (h : (p, n) ∈ l) :
    sizeOf? l p = some n := by
  induction l with
  | nil => simp at h
  | cons e l ih =>
    have hnd' : (keys l).Nodup := (List.nodup_cons.mp (by simpa [keys] using hnd)).2
    have hnot : e.1 ∉ keys l := (List.nodup_cons.mp (by simpa [keys] using hnd)).1
    rcases List.mem_cons.mp h with h | h
    · subst h; simp [sizeOf?]
    · have hne : e.1 ≠ p := by
        intro hex; apply hnot; rw [hex]; exact mem_keys.mpr ⟨n, h⟩
      have := ih hnd' h
      simp only [sizeOf?, List.find?_cons] at this ⊢
      have hb : (e.1 == p) = false := by simpa using hne
      rw [hb]; exact this

/-- two entries with the same key in a duplicate-free list carry the same size -/
theorem size_unique {l : List (Ptr × Nat)} {p : Ptr} {n m : Nat} (hnd : (keys l).Nodup) (h1 : (p, n) ∈ l) (h2 : (p, m) ∈ l) :
    n = m := by
  have a := sizeOf?_of_mem hnd h1
  have b := sizeOf?_of_mem hnd h2
  rw [a] at b; exact Option.some.inj b

/-! ### free lists -/

theorem freeCount_append (l₁ l₂ : List Addr) (p : Nat) : freeCount (l₁ ++ l₂) p = freeCount l₁ p + freeCount l₂ p := by
  simp [freeCount, List.countP_append]

theorem freeCount_single (a : Addr) (p : Nat) : freeCount [a] p = if a.page = p then 1 else 0 := by
  simp [freeCount, List.countP_cons]

theorem freeCount_nil (p : Nat) : freeCount [] p = 0 := rfl

theorem getLast?_decomp {l : List Addr} {f : Addr} (h : l.getLast? = some f) : l = l.dropLast ++ [f] := by
  rcases eq_nil_or_snoc l with h0 | ⟨pre, x, h0⟩
  · subst h0; simp at h
  · subst h0
    simp at h
    subst h
    simp

/-! ### pages of a bin -/

theorem mem_binPages {b : Bin} {p : Nat} : p ∈ binPages b ↔ p ∈ b.activePages ∨ ∃ c, b.cursor = some c ∧ c.page = p := by
  unfold binPages
  cases h : b.cursor with
  | none => simp
  | some c => simp [eq_comm]

/-! ### the initial state -/

theorem inv_init (mt : Bool) : Inv (init mt) where
  size_eq := fun _ => rfl
  page_ok := by intro p pg h; simp [init] at h
  page_count := by intro p pg h; simp [init] at h
  page_part := by intro p pg h; simp [init] at h
  cursor_ok := by intro i c h; simp [init] at h
  cursor_above_free := by intro i c f h; simp [init] at h
  cursor_above_live := by intro i c a n h; simp [init] at h
  active_ok := by intro i p h; simp [init] at h
  active_nodup := by intro i; simp [init]
  free_nodup := by intro i; simp [init]
  free_ok := by intro i f h; simp [init] at h
  live_nodup := by simp [init, keys]
  live_chunk := by intro a n h; simp [init] at h
  live_big := by intro id n h; simp [init] at h
  parent_live := by intro id h; simp [init] at h

/-- the invariant does not mention the byte contents -/
theorem inv_mem {s : State} (h : Inv s) (m : Loc → UInt8) : Inv { s with mem := m } where
  size_eq := h.size_eq
  page_ok := h.page_ok
  page_count := h.page_count
  page_part := h.page_part
  cursor_ok := h.cursor_ok
  cursor_above_free := h.cursor_above_free
  cursor_above_live := h.cursor_above_live
  active_ok := h.active_ok
  active_nodup := h.active_nodup
  free_nodup := h.free_nodup
  free_ok := h.free_ok
  live_nodup := h.live_nodup
  live_chunk := h.live_chunk
  live_big := h.live_big
  parent_live := h.parent_live

end AwsVerif.Proofs.C03
