import AwsVerif.Model.Sba
/-! Facts about the generated constants of allocator_sba.c and about `s_sba_find_bin`.
These are re-proved against the constants regenerated from the source on every run. -/
namespace AwsVerif.Proofs.C03
open AwsVerif.Sba AwsVerif.Gen.SbaConsts

theorem pageSize_eq : pageSize = 4096 := rfl
theorem hdrSize_eq : hdrSize = 32 := rfl
theorem binCount_eq : binCount = 5 := rfl
theorem maxBinSize_eq : maxBinSize = 512 := rfl
theorem countMod_eq : countMod = 4294967296 := rfl
theorem SIZE_MOD_eq : SIZE_MOD = 18446744073709551616 := rfl

/-- a chunk offset of a page of size class `sz`: beyond the header, on the grid, inside the page -/
def SlotOff (sz off : Nat) : Prop := hdrSize ≤ off ∧ (off - hdrSize) % sz = 0 ∧ off + sz ≤ pageSize

/-- number of chunks a page of class `sz` is carved into -/
def slotsPerPage (sz : Nat) : Nat := (pageSize - hdrSize) / sz

theorem mem_binSizes {sz : Nat} : sz ∈ binSizes ↔ sz = 32 ∨ sz = 64 ∨ sz = 128 ∨ sz = 256 ∨ sz = 512 := by
  simp [binSizes]

theorem binSize_mem {i : Nat} (h : i < binCount) : binSize i ∈ binSizes := by
  have : ∀ i, i < binCount → binSize i ∈ binSizes := by decide
  exact this i h

theorem binSize_zero {i : Nat} (h : binCount ≤ i) : binSize i = 0 := by
  unfold binSize binSizes
  rw [binCount_eq] at h
  rw [List.getD_eq_getElem?_getD, List.getElem?_eq_none (by simp only [List.length_cons, List.length_nil]; omega)]
  rfl

theorem binSize_pos {i : Nat} (h : i < binCount) : 0 < binSize i := by
  have := mem_binSizes.mp (binSize_mem h); omega

theorem binSize_lt_binCount {i : Nat} (h : 0 < binSize i) : i < binCount := by
  by_cases hi : i < binCount
  · exact hi
  · have := binSize_zero (Nat.le_of_not_lt hi); omega

set_option maxRecDepth 100000 in
/-- `s_sba_find_bin` returns a bin that exists and whose chunks are large enough … -/
theorem findBin_spec : ∀ n, n < 513 → findBin n < binCount ∧ n ≤ binSize (findBin n) := by decide

set_option maxRecDepth 100000 in
/-- … and the smallest such bin (the "size class" of the request) -/
theorem findBin_min : ∀ n, n < 513 → ∀ j, j < findBin n → binSize j < n := by decide

theorem findBin_lt {n : Nat} (h : n ≤ maxBinSize) : findBin n < binCount :=
  (findBin_spec n (by rw [maxBinSize_eq] at h; omega)).1

theorem findBin_ge {n : Nat} (h : n ≤ maxBinSize) : n ≤ binSize (findBin n) :=
  (findBin_spec n (by rw [maxBinSize_eq] at h; omega)).2

/-- the largest bin serves exactly up to `s_max_bin_size` -/
theorem maxBin_is_last : binSizes.getLast? = some maxBinSize := by decide

/-- the generated test of `s_sba_alloc`: a bin serves exactly the sizes up to `s_max_bin_size` — every larger
size (all the way to SIZE_MAX) goes to the parent; `findBin` is only ever applied to sizes it is specified for -/
theorem servedByBin_iff (size : Nat) : servedByBin size ↔ size ≤ maxBinSize := by
  unfold servedByBin; exact Iff.rfl

/-- the generated `aws_mul_size_checked`: the exact product, or an error when it does not fit 64 bits -/
theorem mul_size_checked_ok {a b : Nat} (h : a * b < SIZE_MOD) : Gen.Math.MathInl.aws_mul_size_checked a b = .ok (a * b) := by
  rw [SIZE_MOD_eq] at h
  show (if a * b ≥ 18446744073709551616 then CSem.Res.err 5 else CSem.Res.ok (a * b % 18446744073709551616)) = _
  rw [if_neg (by omega), Nat.mod_eq_of_lt h]

theorem mul_size_checked_err {a b : Nat} (h : SIZE_MOD ≤ a * b) : ∃ e, Gen.Math.MathInl.aws_mul_size_checked a b = .err e := by
  rw [SIZE_MOD_eq] at h
  refine ⟨5, ?_⟩
  show (if a * b ≥ 18446744073709551616 then CSem.Res.err 5 else CSem.Res.ok (a * b % 18446744073709551616)) = _
  rw [if_pos h]

/-! ### slot arithmetic (for the five size classes) -/

section
variable {sz : Nat} (hsz : sz ∈ binSizes)
include hsz

theorem slot_disjoint {a b : Nat} (ha : SlotOff sz a) (hb : SlotOff sz b) (hne : a ≠ b) :
    a + sz ≤ b ∨ b + sz ≤ a := by
  simp only [SlotOff, hdrSize_eq, pageSize_eq] at ha hb
  rcases mem_binSizes.mp hsz with h | h | h | h | h <;> subst h <;> omega

theorem slot_align {a : Nat} (ha : SlotOff sz a) : a % 32 = 0 := by
  simp only [SlotOff, hdrSize_eq, pageSize_eq] at ha
  rcases mem_binSizes.mp hsz with h | h | h | h | h <;> subst h <;> omega

theorem slot_first : SlotOff sz hdrSize := by
  simp only [SlotOff, hdrSize_eq, pageSize_eq]
  rcases mem_binSizes.mp hsz with h | h | h | h | h <;> subst h <;> omega

theorem slot_next {c : Nat} (hc : SlotOff sz c) (h : ¬ (pageSize - c - sz < sz)) : SlotOff sz (c + sz) := by
  simp only [SlotOff, hdrSize_eq, pageSize_eq] at hc h ⊢
  rcases mem_binSizes.mp hsz with h | h | h | h | h <;> subst h <;> omega

theorem slot_idx_succ {c : Nat} (hc : SlotOff sz c) : (c + sz - hdrSize) / sz = (c - hdrSize) / sz + 1 := by
  simp only [SlotOff, hdrSize_eq, pageSize_eq] at hc ⊢
  rcases mem_binSizes.mp hsz with h | h | h | h | h <;> subst h <;> omega

theorem slot_idx_last {c : Nat} (hc : SlotOff sz c) (h : pageSize - c - sz < sz) :
    (c - hdrSize) / sz + 1 = slotsPerPage sz := by
  simp only [SlotOff, slotsPerPage, hdrSize_eq, pageSize_eq] at hc h ⊢
  rcases mem_binSizes.mp hsz with h | h | h | h | h <;> subst h <;> omega

theorem slot_idx_lt {c : Nat} (hc : SlotOff sz c) : (c - hdrSize) / sz < slotsPerPage sz := by
  simp only [SlotOff, slotsPerPage, hdrSize_eq, pageSize_eq] at hc ⊢
  rcases mem_binSizes.mp hsz with h | h | h | h | h <;> subst h <;> omega

theorem slots_bound : slotsPerPage sz + 1 < countMod := by
  simp only [slotsPerPage, hdrSize_eq, pageSize_eq, countMod_eq]
  rcases mem_binSizes.mp hsz with h | h | h | h | h <;> subst h <;> omega

theorem sz_pos : 0 < sz := by
  rcases mem_binSizes.mp hsz with h | h | h | h | h <;> omega

end

/-- The range test of the purge loop — bounds and comparisons as GENERATED from the source text —
selects, among chunk addresses of the bin's slot grid, exactly the chunks of the drained page.  (As
written the upper bound reaches `sizeof(struct page_header)` bytes into the next page; those bytes
hold that page's header, never a chunk.  The chunk at the very end of a page — offset
`pageSize - sz`, which exists in the 32-byte class — must be accepted.) -/
theorem purgeHit_iff (p : Nat) (a : Addr) {sz : Nat} (hsz : sz ∈ binSizes) (hs : SlotOff sz a.off) :
    purgeHit a.lin (purgeStart (p * pageSize) sz) (purgeEnd (p * pageSize) sz) ↔ a.page = p := by
  simp only [purgeHit, purgeStart, purgeEnd, Addr.lin, SlotOff, hdrSize_eq, pageSize_eq] at *
  rcases mem_binSizes.mp hsz with h | h | h | h | h <;> subst h <;> constructor <;> intro h <;> omega

/-- NULL (the value `chunk` keeps when `aws_array_list_get_at` fails at `chunk_idx = length`) is never accepted -/
theorem purgeHit_null (p : Nat) {sz : Nat} (hsz : sz ∈ binSizes) :
    ¬ purgeHit 0 (purgeStart (p * pageSize) sz) (purgeEnd (p * pageSize) sz) := by
  simp only [purgeHit, purgeStart, purgeEnd, hdrSize_eq, pageSize_eq]
  rcases mem_binSizes.mp hsz with h | h | h | h | h <;> subst h <;> omega

end AwsVerif.Proofs.C03
