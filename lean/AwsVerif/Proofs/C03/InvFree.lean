import AwsVerif.Proofs.C03.InvAlloc
/-! Invariant preservation: the two outcomes of `s_sba_free_to_bin` (chunk pushed onto the free
list; page drained, purged from the free list and returned to the OS). -/
namespace AwsVerif.Proofs.C03
open AwsVerif.Sba AwsVerif.Gen.SbaConsts

theorem isChunkOf_chunk (q : Nat) (a : Addr) (n : Nat) : isChunkOf q (Ptr.chunk a, n) = (a.page == q) := rfl

/-- facts about a live chunk used by both outcomes -/
theorem live_chunk_facts {s : State} (h : Inv s) {a : Addr} {n : Nat} (hm : (Ptr.chunk a, n) ∈ s.live) :
    ∃ pg, s.pages a.page = some pg ∧ pg.bin < binCount ∧ SlotOff (binSize pg.bin) a.off ∧ 1 ≤ pg.allocCount ∧
      pg.allocCount < countMod ∧ a ∉ (s.bins pg.bin).freeChunks ∧
      (∀ q, liveCount (dropKey s.live (Ptr.chunk a)) q + (if a.page = q then 1 else 0) = liveCount s.live q) := by
  obtain ⟨pg, hpg, hslot, _, _⟩ := h.live_chunk a n hm
  refine ⟨pg, hpg, page_bin_lt h hpg, hslot, ?_, ?_, ?_, ?_⟩
  · rw [h.page_count _ _ hpg]; exact liveCount_pos hm
  · have := count_bound h hpg; omega
  · intro hf
    exact (h.free_ok _ a hf).2.2 (mem_keys.mpr ⟨n, hm⟩)
  · intro q
    have := liveCount_dropKey h.live_nodup hm q
    rw [isChunkOf_chunk] at this
    by_cases e : a.page = q
    · simp only [e, beq_self_eq_true, if_true] at this ⊢; exact this
    · have e' : (a.page == q) = false := by simpa using e
      simp only [e', Bool.false_eq_true, if_false, e] at this ⊢; exact this

/-! ### the chunk goes onto the free list -/

theorem inv_freePush {s : State} (h : Inv s) (a : Addr) (n : Nat) (pg : Page)
    (hm : (Ptr.chunk a, n) ∈ s.live) (hpg : s.pages a.page = some pg)
    (hcond : pg.allocCount - 1 ≠ 0 ∨ ∃ c, (s.bins pg.bin).cursor = some c ∧ c.page = a.page) :
    Inv (mkSt s pg.bin { s.bins pg.bin with freeChunks := (s.bins pg.bin).freeChunks ++ [a] } a.page
          (some { pg with allocCount := pg.allocCount - 1 }) (dropKey s.live (Ptr.chunk a))) := by
  obtain ⟨pg0, hpg0, hi, hslot, hc1, _, hnf, hlc⟩ := live_chunk_facts h hm
  rw [hpg] at hpg0; injection hpg0 with e0; subst e0
  have hsubl : ∀ e, e ∈ dropKey s.live (Ptr.chunk a) → e ∈ s.live := fun e he => (mem_dropKey.mp he).1
  refine
    { size_eq := ?_, page_ok := ?_, page_count := ?_, page_part := ?_, cursor_ok := ?_, cursor_above_free := ?_,
      cursor_above_live := ?_, active_ok := ?_, active_nodup := ?_, free_nodup := ?_, free_ok := ?_,
      live_nodup := ?_, live_chunk := ?_, live_big := ?_, parent_live := ?_ }
  · intro j
    simp only [mkSt_bins]
    split
    · rename_i e; subst e; exact h.size_eq _
    · exact h.size_eq j
  · intro q x hx
    simp only [mkSt_pages] at hx
    simp only [mkSt_bins]
    by_cases hq : q = a.page
    · rw [if_pos hq] at hx
      injection hx with hx; subst hx
      obtain ⟨t1, t2, t3, t4⟩ := h.page_ok a.page pg hpg
      refine ⟨t1, t2, t3, ?_⟩
      subst hq
      simp only [if_true]
      exact t4
    · rw [if_neg hq] at hx
      obtain ⟨t1, t2, t3, t4⟩ := h.page_ok q x hx
      refine ⟨t1, t2, t3, ?_⟩
      split
      · rename_i e; rw [e] at t4; exact t4
      · exact t4
  · intro q x hx
    simp only [mkSt_pages] at hx
    simp only [mkSt_live]
    have hl := hlc q
    by_cases hq : q = a.page
    · rw [if_pos hq] at hx
      injection hx with hx; subst hx
      have := h.page_count a.page pg hpg
      subst hq
      simp only [if_true] at hl
      simp only
      omega
    · rw [if_neg hq] at hx
      have := h.page_count q x hx
      rw [if_neg (fun e => hq e.symm)] at hl
      omega
  · intro q x hx
    simp only [mkSt_pages] at hx
    simp only [mkSt_bins]
    by_cases hq : q = a.page
    · rw [if_pos hq] at hx
      injection hx with hx; subst hx
      have hp := h.page_part a.page pg hpg
      subst hq
      simp only [if_true, freeCount_append, freeCount_single] at hp ⊢
      omega
    · rw [if_neg hq] at hx
      have hp := h.page_part q x hx
      by_cases e : x.bin = pg.bin
      · rw [e] at hp ⊢
        rw [if_pos rfl]
        have hne : ¬ a.page = q := fun e' => hq e'.symm
        simp only [freeCount_append, freeCount_single, if_neg hne]
        exact hp
      · rw [if_neg e]; exact hp
  · intro j c hc
    simp only [mkSt_bins] at hc ⊢
    simp only [mkSt_pages]
    have hc' : (s.bins j).cursor = some c := by
      by_cases e : j = pg.bin
      · subst e; rw [if_pos rfl] at hc; exact hc
      · rw [if_neg e] at hc; exact hc
    obtain ⟨⟨x, hx, hxb⟩, t2, t3⟩ := h.cursor_ok j c hc'
    refine ⟨?_, t2, ?_⟩
    · by_cases hq : c.page = a.page
      · rw [if_pos hq]
        rw [hq, hpg] at hx
        injection hx with hx; subst hx
        exact ⟨_, rfl, hxb⟩
      · rw [if_neg hq]; exact ⟨x, hx, hxb⟩
    · split
      · rename_i e; subst e; exact t3
      · exact t3
  · intro j c g hc hg hgc
    simp only [mkSt_bins] at hc hg
    by_cases e : j = pg.bin
    · subst e
      rw [if_pos rfl] at hc hg
      rcases List.mem_append.mp hg with hg | hg
      · exact h.cursor_above_free _ c g hc hg hgc
      · simp at hg; subst hg
        exact h.cursor_above_live _ c g n hc hm hgc
    · rw [if_neg e] at hc hg
      exact h.cursor_above_free j c g hc hg hgc
  · intro j c b m hc hb hbc
    simp only [mkSt_bins] at hc
    simp only [mkSt_live] at hb
    have hc' : (s.bins j).cursor = some c := by
      by_cases e : j = pg.bin
      · subst e; rw [if_pos rfl] at hc; exact hc
      · rw [if_neg e] at hc; exact hc
    exact h.cursor_above_live j c b m hc' (hsubl _ hb) hbc
  · intro j q hq
    simp only [mkSt_bins] at hq
    simp only [mkSt_pages]
    have hq' : q ∈ (s.bins j).activePages := by
      by_cases e : j = pg.bin
      · subst e; rw [if_pos rfl] at hq; exact hq
      · rw [if_neg e] at hq; exact hq
    obtain ⟨x, hx, hxb, hx1⟩ := h.active_ok j q hq'
    by_cases e : q = a.page
    · rw [if_pos e]
      rw [e, hpg] at hx
      injection hx with hx; subst hx
      refine ⟨_, rfl, hxb, ?_⟩
      simp only
      rcases hcond with hc0 | ⟨c, hc, hcp⟩
      · omega
      · exfalso
        subst hxb
        have := (h.cursor_ok _ c hc).2.2
        rw [hcp, ← e] at this
        exact this hq'
    · rw [if_neg e]; exact ⟨x, hx, hxb, hx1⟩
  · intro j
    simp only [mkSt_bins]
    split
    · rename_i e; subst e; exact h.active_nodup _
    · exact h.active_nodup j
  · intro j
    simp only [mkSt_bins]
    split
    · simp only
      rw [List.nodup_append]
      refine ⟨h.free_nodup _, by simp, ?_⟩
      intro x hx y hy
      simp at hy; subst hy
      intro e; subst e; exact hnf hx
    · exact h.free_nodup j
  · intro j g hg
    simp only [mkSt_bins] at hg
    simp only [mkSt_pages, mkSt_live]
    have hg' : g ∈ (s.bins j).freeChunks ∨ (g = a ∧ j = pg.bin) := by
      by_cases e : j = pg.bin
      · subst e
        rw [if_pos rfl] at hg
        rcases List.mem_append.mp hg with hg | hg
        · exact Or.inl hg
        · simp at hg; exact Or.inr ⟨hg, rfl⟩
      · rw [if_neg e] at hg; exact Or.inl hg
    rcases hg' with hg' | ⟨e1, e2⟩
    · obtain ⟨⟨x, hx, hxb⟩, t2, t3⟩ := h.free_ok j g hg'
      refine ⟨?_, t2, fun hk => t3 (mem_keys_dropKey.mp hk).1⟩
      by_cases e : g.page = a.page
      · rw [if_pos e]
        rw [e, hpg] at hx
        injection hx with hx; subst hx
        exact ⟨_, rfl, hxb⟩
      · rw [if_neg e]; exact ⟨x, hx, hxb⟩
    · subst e1; subst e2
      rw [if_pos rfl]
      refine ⟨⟨_, rfl, rfl⟩, hslot, fun hk => (mem_keys_dropKey.mp hk).2 rfl⟩
  · exact nodup_keys_dropKey _ h.live_nodup
  · intro b m hb
    simp only [mkSt_live] at hb
    simp only [mkSt_pages]
    obtain ⟨x, hx, t2, t3, t4⟩ := h.live_chunk b m (hsubl _ hb)
    by_cases e : b.page = a.page
    · rw [if_pos e]
      rw [e, hpg] at hx
      injection hx with hx; subst hx
      exact ⟨_, rfl, t2, t3, t4⟩
    · rw [if_neg e]; exact ⟨x, hx, t2, t3, t4⟩
  · intro id m hb
    simp only [mkSt_live] at hb
    exact h.live_big id m (hsubl _ hb)
  · intro id hp
    simp only [mkSt_live]
    exact mem_keys_dropKey.mpr ⟨h.parent_live id hp, by intro e; cases e⟩

/-! ### the page is drained: purge, unregister, return to the OS -/

theorem freeCount_perm_filter {fc fc' : List Addr} {p q : Nat} (hperm : fc'.Perm (fc.filter (fun g => g.page != p)))
    (hq : q ≠ p) : freeCount fc' q = freeCount fc q := by
  unfold freeCount
  rw [hperm.countP_eq, List.countP_filter]
  apply List.countP_congr
  intro g _
  by_cases e : g.page = q
  · simp [e, hq]
  · simp [e]

theorem inv_freeRelease {s : State} (h : Inv s) (a : Addr) (n : Nat) (pg : Page) (fc' : List Addr)
    (hm : (Ptr.chunk a, n) ∈ s.live) (hpg : s.pages a.page = some pg)
    (hcnt : pg.allocCount - 1 = 0) (hnc : ∀ c, (s.bins pg.bin).cursor = some c → c.page ≠ a.page)
    (hperm : fc'.Perm ((s.bins pg.bin).freeChunks.filter (fun g => g.page != a.page))) :
    Inv (mkSt s pg.bin { s.bins pg.bin with freeChunks := fc', activePages := removePage (s.bins pg.bin).activePages a.page }
          a.page none (dropKey s.live (Ptr.chunk a))) := by
  obtain ⟨pg0, hpg0, hi, hslot, hc1, _, hnf, hlc⟩ := live_chunk_facts h hm
  rw [hpg] at hpg0; injection hpg0 with e0; subst e0
  have hsubl : ∀ e, e ∈ dropKey s.live (Ptr.chunk a) → e ∈ s.live := fun e he => (mem_dropKey.mp he).1
  have hone : pg.allocCount = 1 := by omega
  -- nothing else of this page is live
  have hlc0 : liveCount (dropKey s.live (Ptr.chunk a)) a.page = 0 := by
    have := hlc a.page
    have hc := h.page_count _ _ hpg
    simp only [if_true] at this
    omega
  have hnolive : ∀ b m, (Ptr.chunk b, m) ∈ dropKey s.live (Ptr.chunk a) → b.page ≠ a.page :=
    fun b m hb => liveCount_zero hlc0 b m hb
  -- the page is an active page of its bin
  have hact : a.page ∈ (s.bins pg.bin).activePages := by
    rcases mem_binPages.mp (h.page_ok _ _ hpg).2.2.2 with hx | ⟨c, hc, hcp⟩
    · exact hx
    · exact absurd hcp (hnc c hc)
  have hmem' : ∀ g, g ∈ fc' ↔ g ∈ (s.bins pg.bin).freeChunks ∧ g.page ≠ a.page := by
    intro g
    rw [hperm.mem_iff, List.mem_filter]
    simp
  have hap' : ∀ q, q ∈ removePage (s.bins pg.bin).activePages a.page ↔ q ∈ (s.bins pg.bin).activePages ∧ q ≠ a.page :=
    fun q => mem_removePage _ _ _ (h.active_nodup _)
  -- pages of other bins are different pages
  have hother : ∀ q x, s.pages q = some x → x.bin ≠ pg.bin → q ≠ a.page := by
    intro q x hx hne e
    rw [e, hpg] at hx; injection hx with hx; subst hx; exact hne rfl
  refine
    { size_eq := ?_, page_ok := ?_, page_count := ?_, page_part := ?_, cursor_ok := ?_, cursor_above_free := ?_,
      cursor_above_live := ?_, active_ok := ?_, active_nodup := ?_, free_nodup := ?_, free_ok := ?_,
      live_nodup := ?_, live_chunk := ?_, live_big := ?_, parent_live := ?_ }
  · intro j
    simp only [mkSt_bins]
    split
    · rename_i e; subst e; exact h.size_eq _
    · exact h.size_eq j
  · intro q x hx
    simp only [mkSt_pages] at hx
    simp only [mkSt_bins]
    by_cases hq : q = a.page
    · rw [if_pos hq] at hx; cases hx
    · rw [if_neg hq] at hx
      obtain ⟨t1, t2, t3, t4⟩ := h.page_ok q x hx
      refine ⟨t1, t2, t3, ?_⟩
      by_cases e : x.bin = pg.bin
      · rw [if_pos e]
        rw [e] at t4
        rcases mem_binPages.mp t4 with t4 | ⟨c, hc, hcp⟩
        · exact mem_binPages.mpr (Or.inl ((hap' q).mpr ⟨t4, hq⟩))
        · exact mem_binPages.mpr (Or.inr ⟨c, hc, hcp⟩)
      · rw [if_neg e]; exact t4
  · intro q x hx
    simp only [mkSt_pages] at hx
    simp only [mkSt_live]
    by_cases hq : q = a.page
    · rw [if_pos hq] at hx; cases hx
    · rw [if_neg hq] at hx
      have := h.page_count q x hx
      have hl := hlc q
      rw [if_neg (fun e => hq e.symm)] at hl
      omega
  · intro q x hx
    simp only [mkSt_pages] at hx
    simp only [mkSt_bins]
    by_cases hq : q = a.page
    · rw [if_pos hq] at hx; cases hx
    · rw [if_neg hq] at hx
      have hp := h.page_part q x hx
      by_cases e : x.bin = pg.bin
      · rw [e] at hp ⊢
        rw [if_pos rfl]
        simp only
        rw [freeCount_perm_filter hperm hq]
        exact hp
      · rw [if_neg e]; exact hp
  · intro j c hc
    simp only [mkSt_bins] at hc ⊢
    simp only [mkSt_pages]
    by_cases e : j = pg.bin
    · subst e
      rw [if_pos rfl] at hc ⊢
      simp only at hc
      obtain ⟨⟨x, hx, hxb⟩, t2, t3⟩ := h.cursor_ok _ c hc
      refine ⟨⟨x, ?_, hxb⟩, t2, fun hk => t3 ((hap' _).mp hk).1⟩
      rw [if_neg (hnc c hc)]; exact hx
    · rw [if_neg e] at hc ⊢
      obtain ⟨⟨x, hx, hxb⟩, t2, t3⟩ := h.cursor_ok j c hc
      refine ⟨⟨x, ?_, hxb⟩, t2, t3⟩
      rw [if_neg (hother _ x hx (by rw [hxb]; exact e))]; exact hx
  · intro j c g hc hg hgc
    simp only [mkSt_bins] at hc hg
    by_cases e : j = pg.bin
    · subst e
      rw [if_pos rfl] at hc hg
      exact h.cursor_above_free _ c g hc ((hmem' g).mp hg).1 hgc
    · rw [if_neg e] at hc hg
      exact h.cursor_above_free j c g hc hg hgc
  · intro j c b m hc hb hbc
    simp only [mkSt_bins] at hc
    simp only [mkSt_live] at hb
    have hc' : (s.bins j).cursor = some c := by
      by_cases e : j = pg.bin
      · subst e; rw [if_pos rfl] at hc; exact hc
      · rw [if_neg e] at hc; exact hc
    exact h.cursor_above_live j c b m hc' (hsubl _ hb) hbc
  · intro j q hq
    simp only [mkSt_bins] at hq
    simp only [mkSt_pages]
    by_cases e : j = pg.bin
    · subst e
      rw [if_pos rfl] at hq
      obtain ⟨hq1, hq2⟩ := (hap' q).mp hq
      obtain ⟨x, hx, hxb, hx1⟩ := h.active_ok _ q hq1
      rw [if_neg hq2]; exact ⟨x, hx, hxb, hx1⟩
    · rw [if_neg e] at hq
      obtain ⟨x, hx, hxb, hx1⟩ := h.active_ok j q hq
      rw [if_neg (hother _ x hx (by rw [hxb]; exact e))]; exact ⟨x, hx, hxb, hx1⟩
  · intro j
    simp only [mkSt_bins]
    split
    · exact removePage_nodup _ _ (h.active_nodup _)
    · exact h.active_nodup j
  · intro j
    simp only [mkSt_bins]
    split
    · simp only
      rw [hperm.nodup_iff]
      exact List.Nodup.sublist List.filter_sublist (h.free_nodup _)
    · exact h.free_nodup j
  · intro j g hg
    simp only [mkSt_bins] at hg
    simp only [mkSt_pages, mkSt_live]
    have hg' : g ∈ (s.bins j).freeChunks ∧ g.page ≠ a.page := by
      by_cases e : j = pg.bin
      · subst e
        rw [if_pos rfl] at hg
        exact (hmem' g).mp hg
      · rw [if_neg e] at hg
        refine ⟨hg, ?_⟩
        obtain ⟨⟨x, hx, hxb⟩, _, _⟩ := h.free_ok j g hg
        exact hother _ x hx (by rw [hxb]; exact e)
    obtain ⟨⟨x, hx, hxb⟩, t2, t3⟩ := h.free_ok j g hg'.1
    refine ⟨⟨x, ?_, hxb⟩, t2, fun hk => t3 (mem_keys_dropKey.mp hk).1⟩
    rw [if_neg hg'.2]; exact hx
  · exact nodup_keys_dropKey _ h.live_nodup
  · intro b m hb
    simp only [mkSt_live] at hb
    simp only [mkSt_pages]
    obtain ⟨x, hx, t2, t3, t4⟩ := h.live_chunk b m (hsubl _ hb)
    rw [if_neg (hnolive b m hb)]
    exact ⟨x, hx, t2, t3, t4⟩
  · intro id m hb
    simp only [mkSt_live] at hb
    exact h.live_big id m (hsubl _ hb)
  · intro id hp
    simp only [mkSt_live]
    exact mem_keys_dropKey.mpr ⟨h.parent_live id hp, by intro e; cases e⟩

end AwsVerif.Proofs.C03
