import AwsVerif.Proofs.C03.InvBig
import AwsVerif.Proofs.C03.InvFree
/-! The model's `allocFromBin` / `freeToBin` / `act` take exactly the steps whose invariant
preservation was shown; hence every action preserves the invariant. -/
namespace AwsVerif.Proofs.C03
open AwsVerif.Sba AwsVerif.Gen.SbaConsts

theorem setBin_setPage_comm (s : State) (i : Nat) (b : Bin) (p : Nat) (v : Option Page) :
    setBin (setPage s p v) i b = setPage (setBin s i b) p v := rfl

theorem setPage_setPage (s : State) (p : Nat) (v w : Option Page) : setPage (setPage s p v) p w = setPage s p w := by
  have : (fun q => if q = p then w else (setPage s p v).pages q) = (fun q => if q = p then w else s.pages q) := by
    funext q
    by_cases h : q = p <;> simp [h]
  show ({ (setPage s p v) with pages := fun q => if q = p then w else (setPage s p v).pages q } : State) = _
  rw [this]
  rfl

theorem bumpCount_some {s : State} {p : Nat} {pg : Page} (f : Nat → Nat) (h : s.pages p = some pg) :
    bumpCount s p f = setPage s p (some { pg with allocCount := f pg.allocCount }) := by
  simp only [bumpCount, h]

/-! ### `s_sba_alloc_from_bin` -/

theorem allocFromBin_reuse (os fuel : Nat) (s : State) (i : Nat) (f : Addr) (pg : Page)
    (hlast : (s.bins i).freeChunks.getLast? = some f) (hpg : s.pages f.page = some pg)
    (hb : pg.allocCount + 1 < countMod) :
    allocFromBin os (fuel + 1) s i =
      (setPage (setBin s i { s.bins i with freeChunks := (s.bins i).freeChunks.dropLast }) f.page
        (some { pg with allocCount := pg.allocCount + 1 }), some f) := by
  have hlen : (s.bins i).freeChunks.length > 0 := by
    cases hl : (s.bins i).freeChunks with
    | nil => rw [hl] at hlast; simp at hlast
    | cons x xs => simp
  simp only [allocFromBin, hlen, if_true, hlast, popBack]
  rw [bumpCount_some _ (by simpa using hpg), Nat.mod_eq_of_lt hb]

theorem allocFromBin_carve (os fuel : Nat) (s : State) (i : Nat) (c : Addr) (pg : Page)
    (hfree : (s.bins i).freeChunks = []) (hcur : (s.bins i).cursor = some c)
    (hfit : c.off + (s.bins i).size ≤ pageSize) (hpg : s.pages c.page = some pg)
    (hb : pg.allocCount + 1 < countMod) :
    allocFromBin os (fuel + 1) s i =
      (setPage (setBin s i (carveBin (s.bins i) c)) c.page (some { pg with allocCount := pg.allocCount + 1 }), some c) := by
  have hlen : ¬ (s.bins i).freeChunks.length > 0 := by rw [hfree]; simp
  have hspace : pageSize - c.off ≥ (s.bins i).size := by omega
  have hbc : bumpCount s c.page (fun c => (c + 1) % countMod) =
      setPage s c.page (some { pg with allocCount := pg.allocCount + 1 }) := by
    rw [bumpCount_some _ hpg, Nat.mod_eq_of_lt hb]
  by_cases hl : pageSize - c.off - (s.bins i).size < (s.bins i).size
  · simp only [allocFromBin, hlen, if_false, hcur, hspace, if_true, hl, carveBin, hbc]
    rfl
  · simp only [allocFromBin, hlen, if_false, hcur, hspace, if_true, hl, carveBin, hbc]
    rfl

theorem allocFromBin_newPage (os fuel : Nat) (s : State) (i : Nat)
    (hfree : (s.bins i).freeChunks = []) (hcur : (s.bins i).cursor = none) :
    allocFromBin os (fuel + 1) s i =
      allocFromBin os fuel
        (setPage (setBin s i { s.bins i with cursor := some { page := os, off := hdrSize } }) os
          (some { tag := tagValue, tag2 := tagValue, bin := i, allocCount := 0 })) i := by
  have hlen : ¬ (s.bins i).freeChunks.length > 0 := by rw [hfree]; simp
  simp only [allocFromBin, hlen, if_false, hcur]
  rfl

/-- `s_sba_alloc_from_bin` on a bin of a state satisfying the invariant: it returns a chunk (fuel 2
suffices for the "allocate a page and restart" recursion), and the resulting state with the chunk
recorded as live satisfies the invariant again. -/
theorem allocFromBin_spec {s : State} (h : Inv s) (i os n : Nat) (hi : i < binCount) (hfresh : s.pages os = none)
    (hn1 : 1 ≤ n) (hn2 : n ≤ binSize i) :
    ∃ s' a, allocFromBin os 2 s i = (s', some a) ∧ s'.live = s.live ∧ s'.mem = s.mem ∧ s'.parent = s.parent ∧
      s'.mt = s.mt ∧ Inv (withLive s' (s.live ++ [(Ptr.chunk a, n)])) := by
  cases hlast : (s.bins i).freeChunks.getLast? with
  | some f =>
    obtain ⟨pg, hpg, _, hb, hinv⟩ := inv_reuse h i f n hlast hn1 hn2
    exact ⟨_, f, allocFromBin_reuse os 1 s i f pg hlast hpg hb, rfl, rfl, rfl, rfl, hinv⟩
  | none =>
    have hfree : (s.bins i).freeChunks = [] := List.getLast?_eq_none_iff.mp hlast
    cases hcur : (s.bins i).cursor with
    | some c =>
      obtain ⟨pg, hpg, _, hb, hinv⟩ := inv_carve h i c n hcur hn1 hn2
      have hfit : c.off + (s.bins i).size ≤ pageSize := by
        rw [h.size_eq i]; exact (h.cursor_ok i c hcur).2.1.2.2
      exact ⟨_, c, allocFromBin_carve os 1 s i c pg hfree hcur hfit hpg hb, rfl, rfl, rfl, rfl, hinv⟩
    | none =>
      have h1 := inv_newPage h i os hi hfresh hcur
      rw [allocFromBin_newPage os 1 s i hfree hcur]
      -- the state after binding the new page
      generalize hs1 : (setPage (setBin s i { s.bins i with cursor := some { page := os, off := hdrSize } }) os
          (some { tag := tagValue, tag2 := tagValue, bin := i, allocCount := 0 })) = s1
      have h1' : Inv s1 := by rw [← hs1]; exact h1
      have hcur1 : (s1.bins i).cursor = some { page := os, off := hdrSize } := by rw [← hs1]; simp
      have hfree1 : (s1.bins i).freeChunks = [] := by rw [← hs1]; simpa using hfree
      have hlive1 : s1.live = s.live := by rw [← hs1]; rfl
      obtain ⟨pg, hpg, _, hb, hinv⟩ := inv_carve h1' i _ n hcur1 hn1 hn2
      have hfit : (Addr.mk os hdrSize).off + (s1.bins i).size ≤ pageSize := by
        rw [h1'.size_eq i]; exact (h1'.cursor_ok i _ hcur1).2.1.2.2
      refine ⟨_, _, allocFromBin_carve os 0 s1 i _ pg hfree1 hcur1 hfit hpg hb, ?_, ?_, ?_, ?_, ?_⟩
      · exact hlive1
      · rw [← hs1]; rfl
      · rw [← hs1]; rfl
      · rw [← hs1]; rfl
      · rw [← hlive1]; exact hinv

/-! ### `s_sba_free_to_bin` -/

theorem purge_perm_page {fc : List Addr} (p : Nat) {sz : Nat} (hsz : sz ∈ binSizes)
    (hfc : ∀ g ∈ fc, SlotOff sz g.off) :
    (purgeLoop (purgeStart (p * pageSize) sz) (purgeEnd (p * pageSize) sz) fc.length fc).Perm
      (fc.filter (fun g => g.page != p)) := by
  refine (purgeLoop_perm _ _ (purgeHit_null p hsz) fc).trans ?_
  have : fc.filter (fun a => !inRange (purgeStart (p * pageSize) sz) (purgeEnd (p * pageSize) sz) a) =
      fc.filter (fun g => g.page != p) := by
    apply List.filter_congr
    intro g hg
    have := purgeHit_iff p g hsz (hfc g hg)
    unfold inRange
    by_cases e : g.page = p
    · simp [e, this.mpr e]
    · have hn : ¬ purgeHit g.lin (purgeStart (p * pageSize) sz) (purgeEnd (p * pageSize) sz) := fun hh => e (this.mp hh)
      simp [e, hn]
  rw [this]

/-- `s_sba_free_to_bin` of a live chunk (with the chunk removed from the ghost list) preserves the invariant -/
theorem freeToBin_spec {s : State} (h : Inv s) (a : Addr) (n : Nat) (pg : Page)
    (hm : (Ptr.chunk a, n) ∈ s.live) (hpg : s.pages a.page = some pg) :
    (freeToBin s pg.bin a).live = s.live ∧ (freeToBin s pg.bin a).mem = s.mem ∧ (freeToBin s pg.bin a).mt = s.mt ∧
    (freeToBin s pg.bin a).parent = s.parent ∧
    Inv (withLive (freeToBin s pg.bin a) (dropKey s.live (Ptr.chunk a))) := by
  obtain ⟨pg0, hpg0, hi, hslot, hc1, hc2, _, _⟩ := live_chunk_facts h hm
  rw [hpg] at hpg0; injection hpg0 with e0; subst e0
  have hdec : (pg.allocCount + countMod - 1) % countMod = pg.allocCount - 1 := by
    rw [countMod_eq] at hc2 ⊢; omega
  unfold freeToBin
  simp only [hpg, hdec]
  split
  · -- page drained
    rename_i hcond
    obtain ⟨hcnt, hnc⟩ := hcond
    have hnc' : ∀ c, (s.bins pg.bin).cursor = some c → c.page ≠ a.page := by
      intro c hc e
      apply hnc
      rw [hc, Option.map_some, e]
    have hfc : ∀ g ∈ (s.bins pg.bin).freeChunks, SlotOff (binSize pg.bin) g.off :=
      fun g hg => (h.free_ok _ g hg).2.1
    have hperm := purge_perm_page a.page (binSize_mem hi) hfc
    rw [← h.size_eq pg.bin] at hperm
    have := inv_freeRelease h a n pg _ hm hpg hcnt hnc' hperm
    refine ⟨rfl, rfl, rfl, rfl, ?_⟩
    rw [setBin_setPage_comm, setPage_setPage]
    exact this
  · rename_i hcond
    have hcond' : pg.allocCount - 1 ≠ 0 ∨ ∃ c, (s.bins pg.bin).cursor = some c ∧ c.page = a.page := by
      by_cases e : pg.allocCount - 1 = 0
      · right
        have : ¬ (some a.page ≠ (s.bins pg.bin).cursor.map (·.page)) := fun hh => hcond ⟨e, hh⟩
        have : some a.page = (s.bins pg.bin).cursor.map (·.page) := Classical.not_not.mp this
        cases hc : (s.bins pg.bin).cursor with
        | none => rw [hc] at this; simp at this
        | some c => rw [hc] at this; simp at this; exact ⟨c, rfl, this.symm⟩
      · exact Or.inl e
    have := inv_freePush h a n pg hm hpg hcond'
    exact ⟨rfl, rfl, rfl, rfl, this⟩

/-! ### every action preserves the invariant -/

/-- specification of the `alloc` action inside the API contract -/
theorem act_alloc_spec {s : State} (h : Inv s) (size os big : Nat) (h0 : size ≠ 0) (hlt : size < SIZE_MOD)
    (hos : s.pages os = none) (hbig : s.parent big = none) :
    ∃ s' p, act s (.alloc size os big) = (s', some p) ∧ Inv s' ∧ s'.live = s.live ++ [(p, size)] ∧ s'.mem = s.mem ∧
      s'.mt = s.mt := by
  have hg : ¬ (size = 0 ∨ size ≥ SIZE_MOD ∨ (s.pages os).isSome ∨ (s.parent big).isSome) := by
    rw [hos, hbig]; simp; omega
  simp only [act, hg, if_false]
  unfold sbaAlloc
  by_cases hsmall : size ≤ maxBinSize
  · simp only [(servedByBin_iff size).mpr hsmall, if_true]
    obtain ⟨s1, a, heq, hl, hmm, _, hmt, hinv⟩ :=
      allocFromBin_spec h (findBin size) os size (findBin_lt hsmall) hos (by omega) (findBin_ge hsmall)
    rw [heq]
    simp only [Option.map_some]
    refine ⟨_, _, rfl, ?_, ?_, hmm, hmt⟩
    · rw [hl]; exact hinv
    · simp only; rw [hl]
  · have hns : ¬ servedByBin size := fun hh => hsmall ((servedByBin_iff size).mp hh)
    simp only [hns, if_false]
    refine ⟨_, _, rfl, ?_, rfl, rfl, rfl⟩
    exact inv_bigAlloc h big size hbig (by omega)

/-- specification of the `free` action on a live block -/
theorem act_free_spec {s : State} (h : Inv s) (p : Ptr) (hp : p ∈ keys s.live) :
    Inv (act s (.free p)).1 ∧ (act s (.free p)).1.live = dropKey s.live p ∧ (act s (.free p)).1.mem = s.mem ∧
      (act s (.free p)).1.mt = s.mt := by
  simp only [act, hp, if_true]
  obtain ⟨n, hn⟩ := mem_keys.mp hp
  cases p with
  | big id =>
    simp only [sbaFree]
    exact ⟨inv_bigFree h id, rfl, rfl, rfl⟩
  | chunk a =>
    obtain ⟨pg, hpg, _⟩ := h.live_chunk a n hn
    obtain ⟨t1, t2, _, _⟩ := h.page_ok _ _ hpg
    simp only [sbaFree, hpg, t1, t2, and_self, if_true]
    obtain ⟨k1, k2, k3, _, k5⟩ := freeToBin_spec h a n pg hn hpg
    refine ⟨?_, ?_, k2, k3⟩
    · rw [k1]; exact k5
    · rw [k1]; rfl

theorem inv_act {s : State} (h : Inv s) (a : Act) : Inv (act s a).1 := by
  cases a with
  | alloc size os big =>
    by_cases hg : size = 0 ∨ size ≥ SIZE_MOD ∨ (s.pages os).isSome ∨ (s.parent big).isSome
    · simp only [act, hg, if_true]; exact h
    · have h0 : size ≠ 0 := fun e => hg (Or.inl e)
      have hlt : size < SIZE_MOD := by
        rcases Nat.lt_or_ge size SIZE_MOD with x | x
        · exact x
        · exact absurd (Or.inr (Or.inl x)) hg
      have hos : s.pages os = none := by
        cases hx : s.pages os with
        | none => rfl
        | some v => exact absurd (Or.inr (Or.inr (Or.inl (by rw [hx]; rfl)))) hg
      have hbig : s.parent big = none := by
        cases hx : s.parent big with
        | none => rfl
        | some v => exact absurd (Or.inr (Or.inr (Or.inr (by rw [hx]; rfl)))) hg
      obtain ⟨s', p, heq, hinv, _⟩ := act_alloc_spec h size os big h0 hlt hos hbig
      rw [heq]; exact hinv
  | free p =>
    by_cases hp : p ∈ keys s.live
    · exact (act_free_spec h p hp).1
    · simp only [act, hp, if_false]; exact h
  | write p bs =>
    simp only [act]
    split
    · split
      · exact inv_mem h _
      · exact h
    · exact h
  | copy dst src n =>
    simp only [act]
    split
    · split
      · exact inv_mem h _
      · exact h
    · exact h
  | resize p n =>
    simp only [act]
    split
    · rename_i m hm
      split
      · rename_i hc
        exact inv_resize h p n m (sizeOf?_some hm) hc.1 hc.2
      · exact h
    · exact h

theorem inv_run {s : State} (h : Inv s) (as : List Act) : Inv (run s as) := by
  induction as generalizing s with
  | nil => exact h
  | cons a as ih => exact ih (inv_act h a)

end AwsVerif.Proofs.C03
