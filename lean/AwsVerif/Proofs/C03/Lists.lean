import AwsVerif.Model.Sba
/-! Array-list manipulations of allocator_sba.c: swap-with-last removal, the purge loop, the
removal of a page from `active_pages`. -/
namespace AwsVerif.Proofs.C03
open AwsVerif.Sba

variable {α : Type}

theorem eq_nil_or_snoc (l : List α) : l = [] ∨ ∃ pre x, l = pre ++ [x] := by
  rcases List.eq_nil_or_concat l with h | ⟨a, b, h⟩
  · exact Or.inl h
  · exact Or.inr ⟨a, b, by rw [h, List.concat_eq_append]⟩

/-- swap with the last element then pop: the element at `pre.length` disappears -/
theorem swapPop_last (pre : List α) (x : α) :
    popBack (swapAt (pre ++ [x]) pre.length ((pre ++ [x]).length - 1)) = pre := by
  simp [swapAt, popBack]

theorem swapPop_mid (pre post : List α) (x y : α) :
    popBack (swapAt (pre ++ x :: (post ++ [y])) pre.length ((pre ++ x :: (post ++ [y])).length - 1))
      = pre ++ y :: post := by
  have h1 : (pre ++ x :: (post ++ [y])).length - 1 = pre.length + (post.length + 1) := by
    simp only [List.length_append, List.length_cons, List.length_nil]; omega
  rw [h1]
  have e1 : (pre ++ x :: (post ++ [y]))[pre.length]? = some x := by simp
  have e2 : (pre ++ x :: (post ++ [y]))[pre.length + (post.length + 1)]? = some y := by
    rw [List.getElem?_append_right (by omega)]
    simp
  simp only [swapAt, e1, e2, popBack]
  have : (pre ++ x :: (post ++ [y])).set pre.length y = pre ++ y :: (post ++ [y]) := by simp
  rw [this]
  have : (pre ++ y :: (post ++ [y])).set (pre.length + (post.length + 1)) x = pre ++ y :: (post ++ [x]) := by
    rw [List.set_append_right _ _ (by omega)]
    simp
  rw [this]
  have : pre ++ y :: (post ++ [x]) = (pre ++ y :: post) ++ [x] := by simp
  rw [this, List.dropLast_concat]

/-- removal at index `pre.length` by swap-with-last: a permutation of the list without that element -/
theorem swapPop_perm (pre post : List α) (x : α) :
    (popBack (swapAt (pre ++ x :: post) pre.length ((pre ++ x :: post).length - 1))).Perm (pre ++ post) := by
  rcases eq_nil_or_snoc post with h | ⟨post', y, h⟩
  · subst h
    rw [swapPop_last]; simp
  · subst h
    rw [swapPop_mid]
    refine List.Perm.append_left pre ?_
    exact (List.perm_append_singleton y post').symm

theorem swapPop_mem_post (pre post : List α) (x : α) (P : α → Prop) (hpost : ∀ a ∈ post, P a) :
    ∃ post', popBack (swapAt (pre ++ x :: post) pre.length ((pre ++ x :: post).length - 1)) = pre ++ post' ∧
      post'.Perm post ∧ ∀ a ∈ post', P a := by
  rcases eq_nil_or_snoc post with h | ⟨post', y, h⟩
  · subst h
    exact ⟨[], by rw [swapPop_last]; simp, List.Perm.refl _, by simp⟩
  · subst h
    refine ⟨y :: post', swapPop_mid pre post' x y, (List.perm_append_singleton y post').symm, ?_⟩
    intro a ha
    apply hpost
    simp at ha ⊢
    rcases ha with h | h
    · exact Or.inr h
    · exact Or.inl h

/-! ### purge loop -/

def inRange (ps pe : Nat) (a : Addr) : Bool := decide (AwsVerif.Gen.SbaConsts.purgeHit a.lin ps pe)

theorem purgeStep_at (ps pe : Nat) (pre post : List Addr) (x : Addr) :
    purgeStep ps pe (pre ++ x :: post) pre.length =
      if inRange ps pe x then popBack (swapAt (pre ++ x :: post) pre.length ((pre ++ x :: post).length - 1))
      else pre ++ x :: post := by
  simp [purgeStep, inRange]

theorem purgeStep_none (ps pe : Nat) (hps : ¬ AwsVerif.Gen.SbaConsts.purgeHit 0 ps pe) (l : List Addr) (idx : Nat)
    (h : l.length ≤ idx) : purgeStep ps pe l idx = l := by
  have : l[idx]? = none := by simp [h]
  simp only [purgeStep, this]
  rw [if_neg hps]

/-- processing indices `pre.length, …, 0` when everything behind is already clean -/
theorem purgeLoop_aux (ps pe : Nat) :
    ∀ (n : Nat) (pre : List Addr) (x : Addr) (post : List Addr), pre.length = n →
      (∀ a ∈ post, inRange ps pe a = false) →
      (purgeLoop ps pe n (pre ++ x :: post)).Perm ((pre ++ x :: post).filter (fun a => !inRange ps pe a)) := by
  intro n
  induction n with
  | zero =>
    intro pre x post hl hpost
    have : pre = [] := List.length_eq_zero_iff.mp hl
    subst this
    have hfp : post.filter (fun a => !inRange ps pe a) = post := by
      apply List.filter_eq_self.mpr
      intro a ha; simp [hpost a ha]
    simp only [purgeLoop, List.nil_append]
    have := purgeStep_at ps pe [] post x
    simp only [List.length_nil, List.nil_append] at this
    rw [this]
    by_cases hx : inRange ps pe x = true
    · simp only [hx, if_true]
      have hp := swapPop_perm [] post x
      simp only [List.length_nil, List.nil_append] at hp
      simp [hx, hfp]
      exact hp
    · simp only [Bool.not_eq_true] at hx
      simp [hx, hfp]
  | succ n ih =>
    intro pre x post hl hpost
    have hne : pre ≠ [] := by intro h; subst h; simp at hl
    obtain ⟨pre', x', rfl⟩ : ∃ pre' x', pre = pre' ++ [x'] := by
      rcases eq_nil_or_snoc pre with h | ⟨a, b, h⟩
      · exact absurd h hne
      · exact ⟨a, b, h⟩
    have hl' : pre'.length = n := by simp at hl; omega
    simp only [purgeLoop]
    have hidx : n + 1 = (pre' ++ [x']).length := by simp [hl']
    have hstep := purgeStep_at ps pe (pre' ++ [x']) post x
    rw [← hidx] at hstep
    rw [hstep]
    by_cases hx : inRange ps pe x = true
    · simp only [hx, if_true]
      obtain ⟨post', hEq, hperm, hclean⟩ :=
        swapPop_mem_post (pre' ++ [x']) post x (fun a => inRange ps pe a = false) hpost
      rw [hidx, hEq]
      have : pre' ++ [x'] ++ post' = pre' ++ x' :: post' := by simp
      rw [this]
      have hl2 : pre'.length = n := hl'
      refine (ih pre' x' post' hl2 hclean).trans ?_
      have : (pre' ++ [x'] ++ x :: post) = pre' ++ x' :: x :: post := by simp
      rw [this]
      simp only [List.filter_append, List.filter_cons, hx, Bool.not_true]
      refine List.Perm.append_left _ ?_
      split
      · exact List.Perm.cons _ (hperm.filter _)
      · exact hperm.filter _
    · simp only [Bool.not_eq_true] at hx
      simp only [hx]
      have : (pre' ++ [x'] ++ x :: post) = pre' ++ x' :: (x :: post) := by simp
      simp only [Bool.false_eq_true, if_false]
      rw [this]
      refine ih pre' x' (x :: post) hl' ?_
      intro a ha
      rcases List.mem_cons.mp ha with h | h
      · subst h; exact hx
      · exact hpost a h

/-- the purge loop as written (`chunk_idx` from `length` down to 0) removes exactly the chunks
the (generated) range test accepts, up to order; NULL must fail the test because the failed `get_at`
at `chunk_idx = length` leaves `chunk = NULL` -/
theorem purgeLoop_perm (ps pe : Nat) (hps : ¬ AwsVerif.Gen.SbaConsts.purgeHit 0 ps pe) (l : List Addr) :
    (purgeLoop ps pe l.length l).Perm (l.filter (fun a => !inRange ps pe a)) := by
  rcases eq_nil_or_snoc l with h | ⟨pre, x, h⟩
  · subst h
    simp [purgeLoop, purgeStep_none ps pe hps [] 0 (by simp)]
  · subst h
    have hlen : (pre ++ [x]).length = pre.length + 1 := by simp
    rw [hlen]
    simp only [purgeLoop]
    rw [purgeStep_none ps pe hps _ _ (by simp)]
    exact purgeLoop_aux ps pe pre.length pre x [] rfl (by simp)

/-! ### removal of a page from the active list -/

theorem removePage_not_mem (l : List Nat) (p : Nat) (h : p ∉ l) : removePage l p = l := by
  have : l.findIdx? (fun q => q == p) = none := by
    rw [List.findIdx?_eq_none_iff]
    intro x hx
    simp
    intro hxp; subst hxp; exact h hx
  simp [removePage, this]

theorem removePage_perm (l : List Nat) (p : Nat) (h : p ∈ l) : (p :: removePage l p).Perm l := by
  have hsome : ∃ i, l.findIdx? (fun q => q == p) = some i := by
    cases hf : l.findIdx? (fun q => q == p) with
    | some i => exact ⟨i, rfl⟩
    | none =>
      rw [List.findIdx?_eq_none_iff] at hf
      have := hf p h
      simp at this
  obtain ⟨i, hi⟩ := hsome
  obtain ⟨hlt, hpi, _⟩ := List.findIdx?_eq_some_iff_getElem.mp hi
  simp only [removePage, hi]
  have hp : l[i] = p := by simpa using hpi
  -- decompose l around i
  have hdec : l = l.take i ++ l[i] :: l.drop (i + 1) := by
    rw [List.getElem_cons_drop, List.take_append_drop]
  have hlen : (l.take i).length = i := by simp; omega
  have := swapPop_perm (l.take i) (l.drop (i + 1)) l[i]
  rw [← hdec, hlen] at this
  refine (List.Perm.cons p this).trans ?_
  rw [← hp]
  conv => rhs; rw [hdec]
  exact List.perm_middle.symm

theorem removePage_nodup (l : List Nat) (p : Nat) (hn : l.Nodup) : (removePage l p).Nodup := by
  by_cases h : p ∈ l
  · have := (removePage_perm l p h).nodup_iff.mpr hn
    exact (List.nodup_cons.mp this).2
  · rw [removePage_not_mem l p h]; exact hn

theorem mem_removePage (l : List Nat) (p q : Nat) (hn : l.Nodup) : q ∈ removePage l p ↔ q ∈ l ∧ q ≠ p := by
  by_cases h : p ∈ l
  · have hperm := removePage_perm l p h
    have hnd := hperm.nodup_iff.mpr hn
    have hnot : p ∉ removePage l p := (List.nodup_cons.mp hnd).1
    constructor
    · intro hq
      refine ⟨hperm.mem_iff.mp (List.mem_cons_of_mem _ hq), ?_⟩
      intro e; subst e; exact hnot hq
    · rintro ⟨hq, hne⟩
      rcases List.mem_cons.mp (hperm.mem_iff.mpr hq) with e | e
      · exact absurd e hne
      · exact e
  · rw [removePage_not_mem l p h]
    constructor
    · intro hq; exact ⟨hq, fun e => h (e ▸ hq)⟩
    · exact fun hq => hq.1

end AwsVerif.Proofs.C03
