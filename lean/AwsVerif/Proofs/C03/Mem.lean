import AwsVerif.Proofs.C03.Metrics
/-! Byte-level consequences: live blocks occupy pairwise disjoint byte ranges; `realloc` keeps
`min old new` bytes and `calloc` zeroes, writing to no other live block. -/
namespace AwsVerif.Proofs.C03
open AwsVerif.Sba AwsVerif.Gen.SbaConsts

/-! ### geometry of live blocks -/

/-- a live chunk lies in a held page behind the header, inside the page, 32-byte aligned, and its
bin's chunk size covers the requested size -/
theorem live_chunk_geometry {s : State} (h : Inv s) {a : Addr} {n : Nat} (hm : (Ptr.chunk a, n) ∈ s.live) :
    ∃ pg, s.pages a.page = some pg ∧ pg.bin < binCount ∧ hdrSize ≤ a.off ∧ a.off + binSize pg.bin ≤ pageSize ∧
      a.off % 32 = 0 ∧ 1 ≤ n ∧ n ≤ binSize pg.bin := by
  obtain ⟨pg, hpg, hs, h1, h2⟩ := h.live_chunk a n hm
  have hi := page_bin_lt h hpg
  exact ⟨pg, hpg, hi, hs.1, hs.2.2, slot_align (binSize_mem hi) hs, h1, h2⟩

/-- two different live blocks share no byte (over their requested sizes; for chunks even over the
whole chunk) -/
theorem live_disjoint {s : State} (h : Inv s) {p1 p2 : Ptr} {n1 n2 : Nat}
    (h1 : (p1, n1) ∈ s.live) (h2 : (p2, n2) ∈ s.live) (hne : p1 ≠ p2) :
    ∀ i j, i < n1 → j < n2 → p1.at i ≠ p2.at j := by
  intro i j hi hj
  cases p1 with
  | chunk a =>
    cases p2 with
    | chunk b =>
      simp only [Ptr.at]
      intro e
      injection e with e1 e2
      obtain ⟨pga, hpa, hsa, _, hna⟩ := h.live_chunk a n1 h1
      obtain ⟨pgb, hpb, hsb, _, hnb⟩ := h.live_chunk b n2 h2
      rw [e1, hpb] at hpa
      injection hpa with e3; subst e3
      have hoff : a.off ≠ b.off := by
        intro eo
        apply hne
        cases a; cases b; simp at e1 eo; subst e1; subst eo; rfl
      have hbl := page_bin_lt h hpb
      have := slot_disjoint (binSize_mem hbl) hsa hsb hoff
      omega
    | big id => simp [Ptr.at]
  | big id =>
    cases p2 with
    | chunk b => simp [Ptr.at]
    | big id2 =>
      simp only [Ptr.at]
      intro e
      injection e with e1 _
      exact hne (by rw [e1])

/-! ### ghost memory -/

theorem readBytes_length (m : Loc → UInt8) (p : Ptr) (n : Nat) : (readBytes m p n).length = n := by
  simp [readBytes]

theorem readBytes_getD (m : Loc → UInt8) (p : Ptr) (n i : Nat) (hi : i < n) : (readBytes m p n).getD i 0 = m (p.at i) := by
  simp [readBytes, List.getD_eq_getElem?_getD, hi]

theorem toArray_getD (bs : List UInt8) (i : Nat) : bs.toArray.getD i 0 = bs.getD i 0 := by
  simp [Array.getD_eq_getD_getElem?, List.getD_eq_getElem?_getD]

theorem writeBytes_at (m : Loc → UInt8) (q : Ptr) (bs : List UInt8) (i : Nat) (hi : i < bs.length) :
    writeBytes m q bs (q.at i) = bs.getD i 0 := by
  cases q with
  | chunk a =>
    show (if a.page = a.page ∧ a.off ≤ a.off + i ∧ a.off + i < a.off + bs.toArray.size then bs.toArray.getD (a.off + i - a.off) 0
      else m (Loc.pg a.page (a.off + i))) = _
    rw [if_pos ⟨rfl, by omega, by rw [List.size_toArray]; omega⟩, toArray_getD]
    congr 1; omega
  | big id =>
    show (if id = id ∧ i < bs.toArray.size then bs.toArray.getD i 0 else m (Loc.big id i)) = _
    rw [if_pos ⟨rfl, by rw [List.size_toArray]; exact hi⟩, toArray_getD]

theorem writeBytes_frame (m : Loc → UInt8) (q : Ptr) (bs : List UInt8) (l : Loc)
    (h : ∀ j, j < bs.length → l ≠ q.at j) : writeBytes m q bs l = m l := by
  cases q with
  | chunk a =>
    cases l with
    | pg page o =>
      simp only [writeBytes, writeBytesA, List.size_toArray]
      split
      · rename_i hc
        exfalso
        apply h (o - a.off) (by omega)
        simp only [Ptr.at]
        rw [hc.1]
        congr 1; omega
      · rfl
    | big id o => rfl
  | big id =>
    cases l with
    | pg page o => rfl
    | big id' o =>
      simp only [writeBytes, writeBytesA, List.size_toArray]
      split
      · rename_i hc
        exfalso
        apply h o hc.2
        simp only [Ptr.at]; rw [hc.1]
      · rfl

/-! ### realloc -/

theorem not_mem_keys_of_append {l : List (Ptr × Nat)} {q : Ptr} {n : Nat} (h : (keys (l ++ [(q, n)])).Nodup) : q ∉ keys l := by
  rw [keys_append, List.nodup_append] at h
  intro hq
  exact h.2.2 q hq q (by simp [keys]) rfl

/-- the move path of realloc (new block, copy of `k` bytes, old block freed) -/
theorem reallocMove_spec {s : State} (h : Inv s) (p : Ptr) (old k new os big : Nat)
    (hp : (p, old) ∈ s.live) (hk1 : k ≤ old) (hk2 : k ≤ new) (hnew : 1 ≤ new) (hlt : new < SIZE_MOD)
    (hos : s.pages os = none) (hbig : s.parent big = none) :
    ∃ s' q, reallocMove s p k new os big = (s', some q) ∧ Inv s' ∧ q ∉ keys s.live ∧
      s'.live = dropKey (s.live ++ [(q, new)]) p ∧
      (∀ i, i < k → s'.mem (q.at i) = s.mem (p.at i)) ∧
      (∀ r n, (r, n) ∈ s.live → r ≠ p → ∀ i, i < n → s'.mem (r.at i) = s.mem (r.at i)) := by
  obtain ⟨s1, q, heq, hinv1, hl1, hm1, _⟩ := act_alloc_spec h new os big (by omega) hlt hos hbig
  have hnd1 := hinv1.live_nodup
  rw [hl1] at hnd1
  have hq : q ∉ keys s.live := not_mem_keys_of_append hnd1
  have hqp : q ≠ p := fun e => hq (e ▸ mem_keys.mpr ⟨old, hp⟩)
  have hp1 : (p, old) ∈ s1.live := by rw [hl1]; exact List.mem_append_left _ hp
  have hq1 : (q, new) ∈ s1.live := by rw [hl1]; exact List.mem_append_right _ (by simp)
  have hsq : sizeOf? s1.live q = some new := sizeOf?_of_mem hinv1.live_nodup hq1
  have hsp : sizeOf? s1.live p = some old := sizeOf?_of_mem hinv1.live_nodup hp1
  -- the copy
  have hcopy : (act s1 (.copy q p k)).1 = { s1 with mem := writeBytes s1.mem q (readBytes s1.mem p k) } := by
    simp only [act, hsq, hsp]
    rw [if_pos ⟨hk2, hk1⟩]
    rfl
  have hinv2 : Inv (act s1 (.copy q p k)).1 := inv_act hinv1 _
  have hp2 : p ∈ keys (act s1 (.copy q p k)).1.live := by
    rw [hcopy]; exact mem_keys.mpr ⟨old, hp1⟩
  obtain ⟨hinv3, hl3, hm3, _⟩ := act_free_spec hinv2 p hp2
  refine ⟨_, q, ?_, hinv3, hq, ?_, ?_, ?_⟩
  · simp only [reallocMove, heq]
  · rw [hl3, hcopy]; simp only; rw [hl1]
  · intro i hi
    rw [hm3, hcopy]
    simp only
    rw [writeBytes_at _ _ _ _ (by rw [readBytes_length]; exact hi), readBytes_getD _ _ _ _ hi, hm1]
  · intro r n hr hrp i hi
    rw [hm3, hcopy]
    simp only
    rw [writeBytes_frame, hm1]
    intro j hj
    rw [readBytes_length] at hj
    have hr1 : (r, n) ∈ s1.live := by rw [hl1]; exact List.mem_append_left _ hr
    have hrq : r ≠ q := fun e => hq (e ▸ mem_keys.mpr ⟨n, hr⟩)
    exact live_disjoint hinv1 hr1 hq1 hrq i j hi (by omega)

/-- `aws_mem_realloc` on the small-block allocator (all four cases, across the bin/parent boundary
in both directions): the result is live with the new size, its first `min old new` bytes are the
old block's, every other live block stays live with its contents, nothing else becomes live. -/
theorem realloc_spec {s : State} (h : Inv s) (p : Ptr) (old new os big : Nat)
    (hp : (p, old) ∈ s.live) (hnew : 1 ≤ new) (hlt : new < SIZE_MOD)
    (hos : s.pages os = none) (hbig : s.parent big = none) :
    ∃ s' q, realloc s p old new os big = (s', some q) ∧ Inv s' ∧ (q, new) ∈ s'.live ∧
      (∀ i, i < min old new → s'.mem (q.at i) = s.mem (p.at i)) ∧
      (∀ r n, (r, n) ∈ s.live → r ≠ p → (r, n) ∈ s'.live ∧ r ≠ q ∧ ∀ i, i < n → s'.mem (r.at i) = s.mem (r.at i)) ∧
      (∀ r n, (r, n) ∈ s'.live → (r = q ∧ n = new) ∨ ((r, n) ∈ s.live ∧ r ≠ p)) := by
  have hmove : ∀ k, k ≤ old → k ≤ new → (∀ i, i < min old new → i < k) →
      ∃ s' q, reallocMove s p k new os big = (s', some q) ∧ Inv s' ∧ (q, new) ∈ s'.live ∧
      (∀ i, i < min old new → s'.mem (q.at i) = s.mem (p.at i)) ∧
      (∀ r n, (r, n) ∈ s.live → r ≠ p → (r, n) ∈ s'.live ∧ r ≠ q ∧ ∀ i, i < n → s'.mem (r.at i) = s.mem (r.at i)) ∧
      (∀ r n, (r, n) ∈ s'.live → (r = q ∧ n = new) ∨ ((r, n) ∈ s.live ∧ r ≠ p)) := by
    intro k hk1 hk2 hmin
    obtain ⟨s', q, heq, hinv, hq, hl, hc, hf⟩ := reallocMove_spec h p old k new os big hp hk1 hk2 hnew hlt hos hbig
    have hqp : q ≠ p := fun e => hq (e ▸ mem_keys.mpr ⟨old, hp⟩)
    refine ⟨s', q, heq, hinv, ?_, fun i hi => hc i (hmin i hi), ?_, ?_⟩
    · rw [hl]; exact mem_dropKey.mpr ⟨List.mem_append_right _ (by simp), hqp⟩
    · intro r n hr hrp
      refine ⟨?_, fun e => hq (e ▸ mem_keys.mpr ⟨n, hr⟩), hf r n hr hrp⟩
      rw [hl]; exact mem_dropKey.mpr ⟨List.mem_append_left _ hr, hrp⟩
    · intro r n hr
      rw [hl] at hr
      obtain ⟨hr1, hr2⟩ := mem_dropKey.mp hr
      rcases List.mem_append.mp hr1 with hr1 | hr1
      · exact Or.inr ⟨hr1, hr2⟩
      · simp at hr1; exact Or.inl hr1
  unfold realloc
  rw [if_neg (by omega)]
  by_cases hboth : old > maxBinSize ∧ new > maxBinSize
  · rw [if_pos hboth]
    exact hmove (min old new) (Nat.min_le_left _ _) (Nat.min_le_right _ _) (fun i hi => hi)
  · rw [if_neg hboth]
    by_cases hshrink : old > new
    · rw [if_pos hshrink]
      have hs : sizeOf? s.live p = some old := sizeOf?_of_mem h.live_nodup hp
      have heq : (act s (.resize p new)).1 = withLive s (setSize s.live p new) := by
        simp only [act, hs]
        rw [if_pos ⟨hnew, by omega⟩]
        rfl
      refine ⟨_, p, rfl, inv_act h _, ?_, ?_, ?_, ?_⟩
      · rw [heq]
        simp only [withLive_live, setSize, List.mem_map]
        exact ⟨(p, old), hp, by simp⟩
      · intro i _; rw [heq]; rfl
      · intro r n hr hrp
        refine ⟨?_, hrp, fun i _ => by rw [heq]; rfl⟩
        rw [heq]
        simp only [withLive_live, setSize, List.mem_map]
        exact ⟨(r, n), hr, by simp [hrp]⟩
      · intro r n hr
        rw [heq] at hr
        rcases mem_setSize hr with ⟨hr1, hr2⟩ | ⟨hr1, _⟩
        · exact Or.inr ⟨hr1, hr2⟩
        · injection hr1 with e1 e2; exact Or.inl ⟨e1, e2⟩
    · rw [if_neg hshrink]
      exact hmove old (Nat.le_refl _) (by omega) (fun i hi => by omega)

/-! ### calloc -/

/-- `aws_mem_calloc`: the block is live with size `num*size`, all of its bytes are 0, every other
live block keeps its contents -/
theorem calloc_spec {s : State} (h : Inv s) (num size os big : Nat) (h1 : num ≠ 0) (h2 : size ≠ 0)
    (hlt : num * size < SIZE_MOD) (hos : s.pages os = none) (hbig : s.parent big = none) :
    ∃ s' q, calloc s num size os big = (s', some q) ∧ Inv s' ∧ q ∉ keys s.live ∧
      s'.live = s.live ++ [(q, num * size)] ∧
      (∀ i, i < num * size → s'.mem (q.at i) = 0) ∧
      (∀ r n, (r, n) ∈ s.live → ∀ i, i < n → s'.mem (r.at i) = s.mem (r.at i)) := by
  have hpos : num * size ≠ 0 := Nat.mul_ne_zero h1 h2
  obtain ⟨s1, q, heq, hinv1, hl1, hm1, _⟩ := act_alloc_spec h (num * size) os big hpos hlt hos hbig
  have hnd1 := hinv1.live_nodup
  rw [hl1] at hnd1
  have hq : q ∉ keys s.live := not_mem_keys_of_append hnd1
  have hq1 : (q, num * size) ∈ s1.live := by rw [hl1]; exact List.mem_append_right _ (by simp)
  have hsq : sizeOf? s1.live q = some (num * size) := sizeOf?_of_mem hinv1.live_nodup hq1
  have hw : (act s1 (.write q (List.replicate (num * size) 0))).1 =
      { s1 with mem := writeBytes s1.mem q (List.replicate (num * size) 0) } := by
    simp only [act, hsq]
    rw [if_pos (by simp)]
    rfl
  have hg : ¬ (num = 0 ∨ size = 0) := by omega
  refine ⟨(act s1 (.write q (List.replicate (num * size) 0))).1, q, ?_, inv_act hinv1 _, hq, ?_, ?_, ?_⟩
  · simp only [calloc, hg, if_false, mul_size_checked_ok hlt, heq]
  · rw [hw]; exact hl1
  · intro i hi
    rw [hw]
    simp only
    rw [writeBytes_at _ _ _ _ (by simpa using hi)]
    simp [List.getD_eq_getElem?_getD, hi]
  · intro r n hr i hi
    rw [hw]
    simp only
    rw [writeBytes_frame, hm1]
    intro j hj
    simp at hj
    have hr1 : (r, n) ∈ s1.live := by rw [hl1]; exact List.mem_append_left _ hr
    have hrq : r ≠ q := fun e => hq (e ▸ mem_keys.mpr ⟨n, hr⟩)
    exact live_disjoint hinv1 hr1 hq1 hrq i j hi hj

end AwsVerif.Proofs.C03
