import AwsVerif.Proofs.C03.Inv
/-! Invariant preservation: parent-served blocks and the ghost-only `resize`. -/
namespace AwsVerif.Proofs.C03
open AwsVerif.Sba AwsVerif.Gen.SbaConsts

theorem chunk_mem_append_big {l : List (Ptr × Nat)} {a : Addr} {n id m : Nat}
    (h : (Ptr.chunk a, n) ∈ l ++ [(Ptr.big id, m)]) : (Ptr.chunk a, n) ∈ l := by
  rcases List.mem_append.mp h with h | h
  · exact h
  · simp at h

theorem inv_bigAlloc {s : State} (h : Inv s) (id size : Nat) (hfresh : s.parent id = none) (hsz : 1 ≤ size) :
    Inv (withLive (setParent s id (some size)) (s.live ++ [(Ptr.big id, size)])) where
  size_eq := h.size_eq
  page_ok := h.page_ok
  page_count := by
    intro p pg hp
    have := h.page_count p pg hp
    simp only [withLive_live, liveCount_append, liveCount_single_big]
    omega
  page_part := h.page_part
  cursor_ok := h.cursor_ok
  cursor_above_free := h.cursor_above_free
  cursor_above_live := by
    intro i c a n hc hm
    exact h.cursor_above_live i c a n hc (chunk_mem_append_big hm)
  active_ok := h.active_ok
  active_nodup := h.active_nodup
  free_nodup := h.free_nodup
  free_ok := by
    intro i f hf
    obtain ⟨h1, h2, h3⟩ := h.free_ok i f hf
    refine ⟨h1, h2, ?_⟩
    simp only [withLive_live, keys_append]
    intro hm
    rcases List.mem_append.mp hm with hm | hm
    · exact h3 hm
    · simp [keys] at hm
  live_nodup := by
    simp only [withLive_live, keys_append]
    rw [List.nodup_append]
    refine ⟨h.live_nodup, by simp [keys], ?_⟩
    intro a ha b hb
    simp [keys] at hb
    subst hb
    intro e; subst e
    obtain ⟨n, hn⟩ := mem_keys.mp ha
    have := (h.live_big id n hn).1
    rw [hfresh] at this
    simp at this
  live_chunk := by
    intro a n hm
    exact h.live_chunk a n (chunk_mem_append_big hm)
  live_big := by
    intro id' n hm
    simp only [withLive_live] at hm
    simp only [withLive_parent, setParent_parent]
    rcases List.mem_append.mp hm with hm | hm
    · have := h.live_big id' n hm
      split
      · exact ⟨rfl, this.2⟩
      · exact this
    · simp at hm
      obtain ⟨e1, e2⟩ := hm
      subst e1; subst e2
      simp [hsz]
  parent_live := by
    intro id' hp
    simp only [withLive_parent, setParent_parent] at hp
    simp only [withLive_live, keys_append]
    by_cases e : id' = id
    · subst e
      exact List.mem_append_right _ (by simp [keys])
    · rw [if_neg e] at hp
      exact List.mem_append_left _ (h.parent_live id' hp)

theorem inv_bigFree {s : State} (h : Inv s) (id : Nat) :
    Inv (withLive (setParent s id none) (dropKey s.live (Ptr.big id))) where
  size_eq := h.size_eq
  page_ok := h.page_ok
  page_count := by
    intro p pg hp
    have hc := h.page_count p pg hp
    simp only [withLive_live]
    by_cases hm : Ptr.big id ∈ keys s.live
    · obtain ⟨n, hn⟩ := mem_keys.mp hm
      have := liveCount_dropKey h.live_nodup hn p
      simp [isChunkOf] at this
      omega
    · have : dropKey s.live (Ptr.big id) = s.live := by
        apply List.filter_eq_self.mpr
        intro e he
        simp only [ne_eq, decide_not, Bool.not_eq_eq_eq_not, Bool.not_true, decide_eq_false_iff_not]
        intro hex
        exact hm (hex ▸ mem_keys.mpr ⟨e.2, he⟩)
      rw [this]; exact hc
  page_part := h.page_part
  cursor_ok := h.cursor_ok
  cursor_above_free := h.cursor_above_free
  cursor_above_live := by
    intro i c a n hc hm
    exact h.cursor_above_live i c a n hc (mem_dropKey.mp hm).1
  active_ok := h.active_ok
  active_nodup := h.active_nodup
  free_nodup := h.free_nodup
  free_ok := by
    intro i f hf
    obtain ⟨h1, h2, h3⟩ := h.free_ok i f hf
    exact ⟨h1, h2, fun hm => h3 (mem_keys_dropKey.mp hm).1⟩
  live_nodup := nodup_keys_dropKey _ h.live_nodup
  live_chunk := by
    intro a n hm
    exact h.live_chunk a n (mem_dropKey.mp hm).1
  live_big := by
    intro id' n hm
    obtain ⟨hm1, hm2⟩ := mem_dropKey.mp hm
    have := h.live_big id' n hm1
    simp only [withLive_parent, setParent_parent]
    have hne : id' ≠ id := by
      intro e; subst e; exact hm2 rfl
    rw [if_neg hne]; exact this
  parent_live := by
    intro id' hp
    simp only [withLive_parent, setParent_parent] at hp
    by_cases e : id' = id
    · subst e; simp at hp
    · rw [if_neg e] at hp
      exact mem_keys_dropKey.mpr ⟨h.parent_live id' hp, by intro e'; exact e (Ptr.big.inj e')⟩

theorem inv_resize {s : State} (h : Inv s) (x : Ptr) (n m : Nat) (hm : (x, m) ∈ s.live) (h1 : 1 ≤ n) (h2 : n ≤ m) :
    Inv (withLive s (setSize s.live x n)) where
  size_eq := h.size_eq
  page_ok := h.page_ok
  page_count := by
    intro p pg hp
    simp only [withLive_live, liveCount_setSize]
    exact h.page_count p pg hp
  page_part := h.page_part
  cursor_ok := h.cursor_ok
  cursor_above_free := h.cursor_above_free
  cursor_above_live := by
    intro i c a k hc hmem
    rcases mem_setSize hmem with ⟨h', _⟩ | ⟨h', k', hk'⟩
    · exact h.cursor_above_live i c a k hc h'
    · have : x = Ptr.chunk a := by injection h' with e1 _; exact e1.symm
      subst this
      exact h.cursor_above_live i c a k' hc hk'
  active_ok := h.active_ok
  active_nodup := h.active_nodup
  free_nodup := h.free_nodup
  free_ok := by
    intro i f hf
    simp only [withLive_live, keys_setSize]
    exact h.free_ok i f hf
  live_nodup := by
    simp only [withLive_live, keys_setSize]; exact h.live_nodup
  live_chunk := by
    intro a k hmem
    rcases mem_setSize hmem with ⟨h', _⟩ | ⟨h', k', hk'⟩
    · exact h.live_chunk a k h'
    · have hx : x = Ptr.chunk a := by injection h' with e1 _; exact e1.symm
      have hk : k = n := by injection h' with _ e2
      subst hx; subst hk
      have hmm := size_unique h.live_nodup hk' hm
      subst hmm
      obtain ⟨pg, hp, hs, _, hle⟩ := h.live_chunk a k' hk'
      exact ⟨pg, hp, hs, h1, by omega⟩
  live_big := by
    intro id k hmem
    rcases mem_setSize hmem with ⟨h', _⟩ | ⟨h', k', hk'⟩
    · exact h.live_big id k h'
    · have hx : x = Ptr.big id := by injection h' with e1 _; exact e1.symm
      have hk : k = n := by injection h' with _ e2
      subst hx; subst hk
      exact ⟨(h.live_big id k' hk').1, h1⟩
  parent_live := by
    intro id hp
    simp only [withLive_live, keys_setSize]
    exact h.parent_live id hp

end AwsVerif.Proofs.C03
