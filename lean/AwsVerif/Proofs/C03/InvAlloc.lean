import AwsVerif.Proofs.C03.Inv
/-! Invariant preservation: the three ways `s_sba_alloc_from_bin` serves a request
(re-use of a free chunk, carving from the working page, a new page). -/
namespace AwsVerif.Proofs.C03
open AwsVerif.Sba AwsVerif.Gen.SbaConsts

/-- generic shape of a bin action: bin `i`, the header of page `p` and the ghost list change -/
def mkSt (s : State) (i : Nat) (b' : Bin) (p : Nat) (v : Option Page) (l : List (Ptr × Nat)) : State :=
  withLive (setPage (setBin s i b') p v) l

@[simp] theorem mkSt_bins (s i b' p v l) (j : Nat) : (mkSt s i b' p v l).bins j = if j = i then b' else s.bins j := rfl
@[simp] theorem mkSt_pages (s i b' p v l) (q : Nat) : (mkSt s i b' p v l).pages q = if q = p then v else s.pages q := rfl
@[simp] theorem mkSt_live (s i b' p v l) : (mkSt s i b' p v l).live = l := rfl
@[simp] theorem mkSt_parent (s i b' p v l) : (mkSt s i b' p v l).parent = s.parent := rfl

/-! ### consequences of the invariant used repeatedly -/

theorem carved_le {s : State} (h : Inv s) (i : Nat) (hi : i < binCount) (p : Nat) :
    carvedSlots (binSize i) (s.bins i).cursor p ≤ slotsPerPage (binSize i) := by
  unfold carvedSlots
  cases hc : (s.bins i).cursor with
  | none => exact Nat.le_refl _
  | some c =>
    simp only
    split
    · exact Nat.le_of_lt (slot_idx_lt (binSize_mem hi) (h.cursor_ok i c hc).2.1)
    · exact Nat.le_refl _

theorem page_bin_lt {s : State} (h : Inv s) {p : Nat} {pg : Page} (hp : s.pages p = some pg) : pg.bin < binCount :=
  (h.page_ok p pg hp).2.2.1

theorem count_bound {s : State} (h : Inv s) {p : Nat} {pg : Page} (hp : s.pages p = some pg) :
    pg.allocCount + freeCount (s.bins pg.bin).freeChunks p + 1 < countMod := by
  have hi := page_bin_lt h hp
  have h1 := h.page_part p pg hp
  have h2 := carved_le h pg.bin hi p
  have h3 := slots_bound (binSize_mem hi)
  omega

/-- a page is registered with exactly one bin: the one named in its header -/
theorem bin_of_binPages {s : State} (h : Inv s) {p j : Nat} {pg : Page} (hp : s.pages p = some pg)
    (hm : p ∈ binPages (s.bins j)) : pg.bin = j := by
  rcases mem_binPages.mp hm with hm | ⟨c, hc, hcp⟩
  · obtain ⟨pg', hp', hb, _⟩ := h.active_ok j p hm
    rw [hp] at hp'; injection hp' with e; subst e; exact hb
  · obtain ⟨⟨pg', hp', hb⟩, _, _⟩ := h.cursor_ok j c hc
    rw [hcp, hp] at hp'; injection hp' with e; subst e; exact hb

theorem free_bin {s : State} (h : Inv s) {j : Nat} {f : Addr} {pg : Page} (hf : f ∈ (s.bins j).freeChunks)
    (hp : s.pages f.page = some pg) : pg.bin = j := by
  obtain ⟨⟨pg', hp', hb⟩, _, _⟩ := h.free_ok j f hf
  rw [hp] at hp'; injection hp' with e; subst e; exact hb

theorem cursor_bin {s : State} (h : Inv s) {j : Nat} {c : Addr} {pg : Page} (hc : (s.bins j).cursor = some c)
    (hp : s.pages c.page = some pg) : pg.bin = j := by
  obtain ⟨⟨pg', hp', hb⟩, _, _⟩ := h.cursor_ok j c hc
  rw [hp] at hp'; injection hp' with e; subst e; exact hb

theorem chunk_mem_append_chunk {l : List (Ptr × Nat)} {a f : Addr} {n m : Nat}
    (h : (Ptr.chunk a, n) ∈ l ++ [(Ptr.chunk f, m)]) : (Ptr.chunk a, n) ∈ l ∨ (a = f ∧ n = m) := by
  rcases List.mem_append.mp h with h | h
  · exact Or.inl h
  · simp at h; exact Or.inr h

theorem big_mem_append_chunk {l : List (Ptr × Nat)} {f : Addr} {id n m : Nat}
    (h : (Ptr.big id, n) ∈ l ++ [(Ptr.chunk f, m)]) : (Ptr.big id, n) ∈ l := by
  rcases List.mem_append.mp h with h | h
  · exact h
  · simp at h

/-! ### re-use of the last free chunk -/

theorem inv_reuse {s : State} (h : Inv s) (i : Nat) (f : Addr) (n : Nat)
    (hlast : (s.bins i).freeChunks.getLast? = some f) (hn1 : 1 ≤ n) (hn2 : n ≤ binSize i) :
    ∃ pg, s.pages f.page = some pg ∧ pg.bin = i ∧ pg.allocCount + 1 < countMod ∧
      Inv (mkSt s i { s.bins i with freeChunks := (s.bins i).freeChunks.dropLast } f.page
            (some { pg with allocCount := pg.allocCount + 1 }) (s.live ++ [(Ptr.chunk f, n)])) := by
  have hdec := getLast?_decomp hlast
  have hfmem : f ∈ (s.bins i).freeChunks := by rw [hdec]; simp
  obtain ⟨⟨pg, hpg, hbin⟩, hslot, hnotlive⟩ := h.free_ok i f hfmem
  have hnd := h.free_nodup i
  rw [hdec, List.nodup_append] at hnd
  obtain ⟨hnd0, _, hnd2⟩ := hnd
  have hf0 : f ∉ (s.bins i).freeChunks.dropLast := fun hm => hnd2 f hm f (by simp) rfl
  have hsub : ∀ x, x ∈ (s.bins i).freeChunks.dropLast → x ∈ (s.bins i).freeChunks :=
    fun x hx => (List.dropLast_sublist _).subset hx
  have hi : i < binCount := hbin ▸ page_bin_lt h hpg
  have hbound : pg.allocCount + 1 < countMod := by have := count_bound h hpg; omega
  refine ⟨pg, hpg, hbin, hbound, ?_⟩
  -- the free count of every page after dropping the last chunk
  have hfc : ∀ q, freeCount (s.bins i).freeChunks q =
      freeCount (s.bins i).freeChunks.dropLast q + (if f.page = q then 1 else 0) := by
    intro q
    conv => lhs; rw [hdec]
    rw [freeCount_append, freeCount_single]
  refine
    { size_eq := ?_, page_ok := ?_, page_count := ?_, page_part := ?_, cursor_ok := ?_, cursor_above_free := ?_,
      cursor_above_live := ?_, active_ok := ?_, active_nodup := ?_, free_nodup := ?_, free_ok := ?_,
      live_nodup := ?_, live_chunk := ?_, live_big := ?_, parent_live := ?_ }
  · intro j
    simp only [mkSt_bins]
    split
    · rename_i e; subst e; exact h.size_eq _
    · exact h.size_eq j
  · intro q x hx
    simp only [mkSt_pages] at hx
    simp only [mkSt_bins]
    by_cases hq : q = f.page
    · rw [if_pos hq] at hx
      injection hx with hx; subst hx
      obtain ⟨t1, t2, t3, t4⟩ := h.page_ok f.page pg hpg
      refine ⟨t1, t2, t3, ?_⟩
      subst hq
      simp only [hbin, if_true]
      rw [hbin] at t4
      exact t4
    · rw [if_neg hq] at hx
      obtain ⟨t1, t2, t3, t4⟩ := h.page_ok q x hx
      refine ⟨t1, t2, t3, ?_⟩
      split
      · rename_i e; rw [e] at t4; exact t4
      · exact t4
  · intro q x hx
    simp only [mkSt_pages] at hx
    simp only [mkSt_live, liveCount_append, liveCount_single_chunk]
    by_cases hq : q = f.page
    · rw [if_pos hq] at hx
      injection hx with hx; subst hx
      have := h.page_count f.page pg hpg
      subst hq
      simp only [if_true]
      omega
    · rw [if_neg hq] at hx
      have := h.page_count q x hx
      rw [if_neg (fun e => hq e.symm)]
      omega
  · intro q x hx
    simp only [mkSt_pages] at hx
    simp only [mkSt_bins]
    by_cases hq : q = f.page
    · rw [if_pos hq] at hx
      injection hx with hx; subst hx
      have hp := h.page_part f.page pg hpg
      subst hq
      simp only [hbin, if_true] at hp ⊢
      have := hfc f.page
      simp only [if_true] at this
      omega
    · rw [if_neg hq] at hx
      have hp := h.page_part q x hx
      by_cases e : x.bin = i
      · rw [e] at hp ⊢
        rw [if_pos rfl]
        have := hfc q
        rw [if_neg (fun e => hq e.symm)] at this
        simp only at this ⊢
        omega
      · rw [if_neg e]; exact hp
  · intro j c hc
    simp only [mkSt_bins] at hc ⊢
    simp only [mkSt_pages]
    have hc' : (s.bins j).cursor = some c := by
      split at hc
      · rename_i e; subst e; exact hc
      · exact hc
    obtain ⟨⟨x, hx, hxb⟩, t2, t3⟩ := h.cursor_ok j c hc'
    refine ⟨?_, t2, ?_⟩
    · by_cases hq : c.page = f.page
      · rw [if_pos hq]
        rw [hq, hpg] at hx
        injection hx with hx; subst hx
        exact ⟨_, rfl, hxb⟩
      · rw [if_neg hq]; exact ⟨x, hx, hxb⟩
    · split
      · rename_i e; subst e; exact t3
      · exact t3
  · intro j c g hc hg hgc
    simp only [mkSt_bins] at hc hg
    by_cases e : j = i
    · subst e
      rw [if_pos rfl] at hc hg
      exact h.cursor_above_free _ c g hc (hsub g hg) hgc
    · rw [if_neg e] at hc hg
      exact h.cursor_above_free j c g hc hg hgc
  · intro j c a m hc hm hac
    simp only [mkSt_bins] at hc
    simp only [mkSt_live] at hm
    have hc' : (s.bins j).cursor = some c := by
      split at hc
      · rename_i e; subst e; exact hc
      · exact hc
    rcases chunk_mem_append_chunk hm with hm | ⟨e1, _⟩
    · exact h.cursor_above_live j c a m hc' hm hac
    · subst e1
      obtain ⟨⟨x, hx, hxb⟩, _, _⟩ := h.cursor_ok j c hc'
      rw [← hac, hpg] at hx
      injection hx with hx; subst hx
      have : j = i := by rw [← hxb, hbin]
      subst this
      exact h.cursor_above_free _ c a hc' hfmem hac
  · intro j q hq
    simp only [mkSt_bins] at hq
    simp only [mkSt_pages]
    have hq' : q ∈ (s.bins j).activePages := by
      split at hq
      · rename_i e; subst e; exact hq
      · exact hq
    obtain ⟨x, hx, hxb, hx1⟩ := h.active_ok j q hq'
    by_cases e : q = f.page
    · rw [if_pos e]
      rw [e, hpg] at hx
      injection hx with hx; subst hx
      exact ⟨_, rfl, hxb, by simp⟩
    · rw [if_neg e]; exact ⟨x, hx, hxb, hx1⟩
  · intro j
    simp only [mkSt_bins]
    split
    · rename_i e; subst e; exact h.active_nodup _
    · exact h.active_nodup j
  · intro j
    simp only [mkSt_bins]
    split
    · exact hnd0
    · exact h.free_nodup j
  · intro j g hg
    simp only [mkSt_bins] at hg
    simp only [mkSt_pages, mkSt_live, keys_append]
    have hg' : g ∈ (s.bins j).freeChunks ∧ g ≠ f := by
      by_cases e : j = i
      · subst e
        rw [if_pos rfl] at hg
        exact ⟨hsub g hg, fun e => hf0 (e ▸ hg)⟩
      · rw [if_neg e] at hg
        refine ⟨hg, fun e' => ?_⟩
        subst e'
        exact e (free_bin h hg hpg ▸ hbin.symm ▸ rfl)
    obtain ⟨⟨x, hx, hxb⟩, t2, t3⟩ := h.free_ok j g hg'.1
    refine ⟨?_, t2, ?_⟩
    · by_cases e : g.page = f.page
      · rw [if_pos e]
        rw [e, hpg] at hx
        injection hx with hx; subst hx
        exact ⟨_, rfl, hxb⟩
      · rw [if_neg e]; exact ⟨x, hx, hxb⟩
    · intro hm
      rcases List.mem_append.mp hm with hm | hm
      · exact t3 hm
      · simp [keys] at hm
        exact hg'.2 hm
  · simp only [mkSt_live, keys_append]
    rw [List.nodup_append]
    refine ⟨h.live_nodup, by simp [keys], ?_⟩
    intro a ha b hb
    simp [keys] at hb
    subst hb
    intro e; subst e
    exact hnotlive ha
  · intro a m hm
    simp only [mkSt_live] at hm
    simp only [mkSt_pages]
    rcases chunk_mem_append_chunk hm with hm | ⟨e1, e2⟩
    · obtain ⟨x, hx, t2, t3, t4⟩ := h.live_chunk a m hm
      by_cases e : a.page = f.page
      · rw [if_pos e]
        rw [e, hpg] at hx
        injection hx with hx; subst hx
        exact ⟨_, rfl, t2, t3, t4⟩
      · rw [if_neg e]; exact ⟨x, hx, t2, t3, t4⟩
    · subst e1; subst e2
      rw [if_pos rfl]
      refine ⟨_, rfl, ?_, hn1, ?_⟩
      · simp only [hbin]; exact hslot
      · simp only [hbin]; exact hn2
  · intro id m hm
    simp only [mkSt_live] at hm
    exact h.live_big id m (big_mem_append_chunk hm)
  · intro id hp
    simp only [mkSt_live, keys_append]
    exact List.mem_append_left _ (h.parent_live id hp)

/-! ### a new page becomes the working page -/

theorem page_unreferenced {s : State} (h : Inv s) {os : Nat} (hfresh : s.pages os = none) :
    (∀ j, os ∉ (s.bins j).activePages) ∧ (∀ j c, (s.bins j).cursor = some c → c.page ≠ os) ∧
    (∀ j g, g ∈ (s.bins j).freeChunks → g.page ≠ os) ∧ (∀ a n, (Ptr.chunk a, n) ∈ s.live → a.page ≠ os) := by
  refine ⟨?_, ?_, ?_, ?_⟩
  · intro j hm
    obtain ⟨x, hx, _⟩ := h.active_ok j os hm
    rw [hfresh] at hx; cases hx
  · intro j c hc e
    obtain ⟨⟨x, hx, _⟩, _, _⟩ := h.cursor_ok j c hc
    rw [e, hfresh] at hx; cases hx
  · intro j g hg e
    obtain ⟨⟨x, hx, _⟩, _, _⟩ := h.free_ok j g hg
    rw [e, hfresh] at hx; cases hx
  · intro a n hm e
    obtain ⟨x, hx, _⟩ := h.live_chunk a n hm
    rw [e, hfresh] at hx; cases hx

theorem inv_newPage {s : State} (h : Inv s) (i os : Nat) (hi : i < binCount) (hfresh : s.pages os = none)
    (hcur : (s.bins i).cursor = none) :
    Inv (mkSt s i { s.bins i with cursor := some { page := os, off := hdrSize } } os
          (some { tag := tagValue, tag2 := tagValue, bin := i, allocCount := 0 }) s.live) := by
  obtain ⟨u1, u2, u3, u4⟩ := page_unreferenced h hfresh
  have hlc : liveCount s.live os = 0 := by
    unfold liveCount
    rw [List.countP_eq_zero]
    intro e he
    cases e with
    | mk k n =>
      cases k with
      | chunk a => simp [isChunkOf]; exact u4 a n he
      | big id => simp [isChunkOf]
  have hfc0 : ∀ j, freeCount (s.bins j).freeChunks os = 0 := by
    intro j
    unfold freeCount
    rw [List.countP_eq_zero]
    intro g hg
    simp; exact u3 j g hg
  refine
    { size_eq := ?_, page_ok := ?_, page_count := ?_, page_part := ?_, cursor_ok := ?_, cursor_above_free := ?_,
      cursor_above_live := ?_, active_ok := ?_, active_nodup := ?_, free_nodup := ?_, free_ok := ?_,
      live_nodup := ?_, live_chunk := ?_, live_big := ?_, parent_live := ?_ }
  · intro j
    simp only [mkSt_bins]
    split
    · rename_i e; subst e; exact h.size_eq _
    · exact h.size_eq j
  · intro q x hx
    simp only [mkSt_pages] at hx
    simp only [mkSt_bins]
    by_cases hq : q = os
    · rw [if_pos hq] at hx
      injection hx with hx; subst hx
      refine ⟨rfl, rfl, hi, ?_⟩
      simp only [if_true]
      apply mem_binPages.mpr
      right
      exact ⟨_, rfl, hq.symm⟩
    · rw [if_neg hq] at hx
      obtain ⟨t1, t2, t3, t4⟩ := h.page_ok q x hx
      refine ⟨t1, t2, t3, ?_⟩
      by_cases e : x.bin = i
      · rw [if_pos e]
        rw [e] at t4
        rcases mem_binPages.mp t4 with t4 | ⟨c, hc, _⟩
        · exact mem_binPages.mpr (Or.inl t4)
        · rw [hcur] at hc; cases hc
      · rw [if_neg e]; exact t4
  · intro q x hx
    simp only [mkSt_pages] at hx
    simp only [mkSt_live]
    by_cases hq : q = os
    · rw [if_pos hq] at hx
      injection hx with hx; subst hx
      subst hq
      exact hlc.symm
    · rw [if_neg hq] at hx
      exact h.page_count q x hx
  · intro q x hx
    simp only [mkSt_pages] at hx
    simp only [mkSt_bins]
    by_cases hq : q = os
    · rw [if_pos hq] at hx
      injection hx with hx; subst hx
      subst hq
      simp only [if_true, carvedSlots]
      rw [hfc0 i]
      simp
    · rw [if_neg hq] at hx
      have hp := h.page_part q x hx
      by_cases e : x.bin = i
      · rw [e] at hp ⊢
        rw [if_pos rfl]
        rw [hcur] at hp
        simp only [carvedSlots] at hp ⊢
        rw [if_neg (fun e' => hq e'.symm)]
        exact hp
      · rw [if_neg e]; exact hp
  · intro j c hc
    simp only [mkSt_bins] at hc ⊢
    simp only [mkSt_pages]
    by_cases e : j = i
    · subst e
      rw [if_pos rfl] at hc ⊢
      injection hc with hc; subst hc
      refine ⟨⟨_, by rw [if_pos rfl], rfl⟩, slot_first (binSize_mem hi), u1 j⟩
    · rw [if_neg e] at hc ⊢
      obtain ⟨⟨x, hx, hxb⟩, t2, t3⟩ := h.cursor_ok j c hc
      refine ⟨⟨x, ?_, hxb⟩, t2, t3⟩
      rw [if_neg (u2 j c hc)]; exact hx
  · intro j c g hc hg hgc
    simp only [mkSt_bins] at hc hg
    by_cases e : j = i
    · subst e
      rw [if_pos rfl] at hc hg
      injection hc with hc; subst hc
      exact absurd hgc (u3 j g hg)
    · rw [if_neg e] at hc hg
      exact h.cursor_above_free j c g hc hg hgc
  · intro j c a m hc hm hac
    simp only [mkSt_bins] at hc
    simp only [mkSt_live] at hm
    by_cases e : j = i
    · subst e
      rw [if_pos rfl] at hc
      injection hc with hc; subst hc
      exact absurd hac (u4 a m hm)
    · rw [if_neg e] at hc
      exact h.cursor_above_live j c a m hc hm hac
  · intro j q hq
    simp only [mkSt_bins] at hq
    simp only [mkSt_pages]
    have hq' : q ∈ (s.bins j).activePages := by
      by_cases e : j = i
      · subst e; rw [if_pos rfl] at hq; exact hq
      · rw [if_neg e] at hq; exact hq
    obtain ⟨x, hx, hxb, hx1⟩ := h.active_ok j q hq'
    have : q ≠ os := fun e => u1 j (e ▸ hq')
    rw [if_neg this]; exact ⟨x, hx, hxb, hx1⟩
  · intro j
    simp only [mkSt_bins]
    split
    · rename_i e; subst e; exact h.active_nodup _
    · exact h.active_nodup j
  · intro j
    simp only [mkSt_bins]
    split
    · rename_i e; subst e; exact h.free_nodup _
    · exact h.free_nodup j
  · intro j g hg
    simp only [mkSt_bins] at hg
    simp only [mkSt_pages, mkSt_live]
    have hg' : g ∈ (s.bins j).freeChunks := by
      by_cases e : j = i
      · subst e; rw [if_pos rfl] at hg; exact hg
      · rw [if_neg e] at hg; exact hg
    obtain ⟨⟨x, hx, hxb⟩, t2, t3⟩ := h.free_ok j g hg'
    refine ⟨⟨x, ?_, hxb⟩, t2, t3⟩
    rw [if_neg (u3 j g hg')]; exact hx
  · exact h.live_nodup
  · intro a m hm
    simp only [mkSt_live] at hm
    simp only [mkSt_pages]
    obtain ⟨x, hx, t2, t3, t4⟩ := h.live_chunk a m hm
    refine ⟨x, ?_, t2, t3, t4⟩
    rw [if_neg (u4 a m hm)]; exact hx
  · exact h.live_big
  · exact h.parent_live

/-! ### carving the next chunk from the working page -/

/-- the bin after carving at `c`: the page moves to the active list when no further chunk fits -/
def carveBin (b : Bin) (c : Addr) : Bin :=
  if pageSize - c.off - b.size < b.size then
    { b with activePages := b.activePages ++ [c.page], cursor := none }
  else { b with cursor := some { page := c.page, off := c.off + b.size } }

theorem inv_carve {s : State} (h : Inv s) (i : Nat) (c : Addr) (n : Nat)
    (hc : (s.bins i).cursor = some c) (hn1 : 1 ≤ n) (hn2 : n ≤ binSize i) :
    ∃ pg, s.pages c.page = some pg ∧ pg.bin = i ∧ pg.allocCount + 1 < countMod ∧
      Inv (mkSt s i (carveBin (s.bins i) c) c.page
            (some { pg with allocCount := pg.allocCount + 1 }) (s.live ++ [(Ptr.chunk c, n)])) := by
  obtain ⟨⟨pg, hpg, hbin⟩, hslot, hcap⟩ := h.cursor_ok i c hc
  have hi : i < binCount := hbin ▸ page_bin_lt h hpg
  have hszm := binSize_mem hi
  have hsz := h.size_eq i
  have hbound : pg.allocCount + 1 < countMod := by have := count_bound h hpg; omega
  refine ⟨pg, hpg, hbin, hbound, ?_⟩
  have hnotlive : Ptr.chunk c ∉ keys s.live := by
    intro hm
    obtain ⟨m, hm⟩ := mem_keys.mp hm
    have := h.cursor_above_live i c c m hc hm rfl
    omega
  have hnotfree : ∀ j, c ∉ (s.bins j).freeChunks := by
    intro j hm
    have : j = i := by rw [← free_bin h hm hpg, hbin]
    subst this
    have := h.cursor_above_free _ c c hc hm rfl
    omega
  -- facts about the new bin
  have hb_size : (carveBin (s.bins i) c).size = (s.bins i).size := by unfold carveBin; split <;> rfl
  have hb_free : (carveBin (s.bins i) c).freeChunks = (s.bins i).freeChunks := by unfold carveBin; split <;> rfl
  have hb_pages : ∀ q, q ∈ binPages (carveBin (s.bins i) c) ↔ q ∈ binPages (s.bins i) := by
    intro q
    unfold carveBin
    split
    · simp only [mem_binPages, hc]
      simp [eq_comm]
    · simp only [mem_binPages, hc]
      simp
  have hb_act : ∀ q, q ∈ (carveBin (s.bins i) c).activePages → q ∈ (s.bins i).activePages ∨ q = c.page := by
    intro q
    unfold carveBin
    split
    · simp
    · intro hq; exact Or.inl hq
  have hb_actnd : (carveBin (s.bins i) c).activePages.Nodup := by
    unfold carveBin
    split
    · simp only
      rw [List.nodup_append]
      refine ⟨h.active_nodup i, by simp, ?_⟩
      intro a ha b hb
      simp at hb; subst hb
      intro e; subst e; exact hcap ha
    · exact h.active_nodup i
  have hb_cur : ∀ c', (carveBin (s.bins i) c).cursor = some c' →
      c'.page = c.page ∧ c'.off = c.off + binSize i ∧ SlotOff (binSize i) c'.off ∧ c'.page ∉ (carveBin (s.bins i) c).activePages := by
    intro c'
    unfold carveBin
    split
    · intro hc'; simp at hc'
    · rename_i hns
      intro hc'
      simp only [Option.some.injEq] at hc'
      subst hc'
      rw [hsz] at hns ⊢
      exact ⟨rfl, rfl, slot_next hszm hslot hns, hcap⟩
  have hb_carved : ∀ q, carvedSlots (binSize i) (carveBin (s.bins i) c).cursor q =
      carvedSlots (binSize i) (s.bins i).cursor q + (if c.page = q then 1 else 0) := by
    intro q
    unfold carveBin
    split
    · rename_i hlast
      rw [hsz] at hlast
      simp only [carvedSlots, hc]
      by_cases e : c.page = q
      · simp only [e, if_true]
        exact (slot_idx_last hszm hslot hlast).symm
      · simp [e]
    · simp only [carvedSlots, hc]
      by_cases e : c.page = q
      · simp only [e, if_true]
        rw [hsz]
        exact slot_idx_succ hszm hslot
      · simp [e]
  refine
    { size_eq := ?_, page_ok := ?_, page_count := ?_, page_part := ?_, cursor_ok := ?_, cursor_above_free := ?_,
      cursor_above_live := ?_, active_ok := ?_, active_nodup := ?_, free_nodup := ?_, free_ok := ?_,
      live_nodup := ?_, live_chunk := ?_, live_big := ?_, parent_live := ?_ }
  · intro j
    simp only [mkSt_bins]
    split
    · rename_i e; subst e; rw [hb_size]; exact h.size_eq _
    · exact h.size_eq j
  · intro q x hx
    simp only [mkSt_pages] at hx
    simp only [mkSt_bins]
    by_cases hq : q = c.page
    · rw [if_pos hq] at hx
      injection hx with hx; subst hx
      obtain ⟨t1, t2, t3, t4⟩ := h.page_ok c.page pg hpg
      refine ⟨t1, t2, t3, ?_⟩
      subst hq
      simp only [hbin, if_true]
      rw [hbin] at t4
      exact (hb_pages _).mpr t4
    · rw [if_neg hq] at hx
      obtain ⟨t1, t2, t3, t4⟩ := h.page_ok q x hx
      refine ⟨t1, t2, t3, ?_⟩
      by_cases e : x.bin = i
      · rw [if_pos e]; rw [e] at t4; exact (hb_pages _).mpr t4
      · rw [if_neg e]; exact t4
  · intro q x hx
    simp only [mkSt_pages] at hx
    simp only [mkSt_live, liveCount_append, liveCount_single_chunk]
    by_cases hq : q = c.page
    · rw [if_pos hq] at hx
      injection hx with hx; subst hx
      have := h.page_count c.page pg hpg
      subst hq
      simp only [if_true]
      omega
    · rw [if_neg hq] at hx
      have := h.page_count q x hx
      rw [if_neg (fun e => hq e.symm)]
      omega
  · intro q x hx
    simp only [mkSt_pages] at hx
    simp only [mkSt_bins]
    by_cases hq : q = c.page
    · rw [if_pos hq] at hx
      injection hx with hx; subst hx
      have hp := h.page_part c.page pg hpg
      subst hq
      simp only [hbin, if_true] at hp ⊢
      rw [hb_free, hb_carved]
      simp only [if_true]
      omega
    · rw [if_neg hq] at hx
      have hp := h.page_part q x hx
      by_cases e : x.bin = i
      · rw [e] at hp ⊢
        rw [if_pos rfl, hb_free, hb_carved, if_neg (fun e' => hq e'.symm)]
        exact hp
      · rw [if_neg e]; exact hp
  · intro j c' hc'
    simp only [mkSt_bins] at hc' ⊢
    simp only [mkSt_pages]
    by_cases e : j = i
    · subst e
      rw [if_pos rfl] at hc' ⊢
      obtain ⟨k1, k2, k3, k4⟩ := hb_cur c' hc'
      refine ⟨⟨{ pg with allocCount := pg.allocCount + 1 }, by rw [if_pos k1], hbin⟩, k3, k4⟩
    · rw [if_neg e] at hc' ⊢
      obtain ⟨⟨x, hx, hxb⟩, t2, t3⟩ := h.cursor_ok j c' hc'
      refine ⟨?_, t2, t3⟩
      by_cases hq : c'.page = c.page
      · rw [if_pos hq]
        rw [hq, hpg] at hx
        injection hx with hx; subst hx
        exact ⟨_, rfl, hxb⟩
      · rw [if_neg hq]; exact ⟨x, hx, hxb⟩
  · intro j c' g hc' hg hgc
    simp only [mkSt_bins] at hc' hg
    by_cases e : j = i
    · subst e
      rw [if_pos rfl] at hc' hg
      rw [hb_free] at hg
      obtain ⟨k1, k2, _, _⟩ := hb_cur c' hc'
      have := h.cursor_above_free _ c g hc hg (hgc.trans k1)
      omega
    · rw [if_neg e] at hc' hg
      exact h.cursor_above_free j c' g hc' hg hgc
  · intro j c' a m hc' hm hac
    simp only [mkSt_bins] at hc'
    simp only [mkSt_live] at hm
    by_cases e : j = i
    · subst e
      rw [if_pos rfl] at hc'
      obtain ⟨k1, k2, _, _⟩ := hb_cur c' hc'
      have hpos := sz_pos hszm
      rcases chunk_mem_append_chunk hm with hm | ⟨e1, _⟩
      · have := h.cursor_above_live _ c a m hc hm (hac.trans k1)
        omega
      · subst e1; omega
    · rw [if_neg e] at hc'
      rcases chunk_mem_append_chunk hm with hm | ⟨e1, _⟩
      · exact h.cursor_above_live j c' a m hc' hm hac
      · subst e1
        exfalso
        apply e
        obtain ⟨⟨x, hx, hxb⟩, _, _⟩ := h.cursor_ok j c' hc'
        rw [← hac, hpg] at hx
        injection hx with hx; subst hx
        rw [← hxb, hbin]
  · intro j q hq
    simp only [mkSt_bins] at hq
    simp only [mkSt_pages]
    by_cases e : j = i
    · subst e
      rw [if_pos rfl] at hq
      rcases hb_act q hq with hq' | hq'
      · obtain ⟨x, hx, hxb, hx1⟩ := h.active_ok _ q hq'
        have hne : q ≠ c.page := fun e => hcap (e ▸ hq')
        rw [if_neg hne]; exact ⟨x, hx, hxb, hx1⟩
      · rw [if_pos hq']; exact ⟨_, rfl, hbin, by simp⟩
    · rw [if_neg e] at hq
      obtain ⟨x, hx, hxb, hx1⟩ := h.active_ok j q hq
      by_cases e' : q = c.page
      · rw [if_pos e']
        rw [e', hpg] at hx
        injection hx with hx; subst hx
        exact ⟨_, rfl, hxb, by simp⟩
      · rw [if_neg e']; exact ⟨x, hx, hxb, hx1⟩
  · intro j
    simp only [mkSt_bins]
    split
    · exact hb_actnd
    · exact h.active_nodup j
  · intro j
    simp only [mkSt_bins]
    split
    · rename_i e; subst e; rw [hb_free]; exact h.free_nodup _
    · exact h.free_nodup j
  · intro j g hg
    simp only [mkSt_bins] at hg
    simp only [mkSt_pages, mkSt_live, keys_append]
    have hg' : g ∈ (s.bins j).freeChunks := by
      by_cases e : j = i
      · subst e; rw [if_pos rfl, hb_free] at hg; exact hg
      · rw [if_neg e] at hg; exact hg
    obtain ⟨⟨x, hx, hxb⟩, t2, t3⟩ := h.free_ok j g hg'
    refine ⟨?_, t2, ?_⟩
    · by_cases e : g.page = c.page
      · rw [if_pos e]
        rw [e, hpg] at hx
        injection hx with hx; subst hx
        exact ⟨_, rfl, hxb⟩
      · rw [if_neg e]; exact ⟨x, hx, hxb⟩
    · intro hm
      rcases List.mem_append.mp hm with hm | hm
      · exact t3 hm
      · simp [keys] at hm
        subst hm
        exact hnotfree j hg'
  · simp only [mkSt_live, keys_append]
    rw [List.nodup_append]
    refine ⟨h.live_nodup, by simp [keys], ?_⟩
    intro a ha b hb
    simp [keys] at hb
    subst hb
    intro e; subst e
    exact hnotlive ha
  · intro a m hm
    simp only [mkSt_live] at hm
    simp only [mkSt_pages]
    rcases chunk_mem_append_chunk hm with hm | ⟨e1, e2⟩
    · obtain ⟨x, hx, t2, t3, t4⟩ := h.live_chunk a m hm
      by_cases e : a.page = c.page
      · rw [if_pos e]
        rw [e, hpg] at hx
        injection hx with hx; subst hx
        exact ⟨_, rfl, t2, t3, t4⟩
      · rw [if_neg e]; exact ⟨x, hx, t2, t3, t4⟩
    · subst e1; subst e2
      rw [if_pos rfl]
      refine ⟨_, rfl, ?_, hn1, ?_⟩
      · simp only [hbin]; exact hslot
      · simp only [hbin]; exact hn2
  · intro id m hm
    simp only [mkSt_live] at hm
    exact h.live_big id m (big_mem_append_chunk hm)
  · intro id hp
    simp only [mkSt_live, keys_append]
    exact List.mem_append_left _ (h.parent_live id hp)

end AwsVerif.Proofs.C03
