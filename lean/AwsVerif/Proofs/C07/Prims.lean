import AwsVerif.Proofs.C07.Inv
/-! The structural invariant is preserved by every primitive transition of the scheduler model. -/
namespace AwsVerif.Proofs.C07
open AwsVerif.Sched AwsVerif.Heap AwsVerif.Proofs.C06

theorem owner_updF (s : St) (t v : Nat) :
    (fun x => (some ⟨updF s.ts t v x, x⟩ : Option Elem)) = (fun x => some ⟨updF s.ts t v x, x⟩) := rfl

theorem map_ts_congr {ts ts' : Nat → Nat} {l : List Nat} (h : ∀ x ∈ l, ts' x = ts x) : l.map ts' = l.map ts :=
  List.map_congr_left h

theorem scheduleNow_sinv {s : St} {t : Nat} (h : SInv s) (hlt : t < s.ntasks) (ht : s.scheduled t = false) :
    SInv (scheduleNow s t) := by
  obtain ⟨h1, h2, h3, h4⟩ := not_mem_of_not_sched h ht
  have hd := not_heap_dead h h4
  have hq : nodeInit s.timed t = s.timed := nodeInit_eq hd
  have hnot : ∀ e ∈ s.timed.items.toList, e.uid ≠ t := fun e he hu => h4 (mem_heapTasks.mpr ⟨e, he, hu⟩)
  refine ⟨?_, ?_, ?_, ?_, ?_, h.nt, ?_, ?_, ?_, ?_, ?_, ?_⟩
  · intro x
    simp only [cntAll, scheduleNow, heapTasks, hq, List.count_append, List.count_singleton, updF]
    by_cases hx : x = t
    · subst hx
      have := cnt_false h ht
      simp only [heapTasks] at this
      simp only [beq_self_eq_true, if_true]
      omega
    · have hx' : (t == x) = false := by simpa using fun hh => hx hh.symm
      simp only [hx, hx', if_false, Bool.false_eq_true]
      have := h.cnt x
      simpa [cntAll, heapTasks] using this
  · intro x hx
    simp only [scheduleNow, updF] at hx ⊢
    split at hx
    · next hxt => subst hxt; exact hlt
    · exact h.lt x hx
  · simp only [scheduleNow, hq]
    exact qinv_owner_update h.heap hd hnot
  · intro e he
    simp only [scheduleNow, hq, updF] at he ⊢
    simp only [hnot e he, if_false]
    exact h.heapKey e he
  · simp only [scheduleNow, hq]; exact h.dyn
  · simp only [scheduleNow]
    rw [map_ts_congr (ts := s.ts)]
    · exact h.tlSorted
    · intro x hx
      have : x ≠ t := fun hh => h2 (hh ▸ hx)
      simp [updF, this]
  · intro x hx
    simp only [scheduleNow, List.mem_append, List.mem_singleton, updF] at hx ⊢
    split
    · rfl
    · next hne =>
      rcases hx with hx | hx
      · exact h.asapTs x hx
      · exact absurd hx hne
  · intro x hx
    simp only [scheduleNow, updF] at hx ⊢
    have : x ≠ t := fun hh => h3 (hh ▸ hx)
    simp only [this, if_false]
    exact h.runDue x hx
  · intro x hx
    simp only [scheduleNow, updF, updF2] at hx ⊢
    by_cases hxt : x = t
    · simp [hxt]
    · simp only [hxt, if_false, false_and] at hx ⊢
      exact h.tsAtOK x hx
  · intro x hx
    simp only [scheduleNow, updF] at hx ⊢
    by_cases hxt : x = t
    · simp [hxt]
    · simp only [hxt, if_false] at hx ⊢
      exact h.genPos x hx
  · intro x
    simp only [scheduleNow, updF]
    split
    · exact Nat.zero_le _
    · exact h.tsBound x

theorem insertSorted_perm (ts : Nat → Nat) (time t : Nat) (l : List Nat) : (insertSorted ts time t l).Perm (t :: l) := by
  induction l with
  | nil => exact List.Perm.refl _
  | cons x xs ih =>
    simp only [insertSorted]
    split
    · exact List.Perm.refl _
    · exact (List.Perm.cons x ih).trans (List.Perm.swap t x xs)

theorem insertSorted_sorted {ts : Nat → Nat} {time t : Nat} (ht : ts t = time) :
    ∀ {l : List Nat}, (l.map ts).Pairwise (· ≤ ·) → ((insertSorted ts time t l).map ts).Pairwise (· ≤ ·) := by
  intro l
  induction l with
  | nil => intro _; simp [insertSorted]
  | cons x xs ih =>
    intro h
    simp only [List.map_cons, List.pairwise_cons] at h
    simp only [insertSorted]
    split
    · next hgt =>
      simp only [List.map_cons, List.pairwise_cons, List.mem_cons, List.mem_map]
      refine ⟨?_, ?_, h.2⟩
      · rintro a (rfl | ⟨y, hy, rfl⟩)
        · omega
        · have := h.1 (ts y) (List.mem_map.mpr ⟨y, hy, rfl⟩); omega
      · intro a ha
        obtain ⟨y, hy, rfl⟩ := ha
        exact h.1 _ (List.mem_map.mpr ⟨y, hy, rfl⟩)
    · next hle =>
      simp only [List.map_cons, List.pairwise_cons]
      refine ⟨?_, ih h.2⟩
      intro a ha
      obtain ⟨y, hy, rfl⟩ := List.mem_map.mp ha
      have hy' := (insertSorted_perm ts time t xs).subset hy
      rcases List.mem_cons.mp hy' with rfl | hy'
      · omega
      · exact h.1 _ (List.mem_map.mpr ⟨y, hy', rfl⟩)

theorem isFull_dyn {q : PQ} (h : q.cap = none) : isFull q = false := by simp [isFull, h]

theorem scheduleFutureU_sinv {s : St} {t time : Nat} (h : SInv s) (hlt : t < s.ntasks) (ht : s.scheduled t = false)
    (htime : time ≤ UINT64_MAX) : SInv (scheduleFutureU s t time) := by
  obtain ⟨h1, h2, h3, h4⟩ := not_mem_of_not_sched h ht
  have hd := not_heap_dead h h4
  have hq : nodeInit s.timed t = s.timed := nodeInit_eq hd
  have hnot : ∀ e ∈ s.timed.items.toList, e.uid ≠ t := fun e he hu => h4 (mem_heapTasks.mpr ⟨e, he, hu⟩)
  have hts : ∀ {l : List Nat}, t ∉ l → l.map (updF s.ts t time) = l.map s.ts := by
    intro l hl
    apply map_ts_congr
    intro x hx
    have : x ≠ t := fun hh => hl (hh ▸ hx)
    simp [updF, this]
  -- facts shared by both branches
  have hlt' : ∀ x, updF s.scheduled t true x = true → x < s.ntasks := by
    intro x hx
    simp only [updF] at hx
    split at hx
    · next hxt => subst hxt; exact hlt
    · exact h.lt x hx
  have hasap : ∀ x ∈ s.asap, updF s.ts t time x = 0 := by
    intro x hx
    have : x ≠ t := fun hh => h1 (hh ▸ hx)
    simp only [updF, this, if_false]
    exact h.asapTs x hx
  have hrun : ∀ x ∈ s.running, updF s.ts t time x ≤ s.now := by
    intro x hx
    have : x ≠ t := fun hh => h3 (hh ▸ hx)
    simp only [updF, this, if_false]
    exact h.runDue x hx
  have htsAt : ∀ x, updF s.scheduled t true x = true →
      updF2 s.tsAt t (s.gen t + 1) time x (updF s.gen t (s.gen t + 1) x) = updF s.ts t time x := by
    intro x hx
    simp only [updF, updF2] at hx ⊢
    by_cases hxt : x = t
    · simp [hxt]
    · simp only [hxt, if_false, false_and] at hx ⊢
      exact h.tsAtOK x hx
  have hgen : ∀ x, updF s.scheduled t true x = true → 1 ≤ updF s.gen t (s.gen t + 1) x := by
    intro x hx
    simp only [updF] at hx ⊢
    by_cases hxt : x = t
    · simp [hxt]
    · simp only [hxt, if_false] at hx ⊢
      exact h.genPos x hx
  have hbound : ∀ x, updF s.ts t time x ≤ UINT64_MAX := by
    intro x
    simp only [updF]
    split
    · exact htime
    · exact h.tsBound x
  unfold scheduleFutureU
  simp only [hq]
  by_cases hf : s.failPush = true
  · -- forced failure: sorted insertion into timed_list
    simp only [hf, if_true]
    refine ⟨?_, hlt', ?_, ?_, h.dyn, h.nt, ?_, hasap, hrun, htsAt, hgen, hbound⟩
    · intro x
      have hp := (insertSorted_perm (updF s.ts t time) time t s.timedList).count_eq x
      simp only [cntAll, heapTasks, hp, List.count_cons, updF]
      by_cases hx : x = t
      · subst hx
        have := cnt_false h ht
        simp only [heapTasks] at this
        simp only [beq_self_eq_true, if_true]
        omega
      · have hx' : (t == x) = false := by simpa using fun hh => hx hh.symm
        simp only [hx, hx', if_false, Bool.false_eq_true]
        have := h.cnt x
        simpa [cntAll, heapTasks] using this
    · exact qinv_owner_update h.heap hd hnot
    · intro e he
      simp only [updF, hnot e he, if_false]
      exact h.heapKey e he
    · apply insertSorted_sorted (by simp [updF])
      rw [hts h2]
      exact h.tlSorted
  · simp only [hf, Bool.false_eq_true, if_false]
    have hleg : ∀ h0, some t = some h0 → s.timed.handles h0 = none := by
      intro h0 e; cases e; exact hd
    have hfo : ∀ x e', some t ≠ some x → owner s x = some e' → e' ≠ ⟨time, t⟩ := by
      intro x e' hne ho he
      simp only [owner] at ho
      cases ho
      simp only [Elem.mk.injEq] at he
      exact hne (by rw [he.2])
    rcases pushRef_spec tsCmp_ok (e := ⟨time, t⟩) (h := some t) h.heap hleg hfo with ⟨_, hfull⟩ | ⟨_, _, _, hcap⟩ | ⟨q', he, _, hq', hs', hc'⟩
    · rw [isFull_dyn h.dyn] at hfull; cases hfull
    · simp [h.dyn] at hcap
    · simp only [he]
      have hown : ownerPush (owner s) (some t) ⟨time, t⟩ = fun x => some ⟨updF s.ts t time x, x⟩ := by
        funext x
        simp only [ownerPush, upd, owner, updF]
        split <;> simp_all
      rw [hown] at hq'
      have hperm : q'.items.toList.Perm (⟨time, t⟩ :: s.timed.items.toList) := hq'.frame.perm
      have hpt : (q'.items.toList.map (·.uid)).Perm (t :: s.timed.items.toList.map (·.uid)) := by
        have := hperm.map (·.uid)
        simpa using this
      refine ⟨?_, hlt', QInv.of_perm hq' hperm.symm, ?_, by rw [hc']; exact h.dyn, h.nt, ?_, hasap, hrun, htsAt, hgen, hbound⟩
      · intro x
        have hp := hpt.count_eq x
        simp only [cntAll, heapTasks, hp, List.count_cons, updF]
        by_cases hx : x = t
        · subst hx
          have := cnt_false h ht
          simp only [heapTasks] at this
          simp only [beq_self_eq_true, if_true]
          omega
        · have hx' : (t == x) = false := by simpa using fun hh => hx hh.symm
          simp only [hx, hx', if_false, Bool.false_eq_true]
          have := h.cnt x
          simpa [cntAll, heapTasks] using this
      · intro e hee
        rcases List.mem_cons.mp (hperm.subset hee) with rfl | hm
        · simp [updF]
        · simp only [updF, hnot e hm, if_false]
          exact h.heapKey e hm
      · rw [hts h2]; exact h.tlSorted

theorem count_map_erase {l : List Elem} {e : Elem} (he : e ∈ l) (x : Nat) :
    ((l.erase e).map (·.uid)).count x + (if e.uid = x then 1 else 0) = (l.map (·.uid)).count x := by
  have hp : (l.map (·.uid)).Perm (e.uid :: (l.erase e).map (·.uid)) := by
    have := (List.perm_cons_erase he).map (·.uid)
    simpa using this
  rw [hp.count_eq x, List.count_cons]
  by_cases h : e.uid = x <;> simp [h]

theorem items_nodup {s : St} (h : SInv s) : s.timed.items.toList.Nodup := by
  have := heapTasks_nodup h
  unfold heapTasks List.Nodup at this
  unfold List.Nodup
  exact List.Pairwise.of_map (·.uid) (fun a b hab heq => hab (by rw [heq])) this

theorem sched_of_mem_running {s : St} (h : SInv s) {t : Nat} (ht : t ∈ s.running) : s.scheduled t = true := by
  have := h.cnt t
  have hp := List.count_pos_iff.mpr ht
  unfold cntAll at this
  split at this
  · assumption
  · omega

/-- `cancel_task` up to the call of the function: unlink (or remove from the heap by handle) and clear the flag -/
theorem cancel_sinv {s : St} {t : Nat} (st : Status) (c : Cause) (h : SInv s) (ht : s.scheduled t = true) :
    SInv (mark (unlink s t) t st c) := by
  have hc1 := cnt_true h ht
  have hsch : ∀ x, updF s.scheduled t false x = true → s.scheduled x = true ∧ x ≠ t := by
    intro x hx
    simp only [updF] at hx
    split at hx
    · cases hx
    · next hne => exact ⟨hx, hne⟩
  unfold unlink
  by_cases hl : t ∈ s.asap ∨ t ∈ s.timedList ∨ t ∈ s.running
  · simp only [hl, if_true, mark]
    have hpos : 1 ≤ s.asap.count t + s.timedList.count t + s.running.count t := by
      rcases hl with hl | hl | hl <;> have := List.count_pos_iff.mpr hl <;> omega
    refine ⟨?_, ?_, h.heap, h.heapKey, h.dyn, h.nt, ?_, ?_, ?_, ?_, ?_, h.tsBound⟩
    · intro x
      simp only [cntAll, heapTasks, updF]
      by_cases hx : x = t
      · subst hx
        simp only [List.count_erase_self, if_true, heapTasks] at hc1 ⊢
        simp only [Bool.false_eq_true, if_false]
        omega
      · simp only [List.count_erase_of_ne hx, hx, if_false]
        have := h.cnt x
        simpa [cntAll, heapTasks] using this
    · intro x hx; exact h.lt x (hsch x hx).1
    · exact h.tlSorted.sublist ((List.erase_sublist).map s.ts)
    · intro x hx; exact h.asapTs x (List.mem_of_mem_erase hx)
    · intro x hx; exact h.runDue x (List.mem_of_mem_erase hx)
    · intro x hx; exact h.tsAtOK x (hsch x hx).1
    · intro x hx; exact h.genPos x (hsch x hx).1
  · simp only [hl, if_false, ht, if_true, mark]
    have hheap : t ∈ heapTasks s := by
      have h0 : s.asap.count t = 0 ∧ s.timedList.count t = 0 ∧ s.running.count t = 0 := by
        refine ⟨?_, ?_, ?_⟩ <;> (rw [List.count_eq_zero]; intro hm; exact hl (by simp [hm]))
      exact List.count_pos_iff.mp (by omega)
    obtain ⟨i, hi, hit⟩ := heap_live h hheap
    have hilt : i < s.timed.items.size := by
      rcases Nat.lt_or_ge i s.timed.items.size with h1 | h1
      · exact h1
      · simp [Array.getElem?_eq_none h1] at hit
    obtain ⟨e, he, hr, hq', hs', hc', _⟩ := removeNode_spec tsCmp_ok h.heap (items_nodup h) (heap_size_lt h) hilt
    have hee : e = ⟨s.ts t, t⟩ := by rw [hit] at he; exact (Option.some.inj he).symm
    rw [remove_live h.heap hi]
    have hem : e ∈ s.timed.items.toList := Array.mem_def.mp (Array.mem_of_getElem? he)
    have hperm : (removeNode tsCmp s.timed i).1.items.toList.Perm (s.timed.items.toList.erase e) := hq'.frame.perm
    have hcount : ∀ x, ((removeNode tsCmp s.timed i).1.items.toList.map (·.uid)).count x + (if t = x then 1 else 0) =
        (s.timed.items.toList.map (·.uid)).count x := by
      intro x
      rw [(hperm.map (·.uid)).count_eq x]
      have := count_map_erase hem x
      rw [hee] at this ⊢
      exact this
    refine ⟨?_, ?_, QInv.of_perm hq' hperm.symm, ?_, by rw [hc']; exact h.dyn, h.nt, h.tlSorted, h.asapTs, h.runDue, ?_, ?_, h.tsBound⟩
    · intro x
      have hcx := hcount x
      simp only [cntAll, heapTasks, updF]
      by_cases hx : x = t
      · subst hx
        simp only [if_true, heapTasks] at hc1 hcx ⊢
        simp only [Bool.false_eq_true, if_false]
        omega
      · have hx' : ¬ t = x := fun hh => hx hh.symm
        simp only [hx, hx', if_false] at hcx ⊢
        have := h.cnt x
        simp only [cntAll, heapTasks] at this
        omega
    · intro x hx; exact h.lt x (hsch x hx).1
    · intro e' he'
      exact h.heapKey e' (List.mem_of_mem_erase (hperm.subset he'))
    · intro x hx; exact h.tsAtOK x (hsch x hx).1
    · intro x hx; exact h.genPos x (hsch x hx).1

/-- the run loop takes the first task of the running list and clears its flag -/
theorem popRun_sinv {s : St} {t : Nat} {r : List Nat} (st : Status) (c : Cause) (h : SInv s) (hr : s.running = t :: r) :
    SInv (mark { s with running := r } t st c) := by
  have ht : s.scheduled t = true := sched_of_mem_running h (by simp [hr])
  have hc1 := cnt_true h ht
  have hsch : ∀ x, updF s.scheduled t false x = true → s.scheduled x = true ∧ x ≠ t := by
    intro x hx
    simp only [updF] at hx
    split at hx
    · cases hx
    · next hne => exact ⟨hx, hne⟩
  simp only [mark]
  refine ⟨?_, ?_, h.heap, h.heapKey, h.dyn, h.nt, h.tlSorted, h.asapTs, ?_, ?_, ?_, h.tsBound⟩
  · intro x
    simp only [cntAll, heapTasks, updF]
    by_cases hx : x = t
    · subst hx
      simp only [hr, List.count_cons_self, heapTasks] at hc1
      simp only [if_true, Bool.false_eq_true, if_false]
      omega
    · have := h.cnt x
      have hx' : (t == x) = false := by simpa using fun hh => hx hh.symm
      simp only [cntAll, heapTasks, hr, List.count_cons, hx', Bool.false_eq_true, if_false] at this
      simp only [hx, if_false]
      omega
  · intro x hx; exact h.lt x (hsch x hx).1
  · intro x hx; exact h.runDue x (by simp [hr, hx])
  · intro x hx; exact h.tsAtOK x (hsch x hx).1
  · intro x hx; exact h.genPos x (hsch x hx).1

theorem scheduleFuture_sinv {s : St} {t time : Nat} (h : SInv s) (hlt : t < s.ntasks) (ht : s.scheduled t = false) :
    SInv (scheduleFuture s t time) := by
  unfold scheduleFuture
  apply scheduleFutureU_sinv h hlt ht
  have : time % 2^64 < 2^64 := Nat.mod_lt _ (by decide)
  unfold UINT64_MAX
  omega

end AwsVerif.Proofs.C07
