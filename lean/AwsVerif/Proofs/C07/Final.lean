import AwsVerif.Proofs.C07.Reach
/-! Consequences of the invariant used by the property theorems. -/
namespace AwsVerif.Proofs.C07
open AwsVerif.Sched AwsVerif.Heap AwsVerif.Proofs.C06

/-- at top level a pending task that is not run-now is in `timed_list` or in the heap -/
theorem pending_where {s : St} (h : SInv s) (hr : s.running = []) (ha : s.asap = []) {t : Nat} (ht : s.scheduled t = true) :
    t ∈ s.timedList ∨ t ∈ heapTasks s := by
  have := cnt_true h ht
  simp only [hr, ha, List.count_nil] at this
  by_cases h1 : t ∈ s.timedList
  · exact Or.inl h1
  · right
    have := List.count_eq_zero.mpr h1
    exact List.count_pos_iff.mp (by omega)

theorem sched_of_mem_tl {s : St} (h : SInv s) {t : Nat} (ht : t ∈ s.timedList) : s.scheduled t = true := by
  have := h.cnt t
  have hp := List.count_pos_iff.mpr ht
  unfold cntAll at this
  split at this
  · assumption
  · omega

theorem sched_of_mem_asap {s : St} (h : SInv s) {t : Nat} (ht : t ∈ s.asap) : s.scheduled t = true := by
  have := h.cnt t
  have hp := List.count_pos_iff.mpr ht
  unfold cntAll at this
  split at this
  · assumption
  · omega

theorem heap_root_le {s : St} (h : SInv s) {e : Elem} (htop : top s.timed = .ok e) {t : Nat} (ht : t ∈ heapTasks s) :
    e.key ≤ s.ts t := by
  obtain ⟨_, he⟩ := top_ok htop
  obtain ⟨e', he', rfl⟩ := mem_heapTasks.mp ht
  have hle := (root_min tsCmp_ok h.heap he).2 e' he'
  have hm : e ∈ s.timed.items.toList := Array.mem_def.mp (Array.mem_of_getElem? he)
  have b1 : e.key < 2^64 := by have := h.tsBound e.uid; rw [← h.heapKey e hm] at this; unfold UINT64_MAX at this; omega
  have b2 : e'.key < 2^64 := by have := h.tsBound e'.uid; rw [← h.heapKey e' he'] at this; unfold UINT64_MAX at this; omega
  have := (tsCmp_le_iff b1 b2).mp hle
  rw [h.heapKey e' he'] at this
  exact this

theorem heap_root_task {s : St} (h : SInv s) {e : Elem} (htop : top s.timed = .ok e) :
    e.uid ∈ heapTasks s ∧ s.ts e.uid = e.key := by
  obtain ⟨_, he⟩ := top_ok htop
  have hm : e ∈ s.timed.items.toList := Array.mem_def.mp (Array.mem_of_getElem? he)
  exact ⟨mem_heapTasks.mpr ⟨e, hm, rfl⟩, (h.heapKey e hm).symm⟩

theorem tl_head_le {s : St} (h : SInv s) {t0 : Nat} {r : List Nat} (htl : s.timedList = t0 :: r) {t : Nat}
    (ht : t ∈ s.timedList) : s.ts t0 ≤ s.ts t := by
  have := h.tlSorted
  rw [htl] at this ht
  simp only [List.map_cons, List.pairwise_cons] at this
  rcases List.mem_cons.mp ht with rfl | ht
  · exact Nat.le_refl _
  · exact this.1 _ (List.mem_map.mpr ⟨t, ht, rfl⟩)

/-- what `aws_task_scheduler_has_tasks` reports, in terms of the pending set -/
theorem hasTasks_spec {s : St} (h : SInv s) (hr : s.running = []) :
    (s.asap ≠ [] → hasTasks s = (true, 0)) ∧
    (s.asap = [] → (∀ t, s.scheduled t = false) → hasTasks s = (false, UINT64_MAX)) ∧
    (s.asap = [] → (∃ t, s.scheduled t = true) →
      (hasTasks s).1 = true ∧ (∃ t, s.scheduled t = true ∧ s.ts t = (hasTasks s).2) ∧
      ∀ t, s.scheduled t = true → (hasTasks s).2 ≤ s.ts t) := by
  refine ⟨?_, ?_, ?_⟩
  · intro ha; unfold hasTasks; simp [ha]
  · intro ha hnone
    have htl : s.timedList = [] := by
      cases htl : s.timedList with
      | nil => rfl
      | cons t r =>
        have := sched_of_mem_tl h (t := t) (by simp [htl])
        rw [hnone t] at this; cases this
    unfold hasTasks
    simp only [ha, htl, ne_eq, not_true_eq_false, if_false]
    cases htop : top s.timed with
    | error er => rfl
    | ok e =>
      have := heap_root_task h htop
      have := sched_of_mem_heap h this.1
      rw [hnone] at this; cases this
  · intro ha ⟨t1, ht1⟩
    unfold hasTasks
    simp only [ha, ne_eq, not_true_eq_false, if_false]
    cases htl : s.timedList with
    | nil =>
      cases htop : top s.timed with
      | error er =>
        exfalso
        rcases pending_where h hr ha ht1 with hm | hm
        · simp [htl] at hm
        · have h0 := top_error htop
          have : s.timed.items = #[] := Array.eq_empty_of_size_eq_zero h0
          simp [heapTasks, this] at hm
      | ok e =>
        obtain ⟨hm, hk⟩ := heap_root_task h htop
        have hb := h.tsBound e.uid
        simp only
        have hval : (if e.key < UINT64_MAX then e.key else UINT64_MAX) = e.key := by
          split
          · rfl
          · omega
        rw [hval]
        refine ⟨trivial, ⟨e.uid, sched_of_mem_heap h hm, hk⟩, ?_⟩
        intro t ht
        rcases pending_where h hr ha ht with hm' | hm'
        · simp [htl] at hm'
        · exact heap_root_le h htop hm'
    | cons t0 r =>
      have ht0 : s.scheduled t0 = true := sched_of_mem_tl h (by simp [htl])
      cases htop : top s.timed with
      | error er =>
        simp only
        refine ⟨trivial, ⟨t0, ht0, rfl⟩, ?_⟩
        intro t ht
        rcases pending_where h hr ha ht with hm' | hm'
        · exact tl_head_le h htl hm'
        · have h0 := top_error htop
          have : s.timed.items = #[] := Array.eq_empty_of_size_eq_zero h0
          simp [heapTasks, this] at hm'
      | ok e =>
        obtain ⟨hm, hk⟩ := heap_root_task h htop
        simp only
        refine ⟨trivial, ?_, ?_⟩
        · split
          · exact ⟨e.uid, sched_of_mem_heap h hm, hk⟩
          · exact ⟨t0, ht0, rfl⟩
        · intro t ht
          rcases pending_where h hr ha ht with hm' | hm'
          · have := tl_head_le h htl (by rw [htl] at hm' ⊢; exact hm')
            split <;> omega
          · have := heap_root_le h htop hm'
            split <;> omega

/-- after a clean-up that terminated no task is pending -/
theorem cleanUp_none_pending {fuel : Nat} {P : Script} {s : St} (hg : GoodOr (cleanUp fuel P s)) (hr : R (cleanUp fuel P s))
    (hd : (cleanUp fuel P s).diverged = false) : ∀ t, (cleanUp fuel P s).scheduled t = false := by
  have hgood := good_of_not_diverged hg hd
  have hrun : (cleanUp fuel P s).running = [] := by
    rcases hr with hr | hr
    · rw [hd] at hr; cases hr
    · exact hr
  intro t
  have hcnt := hgood.sinv.cnt t
  revert hd hcnt hrun
  unfold cleanUp
  dsimp only
  split
  · next hdv => intro hd; rw [hdv] at hd; cases hd
  · next hdv =>
    intro _ hrun hcnt
    have hdone := cleanLoop_done P fuel s (by simpa using hdv)
    obtain ⟨ha, htl, _⟩ := hasTasks_false hdone
    simp only [cntAll, heapTasks, initDynamic] at hcnt hrun
    simp only [ha, htl, hrun, List.count_nil, List.map_nil] at hcnt
    cases hs : (cleanLoop fuel P s).scheduled t
    · rfl
    · simp [hs] at hcnt

theorem runOps_append (fuel : Nat) (P : Script) : ∀ (a b : List Sched.Op) (s : St),
    runOps fuel P s (a ++ b) = runOps fuel P (runOps fuel P s a) b := by
  intro a
  induction a with
  | nil => intro b s; rfl
  | cons op a ih => intro b s; simp only [List.cons_append, runOps]; exact ih b _

end AwsVerif.Proofs.C07
