import AwsVerif.Proofs.C07.Log
/-! The invariant holds in every state a program reaches. -/
namespace AwsVerif.Proofs.C07
open AwsVerif.Sched AwsVerif.Heap AwsVerif.Proofs.C06

/-- fields the detach phase does not touch -/
def SameGhost (s s' : St) : Prop :=
  s'.log = s.log ∧ s'.gen = s.gen ∧ s'.scheduled = s.scheduled ∧ s'.tsAt = s.tsAt ∧ s'.diverged = s.diverged ∧
  s'.ntasks = s.ntasks ∧ s'.ts = s.ts

theorem SameGhost.refl (s : St) : SameGhost s s := ⟨rfl, rfl, rfl, rfl, rfl, rfl, rfl⟩
theorem SameGhost.trans {a b c : St} (h1 : SameGhost a b) (h2 : SameGhost b c) : SameGhost a c :=
  ⟨h2.1.trans h1.1, h2.2.1.trans h1.2.1, h2.2.2.1.trans h1.2.2.1, h2.2.2.2.1.trans h1.2.2.2.1,
   h2.2.2.2.2.1.trans h1.2.2.2.2.1, h2.2.2.2.2.2.1.trans h1.2.2.2.2.2.1, h2.2.2.2.2.2.2.trans h1.2.2.2.2.2.2⟩

theorem takeHeap_same (s : St) : SameGhost s (takeHeap s) := by
  unfold takeHeap; split <;> exact ⟨rfl, rfl, rfl, rfl, rfl, rfl, rfl⟩

theorem takeList_same (s : St) : SameGhost s (takeList s) := by
  unfold takeList; split <;> exact ⟨rfl, rfl, rfl, rfl, rfl, rfl, rfl⟩

theorem detachLoop1_same : ∀ n (s : St) now, SameGhost s (detachLoop1 n s now) := by
  intro n
  induction n with
  | zero => intro s now; exact SameGhost.refl s
  | succ n ih =>
    intro s now
    unfold detachLoop1
    repeat' split
    all_goals first
      | exact SameGhost.refl s
      | exact (takeHeap_same s).trans (ih _ _)
      | exact (takeList_same s).trans (ih _ _)

theorem detachLoop2_same : ∀ n (s : St) now, SameGhost s (detachLoop2 n s now) := by
  intro n
  induction n with
  | zero => intro s now; exact SameGhost.refl s
  | succ n ih =>
    intro s now
    unfold detachLoop2
    repeat' split
    all_goals first
      | exact SameGhost.refl s
      | exact (takeHeap_same s).trans (ih _ _)

theorem detach_same (s : St) (now : Nat) : SameGhost s (detach s now) := by
  unfold detach
  dsimp only
  have h0 : SameGhost s { s with running := s.asap, asap := [], now := now } := ⟨rfl, rfl, rfl, rfl, rfl, rfl, rfl⟩
  exact (h0.trans (detachLoop1_same _ _ _)).trans (detachLoop2_same _ _ _)

theorem detach_goodOr (s : St) (now : Nat) (h : GoodOr s) (hr : R s) : GoodOr (detach s now) := by
  obtain ⟨e1, e2, e3, e4, e5, _, _⟩ := detach_same s now
  rcases h with h | h
  · left; rw [e5]; exact h
  · rcases hr with hr | hr
    · left; rw [e5]; exact hr
    · right
      refine ⟨(detach_sinv now h.sinv hr).1, ?_⟩
      unfold LInv
      rw [e1, e2, e3, e4]
      exact h.linv

theorem qinv_init_any (c : Cmp) (ow : Nat → Option Elem) : QInv c initDynamic ow [] := by
  refine ⟨⟨?_, ?_, ?_, ?_⟩, ?_, ?_⟩
  · simp [BpOK, initDynamic]
  · intro h i hh; simp [initDynamic] at hh
  · simp [initDynamic]
  · intro _ _ _ _ hm; cases hm
  · intro i _ hi; simp [initDynamic] at hi
  · intro c hc; simp [initDynamic] at hc

/-- `has_tasks = false` means all three containers are empty -/
theorem hasTasks_false {s : St} (h : (hasTasks s).1 = false) :
    s.asap = [] ∧ s.timedList = [] ∧ s.timed.items.size = 0 := by
  unfold hasTasks at h
  split at h
  · simp at h
  · next ha =>
    have ha' : s.asap = [] := by simpa using ha
    cases htl : s.timedList with
    | nil =>
      simp only [htl] at h
      cases htop : top s.timed with
      | ok e => simp [htop] at h
      | error er => exact ⟨ha', rfl, top_error htop⟩
    | cons t r =>
      simp only [htl] at h
      cases htop : top s.timed with
      | ok e => simp [htop] at h
      | error er => simp [htop] at h

theorem reset_goodOr (s : St) (h : GoodOr s) (hh : (hasTasks s).1 = false) : GoodOr { s with timed := initDynamic } := by
  rcases h with h | h
  · left; exact h
  · right
    obtain ⟨_, _, h0⟩ := hasTasks_false hh
    have hnil : s.timed.items.toList = [] := by
      have : s.timed.items = #[] := Array.eq_empty_of_size_eq_zero h0
      simp [this]
    refine ⟨⟨?_, h.sinv.lt, ?_, ?_, rfl, h.sinv.nt, h.sinv.tlSorted, h.sinv.asapTs, h.sinv.runDue, h.sinv.tsAtOK,
      h.sinv.genPos, h.sinv.tsBound⟩, h.linv⟩
    · intro x
      have := h.sinv.cnt x
      simp only [cntAll, heapTasks, hnil, List.map_nil, List.count_nil] at this
      simpa [cntAll, heapTasks, initDynamic] using this
    · exact qinv_init_any _ _
    · intro e he; simp [initDynamic] at he

theorem fail_goodOr (s : St) (b : Bool) (h : GoodOr s) : GoodOr { s with failPush := b } := by
  rcases h with h | h
  · left; exact h
  · right
    exact ⟨⟨h.sinv.cnt, h.sinv.lt, h.sinv.heap, h.sinv.heapKey, h.sinv.dyn, h.sinv.nt, h.sinv.tlSorted,
      h.sinv.asapTs, h.sinv.runDue, h.sinv.tsAtOK, h.sinv.genPos, h.sinv.tsBound⟩, h.linv⟩

theorem good_init {n : Nat} (hn : n < 2^63) : Good (St.init n) := by
  refine ⟨⟨?_, ?_, qinv_init_any _ _, ?_, rfl, hn, ?_, ?_, ?_, ?_, ?_, ?_⟩, ⟨?_, ?_, ?_, ?_⟩⟩
  · intro x; simp [cntAll, heapTasks, St.init, initDynamic]
  · intro x hx; simp [St.init] at hx
  · intro e he; simp [St.init, initDynamic] at he
  · simp [St.init]
  · intro x hx; simp [St.init] at hx
  · intro x hx; simp [St.init] at hx
  · intro x hx; simp [St.init] at hx
  · intro x hx; simp [St.init] at hx
  · intro x; simp [St.init]
  · intro t g; simp [St.init]; omega
  · intro e he; simp [St.init] at he
  · intro e he; simp [St.init] at he
  · intro e he; simp [St.init] at he

/-- every state reached by a program from a fresh scheduler satisfies the invariant, unless fuel ran out -/
theorem reach_good {n : Nat} (hn : n < 2^63) (P : Script) (fuel : Nat) (ops : List Sched.Op) :
    GoodOr (runOps fuel P (St.init n) ops) ∧ R (runOps fuel P (St.init n) ops) :=
  runOps_closed closed_goodOr detach_goodOr reset_goodOr fail_goodOr P fuel ops _ (Or.inr (good_init hn)) (Or.inr rfl)

theorem good_of_not_diverged {s : St} (h : GoodOr s) (hd : s.diverged = false) : Good s := by
  rcases h with h | h
  · rw [hd] at h; cases h
  · exact h

end AwsVerif.Proofs.C07
