import AwsVerif.Proofs.C07.Final
/-! The detach phase of `s_run_all`: the batch is `asap ++ D` with `D` sorted by time and due, and it takes
every due task (nothing due is left in `timed_list` or the heap). -/
namespace AwsVerif.Proofs.C07
open AwsVerif.Sched AwsVerif.Heap AwsVerif.Proofs.C06

/-- invariant of the two detach loops; `A` is the run-now part of the batch -/
structure DI (A : List Nat) (now : Nat) (s : St) : Prop where
  sinv : SInv s
  now_eq : s.now = now
  asap_nil : s.asap = []
  batch : ∃ D, s.running = A ++ D ∧ (D.map s.ts).Pairwise (· ≤ ·) ∧
    ∀ d ∈ D, ∀ x, (x ∈ s.timedList ∨ x ∈ heapTasks s) → s.ts d ≤ s.ts x

theorem takeList_DI {A : List Nat} {now : Nat} {s : St} {t0 : Nat} {r : List Nat} (h : DI A now s)
    (htl : s.timedList = t0 :: r) (hdue : s.ts t0 ≤ now) (hheap : ∀ x ∈ heapTasks s, s.ts t0 ≤ s.ts x) :
    DI A now (takeList s) ∧ (takeList s).timedList = r ∧ (takeList s).timed = s.timed := by
  have hs : SInv (takeList s) := takeList_sinv h.sinv (by
    intro t r' htr; rw [htl] at htr; cases htr; rw [h.now_eq]; exact hdue)
  have e : takeList s = { s with timedList := r, running := s.running ++ [t0] } := by
    unfold takeList; simp [htl]
  refine ⟨⟨hs, by rw [takeList_now]; exact h.now_eq, by rw [e]; exact h.asap_nil, ?_⟩, by rw [e], by rw [e]⟩
  obtain ⟨D, hrun, hsorted, hdom⟩ := h.batch
  refine ⟨D ++ [t0], ?_, ?_, ?_⟩
  · rw [e]; simp [hrun]
  · rw [e]
    simp only [List.map_append, List.map_cons, List.map_nil]
    rw [List.pairwise_append]
    refine ⟨hsorted, by simp, ?_⟩
    intro a ha b hb
    simp only [List.mem_singleton] at hb
    obtain ⟨d, hd, rfl⟩ := List.mem_map.mp ha
    subst hb
    exact hdom d hd t0 (Or.inl (by simp [htl]))
  · rw [e]
    intro d hd x hx
    simp only [heapTasks] at hx ⊢
    rcases List.mem_append.mp hd with hd | hd
    · apply hdom d hd x
      rcases hx with hx | hx
      · left; rw [htl]; exact List.mem_cons_of_mem _ hx
      · right; exact hx
    · simp only [List.mem_singleton] at hd
      subst hd
      rcases hx with hx | hx
      · exact tl_head_le h.sinv htl (by rw [htl]; exact List.mem_cons_of_mem _ hx)
      · exact hheap x hx

theorem takeHeap_DI {A : List Nat} {now : Nat} {s : St} {e : Elem} (h : DI A now s)
    (htop : top s.timed = .ok e) (hdue : e.key ≤ now) (htl : ∀ x ∈ s.timedList, e.key ≤ s.ts x) :
    DI A now (takeHeap s) ∧ (takeHeap s).timedList = s.timedList ∧
    (takeHeap s).timed.items.size = s.timed.items.size - 1 := by
  have hs : SInv (takeHeap s) := takeHeap_sinv h.sinv (by
    intro e' he'; rw [htop] at he'; cases he'; rw [h.now_eq]; exact hdue)
  obtain ⟨h0, he⟩ := top_ok htop
  obtain ⟨e', he', hr, hq', hs', _⟩ := removeNode_spec tsCmp_ok h.sinv.heap (items_nodup h.sinv) (heap_size_lt h.sinv) (Nat.pos_of_ne_zero h0)
  have hee : e' = e := by rw [he] at he'; exact (Option.some.inj he').symm
  subst hee
  have hre : removeNode tsCmp s.timed 0 = ((removeNode tsCmp s.timed 0).1, .ok e') := by rw [← hr]
  have e1 : takeHeap s = { s with timed := (removeNode tsCmp s.timed 0).1, running := s.running ++ [e'.uid] } := by
    unfold takeHeap; rw [pop_eq h0, hre]
  obtain ⟨hmem, hkey⟩ := heap_root_task h.sinv htop
  have hsub : ∀ x, x ∈ heapTasks (takeHeap s) → x ∈ heapTasks s := by
    intro x hx
    rw [e1] at hx
    obtain ⟨y, hy, rfl⟩ := mem_heapTasks.mp hx
    have : y ∈ s.timed.items.toList := List.mem_of_mem_erase (hq'.frame.perm.subset hy)
    exact mem_heapTasks.mpr ⟨y, this, rfl⟩
  refine ⟨⟨hs, by rw [takeHeap_now]; exact h.now_eq, by rw [e1]; exact h.asap_nil, ?_⟩, by rw [e1], by rw [e1]; exact hs'⟩
  obtain ⟨D, hrun, hsorted, hdom⟩ := h.batch
  refine ⟨D ++ [e'.uid], ?_, ?_, ?_⟩
  · rw [e1]; simp [hrun]
  · have hts : (takeHeap s).ts = s.ts := by rw [e1]
    rw [hts]
    simp only [List.map_append, List.map_cons, List.map_nil]
    rw [List.pairwise_append]
    refine ⟨hsorted, by simp, ?_⟩
    intro a ha b hb
    simp only [List.mem_singleton] at hb
    obtain ⟨d, hd, rfl⟩ := List.mem_map.mp ha
    subst hb
    exact hdom d hd e'.uid (Or.inr hmem)
  · intro d hd x hx
    have hts : (takeHeap s).ts = s.ts := by rw [e1]
    have htl' : (takeHeap s).timedList = s.timedList := by rw [e1]
    rw [hts]
    rw [htl'] at hx
    have hx' : x ∈ s.timedList ∨ x ∈ heapTasks s := hx.imp id (hsub x)
    rcases List.mem_append.mp hd with hd | hd
    · exact hdom d hd x hx'
    · simp only [List.mem_singleton] at hd
      subst hd
      rw [hkey]
      rcases hx' with hx' | hx'
      · exact htl x hx'
      · exact heap_root_le h.sinv htop hx'

/-- first loop: invariant, and with enough fuel it stops only when `timed_list` has nothing due left -/
theorem detachLoop1_DI {A : List Nat} {now : Nat} : ∀ n (s : St), DI A now s →
    DI A now (detachLoop1 n s now) ∧
    (s.timedList.length + s.timed.items.size < n →
      (detachLoop1 n s now).timedList = [] ∨
      ∃ t0 r, (detachLoop1 n s now).timedList = t0 :: r ∧ now < (detachLoop1 n s now).ts t0) := by
  intro n
  induction n with
  | zero => intro s h; exact ⟨h, fun hf => by omega⟩
  | succ n ih =>
    intro s h
    unfold detachLoop1
    split
    · next htl => exact ⟨h, fun _ => Or.inl htl⟩
    · next tl rest htl =>
      split
      · next hgt => exact ⟨h, fun _ => Or.inr ⟨tl, rest, htl, hgt⟩⟩
      · next hle =>
        have hdue : s.ts tl ≤ now := by omega
        split
        · next e htop =>
          split
          · next hc =>
            have hstep := takeHeap_DI h htop hc.1 (by
              intro x hx
              have := tl_head_le h.sinv htl hx
              omega)
            have hrec := ih (takeHeap s) hstep.1
            refine ⟨hrec.1, fun hf => hrec.2 ?_⟩
            rw [hstep.2.1, hstep.2.2]
            have := (top_ok htop).1
            omega
          · next hc =>
            have hstep := takeList_DI h htl hdue (by
              intro x hx
              have := heap_root_le h.sinv htop hx
              have hc' : ¬ (e.key ≤ now ∧ e.key < s.ts tl) := hc
              by_cases h1 : e.key < s.ts tl
              · exfalso; exact hc' ⟨by omega, h1⟩
              · omega)
            have hrec := ih (takeList s) hstep.1
            refine ⟨hrec.1, fun hf => hrec.2 ?_⟩
            rw [hstep.2.1, hstep.2.2]
            simp only [htl, List.length_cons] at hf
            omega
        · next er htop =>
          have h0 := top_error htop
          have hstep := takeList_DI h htl hdue (by
            intro x hx
            have : s.timed.items = #[] := Array.eq_empty_of_size_eq_zero h0
            simp [heapTasks, this] at hx)
          have hrec := ih (takeList s) hstep.1
          refine ⟨hrec.1, fun hf => hrec.2 ?_⟩
          rw [hstep.2.1, hstep.2.2]
          simp only [htl, List.length_cons] at hf
          omega

/-- second loop: invariant, `timed_list` untouched, and with enough fuel the heap has nothing due left -/
theorem detachLoop2_DI {A : List Nat} {now : Nat} : ∀ n (s : St), DI A now s →
    (s.timedList = [] ∨ ∃ t0 r, s.timedList = t0 :: r ∧ now < s.ts t0) →
    DI A now (detachLoop2 n s now) ∧ (detachLoop2 n s now).timedList = s.timedList ∧
    (detachLoop2 n s now).ts = s.ts ∧
    (s.timed.items.size < n →
      (detachLoop2 n s now).timed.items.size = 0 ∨ ∃ e, top (detachLoop2 n s now).timed = .ok e ∧ now < e.key) := by
  intro n
  induction n with
  | zero => intro s h _; exact ⟨h, rfl, rfl, fun hf => by omega⟩
  | succ n ih =>
    intro s h hexit
    unfold detachLoop2
    split
    · next e htop =>
      split
      · next hgt => exact ⟨h, rfl, rfl, fun _ => Or.inr ⟨e, htop, hgt⟩⟩
      · next hle =>
        have hstep := takeHeap_DI h htop (by omega) (by
          intro x hx
          rcases hexit with hnil | ⟨t0, r, htl, hgt⟩
          · rw [hnil] at hx; cases hx
          · have := tl_head_le h.sinv htl hx
            omega)
        have hts : (takeHeap s).ts = s.ts := (takeHeap_same s).2.2.2.2.2.2
        have hrec := ih (takeHeap s) hstep.1 (by rw [hstep.2.1, hts]; exact hexit)
        refine ⟨hrec.1, by rw [hrec.2.1, hstep.2.1], by rw [hrec.2.2.1, hts], fun hf => hrec.2.2.2 ?_⟩
        rw [hstep.2.2]
        have := (top_ok htop).1
        omega
    · next er htop => exact ⟨h, rfl, rfl, fun _ => Or.inl (top_error htop)⟩

/-- `detach`: structure of the batch and completeness -/
theorem detach_spec {s : St} (now : Nat) (h : SInv s) (hr : s.running = []) :
    SInv (detach s now) ∧ (detach s now).now = now ∧ (detach s now).asap = [] ∧
    (∃ D, (detach s now).running = s.asap ++ D ∧ (D.map s.ts).Pairwise (· ≤ ·) ∧ ∀ d ∈ D, s.ts d ≤ now) ∧
    (∀ t, (detach s now).scheduled t = true → t ∉ (detach s now).running → now < s.ts t) := by
  have h0 : DI s.asap now { s with running := s.asap, asap := [], now := now } := by
    refine ⟨?_, rfl, rfl, ⟨[], by simp, by simp, by intro d hd; cases hd⟩⟩
    refine ⟨?_, h.lt, h.heap, h.heapKey, h.dyn, h.nt, h.tlSorted, ?_, ?_, h.tsAtOK, h.genPos, h.tsBound⟩
    · intro x
      have := h.cnt x
      simp only [cntAll, hr, List.count_nil, heapTasks] at this ⊢
      omega
    · intro x hx; cases hx
    · intro x hx
      have := h.asapTs x hx
      show s.ts x ≤ now
      omega
  have h1 := detachLoop1_DI (A := s.asap) (now := now) (s.timedList.length + s.timed.items.size + 1)
    { s with running := s.asap, asap := [], now := now } h0
  have hexit1 := h1.2 (by simp)
  have h2 := detachLoop2_DI (A := s.asap) (now := now)
    ((detachLoop1 (s.timedList.length + s.timed.items.size + 1) { s with running := s.asap, asap := [], now := now } now).timed.items.size + 1)
    _ h1.1 hexit1
  have hexit2 := h2.2.2.2 (by simp)
  have hd : detach s now = detachLoop2
      ((detachLoop1 (s.timedList.length + s.timed.items.size + 1) { s with running := s.asap, asap := [], now := now } now).timed.items.size + 1)
      (detachLoop1 (s.timedList.length + s.timed.items.size + 1) { s with running := s.asap, asap := [], now := now } now) now := rfl
  rw [← hd] at h2 hexit2
  have hts : (detach s now).ts = s.ts := (detach_same s now).2.2.2.2.2.2
  obtain ⟨D, hrun, hsorted, _⟩ := h2.1.batch
  rw [hts] at hsorted
  refine ⟨h2.1.sinv, h2.1.now_eq, h2.1.asap_nil, ⟨D, hrun, hsorted, ?_⟩, ?_⟩
  · intro d hd
    have := h2.1.sinv.runDue d (by rw [hrun]; exact List.mem_append_right _ hd)
    rw [hts, h2.1.now_eq] at this
    exact this
  · intro t hsch hnr
    -- t is pending after the detach and not in the batch: it is in timed_list or in the heap, both of which hold nothing due
    have hc := cnt_true h2.1.sinv hsch
    have hrun0 : (detach s now).running.count t = 0 := List.count_eq_zero.mpr hnr
    rw [h2.1.asap_nil] at hc
    simp only [List.count_nil, hrun0] at hc
    rw [← hts]
    by_cases hm : t ∈ (detach s now).timedList
    · -- timed_list after loop 1 (loop 2 leaves it alone)
      rw [h2.2.1] at hm
      rcases hexit1 with hnil | ⟨t0, r, htl, hgt⟩
      · rw [hnil] at hm; cases hm
      · have := tl_head_le h1.1.sinv htl hm
        rw [h2.2.2.1]
        omega
    · have hz := List.count_eq_zero.mpr hm
      have hheap : t ∈ heapTasks (detach s now) := List.count_pos_iff.mp (by omega)
      rcases hexit2 with h0' | ⟨e, htop, hgt⟩
      · have : (detach s now).timed.items = #[] := Array.eq_empty_of_size_eq_zero h0'
        simp [heapTasks, this] at hheap
      · have := heap_root_le h2.1.sinv htop hheap
        omega

end AwsVerif.Proofs.C07
