import AwsVerif.Proofs.C07.Skeleton
import AwsVerif.Proofs.C07.Bridge
import AwsVerif.Proofs.C06.Inv
/-! The state invariant of the scheduler model and basic consequences. -/
namespace AwsVerif.Proofs.C07
open AwsVerif.Sched AwsVerif.Heap AwsVerif.Proofs.C06

/-- tasks in the timed heap, in array order -/
def heapTasks (s : St) : List Nat := s.timed.items.toList.map (·.uid)

/-- ghost owner map of the timed heap: handle `t` belongs to element `(ts t, t)` -/
def owner (s : St) : Nat → Option Elem := fun t => some ⟨s.ts t, t⟩

/-- number of containers holding `t` (with multiplicity) -/
def cntAll (s : St) (t : Nat) : Nat :=
  s.asap.count t + s.timedList.count t + s.running.count t + (heapTasks s).count t

/-- structural invariant: every pending task sits in exactly one container exactly once and
`scheduled` says so; the timed heap satisfies the priority-queue invariant with handle `t` on element
`(ts t, t)`; `timed_list` is sorted; run-now tasks have timestamp 0; tasks in the running batch are due -/
structure SInv (s : St) : Prop where
  cnt : ∀ t, cntAll s t = if s.scheduled t then 1 else 0
  lt : ∀ t, s.scheduled t = true → t < s.ntasks
  heap : QInv tsCmp s.timed (owner s) s.timed.items.toList
  heapKey : ∀ e ∈ s.timed.items.toList, e.key = s.ts e.uid
  dyn : s.timed.cap = none
  nt : s.ntasks < 2^63
  tlSorted : (s.timedList.map s.ts).Pairwise (· ≤ ·)
  asapTs : ∀ t ∈ s.asap, s.ts t = 0
  runDue : ∀ t ∈ s.running, s.ts t ≤ s.now
  tsAtOK : ∀ t, s.scheduled t = true → s.tsAt t (s.gen t) = s.ts t
  genPos : ∀ t, s.scheduled t = true → 1 ≤ s.gen t
  tsBound : ∀ t, s.ts t ≤ UINT64_MAX

theorem cnt_true {s : St} (h : SInv s) {t : Nat} (ht : s.scheduled t = true) :
    s.asap.count t + s.timedList.count t + s.running.count t + (heapTasks s).count t = 1 := by
  have := h.cnt t; simpa [cntAll, ht] using this

theorem cnt_false {s : St} (h : SInv s) {t : Nat} (ht : s.scheduled t = false) :
    s.asap.count t + s.timedList.count t + s.running.count t + (heapTasks s).count t = 0 := by
  have := h.cnt t; simp only [cntAll, ht] at this; simpa using this

theorem mem_heapTasks {s : St} {t : Nat} : t ∈ heapTasks s ↔ ∃ e ∈ s.timed.items.toList, e.uid = t := by
  simp [heapTasks]

theorem heapTasks_nodup {s : St} (h : SInv s) : (heapTasks s).Nodup := by
  rw [List.nodup_iff_count]
  intro t
  have := h.cnt t
  unfold cntAll at this
  split at this <;> omega

theorem heap_elem_eq {s : St} (h : SInv s) {e : Elem} (he : e ∈ s.timed.items.toList) : e = ⟨s.ts e.uid, e.uid⟩ := by
  have := h.heapKey e he
  cases e; simp_all

/-- a task in the heap has a live handle that sits on its element -/
theorem heap_live {s : St} (h : SInv s) {t : Nat} (ht : t ∈ heapTasks s) :
    ∃ i, s.timed.handles t = some i ∧ s.timed.items[i]? = some ⟨s.ts t, t⟩ := by
  obtain ⟨e, he, rfl⟩ := mem_heapTasks.mp ht
  have hee := heap_elem_eq h he
  cases hh : s.timed.handles e.uid with
  | none =>
    exfalso
    exact h.heap.frame.dead e.uid ⟨s.ts e.uid, e.uid⟩ hh rfl (hee ▸ he)
  | some i =>
    exact ⟨i, rfl, h.heap.frame.tracks e.uid i hh⟩

/-- a task not in the heap has handle `SIZE_MAX` -/
theorem not_heap_dead {s : St} (h : SInv s) {t : Nat} (ht : t ∉ heapTasks s) : s.timed.handles t = none := by
  cases hh : s.timed.handles t with
  | none => rfl
  | some i =>
    exfalso
    apply ht
    have := h.heap.frame.tracks t i hh
    have hm : (⟨s.ts t, t⟩ : Elem) ∈ s.timed.items.toList := Array.mem_def.mp (Array.mem_of_getElem? this)
    exact mem_heapTasks.mpr ⟨_, hm, rfl⟩

theorem sched_of_mem_heap {s : St} (h : SInv s) {t : Nat} (ht : t ∈ heapTasks s) : s.scheduled t = true := by
  have := h.cnt t
  have hp := List.count_pos_iff.mpr ht
  unfold cntAll at this
  split at this
  · assumption
  · omega

theorem heap_size_lt {s : St} (h : SInv s) : s.timed.items.size < 2^63 := by
  have hnd := heapTasks_nodup h
  have hsub : heapTasks s ⊆ List.range s.ntasks := by
    intro t ht
    exact List.mem_range.mpr (h.lt t (sched_of_mem_heap h ht))
  have := hnd.length_le_of_subset hsub
  have hl : (heapTasks s).length = s.timed.items.size := by simp [heapTasks]
  have := h.nt
  simp only [List.length_range] at *
  omega

theorem not_mem_of_not_sched {s : St} (h : SInv s) {t : Nat} (ht : s.scheduled t = false) :
    t ∉ s.asap ∧ t ∉ s.timedList ∧ t ∉ s.running ∧ t ∉ heapTasks s := by
  have := cnt_false h ht
  refine ⟨?_, ?_, ?_, ?_⟩ <;> (rw [← List.count_eq_zero]; omega)

theorem _root_.AwsVerif.Proofs.C06.QInv.of_perm {c : Cmp} {q : PQ} {ow : Nat → Option Elem} {r r' : List Elem} (h : QInv c q ow r) (hp : r.Perm r') : QInv c q ow r' :=
  ⟨⟨h.frame.bpok, h.frame.tracks, h.frame.perm.trans hp, fun x e hx ho hm => h.frame.dead x e hx ho (hp.symm.subset hm)⟩,
   h.heap, h.capOK⟩

/-- changing the timestamp of a task that is not in the heap keeps the heap invariant -/
theorem qinv_owner_update {c : Cmp} {q : PQ} {ts : Nat → Nat} {r : List Elem} {t v : Nat}
    (h : QInv c q (fun x => some ⟨ts x, x⟩) r) (hd : q.handles t = none) (hr : ∀ e ∈ r, e.uid ≠ t) :
    QInv c q (fun x => some ⟨updF ts t v x, x⟩) r := by
  refine ⟨⟨h.frame.bpok, ?_, h.frame.perm, ?_⟩, h.heap, h.capOK⟩
  · intro x i hx
    have hne : x ≠ t := by intro hh; rw [hh, hd] at hx; cases hx
    have := h.frame.tracks x i hx
    simp only [updF, hne, if_false]
    exact this
  · intro x e hx ho hm
    by_cases hxt : x = t
    · subst hxt
      simp only [updF, if_true] at ho
      cases ho
      exact hr _ hm rfl
    · simp only [updF, hxt, if_false] at ho
      exact h.frame.dead x e hx ho hm

theorem nodeInit_eq {q : PQ} {t : Nat} (h : q.handles t = none) : nodeInit q t = q := by
  cases q with
  | mk items bp handles cap =>
    simp only [nodeInit, PQ.mk.injEq, true_and, and_true]
    funext x
    simp only [upd]
    split
    · next hx => subst hx; exact h.symm
    · rfl

end AwsVerif.Proofs.C07
