import AwsVerif.Proofs.C07.Batch
/-! Invariant of one `s_run_all` call after its detach phase: what the run loop invokes is, in order, a
sublist of the batch; nothing that was due is left behind; tasks scheduled meanwhile are not run. -/
namespace AwsVerif.Proofs.C07
open AwsVerif.Sched AwsVerif.Heap AwsVerif.Proofs.C06

/-- tasks invoked by the run loop of `run_all` among the log entries after position `L0`, in order -/
def loopRuns (L0 : Nat) (s : St) : List Nat :=
  ((s.log.drop L0).filter (fun e => e.cause == Cause.runAll)).map (·.task)

/-- `G0`, `TS0`: generations and timestamps when the call detached its batch `B`; `now0` its time;
`L0` the length of the log at that moment -/
structure RunInv (G0 TS0 : Nat → Nat) (now0 L0 : Nat) (B : List Nat) (s : St) : Prop where
  good : Good s
  genMono : ∀ t, G0 t ≤ s.gen t
  tsSame : ∀ t, s.gen t = G0 t → s.ts t = TS0 t
  notDue : ∀ t, s.scheduled t = true → s.gen t = G0 t → t ∉ s.running → now0 < s.ts t
  runGen : ∀ t ∈ s.running, s.gen t = G0 t
  logLen : L0 ≤ s.log.length
  sub : (loopRuns L0 s ++ s.running).Sublist B
  logGen : ∀ e ∈ s.log.drop L0, e.cause = .runAll → e.gen = G0 e.task
  nowEq : s.now = now0
  logNow : ∀ e ∈ s.log.drop L0, e.now = now0

def RunInvOr (G0 TS0 : Nat → Nat) (now0 L0 : Nat) (B : List Nat) (s : St) : Prop :=
  s.diverged = true ∨ RunInv G0 TS0 now0 L0 B s

theorem scheduleFuture_fields (s : St) (t time : Nat) :
    (scheduleFuture s t time).gen = updF s.gen t (s.gen t + 1) ∧
    (scheduleFuture s t time).scheduled = updF s.scheduled t true ∧
    (scheduleFuture s t time).ts = updF s.ts t (time % 2^64) ∧
    (scheduleFuture s t time).running = s.running ∧ (scheduleFuture s t time).log = s.log ∧
    (scheduleFuture s t time).now = s.now := by
  unfold scheduleFuture scheduleFutureU
  dsimp only
  split <;> exact ⟨rfl, rfl, rfl, rfl, rfl, rfl⟩

theorem unlink_running (s : St) (t : Nat) :
    (unlink s t).running = s.running.erase t ∨ (unlink s t).running = s.running := by
  unfold unlink
  repeat' split
  · left; rfl
  · right; rfl
  · right; rfl

theorem loopRuns_append_other {L0 : Nat} {s : St} {log' : List Entry} {e : Entry} (hl : L0 ≤ s.log.length)
    (hlog : log' = s.log ++ [e]) (hc : e.cause ≠ .runAll) :
    ((log'.drop L0).filter (fun e => e.cause == Cause.runAll)).map (·.task) = loopRuns L0 s := by
  rw [hlog, List.drop_append_of_le_length hl, List.filter_append]
  have : (e.cause == Cause.runAll) = false := by simpa using hc
  simp [loopRuns, this]

theorem loopRuns_append_run {L0 : Nat} {s : St} {log' : List Entry} {e : Entry} (hl : L0 ≤ s.log.length)
    (hlog : log' = s.log ++ [e]) (hc : e.cause = .runAll) :
    ((log'.drop L0).filter (fun e => e.cause == Cause.runAll)).map (·.task) = loopRuns L0 s ++ [e.task] := by
  rw [hlog, List.drop_append_of_le_length hl, List.filter_append]
  have : (e.cause == Cause.runAll) = true := by simp [hc]
  simp [loopRuns, this]

theorem mem_drop_append {L0 : Nat} {log : List Entry} {e x : Entry} (hl : L0 ≤ log.length)
    (hx : x ∈ (log ++ [e]).drop L0) : x ∈ log.drop L0 ∨ x = e := by
  rw [List.drop_append_of_le_length hl] at hx
  rcases List.mem_append.mp hx with h | h
  · exact Or.inl h
  · right; simpa using h

theorem closed_runInvOr (G0 TS0 : Nat → Nat) (now0 L0 : Nat) (B : List Nat) : Closed (RunInvOr G0 TS0 now0 L0 B) := by
  refine ⟨?_, ?_, ?_, ?_, ?_, ?_⟩
  · -- schedule_now
    intro s t h hlt ht
    rcases h with h | h
    · left; exact h
    · right
      have hnr : t ∉ s.running := (not_mem_of_not_sched h.good.sinv ht).2.2.1
      have hgm := h.genMono t
      refine ⟨scheduleNow_good h.good hlt ht, ?_, ?_, ?_, ?_, h.logLen, h.sub, h.logGen, h.nowEq, h.logNow⟩
      · intro x; simp only [scheduleNow, updF]; split
        · next hx => subst hx; omega
        · exact h.genMono x
      · intro x; simp only [scheduleNow, updF]
        by_cases hx : x = t
        · subst hx; simp only [if_true]; intro hh; omega
        · simp only [hx, if_false]; exact h.tsSame x
      · intro x; simp only [scheduleNow, updF]
        by_cases hx : x = t
        · subst hx; simp only [if_true]; intro _ hh; omega
        · simp only [hx, if_false]; exact h.notDue x
      · intro x hx
        have hne : x ≠ t := fun hh => hnr (hh ▸ hx)
        simp only [scheduleNow, updF, hne, if_false]
        exact h.runGen x hx
  · -- schedule_future
    intro s t time h hlt ht
    rcases h with h | h
    · left; rw [scheduleFuture_diverged]; exact h
    · right
      have hnr : t ∉ s.running := (not_mem_of_not_sched h.good.sinv ht).2.2.1
      have hgm := h.genMono t
      obtain ⟨e1, e2, e3, e4, e5, e6⟩ := scheduleFuture_fields s t time
      refine ⟨scheduleFuture_good h.good hlt ht, ?_, ?_, ?_, ?_, ?_, ?_, ?_, ?_, ?_⟩
      · intro x; rw [e1]; simp only [updF]; split
        · next hx => subst hx; omega
        · exact h.genMono x
      · intro x; rw [e1, e3]; simp only [updF]
        by_cases hx : x = t
        · subst hx; simp only [if_true]; intro hh; omega
        · simp only [hx, if_false]; exact h.tsSame x
      · intro x; rw [e1, e2, e3, e4]; simp only [updF]
        by_cases hx : x = t
        · subst hx; simp only [if_true]; intro _ hh; omega
        · simp only [hx, if_false]; exact h.notDue x
      · intro x hx
        rw [e4] at hx
        have hne : x ≠ t := fun hh => hnr (hh ▸ hx)
        rw [e1]; simp only [updF, hne, if_false]
        exact h.runGen x hx
      · rw [e5]; exact h.logLen
      · unfold loopRuns; rw [e5, e4]; exact h.sub
      · rw [e5]; exact h.logGen
      · rw [e6]; exact h.nowEq
      · rw [e5]; exact h.logNow
  · -- cancel
    intro s t h _ ht
    rcases h with h | h
    · left; simp only [mark]; rw [(unlink_fields s t).2.2.2.2.2.1]; exact h
    · right
      obtain ⟨f1, f2, f3, f4, f5, _, _⟩ := unlink_fields s t
      have hts : (unlink s t).ts = s.ts := by unfold unlink; repeat' split <;> rfl
      have hrsub : (unlink s t).running.Sublist s.running := by
        rcases unlink_running s t with hr | hr <;> rw [hr]
        · exact List.erase_sublist
        · exact List.Sublist.refl _
      have hrmem : ∀ x, x ≠ t → x ∉ (unlink s t).running → x ∉ s.running := by
        intro x hx hn hm
        rcases unlink_running s t with hr | hr <;> rw [hr] at hn
        · exact hn ((List.mem_erase_of_ne hx).mpr hm)
        · exact hn hm
      refine ⟨cancel_good h.good ht, ?_, ?_, ?_, ?_, ?_, ?_, ?_, ?_, ?_⟩
      · intro x; simp only [mark, f2]; exact h.genMono x
      · intro x; simp only [mark, f2, hts]; exact h.tsSame x
      · intro x
        simp only [mark, f2, f3, hts, updF]
        by_cases hx : x = t
        · simp [hx]
        · simp only [hx, if_false]
          intro hs hg hn
          exact h.notDue x hs hg (hrmem x hx hn)
      · intro x hx
        simp only [mark, f2] at hx ⊢
        exact h.runGen x (hrsub.subset hx)
      · simp only [mark, f1, List.length_append]; have := h.logLen; omega
      · unfold loopRuns
        simp only [mark]
        rw [loopRuns_append_other h.logLen (by rw [f1]) (by simp)]
        exact ((List.Sublist.refl _).append hrsub).trans h.sub
      · intro e he hc
        simp only [mark, f1] at he
        rcases mem_drop_append h.logLen he with he | he
        · exact h.logGen e he hc
        · subst he; cases hc
      · simp only [mark, f5]; exact h.nowEq
      · intro e he
        simp only [mark, f1, f5] at he
        rcases mem_drop_append h.logLen he with he | he
        · exact h.logNow e he
        · subst he; exact h.nowEq
  · -- the run loop takes the next task
    intro s t r st c hcons hcc h hr
    rcases h with h | h
    · left; exact h
    · right
      refine ⟨popRun_good hcons h.good hr, h.genMono, h.tsSame, ?_, ?_, ?_, ?_, ?_, h.nowEq, ?_⟩
      · intro x
        simp only [mark, updF]
        by_cases hx : x = t
        · simp [hx]
        · simp only [hx, if_false]
          intro hs hg hn
          exact h.notDue x hs hg (by rw [hr]; simp [hx, hn])
      · intro x hx
        simp only [mark] at hx ⊢
        exact h.runGen x (by rw [hr]; exact List.mem_cons_of_mem _ hx)
      · simp only [mark, List.length_append]; have := h.logLen; omega
      · unfold loopRuns
        simp only [mark]
        have hsub := h.sub
        rw [hr] at hsub
        rcases hcc with hc | hc
        · subst hc
          rw [loopRuns_append_run h.logLen rfl rfl]
          simp only [List.append_assoc, List.singleton_append]
          exact hsub
        · subst hc
          rw [loopRuns_append_other h.logLen rfl (by simp)]
          exact ((List.Sublist.refl _).append (List.sublist_cons_self t r)).trans hsub
      · intro e he hc'
        simp only [mark] at he
        rcases mem_drop_append h.logLen he with he | he
        · exact h.logGen e he hc'
        · subst he
          exact h.runGen t (by rw [hr]; simp)
      · intro e he
        simp only [mark] at he
        rcases mem_drop_append h.logLen he with he | he
        · exact h.logNow e he
        · subst he; exact h.nowEq
  · -- refused action
    intro s h
    rcases h with h | h
    · left; exact h
    · right
      have hg := (closed_goodOr.skip s (Or.inr h.good))
      refine ⟨?_, h.genMono, h.tsSame, h.notDue, h.runGen, h.logLen, h.sub, h.logGen, h.nowEq, h.logNow⟩
      rcases hg with hg | hg
      · exact ⟨⟨h.good.sinv.cnt, h.good.sinv.lt, h.good.sinv.heap, h.good.sinv.heapKey, h.good.sinv.dyn, h.good.sinv.nt,
          h.good.sinv.tlSorted, h.good.sinv.asapTs, h.good.sinv.runDue, h.good.sinv.tsAtOK, h.good.sinv.genPos,
          h.good.sinv.tsBound⟩, h.good.linv⟩
      · exact hg
  · intro s _; left; rfl

end AwsVerif.Proofs.C07
