import AwsVerif.Proofs.C07.Order
/-! What one `run_all` call does, from a good top-level state. -/
namespace AwsVerif.Proofs.C07
open AwsVerif.Sched AwsVerif.Heap AwsVerif.Proofs.C06

theorem closed_diverged : Closed (fun s => s.diverged = true) := by
  refine ⟨?_, ?_, ?_, ?_, ?_, ?_⟩
  · intro s t h _ _; exact h
  · intro s t time h _ _; rw [scheduleFuture_diverged]; exact h
  · intro s t h _ _; simp only [mark]; rw [(unlink_fields s t).2.2.2.2.2.1]; exact h
  · intro s t r st c _ _ h _; exact h
  · intro s h; exact h
  · intro s _; rfl

/-- running out of fuel is permanent -/
theorem sRunAll_diverged_mono (fuel : Nat) (P : Script) (s : St) (now : Nat) (st : Status) (c : Cause)
    (hcons : Consistent st c) (hcc : c = .runAll ∨ c = .cleanUp) (h : s.diverged = true) :
    (sRunAll fuel P s now st c).diverged = true :=
  runLoop_closed closed_diverged P hcons hcc fuel _ (by rw [(detach_same s now).2.2.2.2.1]; exact h)

theorem runAll_spec {s : St} (hg : Good s) (hr : s.running = []) (fuel : Nat) (P : Script) (now : Nat)
    (hd : (sRunAll fuel P s now .run .runAll).diverged = false) :
    ∃ D, (D.map s.ts).Pairwise (· ≤ ·) ∧ (∀ d ∈ D, s.ts d ≤ now) ∧
      (loopRuns s.log.length (sRunAll fuel P s now .run .runAll)).Sublist (s.asap ++ D) ∧
      (∀ e ∈ (sRunAll fuel P s now .run .runAll).log.drop s.log.length,
          (e.cause = .runAll → e.gen = s.gen e.task) ∧ e.now = now) ∧
      (∀ t, ¬((sRunAll fuel P s now .run .runAll).scheduled t = true ∧
              (sRunAll fuel P s now .run .runAll).gen t = s.gen t ∧ s.ts t ≤ now)) ∧
      s.log.length ≤ (sRunAll fuel P s now .run .runAll).log.length ∧
      (∀ t, s.gen t ≤ (sRunAll fuel P s now .run .runAll).gen t) := by
  obtain ⟨hs1, hnow, _, ⟨D, hrun, hsorted, hdue⟩, hcomplete⟩ := detach_spec now hg.sinv hr
  obtain ⟨e1, e2, e3, e4, _, _, e7⟩ := detach_same s now
  have hg1 : Good (detach s now) := ⟨hs1, by unfold LInv; rw [e1, e2, e3, e4]; exact hg.linv⟩
  have hinit : RunInv s.gen s.ts now s.log.length (detach s now).running (detach s now) := by
    refine ⟨hg1, ?_, ?_, ?_, ?_, ?_, ?_, ?_, hnow, ?_⟩
    · intro t; rw [e2]; exact Nat.le_refl _
    · intro t _; rw [e7]
    · intro t hs _ hn; rw [e7]; exact hcomplete t hs hn
    · intro t _; rw [e2]
    · rw [e1]; exact Nat.le_refl _
    · unfold loopRuns; rw [e1]; simp
    · intro e he; rw [e1] at he; simp at he
    · intro e he; rw [e1] at he; simp at he
  have hfin := runLoop_closed (closed_runInvOr s.gen s.ts now s.log.length (detach s now).running) P
    (st := .run) (c := .runAll) trivial (Or.inl rfl) fuel _ (Or.inr hinit)
  have hfin' : RunInv s.gen s.ts now s.log.length (detach s now).running (sRunAll fuel P s now .run .runAll) := by
    rcases hfin with h | h
    · unfold sRunAll at hd; rw [hd] at h; cases h
    · exact h
  have hrun' : (sRunAll fuel P s now .run .runAll).running = [] := runLoop_done P _ _ fuel _ hd
  refine ⟨D, hsorted, hdue, ?_, ?_, ?_, hfin'.logLen, hfin'.genMono⟩
  · have := hfin'.sub
    rw [hrun', List.append_nil, hrun] at this
    exact this
  · intro e he
    exact ⟨hfin'.logGen e he, hfin'.logNow e he⟩
  · intro t ⟨hs, hgen, hle⟩
    have h1 := hfin'.tsSame t hgen
    have h2 := hfin'.notDue t hs hgen (by rw [hrun']; simp)
    omega

/-- helper: the state before and after a final `run_all now` of a program -/
theorem runAll_states {n : Nat} (hn : n < 2^63) (P : Script) (fuel : Nat) (ops' : List Sched.Op) (now : Nat)
    (hd : (runOps fuel P (St.init n) (ops' ++ [.runAll now])).diverged = false) :
    runOps fuel P (St.init n) (ops' ++ [.runAll now]) = sRunAll fuel P (runOps fuel P (St.init n) ops') now .run .runAll ∧
    Good (runOps fuel P (St.init n) ops') ∧ (runOps fuel P (St.init n) ops').running = [] := by
  have e : runOps fuel P (St.init n) (ops' ++ [.runAll now]) =
      sRunAll fuel P (runOps fuel P (St.init n) ops') now .run .runAll := by rw [runOps_append]; rfl
  have hr := reach_good hn P fuel ops'
  have hnd : (runOps fuel P (St.init n) ops').diverged = false := by
    cases hdv : (runOps fuel P (St.init n) ops').diverged
    · rfl
    · have := sRunAll_diverged_mono fuel P _ now .run .runAll trivial (Or.inl rfl) hdv
      rw [← e, hd] at this; cases this
  refine ⟨e, good_of_not_diverged hr.1 hnd, ?_⟩
  rcases hr.2 with h | h
  · rw [hnd] at h; cases h
  · exact h

end AwsVerif.Proofs.C07
