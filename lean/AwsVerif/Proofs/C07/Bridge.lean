import AwsVerif.Model.Sched
import AwsVerif.Proofs.C06.Arith
/-! The scheduler's comparator, *generated* from `s_compare_timestamps` (task_scheduler.c) on every run, is the
total preorder the heap theorems need: `pred(a, b) > 0 ↔ a > b` on all pairs of `uint64_t` timestamps. -/
namespace AwsVerif.Proofs.C07
open AwsVerif.Sched AwsVerif.Heap AwsVerif.Proofs.C06

/-- on `uint64_t` operands the generated comparator's result is positive (as a C `int`) exactly when `a > b` -/
theorem compare_timestamps_pos_iff {a b : Nat} (ha : a < 2^64) (hb : b < 2^64) :
    (0 < Gen.HeapIdx.s_compare_timestamps a b ∧ Gen.HeapIdx.s_compare_timestamps a b < 2^31) ↔ a > b := by
  have := ha; have := hb
  unfold Gen.HeapIdx.s_compare_timestamps
  dsimp only
  repeat' split
  all_goals omega

theorem tsCmp_gt_iff {a b : Nat} (ha : a < 2^64) (hb : b < 2^64) : tsCmp.gt a b = true ↔ a > b := by
  simp only [tsCmp, Nat.mod_eq_of_lt ha, Nat.mod_eq_of_lt hb, decide_eq_true_eq]
  exact compare_timestamps_pos_iff ha hb

theorem tsCmp_gt_mod (a b : Nat) : tsCmp.gt a b = true ↔ a % 2^64 > b % 2^64 := by
  have ha : a % 2^64 < 2^64 := Nat.mod_lt _ (by decide)
  have hb : b % 2^64 < 2^64 := Nat.mod_lt _ (by decide)
  simp only [tsCmp, decide_eq_true_eq]
  exact compare_timestamps_pos_iff ha hb

theorem tsCmp_le_mod (a b : Nat) : tsCmp.le a b ↔ a % 2^64 ≤ b % 2^64 := by
  unfold Cmp.le
  have := tsCmp_gt_mod a b
  cases h : tsCmp.gt a b
  · simp only [h] at this; constructor
    · intro _
      have hn : ¬ (a % 2^64 > b % 2^64) := fun hh => by have := this.mpr hh; cases this
      omega
    · intro _; rfl
  · have := this.mp h; constructor
    · intro hh; cases hh
    · intro hh; omega

theorem tsCmp_le_iff {a b : Nat} (ha : a < 2^64) (hb : b < 2^64) : tsCmp.le a b ↔ a ≤ b := by
  rw [tsCmp_le_mod, Nat.mod_eq_of_lt ha, Nat.mod_eq_of_lt hb]

/-- the generated timestamp comparator satisfies the comparator hypothesis of the C06 theorems -/
theorem tsCmp_ok : CmpOK tsCmp := by
  constructor
  · intro a b; simp only [tsCmp_le_mod]; omega
  · intro a b d; simp only [tsCmp_le_mod]; omega

end AwsVerif.Proofs.C07
