import AwsVerif.Proofs.C07.Detach
/-! The log invariant: every scheduled generation is logged at most once, exactly once as soon as it is
no longer pending; statuses and causes agree; RUN entries are not early. -/
namespace AwsVerif.Proofs.C07
open AwsVerif.Sched AwsVerif.Heap AwsVerif.Proofs.C06

/-- log entries of generation `g` of task `t` -/
def entryOf (t g : Nat) (e : Entry) : Bool := e.task == t && e.gen == g

structure LInvF (log : List Entry) (gen : Nat → Nat) (scheduled : Nat → Bool) (tsAt : Nat → Nat → Nat) : Prop where
  count : ∀ t g, log.countP (entryOf t g) =
    if 1 ≤ g ∧ g ≤ gen t ∧ ¬(g = gen t ∧ scheduled t = true) then 1 else 0
  cause : ∀ e ∈ log, Consistent e.status e.cause
  early : ∀ e ∈ log, e.status = .run → tsAt e.task e.gen ≤ e.now
  genLe : ∀ e ∈ log, e.gen ≤ gen e.task

def LInv (s : St) : Prop := LInvF s.log s.gen s.scheduled s.tsAt

/-- scheduling a task that is not pending starts a new generation -/
theorem linvF_sched {log gen scheduled tsAt} {t time : Nat} (h : LInvF log gen scheduled tsAt) (ht : scheduled t = false) :
    LInvF log (updF gen t (gen t + 1)) (updF scheduled t true) (updF2 tsAt t (gen t + 1) time) := by
  refine ⟨?_, h.cause, ?_, ?_⟩
  · intro x g
    rw [h.count x g]
    simp only [updF]
    by_cases hx : x = t
    · subst hx
      simp only [if_true, ht]
      have hiff : (1 ≤ g ∧ g ≤ gen x ∧ ¬(g = gen x ∧ false = true)) ↔
          (1 ≤ g ∧ g ≤ gen x + 1 ∧ ¬(g = gen x + 1 ∧ true = true)) := by
        constructor <;> intro hh <;> simp only [Bool.false_eq_true, and_false, not_false_eq_true, and_true] at hh ⊢ <;> omega
      simp only [hiff]
    · simp only [hx, if_false]
  · intro e he hr
    have hg := h.genLe e he
    simp only [updF2]
    split
    · next hc => obtain ⟨h1, h2⟩ := hc; rw [h1] at hg; omega
    · exact h.early e he hr
  · intro e he
    have hg := h.genLe e he
    simp only [updF]
    split
    · next hc => rw [hc] at hg; omega
    · exact hg

/-- `aws_task_run`: the pending generation of `t` is logged and is no longer pending -/
theorem linvF_mark {log gen scheduled tsAt} {t now : Nat} {st : Status} {c : Cause} (h : LInvF log gen scheduled tsAt)
    (ht : scheduled t = true) (hg : 1 ≤ gen t) (hc : Consistent st c) (he : st = .run → tsAt t (gen t) ≤ now) :
    LInvF (log ++ [⟨t, gen t, st, now, c⟩]) gen (updF scheduled t false) tsAt := by
  refine ⟨?_, ?_, ?_, ?_⟩
  · intro x g
    rw [List.countP_append, h.count x g]
    simp only [List.countP_cons, List.countP_nil, entryOf, updF, Nat.zero_add]
    by_cases hx : x = t
    · subst hx
      by_cases hgg : g = gen x
      · subst hgg
        simp [ht, hg]
      · have h1 : (gen x == g) = false := by simpa using fun hh => hgg hh.symm
        simp [hgg, h1]
    · have h1 : (t == x) = false := by simpa using fun hh => hx hh.symm
      simp [hx, h1]
  · intro e hm
    rcases List.mem_append.mp hm with hm | hm
    · exact h.cause e hm
    · simp only [List.mem_singleton] at hm; subst hm; exact hc
  · intro e hm hr
    rcases List.mem_append.mp hm with hm | hm
    · exact h.early e hm hr
    · simp only [List.mem_singleton] at hm; subst hm; exact he hr
  · intro e hm
    rcases List.mem_append.mp hm with hm | hm
    · exact h.genLe e hm
    · simp only [List.mem_singleton] at hm; subst hm; exact Nat.le_refl _

theorem unlink_fields (s : St) (t : Nat) :
    (unlink s t).log = s.log ∧ (unlink s t).gen = s.gen ∧ (unlink s t).scheduled = s.scheduled ∧
    (unlink s t).tsAt = s.tsAt ∧ (unlink s t).now = s.now ∧ (unlink s t).diverged = s.diverged ∧
    (unlink s t).ntasks = s.ntasks := by
  unfold unlink
  repeat' split
  all_goals exact ⟨rfl, rfl, rfl, rfl, rfl, rfl, rfl⟩

/-- the full invariant -/
structure Good (s : St) : Prop where
  sinv : SInv s
  linv : LInv s

/-- the invariant as carried through executions: it is void once fuel ran out -/
def GoodOr (s : St) : Prop := s.diverged = true ∨ Good s

theorem scheduleNow_good {s : St} {t : Nat} (h : Good s) (hlt : t < s.ntasks) (ht : s.scheduled t = false) :
    Good (scheduleNow s t) :=
  ⟨scheduleNow_sinv h.sinv hlt ht, linvF_sched (time := 0) h.linv ht⟩

theorem scheduleFuture_good {s : St} {t time : Nat} (h : Good s) (hlt : t < s.ntasks) (ht : s.scheduled t = false) :
    Good (scheduleFuture s t time) := by
  refine ⟨scheduleFuture_sinv h.sinv hlt ht, ?_⟩
  have := linvF_sched (time := time % 2^64) h.linv ht
  unfold LInv scheduleFuture scheduleFutureU
  dsimp only
  split <;> exact this

theorem cancel_good {s : St} {t : Nat} (h : Good s) (ht : s.scheduled t = true) :
    Good (mark (unlink s t) t .canceled .cancel) := by
  refine ⟨cancel_sinv _ _ h.sinv ht, ?_⟩
  obtain ⟨e1, e2, e3, e4, e5, _, _⟩ := unlink_fields s t
  unfold LInv mark
  simp only [e1, e2, e3, e4, e5]
  exact linvF_mark h.linv ht (h.sinv.genPos t ht) trivial (fun hh => by cases hh)

theorem popRun_good {s : St} {t : Nat} {r : List Nat} {st : Status} {c : Cause} (hcons : Consistent st c)
    (h : Good s) (hr : s.running = t :: r) : Good (mark { s with running := r } t st c) := by
  refine ⟨popRun_sinv _ _ h.sinv hr, ?_⟩
  have ht : s.scheduled t = true := sched_of_mem_running h.sinv (by simp [hr])
  unfold LInv mark
  simp only
  refine linvF_mark h.linv ht (h.sinv.genPos t ht) hcons ?_
  intro _
  rw [h.sinv.tsAtOK t ht]
  exact h.sinv.runDue t (by simp [hr])

theorem scheduleFuture_diverged (s : St) (t time : Nat) : (scheduleFuture s t time).diverged = s.diverged := by
  unfold scheduleFuture scheduleFutureU; dsimp only; split <;> rfl

theorem closed_goodOr : Closed GoodOr := by
  refine ⟨?_, ?_, ?_, ?_, ?_, ?_⟩
  · intro s t h hlt ht
    rcases h with h | h
    · left; exact h
    · right; exact scheduleNow_good h hlt ht
  · intro s t time h hlt ht
    rcases h with h | h
    · left; rw [scheduleFuture_diverged]; exact h
    · right; exact scheduleFuture_good h hlt ht
  · intro s t h _ ht
    rcases h with h | h
    · left; simp only [mark]; rw [(unlink_fields s t).2.2.2.2.2.1]; exact h
    · right; exact cancel_good h ht
  · intro s t r st c hcons _ h hr
    rcases h with h | h
    · left; exact h
    · right; exact popRun_good hcons h hr
  · intro s h
    rcases h with h | h
    · left; exact h
    · right; exact ⟨⟨h.sinv.cnt, h.sinv.lt, h.sinv.heap, h.sinv.heapKey, h.sinv.dyn, h.sinv.nt, h.sinv.tlSorted,
        h.sinv.asapTs, h.sinv.runDue, h.sinv.tsAtOK, h.sinv.genPos, h.sinv.tsBound⟩, h.linv⟩
  · intro s _; left; rfl

end AwsVerif.Proofs.C07
