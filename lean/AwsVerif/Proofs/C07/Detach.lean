import AwsVerif.Proofs.C07.Prims
/-! `s_run_all`'s detach phase preserves the structural invariant. -/
namespace AwsVerif.Proofs.C07
open AwsVerif.Sched AwsVerif.Heap AwsVerif.Proofs.C06

theorem top_ok {q : PQ} {e : Elem} (h : top q = .ok e) : q.items.size ≠ 0 ∧ q.items[0]? = some e := by
  unfold top at h
  split at h
  · next hs =>
    split at h
    · next e' he => cases h; exact ⟨hs, he⟩
    · cases h
  · cases h

theorem top_error {q : PQ} {er : Err} (h : top q = .error er) : q.items.size = 0 := by
  unfold top at h
  split at h
  · next hs =>
    split at h
    · cases h
    · next hn =>
      have : q.items[0]? = some q.items[0] := Array.getElem?_eq_getElem (Nat.pos_of_ne_zero hs)
      rw [this] at hn; cases hn
  · next hs => simpa using hs

theorem takeList_sinv {s : St} (h : SInv s) (hdue : ∀ t r, s.timedList = t :: r → s.ts t ≤ s.now) : SInv (takeList s) := by
  unfold takeList
  split
  · exact h
  · next t r htl =>
    have hd := hdue t r htl
    refine ⟨?_, h.lt, h.heap, h.heapKey, h.dyn, h.nt, ?_, h.asapTs, ?_, h.tsAtOK, h.genPos, h.tsBound⟩
    · intro x
      have := h.cnt x
      simp only [cntAll, heapTasks, htl, List.count_cons, List.count_append, List.count_nil] at this ⊢
      omega
    · have := h.tlSorted
      simp only [htl, List.map_cons, List.pairwise_cons] at this
      exact this.2
    · intro x hx
      simp only [List.mem_append, List.mem_singleton] at hx
      rcases hx with hx | rfl
      · exact h.runDue x hx
      · exact hd

theorem takeHeap_sinv {s : St} (h : SInv s) (hdue : ∀ e, top s.timed = .ok e → e.key ≤ s.now) : SInv (takeHeap s) := by
  unfold takeHeap
  by_cases h0 : s.timed.items.size = 0
  · rw [pop_empty h0]; exact h
  · rw [pop_eq h0]
    obtain ⟨e, he, hr, hq', hs', hc', _⟩ := removeNode_spec tsCmp_ok h.heap (items_nodup h) (heap_size_lt h) (Nat.pos_of_ne_zero h0)
    have hre : removeNode tsCmp s.timed 0 = ((removeNode tsCmp s.timed 0).1, .ok e) := by rw [← hr]
    rw [hre]
    simp only
    have htop : top s.timed = .ok e := by simp [top, h0, he]
    have hd := hdue e htop
    have hem : e ∈ s.timed.items.toList := Array.mem_def.mp (Array.mem_of_getElem? he)
    have hperm : (removeNode tsCmp s.timed 0).1.items.toList.Perm (s.timed.items.toList.erase e) := hq'.frame.perm
    have hcount : ∀ x, ((removeNode tsCmp s.timed 0).1.items.toList.map (·.uid)).count x + (if e.uid = x then 1 else 0) =
        (s.timed.items.toList.map (·.uid)).count x := by
      intro x
      rw [(hperm.map (·.uid)).count_eq x]
      exact count_map_erase hem x
    refine ⟨?_, h.lt, QInv.of_perm hq' hperm.symm, ?_, by rw [hc']; exact h.dyn, h.nt, h.tlSorted, h.asapTs, ?_, h.tsAtOK, h.genPos, h.tsBound⟩
    · intro x
      have hcx := hcount x
      have := h.cnt x
      simp only [cntAll, heapTasks, List.count_append, List.count_singleton] at this ⊢
      by_cases hx : e.uid = x
      · simp only [hx, if_true, beq_self_eq_true] at hcx ⊢; omega
      · have hx' : (e.uid == x) = false := by simpa using hx
        simp only [hx, hx', if_false, Bool.false_eq_true] at hcx ⊢; omega
    · intro e' he'
      exact h.heapKey e' (List.mem_of_mem_erase (hperm.subset he'))
    · intro x hx
      simp only [List.mem_append, List.mem_singleton] at hx
      rcases hx with hx | rfl
      · exact h.runDue x hx
      · rw [← h.heapKey e hem]; exact hd

theorem takeList_now (s : St) : (takeList s).now = s.now := by
  unfold takeList; split <;> rfl

theorem takeHeap_now (s : St) : (takeHeap s).now = s.now := by
  unfold takeHeap; split <;> rfl

theorem detachLoop1_sinv : ∀ n (s : St), SInv s → SInv (detachLoop1 n s s.now) ∧ (detachLoop1 n s s.now).now = s.now := by
  intro n
  induction n with
  | zero => intro s h; exact ⟨h, rfl⟩
  | succ n ih =>
    intro s h
    unfold detachLoop1
    split
    · exact ⟨h, rfl⟩
    · next tl rest htl =>
      split
      · exact ⟨h, rfl⟩
      · next hle =>
        have hlist : SInv (takeList s) := takeList_sinv h (by
          intro t r htr; rw [htl] at htr; cases htr; omega)
        split
        · next e htop =>
          split
          · next hc =>
            have hheap : SInv (takeHeap s) := takeHeap_sinv h (by
              intro e' he'; rw [htop] at he'; cases he'; exact hc.1)
            have := ih (takeHeap s) hheap
            rw [takeHeap_now] at this
            exact this
          · have := ih (takeList s) hlist
            rw [takeList_now] at this
            exact this
        · have := ih (takeList s) hlist
          rw [takeList_now] at this
          exact this

theorem detachLoop2_sinv : ∀ n (s : St), SInv s → SInv (detachLoop2 n s s.now) ∧ (detachLoop2 n s s.now).now = s.now := by
  intro n
  induction n with
  | zero => intro s h; exact ⟨h, rfl⟩
  | succ n ih =>
    intro s h
    unfold detachLoop2
    split
    · next e htop =>
      split
      · exact ⟨h, rfl⟩
      · next hle =>
        have hheap : SInv (takeHeap s) := takeHeap_sinv h (by
          intro e' he'; rw [htop] at he'; cases he'; omega)
        have := ih (takeHeap s) hheap
        rw [takeHeap_now] at this
        exact this
    · exact ⟨h, rfl⟩

theorem detach_sinv {s : St} (now : Nat) (h : SInv s) (hr : s.running = []) : SInv (detach s now) ∧ (detach s now).now = now := by
  have h0 : SInv { s with running := s.asap, asap := [], now := now } := by
    refine ⟨?_, h.lt, h.heap, h.heapKey, h.dyn, h.nt, h.tlSorted, ?_, ?_, h.tsAtOK, h.genPos, h.tsBound⟩
    · intro x
      have := h.cnt x
      simp only [cntAll, hr, List.count_nil, heapTasks] at this ⊢
      omega
    · intro x hx; cases hx
    · intro x hx
      have := h.asapTs x hx
      show s.ts x ≤ now
      omega
  unfold detach
  dsimp only
  have h1 := detachLoop1_sinv (s.timedList.length + s.timed.items.size + 1)
    { s with running := s.asap, asap := [], now := now } h0
  dsimp only at h1
  have h2 := detachLoop2_sinv
    ((detachLoop1 (s.timedList.length + s.timed.items.size + 1) { s with running := s.asap, asap := [], now := now } now).timed.items.size + 1)
    _ h1.1
  rw [h1.2] at h2
  exact h2

end AwsVerif.Proofs.C07
