import AwsVerif.Model.Sched
/-! Induction skeleton for the re-entrant scheduler model: a predicate closed under the primitive
transitions is preserved by task functions, the run loop, clean-up and whole programs. -/
namespace AwsVerif.Proofs.C07
open AwsVerif.Sched AwsVerif.Heap

/-- the (status, cause) pairs with which `aws_task_run` is ever called -/
def Consistent : Status → Cause → Prop
  | .run, .runAll => True
  | .canceled, .cancel => True
  | .canceled, .cleanUp => True
  | _, _ => False

structure Closed (I : St → Prop) : Prop where
  schedNow : ∀ s t, I s → t < s.ntasks → s.scheduled t = false → I (scheduleNow s t)
  schedFuture : ∀ s t time, I s → t < s.ntasks → s.scheduled t = false → I (scheduleFuture s t time)
  cancel : ∀ s t, I s → t < s.ntasks → s.scheduled t = true → I (mark (unlink s t) t .canceled .cancel)
  popRun : ∀ s t r st c, Consistent st c → (c = .runAll ∨ c = .cleanUp) → I s → s.running = t :: r →
    I (mark { s with running := r } t st c)
  skip : ∀ s, I s → I (skip s)
  diverge : ∀ s, I s → I { s with diverged := true }

theorem execAction_closed {I : St → Prop} (hc : Closed I) {runner : St → Nat → Status → Cause → St}
    (hr : ∀ s t, I (mark s t .canceled .cancel) → I (runner s t .canceled .cancel)) {s : St} (a : Action)
    (h : I s) : I (execAction runner s a) := by
  cases a with
  | scheduleNow t =>
    simp only [execAction]
    split
    · next hg => exact hc.schedNow s t h hg.1 hg.2
    · exact hc.skip s h
  | scheduleFuture t time =>
    simp only [execAction]
    split
    · next hg => exact hc.schedFuture s t time h hg.1 hg.2
    · exact hc.skip s h
  | cancel t =>
    simp only [execAction]
    split
    · next hg => exact hr _ _ (hc.cancel s t h hg.1 hg.2)
    · exact hc.skip s h

theorem foldl_closed {I : St → Prop} {f : St → Action → St} (hf : ∀ s a, I s → I (f s a)) :
    ∀ (as : List Action) (s : St), I s → I (as.foldl f s) := by
  intro as
  induction as with
  | nil => intro s h; exact h
  | cons a as ih => intro s h; exact ih _ (hf s a h)

theorem runTask_closed {I : St → Prop} (hc : Closed I) (P : Script) :
    ∀ fuel s t st c, I (mark s t st c) → I (runTask fuel P s t st c) := by
  intro fuel
  induction fuel with
  | zero => intro s t st c h; exact hc.diverge _ h
  | succ f ih =>
    intro s t st c h
    simp only [runTask]
    exact foldl_closed (fun s a hs => execAction_closed hc (fun s t h => ih s t _ _ h) a hs) _ _ h

theorem runLoop_closed {I : St → Prop} (hc : Closed I) (P : Script) {st : Status} {c : Cause}
    (hcons : Consistent st c) (hcc : c = .runAll ∨ c = .cleanUp) :
    ∀ fuel s, I s → I (runLoop fuel P st c s) := by
  intro fuel
  induction fuel with
  | zero =>
    intro s h
    simp only [runLoop]
    split
    · exact h
    · exact hc.diverge _ h
  | succ f ih =>
    intro s h
    simp only [runLoop]
    split
    · exact h
    · next t r hr =>
      exact ih _ (runTask_closed hc P f _ t st c (hc.popRun s t r st c hcons hcc h hr))

/-- the step of a top-level op: schedule / cancel -/
theorem topAction_closed {I : St → Prop} (hc : Closed I) (P : Script) (fuel : Nat) {s : St} (a : Action) (h : I s) :
    I (execAction (runTask fuel P) s a) :=
  execAction_closed hc (fun s t h => runTask_closed hc P fuel s t _ _ h) a h

theorem cleanLoop_done (P : Script) : ∀ fuel s, (cleanLoop fuel P s).diverged = false →
    (hasTasks (cleanLoop fuel P s)).1 = false := by
  intro fuel
  induction fuel with
  | zero =>
    intro s h
    simp only [cleanLoop] at h ⊢
    split at h
    · simp at h
    · next hh => simp only [hh]; simpa using hh
  | succ f ih =>
    intro s h
    simp only [cleanLoop] at h ⊢
    split
    · next hh => simp only [hh, if_true] at h; exact ih _ h
    · next hh => simpa using hh

theorem runLoop_done (P : Script) (st : Status) (c : Cause) : ∀ fuel s,
    (runLoop fuel P st c s).diverged = false → (runLoop fuel P st c s).running = [] := by
  intro fuel
  induction fuel with
  | zero =>
    intro s h
    simp only [runLoop] at h ⊢
    split
    · assumption
    · next hh => simp [hh] at h
  | succ f ih =>
    intro s h
    simp only [runLoop] at h ⊢
    split
    · assumption
    · next t r hr => simp only [hr] at h; exact ih _ h

/-- at top level (between API calls of the client) the local `running_list` of `s_run_all` does not
exist: in the model it is empty unless the execution ran out of fuel -/
def R (s : St) : Prop := s.diverged = true ∨ s.running = []

theorem unlink_diverged (s : St) (t : Nat) : (unlink s t).diverged = s.diverged := by
  unfold unlink
  repeat' split
  all_goals rfl

theorem closed_R : Closed R := by
  refine ⟨?_, ?_, ?_, ?_, ?_, ?_⟩
  · intro s t h _ _; exact h
  · intro s t time h _ _
    unfold scheduleFuture scheduleFutureU
    dsimp only
    split <;> exact h
  · intro s t h _ hsch
    rcases h with h | h
    · left; simp only [mark]; rw [unlink_diverged]; exact h
    · right
      simp only [mark]
      unfold unlink
      split
      · simp [h]
      · exact h
  · intro s t r st c _ _ h hr
    rcases h with h | h
    · left; exact h
    · rw [h] at hr; cases hr
  · intro s h; exact h
  · intro s _; left; rfl

theorem runLoop_R (P : Script) (st : Status) (c : Cause) (fuel : Nat) (s : St) : R (runLoop fuel P st c s) := by
  cases hd : (runLoop fuel P st c s).diverged
  · right; exact runLoop_done P st c fuel s hd
  · left; exact hd

theorem sRunAll_closed {I : St → Prop} (hc : Closed I) (hd : ∀ s now, I s → R s → I (detach s now)) (P : Script)
    {st : Status} {c : Cause} (hcons : Consistent st c) (hcc : c = .runAll ∨ c = .cleanUp)
    (fuel : Nat) (s : St) (now : Nat) (h : I s) (hr : R s) : I (sRunAll fuel P s now st c) ∧ R (sRunAll fuel P s now st c) :=
  ⟨runLoop_closed hc P hcons hcc fuel _ (hd s now h hr), runLoop_R P st c fuel _⟩

theorem cleanLoop_closed {I : St → Prop} (hc : Closed I) (hd : ∀ s now, I s → R s → I (detach s now)) (P : Script) :
    ∀ fuel s, I s → R s → I (cleanLoop fuel P s) ∧ R (cleanLoop fuel P s) := by
  intro fuel
  induction fuel with
  | zero =>
    intro s h hr
    simp only [cleanLoop]
    split
    · exact ⟨hc.diverge _ h, Or.inl rfl⟩
    · exact ⟨h, hr⟩
  | succ f ih =>
    intro s h hr
    simp only [cleanLoop]
    split
    · have := sRunAll_closed hc hd P (st := .canceled) (c := .cleanUp) trivial (Or.inr rfl) f s UINT64_MAX h hr
      exact ih _ this.1 this.2
    · exact ⟨h, hr⟩

/-- closure under whole programs; `hreset`: re-initialising an empty timed queue after clean-up -/
theorem opStep_closed {I : St → Prop} (hc : Closed I) (hd : ∀ s now, I s → R s → I (detach s now))
    (hreset : ∀ s, I s → (hasTasks s).1 = false → I { s with timed := initDynamic })
    (hfail : ∀ s b, I s → I { s with failPush := b })
    (P : Script) (fuel : Nat) (s : St) (op : Sched.Op) (h : I s) (hr : R s) :
    I (opStep fuel P s op) ∧ R (opStep fuel P s op) := by
  cases op with
  | schedNow t => exact ⟨topAction_closed hc P fuel (.scheduleNow t) h, topAction_closed closed_R P fuel (.scheduleNow t) hr⟩
  | schedFuture t time =>
    exact ⟨topAction_closed hc P fuel (.scheduleFuture t time) h, topAction_closed closed_R P fuel (.scheduleFuture t time) hr⟩
  | cancel t => exact ⟨topAction_closed hc P fuel (.cancel t) h, topAction_closed closed_R P fuel (.cancel t) hr⟩
  | runAll now => exact sRunAll_closed hc hd P (st := .run) (c := .runAll) trivial (Or.inl rfl) fuel s now h hr
  | hasTasks => exact ⟨h, hr⟩
  | cleanUp =>
    simp only [opStep, cleanUp]
    have h1 := cleanLoop_closed hc hd P fuel s h hr
    split
    · exact h1
    · next hdv => exact ⟨hreset _ h1.1 (cleanLoop_done P fuel s (by simpa using hdv)), h1.2⟩
  | failMode b => exact ⟨hfail s b h, hr⟩

theorem runOps_closed {I : St → Prop} (hc : Closed I) (hd : ∀ s now, I s → R s → I (detach s now))
    (hreset : ∀ s, I s → (hasTasks s).1 = false → I { s with timed := initDynamic })
    (hfail : ∀ s b, I s → I { s with failPush := b })
    (P : Script) (fuel : Nat) : ∀ (ops : List Sched.Op) (s : St), I s → R s →
      I (runOps fuel P s ops) ∧ R (runOps fuel P s ops) := by
  intro ops
  induction ops with
  | nil => intro s h hr; exact ⟨h, hr⟩
  | cons op ops ih =>
    intro s h hr
    have := opStep_closed hc hd hreset hfail P fuel s op h hr
    exact ih _ this.1 this.2

end AwsVerif.Proofs.C07
