import AwsVerif.Proofs.C01.Grow
/-! C01: `aws_byte_buf_init_from_file` (source/file.c) and `aws_hash_array_ignore_case`. -/
namespace AwsVerif.Proofs.C01
open AwsVerif.ByteBuf

/-- composition of two buffer steps (the second starts where the first ended) -/
theorem BufStep.trans' {h h1 h2 : Heap} {b b1 b2 : Buf} (s1 : BufStep h h1 b b1) (s2 : BufStep h1 h2 b1 b2) :
    BufStep h h2 b b2 := by
  refine ⟨s1.frame.trans s2.frame s1.rid, s2.ok, ?_⟩
  rcases s2.rid with e | e | ⟨r, e, hge⟩
  · rw [e]; exact s1.rid
  · exact Or.inr (Or.inl e)
  · exact Or.inr (Or.inr ⟨r, e, Nat.le_trans s1.frame.len hge⟩)

theorem bufReserveRelative_cap {m m' : Mem} {b b' : Buf} {add : Nat} (hb : BufOk m.heap b)
    (eq : bufReserveRelative m b add = .ok (none, m', b')) : b.len + add ≤ b'.cap := by
  unfold bufReserveRelative at eq
  split at eq
  · cases eq
  · split at eq
    · cases eq
    · cases hreq : addChecked b.len add with
      | none => simp only [hreq] at eq; cases eq
      | some req =>
        simp only [hreq] at eq
        have h1 := addChecked_some hreq
        have := (bufReserve_spec hb (by omega) eq).2 rfl
        omega

theorem growIfFull_spec {m m' : Mem} {b b' : Buf} {add : Nat} {e : Option Err} (hb : BufOk m.heap b) (hadd : 0 < add)
    (eq : growIfFull m b add = .ok (e, m', b')) :
    BufStep m.heap m'.heap b b' ∧ EvStep m.events m'.events ∧ (e = none → b'.len = b.len ∧ b'.len < b'.cap) := by
  unfold growIfFull at eq
  split at eq
  · rename_i hfull
    obtain ⟨s1, _, s3, s4⟩ := bufReserveRelative_spec hb eq
    refine ⟨s1, s4, fun he => ?_⟩
    subst he
    have := bufReserveRelative_cap hb eq
    have := (s3 rfl).1
    omega
  · rename_i hne
    cases eq
    have := hb.1
    exact ⟨BufStep.same hb, EvStep.refl _, fun _ => ⟨rfl, by omega⟩⟩

theorem growIfFull_not_oob {m : Mem} {b : Buf} {add : Nat} (hb : BufOk m.heap b) : growIfFull m b add ≠ .error .oob := by
  unfold growIfFull
  split
  · exact bufReserveRelative_not_oob hb
  · simp

theorem freadSim_len (data : List UInt8) (sched : List Nat) (n : Nat) : (freadSim data sched n).1.length ≤ n := by
  unfold freadSim
  cases sched with
  | nil =>
    simp only [List.length_take]
    split <;> omega
  | cons c rest =>
    simp only
    split <;> split <;> simp only [List.length_take] <;> omega

/-- storing `k ≤ cap - len` cells at `len` and advancing `len` by `k` -/
theorem store_advance {h h2 : Heap} {b : Buf} {cells : List Cell} (hb : BufOk h b) (hk : cells.length ≤ b.cap - b.len)
    (hst : b.store h b.len cells = .ok h2) : BufStep h h2 b { b with len := addW b.len cells.length } := by
  obtain ⟨hf, _, hreg⟩ := Buf.store_frame hst
  have h1 := hb.1
  have h2' := hb.2.1
  have hadd : addW b.len cells.length = b.len + cells.length := addW_eq (by omega)
  rw [hadd]
  exact ⟨hf, (hb.of_regLen hreg).setLen (by omega), Or.inl rfl⟩

theorem fileReadLoop_spec : ∀ (fuel : Nat) {m m' : Mem} {b b' : Buf} {data : List UInt8} {sched : List Nat} {e : Option Err},
    BufOk m.heap b → fileReadLoop fuel m b data sched = .ok (e, m', b') →
    BufStep m.heap m'.heap b b' ∧ EvStep m.events m'.events := by
  intro fuel
  induction fuel with
  | zero =>
    intro m m' b b' data sched e hb eq
    simp only [fileReadLoop] at eq
    cases eq
    exact ⟨BufStep.same hb, EvStep.refl _⟩
  | succ fuel ih =>
    intro m m' b b' data sched e hb eq
    simp only [fileReadLoop] at eq
    obtain ⟨⟨e1, m1, b1⟩, hg, eq⟩ := bind_ok eq
    obtain ⟨s1, ev1, s3⟩ := growIfFull_spec hb (by
      unfold MIN_BUFFER_GROWTH_READING_FILES MAX_BUFFER_GROWTH_READING_FILES
      split <;> (try split) <;> omega) hg
    simp only at eq
    cases e1 with
    | some er => simp only at eq; cases eq; exact ⟨s1, ev1⟩
    | none =>
      simp only at eq
      obtain ⟨h2, hst, eq⟩ := bind_ok eq
      have hb1 := s1.ok
      have hsub := subW_eq hb1.1 hb1.2.1
      have hlen := freadSim_len data sched (subW b1.cap b1.len)
      have s2 := store_advance (cells := (freadSim data sched (subW b1.cap b1.len)).1.map some) hb1
        (by simp only [List.length_map]; omega) hst
      simp only [List.length_map] at s2
      have s12 : BufStep m.heap h2 b _ := s1.trans' s2
      split at eq
      · cases eq; exact ⟨s12, ev1⟩
      · split at eq
        · cases eq; exact ⟨s12, ev1⟩
        · obtain ⟨s3', ev3⟩ := ih (m := { m1 with heap := h2 }) s2.ok eq
          exact ⟨s12.trans' s3', ev1.trans ev3⟩

theorem fileReadLoop_not_oob : ∀ (fuel : Nat) {m : Mem} {b : Buf} {data : List UInt8} {sched : List Nat},
    BufOk m.heap b → fileReadLoop fuel m b data sched ≠ .error .oob := by
  intro fuel
  induction fuel with
  | zero => intro m b data sched _; simp [fileReadLoop]
  | succ fuel ih =>
    intro m b data sched hb
    simp only [fileReadLoop]
    apply bind_not_oob (growIfFull_not_oob hb)
    intro ⟨e1, m1, b1⟩ hg
    obtain ⟨s1, ev1, s3⟩ := growIfFull_spec hb (by
      unfold MIN_BUFFER_GROWTH_READING_FILES MAX_BUFFER_GROWTH_READING_FILES
      split <;> (try split) <;> omega) hg
    simp only
    cases e1 with
    | some er => simp
    | none =>
      simp only
      have hb1 := s1.ok
      have hsub := subW_eq hb1.1 hb1.2.1
      have hlen := freadSim_len data sched (subW b1.cap b1.len)
      have h1 := hb1.1
      apply bind_not_oob (Buf.store_not_oob hb1.regOk (by simp only [List.length_map]; omega))
      intro h2 hst
      have s2 := store_advance (cells := (freadSim data sched (subW b1.cap b1.len)).1.map some) hb1
        (by simp only [List.length_map]; omega) hst
      simp only [List.length_map] at s2
      split
      · simp
      · split
        · simp
        · exact ih (m := { m1 with heap := h2 }) s2.ok

theorem fileTerminate_spec {m m' : Mem} {b b' : Buf} {e : Option Err} (hb : BufOk m.heap b)
    (eq : fileTerminate m b = .ok (e, m', b')) : BufStep m.heap m'.heap b b' ∧ EvStep m.events m'.events := by
  unfold fileTerminate at eq
  obtain ⟨⟨e1, m1, b1⟩, hg, eq⟩ := bind_ok eq
  obtain ⟨s1, ev1, s3⟩ := growIfFull_spec hb (by omega) hg
  simp only at eq
  cases e1 with
  | some er => simp only at eq; cases eq; exact ⟨s1, ev1⟩
  | none =>
    simp only at eq
    obtain ⟨h2, hst, eq⟩ := bind_ok eq
    cases eq
    obtain ⟨hf, _, hreg⟩ := Buf.store_frame hst
    exact ⟨s1.trans' ⟨hf, s1.ok.of_regLen hreg, Or.inl rfl⟩, ev1⟩

/-- on success the byte after the contents is the NUL terminator, inside the capacity -/
theorem fileTerminate_nul {m m' : Mem} {b b' : Buf} (hb : BufOk m.heap b)
    (eq : fileTerminate m b = .ok (none, m', b')) :
    b'.len = b.len ∧ b'.len < b'.cap ∧ (regionCells m'.heap b'.rid)[b'.len]? = some (some 0) := by
  unfold fileTerminate at eq
  obtain ⟨⟨e1, m1, b1⟩, hg, eq⟩ := bind_ok eq
  obtain ⟨s1, ev1, s3⟩ := growIfFull_spec hb (by omega) hg
  simp only at eq
  cases e1 with
  | some er => simp only at eq; cases eq
  | none =>
    simp only at eq
    obtain ⟨h2, hst, eq⟩ := bind_ok eq
    cases eq
    obtain ⟨hl, hlt⟩ := s3 rfl
    refine ⟨hl, hlt, ?_⟩
    have hc := Buf.store_cells hst
    simp only [List.length_cons, List.length_nil] at hc
    rw [if_neg (by omega)] at hc
    simp only at hc ⊢
    rw [hc]
    have hreg : (regionCells m1.heap b'.rid).length = b'.cap := by
      have h2' := s1.ok.2.2
      cases hr : b'.rid with
      | none => simp [hr] at h2'; omega
      | some r =>
        simp [hr] at h2'
        have := h2'.2
        unfold regLen at this
        cases hrg : region? m1.heap r with
        | none => simp [hrg] at this
        | some reg => simp [hrg] at this; simp [regionCells, hrg, this]
    unfold splice
    rw [List.append_assoc, List.getElem?_append_right (by simp [List.length_take]; omega)]
    simp [List.length_take, Nat.min_eq_left (show b'.len ≤ (regionCells m1.heap b'.rid).length by omega)]

theorem fileTerminate_not_oob {m : Mem} {b : Buf} (hb : BufOk m.heap b) : fileTerminate m b ≠ .error .oob := by
  unfold fileTerminate
  apply bind_not_oob (growIfFull_not_oob hb)
  intro ⟨e1, m1, b1⟩ hg
  obtain ⟨s1, ev1, s3⟩ := growIfFull_spec hb (by omega) hg
  simp only
  cases e1 with
  | some er => simp
  | none =>
    simp only
    have := (s3 rfl).2
    apply bind_not_oob (Buf.store_not_oob s1.ok.regOk (by simp; omega))
    intro _ _; simp

theorem fileFail_spec {m m' : Mem} {b b' : Buf} {er : Err} {e : Option Err} (hb : BufOk m.heap b)
    (eq : fileFail er m b = .ok (e, m', b')) :
    BufStep m.heap m'.heap b b' ∧ EvStep m.events m'.events ∧ b' = Buf.zero ∧ e = some er := by
  unfold fileFail at eq
  obtain ⟨⟨m1, b1⟩, hc, eq⟩ := bind_ok eq
  cases eq
  obtain ⟨a, b2, c, _⟩ := bufCleanUpSecure_spec hb hc
  exact ⟨a, c, b2, rfl⟩

theorem fileFail_not_oob {m : Mem} {b : Buf} {er : Err} (hb : BufOk m.heap b) : fileFail er m b ≠ .error .oob := by
  unfold fileFail
  apply bind_not_oob (bufCleanUpSecure_not_oob hb)
  intro _ _; simp

/-- `aws_byte_buf_init_from_file[_with_size_hint]`: whatever `*out_buf` held is discarded; the result is a
valid buffer; on failure it is the zeroed buffer, and everything the call allocated went back to the
allocator (the last block through `clean_up_secure`, i.e. zeroed). -/
theorem bufInitFromFile_spec {m m' : Mem} {old b' : Buf} {f : FileSim} {useHint : Bool} {sizeHint : Nat} {e : Option Err}
    (_hold : BufOk m.heap old) (hs : sizeHint ≤ SIZE_MAX) (eq : bufInitFromFile m f useHint sizeHint = .ok (e, m', b')) :
    BufStep m.heap m'.heap old b' ∧ EvStep m.events m'.events ∧ (e.isSome → b' = Buf.zero) := by
  have z : BufStep m.heap m.heap old Buf.zero := ⟨Frame.refl _ _, BufOk.zero _, Or.inr (Or.inl rfl)⟩
  unfold bufInitFromFile at eq
  split at eq
  · obtain ⟨a, b, c, _⟩ := fileFail_spec (BufOk.zero _) eq
    exact ⟨z.trans' a, b, fun _ => c⟩
  · split at eq
    · obtain ⟨a, b, c, _⟩ := fileFail_spec (BufOk.zero _) eq
      exact ⟨z.trans' a, b, fun _ => c⟩
    · rename_i hno
      simp only at eq
      have hhint : (if useHint = true then f.statLen + 1 else sizeHint) ≤ SIZE_MAX := by
        split
        · rename_i hu
          simp [hu] at hno
          omega
        · exact hs
      obtain ⟨i1, iev, _, _⟩ := bufInit_spec (m := m) old hhint
      obtain ⟨⟨e1, m1, b1⟩, hloop, eq⟩ := bind_ok eq
      obtain ⟨l1, lev⟩ := fileReadLoop_spec _ i1.ok hloop
      rw [iev] at lev
      have s01 := i1.trans' l1
      simp only at eq
      cases e1 with
      | some er =>
        simp only at eq
        obtain ⟨a, b, c, _⟩ := fileFail_spec l1.ok eq
        exact ⟨s01.trans' a, lev.trans b, fun _ => c⟩
      | none =>
        simp only at eq
        obtain ⟨⟨e2, m2, b2⟩, ht, eq⟩ := bind_ok eq
        obtain ⟨t1, tev⟩ := fileTerminate_spec l1.ok ht
        simp only at eq
        cases e2 with
        | some er =>
          simp only at eq
          obtain ⟨a, b, c, _⟩ := fileFail_spec t1.ok eq
          exact ⟨(s01.trans' t1).trans' a, (lev.trans tev).trans b, fun _ => c⟩
        | none =>
          simp only at eq
          cases eq
          exact ⟨s01.trans' t1, lev.trans tev, (fun e => by cases e)⟩

/-- success of `init_from_file`: the contents are followed, inside the capacity, by a NUL that `len` does not count -/
theorem bufInitFromFile_nul {m m' : Mem} {b' : Buf} {f : FileSim} {useHint : Bool} {sizeHint : Nat}
    (hs : sizeHint ≤ SIZE_MAX) (eq : bufInitFromFile m f useHint sizeHint = .ok (none, m', b')) :
    b'.len < b'.cap ∧ (regionCells m'.heap b'.rid)[b'.len]? = some (some 0) := by
  unfold bufInitFromFile at eq
  split at eq
  · have := (fileFail_spec (BufOk.zero _) eq).2.2.2; cases this
  · split at eq
    · have := (fileFail_spec (BufOk.zero _) eq).2.2.2; cases this
    · rename_i hno
      simp only at eq
      have hhint : (if useHint = true then f.statLen + 1 else sizeHint) ≤ SIZE_MAX := by
        split
        · rename_i hu
          simp [hu] at hno
          omega
        · exact hs
      obtain ⟨i1, iev, _, _⟩ := bufInit_spec (m := m) Buf.zero hhint
      obtain ⟨⟨e1, m1, b1⟩, hloop, eq⟩ := bind_ok eq
      obtain ⟨l1, lev⟩ := fileReadLoop_spec _ i1.ok hloop
      simp only at eq
      cases e1 with
      | some er => simp only at eq; have := (fileFail_spec l1.ok eq).2.2.2; cases this
      | none =>
        simp only at eq
        obtain ⟨⟨e2, m2, b2⟩, ht, eq⟩ := bind_ok eq
        simp only at eq
        cases e2 with
        | some er =>
          simp only at eq
          have := (fileFail_spec (fileTerminate_spec l1.ok ht).1.ok eq).2.2.2; cases this
        | none =>
          simp only at eq
          cases eq
          exact (fileTerminate_nul l1.ok ht).2

theorem bufInitFromFile_not_oob {m : Mem} {f : FileSim} {useHint : Bool} {sizeHint : Nat} (hs : sizeHint ≤ SIZE_MAX) :
    bufInitFromFile m f useHint sizeHint ≠ .error .oob := by
  unfold bufInitFromFile
  split
  · exact fileFail_not_oob (BufOk.zero _)
  · split
    · exact fileFail_not_oob (BufOk.zero _)
    · rename_i hno
      simp only
      have hhint : (if useHint = true then f.statLen + 1 else sizeHint) ≤ SIZE_MAX := by
        split
        · rename_i hu
          simp [hu] at hno
          omega
        · exact hs
      obtain ⟨i1, iev, _, _⟩ := bufInit_spec (m := m) Buf.zero hhint
      apply bind_not_oob (fileReadLoop_not_oob _ i1.ok)
      intro ⟨e1, m1, b1⟩ hloop
      obtain ⟨l1, _⟩ := fileReadLoop_spec _ i1.ok hloop
      simp only
      cases e1 with
      | some er => exact fileFail_not_oob l1.ok
      | none =>
        simp only
        apply bind_not_oob (fileTerminate_not_oob l1.ok)
        intro ⟨e2, m2, b2⟩ ht
        obtain ⟨t1, _⟩ := fileTerminate_spec l1.ok ht
        simp only
        cases e2 with
        | some er => exact fileFail_not_oob t1.ok
        | none => simp

theorem bufNormalizeSep_spec {h h' : Heap} {b : Buf} (hb : BufOk h b) (eq : bufNormalizeSep h b = .ok h') :
    BufStep h h' b b ∧ (regionCells h' b.rid).drop b.len = (regionCells h b.rid).drop b.len ∧
    (regionCells h' b.rid).length = (regionCells h b.rid).length := by
  unfold bufNormalizeSep at eq
  obtain ⟨cells, hl, hst⟩ := bind_ok eq
  have hlen := Buf.load_length hl
  obtain ⟨hf, _, hreg⟩ := Buf.store_frame hst
  refine ⟨⟨hf, hb.of_regLen hreg, Or.inl rfl⟩, ?_⟩
  have hc := Buf.store_cells hst
  simp only [List.length_map, hlen] at hc
  have hcap : b.len ≤ (regionCells h b.rid).length := by
    have h2 := hb.2.2
    have h1 := hb.1
    cases hr : b.rid with
    | none => simp [hr] at h2; omega
    | some r =>
      simp [hr] at h2
      have := h2.2
      unfold regLen at this
      cases hrg : region? h r with
      | none => simp [hrg] at this
      | some reg => simp [hrg] at this; simp [regionCells, hrg]; omega
  rw [hc]
  split
  · exact ⟨rfl, rfl⟩
  · constructor
    · unfold splice
      simp only [Nat.zero_add, List.take_zero, List.nil_append, List.length_map, hlen]
      rw [List.drop_append_of_le_length (by simp [hlen])]
      simp [hlen]
    · rw [length_splice (by simp [hlen]; omega)]

theorem bufNormalizeSep_not_oob {h : Heap} {b : Buf} (hb : BufOk h b) : bufNormalizeSep h b ≠ .error .oob := by
  unfold bufNormalizeSep
  have h1 := hb.1
  apply bind_not_oob (Buf.load_not_oob hb.regOk (by omega))
  intro cells hl
  exact Buf.store_not_oob hb.regOk (by simp [Buf.load_length hl]; omega)

theorem curHashIgnoreCase_not_oob {h : Heap} {c : Cur} (hc : CurOk h c) : curHashIgnoreCase h c ≠ .error .oob := by
  unfold curHashIgnoreCase
  apply bind_not_oob (Cur.load_not_oob hc (by omega))
  intro _ _; simp

end AwsVerif.Proofs.C01
