import AwsVerif.Proofs.C01.StateLemmas
/-! C01: `WF` is preserved by every operation (`step_wf`). -/
namespace AwsVerif.Proofs.C01
open AwsVerif.ByteBuf

theorem lit1_le {v : UInt8} : (Src.lit [v]).len ≤ SIZE_MAX := by
  show 1 ≤ SIZE_MAX
  decide

theorem step_wf {s s' : State} {op : Op} {r : Res} (hw : WF s) (e : step s op = .ok (r, s')) : WF s' := by
  cases op with
  | curFromBytes c bs =>
    simp only [step] at e
    split at e
    · cases e
    · rename_i hlen
      split at e
      · rename_i h2 hst
        cases e
        obtain ⟨f, hreg, hlt⟩ := fresh_storeN (by simp) hst
        have hw1 : WF { s with mem := { (s.mem.alloc bs.length).1 with heap := h2 } } := hw.setMem f
        apply hw1.setCur
        refine ⟨by simp only; omega, ?_⟩
        simp only [Mem.alloc]
        exact ⟨hlt, fun n e => by rw [hreg] at e; cases e; omega⟩
      · cases e
  | curNull c =>
    simp only [step] at e; cases e
    exact hw.setCur (CurOk.zero _)
  | curInto c b off len =>
    simp only [step] at e
    split at e
    · rename_i r hr
      split at e
      · rename_i hg
        cases e
        apply hw.setCur
        have hb := hw.bufOk b
        have h2 := hb.2.2
        simp [hr] at h2
        refine ⟨by have := hb.2.1; simp only; omega, ?_⟩
        simp only
        exact ⟨regLen_lt h2.2, fun n e => by rw [h2.2] at e; cases e; omega⟩
      · cases e; exact hw
    · cases e; exact hw
  | curFromBuf c b =>
    simp only [step] at e; cases e
    exact hw.setCur (hw.bufOk b).asCur
  | curSub dst src off len =>
    simp only [step] at e
    split at e
    · rename_i hg
      cases e
      exact hw.setCur ((hw.curOk src).sub (a := off) (l := len) hg.1)
    · cases e; exact hw
  | bufFromArray b bs =>
    simp only [step] at e
    split at e
    · cases e
    · rename_i hlen
      split at e
      · cases e
        exact hw.setBufMem (m' := s.mem) (i := b) ⟨Frame.refl _ _, by simp [BufOk], Or.inr (Or.inl rfl)⟩
      · rename_i hne
        split at e
        · rename_i h2 hst
          cases e
          obtain ⟨f, hreg, hlt⟩ := fresh_storeN (by simp) hst
          apply hw.setBufMem (m' := { (s.mem.alloc bs.length).1 with heap := h2 })
          refine ⟨f.weaken, ⟨Nat.le_refl _, by simp only; omega, ?_⟩, Or.inr (Or.inr ⟨_, rfl, Nat.le_refl _⟩)⟩
          simp only [Mem.alloc]
          exact ⟨by omega, hreg⟩
        · cases e
  | bufFromEmptyArray b cap =>
    simp only [step] at e
    split at e
    · cases e
    · rename_i hmax
      split at e
      · cases e
        exact hw.setBufMem (m' := s.mem) (i := b) ⟨Frame.refl _ _, by simp [BufOk], Or.inr (Or.inl rfl)⟩
      · rename_i hne
        cases e
        obtain ⟨hr, hev, hlen, hreg, hf⟩ := alloc_spec s.mem cap
        apply hw.setBufMem
        refine ⟨hf.weaken, ⟨Nat.zero_le _, by simp only; omega, ?_⟩, Or.inr (Or.inr ⟨_, rfl, Nat.le_refl _⟩)⟩
        simp only [Mem.alloc]
        refine ⟨by omega, ?_⟩
        simpa [regLen, Mem.alloc] using congrArg (Option.map List.length) hreg
  | init b cap =>
    simp only [step] at e
    split at e
    · cases e
    · rename_i hmax
      cases e
      exact hw.setBufMem (bufInit_spec (s.bufs b) (by omega)).1
  | initCopy d src =>
    simp only [step] at e
    obtain ⟨⟨e1, m1, nb⟩, hcore, e⟩ := bind_ok e
    cases e
    exact hw.setBufMem (bufInitCopy_spec (hw.bufOk d) (hw.bufOk src) hcore).1
  | initCopyFromCursor d c =>
    simp only [step] at e
    obtain ⟨⟨e1, m1, nb⟩, hcore, e⟩ := bind_ok e
    cases e
    exact hw.setBufMem (bufInitCopyFromCursor_spec (hw.bufOk d) (hw.curOk c) hcore).1
  | reset b zero =>
    simp only [step] at e
    obtain ⟨⟨h1, nb⟩, hcore, e⟩ := bind_ok e
    cases e
    exact hw.setBufMem (m' := { s.mem with heap := h1 }) (bufReset_spec (hw.bufOk b) hcore).1
  | secureZero b =>
    simp only [step] at e
    obtain ⟨⟨h1, nb⟩, hcore, e⟩ := bind_ok e
    cases e
    exact hw.setBufMem (m' := { s.mem with heap := h1 }) (bufSecureZero_spec (hw.bufOk b) hcore).1
  | cleanUp b =>
    simp only [step] at e
    obtain ⟨⟨m1, nb⟩, hcore, e⟩ := bind_ok e
    cases e
    exact hw.setBufMem (bufCleanUp_spec (hw.bufOk b) (fun h => by cases h) hcore).1
  | cleanUpSecure b =>
    simp only [step] at e
    obtain ⟨⟨m1, nb⟩, hcore, e⟩ := bind_ok e
    cases e
    exact hw.setBufMem (bufCleanUpSecure_spec (hw.bufOk b) hcore).1
  | append b c =>
    simp only [step] at e
    obtain ⟨⟨e1, h1, nb⟩, hcore, e⟩ := bind_ok e
    cases e
    exact hw.setBufMem (m' := { s.mem with heap := h1 }) (bufAppend_spec (hw.bufOk b) hcore).1
  | appendWithLookup b c =>
    simp only [step] at e
    obtain ⟨⟨e1, h1, nb⟩, hcore, e⟩ := bind_ok e
    cases e
    exact hw.setBufMem (m' := { s.mem with heap := h1 }) (bufAppendWithLookup_spec (hw.bufOk b) hcore).1
  | appendDynamic b c secure =>
    simp only [step] at e
    obtain ⟨⟨e1, m1, nb⟩, hcore, e⟩ := bind_ok e
    cases e
    exact hw.setBufMem (bufAppendDynamic_spec (fr := .cur (s.curs c)) (hw.bufOk b) (hw.curOk c).1 hcore).1
  | appendByteDynamic b v secure =>
    simp only [step] at e
    obtain ⟨⟨e1, m1, nb⟩, hcore, e⟩ := bind_ok e
    cases e
    exact hw.setBufMem (bufAppendDynamic_spec (hw.bufOk b) lit1_le hcore).1
  | appendAndUpdate b c =>
    simp only [step] at e
    obtain ⟨⟨e1, h1, nb, nc⟩, hcore, e⟩ := bind_ok e
    cases e
    obtain ⟨s1, s2, _⟩ := bufAppendAndUpdate_spec (hw.bufOk b) (hw.curOk c) hcore
    exact (hw.setBufMem (m' := { s.mem with heap := h1 }) s1).setCur s2
  | appendNullTerminator b =>
    simp only [step] at e
    obtain ⟨⟨e1, m1, nb⟩, hcore, e⟩ := bind_ok e
    cases e
    exact hw.setBufMem (bufAppendDynamic_spec (hw.bufOk b) lit1_le hcore).1
  | cat d srcs =>
    simp only [step] at e
    obtain ⟨⟨e1, h1, nb⟩, hcore, e⟩ := bind_ok e
    cases e
    exact hw.setBufMem (m' := { s.mem with heap := h1 }) (catLoop_spec srcs (hw.bufOk d) hcore).1
  | reserve b n =>
    simp only [step] at e
    split at e
    · cases e
    · rename_i hmax
      obtain ⟨⟨e1, m1, nb⟩, hcore, e⟩ := bind_ok e
      cases e
      exact hw.setBufMem (bufReserve_spec (hw.bufOk b) (by omega) hcore).1.1
  | reserveRelative b n =>
    simp only [step] at e
    obtain ⟨⟨e1, m1, nb⟩, hcore, e⟩ := bind_ok e
    cases e
    exact hw.setBufMem (bufReserveRelative_spec (hw.bufOk b) hcore).1
  | reserveSmart b n =>
    simp only [step] at e
    split at e
    · cases e
    · rename_i hmax
      obtain ⟨⟨e1, m1, nb⟩, hcore, e⟩ := bind_ok e
      cases e
      exact hw.setBufMem (bufReserveSmart_spec (hw.bufOk b) (by omega) hcore).1
  | reserveSmartRelative b n =>
    simp only [step] at e
    obtain ⟨⟨e1, m1, nb⟩, hcore, e⟩ := bind_ok e
    cases e
    exact hw.setBufMem (bufReserveSmartRelative_spec (hw.bufOk b) hcore).1
  | bufAdvance b n =>
    simp only [step] at e
    cases e
    exact hw.setBufMem (m' := s.mem) (bufAdvance_spec (hw.bufOk b)).1
  | write b bs n =>
    simp only [step] at e
    obtain ⟨⟨ok, h1, nb⟩, hcore, e⟩ := bind_ok e
    cases e
    exact hw.setBufMem (m' := { s.mem with heap := h1 }) (bufWrite_spec (hw.bufOk b) hcore).1
  | writeFromWholeBuffer b src =>
    simp only [step] at e
    obtain ⟨⟨ok, h1, nb⟩, hcore, e⟩ := bind_ok e
    cases e
    exact hw.setBufMem (m' := { s.mem with heap := h1 }) (bufWrite_spec (hw.bufOk b) hcore).1
  | writeFromWholeCursor b c =>
    simp only [step] at e
    obtain ⟨⟨ok, h1, nb⟩, hcore, e⟩ := bind_ok e
    cases e
    exact hw.setBufMem (m' := { s.mem with heap := h1 }) (bufWrite_spec (hw.bufOk b) hcore).1
  | writeToCapacity b c =>
    simp only [step] at e
    obtain ⟨⟨wc, h1, nb, nc⟩, hcore, e⟩ := bind_ok e
    cases e
    obtain ⟨s1, s2, _⟩ := bufWriteToCapacity_spec (hw.bufOk b) (hw.curOk c) hcore
    exact (hw.setBufMem (m' := { s.mem with heap := h1 }) s1).setCur s2
  | writeU8 b v =>
    simp only [step] at e
    obtain ⟨⟨ok, h1, nb⟩, hcore, e⟩ := bind_ok e
    cases e
    exact hw.setBufMem (m' := { s.mem with heap := h1 }) (bufWrite_spec (hw.bufOk b) hcore).1
  | writeU8N b v n =>
    simp only [step] at e
    obtain ⟨⟨ok, h1, nb⟩, hcore, e⟩ := bind_ok e
    cases e
    exact hw.setBufMem (m' := { s.mem with heap := h1 }) (bufWriteU8N_spec (hw.bufOk b) hcore).1
  | writeBe b k x =>
    simp only [step] at e
    obtain ⟨⟨ok, h1, nb⟩, hcore, e⟩ := bind_ok e
    cases e
    exact hw.setBufMem (m' := { s.mem with heap := h1 }) (bufWrite_spec (hw.bufOk b) hcore).1
  | writeBe24 b x =>
    simp only [step] at e
    obtain ⟨⟨ok, h1, nb⟩, hcore, e⟩ := bind_ok e
    cases e
    exact hw.setBufMem (m' := { s.mem with heap := h1 }) (bufWriteBe24_spec (hw.bufOk b) hcore).1
  | advance c n =>
    simp only [step] at e
    cases e
    exact hw.setCur (curAdvance_spec (hw.curOk c)).2.1
  | advanceNospec c n =>
    simp only [step] at e
    cases e
    exact hw.setCur (curAdvanceNospec_spec (hw.curOk c)).2.1
  | read c n =>
    simp only [step] at e
    obtain ⟨⟨ok, bs, nc⟩, hcore, e⟩ := bind_ok e
    cases e
    exact hw.setCur (curRead_spec (hw.curOk c) hcore).1
  | readAndFillBuffer c b =>
    simp only [step] at e
    obtain ⟨⟨ok, h1, nc, nb⟩, hcore, e⟩ := bind_ok e
    cases e
    obtain ⟨s1, s2, _⟩ := curReadAndFill_spec (hw.bufOk b) (hw.curOk c) hcore
    exact (hw.setBufMem (m' := { s.mem with heap := h1 }) s1).setCur s2
  | readBe c k =>
    simp only [step] at e
    obtain ⟨⟨ok, v, nc⟩, hcore, e⟩ := bind_ok e
    cases e
    exact hw.setCur (curReadBe_spec (hw.curOk c) hcore).1
  | readHexU8 c =>
    simp only [step] at e
    obtain ⟨⟨ok, v, nc⟩, hcore, e⟩ := bind_ok e
    cases e
    exact hw.setCur (curReadHexU8_spec (hw.curOk c) hcore).1
  | nextSplit input ch sub =>
    simp only [step] at e
    obtain ⟨⟨more, ns⟩, hcore, e⟩ := bind_ok e
    cases e
    exact hw.setCur (curNextSplit_spec hw.2.2 (hw.curOk input) hcore)
  | splitOnCharN input ch n k =>
    simp only [step] at e
    obtain ⟨⟨e1, l⟩, hcore, e⟩ := bind_ok e
    cases e; exact hw
  | findExact input toFind out =>
    simp only [step] at e
    obtain ⟨⟨e1, nc⟩, hcore, e⟩ := bind_ok e
    cases e
    exact hw.setCur (curFindExact_spec (hw.curOk input) (hw.curOk out) hcore).1
  | leftTrim c p =>
    simp only [step] at e
    obtain ⟨t, _, e⟩ := bind_ok e
    cases e; exact hw
  | rightTrim c p =>
    simp only [step] at e
    obtain ⟨t, _, e⟩ := bind_ok e
    cases e; exact hw
  | trim c p =>
    simp only [step] at e
    obtain ⟨t, _, e⟩ := bind_ok e
    cases e; exact hw
  | satisfies c p =>
    simp only [step] at e
    obtain ⟨t, _, e⟩ := bind_ok e
    cases e; exact hw
  | startsWith c p ic =>
    simp only [step] at e
    obtain ⟨t, _, e⟩ := bind_ok e
    cases e; exact hw
  | curEq a b ic =>
    simp only [step] at e
    obtain ⟨t, _, e⟩ := bind_ok e
    cases e; exact hw
  | curEqBuf c b ic =>
    simp only [step] at e
    obtain ⟨t, _, e⟩ := bind_ok e
    cases e; exact hw
  | curEqCStr c str ic =>
    simp only [step] at e
    obtain ⟨t, _, e⟩ := bind_ok e
    cases e; exact hw
  | bufEq a b ic =>
    simp only [step] at e
    obtain ⟨t, _, e⟩ := bind_ok e
    cases e; exact hw
  | bufEqCStr b str ic =>
    simp only [step] at e
    obtain ⟨t, _, e⟩ := bind_ok e
    cases e; exact hw
  | compareLexical a b =>
    simp only [step] at e
    obtain ⟨t, _, e⟩ := bind_ok e
    cases e; exact hw
  | compareLookup a b =>
    simp only [step] at e
    obtain ⟨t, _, e⟩ := bind_ok e
    cases e; exact hw
  | parseU64 c base =>
    simp only [step] at e
    obtain ⟨⟨e1, v⟩, _, e⟩ := bind_ok e
    cases e; exact hw
  | normalizeSep b =>
    simp only [step] at e
    obtain ⟨h1, hcore, e⟩ := bind_ok e
    cases e
    exact hw.setBufMem (m' := { s.mem with heap := h1 }) (bufNormalizeSep_spec (hw.bufOk b) hcore).1
  | hashIgnoreCase c =>
    simp only [step] at e
    obtain ⟨v, _, e⟩ := bind_ok e
    cases e; exact hw
  | initFromFile b f useHint sizeHint =>
    simp only [step] at e
    split at e
    · cases e
    · rename_i hmax
      obtain ⟨⟨e1, m1, nb⟩, hcore, e⟩ := bind_ok e
      cases e
      exact hw.setBufMem (bufInitFromFile_spec (hw.bufOk b) (by omega) hcore).1

end AwsVerif.Proofs.C01
