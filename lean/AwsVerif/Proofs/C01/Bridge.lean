import AwsVerif.Gen.ByteBufFns
import AwsVerif.Gen.Math
import AwsVerif.Proofs.C01.Trim
/-! C01: bridge between the hand-written model and the functions re-translated from the C source on every run
(`AwsVerif.Gen.ByteBufFns`, `AwsVerif.Gen.Math`): `Model.f = Gen.f`. -/
namespace AwsVerif.Proofs.C01
open AwsVerif.ByteBuf AwsVerif.Gen AwsVerif

theorem HALF_val : HALF = 9223372036854775807 := by decide
theorem SIZE_MAX_val : SIZE_MAX = 18446744073709551615 := by decide
theorem W_val : W = 18446744073709551616 := by decide

/-- `aws_nospec_mask` -/
theorem nospecMask_gen (i b : Nat) : nospecMask i b = ByteBufFns.aws_nospec_mask i b := by
  unfold nospecMask ByteBufFns.aws_nospec_mask subW
  simp only [W_val, SIZE_MAX_val]

/-! the five byte predicates: all 256 arguments -/
set_option maxRecDepth 100000 in
theorem isspace_gen : ∀ i : Fin 256, Pred.eval .isspace (UInt8.ofNat i.val) = ByteBufFns.aws_isspace i.val := by decide
set_option maxRecDepth 100000 in
theorem isalnum_gen : ∀ i : Fin 256, Pred.eval .isalnum (UInt8.ofNat i.val) = ByteBufFns.aws_isalnum i.val := by decide
set_option maxRecDepth 100000 in
theorem isalpha_gen : ∀ i : Fin 256, Pred.eval .isalpha (UInt8.ofNat i.val) = ByteBufFns.aws_isalpha i.val := by decide
set_option maxRecDepth 100000 in
theorem isdigit_gen : ∀ i : Fin 256, Pred.eval .isdigit (UInt8.ofNat i.val) = ByteBufFns.aws_isdigit i.val := by decide
set_option maxRecDepth 100000 in
theorem isxdigit_gen : ∀ i : Fin 256, Pred.eval .isxdigit (UInt8.ofNat i.val) = ByteBufFns.aws_isxdigit i.val := by decide

theorem ite_one_zero_ne {p : Prop} [Decidable p] : ((if p then 1 else 0 : Nat) ≠ 0) ↔ p := by
  by_cases h : p <;> simp [h]

/-! guards, for `size_t` operands -/
theorem guard_advance_gen (cl n : Nat) :
    ByteBufFns.verif_guard_cursor_advance cl n = decide (cl > HALF ∨ n > HALF ∨ n > cl) := by
  unfold ByteBufFns.verif_guard_cursor_advance
  rw [HALF_val]
  apply decide_eq_decide.mpr
  rw [ite_one_zero_ne]
  constructor <;> intro h <;> omega

theorem guard_advance_nospec_gen (cl n : Nat) :
    ByteBufFns.verif_guard_cursor_advance_nospec cl n = decide (n ≤ cl ∧ n ≤ HALF ∧ cl < HALF) := by
  unfold ByteBufFns.verif_guard_cursor_advance_nospec
  rw [HALF_val]
  apply decide_eq_decide.mpr
  rw [ite_one_zero_ne]
  constructor <;> intro h <;> omega

theorem guard_write_gen (l cap n : Nat) (hl : l < W) (hn : n < W) :
    ByteBufFns.verif_guard_buf_write l cap n = decide (l > HALF ∨ n > HALF ∨ l + n > cap) := by
  unfold ByteBufFns.verif_guard_buf_write
  rw [HALF_val]
  rw [W_val] at hl hn
  apply decide_eq_decide.mpr
  rw [ite_one_zero_ne]
  constructor <;> intro h <;> omega

theorem guard_write_u8_n_gen (l cap n : Nat) (hl : l < W) (hn : n < W) :
    ByteBufFns.verif_guard_buf_write_u8_n l cap n = decide (l > HALF ∨ n > HALF ∨ l + n > cap) := by
  unfold ByteBufFns.verif_guard_buf_write_u8_n
  rw [HALF_val]
  rw [W_val] at hl hn
  apply decide_eq_decide.mpr
  rw [ite_one_zero_ne]
  constructor <;> intro h <;> omega

theorem guard_append_gen (cap l n : Nat) :
    ByteBufFns.verif_guard_buf_append cap l n = decide (subW cap l < n) := by
  unfold ByteBufFns.verif_guard_buf_append subW
  rw [W_val]
  apply decide_eq_decide.mpr
  rw [ite_one_zero_ne]

theorem guard_buf_advance_gen (cap l n : Nat) :
    ByteBufFns.verif_guard_buf_advance cap l n = decide (subW cap l ≥ n) := by
  unfold ByteBufFns.verif_guard_buf_advance subW
  rw [W_val]
  apply decide_eq_decide.mpr
  rw [ite_one_zero_ne]

/-! the library's own validity predicates (`aws_byte_buf_is_valid`, `aws_byte_cursor_is_valid`), as written -/

/-- the address a model pointer stands for: NULL ↦ 0, a block ↦ anything non-zero -/
def PtrOf (rid : Option Nat) (p : Nat) : Prop := p ≠ 0 ↔ rid.isSome = true

/-- `Buf.isValid` of the model is `aws_byte_buf_is_valid` as written, for every non-NULL `buf` -/
theorem bufIsValid_gen (b : Buf) (self p : Nat) (hs : self ≠ 0) (hp : PtrOf b.rid p) :
    b.isValid = ByteBufFns.verif_valid_byte_buf self b.cap b.len p := by
  unfold ByteBufFns.verif_valid_byte_buf Buf.isValid PtrOf at *
  rw [Bool.eq_iff_iff]
  simp only [decide_eq_true_eq, ite_one_zero_ne, Bool.or_eq_true, Bool.and_eq_true, beq_iff_eq]
  cases hr : b.rid with
  | none =>
    have hp0 : p = 0 := by
      by_cases h : p = 0
      · exact h
      · have := hp.mp h; simp [hr] at this
    subst hp0
    simp only [Option.isNone_none, Option.isSome_none, Bool.false_eq_true, and_false, or_false, and_true, ne_eq,
      not_true_eq_false]
    constructor
    · rintro ⟨a, b'⟩
      exact ⟨hs, Or.inl ⟨a, b'⟩⟩
    · rintro ⟨_, (⟨a, b'⟩ | ⟨⟨a, _⟩, c⟩)⟩
      · exact ⟨a, b'⟩
      · omega
  | some r =>
    have hp1 : p ≠ 0 := hp.mpr (by simp [hr])
    simp only [Option.isNone_some, Option.isSome_some, Bool.false_eq_true, and_false, false_or, and_true, ne_eq]
    constructor
    · rintro ⟨a, b'⟩
      exact ⟨hs, Or.inr ⟨⟨a, b'⟩, Or.inr hp1⟩⟩
    · rintro ⟨_, (⟨_, c⟩ | ⟨⟨a, b'⟩, _⟩)⟩
      · exact absurd c hp1
      · exact ⟨a, b'⟩

/-- `Cur.isValid` of the model is `aws_byte_cursor_is_valid` as written, for every non-NULL `cursor` -/
theorem curIsValid_gen (c : Cur) (self p : Nat) (hs : self ≠ 0) (hp : PtrOf c.rid p) :
    c.isValid = ByteBufFns.verif_valid_byte_cursor self c.len p := by
  unfold ByteBufFns.verif_valid_byte_cursor Cur.isValid PtrOf at *
  rw [Bool.eq_iff_iff]
  simp only [decide_eq_true_eq, ite_one_zero_ne, Bool.or_eq_true, Bool.and_eq_true, beq_iff_eq]
  constructor
  · rintro (a | ⟨a, b⟩)
    · exact ⟨hs, Or.inl a⟩
    · exact ⟨hs, Or.inr ⟨⟨a, hp.mpr b⟩, Or.inr (hp.mpr b)⟩⟩
  · rintro ⟨_, (a | ⟨⟨a, b⟩, _⟩)⟩
    · exact Or.inl a
    · exact Or.inr ⟨a, hp.mp b⟩

/-- a buffer satisfying the model invariant is valid in the library's sense -/
theorem BufOk.isValid {h : Heap} {b : Buf} (hb : BufOk h b) : b.isValid = true := by
  obtain ⟨h1, _, h3⟩ := hb
  unfold Buf.isValid
  cases hr : b.rid with
  | none =>
    simp only [hr] at h3
    have : b.len = 0 := by omega
    simp [h3, this]
  | some r =>
    simp only [hr] at h3
    simp [h3.1, h1]

/-- a cursor satisfying the model invariant is valid in the library's sense -/
theorem CurOk.isValid {h : Heap} {c : Cur} (hc : CurOk h c) : c.isValid = true := by
  obtain ⟨_, h2⟩ := hc
  unfold Cur.isValid
  cases hr : c.rid with
  | none => simp only [hr] at h2; simp [h2]
  | some r =>
    by_cases h0 : c.len = 0
    · simp [h0]
    · have : c.len > 0 := by omega
      simp [this]

/-! checked / saturating arithmetic (generated from math.inl + math.gcc_overflow.inl) -/
def resOfOption : Option Nat → CSem.Res
  | some v => .ok v
  | none => .err 5      -- AWS_ERROR_OVERFLOW_DETECTED

theorem addChecked_gen (a b : Nat) : Math.MathInl.aws_add_size_checked a b = resOfOption (addChecked a b) := by
  unfold Math.MathInl.aws_add_size_checked Math.Overflow.aws_add_u64_checked addChecked resOfOption
  simp only [SIZE_MAX_val]
  by_cases h : a + b ≥ 18446744073709551616
  · have h2 : a + b > 18446744073709551615 := by omega
    simp [h, h2]
  · have h2 : ¬ a + b > 18446744073709551615 := by omega
    simp only [h, h2, if_false]
    rw [Nat.mod_eq_of_lt (by omega)]

theorem addSat_gen (a b : Nat) : Math.MathInl.aws_add_size_saturating a b = addSat a b := by
  unfold Math.MathInl.aws_add_size_saturating Math.Overflow.aws_add_u64_saturating addSat
  simp only [SIZE_MAX_val]
  by_cases h : a + b ≥ 18446744073709551616
  · have h2 : a + b > 18446744073709551615 := by omega
    simp [h, h2]
  · have h2 : ¬ a + b > 18446744073709551615 := by omega
    simp only [h, h2, if_false]
    rw [Nat.mod_eq_of_lt (by omega)]

theorem mulChecked_gen (a b : Nat) : Math.Overflow.aws_mul_u64_checked a b = resOfOption (mulChecked a b) := by
  unfold Math.Overflow.aws_mul_u64_checked mulChecked resOfOption
  simp only [SIZE_MAX_val]
  by_cases h : a * b ≥ 18446744073709551616
  · have h2 : a * b > 18446744073709551615 := by omega
    simp [h, h2]
  · have h2 : ¬ a * b > 18446744073709551615 := by omega
    simp only [h, h2, if_false]
    rw [Nat.mod_eq_of_lt (by omega)]

/-- growth step bounds of `s_byte_buf_init_from_file_impl` (macros of source/file.c) -/
theorem fileGrowth_gen :
    MIN_BUFFER_GROWTH_READING_FILES = ByteBufFns.MIN_BUFFER_GROWTH_READING_FILES ∧
    MAX_BUFFER_GROWTH_READING_FILES = ByteBufFns.MAX_BUFFER_GROWTH_READING_FILES := by decide

theorem addU64Checked_gen (a b : Nat) : Math.Overflow.aws_add_u64_checked a b = resOfOption (addChecked a b) :=
  addChecked_gen a b

end AwsVerif.Proofs.C01
