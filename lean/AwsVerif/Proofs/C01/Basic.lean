import AwsVerif.Model.ByteBuf
/-! C01 helper layer 1: invariants and the heap primitives (`loadN`, `storeN`, `alloc`, `release`). -/
namespace AwsVerif.Proofs.C01
open AwsVerif.ByteBuf

/-! ### invariants -/

/-- length of the live region `r` -/
def regLen (h : Heap) (r : Nat) : Option Nat := (region? h r).map List.length

/-- `aws_byte_buf` invariant w.r.t. a heap: len ≤ cap, cap = 0 ↔ no region, region length = cap -/
def BufOk (h : Heap) (b : Buf) : Prop :=
  b.len ≤ b.cap ∧ b.cap ≤ SIZE_MAX ∧
  match b.rid with
  | none => b.cap = 0
  | some r => 0 < b.cap ∧ regLen h r = some b.cap

/-- cursor invariant: NULL ⇒ len 0; otherwise the block was allocated and, while it is live,
the view lies inside it -/
def CurOk (h : Heap) (c : Cur) : Prop :=
  c.len ≤ SIZE_MAX ∧
  match c.rid with
  | none => c.len = 0
  | some r => r < h.length ∧ ∀ n, regLen h r = some n → c.off + c.len ≤ n

/-- distinct buffer slots own distinct blocks -/
def Disjoint (bufs : Nat → Buf) : Prop := ∀ i j r, (bufs i).rid = some r → (bufs j).rid = some r → i = j

def Valid (s : State) : Prop := (∀ i, BufOk s.mem.heap (s.bufs i)) ∧ Disjoint s.bufs

/-- valid buffers, well-formed cursors, and block 0 (the `""` literal) exists -/
def WF (s : State) : Prop := Valid s ∧ (∀ i, CurOk s.mem.heap (s.curs i)) ∧ 0 < s.mem.heap.length

/-- every block given back by a `_secure` code path was all-zero over its whole size -/
def SecureZeroed (s : State) : Prop := ∀ e ∈ s.mem.events, e.secure = true → ∀ c ∈ e.snapshot, c = some 0

/-- How an operation may change the heap as seen from its start: blocks that existed keep their
contents, except block `own` (the destination's storage), which keeps its size while live. -/
structure Frame (h h' : Heap) (own : Option Nat) : Prop where
  len : h.length ≤ h'.length
  other : ∀ r, r < h.length → some r ≠ own → region? h' r = region? h r
  own_len : ∀ r, r < h.length → ∀ n, regLen h' r = some n → regLen h r = some n

/-! ### basic facts -/

theorem region?_lt {h : Heap} {r : Nat} {reg : Region} (e : region? h r = some reg) : r < h.length := by
  unfold region? at e
  split at e
  · rename_i heq
    exact (List.getElem?_eq_some_iff.mp heq).1
  · cases e

theorem regLen_lt {h : Heap} {r n : Nat} (e : regLen h r = some n) : r < h.length := by
  unfold regLen at e
  cases hr : region? h r with
  | none => simp [hr] at e
  | some reg => exact region?_lt hr

theorem regLen_of_region {h : Heap} {r : Nat} {reg : Region} (e : region? h r = some reg) :
    regLen h r = some reg.length := by simp [regLen, e]

theorem region?_set_self {h : Heap} {r : Nat} {reg : Region} (hr : r < h.length) :
    region? (h.set r (some reg)) r = some reg := by
  simp [region?, List.getElem?_set_self hr]

theorem region?_set_none {h : Heap} {r : Nat} : region? (h.set r none) r = none := by
  unfold region?
  by_cases hr : r < h.length
  · simp [List.getElem?_set_self hr]
  · simp [hr]

theorem region?_set_ne {h : Heap} {r r' : Nat} {v : Option Region} (hne : r ≠ r') :
    region? (h.set r v) r' = region? h r' := by
  simp [region?, List.getElem?_set_ne hne]

theorem Frame.refl (h : Heap) (own : Option Nat) : Frame h h own :=
  ⟨Nat.le_refl _, fun _ _ _ => rfl, fun _ _ _ e => e⟩

theorem Frame.weaken {h h' : Heap} {own : Option Nat} (f : Frame h h' none) : Frame h h' own :=
  ⟨f.len, fun r hr _ => f.other r hr (by simp), f.own_len⟩

/-- composition: the second step may additionally touch a block that did not exist at the start -/
theorem Frame.trans {h h1 h2 : Heap} {own o2 : Option Nat} (f1 : Frame h h1 own) (f2 : Frame h1 h2 o2)
    (ho : o2 = own ∨ o2 = none ∨ ∃ r, o2 = some r ∧ h.length ≤ r) : Frame h h2 own := by
  refine ⟨Nat.le_trans f1.len f2.len, ?_, ?_⟩
  · intro r hr hne
    have hne2 : some r ≠ o2 := by
      rcases ho with rfl | rfl | ⟨r', rfl, hr'⟩
      · exact hne
      · simp
      · intro e; cases e; omega
    rw [f2.other r (Nat.lt_of_lt_of_le hr f1.len) hne2, f1.other r hr hne]
  · intro r hr n e
    exact f1.own_len r hr n (f2.own_len r (Nat.lt_of_lt_of_le hr f1.len) n e)

/-! ### loadN / storeN -/

theorem loadN_length {h : Heap} {rid : Option Nat} {off n : Nat} {cells : List Cell}
    (e : loadN h rid off n = .ok cells) : cells.length = n := by
  unfold loadN at e
  split at e
  · cases e; simp_all
  · split at e
    · cases e
    · split at e
      · cases e
      · split at e
        · cases e
          simp [List.length_take, List.length_drop]; omega
        · cases e

theorem loadN_not_oob {h : Heap} {r : Nat} {off n m : Nat} (hl : regLen h r = some m) (hb : off + n ≤ m) :
    loadN h (some r) off n ≠ .error .oob := by
  unfold loadN
  split
  · simp
  · unfold regLen at hl
    cases hr : region? h r with
    | none => simp [hr] at hl
    | some reg =>
      simp [hr] at hl
      simp [hr]
      omega

theorem storeN_frame {h h' : Heap} {r : Nat} {off : Nat} {cells : List Cell}
    (e : storeN h (some r) off cells = .ok h') : Frame h h' (some r) ∧ h'.length = h.length ∧ ∀ x, regLen h' x = regLen h x := by
  unfold storeN at e
  split at e
  · cases e; exact ⟨Frame.refl _ _, rfl, fun _ => rfl⟩
  · cases hr : region? h r with
    | none => simp [hr] at e
    | some reg =>
      simp [hr] at e
      split at e
      · cases e
        have hlt := region?_lt hr
        have hlen : (splice reg off cells).length = reg.length := by
          simp [splice, List.length_take, List.length_drop]; omega
        have hreg : ∀ x, regLen (h.set r (some (splice reg off cells))) x = regLen h x := by
          intro x
          by_cases hx : r = x
          · subst hx
            simp [regLen, region?_set_self hlt, hr, hlen]
          · simp [regLen, region?_set_ne hx]
        refine ⟨⟨by simp, ?_, ?_⟩, by simp, hreg⟩
        · intro x _ hne
          have : r ≠ x := fun e => hne (by simp [e])
          exact region?_set_ne this
        · intro x _ n e
          rw [hreg] at e; exact e
      · cases e

theorem storeN_region {h h' : Heap} {r : Nat} {off : Nat} {cells : List Cell} {reg : Region}
    (e : storeN h (some r) off cells = .ok h') (hr : region? h r = some reg) :
    region? h' r = some (if cells.length = 0 then reg else splice reg off cells) := by
  unfold storeN at e
  split at e
  · cases e; simp_all
  · simp [hr] at e
    split at e
    · cases e
      rename_i hne _
      simp [region?_set_self (region?_lt hr), hne]
    · cases e

theorem storeN_not_oob {h : Heap} {r : Nat} {off m : Nat} {cells : List Cell} (hl : regLen h r = some m)
    (hb : off + cells.length ≤ m) : storeN h (some r) off cells ≠ .error .oob := by
  unfold storeN
  split
  · simp
  · unfold regLen at hl
    cases hr : region? h r with
    | none => simp [hr] at hl
    | some reg =>
      simp [hr] at hl
      simp [hr]
      omega

theorem storeN_ok {h : Heap} {r : Nat} {off m : Nat} {cells : List Cell} (hl : regLen h r = some m)
    (hb : off + cells.length ≤ m) : ∃ h', storeN h (some r) off cells = .ok h' := by
  unfold storeN
  split
  · exact ⟨_, rfl⟩
  · unfold regLen at hl
    cases hr : region? h r with
    | none => simp [hr] at hl
    | some reg =>
      simp [hr] at hl
      have : off + cells.length ≤ reg.length := by omega
      simp [hr, this]

/-! ### alloc / release -/

theorem alloc_spec (m : Mem) (n : Nat) :
    (m.alloc n).2 = m.heap.length ∧ (m.alloc n).1.events = m.events ∧
    (m.alloc n).1.heap.length = m.heap.length + 1 ∧
    region? (m.alloc n).1.heap m.heap.length = some (List.replicate n none) ∧
    Frame m.heap (m.alloc n).1.heap none := by
  refine ⟨rfl, rfl, by simp [Mem.alloc], ?_, ⟨by simp [Mem.alloc], ?_, ?_⟩⟩
  · simp [Mem.alloc, region?]
  · intro r hr _
    simp [Mem.alloc, region?, List.getElem?_append_left hr]
  · intro r hr n' e
    simpa [Mem.alloc, regLen, region?, List.getElem?_append_left hr] using e

theorem release_spec {m m' : Mem} {r : Nat} {sec : Bool} (e : m.release r sec = .ok m') :
    ∃ reg, region? m.heap r = some reg ∧ m'.events = m.events ++ [⟨r, reg, sec⟩] ∧
      m'.heap = m.heap.set r none ∧ Frame m.heap m'.heap (some r) ∧ region? m'.heap r = none := by
  unfold Mem.release at e
  cases hr : region? m.heap r with
  | none => simp [hr] at e
  | some reg =>
    simp [hr] at e
    cases e
    refine ⟨reg, rfl, rfl, rfl, ⟨by simp, ?_, ?_⟩, region?_set_none⟩
    · intro x _ hne
      have : r ≠ x := fun e => hne (by simp [e])
      exact region?_set_ne this
    · intro x _ n e
      by_cases hx : r = x
      · subst hx; simp [regLen, region?_set_none] at e
      · simpa [regLen, region?_set_ne hx] using e

theorem release_not_oob (m : Mem) (r : Nat) (sec : Bool) : m.release r sec ≠ .error .oob := by
  unfold Mem.release
  split <;> simp

end AwsVerif.Proofs.C01
