import AwsVerif.Proofs.C01.StepOob
/-! C01: a call that reports failure leaves the whole state as it was (`step_fail_unchanged`). -/
namespace AwsVerif.Proofs.C01
open AwsVerif.ByteBuf

/-- the two operations whose failure is documented *not* to be a roll-back: `cat` stops part-way, and
`init_from_file` discards `*out_buf` first and hands back a cleaned-up (zeroed) buffer on failure -/
def _root_.AwsVerif.ByteBuf.Op.isCat : Op → Bool
  | .cat _ _ => true
  | .initFromFile _ _ _ _ => true
  | _ => false

theorem setBufMem_self (s : State) (i : Nat) : ({ s with mem := s.mem } : State).setBuf i (s.bufs i) = s :=
  setBuf_self s i

theorem setBufHeap_self (s : State) (i : Nat) : (s.setHeap s.mem.heap).setBuf i (s.bufs i) = s := by
  rw [setHeap_self]; exact setBuf_self s i

theorem isSome_of_failed_code {e : Option Err} (h : (Res.code e).failed = true) : e.isSome = true := h

theorem step_fail_unchanged {s s' : State} {op : Op} {r : Res} (hw : WF s)
    (hcat : op.isCat = false)
    (e : step s op = .ok (r, s')) (hf : r.failed = true) : s' = s := by
  cases op with
  | curFromBytes c bs =>
    simp only [step] at e
    split at e
    · cases e
    · split at e
      · cases e; cases hf
      · cases e
  | curNull c => simp only [step] at e; cases e; cases hf
  | curInto c b off len =>
    simp only [step] at e
    split at e
    · split at e
      · cases e; cases hf
      · cases e; rfl
    · cases e; rfl
  | curFromBuf c b => simp only [step] at e; cases e; cases hf
  | curSub dst src off len =>
    simp only [step] at e
    split at e
    · cases e; cases hf
    · cases e; rfl
  | bufFromArray b bs =>
    simp only [step] at e
    split at e
    · cases e
    · split at e
      · cases e; cases hf
      · split at e
        · cases e; cases hf
        · cases e
  | bufFromEmptyArray b cap =>
    simp only [step] at e
    split at e
    · cases e
    · split at e <;> (cases e; cases hf)
  | init b cap =>
    simp only [step] at e
    split at e
    · cases e
    · cases e; cases hf
  | initCopy d src =>
    simp only [step] at e
    obtain ⟨⟨e1, m1, nb⟩, hcore, e⟩ := bind_ok e
    cases e
    obtain ⟨a, b⟩ := (bufInitCopy_spec (hw.bufOk d) (hw.bufOk src) hcore).2.2 hf
    subst a; subst b
    exact setBufMem_self s d
  | initCopyFromCursor d c =>
    simp only [step] at e
    obtain ⟨⟨e1, m1, nb⟩, hcore, e⟩ := bind_ok e
    cases e
    obtain ⟨a, b⟩ := (bufInitCopyFromCursor_spec (hw.bufOk d) (hw.curOk c) hcore).2.2 hf
    subst a; subst b
    exact setBufMem_self s d
  | reset b zero =>
    simp only [step] at e
    obtain ⟨⟨h1, nb⟩, hcore, e⟩ := bind_ok e
    cases e; cases hf
  | secureZero b =>
    simp only [step] at e
    obtain ⟨⟨h1, nb⟩, hcore, e⟩ := bind_ok e
    cases e; cases hf
  | cleanUp b =>
    simp only [step] at e
    obtain ⟨⟨m1, nb⟩, hcore, e⟩ := bind_ok e
    cases e; cases hf
  | cleanUpSecure b =>
    simp only [step] at e
    obtain ⟨⟨m1, nb⟩, hcore, e⟩ := bind_ok e
    cases e; cases hf
  | append b c =>
    simp only [step] at e
    obtain ⟨⟨e1, h1, nb⟩, hcore, e⟩ := bind_ok e
    cases e
    obtain ⟨a, b'⟩ := (bufAppend_spec (hw.bufOk b) hcore).2.2.2.2.1 hf
    subst a; subst b'
    exact setBufHeap_self s b
  | appendWithLookup b c =>
    simp only [step] at e
    obtain ⟨⟨e1, h1, nb⟩, hcore, e⟩ := bind_ok e
    cases e
    obtain ⟨a, b'⟩ := (bufAppendWithLookup_spec (hw.bufOk b) hcore).2.2.2.2.1 hf
    subst a; subst b'
    exact setBufHeap_self s b
  | appendDynamic b c secure =>
    simp only [step] at e
    obtain ⟨⟨e1, m1, nb⟩, hcore, e⟩ := bind_ok e
    cases e
    obtain ⟨a, b'⟩ := (bufAppendDynamic_spec (fr := .cur (s.curs c)) (hw.bufOk b) (hw.curOk c).1 hcore).2.1 hf
    subst a; subst b'
    exact setBufMem_self s b
  | appendByteDynamic b v secure =>
    simp only [step] at e
    obtain ⟨⟨e1, m1, nb⟩, hcore, e⟩ := bind_ok e
    cases e
    obtain ⟨a, b'⟩ := (bufAppendDynamic_spec (hw.bufOk b) lit1_le hcore).2.1 hf
    subst a; subst b'
    exact setBufMem_self s b
  | appendAndUpdate b c =>
    simp only [step] at e
    obtain ⟨⟨e1, h1, nb, nc⟩, hcore, e⟩ := bind_ok e
    cases e
    obtain ⟨a, b', c'⟩ := (bufAppendAndUpdate_spec (hw.bufOk b) (hw.curOk c) hcore).2.2.1 hf
    subst a; subst b'; subst c'
    rw [setBufHeap_self]; exact setCur_self s c
  | appendNullTerminator b =>
    simp only [step] at e
    obtain ⟨⟨e1, m1, nb⟩, hcore, e⟩ := bind_ok e
    cases e
    obtain ⟨a, b'⟩ := (bufAppendDynamic_spec (hw.bufOk b) lit1_le hcore).2.1 hf
    subst a; subst b'
    exact setBufMem_self s b
  | cat d srcs => cases hcat
  | reserve b n =>
    simp only [step] at e
    split at e
    · cases e
    · rename_i hmax
      obtain ⟨⟨e1, m1, nb⟩, hcore, e⟩ := bind_ok e
      cases e
      obtain ⟨a, b'⟩ := (bufReserve_spec (hw.bufOk b) (by omega) hcore).1.2.1 hf
      subst a; subst b'
      exact setBufMem_self s b
  | reserveRelative b n =>
    simp only [step] at e
    obtain ⟨⟨e1, m1, nb⟩, hcore, e⟩ := bind_ok e
    cases e
    obtain ⟨a, b'⟩ := (bufReserveRelative_spec (hw.bufOk b) hcore).2.1 hf
    subst a; subst b'
    exact setBufMem_self s b
  | reserveSmart b n =>
    simp only [step] at e
    split at e
    · cases e
    · rename_i hmax
      obtain ⟨⟨e1, m1, nb⟩, hcore, e⟩ := bind_ok e
      cases e
      obtain ⟨a, b'⟩ := (bufReserveSmart_spec (hw.bufOk b) (by omega) hcore).2.1 hf
      subst a; subst b'
      exact setBufMem_self s b
  | reserveSmartRelative b n =>
    simp only [step] at e
    obtain ⟨⟨e1, m1, nb⟩, hcore, e⟩ := bind_ok e
    cases e
    obtain ⟨a, b'⟩ := (bufReserveSmartRelative_spec (hw.bufOk b) hcore).2.1 hf
    subst a; subst b'
    exact setBufMem_self s b
  | bufAdvance b n =>
    simp only [step] at e
    cases e
    have hnone : (bufAdvance (s.bufs b) n).1 = none := by
      simp only [Res.failed] at hf
      cases hv : (bufAdvance (s.bufs b) n).1 with
      | none => rfl
      | some v => rw [hv] at hf; cases hf
    rw [(bufAdvance_spec (hw.bufOk b)).2.2.2.1 hnone]
    exact setBuf_self s b
  | write b bs n =>
    simp only [step] at e
    obtain ⟨⟨ok, h1, nb⟩, hcore, e⟩ := bind_ok e
    cases e
    have hok : ok = false := by simpa [Res.failed] using hf
    obtain ⟨a, b'⟩ := (bufWrite_spec (hw.bufOk b) hcore).2.2.2.2.2.1 hok
    subst a; subst b'
    exact setBufHeap_self s b
  | writeFromWholeBuffer b src =>
    simp only [step] at e
    obtain ⟨⟨ok, h1, nb⟩, hcore, e⟩ := bind_ok e
    cases e
    have hok : ok = false := by simpa [Res.failed] using hf
    obtain ⟨a, b'⟩ := (bufWrite_spec (hw.bufOk b) hcore).2.2.2.2.2.1 hok
    subst a; subst b'
    exact setBufHeap_self s b
  | writeFromWholeCursor b c =>
    simp only [step] at e
    obtain ⟨⟨ok, h1, nb⟩, hcore, e⟩ := bind_ok e
    cases e
    have hok : ok = false := by simpa [Res.failed] using hf
    obtain ⟨a, b'⟩ := (bufWrite_spec (hw.bufOk b) hcore).2.2.2.2.2.1 hok
    subst a; subst b'
    exact setBufHeap_self s b
  | writeToCapacity b c =>
    simp only [step] at e
    obtain ⟨⟨wc, h1, nb, nc⟩, hcore, e⟩ := bind_ok e
    cases e
    have hnone : wc.rid = none := by
      simp only [Res.failed] at hf
      cases hv : wc.rid with
      | none => rfl
      | some v => rw [hv] at hf; cases hf
    obtain ⟨a, b', c'⟩ := (bufWriteToCapacity_spec (hw.bufOk b) (hw.curOk c) hcore).2.2.1 hnone
    subst a; subst b'; subst c'
    rw [setBufHeap_self]; exact setCur_self s c
  | writeU8 b v =>
    simp only [step] at e
    obtain ⟨⟨ok, h1, nb⟩, hcore, e⟩ := bind_ok e
    cases e
    have hok : ok = false := by simpa [Res.failed] using hf
    obtain ⟨a, b'⟩ := (bufWrite_spec (hw.bufOk b) hcore).2.2.2.2.2.1 hok
    subst a; subst b'
    exact setBufHeap_self s b
  | writeU8N b v n =>
    simp only [step] at e
    obtain ⟨⟨ok, h1, nb⟩, hcore, e⟩ := bind_ok e
    cases e
    have hok : ok = false := by simpa [Res.failed] using hf
    obtain ⟨a, b'⟩ := (bufWriteU8N_spec (hw.bufOk b) hcore).2.2.2.2.2.1 hok
    subst a; subst b'
    exact setBufHeap_self s b
  | writeBe b k x =>
    simp only [step] at e
    obtain ⟨⟨ok, h1, nb⟩, hcore, e⟩ := bind_ok e
    cases e
    have hok : ok = false := by simpa [Res.failed] using hf
    obtain ⟨a, b'⟩ := (bufWrite_spec (hw.bufOk b) hcore).2.2.2.2.2.1 hok
    subst a; subst b'
    exact setBufHeap_self s b
  | writeBe24 b x =>
    simp only [step] at e
    obtain ⟨⟨ok, h1, nb⟩, hcore, e⟩ := bind_ok e
    cases e
    have hok : ok = false := by simpa [Res.failed] using hf
    obtain ⟨a, b'⟩ := (bufWriteBe24_spec (hw.bufOk b) hcore).2.2.2.2.1 hok
    subst a; subst b'
    exact setBufHeap_self s b
  | advance c n =>
    simp only [step] at e
    cases e
    have hnone : (curAdvance (s.curs c) n).1.rid = none := by
      simp only [Res.failed] at hf
      cases hv : (curAdvance (s.curs c) n).1.rid with
      | none => rfl
      | some v => rw [hv] at hf; cases hf
    rw [(curAdvance_spec (hw.curOk c)).2.2.1 hnone]
    exact setCur_self s c
  | advanceNospec c n =>
    simp only [step] at e
    cases e
    have hnone : (curAdvanceNospec (s.curs c) n).1.rid = none := by
      simp only [Res.failed] at hf
      cases hv : (curAdvanceNospec (s.curs c) n).1.rid with
      | none => rfl
      | some v => rw [hv] at hf; cases hf
    rw [(curAdvanceNospec_spec (hw.curOk c)).2.2.1 hnone]
    exact setCur_self s c
  | read c n =>
    simp only [step] at e
    obtain ⟨⟨ok, bs, nc⟩, hcore, e⟩ := bind_ok e
    cases e
    have hok : ok = false := by simpa [Res.failed] using hf
    rw [(curRead_spec (hw.curOk c) hcore).2.1 hok]
    exact setCur_self s c
  | readAndFillBuffer c b =>
    simp only [step] at e
    obtain ⟨⟨ok, h1, nc, nb⟩, hcore, e⟩ := bind_ok e
    cases e
    have hok : ok = false := by simpa [Res.failed] using hf
    obtain ⟨a, b', c'⟩ := (curReadAndFill_spec (hw.bufOk b) (hw.curOk c) hcore).2.2 hok
    subst a; subst b'; subst c'
    rw [setBufHeap_self]; exact setCur_self s c
  | readBe c k =>
    simp only [step] at e
    obtain ⟨⟨ok, v, nc⟩, hcore, e⟩ := bind_ok e
    cases e
    have hok : ok = false := by simpa [Res.failed] using hf
    rw [(curReadBe_spec (hw.curOk c) hcore).2 hok]
    exact setCur_self s c
  | readHexU8 c =>
    simp only [step] at e
    obtain ⟨⟨ok, v, nc⟩, hcore, e⟩ := bind_ok e
    cases e
    have hok : ok = false := by simpa [Res.failed] using hf
    rw [(curReadHexU8_spec (hw.curOk c) hcore).2 hok]
    exact setCur_self s c
  | nextSplit input ch sub =>
    simp only [step] at e
    obtain ⟨⟨more, ns⟩, hcore, e⟩ := bind_ok e
    cases e; cases hf
  | splitOnCharN input ch n k =>
    simp only [step] at e
    obtain ⟨⟨e1, l⟩, hcore, e⟩ := bind_ok e
    cases e; rfl
  | findExact input toFind out =>
    simp only [step] at e
    obtain ⟨⟨e1, nc⟩, hcore, e⟩ := bind_ok e
    cases e
    rw [(curFindExact_spec (hw.curOk input) (hw.curOk out) hcore).2 hf]
    exact setCur_self s out
  | leftTrim c p =>
    simp only [step] at e
    obtain ⟨t, _, e⟩ := bind_ok e
    cases e; rfl
  | rightTrim c p =>
    simp only [step] at e
    obtain ⟨t, _, e⟩ := bind_ok e
    cases e; rfl
  | trim c p =>
    simp only [step] at e
    obtain ⟨t, _, e⟩ := bind_ok e
    cases e; rfl
  | satisfies c p =>
    simp only [step] at e
    obtain ⟨t, _, e⟩ := bind_ok e
    cases e; rfl
  | startsWith c p ic =>
    simp only [step] at e
    obtain ⟨t, _, e⟩ := bind_ok e
    cases e; rfl
  | curEq a b ic =>
    simp only [step] at e
    obtain ⟨t, _, e⟩ := bind_ok e
    cases e; rfl
  | curEqBuf c b ic =>
    simp only [step] at e
    obtain ⟨t, _, e⟩ := bind_ok e
    cases e; rfl
  | curEqCStr c str ic =>
    simp only [step] at e
    obtain ⟨t, _, e⟩ := bind_ok e
    cases e; rfl
  | bufEq a b ic =>
    simp only [step] at e
    obtain ⟨t, _, e⟩ := bind_ok e
    cases e; rfl
  | bufEqCStr b str ic =>
    simp only [step] at e
    obtain ⟨t, _, e⟩ := bind_ok e
    cases e; rfl
  | compareLexical a b =>
    simp only [step] at e
    obtain ⟨t, _, e⟩ := bind_ok e
    cases e; rfl
  | compareLookup a b =>
    simp only [step] at e
    obtain ⟨t, _, e⟩ := bind_ok e
    cases e; rfl
  | parseU64 c base =>
    simp only [step] at e
    obtain ⟨⟨e1, v⟩, _, e⟩ := bind_ok e
    cases e; rfl
  | normalizeSep b =>
    simp only [step] at e
    obtain ⟨h1, hcore, e⟩ := bind_ok e
    cases e; cases hf
  | hashIgnoreCase c =>
    simp only [step] at e
    obtain ⟨v, _, e⟩ := bind_ok e
    cases e; rfl
  | initFromFile b f useHint sizeHint => cases hcat

/-- `aws_byte_buf_cat` is documented to stop part-way: whatever it reports, only the destination
slot and its block change, the destination stays in the same block with the same capacity, its
length only grows and the bytes it had are kept (the parts applied so far were appended). -/
theorem step_cat_weak {s s' : State} {d : Nat} {srcs : List Nat} {r : Res} (hw : WF s)
    (e : step s (.cat d srcs) = .ok (r, s')) :
    s'.curs = s.curs ∧ s'.mem.events = s.mem.events ∧ (∀ i, i ≠ d → s'.bufs i = s.bufs i) ∧
    (s'.bufs d).rid = (s.bufs d).rid ∧ (s'.bufs d).cap = (s.bufs d).cap ∧ (s'.bufs d).owned = (s.bufs d).owned ∧
    (s.bufs d).len ≤ (s'.bufs d).len ∧
    (regionCells s'.mem.heap (s.bufs d).rid).take (s.bufs d).len = (regionCells s.mem.heap (s.bufs d).rid).take (s.bufs d).len ∧
    Frame s.mem.heap s'.mem.heap (s.bufs d).rid := by
  simp only [step] at e
  obtain ⟨⟨e1, h1, nb⟩, hcore, e⟩ := bind_ok e
  cases e
  obtain ⟨s1, s2, s3, s4, s5, s6, _⟩ := catLoop_spec srcs (hw.bufOk d) hcore
  refine ⟨rfl, rfl, ?_, ?_, ?_, ?_, ?_, s6, s1.frame⟩
  · intro i hi; simp [State.setBuf, State.setHeap, hi]
  all_goals simp [State.setBuf, State.setHeap, *]

end AwsVerif.Proofs.C01
