import AwsVerif.Proofs.C01.Compare
/-! C01 [B]: `aws_byte_cursor_split_on_char` = the pieces of the input between separator bytes. -/
namespace AwsVerif.Proofs.C01
open AwsVerif.ByteBuf

/-- length of the piece that starts at `st`: up to the next `ch`, or to the end -/
def nextPiece (bytes : List UInt8) (ch : UInt8) (st : Nat) : Nat :=
  let seg := bytes.drop st
  let i := seg.findIdx (· == ch)
  if i < seg.length then i else seg.length

theorem nextPiece_le (bytes : List UInt8) (ch : UInt8) (st : Nat) : st + nextPiece bytes ch st ≤ max st bytes.length := by
  unfold nextPiece
  simp only [List.length_drop]
  split <;> omega

/-- the pieces of `bytes` split on `ch`, as (offset, length), scanning from `st`
(`"AB&"` on `&` gives `(0,2), (3,0)`; the empty input gives `(0,0)`) -/
def piecesFrom (bytes : List UInt8) (ch : UInt8) (st : Nat) : List (Nat × Nat) :=
  if st + nextPiece bytes ch st < bytes.length then
    (st, nextPiece bytes ch st) :: piecesFrom bytes ch (st + nextPiece bytes ch st + 1)
  else [(st, nextPiece bytes ch st)]
termination_by bytes.length - st
decreasing_by omega

/-- reading a sub-range through a cursor whose whole contents are known -/
theorem Cur.load_sub {h : Heap} {c : Cur} {x : List UInt8} {r st : Nat} (hr : c.rid = some r)
    (hl : c.load h 0 c.len = .ok (x.map some)) (hst : st ≤ c.len) :
    (⟨some r, c.off + st, c.len - st⟩ : Cur).load h 0 (c.len - st) = .ok ((x.drop st).map some) := by
  have hxl : x.length = c.len := by simpa using Cur.load_length hl
  by_cases hn0 : c.len - st = 0
  · have : x.drop st = [] := by
      apply List.drop_eq_nil_of_le; omega
    simp [Cur.load, hn0, this]
  · have hlen : c.len ≠ 0 := by omega
    unfold Cur.load at hl ⊢
    rw [if_neg hlen, if_pos (by omega)] at hl
    simp only
    rw [if_neg hn0, if_pos (by omega)]
    unfold loadN at hl ⊢
    rw [if_neg hlen] at hl
    rw [if_neg hn0]
    simp only [hr] at hl ⊢
    cases hreg : region? h r with
    | none => simp [hreg] at hl
    | some reg =>
      simp only [hreg] at hl ⊢
      split at hl
      · rename_i hfit
        rw [if_pos (by omega)]
        have heq : List.take c.len (List.drop (c.off + 0) reg) = x.map some := Except.ok.inj hl
        have := congrArg (List.drop st) heq
        rw [List.map_drop, ← this, List.drop_take, List.drop_drop]
        simp only [Nat.add_zero]
      · cases hl

theorem findByte_map_some (bs : List UInt8) (ch : UInt8) :
    findByte (bs.map some) ch = (if bs.findIdx (· == ch) < bs.length then some (bs.findIdx (· == ch)) else none) := by
  unfold findByte
  simp only [List.findIdx_map, List.length_map]
  have : ((fun c => cellVal c == ch) ∘ some) = (fun b : UInt8 => b == ch) := by
    funext b; simp [cellVal]
  rw [this]

/-- the tail of next_split on the view that starts at `st` yields the piece starting at `st` -/
theorem splitGo_piece {h : Heap} {input : Cur} {bytes : List UInt8} {ch : UInt8} {r st : Nat} (hr : input.rid = some r)
    (hl : input.load h 0 input.len = .ok (bytes.map some)) (hst : st ≤ input.len) :
    splitGo h ch ⟨some r, input.off + st, input.len - st⟩ =
      .ok (true, ⟨some r, input.off + st, nextPiece bytes ch st⟩) := by
  have hxl : bytes.length = input.len := by simpa using Cur.load_length hl
  unfold splitGo
  rw [Cur.load_sub hr hl hst]
  simp only [bind, Except.bind, findByte_map_some, nextPiece]
  by_cases hf : (bytes.drop st).findIdx (· == ch) < (bytes.drop st).length
  · rw [if_pos hf, if_pos hf]
  · rw [if_neg hf, if_neg hf, List.length_drop, hxl]

theorem input_eta {input : Cur} {r : Nat} (hr : input.rid = some r) :
    input = ⟨some r, input.off + 0, input.len - 0⟩ := by
  cases input; simp_all

/-- next_split from the zeroed cursor = the piece at 0 -/
theorem nextSplit_first {h : Heap} {input : Cur} {bytes : List UInt8} {ch : UInt8} {r : Nat} (hr : input.rid = some r)
    (hl : input.load h 0 input.len = .ok (bytes.map some)) :
    curNextSplit h input ch Cur.zero = .ok (true, ⟨some r, input.off + 0, nextPiece bytes ch 0⟩) := by
  unfold curNextSplit
  simp only [hr, Cur.zero, Option.isNone_none, if_true]
  have := splitGo_piece (ch := ch) (st := 0) hr hl (Nat.zero_le _)
  rw [← input_eta hr] at this
  exact this

/-- next_split from the piece `(s, l)`: finished if it ends the input, otherwise the piece at `s+l+1` -/
theorem nextSplit_next {h : Heap} {input : Cur} {bytes : List UInt8} {ch : UInt8} {r s l : Nat} (hr : input.rid = some r)
    (hl : input.load h 0 input.len = .ok (bytes.map some)) (hsl : s + l ≤ input.len) :
    curNextSplit h input ch ⟨some r, input.off + s, l⟩ =
      if s + l < input.len then .ok (true, ⟨some r, input.off + (s + l + 1), nextPiece bytes ch (s + l + 1)⟩)
      else .ok (false, Cur.zero) := by
  unfold curNextSplit
  simp only [hr, Option.isNone_some, Bool.false_eq_true, if_false, ne_eq, not_true_eq_false]
  by_cases hlt : s + l < input.len
  · have hp : ¬ (input.off + s + l + 1 > input.off + input.len ∨ input.off + s + l + 1 < input.off) := by omega
    rw [if_neg hp, if_pos hlt]
    have := splitGo_piece (ch := ch) (st := s + l + 1) hr hl (by omega)
    have e1 : input.off + s + l + 1 = input.off + (s + l + 1) := by omega
    have e2 : input.len - (input.off + (s + l + 1) - input.off) = input.len - (s + l + 1) := by omega
    rw [e1, e2]
    exact this
  · have hp : (input.off + s + l + 1 > input.off + input.len ∨ input.off + s + l + 1 < input.off) := by omega
    rw [if_pos hp, if_neg hlt]

/-- the cursor viewing piece `p = (offset, length)` of the input -/
def pieceCur (r off : Nat) (p : Nat × Nat) : Cur := ⟨some r, off + p.1, p.2⟩

theorem piecesFrom_length_pos (bytes : List UInt8) (ch : UInt8) (st : Nat) : 0 < (piecesFrom bytes ch st).length := by
  rw [piecesFrom]; split <;> simp

theorem splitLoop_pieces {h : Heap} {input : Cur} {bytes : List UInt8} {ch : UInt8} {r maxSplits k : Nat}
    (hr : input.rid = some r) (hl : input.load h 0 input.len = .ok (bytes.map some)) :
    ∀ (n st : Nat), input.len - st ≤ n → st ≤ input.len →
    ∀ (fuel count : Nat) (sub : Cur) (out : List Cur),
      input.len - st + 2 ≤ fuel →
      curNextSplit h input ch sub = .ok (true, pieceCur r input.off (st, nextPiece bytes ch st)) →
      count + (input.len - st) + 1 < maxSplits →
      out.length + (piecesFrom bytes ch st).length ≤ k →
      splitLoop h input ch maxSplits k fuel count sub out =
        .ok (none, out ++ (piecesFrom bytes ch st).map (pieceCur r input.off)) := by
  have hxl : bytes.length = input.len := by simpa using Cur.load_length hl
  intro n
  induction n with
  | zero =>
    intro st hn hst fuel count sub out hfuel hnext hcount hk
    -- st = len: a single (empty) piece
    have hst' : st = input.len := by omega
    obtain ⟨f, rfl⟩ : ∃ f, fuel = f + 1 := ⟨fuel - 1, by omega⟩
    obtain ⟨g, rfl⟩ : ∃ g, f = g + 1 := ⟨f - 1, by omega⟩
    have hle := nextPiece_le bytes ch st
    have hl0 : nextPiece bytes ch st = 0 := by rw [hxl] at hle; omega
    have hp : piecesFrom bytes ch st = [(st, nextPiece bytes ch st)] := by
      rw [piecesFrom, if_neg (by omega)]
    rw [hp] at hk ⊢
    simp only [splitLoop]
    rw [if_pos (by omega), hnext]
    simp only [bind, Except.bind, if_true]
    have hk1 : out.length < k := by simp at hk; omega
    have hc1 : ¬ count = maxSplits := by omega
    rw [if_pos hk1, if_neg hc1]
    rw [if_pos (by omega)]
    have hn2 : curNextSplit h input ch (pieceCur r input.off (st, nextPiece bytes ch st)) = .ok (false, Cur.zero) := by
      have := nextSplit_next (ch := ch) (s := st) (l := nextPiece bytes ch st) hr hl (by omega)
      rw [if_neg (by omega)] at this
      exact this
    rw [hn2]
    simp [bind, Except.bind]
  | succ n ih =>
    intro st hn hst fuel count sub out hfuel hnext hcount hk
    obtain ⟨f, rfl⟩ : ∃ f, fuel = f + 1 := ⟨fuel - 1, by omega⟩
    have hle := nextPiece_le bytes ch st
    rw [hxl, Nat.max_eq_right hst] at hle
    simp only [splitLoop]
    rw [if_pos (by omega), hnext]
    simp only [bind, Except.bind, if_true]
    have hpos := piecesFrom_length_pos bytes ch st
    have hk1 : out.length < k := by omega
    have hc1 : ¬ count = maxSplits := by omega
    rw [if_pos hk1, if_neg hc1]
    by_cases hlt : st + nextPiece bytes ch st < input.len
    · have hp : piecesFrom bytes ch st =
          (st, nextPiece bytes ch st) :: piecesFrom bytes ch (st + nextPiece bytes ch st + 1) := by
        rw [piecesFrom, if_pos (by omega)]
      have hn2 : curNextSplit h input ch (pieceCur r input.off (st, nextPiece bytes ch st)) =
          .ok (true, pieceCur r input.off (st + nextPiece bytes ch st + 1, nextPiece bytes ch (st + nextPiece bytes ch st + 1))) := by
        have := nextSplit_next (ch := ch) (s := st) (l := nextPiece bytes ch st) hr hl (by omega)
        rw [if_pos hlt] at this
        exact this
      rw [hp] at hk ⊢
      have hk2 : (out ++ [pieceCur r input.off (st, nextPiece bytes ch st)]).length +
          (piecesFrom bytes ch (st + nextPiece bytes ch st + 1)).length ≤ k := by
        simp at hk ⊢; omega
      rw [ih (st + nextPiece bytes ch st + 1) (by omega) (by omega) f (count + 1) _ _ (by omega) hn2 (by omega) hk2]
      simp [List.append_assoc]
    · obtain ⟨g, rfl⟩ : ∃ g, f = g + 1 := ⟨f - 1, by omega⟩
      have hp : piecesFrom bytes ch st = [(st, nextPiece bytes ch st)] := by
        rw [piecesFrom, if_neg (by omega)]
      rw [hp]
      simp only [splitLoop]
      rw [if_pos (by omega)]
      have hn2 : curNextSplit h input ch (pieceCur r input.off (st, nextPiece bytes ch st)) = .ok (false, Cur.zero) := by
        have := nextSplit_next (ch := ch) (s := st) (l := nextPiece bytes ch st) hr hl (by omega)
        rw [if_neg hlt] at this
        exact this
      rw [hn2]
      simp [bind, Except.bind]

/-- `aws_byte_cursor_split_on_char` (n = 0) into a list with room for all pieces -/
theorem curSplitOnChar_eq {h : Heap} {input : Cur} {bytes : List UInt8} {ch : UInt8} {r k : Nat}
    (hr : input.rid = some r) (hl : input.load h 0 input.len = .ok (bytes.map some))
    (hsmall : input.len + 2 < SIZE_MAX) (hk : (piecesFrom bytes ch 0).length ≤ k) :
    curSplitOnCharN h input ch 0 k = .ok (none, (piecesFrom bytes ch 0).map (pieceCur r input.off)) := by
  unfold curSplitOnCharN splitFuel
  rw [if_neg (by omega)]
  have := splitLoop_pieces (maxSplits := SIZE_MAX) (k := k) hr hl input.len 0 (by omega) (Nat.zero_le _)
    (input.len + 3) 0 Cur.zero [] (by omega) (nextSplit_first hr hl) (by omega) (by simpa using hk)
  simpa using this

/-! ### what `piecesFrom` is: the unique separator-free decomposition -/

/-- the bytes of piece `p = (offset, length)` -/
def pieceBytes (bytes : List UInt8) (p : Nat × Nat) : List UInt8 := (bytes.drop p.1).take p.2

/-- join with a single separator byte between consecutive parts -/
def joinWith (ch : UInt8) : List (List UInt8) → List UInt8
  | [] => []
  | [x] => x
  | x :: y :: rest => x ++ ch :: joinWith ch (y :: rest)

theorem joinWith_cons (ch : UInt8) (x : List UInt8) {l : List (List UInt8)} (hl : l ≠ []) :
    joinWith ch (x :: l) = x ++ ch :: joinWith ch l := by
  cases l with
  | nil => exact absurd rfl hl
  | cons y rest => rfl

/-- a piece contains no separator byte -/
theorem nextPiece_no_sep (bytes : List UInt8) (ch : UInt8) (st : Nat) :
    ch ∉ (bytes.drop st).take (nextPiece bytes ch st) := by
  intro hmem
  obtain ⟨j, hj, hjeq⟩ := List.mem_take_iff_getElem.mp hmem
  have hjlt : j < nextPiece bytes ch st := by omega
  have hjlen : j < (bytes.drop st).length := by omega
  unfold nextPiece at hjlt
  simp only at hjlt
  have hjidx : j < (bytes.drop st).findIdx (· == ch) := by
    split at hjlt
    · exact hjlt
    · have := List.findIdx_le_length (p := (· == ch)) (xs := bytes.drop st)
      omega
  have := List.not_of_lt_findIdx hjidx
  simp [hjeq] at this

/-- a piece that does not reach the end of the input is followed by the separator -/
theorem nextPiece_sep {bytes : List UInt8} {ch : UInt8} {st : Nat} (h : st + nextPiece bytes ch st < bytes.length) :
    bytes.drop st = (bytes.drop st).take (nextPiece bytes ch st) ++ ch :: bytes.drop (st + nextPiece bytes ch st + 1) := by
  have hlen : nextPiece bytes ch st < (bytes.drop st).length := by simp only [List.length_drop]; omega
  have hfound : (bytes.drop st).findIdx (· == ch) < (bytes.drop st).length := by
    unfold nextPiece at hlen
    simp only at hlen
    split at hlen
    · assumption
    · omega
  have hnp : nextPiece bytes ch st = (bytes.drop st).findIdx (· == ch) := by
    unfold nextPiece; simp only; rw [if_pos hfound]
  have hget : (bytes.drop st)[nextPiece bytes ch st]'hlen = ch := by
    have := List.findIdx_getElem (p := (· == ch)) (xs := bytes.drop st) (w := hfound)
    simp only [beq_iff_eq] at this
    simp only [hnp]
    exact this
  conv => lhs; rw [← List.take_append_drop (nextPiece bytes ch st) (bytes.drop st)]
  rw [List.drop_eq_getElem_cons hlen, hget, List.drop_drop, Nat.add_assoc]

/-- the pieces, joined with the separator, are the input from `st` on -/
theorem piecesFrom_join (bytes : List UInt8) (ch : UInt8) : ∀ (n st : Nat), bytes.length - st ≤ n → st ≤ bytes.length →
    joinWith ch ((piecesFrom bytes ch st).map (pieceBytes bytes)) = bytes.drop st := by
  intro n
  induction n with
  | zero =>
    intro st hn hst
    have hle := nextPiece_le bytes ch st
    rw [piecesFrom, if_neg (by omega)]
    simp only [List.map_cons, List.map_nil, joinWith, pieceBytes]
    have : bytes.drop st = [] := List.drop_eq_nil_of_le (by omega)
    simp [this]
  | succ n ih =>
    intro st hn hst
    have hle := nextPiece_le bytes ch st
    rw [Nat.max_eq_right hst] at hle
    by_cases hlt : st + nextPiece bytes ch st < bytes.length
    · rw [piecesFrom, if_pos hlt, List.map_cons,
        joinWith_cons ch _ (by
          intro e
          have := piecesFrom_length_pos bytes ch (st + nextPiece bytes ch st + 1)
          rw [List.map_eq_nil_iff] at e
          rw [e] at this; simp at this),
        ih (st + nextPiece bytes ch st + 1) (by omega) (by omega)]
      simp only [pieceBytes]
      exact (nextPiece_sep hlt).symm
    · rw [piecesFrom, if_neg hlt]
      simp only [List.map_cons, List.map_nil, joinWith, pieceBytes]
      have : nextPiece bytes ch st = (bytes.drop st).length := by simp only [List.length_drop]; omega
      rw [this, List.take_length]

/-- every piece lies inside the input and contains no separator -/
theorem piecesFrom_mem (bytes : List UInt8) (ch : UInt8) : ∀ (n st : Nat), bytes.length - st ≤ n → st ≤ bytes.length →
    ∀ p ∈ piecesFrom bytes ch st, st ≤ p.1 ∧ p.1 + p.2 ≤ bytes.length ∧ ch ∉ pieceBytes bytes p := by
  intro n
  induction n with
  | zero =>
    intro st hn hst p hp
    have hle := nextPiece_le bytes ch st
    rw [Nat.max_eq_right hst] at hle
    rw [piecesFrom, if_neg (by omega)] at hp
    simp at hp; subst hp
    exact ⟨Nat.le_refl _, hle, nextPiece_no_sep bytes ch st⟩
  | succ n ih =>
    intro st hn hst p hp
    have hle := nextPiece_le bytes ch st
    rw [Nat.max_eq_right hst] at hle
    by_cases hlt : st + nextPiece bytes ch st < bytes.length
    · rw [piecesFrom, if_pos hlt] at hp
      rcases List.mem_cons.mp hp with rfl | hp
      · exact ⟨Nat.le_refl _, hle, nextPiece_no_sep bytes ch st⟩
      · obtain ⟨a, b, c⟩ := ih (st + nextPiece bytes ch st + 1) (by omega) (by omega) p hp
        exact ⟨by omega, b, c⟩
    · rw [piecesFrom, if_neg hlt] at hp
      simp at hp; subst hp
      exact ⟨Nat.le_refl _, hle, nextPiece_no_sep bytes ch st⟩

/-! ### split_on_char_n with n > 0 -/

/-- what the loop produces with `b` ordinary splits left: after them one view of everything that remains -/
def resultN (bytes : List UInt8) (ch : UInt8) : Nat → Nat → List (Nat × Nat)
  | 0, st => [(st, bytes.length - st)]
  | b + 1, st =>
    if st + nextPiece bytes ch st < bytes.length then
      (st, nextPiece bytes ch st) :: resultN bytes ch b (st + nextPiece bytes ch st + 1)
    else [(st, nextPiece bytes ch st)]

theorem resultN_length_pos (bytes : List UInt8) (ch : UInt8) (b st : Nat) : 0 < (resultN bytes ch b st).length := by
  cases b with
  | zero => simp [resultN]
  | succ b => simp only [resultN]; split <;> simp

theorem subW_add_left {a b : Nat} (hb : b < W) : subW (a + b) a = b := by
  unfold subW
  have : a + b + W - a = b + W := by omega
  rw [this, Nat.add_mod_right, Nat.mod_eq_of_lt hb]

theorem splitLoop_resultN {h : Heap} {input : Cur} {bytes : List UInt8} {ch : UInt8} {r n k : Nat}
    (hr : input.rid = some r) (hl : input.load h 0 input.len = .ok (bytes.map some)) (hmax : input.len ≤ SIZE_MAX) :
    ∀ (b st : Nat), st ≤ input.len →
    ∀ (fuel count : Nat) (sub : Cur) (out : List Cur),
      count + b = n →
      input.len - st + 2 ≤ fuel →
      curNextSplit h input ch sub = .ok (true, pieceCur r input.off (st, nextPiece bytes ch st)) →
      out.length + (resultN bytes ch b st).length ≤ k →
      splitLoop h input ch n k fuel count sub out =
        .ok (none, out ++ (resultN bytes ch b st).map (pieceCur r input.off)) := by
  have hxl : bytes.length = input.len := by simpa using Cur.load_length hl
  have hW := W_eq
  intro b
  induction b with
  | zero =>
    intro st hst fuel count sub out hcb hfuel hnext hk
    obtain ⟨f, rfl⟩ : ∃ f, fuel = f + 1 := ⟨fuel - 1, by omega⟩
    have hcn : count = n := by omega
    simp only [resultN] at hk ⊢
    simp only [splitLoop]
    rw [if_pos (by omega), hnext]
    simp only [bind, Except.bind, if_true]
    have hk1 : out.length < k := by simp at hk; omega
    rw [if_pos hk1, if_pos hcn]
    have hrest : ({ pieceCur r input.off (st, nextPiece bytes ch st) with
          len := subW input.len (subW (pieceCur r input.off (st, nextPiece bytes ch st)).off input.off) } : Cur) =
        pieceCur r input.off (st, bytes.length - st) := by
      simp only [pieceCur]
      rw [subW_add_left (by omega), subW_eq hst hmax, hxl]
    rw [hrest]
    cases f with
    | zero => simp [splitLoop]
    | succ g =>
      simp only [splitLoop]
      rw [if_neg (by omega)]
      simp
  | succ b ih =>
    intro st hst fuel count sub out hcb hfuel hnext hk
    obtain ⟨f, rfl⟩ : ∃ f, fuel = f + 1 := ⟨fuel - 1, by omega⟩
    have hle := nextPiece_le bytes ch st
    rw [hxl, Nat.max_eq_right hst] at hle
    simp only [splitLoop]
    rw [if_pos (by omega), hnext]
    simp only [bind, Except.bind, if_true]
    have hpos := resultN_length_pos bytes ch (b + 1) st
    have hk1 : out.length < k := by omega
    have hc1 : ¬ count = n := by omega
    rw [if_pos hk1, if_neg hc1]
    by_cases hlt : st + nextPiece bytes ch st < input.len
    · have hp : resultN bytes ch (b + 1) st =
          (st, nextPiece bytes ch st) :: resultN bytes ch b (st + nextPiece bytes ch st + 1) := by
        simp only [resultN]; rw [if_pos (by omega)]
      have hn2 : curNextSplit h input ch (pieceCur r input.off (st, nextPiece bytes ch st)) =
          .ok (true, pieceCur r input.off (st + nextPiece bytes ch st + 1, nextPiece bytes ch (st + nextPiece bytes ch st + 1))) := by
        have := nextSplit_next (ch := ch) (s := st) (l := nextPiece bytes ch st) hr hl (by omega)
        rw [if_pos hlt] at this
        exact this
      rw [hp] at hk ⊢
      have hk2 : (out ++ [pieceCur r input.off (st, nextPiece bytes ch st)]).length +
          (resultN bytes ch b (st + nextPiece bytes ch st + 1)).length ≤ k := by
        simp at hk ⊢; omega
      rw [ih (st + nextPiece bytes ch st + 1) (by omega) f (count + 1) _ _ (by omega) (by omega) hn2 hk2]
      simp [List.append_assoc]
    · obtain ⟨g, rfl⟩ : ∃ g, f = g + 1 := ⟨f - 1, by omega⟩
      have hp : resultN bytes ch (b + 1) st = [(st, nextPiece bytes ch st)] := by
        simp only [resultN]; rw [if_neg (by omega)]
      rw [hp]
      simp only [splitLoop]
      rw [if_pos (by omega)]
      have hn2 : curNextSplit h input ch (pieceCur r input.off (st, nextPiece bytes ch st)) = .ok (false, Cur.zero) := by
        have := nextSplit_next (ch := ch) (s := st) (l := nextPiece bytes ch st) hr hl (by omega)
        rw [if_neg hlt] at this
        exact this
      rw [hn2]
      simp [bind, Except.bind]

theorem piecesFrom_head (bytes : List UInt8) (ch : UInt8) (st : Nat) :
    (piecesFrom bytes ch st)[0]? = some (st, nextPiece bytes ch st) := by
  rw [piecesFrom]; split <;> simp

/-- `resultN` in terms of the pieces: all of them if there are at most `b`, otherwise the first `b` and the
view from the start of piece `b` to the end -/
theorem resultN_pieces (bytes : List UInt8) (ch : UInt8) : ∀ (b st : Nat),
    ((piecesFrom bytes ch st).length ≤ b → resultN bytes ch b st = piecesFrom bytes ch st) ∧
    (b < (piecesFrom bytes ch st).length → ∃ s l, (piecesFrom bytes ch st)[b]? = some (s, l) ∧
      resultN bytes ch b st = (piecesFrom bytes ch st).take b ++ [(s, bytes.length - s)]) := by
  intro b
  induction b with
  | zero =>
    intro st
    refine ⟨fun hle => ?_, fun _ => ⟨st, nextPiece bytes ch st, piecesFrom_head bytes ch st, by simp [resultN]⟩⟩
    have := piecesFrom_length_pos bytes ch st
    omega
  | succ b ih =>
    intro st
    by_cases hlt : st + nextPiece bytes ch st < bytes.length
    · have hp : piecesFrom bytes ch st =
          (st, nextPiece bytes ch st) :: piecesFrom bytes ch (st + nextPiece bytes ch st + 1) := by
        rw [piecesFrom, if_pos hlt]
      have hres : resultN bytes ch (b + 1) st =
          (st, nextPiece bytes ch st) :: resultN bytes ch b (st + nextPiece bytes ch st + 1) := by
        simp only [resultN]; rw [if_pos hlt]
      obtain ⟨i1, i2⟩ := ih (st + nextPiece bytes ch st + 1)
      rw [hp, hres]
      constructor
      · intro hle
        rw [i1 (by simp at hle; omega)]
      · intro hb
        obtain ⟨s, l, hget, heq⟩ := i2 (by simp at hb; omega)
        exact ⟨s, l, by simpa using hget, by rw [heq]; simp⟩
    · have hp : piecesFrom bytes ch st = [(st, nextPiece bytes ch st)] := by
        rw [piecesFrom, if_neg hlt]
      have hres : resultN bytes ch (b + 1) st = [(st, nextPiece bytes ch st)] := by
        simp only [resultN]; rw [if_neg hlt]
      rw [hp, hres]
      exact ⟨fun _ => rfl, fun hb => by simp at hb⟩

/-- `aws_byte_cursor_split_on_char_n` with `n > 0` -/
theorem curSplitOnCharN_eq {h : Heap} {input : Cur} {bytes : List UInt8} {ch : UInt8} {r n k : Nat}
    (hr : input.rid = some r) (hl : input.load h 0 input.len = .ok (bytes.map some)) (hn : 0 < n)
    (hmax : input.len ≤ SIZE_MAX) (hk : (resultN bytes ch n 0).length ≤ k) :
    curSplitOnCharN h input ch n k = .ok (none, (resultN bytes ch n 0).map (pieceCur r input.off)) := by
  unfold curSplitOnCharN splitFuel
  rw [if_pos hn]
  have := splitLoop_resultN (n := n) (k := k) hr hl hmax n 0 (Nat.zero_le _)
    (input.len + 3) 0 Cur.zero [] (by omega) (by omega) (nextSplit_first hr hl) (by simpa using hk)
  simpa using this

end AwsVerif.Proofs.C01
