import AwsVerif.Proofs.C01.Alloc
/-! C01 helper layer 3c: growth (`s_aws_byte_buf_append_dynamic`, `aws_byte_buf_reserve*`). -/
namespace AwsVerif.Proofs.C01
open AwsVerif.ByteBuf

theorem Buf.load_cells {h : Heap} {b : Buf} {n : Nat} {cells : List Cell} (e : b.load h 0 n = .ok cells) :
    cells = (regionCells h b.rid).take n := by
  unfold Buf.load at e
  split at e
  · cases e; simp_all
  · split at e
    · cases hr : b.rid with
      | none =>
        rename_i hn _
        simp [hr, loadN, hn] at e
      | some r =>
        rw [hr] at e
        unfold loadN at e
        split at e
        · omega
        · cases hreg : region? h r with
          | none => simp [hreg] at e
          | some reg =>
            simp only [hreg] at e
            split at e
            · cases e; simp [regionCells, hreg]
            · cases e
    · cases e

/-- `copyInto` always amounts to one store of `k` cells -/
theorem copyInto_spec {h h' : Heap} {nb : Buf} {off k : Nat} {ld : Except Fault (List Cell)}
    (eq : copyInto h nb off k ld = .ok h') (hld : ∀ c, ld = .ok c → c.length = k) :
    ∃ c, c.length = k ∧ (k > 0 → ld = .ok c) ∧ nb.store h off c = .ok h' := by
  unfold copyInto at eq
  split at eq
  · obtain ⟨c, hl, hst⟩ := bind_ok eq
    exact ⟨c, hld c hl, fun _ => hl, hst⟩
  · cases eq
    exact ⟨[], by simp; omega, fun hk => by omega, by simp [Buf.store]⟩

theorem copyInto_not_oob {h : Heap} {nb : Buf} {off k : Nat} {ld : Except Fault (List Cell)}
    (hl : ld ≠ .error .oob) (hst : ∀ c, ld = .ok c → nb.store h off c ≠ .error .oob) :
    copyInto h nb off k ld ≠ .error .oob := by
  unfold copyInto
  split
  · exact bind_not_oob hl hst
  · simp [pure, Except.pure]

/-- contents of a fresh block after the two copies of the growth path -/
theorem two_copies {R0 R1 R2 old cells : List Cell} {k cap : Nat} (h0 : R0.length = cap) (hold : old.length = k)
    (hfit : k + cells.length ≤ cap)
    (h1 : R1 = if old.length = 0 then R0 else splice R0 0 old)
    (h2 : R2 = if cells.length = 0 then R1 else splice R1 k cells) : R2.take k = old ∧ R2.length = cap := by
  have hR1 : R1.length = cap := by
    rw [h1]; split
    · exact h0
    · rw [length_splice (by omega)]; exact h0
  have hR1t : R1.take k = old := by
    rw [h1]; split
    · rename_i hz
      have : k = 0 := by omega
      subst this
      simp [List.length_eq_zero_iff.mp hz]
    · simp [splice, ← hold]
  rw [h2]; split
  · exact ⟨hR1t, hR1⟩
  · rw [take_splice (Nat.le_refl _) (by omega), length_splice (by omega)]
    exact ⟨hR1t, hR1⟩

theorem releaseOpt_spec {m m' : Mem} {rid : Option Nat} {sec : Bool} {cap : Nat} (eq : releaseOpt m rid sec = .ok m')
    (hz : sec = true → ∀ r, rid = some r → ∀ c ∈ regionCells m.heap (some r), c = some 0)
    (hlen : ∀ r, rid = some r → regLen m.heap r = some cap) :
    Frame m.heap m'.heap rid ∧ EvStep m.events m'.events ∧ RelInfo m.events m'.events rid cap sec := by
  unfold releaseOpt at eq
  split at eq
  · cases eq; exact ⟨Frame.refl _ _, EvStep.refl _, Or.inl rfl⟩
  · rename_i r0
    obtain ⟨reg, hrg, hev, _, f, _⟩ := release_spec eq
    have hl : reg.length = cap := by
      have := hlen r0 rfl
      simp [regLen, hrg] at this
      exact this
    refine ⟨f, ⟨[⟨r0, reg, sec⟩], hev, ?_⟩, Or.inr ⟨r0, reg, rfl, hev, hl⟩⟩
    intro ev hev' hs
    simp at hev'; subst hev'
    have := hz hs r0 rfl
    simpa [regionCells, hrg] using this

theorem releaseOpt_not_oob {m : Mem} {rid : Option Nat} {sec : Bool} : releaseOpt m rid sec ≠ .error .oob := by
  unfold releaseOpt
  split
  · simp [pure, Except.pure]
  · exact release_not_oob _ _ _

/-! ### growth path of s_aws_byte_buf_append_dynamic -/
theorem growAppend_spec {m m' : Mem} {to to' : Buf} {fr : Src} {secure : Bool} {newCap : Nat}
    (hb : BufOk m.heap to) (hfit : to.len + fr.len ≤ newCap) (hcap : newCap ≤ SIZE_MAX) (hpos : 0 < newCap)
    (eq : growAppend m to fr secure newCap = .ok (m', to')) :
    BufStep m.heap m'.heap to to' ∧ to'.len = to.len + fr.len ∧ to'.cap = newCap ∧
    (regionCells m'.heap to'.rid).take to.len = (regionCells m.heap to.rid).take to.len ∧
    EvStep m.events m'.events ∧ RelInfo m.events m'.events to.rid to.cap secure := by
  unfold growAppend at eq
  obtain ⟨hr, hev, hlen1, hreg1, f01⟩ := alloc_spec m newCap
  simp only at eq
  obtain ⟨h2, hc1, eq⟩ := bind_ok eq
  obtain ⟨h3, hc2, eq⟩ := bind_ok eq
  obtain ⟨h4, hz, eq⟩ := bind_ok eq
  obtain ⟨m5, hrel, eq⟩ := bind_ok eq
  cases eq
  rw [hr] at hc1 hc2
  obtain ⟨old, holdlen, hold, hst1⟩ := copyInto_spec hc1 (fun c hc => Buf.load_length hc)
  obtain ⟨cells, hclen, _, hst2⟩ := copyInto_spec hc2 (fun c hc => Src.load_length hc)
  obtain ⟨f12, hl2, hreg2⟩ := Buf.store_frame hst1
  obtain ⟨f23, hl3, hreg3⟩ := Buf.store_frame hst2
  have fresh : ∃ r, (some m.heap.length : Option Nat) = some r ∧ m.heap.length ≤ r := ⟨_, rfl, Nat.le_refl _⟩
  have f03 : Frame m.heap h3 none := (f01.trans f12 (Or.inr (Or.inr fresh))).trans f23 (Or.inr (Or.inr fresh))
  have hb3 : BufOk h3 to := hb.frame f03 (by simp)
  have hlen3 : h3.length = m.heap.length + 1 := by rw [hl3, hl2, hlen1]
  -- contents of the new block
  have hcells3 : ∃ R2, regionCells h3 (some m.heap.length) = R2 ∧ R2.take to.len = old ∧ R2.length = newCap := by
    have e2 := Buf.store_cells hst2
    have e1 := Buf.store_cells hst1
    simp only at e1 e2
    refine ⟨_, e2, ?_⟩
    exact two_copies (R0 := List.replicate newCap none) (by simp) holdlen (by omega)
      (by rw [e1]; simp [regionCells, hreg1]) rfl
  obtain ⟨R2, hR2, hR2t, hR2l⟩ := hcells3
  have holdeq : old = (regionCells m.heap to.rid).take to.len := by
    by_cases hk : to.len > 0
    · rw [Buf.load_cells (hold hk), regionCells_frame hb f01 (by simp)]
    · have : to.len = 0 := by omega
      rw [this] at holdlen ⊢
      simp [List.length_eq_zero_iff.mp holdlen]
  have hreglen3 : regLen h3 m.heap.length = some newCap := by
    rw [hreg3, hreg2]; simp [regLen, hreg1]
  -- zeroing the old block
  have hz' : Frame h3 h4 to.rid ∧ (∀ x, regLen h4 x = regLen h3 x) ∧ h4.length = h3.length ∧
      (secure = true → ∀ r, to.rid = some r → region? h4 r = some (List.replicate to.cap (some 0))) := by
    unfold secureZeroIf at hz
    split at hz
    · obtain ⟨a, b, c⟩ := secureZeroMem_spec hb3 hz
      refine ⟨a, b, ?_, fun _ => c⟩
      unfold secureZeroMem at hz
      split at hz
      · cases hz; rfl
      · exact (storeN_frame hz).2.1
    · rename_i hsec
      cases hz
      exact ⟨Frame.refl _ _, fun _ => rfl, rfl, fun hs => absurd hs hsec⟩
  obtain ⟨f34, hreg4, hlen4, hzero⟩ := hz'
  -- releasing it
  obtain ⟨f45, hevs, hrelinfo⟩ := releaseOpt_spec (cap := to.cap) hrel (by
    intro hs r hr c hc
    have := hzero hs r hr
    simp only [regionCells, this] at hc
    exact zeros_all _ c hc) (by
    intro r hr
    have h2 := hb3.2.2
    simp [hr] at h2
    simp only
    rw [hreg4]; exact h2.2)
  simp only at f45 hevs hrelinfo
  rw [hev] at hevs hrelinfo
  have hnew_ne : (some m.heap.length : Option Nat) ≠ to.rid := by
    intro e
    have := hb.rid_lt e.symm
    omega
  have f05 : Frame m.heap m'.heap to.rid :=
    ((f03.weaken (own := to.rid)).trans f34 (Or.inl rfl)).trans f45 (Or.inl rfl)
  have hreg5 : region? m'.heap m.heap.length = region? h3 m.heap.length := by
    rw [f45.other _ (by omega) hnew_ne, f34.other _ (by omega) hnew_ne]
  have hadd : addW to.len fr.len = to.len + fr.len := addW_eq (by omega)
  refine ⟨⟨f05, ?_, Or.inr (Or.inr ⟨_, rfl, Nat.le_refl _⟩)⟩, hadd, rfl, ?_, hevs, hrelinfo⟩
  · refine ⟨by simp only; omega, hcap, ?_⟩
    simp only
    refine ⟨hpos, ?_⟩
    unfold regLen at hreglen3 ⊢
    rw [hr, hreg5]; exact hreglen3
  · simp only [regionCells] at hR2 ⊢
    rw [hr, hreg5, hR2, hR2t, holdeq]
    simp only [regionCells]

theorem growAppend_not_oob {m : Mem} {to : Buf} {fr : Src} {secure : Bool} {newCap : Nat}
    (hb : BufOk m.heap to) (hs : SrcOk m.heap fr) (hfit : to.len + fr.len ≤ newCap) :
    growAppend m to fr secure newCap ≠ .error .oob := by
  unfold growAppend
  obtain ⟨hr, hev, hlen1, hreg1, f01⟩ := alloc_spec m newCap
  simp only
  have hb1 : BufOk (m.alloc newCap).1.heap to := hb.frame f01 (by simp)
  have hnb : ∀ l, RegOk (m.alloc newCap).1.heap ⟨some (m.alloc newCap).2, l, newCap, true⟩ := by
    intro l; simp [RegOk, regLen, hr, hreg1]
  apply bind_not_oob
  · apply copyInto_not_oob (Buf.load_not_oob hb1.regOk (by have := hb.1; omega))
    intro c hc
    exact Buf.store_not_oob (hnb _) (by simp [Buf.load_length hc]; omega)
  intro h2 hc1
  obtain ⟨old, holdlen, hold, hst1⟩ := copyInto_spec hc1 (fun c hc => Buf.load_length hc)
  obtain ⟨f12, hl2, hreg2⟩ := Buf.store_frame hst1
  have fresh : ∃ r, (some m.heap.length : Option Nat) = some r ∧ m.heap.length ≤ r := ⟨_, rfl, Nat.le_refl _⟩
  rw [hr] at f12
  have f02 : Frame m.heap h2 none := f01.trans f12 (Or.inr (Or.inr fresh))
  have hnb2 : ∀ l, RegOk h2 ⟨some (m.alloc newCap).2, l, newCap, true⟩ := by
    intro l; simp only [RegOk]; rw [hreg2]; simp [regLen, hr, hreg1]
  apply bind_not_oob
  · apply copyInto_not_oob (Src.load_not_oob (hs.frame f02) (by omega))
    intro c hc
    exact Buf.store_not_oob (hnb2 _) (by simp [Src.load_length hc]; omega)
  intro h3 hc2
  obtain ⟨cells, hclen, _, hst2⟩ := copyInto_spec hc2 (fun c hc => Src.load_length hc)
  obtain ⟨f23, hl3, hreg3⟩ := Buf.store_frame hst2
  rw [hr] at f23
  have f03 : Frame m.heap h3 none := f02.trans f23 (Or.inr (Or.inr fresh))
  have hb3 : BufOk h3 to := hb.frame f03 (by simp)
  apply bind_not_oob
  · unfold secureZeroIf
    split
    · exact secureZeroMem_not_oob hb3
    · simp [pure, Except.pure]
  intro h4 _
  apply bind_not_oob releaseOpt_not_oob
  intro _ _; simp

/-! ### s_aws_byte_buf_append_dynamic -/
theorem bufAppendDynamic_spec {m m' : Mem} {to to' : Buf} {fr : Src} {secure : Bool} {e : Option Err}
    (hb : BufOk m.heap to) (hs : fr.len ≤ SIZE_MAX) (eq : bufAppendDynamic m to fr secure = .ok (e, m', to')) :
    BufStep m.heap m'.heap to to' ∧ (e.isSome → m' = m ∧ to' = to) ∧
    (e = none → to'.len = to.len + fr.len ∧
      (regionCells m'.heap to'.rid).take to.len = (regionCells m.heap to.rid).take to.len) ∧
    EvStep m.events m'.events ∧ RelInfo m.events m'.events to.rid to.cap secure := by
  have hsub := subW_eq hb.1 hb.2.1
  have hlc := hb.1
  have hcm := hb.2.1
  unfold bufAppendDynamic at eq
  rw [hsub] at eq
  split at eq
  · cases eq; exact ⟨BufStep.same hb, fun _ => ⟨rfl, rfl⟩, (fun e => by cases e), EvStep.refl _, Or.inl rfl⟩
  · split at eq
    · -- growth
      rename_i hown hgrow
      have hmiss : subW fr.len (to.cap - to.len) = fr.len - (to.cap - to.len) := subW_eq (by omega) hs
      rw [hmiss] at eq
      cases hreq : addChecked to.cap (fr.len - (to.cap - to.len)) with
      | none =>
        simp only [hreq] at eq
        cases eq; exact ⟨BufStep.same hb, fun _ => ⟨rfl, rfl⟩, (fun e => by cases e), EvStep.refl _, Or.inl rfl⟩
      | some required =>
        simp only [hreq] at eq
        obtain ⟨hreq1, hreq2⟩ := addChecked_some hreq
        obtain ⟨⟨m5, nb⟩, hg, eq⟩ := bind_ok eq
        cases eq
        have hnc1 : required ≤ (if required < addSat to.cap to.cap then addSat to.cap to.cap else required) := by
          split <;> omega
        have hnc2 : (if required < addSat to.cap to.cap then addSat to.cap to.cap else required) ≤ SIZE_MAX := by
          split
          · exact addSat_le _ _
          · omega
        obtain ⟨s1, s2, _, s4, s5, s6⟩ := growAppend_spec hb (by omega) hnc2 (by omega) hg
        exact ⟨s1, (fun e => by cases e), fun _ => ⟨s2, s4⟩, s5, s6⟩
    · rename_i hown hfit
      obtain ⟨h2, hc, eq⟩ := bind_ok eq
      cases eq
      obtain ⟨cells, hclen, _, hst⟩ := copyInto_spec hc (fun c hc => Src.load_length hc)
      obtain ⟨hf, _, hreg⟩ := Buf.store_frame hst
      have hadd : addW to.len fr.len = to.len + fr.len := addW_eq (by omega)
      refine ⟨⟨hf, ?_, Or.inl rfl⟩, (fun e => by cases e), fun _ => ⟨hadd, ?_⟩, EvStep.refl _, Or.inl rfl⟩
      · have := (hb.of_regLen hreg).setLen (l := to.len + fr.len) (by omega)
        rw [hadd]; exact this
      · exact store_prefix (b := to) hb.regOk hst (Nat.le_refl _) (by omega)

theorem bufAppendDynamic_not_oob {m : Mem} {to : Buf} {fr : Src} {secure : Bool}
    (hb : BufOk m.heap to) (hs : SrcOk m.heap fr) : bufAppendDynamic m to fr secure ≠ .error .oob := by
  have hsub := subW_eq hb.1 hb.2.1
  have hlc := hb.1
  have hcm := hb.2.1
  have hsl := hs.len_le
  unfold bufAppendDynamic
  rw [hsub]
  split
  · simp
  · split
    · rename_i hown hgrow
      have hmiss : subW fr.len (to.cap - to.len) = fr.len - (to.cap - to.len) := subW_eq (by omega) hsl
      rw [hmiss]
      cases hreq : addChecked to.cap (fr.len - (to.cap - to.len)) with
      | none => simp [hreq]
      | some required =>
        simp only [hreq]
        obtain ⟨hreq1, hreq2⟩ := addChecked_some hreq
        have hnc1 : required ≤ (if required < addSat to.cap to.cap then addSat to.cap to.cap else required) := by
          split <;> omega
        apply bind_not_oob (growAppend_not_oob hb hs (by omega))
        intro _ _; simp
    · rename_i hown hfit
      apply bind_not_oob
      · apply copyInto_not_oob (Src.load_not_oob hs (by omega))
        intro c hc
        exact Buf.store_not_oob hb.regOk (by rw [Src.load_length hc]; omega)
      · intro _ _; simp


/-! ### reserve family -/
theorem growReserve_spec {m m' : Mem} {b b' : Buf} {r0 req : Nat} (hb : BufOk m.heap b) (hr0 : b.rid = some r0)
    (hreq : b.cap < req) (hmax : req ≤ SIZE_MAX) (eq : growReserve m b r0 req = .ok (m', b')) :
    BufStep m.heap m'.heap b b' ∧ b'.len = b.len ∧ b'.cap = req ∧ b'.owned = true ∧
    (regionCells m'.heap b'.rid).take b.len = (regionCells m.heap b.rid).take b.len ∧
    EvStep m.events m'.events := by
  unfold growReserve at eq
  obtain ⟨hr, hev, hlen1, hreg1, f01⟩ := alloc_spec m req
  simp only at eq
  obtain ⟨old, hl, eq⟩ := bind_ok eq
  obtain ⟨h2, hst, eq⟩ := bind_ok eq
  obtain ⟨m3, hrel, eq⟩ := bind_ok eq
  cases eq
  rw [hr] at hst
  have holdlen := Buf.load_length hl
  obtain ⟨f12, hl2, hreg2⟩ := Buf.store_frame hst
  have fresh : ∃ r, (some m.heap.length : Option Nat) = some r ∧ m.heap.length ≤ r := ⟨_, rfl, Nat.le_refl _⟩
  have f02 : Frame m.heap h2 none := f01.trans f12 (Or.inr (Or.inr fresh))
  obtain ⟨reg, hrg, hev3, _, f23, _⟩ := release_spec hrel
  simp only at hrg hev3 f23
  have hnew_ne : (some m.heap.length : Option Nat) ≠ some r0 := by
    intro e
    have := hb.rid_lt hr0
    cases e; omega
  have f03 : Frame m.heap m'.heap b.rid := by
    rw [hr0]; exact (f02.weaken (own := some r0)).trans f23 (Or.inl rfl)
  have hreg3 : region? m'.heap m.heap.length = region? h2 m.heap.length :=
    f23.other _ (by rw [hl2, hlen1]; omega) hnew_ne
  have hcells2 := Buf.store_cells hst
  simp only at hcells2
  have holdeq : old = (regionCells m.heap b.rid).take b.cap := by
    rw [Buf.load_cells hl, regionCells_frame hb f01 (by simp)]
  have hlc := hb.1
  refine ⟨⟨f03, ?_, Or.inr (Or.inr ⟨_, rfl, Nat.le_refl _⟩)⟩, rfl, rfl, rfl, ?_, ⟨[⟨r0, reg, false⟩], by rw [hev3, hev], ?_⟩⟩
  · refine ⟨by simp only; omega, hmax, ?_⟩
    simp only
    refine ⟨by omega, ?_⟩
    unfold regLen
    rw [hr, hreg3]
    have := hreg2 m.heap.length
    unfold regLen at this
    rw [this]; simp [hreg1]
  · simp only [regionCells] at hcells2 ⊢
    rw [hr, hreg3, hcells2]
    split
    · rename_i hz
      have : b.len = 0 := by omega
      simp [this]
    · simp only [hreg1, Option.getD_some]
      have hk : b.len ≤ old.length := by omega
      have : (splice (List.replicate req none) 0 old).take b.len = old.take b.len := by
        simp [splice, List.take_append_of_le_length hk]
      rw [this, holdeq, List.take_take, Nat.min_eq_left hlc]
      simp only [regionCells]
  · intro e he hs
    simp at he; subst he; cases hs


theorem growReserve_not_oob {m : Mem} {b : Buf} {r0 req : Nat} (hb : BufOk m.heap b) (hreq : b.cap < req) :
    growReserve m b r0 req ≠ .error .oob := by
  unfold growReserve
  obtain ⟨hr, hev, hlen1, hreg1, f01⟩ := alloc_spec m req
  simp only
  have hb1 : BufOk (m.alloc req).1.heap b := hb.frame f01 (by simp)
  apply bind_not_oob (Buf.load_not_oob hb1.regOk (by omega))
  intro old hl
  apply bind_not_oob
  · apply Buf.store_not_oob
    · simp [RegOk, regLen, hr, hreg1]
    · simp [Buf.load_length hl]; omega
  intro _ _
  apply bind_not_oob (release_not_oob _ _ _)
  intro _ _; simp

/-- the common shape of the four reserve functions -/
def ReserveSpec (m m' : Mem) (b b' : Buf) (e : Option Err) : Prop :=
  BufStep m.heap m'.heap b b' ∧ (e.isSome → m' = m ∧ b' = b) ∧
  (e = none → b'.len = b.len ∧ b.cap ≤ b'.cap ∧
    (regionCells m'.heap b'.rid).take b.len = (regionCells m.heap b.rid).take b.len) ∧
  EvStep m.events m'.events

theorem isValid_rid_none {b : Buf} (hv : b.isValid = true) (hr : b.rid = none) : b.cap = 0 := by
  simp [Buf.isValid, hr] at hv
  exact hv.1

theorem bufReserve_spec {m m' : Mem} {b b' : Buf} {req : Nat} {e : Option Err} (hb : BufOk m.heap b)
    (hmax : req ≤ SIZE_MAX) (eq : bufReserve m b req = .ok (e, m', b')) :
    ReserveSpec m m' b b' e ∧ (e = none → req ≤ b'.cap) := by
  unfold bufReserve at eq
  have same : ReserveSpec m m b b (some .invalidArgument) :=
    ⟨BufStep.same hb, fun _ => ⟨rfl, rfl⟩, (fun e => by cases e), EvStep.refl _⟩
  split at eq
  · cases eq; exact ⟨same, (fun e => by cases e)⟩
  · split at eq
    · cases eq; exact ⟨same, (fun e => by cases e)⟩
    · split at eq
      · rename_i hle
        cases eq
        exact ⟨⟨BufStep.same hb, (fun e => by cases e), fun _ => ⟨rfl, Nat.le_refl _, rfl⟩, EvStep.refl _⟩, fun _ => hle⟩
      · rename_i hgt
        cases hr : b.rid with
        | none =>
          simp only [hr] at eq
          split at eq
          · rename_i hc0
            cases eq
            obtain ⟨s1, s2, s3, _⟩ := bufInit_spec (m := m) b hmax
            have hlen : b.len = 0 := by have := hb.1; omega
            refine ⟨⟨s1, (fun e => by cases e), fun _ => ⟨by rw [s3, hlen], ?_, by simp [hlen]⟩, by rw [s2]; exact EvStep.refl _⟩, fun _ => ?_⟩
            · rw [hc0]; exact Nat.zero_le _
            · unfold bufInit; split
              · omega
              · exact Nat.le_refl _
          · cases eq
        | some r0 =>
          simp only [hr] at eq
          obtain ⟨⟨m3, nb⟩, hg, eq⟩ := bind_ok eq
          cases eq
          obtain ⟨s1, s2, s3, _, s5, s6⟩ := growReserve_spec hb hr (by omega) hmax hg
          simp only at s1 s2 s3 s5 s6 ⊢
          exact ⟨⟨s1, (fun e => by cases e), fun _ => ⟨s2, by omega, s5⟩, s6⟩, fun _ => by omega⟩

theorem bufReserve_not_oob {m : Mem} {b : Buf} {req : Nat} (hb : BufOk m.heap b) : bufReserve m b req ≠ .error .oob := by
  unfold bufReserve
  split
  · simp
  · split
    · simp
    · rename_i hv
      split
      · simp
      · cases hr : b.rid with
        | none =>
          simp only
          have : b.cap = 0 := isValid_rid_none (by simpa using hv) hr
          simp [this]
        | some r0 =>
          simp only
          apply bind_not_oob (growReserve_not_oob hb (by omega))
          intro _ _; simp

theorem bufReserveRelative_spec {m m' : Mem} {b b' : Buf} {add : Nat} {e : Option Err} (hb : BufOk m.heap b)
    (eq : bufReserveRelative m b add = .ok (e, m', b')) : ReserveSpec m m' b b' e := by
  unfold bufReserveRelative at eq
  have same : ∀ er, ReserveSpec m m b b (some er) :=
    fun _ => ⟨BufStep.same hb, fun _ => ⟨rfl, rfl⟩, (fun e => by cases e), EvStep.refl _⟩
  split at eq
  · cases eq; exact same _
  · split at eq
    · cases eq; exact same _
    · cases hreq : addChecked b.len add with
      | none => simp only [hreq] at eq; cases eq; exact same _
      | some req =>
        simp only [hreq] at eq
        have := addChecked_some hreq
        exact (bufReserve_spec hb (by omega) eq).1

theorem bufReserveSmart_spec {m m' : Mem} {b b' : Buf} {req : Nat} {e : Option Err} (hb : BufOk m.heap b)
    (hmax : req ≤ SIZE_MAX) (eq : bufReserveSmart m b req = .ok (e, m', b')) : ReserveSpec m m' b b' e := by
  unfold bufReserveSmart at eq
  split at eq
  · cases eq
    exact ⟨BufStep.same hb, (fun e => by cases e), fun _ => ⟨rfl, Nat.le_refl _, rfl⟩, EvStep.refl _⟩
  · simp only at eq
    refine (bufReserve_spec hb ?_ eq).1
    split
    · exact addSat_le _ _
    · exact hmax

theorem bufReserveSmartRelative_spec {m m' : Mem} {b b' : Buf} {add : Nat} {e : Option Err} (hb : BufOk m.heap b)
    (eq : bufReserveSmartRelative m b add = .ok (e, m', b')) : ReserveSpec m m' b b' e := by
  unfold bufReserveSmartRelative at eq
  cases hreq : addChecked b.len add with
  | none =>
    simp only [hreq] at eq; cases eq
    exact ⟨BufStep.same hb, fun _ => ⟨rfl, rfl⟩, (fun e => by cases e), EvStep.refl _⟩
  | some req =>
    simp only [hreq] at eq
    have := addChecked_some hreq
    exact bufReserveSmart_spec hb (by omega) eq

theorem bufReserveRelative_not_oob {m : Mem} {b : Buf} {add : Nat} (hb : BufOk m.heap b) :
    bufReserveRelative m b add ≠ .error .oob := by
  unfold bufReserveRelative
  split
  · simp
  · split
    · simp
    · split
      · simp
      · exact bufReserve_not_oob hb

theorem bufReserveSmart_not_oob {m : Mem} {b : Buf} {req : Nat} (hb : BufOk m.heap b) :
    bufReserveSmart m b req ≠ .error .oob := by
  unfold bufReserveSmart
  split
  · simp
  · exact bufReserve_not_oob hb

theorem bufReserveSmartRelative_not_oob {m : Mem} {b : Buf} {add : Nat} (hb : BufOk m.heap b) :
    bufReserveSmartRelative m b add ≠ .error .oob := by
  unfold bufReserveSmartRelative
  split
  · simp
  · exact bufReserveSmart_not_oob hb

end AwsVerif.Proofs.C01
