import AwsVerif.Proofs.C01.Mixed
/-! C01 helper layer 3f: read-only cursor functions (split, find, trim, eq, compare, parse). -/
namespace AwsVerif.Proofs.C01
open AwsVerif.ByteBuf

theorem findByte_lt {cells : List Cell} {ch : UInt8} {i : Nat} (e : findByte cells ch = some i) : i < cells.length := by
  unfold findByte at e
  simp only at e
  split at e
  · cases e; assumption
  · cases e

/-- shrinking the length keeps a cursor well-formed -/
theorem CurOk.shrink {h : Heap} {c : Cur} (hc : CurOk h c) {l : Nat} (hl : l ≤ c.len) : CurOk h { c with len := l } := by
  obtain ⟨h1, h2⟩ := hc
  cases c with
  | mk rid off len =>
    cases rid with
    | none => simp only [CurOk] at h2 ⊢; simp only at hl; exact ⟨by omega, by omega⟩
    | some r =>
      simp only [CurOk] at h1 h2 ⊢
      simp only at hl
      exact ⟨by omega, h2.1, fun m e => by have := h2.2 m e; omega⟩

/-- a sub-view `[off + a, off + a + l)` with `a + l ≤ len` -/
theorem CurOk.sub {h : Heap} {c : Cur} (hc : CurOk h c) {a l : Nat} (hl : a + l ≤ c.len) :
    CurOk h { c with off := c.off + a, len := l } := by
  obtain ⟨h1, h2⟩ := hc
  cases c with
  | mk rid off len =>
    cases rid with
    | none => simp only [CurOk] at h2 ⊢; simp only at hl; exact ⟨by omega, by omega⟩
    | some r =>
      simp only [CurOk] at h1 h2 ⊢
      simp only at hl
      exact ⟨by omega, h2.1, fun m e => by have := h2.2 m e; omega⟩

/-! ### next_split -/
theorem splitGo_spec {h : Heap} {ch : UInt8} {s s' : Cur} {more : Bool} (hs : CurOk h s)
    (eq : splitGo h ch s = .ok (more, s')) : CurOk h s' := by
  unfold splitGo at eq
  obtain ⟨cells, hl, eq⟩ := bind_ok eq
  split at eq
  · rename_i i hi
    cases eq
    have := findByte_lt hi
    rw [Cur.load_length hl] at this
    exact hs.shrink (by omega)
  · cases eq; exact hs

theorem splitGo_not_oob {h : Heap} {ch : UInt8} {s : Cur} (hs : CurOk h s) : splitGo h ch s ≠ .error .oob := by
  unfold splitGo
  apply bind_not_oob (Cur.load_not_oob hs (by omega))
  intro _ _
  split <;> simp

theorem nextSplit_arg {h : Heap} {input : Cur} {r p : Nat} (hi : CurOk h input) (hr : input.rid = some r)
    (hp : ¬ (p > input.off + input.len ∨ p < input.off)) : CurOk h ⟨some r, p, input.len - (p - input.off)⟩ := by
  obtain ⟨h1, h2⟩ := hi
  rw [hr] at h2
  simp only [CurOk] at h2 ⊢
  exact ⟨by omega, h2.1, fun m e => by have := h2.2 m e; omega⟩

theorem curNextSplit_spec {h : Heap} {input sub sub' : Cur} {ch : UInt8} {more : Bool} (h0 : 0 < h.length)
    (hi : CurOk h input) (eq : curNextSplit h input ch sub = .ok (more, sub')) : CurOk h sub' := by
  unfold curNextSplit at eq
  split at eq
  · split at eq
    · cases eq
      simp only [CurOk, litRid]
      exact ⟨by decide, h0, fun _ _ => by omega⟩
    · cases eq; exact CurOk.zero h
  · rename_i r hr
    split at eq
    · exact splitGo_spec hi eq
    · split at eq
      · cases eq
      · simp only at eq
        split at eq
        · cases eq; exact CurOk.zero h
        · rename_i hp
          exact splitGo_spec (nextSplit_arg hi hr hp) eq

theorem curNextSplit_not_oob {h : Heap} {input sub : Cur} {ch : UInt8} (hi : CurOk h input) :
    curNextSplit h input ch sub ≠ .error .oob := by
  unfold curNextSplit
  split
  · split <;> simp
  · rename_i r hr
    split
    · exact splitGo_not_oob hi
    · split
      · simp
      · simp only
        split
        · simp
        · rename_i hp
          exact splitGo_not_oob (nextSplit_arg hi hr hp)

theorem splitLoop_not_oob {h : Heap} {input : Cur} {ch : UInt8} {maxSplits k : Nat} (hi : CurOk h input) :
    ∀ (fuel count : Nat) (sub : Cur) (out : List Cur),
      splitLoop h input ch maxSplits k fuel count sub out ≠ .error .oob := by
  intro fuel
  induction fuel with
  | zero => intro _ _ _; simp [splitLoop]
  | succ fuel ih =>
    intro count sub out
    simp only [splitLoop]
    split
    · apply bind_not_oob (curNextSplit_not_oob hi)
      intro ⟨more, sub'⟩ _
      simp only
      split
      · split
        · exact ih _ _ _
        · simp
      · simp
    · simp

/-! ### find_exact -/
theorem findLoop_spec {h : Heap} {toFind : Cur} {first : UInt8} :
    ∀ (fuel : Nat) {w : Cur} {res : Option Cur}, CurOk h w → findLoop h toFind first fuel w = .ok res →
      ∀ c, res = some c → CurOk h c := by
  intro fuel
  induction fuel with
  | zero => intro w res _ eq c hc; simp [findLoop] at eq; subst eq; cases hc
  | succ fuel ih =>
    intro w res hw eq c hc
    simp only [findLoop] at eq
    split at eq
    · cases eq; cases hc
    · obtain ⟨cells, _, eq⟩ := bind_ok eq
      split at eq
      · cases eq; cases hc
      · rename_i i _
        have hw1 := (curAdvance_spec (n := i) hw).2.1
        split at eq
        · cases eq; cases hc
        · obtain ⟨a, _, eq⟩ := bind_ok eq
          obtain ⟨b, _, eq⟩ := bind_ok eq
          split at eq
          · cases eq; cases hc; exact hw1
          · exact ih (curAdvance_spec (n := 1) hw1).2.1 eq c hc

theorem findLoop_not_oob {h : Heap} {toFind : Cur} {first : UInt8} (ht : CurOk h toFind) :
    ∀ (fuel : Nat) {w : Cur}, CurOk h w → findLoop h toFind first fuel w ≠ .error .oob := by
  intro fuel
  induction fuel with
  | zero => intro _ _; simp [findLoop]
  | succ fuel ih =>
    intro w hw
    simp only [findLoop]
    split
    · simp
    · apply bind_not_oob (Cur.load_not_oob hw (by omega))
      intro cells _
      split
      · simp
      · rename_i i _
        have hw1 := (curAdvance_spec (n := i) hw).2.1
        split
        · simp
        · rename_i hlen
          apply bind_not_oob (Cur.load_not_oob hw1 (by omega))
          intro _ _
          apply bind_not_oob (Cur.load_not_oob ht (by omega))
          intro _ _
          split
          · simp
          · exact ih (curAdvance_spec (n := 1) hw1).2.1

theorem curFindExact_spec {h : Heap} {input toFind out out' : Cur} {e : Option Err} (hi : CurOk h input)
    (ho : CurOk h out) (eq : curFindExact h input toFind out = .ok (e, out')) :
    CurOk h out' ∧ (e.isSome → out' = out) := by
  unfold curFindExact at eq
  split at eq
  · cases eq; exact ⟨ho, fun _ => rfl⟩
  · split at eq
    · cases eq; exact ⟨ho, fun _ => rfl⟩
    · obtain ⟨f, _, eq⟩ := bind_ok eq
      obtain ⟨res, hl, eq⟩ := bind_ok eq
      split at eq
      · rename_i w0 _
        cases eq
        exact ⟨findLoop_spec _ hi hl _ rfl, (fun e => by cases e)⟩
      · cases eq; exact ⟨ho, fun _ => rfl⟩

theorem curFindExact_not_oob {h : Heap} {input toFind out : Cur} (hi : CurOk h input) (ht : CurOk h toFind) :
    curFindExact h input toFind out ≠ .error .oob := by
  unfold curFindExact
  split
  · simp
  · split
    · simp
    · apply bind_not_oob (Cur.load_not_oob ht (by omega))
      intro _ _
      apply bind_not_oob (findLoop_not_oob ht _ hi)
      intro _ _
      split <;> simp

/-! ### trim / satisfies -/
theorem rightTrimLoop_not_oob {h : Heap} {p : Pred} : ∀ (fuel : Nat) {t : Cur}, CurOk h t →
    rightTrimLoop h p fuel t ≠ .error .oob := by
  intro fuel
  induction fuel with
  | zero => intro _ _; simp [rightTrimLoop]
  | succ fuel ih =>
    intro t ht
    simp only [rightTrimLoop]
    split
    · apply bind_not_oob (Cur.load_not_oob ht (by omega))
      intro _ _
      split
      · exact ih (ht.shrink (by omega))
      · simp
    · simp

theorem leftTrimLoop_spec {h : Heap} {p : Pred} : ∀ (fuel : Nat) {t t' : Cur}, CurOk h t →
    leftTrimLoop h p fuel t = .ok t' → CurOk h t' := by
  intro fuel
  induction fuel with
  | zero => intro t t' ht eq; simp [leftTrimLoop] at eq; subst eq; exact ht
  | succ fuel ih =>
    intro t t' ht eq
    simp only [leftTrimLoop] at eq
    split at eq
    · obtain ⟨x, _, eq⟩ := bind_ok eq
      split at eq
      · exact ih (ht.sub (a := 1) (l := t.len - 1) (by omega)) eq
      · cases eq; exact ht
    · cases eq; exact ht

theorem leftTrimLoop_not_oob {h : Heap} {p : Pred} : ∀ (fuel : Nat) {t : Cur}, CurOk h t →
    leftTrimLoop h p fuel t ≠ .error .oob := by
  intro fuel
  induction fuel with
  | zero => intro _ _; simp [leftTrimLoop]
  | succ fuel ih =>
    intro t ht
    simp only [leftTrimLoop]
    split
    · apply bind_not_oob (Cur.load_not_oob ht (by omega))
      intro _ _
      split
      · exact ih (ht.sub (a := 1) (l := t.len - 1) (by omega))
      · simp
    · simp

theorem curTrim_not_oob {h : Heap} {c : Cur} {p : Pred} (hc : CurOk h c) : curTrim h c p ≠ .error .oob := by
  unfold curTrim
  apply bind_not_oob (leftTrimLoop_not_oob _ hc)
  intro l hl
  exact rightTrimLoop_not_oob _ (leftTrimLoop_spec _ hc hl)

theorem curSatisfies_not_oob {h : Heap} {c : Cur} {p : Pred} (hc : CurOk h c) : curSatisfies h c p ≠ .error .oob := by
  unfold curSatisfies
  apply bind_not_oob (leftTrimLoop_not_oob _ hc)
  intro _ _; simp

/-! ### eq family / starts_with / compare / parse -/
theorem arrayEq_not_oob {h : Heap} {a b : Src} (ha : SrcOk h a) (hb : SrcOk h b) : arrayEq h a b ≠ .error .oob := by
  unfold arrayEq
  split
  · simp
  · rename_i hl
    split
    · simp
    · apply bind_not_oob (Src.load_not_oob ha (by omega))
      intro _ _
      apply bind_not_oob (Src.load_not_oob hb (by simp at hl; omega))
      intro _ _; simp

theorem arrayEqIgnoreCase_not_oob {h : Heap} {a b : Src} (ha : SrcOk h a) (hb : SrcOk h b) :
    arrayEqIgnoreCase h a b ≠ .error .oob := by
  unfold arrayEqIgnoreCase
  split
  · simp
  · rename_i hl
    apply bind_not_oob (Src.load_not_oob ha (by omega))
    intro _ _
    apply bind_not_oob (Src.load_not_oob hb (by simp at hl; omega))
    intro _ _; simp

theorem cstrLoop_not_oob {f : UInt8 → UInt8} {str : List UInt8} : ∀ (cells : List Cell) (i : Nat),
    i ≤ str.length → cstrLoop f str cells i ≠ .error .oob := by
  intro cells
  induction cells with
  | nil =>
    intro i hi
    simp only [cstrLoop]
    have : i < (str ++ [0]).length := by simp; omega
    rw [List.getElem?_eq_getElem this]
    simp
  | cons a rest ih =>
    intro i hi
    simp only [cstrLoop]
    have hlt : i < (str ++ [0]).length := by simp; omega
    rw [List.getElem?_eq_getElem hlt]
    simp only
    split
    · simp
    · rename_i hs
      split
      · simp
      · apply ih
        -- the byte at i is not the terminator, so i < str.length
        by_cases hlt2 : i < str.length
        · omega
        · have : i = str.length := by omega
          subst this
          simp at hs

theorem arrayEqCStr_not_oob {h : Heap} {a : Src} {str : List UInt8} {ic : Bool} (ha : SrcOk h a) :
    arrayEqCStr h a str ic ≠ .error .oob := by
  unfold arrayEqCStr
  apply bind_not_oob (Src.load_not_oob ha (by omega))
  intro _ _
  exact cstrLoop_not_oob _ 0 (Nat.zero_le _)

theorem curStartsWith_not_oob {h : Heap} {input pre : Cur} {ic : Bool} (hi : CurOk h input) (hp : CurOk h pre) :
    curStartsWith h input pre ic ≠ .error .oob := by
  unfold curStartsWith
  split
  · simp
  · have hs : SrcOk h (.cur { input with len := pre.len }) := hi.shrink (by omega)
    simp only
    split
    · exact arrayEqIgnoreCase_not_oob hs hp
    · exact arrayEq_not_oob hs hp

theorem curCompareLexical_not_oob {h : Heap} {l r : Cur} (hl : CurOk h l) (hr : CurOk h r) :
    curCompareLexical h l r ≠ .error .oob := by
  unfold curCompareLexical
  simp only
  apply bind_not_oob (Cur.load_not_oob hl (by split <;> omega))
  intro _ _
  apply bind_not_oob (Cur.load_not_oob hr (by split <;> omega))
  intro _ _
  split
  · simp
  · split <;> simp

theorem curCompareLookup_not_oob {h : Heap} {l r : Cur} (hl : CurOk h l) (hr : CurOk h r) :
    curCompareLookup h l r ≠ .error .oob := by
  unfold curCompareLookup
  split
  · simp
  · split
    · simp
    · split
      · simp
      · simp only
        apply bind_not_oob (Cur.load_not_oob hl (by split <;> omega))
        intro _ _
        apply bind_not_oob (Cur.load_not_oob hr (by split <;> omega))
        intro _ _
        split
        · simp
        · split
          · simp
          · split
            · simp
            · split <;> simp

theorem curParseU64_not_oob {h : Heap} {c : Cur} {base : Nat} (hc : CurOk h c) : curParseU64 h c base ≠ .error .oob := by
  unfold curParseU64
  split
  · simp
  · apply bind_not_oob (Cur.load_not_oob hc (by omega))
    intro _ _; simp

end AwsVerif.Proofs.C01
