import AwsVerif.Proofs.C01.Bridge
/-! C01: `aws_byte_cursor_find_exact` returns the first occurrence of the needle inside the view, or NOT_FOUND. -/
namespace AwsVerif.Proofs.C01
open AwsVerif.ByteBuf

/-- the needle occurs in the haystack at index `i`, entirely inside it -/
def OccursAt (hay nd : List UInt8) (i : Nat) : Prop := i + nd.length ≤ hay.length ∧ (hay.drop i).take nd.length = nd

/-- the view of `input` that starts `p` bytes in and runs to the end of `input` -/
def viewAt (input : Cur) (r p : Nat) : Cur := ⟨some r, input.off + p, input.len - p⟩

theorem viewAt_load {h : Heap} {input : Cur} {hay : List UInt8} {r p : Nat} (hr : input.rid = some r)
    (hl : input.load h 0 input.len = .ok (hay.map some)) (hp : p ≤ input.len) :
    (viewAt input r p).load h 0 (viewAt input r p).len = .ok ((hay.drop p).map some) := Cur.load_sub hr hl hp

theorem viewAt_load_prefix {h : Heap} {input : Cur} {hay : List UInt8} {r p n : Nat} (hr : input.rid = some r)
    (hl : input.load h 0 input.len = .ok (hay.map some)) (hp : p ≤ input.len) (hn : n ≤ input.len - p) :
    (viewAt input r p).load h 0 n = .ok (((hay.drop p).take n).map some) :=
  Cur.load_prefix (viewAt_load hr hl hp) hn

theorem viewAt_advance {input : Cur} {r p k : Nat} (hk : k ≤ input.len - p) (hs : input.len ≤ HALF) :
    (curAdvance (viewAt input r p) k).2 = viewAt input r (p + k) := by
  have hg : k ≤ (viewAt input r p).len ∧ k ≤ HALF ∧ (viewAt input r p).len ≤ HALF := by
    simp only [viewAt]; omega
  rw [(curAdvance_eq _ k).1 hg]
  simp only [viewAt, Option.isSome_some, if_true]
  congr 1 <;> omega

theorem occursAt_head {hay nd : List UInt8} {i : Nat} {b : UInt8} {rest : List UInt8} (hnd : nd = b :: rest)
    (ho : OccursAt hay nd i) : ∃ hi : i < hay.length, hay[i] = b := by
  obtain ⟨hlen, heq⟩ := ho
  subst hnd
  have hi : i < hay.length := by simp at hlen; omega
  refine ⟨hi, ?_⟩
  rw [List.drop_eq_getElem_cons hi] at heq
  simp only [List.length_cons, List.take_succ_cons, List.cons.injEq] at heq
  exact heq.1

theorem findLoop_spec' {h : Heap} {input toFind : Cur} {hay nd : List UInt8} {r : Nat} {b : UInt8} {rest : List UInt8}
    (hr : input.rid = some r) (hl : input.load h 0 input.len = .ok (hay.map some))
    (hn : toFind.load h 0 toFind.len = .ok (nd.map some)) (hnd : nd = b :: rest) (hs : input.len ≤ HALF) :
    ∀ (fuel p : Nat), p ≤ input.len → input.len - p + 1 ≤ fuel → (∀ j, j < p → ¬ OccursAt hay nd j) →
      (∃ i, OccursAt hay nd i ∧ (∀ j, j < i → ¬ OccursAt hay nd j) ∧
        findLoop h toFind b fuel (viewAt input r p) = .ok (some (viewAt input r i))) ∨
      ((∀ i, ¬ OccursAt hay nd i) ∧ findLoop h toFind b fuel (viewAt input r p) = .ok none) := by
  have hxl : hay.length = input.len := by simpa using Cur.load_length hl
  have hnl : nd.length = toFind.len := by simpa using Cur.load_length hn
  have hnpos : 1 ≤ nd.length := by rw [hnd]; simp
  intro fuel
  induction fuel with
  | zero => intro p hp hf; omega
  | succ fuel ih =>
    intro p hp hf hnone
    simp only [findLoop]
    by_cases hz : (viewAt input r p).len = 0
    · rw [if_pos hz]
      right
      refine ⟨fun i ho => ?_, rfl⟩
      simp only [viewAt] at hz
      by_cases hip : i < p
      · exact hnone i hip ho
      · have := ho.1; omega
    · rw [if_neg hz, viewAt_load hr hl hp]
      simp only [bind, Except.bind, findByte_map_some]
      by_cases hf' : (hay.drop p).findIdx (· == b) < (hay.drop p).length
      · rw [if_pos hf']
        simp only
        have hklen : (hay.drop p).findIdx (· == b) ≤ input.len - p := by
          simp only [List.length_drop] at hf'; omega
        generalize hk : (hay.drop p).findIdx (· == b) = k at hf' hklen
        rw [viewAt_advance hklen hs]
        -- no occurrence strictly between p and p + k
        have hbetween : ∀ j, j < p + k → ¬ OccursAt hay nd j := by
          intro j hj ho
          by_cases hjp : j < p
          · exact hnone j hjp ho
          · obtain ⟨hi, hget⟩ := occursAt_head hnd ho
            have hjk : j - p < (hay.drop p).findIdx (· == b) := by rw [hk]; omega
            have := List.not_of_lt_findIdx hjk
            simp only [List.getElem_drop, beq_eq_false_iff_ne, ne_eq] at this
            apply this
            have e : p + (j - p) = j := by omega
            simp only [e]
            exact hget
        by_cases hshort : (viewAt input r (p + k)).len < toFind.len
        · rw [if_pos hshort]
          right
          refine ⟨fun i ho => ?_, rfl⟩
          by_cases hip : i < p + k
          · exact hbetween i hip ho
          · simp only [viewAt] at hshort
            have := ho.1; omega
        · rw [if_neg hshort]
          have hfit : toFind.len ≤ input.len - (p + k) := by simp only [viewAt] at hshort; omega
          rw [viewAt_load_prefix hr hl (by omega) hfit, hn]
          simp only [map_cellVal_some]
          by_cases heq : (hay.drop (p + k)).take toFind.len = nd
          · rw [if_pos heq]
            left
            exact ⟨p + k, ⟨by omega, by rw [hnl]; exact heq⟩, hbetween, rfl⟩
          · rw [if_neg heq]
            have hno : ¬ OccursAt hay nd (p + k) := fun ho => heq (by rw [← hnl]; exact ho.2)
            rw [viewAt_advance (k := 1) (by omega) hs]
            apply ih (p + k + 1) (by omega) (by omega)
            intro j hj
            by_cases hjq : j < p + k
            · exact hbetween j hjq
            · have : j = p + k := by omega
              subst this; exact hno
      · rw [if_neg hf']
        right
        refine ⟨fun i ho => ?_, rfl⟩
        by_cases hip : i < p
        · exact hnone i hip ho
        · obtain ⟨hi, hget⟩ := occursAt_head hnd ho
          have hall := List.findIdx_eq_length.mp (by
            have := List.findIdx_le_length (p := (· == b)) (xs := hay.drop p)
            omega : (hay.drop p).findIdx (· == b) = (hay.drop p).length)
          have hmem : hay[i] ∈ hay.drop p := by
            rw [List.mem_iff_getElem]
            refine ⟨i - p, by simp only [List.length_drop]; omega, ?_⟩
            simp only [List.getElem_drop]
            have e : p + (i - p) = i := by omega
            simp only [e]
          have := hall _ hmem
          simp [hget] at this

/-- `aws_byte_cursor_find_exact` on views of `hay` and `nd` (`input.len ≤ SIZE_MAX/2`) -/
theorem curFindExact_eq {h : Heap} {input toFind out : Cur} {hay nd : List UInt8} {r : Nat}
    (hr : input.rid = some r) (hl : input.load h 0 input.len = .ok (hay.map some))
    (hn : toFind.load h 0 toFind.len = .ok (nd.map some)) (hs : input.len ≤ HALF)
    (hle : nd.length ≤ hay.length) (hpos : 1 ≤ nd.length) :
    (∃ i, OccursAt hay nd i ∧ (∀ j, j < i → ¬ OccursAt hay nd j) ∧
      curFindExact h input toFind out = .ok (none, ⟨some r, input.off + i, input.len - i⟩)) ∨
    ((∀ i, ¬ OccursAt hay nd i) ∧ curFindExact h input toFind out = .ok (some .matchNotFound, out)) := by
  have hxl : hay.length = input.len := by simpa using Cur.load_length hl
  have hnl : nd.length = toFind.len := by simpa using Cur.load_length hn
  obtain ⟨b, rest, hnd⟩ : ∃ b rest, nd = b :: rest := by
    cases nd with
    | nil => simp at hpos
    | cons b rest => exact ⟨b, rest, rfl⟩
  unfold curFindExact
  rw [if_neg (by omega), if_neg (by omega)]
  have h1 := Cur.load_prefix (n := 1) hn (by omega)
  rw [h1]
  have hfirst : (List.map some (List.take 1 nd)).headD none = some b := by rw [hnd]; rfl
  simp only [bind, Except.bind, hfirst, cellVal, Option.getD_some]
  have e0 : input = viewAt input r 0 := cur_eta0 hr
  rcases findLoop_spec' hr hl hn hnd hs (input.len + 1) 0 (Nat.zero_le _) (by omega) (fun j hj => by omega) with
    ⟨i, ho, hmin, heq⟩ | ⟨hno, heq⟩
  · left
    refine ⟨i, ho, hmin, ?_⟩
    rw [← e0] at heq
    rw [heq]
    rfl
  · right
    refine ⟨hno, ?_⟩
    rw [← e0] at heq
    rw [heq]

end AwsVerif.Proofs.C01
