import AwsVerif.Proofs.C01.Split
/-! C01 [B]: `aws_byte_cursor_{left,right,}_trim_pred`. -/
namespace AwsVerif.Proofs.C01
open AwsVerif.ByteBuf

/-- reading any sub-range through a cursor whose whole contents are known -/
theorem Cur.load_range {h : Heap} {c : Cur} {x : List UInt8} {i n : Nat}
    (hl : c.load h 0 c.len = .ok (x.map some)) (hin : i + n ≤ c.len) :
    c.load h i n = .ok (((x.drop i).take n).map some) := by
  by_cases hn0 : n = 0
  · subst hn0; simp [Cur.load]
  · have hlen : c.len ≠ 0 := by omega
    unfold Cur.load at hl ⊢
    rw [if_neg hlen, if_pos (by omega)] at hl
    rw [if_neg hn0, if_pos hin]
    unfold loadN at hl ⊢
    rw [if_neg hlen] at hl
    rw [if_neg hn0]
    cases hr : c.rid with
    | none => simp [hr] at hl
    | some r =>
      simp only [hr] at hl ⊢
      cases hreg : region? h r with
      | none => simp [hreg] at hl
      | some reg =>
        simp only [hreg] at hl ⊢
        split at hl
        · rename_i hfit
          rw [if_pos (by omega)]
          have heq : List.take c.len (List.drop (c.off + 0) reg) = x.map some := Except.ok.inj hl
          have := congrArg (fun l => List.take n (List.drop i l)) heq
          rw [List.map_take, List.map_drop, ← this, List.drop_take, List.take_take, List.drop_drop,
            Nat.min_eq_left (by omega)]
          simp only [Nat.add_zero]
        · cases hl

/-- the bound check of `Cur.load` only involves the length: a shorter view of the same block reads the
same cells -/
theorem Cur.load_shrink {h : Heap} {c : Cur} {i n m : Nat} (hm : i + n ≤ m) (hmc : m ≤ c.len) :
    ({ c with len := m } : Cur).load h i n = c.load h i n := by
  unfold Cur.load
  by_cases hn : n = 0
  · simp [hn]
  · rw [if_neg hn, if_neg hn]
    simp only
    rw [if_pos hm, if_pos (by omega)]

theorem drop_take_one {x : List UInt8} {i : Nat} (hi : i < x.length) : (x.drop i).take 1 = [x[i]] := by
  rw [List.drop_eq_getElem_cons hi]; rfl

/-- number of leading bytes satisfying the predicate -/
def leftCount (p : UInt8 → Bool) (bs : List UInt8) : Nat := (bs.takeWhile p).length

theorem leftCount_le (p : UInt8 → Bool) (bs : List UInt8) : leftCount p bs ≤ bs.length := by
  unfold leftCount
  have := congrArg List.length (List.takeWhile_append_dropWhile (p := p) (l := bs))
  rw [List.length_append] at this; omega

/-- length left after removing, from the first `n` bytes, the trailing bytes satisfying the predicate -/
def rightLen (p : UInt8 → Bool) (bs : List UInt8) : Nat → Nat
  | 0 => 0
  | n + 1 => if p (bs.getD n 0) then rightLen p bs n else n + 1

theorem rightLen_le (p : UInt8 → Bool) (bs : List UInt8) : ∀ n, rightLen p bs n ≤ n
  | 0 => Nat.le_refl _
  | n + 1 => by
    simp only [rightLen]
    split
    · exact Nat.le_succ_of_le (rightLen_le p bs n)
    · exact Nat.le_refl _

/-- what `rightLen` is: everything from it up to `n` satisfies `p`, and the byte just before it does not -/
theorem rightLen_spec (p : UInt8 → Bool) (bs : List UInt8) : ∀ n,
    (∀ j, rightLen p bs n ≤ j → j < n → p (bs.getD j 0) = true) ∧
    (0 < rightLen p bs n → p (bs.getD (rightLen p bs n - 1) 0) = false)
  | 0 => by simp [rightLen]
  | n + 1 => by
    simp only [rightLen]
    split
    · rename_i hp
      obtain ⟨a, b⟩ := rightLen_spec p bs n
      refine ⟨fun j hj hjn => ?_, b⟩
      by_cases hjn' : j = n
      · subst hjn'; exact hp
      · exact a j hj (by omega)
    · rename_i hp
      refine ⟨fun j hj hjn => by omega, fun _ => ?_⟩
      simpa using hp

/-! ### left trim -/
theorem leftTrimLoop_eq {h : Heap} {c : Cur} {bytes : List UInt8} {p : Pred} {r : Nat} (hr : c.rid = some r)
    (hl : c.load h 0 c.len = .ok (bytes.map some)) :
    ∀ (fuel k : Nat), k ≤ c.len → c.len - k ≤ fuel →
      leftTrimLoop h p fuel ⟨some r, c.off + k, c.len - k⟩ =
        .ok ⟨some r, c.off + k + leftCount p.eval (bytes.drop k), c.len - k - leftCount p.eval (bytes.drop k)⟩ := by
  have hxl : bytes.length = c.len := by simpa using Cur.load_length hl
  intro fuel
  induction fuel with
  | zero =>
    intro k hk hf
    have : bytes.drop k = [] := List.drop_eq_nil_of_le (by omega)
    simp [leftTrimLoop, this, leftCount]
  | succ fuel ih =>
    intro k hk hf
    simp only [leftTrimLoop]
    by_cases hpos : c.len - k > 0
    · rw [if_pos hpos]
      have hklt : k < bytes.length := by omega
      have hfull := Cur.load_sub hr hl hk
      have h1 := Cur.load_prefix (n := 1) hfull (by simp only; omega)
      rw [h1, drop_take_one hklt]
      simp only [bind, Except.bind, List.map_cons, List.map_nil, List.headD_cons, cellVal, Option.getD_some]
      have hdrop : bytes.drop k = bytes[k] :: bytes.drop (k + 1) := List.drop_eq_getElem_cons hklt
      by_cases hp : p.eval bytes[k] = true
      · rw [if_pos hp]
        have e1 : c.off + k + 1 = c.off + (k + 1) := by omega
        have e2 : c.len - k - 1 = c.len - (k + 1) := by omega
        rw [e1, e2, ih (k + 1) (by omega) (by omega), hdrop]
        simp only [leftCount, List.takeWhile_cons, hp, if_true, List.length_cons]
        congr 2 <;> omega
      · rw [if_neg hp]
        have htw : List.takeWhile p.eval (List.drop k bytes) = [] := by
          rw [hdrop, List.takeWhile_cons, if_neg hp]
        simp [leftCount, htw]
    · rw [if_neg hpos]
      have : bytes.drop k = [] := List.drop_eq_nil_of_le (by omega)
      simp [this, leftCount]

theorem cur_eta0 {c : Cur} {r : Nat} (hr : c.rid = some r) : c = ⟨some r, c.off + 0, c.len - 0⟩ := by
  cases c; simp_all

/-- `aws_byte_cursor_left_trim_pred` -/
theorem curLeftTrim_eq {h : Heap} {c : Cur} {bytes : List UInt8} {p : Pred} {r : Nat} (hr : c.rid = some r)
    (hl : c.load h 0 c.len = .ok (bytes.map some)) :
    curLeftTrim h c p = .ok ⟨some r, c.off + leftCount p.eval bytes, c.len - leftCount p.eval bytes⟩ := by
  unfold curLeftTrim
  have := leftTrimLoop_eq (p := p) hr hl c.len 0 (Nat.zero_le _) (by omega)
  rw [← cur_eta0 hr] at this
  simpa using this

/-! ### right trim -/
theorem rightTrimLoop_eq {h : Heap} {c : Cur} {bytes : List UInt8} {p : Pred}
    (hl : c.load h 0 c.len = .ok (bytes.map some)) :
    ∀ (fuel m : Nat), m ≤ c.len → m ≤ fuel →
      rightTrimLoop h p fuel { c with len := m } = .ok { c with len := rightLen p.eval bytes m } := by
  have hxl : bytes.length = c.len := by simpa using Cur.load_length hl
  intro fuel
  induction fuel with
  | zero =>
    intro m hm hf
    have : m = 0 := by omega
    subst this
    simp [rightTrimLoop, rightLen]
  | succ fuel ih =>
    intro m hm hf
    simp only [rightTrimLoop]
    cases m with
    | zero => simp [rightLen]
    | succ m =>
      rw [if_pos (by simp)]
      simp only [Nat.add_sub_cancel]
      rw [Cur.load_shrink (Nat.le_refl _) hm, Cur.load_range hl (by omega), drop_take_one (by omega)]
      simp only [bind, Except.bind, List.map_cons, List.map_nil, List.headD_cons, cellVal, Option.getD_some, rightLen]
      have hget : bytes.getD m 0 = bytes[m]'(by omega) := by
        simp [List.getD, List.getElem?_eq_getElem (show m < bytes.length by omega)]
      rw [hget]
      by_cases hp : p.eval (bytes[m]'(by omega)) = true
      · rw [if_pos hp, if_pos hp]
        exact ih m (by omega) (by omega)
      · rw [if_neg hp, if_neg hp]

/-- `aws_byte_cursor_right_trim_pred` -/
theorem curRightTrim_eq {h : Heap} {c : Cur} {bytes : List UInt8} {p : Pred}
    (hl : c.load h 0 c.len = .ok (bytes.map some)) :
    curRightTrim h c p = .ok { c with len := rightLen p.eval bytes c.len } := by
  unfold curRightTrim
  have := rightTrimLoop_eq (p := p) hl c.len c.len (Nat.le_refl _) (Nat.le_refl _)
  simpa using this

/-- `aws_byte_cursor_trim_pred` : left trim, then right trim of what is left -/
theorem curTrim_eq {h : Heap} {c : Cur} {bytes : List UInt8} {p : Pred} {r : Nat} (hr : c.rid = some r)
    (hl : c.load h 0 c.len = .ok (bytes.map some)) :
    curTrim h c p = .ok ⟨some r, c.off + leftCount p.eval bytes,
      rightLen p.eval (bytes.drop (leftCount p.eval bytes)) (c.len - leftCount p.eval bytes)⟩ := by
  have hxl : bytes.length = c.len := by simpa using Cur.load_length hl
  unfold curTrim
  rw [curLeftTrim_eq hr hl]
  simp only [bind, Except.bind]
  have hk := leftCount_le p.eval bytes
  have hfull := Cur.load_sub (st := leftCount p.eval bytes) hr hl (by omega)
  rw [curRightTrim_eq (c := ⟨some r, c.off + leftCount p.eval bytes, c.len - leftCount p.eval bytes⟩) hfull]

end AwsVerif.Proofs.C01
