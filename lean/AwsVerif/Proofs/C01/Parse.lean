import AwsVerif.Proofs.C01.StepSecure
/-! C01 [B]: `s_read_unsigned` (utf8_parse_u64 / utf8_parse_u64_hex) against its arithmetic meaning. -/
namespace AwsVerif.Proofs.C01
open AwsVerif.ByteBuf

/-- value of a digit string in the given base, digits read through `s_hex_to_num_table` -/
def digitsValue (base : Nat) (acc : Nat) (ds : List UInt8) : Nat :=
  ds.foldl (fun a d => a * base + (hexToNum d).toNat) acc

theorem digitsValue_ge {base : Nat} (hb : 0 < base) (ds : List UInt8) : ∀ acc, acc ≤ digitsValue base acc ds := by
  induction ds with
  | nil => intro acc; exact Nat.le_refl _
  | cons d rest ih =>
    intro acc
    simp only [digitsValue, List.foldl_cons]
    have h1 : acc ≤ acc * base + (hexToNum d).toNat := by
      have : acc * 1 ≤ acc * base := Nat.mul_le_mul_left _ hb
      omega
    exact Nat.le_trans h1 (ih _)

theorem mulChecked_some {a b r : Nat} (e : mulChecked a b = some r) : r = a * b ∧ a * b ≤ SIZE_MAX := by
  unfold mulChecked at e
  split at e
  · cases e
  · cases e; omega

theorem mulChecked_none {a b : Nat} (e : mulChecked a b = none) : a * b > SIZE_MAX := by
  unfold mulChecked at e
  split at e
  · assumption
  · cases e

theorem readUnsignedLoop_spec {base : Nat} (hb : 0 < base) (ds : List UInt8) :
    ∀ acc, acc ≤ SIZE_MAX →
      ((readUnsignedLoop base ds acc).1 = none ↔
        (∀ d ∈ ds, (hexToNum d).toNat < base) ∧ digitsValue base acc ds ≤ SIZE_MAX) ∧
      ((readUnsignedLoop base ds acc).1 = none → (readUnsignedLoop base ds acc).2 = digitsValue base acc ds) ∧
      ((readUnsignedLoop base ds acc).1.isSome → (readUnsignedLoop base ds acc).2 = 0) := by
  induction ds with
  | nil =>
    intro acc hacc
    simp [readUnsignedLoop, digitsValue, hacc]
  | cons d rest ih =>
    intro acc hacc
    simp only [readUnsignedLoop]
    split
    · rename_i hge
      refine ⟨⟨(fun e => by cases e), fun ⟨h1, _⟩ => ?_⟩, (fun e => by cases e), fun _ => rfl⟩
      have := h1 d (by simp)
      omega
    · rename_i hlt
      cases hm : mulChecked acc base with
      | none =>
        simp only
        have hover := mulChecked_none hm
        refine ⟨⟨(fun e => by cases e), fun ⟨_, h2⟩ => ?_⟩, (fun e => by cases e), fun _ => by trivial⟩
        have := digitsValue_ge hb rest (acc * base + (hexToNum d).toNat)
        simp only [digitsValue, List.foldl_cons] at h2 this
        omega
      | some v1 =>
        simp only
        obtain ⟨hv1, hv1le⟩ := mulChecked_some hm
        cases ha : addChecked v1 (hexToNum d).toNat with
        | none =>
          simp only
          have hover := addChecked_none ha
          refine ⟨⟨(fun e => by cases e), fun ⟨_, h2⟩ => ?_⟩, (fun e => by cases e), fun _ => by trivial⟩
          have := digitsValue_ge hb rest (acc * base + (hexToNum d).toNat)
          simp only [digitsValue, List.foldl_cons] at h2 this
          omega
        | some v2 =>
          simp only
          obtain ⟨hv2, hv2le⟩ := addChecked_some ha
          have hrec := ih v2 (by omega)
          have hfold : digitsValue base acc (d :: rest) = digitsValue base v2 rest := by
            simp only [digitsValue, List.foldl_cons, hv2, hv1]
          rw [hfold]
          refine ⟨⟨fun e => ?_, fun ⟨h1, h2⟩ => ?_⟩, hrec.2.1, hrec.2.2⟩
          · obtain ⟨a, b⟩ := hrec.1.mp e
            refine ⟨?_, b⟩
            intro x hx
            rcases List.mem_cons.mp hx with rfl | hx
            · omega
            · exact a x hx
          · exact hrec.1.mpr ⟨fun x hx => h1 x (List.mem_cons_of_mem _ hx), h2⟩

theorem map_cellVal_some (bs : List UInt8) : (bs.map some).map cellVal = bs := by
  induction bs with
  | nil => rfl
  | cons b rest ih => simp [cellVal, ih]

end AwsVerif.Proofs.C01
