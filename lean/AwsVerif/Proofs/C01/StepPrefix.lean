import AwsVerif.Proofs.C01.StepFail
/-! C01: bytes `[0, len_before)` of every buffer survive every non-resetting operation (`step_prefix`). -/
namespace AwsVerif.Proofs.C01
open AwsVerif.ByteBuf

/-- the buffer slot whose previous contents the operation is *meant* to discard / overwrite -/
def _root_.AwsVerif.ByteBuf.Op.resets : Op → Option Nat
  | .bufFromArray b _ => some b
  | .bufFromEmptyArray b _ => some b
  | .init b _ => some b
  | .initCopy d _ => some d
  | .initCopyFromCursor d _ => some d
  | .reset b _ => some b
  | .secureZero b => some b
  | .cleanUp b => some b
  | .cleanUpSecure b => some b
  | .readAndFillBuffer _ b => some b
  | .initFromFile b _ _ _ => some b
  | .normalizeSep b => some b
  | _ => none

/-- the first `(s.bufs i).len` bytes of buffer `i` are the same in `s'`, and its length did not shrink -/
def PrefixKept (s s' : State) (i : Nat) : Prop :=
  (s.bufs i).len ≤ (s'.bufs i).len ∧
  (regionCells s'.mem.heap (s'.bufs i).rid).take (s.bufs i).len =
    (regionCells s.mem.heap (s.bufs i).rid).take (s.bufs i).len

theorem PrefixKept.refl (s : State) (i : Nat) : PrefixKept s s i := ⟨Nat.le_refl _, rfl⟩

theorem prefixKept_setCur {s : State} {c : Nat} {nc : Cur} (i : Nat) : PrefixKept s (s.setCur c nc) i :=
  ⟨Nat.le_refl _, rfl⟩

theorem prefixKept_setBufMem {s : State} {m' : Mem} {b i : Nat} {nb : Buf} (hw : WF s)
    (st : BufStep s.mem.heap m'.heap (s.bufs b) nb)
    (hd : i = b → (s.bufs b).len ≤ nb.len ∧
      (regionCells m'.heap nb.rid).take (s.bufs b).len = (regionCells s.mem.heap (s.bufs b).rid).take (s.bufs b).len) :
    PrefixKept s ({ s with mem := m' }.setBuf b nb) i := by
  unfold PrefixKept
  simp only [State.setBuf]
  by_cases hi : i = b
  · subst hi
    simp only [if_true]
    exact hd rfl
  · simp only [hi, if_false]
    refine ⟨Nat.le_refl _, ?_⟩
    rw [regionCells_frame (hw.bufOk i) st.frame]
    intro r hr e
    exact hi (hw.1.2 i b r hr e.symm)

theorem prefixKept_cur_after {s : State} {x : State} {c : Nat} {nc : Cur} {i : Nat} (h : PrefixKept s x i) :
    PrefixKept s (x.setCur c nc) i := h

theorem step_prefix {s s' : State} {op : Op} {r : Res} (hw : WF s) (e : step s op = .ok (r, s')) (i : Nat)
    (hi : op.resets ≠ some i) : PrefixKept s s' i := by
  have hne : ∀ {b : Nat}, op.resets = some b → i = b → False := fun h1 h2 => hi (h2 ▸ h1)
  cases op with
  | curFromBytes c bs =>
    simp only [step] at e
    split at e
    · cases e
    · split at e
      · rename_i h2 hst
        cases e
        obtain ⟨f, _, _⟩ := fresh_storeN (by simp) hst
        refine ⟨Nat.le_refl _, ?_⟩
        simp only [State.setCur]
        rw [regionCells_frame (hw.bufOk i) f (by simp)]
      · cases e
  | curNull c => simp only [step] at e; cases e; exact prefixKept_setCur i
  | curInto c b off len =>
    simp only [step] at e
    split at e
    · split at e
      · cases e; exact prefixKept_setCur i
      · cases e; exact PrefixKept.refl _ _
    · cases e; exact PrefixKept.refl _ _
  | curFromBuf c b => simp only [step] at e; cases e; exact prefixKept_setCur i
  | curSub dst src off len =>
    simp only [step] at e
    split at e
    · cases e; exact prefixKept_setCur i
    · cases e; exact PrefixKept.refl _ _
  | bufFromArray b bs =>
    simp only [step] at e
    split at e
    · cases e
    · split at e
      · cases e
        exact prefixKept_setBufMem (m' := s.mem) hw ⟨Frame.refl _ _, by simp [BufOk], Or.inr (Or.inl rfl)⟩ (fun h => (hne rfl h).elim)
      · split at e
        · rename_i h2 hst
          cases e
          obtain ⟨f, hreg, hlt⟩ := fresh_storeN (by simp) hst
          refine prefixKept_setBufMem (m' := { (s.mem.alloc bs.length).1 with heap := h2 }) hw ?_ (fun h => (hne rfl h).elim)
          refine ⟨f.weaken, ⟨Nat.le_refl _, by simp only; omega, ?_⟩, Or.inr (Or.inr ⟨_, rfl, Nat.le_refl _⟩)⟩
          simp only [Mem.alloc]
          exact ⟨by omega, hreg⟩
        · cases e
  | bufFromEmptyArray b cap =>
    simp only [step] at e
    split at e
    · cases e
    · split at e
      · cases e
        exact prefixKept_setBufMem (m' := s.mem) hw ⟨Frame.refl _ _, by simp [BufOk], Or.inr (Or.inl rfl)⟩ (fun h => (hne rfl h).elim)
      · cases e
        obtain ⟨hr, hev, hlen, hreg, hf⟩ := alloc_spec s.mem cap
        refine prefixKept_setBufMem hw ?_ (fun h => (hne rfl h).elim)
        refine ⟨hf.weaken, ⟨Nat.zero_le _, by simp only; omega, ?_⟩, Or.inr (Or.inr ⟨_, rfl, Nat.le_refl _⟩)⟩
        simp only [Mem.alloc]
        refine ⟨by omega, ?_⟩
        simpa [regLen, Mem.alloc] using congrArg (Option.map List.length) hreg
  | init b cap =>
    simp only [step] at e
    split at e
    · cases e
    · cases e
      exact prefixKept_setBufMem hw (bufInit_spec (s.bufs b) (by omega)).1 (fun h => (hne rfl h).elim)
  | initCopy d src =>
    simp only [step] at e
    obtain ⟨⟨e1, m1, nb⟩, hcore, e⟩ := bind_ok e
    cases e
    exact prefixKept_setBufMem hw (bufInitCopy_spec (hw.bufOk d) (hw.bufOk src) hcore).1 (fun h => (hne rfl h).elim)
  | initCopyFromCursor d c =>
    simp only [step] at e
    obtain ⟨⟨e1, m1, nb⟩, hcore, e⟩ := bind_ok e
    cases e
    exact prefixKept_setBufMem hw (bufInitCopyFromCursor_spec (hw.bufOk d) (hw.curOk c) hcore).1 (fun h => (hne rfl h).elim)
  | reset b zero =>
    simp only [step] at e
    obtain ⟨⟨h1, nb⟩, hcore, e⟩ := bind_ok e
    cases e
    exact prefixKept_setBufMem (m' := { s.mem with heap := h1 }) hw (bufReset_spec (hw.bufOk b) hcore).1 (fun h => (hne rfl h).elim)
  | secureZero b =>
    simp only [step] at e
    obtain ⟨⟨h1, nb⟩, hcore, e⟩ := bind_ok e
    cases e
    exact prefixKept_setBufMem (m' := { s.mem with heap := h1 }) hw (bufSecureZero_spec (hw.bufOk b) hcore).1 (fun h => (hne rfl h).elim)
  | cleanUp b =>
    simp only [step] at e
    obtain ⟨⟨m1, nb⟩, hcore, e⟩ := bind_ok e
    cases e
    exact prefixKept_setBufMem hw (bufCleanUp_spec (hw.bufOk b) (fun h => by cases h) hcore).1 (fun h => (hne rfl h).elim)
  | cleanUpSecure b =>
    simp only [step] at e
    obtain ⟨⟨m1, nb⟩, hcore, e⟩ := bind_ok e
    cases e
    exact prefixKept_setBufMem hw (bufCleanUpSecure_spec (hw.bufOk b) hcore).1 (fun h => (hne rfl h).elim)
  | append b c =>
    simp only [step] at e
    obtain ⟨⟨e1, h1, nb⟩, hcore, e⟩ := bind_ok e
    cases e
    obtain ⟨s1, s2, _, _, s5, s6⟩ := bufAppend_spec (hw.bufOk b) hcore
    refine prefixKept_setBufMem (m' := { s.mem with heap := h1 }) hw s1 (fun _ => ?_)
    cases e1 with
    | some er => obtain ⟨a, b'⟩ := s5 rfl; subst a; subst b'; exact ⟨Nat.le_refl _, rfl⟩
    | none => obtain ⟨a, b'⟩ := s6 rfl; rw [s2]; exact ⟨by dsimp only at a ⊢; omega, b'⟩
  | appendWithLookup b c =>
    simp only [step] at e
    obtain ⟨⟨e1, h1, nb⟩, hcore, e⟩ := bind_ok e
    cases e
    obtain ⟨s1, s2, _, _, s5, s6⟩ := bufAppendWithLookup_spec (hw.bufOk b) hcore
    refine prefixKept_setBufMem (m' := { s.mem with heap := h1 }) hw s1 (fun _ => ?_)
    cases e1 with
    | some er => obtain ⟨a, b'⟩ := s5 rfl; subst a; subst b'; exact ⟨Nat.le_refl _, rfl⟩
    | none => obtain ⟨a, b'⟩ := s6 rfl; rw [s2]; exact ⟨by dsimp only at a ⊢; omega, b'⟩
  | appendDynamic b c secure =>
    simp only [step] at e
    obtain ⟨⟨e1, m1, nb⟩, hcore, e⟩ := bind_ok e
    cases e
    obtain ⟨s1, s2, s3, _⟩ := bufAppendDynamic_spec (fr := .cur (s.curs c)) (hw.bufOk b) (hw.curOk c).1 hcore
    refine prefixKept_setBufMem hw s1 (fun _ => ?_)
    cases e1 with
    | some er => obtain ⟨a, b'⟩ := s2 rfl; subst a; subst b'; exact ⟨Nat.le_refl _, rfl⟩
    | none => obtain ⟨a, b'⟩ := s3 rfl; exact ⟨by dsimp only at a ⊢; omega, b'⟩
  | appendByteDynamic b v secure =>
    simp only [step] at e
    obtain ⟨⟨e1, m1, nb⟩, hcore, e⟩ := bind_ok e
    cases e
    obtain ⟨s1, s2, s3, _⟩ := bufAppendDynamic_spec (hw.bufOk b) lit1_le hcore
    refine prefixKept_setBufMem hw s1 (fun _ => ?_)
    cases e1 with
    | some er => obtain ⟨a, b'⟩ := s2 rfl; subst a; subst b'; exact ⟨Nat.le_refl _, rfl⟩
    | none => obtain ⟨a, b'⟩ := s3 rfl; exact ⟨by dsimp only at a ⊢; omega, b'⟩
  | appendAndUpdate b c =>
    simp only [step] at e
    obtain ⟨⟨e1, h1, nb, nc⟩, hcore, e⟩ := bind_ok e
    cases e
    obtain ⟨s1, _, s3, s4⟩ := bufAppendAndUpdate_spec (hw.bufOk b) (hw.curOk c) hcore
    apply prefixKept_cur_after
    refine prefixKept_setBufMem (m' := { s.mem with heap := h1 }) hw s1 (fun _ => ?_)
    cases e1 with
    | some er => obtain ⟨a, b', _⟩ := s3 rfl; subst a; subst b'; exact ⟨Nat.le_refl _, rfl⟩
    | none => obtain ⟨a, b'⟩ := s4 rfl; exact ⟨by dsimp only at a ⊢; omega, b'⟩
  | appendNullTerminator b =>
    simp only [step] at e
    obtain ⟨⟨e1, m1, nb⟩, hcore, e⟩ := bind_ok e
    cases e
    obtain ⟨s1, s2, s3, _⟩ := bufAppendDynamic_spec (hw.bufOk b) lit1_le hcore
    refine prefixKept_setBufMem hw s1 (fun _ => ?_)
    cases e1 with
    | some er => obtain ⟨a, b'⟩ := s2 rfl; subst a; subst b'; exact ⟨Nat.le_refl _, rfl⟩
    | none => obtain ⟨a, b'⟩ := s3 rfl; exact ⟨by dsimp only at a ⊢; omega, b'⟩
  | cat d srcs =>
    simp only [step] at e
    obtain ⟨⟨e1, h1, nb⟩, hcore, e⟩ := bind_ok e
    cases e
    obtain ⟨s1, s2, _, _, s5, s6, _⟩ := catLoop_spec srcs (hw.bufOk d) hcore
    refine prefixKept_setBufMem (m' := { s.mem with heap := h1 }) hw s1 (fun _ => ?_)
    rw [s2]; exact ⟨s5, s6⟩
  | reserve b n =>
    simp only [step] at e
    split at e
    · cases e
    · rename_i hmax
      obtain ⟨⟨e1, m1, nb⟩, hcore, e⟩ := bind_ok e
      cases e
      obtain ⟨s1, s2, s3, _⟩ := (bufReserve_spec (hw.bufOk b) (by omega) hcore).1
      refine prefixKept_setBufMem hw s1 (fun _ => ?_)
      cases e1 with
      | some er => obtain ⟨a, b'⟩ := s2 rfl; subst a; subst b'; exact ⟨Nat.le_refl _, rfl⟩
      | none => obtain ⟨a, _, b'⟩ := s3 rfl; exact ⟨by dsimp only at a ⊢; omega, b'⟩
  | reserveRelative b n =>
    simp only [step] at e
    obtain ⟨⟨e1, m1, nb⟩, hcore, e⟩ := bind_ok e
    cases e
    obtain ⟨s1, s2, s3, _⟩ := bufReserveRelative_spec (hw.bufOk b) hcore
    refine prefixKept_setBufMem hw s1 (fun _ => ?_)
    cases e1 with
    | some er => obtain ⟨a, b'⟩ := s2 rfl; subst a; subst b'; exact ⟨Nat.le_refl _, rfl⟩
    | none => obtain ⟨a, _, b'⟩ := s3 rfl; exact ⟨by dsimp only at a ⊢; omega, b'⟩
  | reserveSmart b n =>
    simp only [step] at e
    split at e
    · cases e
    · rename_i hmax
      obtain ⟨⟨e1, m1, nb⟩, hcore, e⟩ := bind_ok e
      cases e
      obtain ⟨s1, s2, s3, _⟩ := bufReserveSmart_spec (hw.bufOk b) (by omega) hcore
      refine prefixKept_setBufMem hw s1 (fun _ => ?_)
      cases e1 with
      | some er => obtain ⟨a, b'⟩ := s2 rfl; subst a; subst b'; exact ⟨Nat.le_refl _, rfl⟩
      | none => obtain ⟨a, _, b'⟩ := s3 rfl; exact ⟨by dsimp only at a ⊢; omega, b'⟩
  | reserveSmartRelative b n =>
    simp only [step] at e
    obtain ⟨⟨e1, m1, nb⟩, hcore, e⟩ := bind_ok e
    cases e
    obtain ⟨s1, s2, s3, _⟩ := bufReserveSmartRelative_spec (hw.bufOk b) hcore
    refine prefixKept_setBufMem hw s1 (fun _ => ?_)
    cases e1 with
    | some er => obtain ⟨a, b'⟩ := s2 rfl; subst a; subst b'; exact ⟨Nat.le_refl _, rfl⟩
    | none => obtain ⟨a, _, b'⟩ := s3 rfl; exact ⟨by dsimp only at a ⊢; omega, b'⟩
  | bufAdvance b n =>
    simp only [step] at e
    cases e
    obtain ⟨s1, s2, _, s4, s5⟩ := bufAdvance_spec (n := n) (hw.bufOk b)
    refine prefixKept_setBufMem (m' := s.mem) hw s1 (fun _ => ?_)
    rw [s2]
    refine ⟨?_, rfl⟩
    cases hv : (bufAdvance (s.bufs b) n).1 with
    | none => rw [s4 hv]; exact Nat.le_refl _
    | some v => have := s5 (by rw [hv]; rfl); omega
  | write b bs n =>
    simp only [step] at e
    obtain ⟨⟨ok, h1, nb⟩, hcore, e⟩ := bind_ok e
    cases e
    obtain ⟨s1, s2, _, _, _, s6, s7⟩ := bufWrite_spec (hw.bufOk b) hcore
    refine prefixKept_setBufMem (m' := { s.mem with heap := h1 }) hw s1 (fun _ => ?_)
    cases ok with
    | false => obtain ⟨a, b'⟩ := s6 rfl; subst a; subst b'; exact ⟨Nat.le_refl _, rfl⟩
    | true => obtain ⟨a, b'⟩ := s7 rfl; rw [s2]; exact ⟨by dsimp only at a ⊢; omega, b'⟩
  | writeFromWholeBuffer b src =>
    simp only [step] at e
    obtain ⟨⟨ok, h1, nb⟩, hcore, e⟩ := bind_ok e
    cases e
    obtain ⟨s1, s2, _, _, _, s6, s7⟩ := bufWrite_spec (hw.bufOk b) hcore
    refine prefixKept_setBufMem (m' := { s.mem with heap := h1 }) hw s1 (fun _ => ?_)
    cases ok with
    | false => obtain ⟨a, b'⟩ := s6 rfl; subst a; subst b'; exact ⟨Nat.le_refl _, rfl⟩
    | true => obtain ⟨a, b'⟩ := s7 rfl; rw [s2]; exact ⟨by dsimp only at a ⊢; omega, b'⟩
  | writeFromWholeCursor b c =>
    simp only [step] at e
    obtain ⟨⟨ok, h1, nb⟩, hcore, e⟩ := bind_ok e
    cases e
    obtain ⟨s1, s2, _, _, _, s6, s7⟩ := bufWrite_spec (hw.bufOk b) hcore
    refine prefixKept_setBufMem (m' := { s.mem with heap := h1 }) hw s1 (fun _ => ?_)
    cases ok with
    | false => obtain ⟨a, b'⟩ := s6 rfl; subst a; subst b'; exact ⟨Nat.le_refl _, rfl⟩
    | true => obtain ⟨a, b'⟩ := s7 rfl; rw [s2]; exact ⟨by dsimp only at a ⊢; omega, b'⟩
  | writeToCapacity b c =>
    simp only [step] at e
    obtain ⟨⟨wc, h1, nb, nc⟩, hcore, e⟩ := bind_ok e
    cases e
    obtain ⟨s1, _, _, s4, s5, s6⟩ := bufWriteToCapacity_spec (hw.bufOk b) (hw.curOk c) hcore
    apply prefixKept_cur_after
    refine prefixKept_setBufMem (m' := { s.mem with heap := h1 }) hw s1 (fun _ => ?_)
    rw [s5]; exact ⟨s4, s6⟩
  | writeU8 b v =>
    simp only [step] at e
    obtain ⟨⟨ok, h1, nb⟩, hcore, e⟩ := bind_ok e
    cases e
    obtain ⟨s1, s2, _, _, _, s6, s7⟩ := bufWrite_spec (hw.bufOk b) hcore
    refine prefixKept_setBufMem (m' := { s.mem with heap := h1 }) hw s1 (fun _ => ?_)
    cases ok with
    | false => obtain ⟨a, b'⟩ := s6 rfl; subst a; subst b'; exact ⟨Nat.le_refl _, rfl⟩
    | true => obtain ⟨a, b'⟩ := s7 rfl; rw [s2]; exact ⟨by dsimp only at a ⊢; omega, b'⟩
  | writeU8N b v n =>
    simp only [step] at e
    obtain ⟨⟨ok, h1, nb⟩, hcore, e⟩ := bind_ok e
    cases e
    obtain ⟨s1, s2, _, _, _, s6, s7⟩ := bufWriteU8N_spec (hw.bufOk b) hcore
    refine prefixKept_setBufMem (m' := { s.mem with heap := h1 }) hw s1 (fun _ => ?_)
    cases ok with
    | false => obtain ⟨a, b'⟩ := s6 rfl; subst a; subst b'; exact ⟨Nat.le_refl _, rfl⟩
    | true => obtain ⟨a, b'⟩ := s7 rfl; rw [s2]; exact ⟨by dsimp only at a ⊢; omega, b'⟩
  | writeBe b k x =>
    simp only [step] at e
    obtain ⟨⟨ok, h1, nb⟩, hcore, e⟩ := bind_ok e
    cases e
    obtain ⟨s1, s2, _, _, _, s6, s7⟩ := bufWrite_spec (hw.bufOk b) hcore
    refine prefixKept_setBufMem (m' := { s.mem with heap := h1 }) hw s1 (fun _ => ?_)
    cases ok with
    | false => obtain ⟨a, b'⟩ := s6 rfl; subst a; subst b'; exact ⟨Nat.le_refl _, rfl⟩
    | true => obtain ⟨a, b'⟩ := s7 rfl; rw [s2]; exact ⟨by dsimp only at a ⊢; omega, b'⟩
  | writeBe24 b x =>
    simp only [step] at e
    obtain ⟨⟨ok, h1, nb⟩, hcore, e⟩ := bind_ok e
    cases e
    obtain ⟨s1, s2, _, _, s6, s7⟩ := bufWriteBe24_spec (hw.bufOk b) hcore
    refine prefixKept_setBufMem (m' := { s.mem with heap := h1 }) hw s1 (fun _ => ?_)
    cases ok with
    | false => obtain ⟨a, b'⟩ := s6 rfl; subst a; subst b'; exact ⟨Nat.le_refl _, rfl⟩
    | true => obtain ⟨a, b'⟩ := s7 rfl; rw [s2]; exact ⟨by dsimp only at a ⊢; omega, b'⟩
  | advance c n => simp only [step] at e; cases e; exact prefixKept_setCur i
  | advanceNospec c n => simp only [step] at e; cases e; exact prefixKept_setCur i
  | read c n =>
    simp only [step] at e
    obtain ⟨⟨ok, bs, nc⟩, hcore, e⟩ := bind_ok e
    cases e; exact prefixKept_setCur i
  | readAndFillBuffer c b =>
    simp only [step] at e
    obtain ⟨⟨ok, h1, nc, nb⟩, hcore, e⟩ := bind_ok e
    cases e
    obtain ⟨s1, _, _⟩ := curReadAndFill_spec (hw.bufOk b) (hw.curOk c) hcore
    apply prefixKept_cur_after
    exact prefixKept_setBufMem (m' := { s.mem with heap := h1 }) hw s1 (fun h => (hne rfl h).elim)
  | readBe c k =>
    simp only [step] at e
    obtain ⟨⟨ok, v, nc⟩, hcore, e⟩ := bind_ok e
    cases e; exact prefixKept_setCur i
  | readHexU8 c =>
    simp only [step] at e
    obtain ⟨⟨ok, v, nc⟩, hcore, e⟩ := bind_ok e
    cases e; exact prefixKept_setCur i
  | nextSplit input ch sub =>
    simp only [step] at e
    obtain ⟨⟨more, ns⟩, hcore, e⟩ := bind_ok e
    cases e; exact prefixKept_setCur i
  | splitOnCharN input ch n k =>
    simp only [step] at e
    obtain ⟨⟨e1, l⟩, hcore, e⟩ := bind_ok e
    cases e; exact PrefixKept.refl _ _
  | findExact input toFind out =>
    simp only [step] at e
    obtain ⟨⟨e1, nc⟩, hcore, e⟩ := bind_ok e
    cases e; exact prefixKept_setCur i
  | leftTrim c p =>
    simp only [step] at e
    obtain ⟨t, _, e⟩ := bind_ok e
    cases e; exact PrefixKept.refl _ _
  | rightTrim c p =>
    simp only [step] at e
    obtain ⟨t, _, e⟩ := bind_ok e
    cases e; exact PrefixKept.refl _ _
  | trim c p =>
    simp only [step] at e
    obtain ⟨t, _, e⟩ := bind_ok e
    cases e; exact PrefixKept.refl _ _
  | satisfies c p =>
    simp only [step] at e
    obtain ⟨t, _, e⟩ := bind_ok e
    cases e; exact PrefixKept.refl _ _
  | startsWith c p ic =>
    simp only [step] at e
    obtain ⟨t, _, e⟩ := bind_ok e
    cases e; exact PrefixKept.refl _ _
  | curEq a b ic =>
    simp only [step] at e
    obtain ⟨t, _, e⟩ := bind_ok e
    cases e; exact PrefixKept.refl _ _
  | curEqBuf c b ic =>
    simp only [step] at e
    obtain ⟨t, _, e⟩ := bind_ok e
    cases e; exact PrefixKept.refl _ _
  | curEqCStr c str ic =>
    simp only [step] at e
    obtain ⟨t, _, e⟩ := bind_ok e
    cases e; exact PrefixKept.refl _ _
  | bufEq a b ic =>
    simp only [step] at e
    obtain ⟨t, _, e⟩ := bind_ok e
    cases e; exact PrefixKept.refl _ _
  | bufEqCStr b str ic =>
    simp only [step] at e
    obtain ⟨t, _, e⟩ := bind_ok e
    cases e; exact PrefixKept.refl _ _
  | compareLexical a b =>
    simp only [step] at e
    obtain ⟨t, _, e⟩ := bind_ok e
    cases e; exact PrefixKept.refl _ _
  | compareLookup a b =>
    simp only [step] at e
    obtain ⟨t, _, e⟩ := bind_ok e
    cases e; exact PrefixKept.refl _ _
  | parseU64 c base =>
    simp only [step] at e
    obtain ⟨⟨e1, v⟩, _, e⟩ := bind_ok e
    cases e; exact PrefixKept.refl _ _
  | normalizeSep b =>
    simp only [step] at e
    obtain ⟨h1, hcore, e⟩ := bind_ok e
    cases e
    exact prefixKept_setBufMem (m' := { s.mem with heap := h1 }) hw (bufNormalizeSep_spec (hw.bufOk b) hcore).1 (fun h => (hne rfl h).elim)
  | hashIgnoreCase c =>
    simp only [step] at e
    obtain ⟨v, _, e⟩ := bind_ok e
    cases e; exact PrefixKept.refl _ _
  | initFromFile b f useHint sizeHint =>
    simp only [step] at e
    split at e
    · cases e
    · rename_i hmax
      obtain ⟨⟨e1, m1, nb⟩, hcore, e⟩ := bind_ok e
      cases e
      exact prefixKept_setBufMem hw (bufInitFromFile_spec (hw.bufOk b) (by omega) hcore).1 (fun h => (hne rfl h).elim)

end AwsVerif.Proofs.C01
