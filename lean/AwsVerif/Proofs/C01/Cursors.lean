import AwsVerif.Proofs.C01.File
/-! C01 helper layer 3d: cursor functions (advance, nospec mask, read family, append_and_update,
write_to_capacity, read_and_fill_buffer, cat). -/
namespace AwsVerif.Proofs.C01
open AwsVerif.ByteBuf

theorem CurOk.zero (h : Heap) : CurOk h Cur.zero := by simp [CurOk, Cur.zero]

/-! ### aws_byte_cursor_advance -/
theorem curAdvance_eq (c : Cur) (n : Nat) :
    (n ≤ c.len ∧ n ≤ HALF ∧ c.len ≤ HALF →
      curAdvance c n = (⟨c.rid, c.off, n⟩, ⟨c.rid, if c.rid.isSome then c.off + n else c.off, c.len - n⟩)) ∧
    (¬ (n ≤ c.len ∧ n ≤ HALF ∧ c.len ≤ HALF) → curAdvance c n = (Cur.zero, c)) := by
  unfold curAdvance
  constructor
  · intro hg
    have : ¬ (c.len > HALF ∨ n > HALF ∨ n > c.len) := by omega
    simp only [this, if_false]
    cases c with
    | mk rid off len => cases rid <;> simp
  · intro hg
    have : (c.len > HALF ∨ n > HALF ∨ n > c.len) := by omega
    simp only [this, if_true]

theorem curAdvance_spec {h : Heap} {c : Cur} {n : Nat} (hc : CurOk h c) :
    CurOk h (curAdvance c n).1 ∧ CurOk h (curAdvance c n).2 ∧
    ((curAdvance c n).1.rid = none → (curAdvance c n).2 = c) ∧
    (curAdvance c n).2.len ≤ c.len := by
  by_cases hg : n ≤ c.len ∧ n ≤ HALF ∧ c.len ≤ HALF
  · rw [(curAdvance_eq c n).1 hg]
    obtain ⟨h1, h2⟩ := hc
    cases c with
    | mk rid off len =>
      cases rid with
      | none =>
        simp only [CurOk] at h2 ⊢
        simp only at hg
        have : n = 0 := by omega
        subst this
        simp_all
      | some r =>
        simp only [CurOk] at h1 h2 ⊢
        simp only at hg
        refine ⟨⟨by omega, h2.1, fun m e => by have := h2.2 m e; omega⟩,
                ⟨by omega, h2.1, fun m e => by have := h2.2 m e; simp; omega⟩, (fun e => by cases e), by simp⟩
  · rw [(curAdvance_eq c n).2 hg]
    exact ⟨CurOk.zero h, hc, fun _ => rfl, Nat.le_refl _⟩

/-! ### aws_nospec_mask -/
theorem pow63 : SIZE_MAX - SIZE_MAX / 2 = 2 ^ 63 := by decide
theorem smax : SIZE_MAX = 2 ^ 64 - 1 := rfl

theorem subW_lt (a b : Nat) : subW a b < W := Nat.mod_lt _ (by decide)

theorem nospecMask_cases {i b : Nat} (hi : i < W) (hb : b < W) : nospecMask i b = 0 ∨ nospecMask i b = SIZE_MAX := by
  unfold nospecMask
  simp only
  rw [pow63]
  have hq : (SIZE_MAX - (i ||| b ||| subW (subW b i) 1)) / 2 ^ 63 < 2 :=
    Nat.div_lt_of_lt_mul (by have := smax; omega)
  generalize (SIZE_MAX - (i ||| b ||| subW (subW b i) 1)) / 2 ^ 63 = q at hq
  have : q = 0 ∨ q = 1 := by omega
  rcases this with rfl | rfl
  · left; decide
  · right; decide

theorem nospecMask_ok {i b : Nat} (hib : i < b) (hb : b ≤ HALF) : nospecMask i b = SIZE_MAX := by
  unfold nospecMask
  simp only
  have hH : HALF < 2 ^ 63 := by decide
  have hHS : HALF ≤ SIZE_MAX := by decide
  have hsub1 : subW b i = b - i := subW_eq (by omega) (by omega)
  have hsub2 : subW (b - i) 1 = b - i - 1 := subW_eq (by omega) (by omega)
  rw [hsub1, hsub2]
  have hcomb : (i ||| b ||| (b - i - 1)) < 2 ^ 63 :=
    Nat.or_lt_two_pow (Nat.or_lt_two_pow (by omega) (by omega)) (by omega)
  rw [pow63]
  have hq : (SIZE_MAX - (i ||| b ||| (b - i - 1))) / 2 ^ 63 = 1 := by
    have h1 : (SIZE_MAX - (i ||| b ||| (b - i - 1))) / 2 ^ 63 < 2 := Nat.div_lt_of_lt_mul (by have := smax; omega)
    have h2 : 1 ≤ (SIZE_MAX - (i ||| b ||| (b - i - 1))) / 2 ^ 63 :=
      (Nat.le_div_iff_mul_le (by decide)).mpr (by have := smax; omega)
    omega
  rw [hq]; decide

theorem and_smax {x : Nat} (hx : x ≤ SIZE_MAX) : x &&& SIZE_MAX = x := by
  have h1 : SIZE_MAX = 2 ^ 64 - 1 := rfl
  rw [h1, Nat.and_two_pow_sub_one_eq_mod]
  exact Nat.mod_eq_of_lt (by omega)

theorem subW_self0 : subW 0 0 = 0 := by decide
theorem zero_ne_smax : ¬ ((0 : Nat) = SIZE_MAX) := by decide

/-! ### aws_byte_cursor_advance_nospec (guard: `len ≤ c.len ∧ len ≤ SIZE_MAX/2 ∧ c.len < SIZE_MAX/2`) -/
theorem curAdvanceNospec_fail {c : Cur} {n : Nat} (hg : ¬ (n ≤ c.len ∧ n ≤ HALF ∧ c.len < HALF)) :
    curAdvanceNospec c n = (Cur.zero, c) := by
  unfold curAdvanceNospec
  rw [if_neg hg]

/-- under the guard the bound `c.len + 1` handed to `aws_nospec_mask` is at most `SIZE_MAX/2`: the mask is all-ones -/
theorem nospec_mask_guard {c : Cur} {n : Nat} (hg : n ≤ c.len ∧ n ≤ HALF ∧ c.len < HALF) :
    nospecMask n (addW c.len 1) = SIZE_MAX := by
  have hH : HALF ≤ SIZE_MAX := by decide
  have : addW c.len 1 = c.len + 1 := addW_eq (by have := HALF_lt; omega)
  rw [this]
  exact nospecMask_ok (by omega) (by omega)

/-- under its guard nospec = advance -/
theorem curAdvanceNospec_ok {c : Cur} {n : Nat} (hg : n ≤ c.len ∧ n ≤ HALF ∧ c.len < HALF) :
    curAdvanceNospec c n = curAdvance c n := by
  have hH : HALF ≤ SIZE_MAX := by decide
  have hn : n ≤ SIZE_MAX := by omega
  have hl : c.len ≤ SIZE_MAX := by omega
  have hg' : n ≤ c.len ∧ n ≤ HALF ∧ c.len ≤ HALF := ⟨hg.1, hg.2.1, by omega⟩
  rw [(curAdvance_eq c n).1 hg']
  unfold curAdvanceNospec
  rw [if_pos hg, nospec_mask_guard hg]
  unfold nospecApply maskPtr
  rw [if_pos rfl, and_smax hn, and_smax hn, and_smax hl, subW_eq hg.1 hl]
  cases c with
  | mk rid off len => cases rid <;> simp

theorem curAdvanceNospec_spec {h : Heap} {c : Cur} {n : Nat} (hc : CurOk h c) :
    CurOk h (curAdvanceNospec c n).1 ∧ CurOk h (curAdvanceNospec c n).2 ∧
    ((curAdvanceNospec c n).1.rid = none → (curAdvanceNospec c n).2 = c) ∧
    ((curAdvanceNospec c n).1.rid.isSome → (curAdvanceNospec c n).1.len = n) := by
  by_cases hg : n ≤ c.len ∧ n ≤ HALF ∧ c.len < HALF
  · rw [curAdvanceNospec_ok hg]
    have hg' : n ≤ c.len ∧ n ≤ HALF ∧ c.len ≤ HALF := ⟨hg.1, hg.2.1, by omega⟩
    obtain ⟨a, b, c', _⟩ := curAdvance_spec (n := n) hc
    refine ⟨a, b, c', ?_⟩
    rw [(curAdvance_eq c n).1 hg']
    intro _; rfl
  · rw [curAdvanceNospec_fail hg]
    exact ⟨CurOk.zero h, hc, fun _ => rfl, (fun e => by cases e)⟩

/-! ### aws_byte_cursor_read and the fixed-width reads -/
theorem curRead_spec {h : Heap} {c c' : Cur} {n : Nat} {ok : Bool} {cells : List Cell} (hc : CurOk h c)
    (eq : curRead h c n = .ok (ok, cells, c')) :
    CurOk h c' ∧ (ok = false → c' = c) ∧ (ok = true → cells.length = n) := by
  unfold curRead at eq
  split at eq
  · rename_i hn
    cases eq; exact ⟨hc, fun _ => rfl, fun _ => by simp [hn]⟩
  · obtain ⟨s1, s2, s3, s4⟩ := curAdvanceNospec_spec (n := n) hc
    generalize curAdvanceNospec c n = p at *
    obtain ⟨slice, cc⟩ := p
    simp only at eq s1 s2 s3 s4
    split at eq
    · obtain ⟨cl, hl, eq⟩ := bind_ok eq
      cases eq
      exact ⟨s2, (fun e => by cases e), fun _ => Cur.load_length hl⟩
    · rename_i hr
      cases eq
      exact ⟨s2, fun _ => s3 hr, (fun e => by cases e)⟩

theorem curRead_not_oob {h : Heap} {c : Cur} {n : Nat} (hc : CurOk h c) : curRead h c n ≠ .error .oob := by
  unfold curRead
  split
  · simp
  · obtain ⟨s1, s2, s3, s4⟩ := curAdvanceNospec_spec (n := n) hc
    generalize curAdvanceNospec c n = p at *
    obtain ⟨slice, cc⟩ := p
    simp only at s1 s2 s3 s4 ⊢
    split
    · rename_i r hr
      have := s4 (by simp [hr])
      apply bind_not_oob (Cur.load_not_oob s1 (by omega))
      intro _ _; simp
    · simp

theorem curReadBe_spec {h : Heap} {c c' : Cur} {k v : Nat} {ok : Bool} (hc : CurOk h c)
    (eq : curReadBe h c k = .ok (ok, v, c')) : CurOk h c' ∧ (ok = false → c' = c) := by
  unfold curReadBe at eq
  obtain ⟨⟨ok1, cells, c1⟩, hr, eq⟩ := bind_ok eq
  cases eq
  obtain ⟨a, b, _⟩ := curRead_spec hc hr
  exact ⟨a, b⟩

theorem curReadBe_not_oob {h : Heap} {c : Cur} {k : Nat} (hc : CurOk h c) : curReadBe h c k ≠ .error .oob := by
  unfold curReadBe
  apply bind_not_oob (curRead_not_oob hc)
  intro _ _; simp

theorem curReadHexU8_spec {h : Heap} {c c' : Cur} {v : Nat} {ok : Bool} (hc : CurOk h c)
    (eq : curReadHexU8 h c = .ok (ok, v, c')) : CurOk h c' ∧ (ok = false → c' = c) := by
  unfold curReadHexU8 at eq
  split at eq
  · rename_i hl
    obtain ⟨a, _, eq⟩ := bind_ok eq
    obtain ⟨b, _, eq⟩ := bind_ok eq
    simp only at eq
    split at eq
    · cases eq
      refine ⟨?_, (fun e => by cases e)⟩
      obtain ⟨h1, h2⟩ := hc
      cases c with
      | mk rid off len =>
        cases rid with
        | none => simp only at h2 hl; omega
        | some r =>
          simp only [CurOk] at h1 h2 ⊢
          simp only at hl
          exact ⟨by omega, h2.1, fun m e => by have := h2.2 m e; omega⟩
    · cases eq; exact ⟨hc, fun _ => rfl⟩
  · cases eq; exact ⟨hc, fun _ => rfl⟩

theorem curReadHexU8_not_oob {h : Heap} {c : Cur} (hc : CurOk h c) : curReadHexU8 h c ≠ .error .oob := by
  unfold curReadHexU8
  split
  · apply bind_not_oob (Cur.load_not_oob hc (by omega))
    intro _ _
    apply bind_not_oob (Cur.load_not_oob hc (by omega))
    intro _ _
    simp only
    split <;> simp
  · simp

end AwsVerif.Proofs.C01
