import AwsVerif.Proofs.C01.Cores
/-! C01 helper layer 3b: the functions that acquire or release blocks. -/
namespace AwsVerif.Proofs.C01
open AwsVerif.ByteBuf

/-- the release log only grows, and every new entry tagged `secure` carries an all-zero snapshot -/
def EvStep (ev ev' : List Release) : Prop :=
  ∃ new, ev' = ev ++ new ∧ ∀ e ∈ new, e.secure = true → ∀ c ∈ e.snapshot, c = some 0

/-- at most one block was released: the one `rid` points to, of the size `cap` the header claims -/
def RelInfo (ev ev' : List Release) (rid : Option Nat) (cap : Nat) (sec : Bool) : Prop :=
  ev' = ev ∨ ∃ r reg, rid = some r ∧ ev' = ev ++ [⟨r, reg, sec⟩] ∧ reg.length = cap

theorem EvStep.refl (ev : List Release) : EvStep ev ev := ⟨[], by simp, by simp⟩

theorem EvStep.trans {a b c : List Release} (h1 : EvStep a b) (h2 : EvStep b c) : EvStep a c := by
  obtain ⟨n1, e1, p1⟩ := h1
  obtain ⟨n2, e2, p2⟩ := h2
  refine ⟨n1 ++ n2, by rw [e2, e1, List.append_assoc], ?_⟩
  intro e he
  rcases List.mem_append.mp he with h | h
  · exact p1 e h
  · exact p2 e h

theorem BufOk.zero (h : Heap) : BufOk h Buf.zero := by
  simp [BufOk, Buf.zero]

theorem Frame.regLen_other {h h' : Heap} {own : Option Nat} (f : Frame h h' own) {r : Nat} (hr : r < h.length)
    (hne : some r ≠ own) : regLen h' r = regLen h r := by
  unfold regLen; rw [f.other r hr hne]

/-! ### init -/
theorem bufInit_spec {m : Mem} {cap : Nat} (old : Buf) (hc : cap ≤ SIZE_MAX) :
    BufStep m.heap (bufInit m cap).1.heap old (bufInit m cap).2 ∧ (bufInit m cap).1.events = m.events ∧
    (bufInit m cap).2.len = 0 ∧ (bufInit m cap).2.owned = true := by
  unfold bufInit
  split
  · exact ⟨⟨Frame.refl _ _, by simp [BufOk], Or.inr (Or.inl rfl)⟩, rfl, rfl, rfl⟩
  · rename_i hne
    obtain ⟨hr, hev, hlen, hreg, hf⟩ := alloc_spec m cap
    refine ⟨⟨hf.weaken, ?_, Or.inr (Or.inr ⟨m.heap.length, rfl, Nat.le_refl _⟩)⟩, hev, rfl, rfl⟩
    refine ⟨Nat.zero_le _, hc, ?_⟩
    simp only
    exact ⟨by omega, by rw [hr]; simp [regLen, hreg]⟩

/-- a fresh block of `cap` cells with `cells` stored at its start -/
theorem fresh_store {m : Mem} {cap : Nat} {cells : List Cell} {h2 : Heap} {l : Nat} (hcap : 0 < cap)
    (hc : cap ≤ SIZE_MAX) (hl : l ≤ cap)
    (hst : (⟨some (m.alloc cap).2, l, cap, true⟩ : Buf).store (m.alloc cap).1.heap 0 cells = .ok h2) (old : Buf) :
    BufStep m.heap h2 old ⟨some (m.alloc cap).2, l, cap, true⟩ ∧
    (regionCells h2 (some m.heap.length)).take cells.length = cells ∧ (cells.length ≤ cap) := by
  obtain ⟨hr, hev, hlen, hreg, hf⟩ := alloc_spec m cap
  obtain ⟨hf2, hlen2, hreg2⟩ := Buf.store_frame hst
  have hcl : cells.length ≤ cap := by
    unfold Buf.store at hst
    split at hst
    · omega
    · split at hst
      · simp at *; omega
      · cases hst
  refine ⟨⟨?_, ?_, Or.inr (Or.inr ⟨m.heap.length, rfl, Nat.le_refl _⟩)⟩, ?_, hcl⟩
  · exact (hf.weaken).trans hf2 (Or.inr (Or.inr ⟨m.heap.length, rfl, Nat.le_refl _⟩))
  · refine ⟨hl, hc, ?_⟩
    simp only
    refine ⟨hcap, ?_⟩
    rw [hreg2]; simp [hr, regLen, hreg]
  · have := Buf.store_cells hst
    simp only [hr] at this
    rw [this]
    split
    · rename_i h0
      simp [List.length_eq_zero_iff.mp h0]
    · simp [regionCells, hreg, splice]

/-! ### init_copy -/
theorem bufInitCopy_spec {m m' : Mem} {dest src nb : Buf} {e : Option Err} (hd : BufOk m.heap dest)
    (hs : BufOk m.heap src) (eq : bufInitCopy m dest src = .ok (e, m', nb)) :
    BufStep m.heap m'.heap dest nb ∧ m'.events = m.events ∧ (e.isSome → m' = m ∧ nb = dest) := by
  unfold bufInitCopy at eq
  split at eq
  · cases eq; exact ⟨BufStep.same hd, rfl, fun _ => ⟨rfl, rfl⟩⟩
  · split at eq
    · cases eq
      exact ⟨⟨Frame.refl _ _, by simp [BufOk], Or.inr (Or.inl rfl)⟩, rfl, (fun e => by cases e)⟩
    · rename_i r hr
      simp only at eq
      obtain ⟨cells, hl, eq⟩ := bind_ok eq
      obtain ⟨h2, hst, eq⟩ := bind_ok eq
      cases eq
      have h2' := hs.2.2
      simp [hr] at h2'
      obtain ⟨hst', _, _⟩ := fresh_store h2'.1 hs.2.1 hs.1 hst dest
      exact ⟨hst', rfl, (fun e => by cases e)⟩

theorem bufInitCopy_not_oob {m : Mem} {dest src : Buf} (hs : BufOk m.heap src) : bufInitCopy m dest src ≠ .error .oob := by
  unfold bufInitCopy
  split
  · simp
  · split
    · simp
    · rename_i r hr
      simp only
      obtain ⟨hr', hev, hlen, hreg, hf⟩ := alloc_spec m src.cap
      have hs1 : BufOk (m.alloc src.cap).1.heap src := hs.frame hf (by simp)
      apply bind_not_oob (Buf.load_not_oob hs1.regOk (by have := hs.1; omega))
      intro cells hl
      apply bind_not_oob
      · apply Buf.store_not_oob
        · simp [RegOk, regLen, hr', hreg]
        · simp [Buf.load_length hl]; exact hs.1
      · intro _ _; simp

/-! ### init_copy_from_cursor -/
theorem bufInitCopyFromCursor_spec {m m' : Mem} {dest nb : Buf} {src : Cur} {e : Option Err} (hd : BufOk m.heap dest)
    (hs : CurOk m.heap src) (eq : bufInitCopyFromCursor m dest src = .ok (e, m', nb)) :
    BufStep m.heap m'.heap dest nb ∧ m'.events = m.events ∧ (e.isSome → m' = m ∧ nb = dest) := by
  unfold bufInitCopyFromCursor at eq
  split at eq
  · cases eq; exact ⟨BufStep.same hd, rfl, fun _ => ⟨rfl, rfl⟩⟩
  · split at eq
    · cases eq
      exact ⟨⟨Frame.refl _ _, by simp [BufOk], Or.inr (Or.inl rfl)⟩, rfl, (fun e => by cases e)⟩
    · rename_i hne
      simp only at eq
      obtain ⟨cells, hl, eq⟩ := bind_ok eq
      obtain ⟨h2, hst, eq⟩ := bind_ok eq
      cases eq
      obtain ⟨hst', _, _⟩ := fresh_store (by omega) hs.1 (Nat.le_refl _) hst dest
      exact ⟨hst', rfl, (fun e => by cases e)⟩

theorem bufInitCopyFromCursor_not_oob {m : Mem} {dest : Buf} {src : Cur} (hs : CurOk m.heap src) :
    bufInitCopyFromCursor m dest src ≠ .error .oob := by
  unfold bufInitCopyFromCursor
  split
  · simp
  · split
    · simp
    · simp only
      obtain ⟨hr', hev, hlen, hreg, hf⟩ := alloc_spec m src.len
      apply bind_not_oob (Cur.load_not_oob (hs.frame hf) (by omega))
      intro cells hl
      apply bind_not_oob
      · apply Buf.store_not_oob
        · simp [RegOk, regLen, hr', hreg]
        · simp [Cur.load_length hl]
      · intro _ _; simp

/-! ### clean_up / clean_up_secure -/
theorem bufCleanUp_spec {m m' : Mem} {b b' : Buf} {sec : Bool} (hb : BufOk m.heap b)
    (hz : sec = true → ∀ r, b.rid = some r → ∀ c ∈ regionCells m.heap (some r), c = some 0)
    (eq : bufCleanUp m b sec = .ok (m', b')) :
    BufStep m.heap m'.heap b b' ∧ b' = Buf.zero ∧ EvStep m.events m'.events ∧
    RelInfo m.events m'.events b.rid b.cap sec := by
  unfold bufCleanUp at eq
  split at eq
  · rename_i r ho hr
    obtain ⟨m2, hrel, eq⟩ := bind_ok eq
    cases eq
    obtain ⟨reg, hreg, hev, _, hf, _⟩ := release_spec hrel
    have hlen : reg.length = b.cap := by
      have h2 := hb.2.2
      simp [hr] at h2
      have := h2.2
      simp [regLen, hreg] at this
      exact this
    refine ⟨⟨by rw [hr]; exact hf, BufOk.zero _, Or.inr (Or.inl rfl)⟩, rfl, ⟨[⟨r, reg, sec⟩], hev, ?_⟩,
      Or.inr ⟨r, reg, hr, hev, hlen⟩⟩
    intro e he hs
    simp at he; subst he
    have := hz hs r hr
    simpa [regionCells, hreg] using this
  · cases eq
    exact ⟨⟨Frame.refl _ _, BufOk.zero _, Or.inr (Or.inl rfl)⟩, rfl, EvStep.refl _, Or.inl rfl⟩

theorem bufCleanUp_not_oob {m : Mem} {b : Buf} {sec : Bool} : bufCleanUp m b sec ≠ .error .oob := by
  unfold bufCleanUp
  split
  · apply bind_not_oob (release_not_oob _ _ _)
    intro _ _; simp
  · simp

theorem BufStep.trans {h h1 h2 : Heap} {b b1 b2 : Buf} (s1 : BufStep h h1 b b1) (s2 : BufStep h1 h2 b1 b2)
    (hr : b1.rid = b.rid) : BufStep h h2 b b2 := by
  refine ⟨s1.frame.trans s2.frame (Or.inl hr), s2.ok, ?_⟩
  rcases s2.rid with e | e | ⟨r, e, hge⟩
  · exact Or.inl (e.trans hr)
  · exact Or.inr (Or.inl e)
  · exact Or.inr (Or.inr ⟨r, e, Nat.le_trans s1.frame.len hge⟩)

theorem bufCleanUpSecure_spec {m m' : Mem} {b b' : Buf} (hb : BufOk m.heap b)
    (eq : bufCleanUpSecure m b = .ok (m', b')) :
    BufStep m.heap m'.heap b b' ∧ b' = Buf.zero ∧ EvStep m.events m'.events ∧
    RelInfo m.events m'.events b.rid b.cap true := by
  unfold bufCleanUpSecure at eq
  obtain ⟨⟨h1, b1⟩, hz, eq⟩ := bind_ok eq
  obtain ⟨s1, hb1, hzero⟩ := bufSecureZero_spec hb hz
  subst hb1
  have := bufCleanUp_spec (m := { m with heap := h1 }) s1.ok (by
    intro _ r hr c hc
    have := hzero r hr
    simp [regionCells, this] at hc
    exact hc.2) eq
  exact ⟨s1.trans this.1 rfl, this.2.1, this.2.2.1, this.2.2.2⟩

theorem bufCleanUpSecure_not_oob {m : Mem} {b : Buf} (hb : BufOk m.heap b) : bufCleanUpSecure m b ≠ .error .oob := by
  unfold bufCleanUpSecure
  apply bind_not_oob (bufSecureZero_not_oob hb)
  intro _ _
  exact bufCleanUp_not_oob

end AwsVerif.Proofs.C01
