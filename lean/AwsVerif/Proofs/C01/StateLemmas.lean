import AwsVerif.Proofs.C01.Search
/-! C01 helper layer 4: lifting buffer/cursor-level facts to the slot state. -/
namespace AwsVerif.Proofs.C01
open AwsVerif.ByteBuf

theorem WF.bufOk {s : State} (hw : WF s) (i : Nat) : BufOk s.mem.heap (s.bufs i) := hw.1.1 i
theorem WF.curOk {s : State} (hw : WF s) (i : Nat) : CurOk s.mem.heap (s.curs i) := hw.2.1 i

/-- replace the memory and one buffer slot by the outcome of a `BufStep` -/
theorem WF.setBufMem {s : State} {m' : Mem} {i : Nat} {nb : Buf} (hw : WF s)
    (st : BufStep s.mem.heap m'.heap (s.bufs i) nb) : WF ({ s with mem := m' }.setBuf i nb) := by
  obtain ⟨⟨hbufs, hdis⟩, hcurs, hne⟩ := hw
  have hother : ∀ j, j ≠ i → ∀ r, (s.bufs j).rid = some r → some r ≠ (s.bufs i).rid := by
    intro j hj r hr e
    exact hj (hdis j i r hr e.symm)
  refine ⟨⟨?_, ?_⟩, ?_, Nat.lt_of_lt_of_le hne st.frame.len⟩
  · intro j
    simp only [State.setBuf]
    split
    · exact st.ok
    · rename_i hj
      exact (hbufs j).frame st.frame (hother j hj)
  · intro j k r hj hk
    simp only [State.setBuf] at hj hk
    have fresh : ∀ l, l ≠ i → nb.rid = some r → (s.bufs l).rid = some r → False := by
      intro l hl hn hr
      rcases st.rid with e | e | ⟨r', e, hge⟩
      · rw [e] at hn; exact hl (hdis l i r hr hn)
      · rw [e] at hn; cases hn
      · rw [e] at hn; cases hn
        have := (hbufs l).rid_lt hr
        omega
    split at hj <;> split at hk
    · omega
    · rename_i h1 h2; subst h1; exact (fresh k h2 hj hk).elim
    · rename_i h1 h2; subst h2; exact (fresh j h1 hk hj).elim
    · exact hdis j k r hj hk
  · intro j
    exact (hcurs j).frame st.frame

theorem WF.setCur {s : State} {i : Nat} {c : Cur} (hw : WF s) (hc : CurOk s.mem.heap c) : WF (s.setCur i c) := by
  refine ⟨hw.1, ?_, hw.2.2⟩
  intro j
  simp only [State.setCur]
  split
  · exact hc
  · exact hw.2.1 j

theorem setBuf_self (s : State) (i : Nat) : s.setBuf i (s.bufs i) = s := by
  cases s
  simp only [State.setBuf, State.mk.injEq, true_and, and_true]
  funext j
  split
  · rename_i e; rw [e]
  · rfl

theorem setCur_self (s : State) (i : Nat) : s.setCur i (s.curs i) = s := by
  cases s
  simp only [State.setCur, State.mk.injEq, true_and]
  funext j
  split
  · rename_i e; rw [e]
  · rfl

theorem setHeap_self (s : State) : s.setHeap s.mem.heap = s := by
  cases s; rfl

theorem mem_self (s : State) : ({ s with mem := s.mem } : State) = s := by cases s; rfl


/-- replace the memory by one that only gained fresh blocks -/
theorem WF.setMem {s : State} {m' : Mem} (hw : WF s) (f : Frame s.mem.heap m'.heap none) : WF { s with mem := m' } := by
  obtain ⟨⟨hbufs, hdis⟩, hcurs, hne⟩ := hw
  exact ⟨⟨fun j => (hbufs j).frame f (by simp), hdis⟩, fun j => (hcurs j).frame f, Nat.lt_of_lt_of_le hne f.len⟩

/-- a fresh block filled by one `storeN` at offset 0 -/
theorem fresh_storeN {m : Mem} {n : Nat} {cells : List Cell} {h2 : Heap} (hc : cells.length = n)
    (hst : storeN (m.alloc n).1.heap (some (m.alloc n).2) 0 cells = .ok h2) :
    Frame m.heap h2 none ∧ regLen h2 m.heap.length = some n ∧ m.heap.length < h2.length := by
  obtain ⟨hr, hev, hlen, hreg, hf⟩ := alloc_spec m n
  rw [hr] at hst
  obtain ⟨hf2, hlen2, hreg2⟩ := storeN_frame hst
  refine ⟨hf.trans hf2 (Or.inr (Or.inr ⟨_, rfl, Nat.le_refl _⟩)), ?_, by omega⟩
  rw [hreg2]; simp [regLen, hreg]

theorem BufOk.asCur {h : Heap} {b : Buf} (hb : BufOk h b) : CurOk h b.asCur := by
  have hl := hb.1; have hm := hb.2.1
  refine ⟨by simp [Buf.asCur]; omega, ?_⟩
  simp only [Buf.asCur]
  have h2 := hb.2.2
  cases hr : b.rid with
  | none => simp [hr] at h2; simp; omega
  | some r =>
    simp [hr] at h2
    simp only
    exact ⟨regLen_lt h2.2, fun n e => by rw [h2.2] at e; cases e; omega⟩

end AwsVerif.Proofs.C01
