import AwsVerif.Proofs.C01.StepInv
/-! C01: no operation on a well-formed state performs an out-of-bounds access (`step_not_oob`). -/
namespace AwsVerif.Proofs.C01
open AwsVerif.ByteBuf

theorem lit_ok {h : Heap} {bs : List UInt8} (hl : bs.length ≤ SIZE_MAX) : SrcOk h (.lit bs) := hl

theorem beBytes_ok {h : Heap} {k x : Nat} (hk : k ≤ 8) : SrcOk h (.lit (beBytes k x)) := by
  show (beBytes k x).length ≤ SIZE_MAX
  rw [beBytes_length]
  have : (8 : Nat) ≤ SIZE_MAX := by decide
  omega

/-- closes `(do let x ← core; .ok …) ≠ .error .oob` -/
theorem wrap_not_oob {α β : Type} {x : Except Fault α} {f : α → β} (hx : x ≠ .error .oob) :
    (x >>= fun a => Except.ok (f a)) ≠ .error .oob :=
  bind_not_oob hx (fun _ _ => by simp)

theorem bufWrite_lit_not_oob {h : Heap} {b : Buf} {bs : List UInt8} {n : Nat} (hb : BufOk h b)
    (hn : n ≤ bs.length) : bufWrite h b (.lit bs) n ≠ .error .oob := by
  unfold bufWrite
  split
  · simp
  · split
    · simp
    · have hl : Src.load h (.lit bs) 0 n = .ok (((bs.drop 0).take n).map some) := by
        simp only [Src.load]
        rw [if_pos (by omega)]
      rw [hl]
      apply bind_not_oob (by simp)
      intro cells hc
      cases hc
      apply bind_not_oob (Buf.store_not_oob hb.regOk (by simp [List.length_take]; omega))
      intro _ _; simp

/-- caller-side precondition of `aws_byte_buf_write(buf, src, len)`: `src` is readable for `len` bytes
(`AWS_MEM_IS_READABLE(src, len)`); every other operation has none beyond well-formedness. -/
def _root_.AwsVerif.ByteBuf.Op.srcReadable : Op → Prop
  | .write _ bs n => n ≤ bs.length
  | _ => True

theorem step_not_oob {s : State} {op : Op} (hw : WF s) (hpre : op.srcReadable) : step s op ≠ .error .oob := by
  cases op with
  | curFromBytes c bs =>
    simp only [step]
    split
    · simp
    · obtain ⟨hr, hev, hlen, hreg, hf⟩ := alloc_spec s.mem bs.length
      have := storeN_not_oob (h := (s.mem.alloc bs.length).1.heap) (r := (s.mem.alloc bs.length).2) (off := 0)
        (cells := bs.map some) (m := bs.length) (by rw [hr]; simp [regLen, hreg]) (by simp)
      split
      · simp
      · rename_i e he
        intro heq; cases heq
        exact this he
  | curNull c => simp [step]
  | curInto c b off len =>
    simp only [step]
    split
    · split <;> simp
    · simp
  | curFromBuf c b => simp [step]
  | curSub dst src off len =>
    simp only [step]
    split <;> simp
  | bufFromArray b bs =>
    simp only [step]
    split
    · simp
    · split
      · simp
      · obtain ⟨hr, hev, hlen, hreg, hf⟩ := alloc_spec s.mem bs.length
        have := storeN_not_oob (h := (s.mem.alloc bs.length).1.heap) (r := (s.mem.alloc bs.length).2) (off := 0)
          (cells := bs.map some) (m := bs.length) (by rw [hr]; simp [regLen, hreg]) (by simp)
        split
        · simp
        · rename_i e he
          intro heq; cases heq
          exact this he
  | bufFromEmptyArray b cap =>
    simp only [step]
    split
    · simp
    · split <;> simp
  | init b cap =>
    simp only [step]
    split <;> simp
  | initCopy d src =>
    simp only [step]
    exact bind_not_oob (bufInitCopy_not_oob (hw.bufOk src)) (fun _ _ => by simp)
  | initCopyFromCursor d c =>
    simp only [step]
    exact bind_not_oob (bufInitCopyFromCursor_not_oob (hw.curOk c)) (fun _ _ => by simp)
  | reset b zero =>
    simp only [step]
    exact bind_not_oob (bufReset_not_oob (hw.bufOk b)) (fun _ _ => by simp)
  | secureZero b =>
    simp only [step]
    exact bind_not_oob (bufSecureZero_not_oob (hw.bufOk b)) (fun _ _ => by simp)
  | cleanUp b =>
    simp only [step]
    exact bind_not_oob bufCleanUp_not_oob (fun _ _ => by simp)
  | cleanUpSecure b =>
    simp only [step]
    exact bind_not_oob (bufCleanUpSecure_not_oob (hw.bufOk b)) (fun _ _ => by simp)
  | append b c =>
    simp only [step]
    exact bind_not_oob (bufAppend_not_oob (hw.bufOk b) (hw.curOk c)) (fun _ _ => by simp)
  | appendWithLookup b c =>
    simp only [step]
    exact bind_not_oob (bufAppendWithLookup_not_oob (hw.bufOk b) (hw.curOk c)) (fun _ _ => by simp)
  | appendDynamic b c secure =>
    simp only [step]
    exact bind_not_oob (bufAppendDynamic_not_oob (fr := .cur (s.curs c)) (hw.bufOk b) (hw.curOk c)) (fun _ _ => by simp)
  | appendByteDynamic b v secure =>
    simp only [step]
    exact bind_not_oob (bufAppendDynamic_not_oob (hw.bufOk b) (lit_ok (by simp; decide))) (fun _ _ => by simp)
  | appendAndUpdate b c =>
    simp only [step]
    exact bind_not_oob (bufAppendAndUpdate_not_oob (hw.bufOk b) (hw.curOk c)) (fun _ _ => by simp)
  | appendNullTerminator b =>
    simp only [step]
    exact bind_not_oob (bufAppendDynamic_not_oob (hw.bufOk b) (lit_ok (by simp; decide))) (fun _ _ => by simp)
  | cat d srcs =>
    simp only [step]
    exact bind_not_oob (catLoop_not_oob srcs (hw.bufOk d) (fun i _ => (hw.bufOk i).asCur)) (fun _ _ => by simp)
  | reserve b n =>
    simp only [step]
    split
    · simp
    · exact bind_not_oob (bufReserve_not_oob (hw.bufOk b)) (fun _ _ => by simp)
  | reserveRelative b n =>
    simp only [step]
    exact bind_not_oob (bufReserveRelative_not_oob (hw.bufOk b)) (fun _ _ => by simp)
  | reserveSmart b n =>
    simp only [step]
    split
    · simp
    · exact bind_not_oob (bufReserveSmart_not_oob (hw.bufOk b)) (fun _ _ => by simp)
  | reserveSmartRelative b n =>
    simp only [step]
    exact bind_not_oob (bufReserveSmartRelative_not_oob (hw.bufOk b)) (fun _ _ => by simp)
  | bufAdvance b n => simp [step]
  | write b bs n =>
    simp only [step]
    exact bind_not_oob (bufWrite_lit_not_oob (hw.bufOk b) hpre) (fun _ _ => by simp)
  | writeFromWholeBuffer b src =>
    simp only [step]
    exact bind_not_oob (bufWrite_not_oob (src := .cur (s.bufs src).asCur) (hw.bufOk b) (hw.bufOk src).asCur (Nat.le_refl _)) (fun _ _ => by simp)
  | writeFromWholeCursor b c =>
    simp only [step]
    exact bind_not_oob (bufWrite_not_oob (src := .cur (s.curs c)) (hw.bufOk b) (hw.curOk c) (Nat.le_refl _)) (fun _ _ => by simp)
  | writeToCapacity b c =>
    simp only [step]
    exact bind_not_oob (bufWriteToCapacity_not_oob (hw.bufOk b) (hw.curOk c)) (fun _ _ => by simp)
  | writeU8 b v =>
    simp only [step]
    exact bind_not_oob (bufWrite_not_oob (hw.bufOk b) (lit_ok (by simp; decide)) (by simp [Src.len])) (fun _ _ => by simp)
  | writeU8N b v n =>
    simp only [step]
    exact bind_not_oob (bufWriteU8N_not_oob (hw.bufOk b)) (fun _ _ => by simp)
  | writeBe b k x =>
    simp only [step]
    exact bind_not_oob (bufWrite_lit_not_oob (hw.bufOk b) (by rw [beBytes_length]; exact Nat.le_refl _)) (fun _ _ => by simp)
  | writeBe24 b x =>
    simp only [step]
    refine bind_not_oob ?_ (fun _ _ => by simp)
    unfold bufWriteBe24
    split
    · simp
    · exact bufWrite_not_oob (hw.bufOk b) (beBytes_ok (by decide)) (by simp [Src.len, beBytes_length])
  | advance c n => simp [step]
  | advanceNospec c n => simp [step]
  | read c n =>
    simp only [step]
    exact bind_not_oob (curRead_not_oob (hw.curOk c)) (fun _ _ => by simp)
  | readAndFillBuffer c b =>
    simp only [step]
    exact bind_not_oob (curReadAndFill_not_oob (hw.bufOk b) (hw.curOk c)) (fun _ _ => by simp)
  | readBe c k =>
    simp only [step]
    exact bind_not_oob (curReadBe_not_oob (hw.curOk c)) (fun _ _ => by simp)
  | readHexU8 c =>
    simp only [step]
    exact bind_not_oob (curReadHexU8_not_oob (hw.curOk c)) (fun _ _ => by simp)
  | nextSplit input ch sub =>
    simp only [step]
    exact bind_not_oob (curNextSplit_not_oob (hw.curOk input)) (fun _ _ => by simp)
  | splitOnCharN input ch n k =>
    simp only [step]
    exact bind_not_oob (splitLoop_not_oob (hw.curOk input) _ _ _ _) (fun _ _ => by simp)
  | findExact input toFind out =>
    simp only [step]
    exact bind_not_oob (curFindExact_not_oob (hw.curOk input) (hw.curOk toFind)) (fun _ _ => by simp)
  | leftTrim c p =>
    simp only [step]
    exact bind_not_oob (leftTrimLoop_not_oob _ (hw.curOk c)) (fun _ _ => by simp)
  | rightTrim c p =>
    simp only [step]
    exact bind_not_oob (rightTrimLoop_not_oob _ (hw.curOk c)) (fun _ _ => by simp)
  | trim c p =>
    simp only [step]
    exact bind_not_oob (curTrim_not_oob (hw.curOk c)) (fun _ _ => by simp)
  | satisfies c p =>
    simp only [step]
    exact bind_not_oob (curSatisfies_not_oob (hw.curOk c)) (fun _ _ => by simp)
  | startsWith c p ic =>
    simp only [step]
    exact bind_not_oob (curStartsWith_not_oob (hw.curOk c) (hw.curOk p)) (fun _ _ => by simp)
  | curEq a b ic =>
    simp only [step]
    refine bind_not_oob ?_ (fun _ _ => by simp)
    split
    · exact arrayEqIgnoreCase_not_oob (a := .cur _) (b := .cur _) (hw.curOk a) (hw.curOk b)
    · exact arrayEq_not_oob (a := .cur _) (b := .cur _) (hw.curOk a) (hw.curOk b)
  | curEqBuf c b ic =>
    simp only [step]
    refine bind_not_oob ?_ (fun _ _ => by simp)
    split
    · exact arrayEqIgnoreCase_not_oob (a := .cur _) (b := .cur _) (hw.curOk c) (hw.bufOk b).asCur
    · exact arrayEq_not_oob (a := .cur _) (b := .cur _) (hw.curOk c) (hw.bufOk b).asCur
  | curEqCStr c str ic =>
    simp only [step]
    exact bind_not_oob (arrayEqCStr_not_oob (a := .cur _) (hw.curOk c)) (fun _ _ => by simp)
  | bufEq a b ic =>
    simp only [step]
    refine bind_not_oob ?_ (fun _ _ => by simp)
    split
    · exact arrayEqIgnoreCase_not_oob (a := .cur _) (b := .cur _) (hw.bufOk a).asCur (hw.bufOk b).asCur
    · exact arrayEq_not_oob (a := .cur _) (b := .cur _) (hw.bufOk a).asCur (hw.bufOk b).asCur
  | bufEqCStr b str ic =>
    simp only [step]
    exact bind_not_oob (arrayEqCStr_not_oob (a := .cur _) (hw.bufOk b).asCur) (fun _ _ => by simp)
  | compareLexical a b =>
    simp only [step]
    exact bind_not_oob (curCompareLexical_not_oob (hw.curOk a) (hw.curOk b)) (fun _ _ => by simp)
  | compareLookup a b =>
    simp only [step]
    exact bind_not_oob (curCompareLookup_not_oob (hw.curOk a) (hw.curOk b)) (fun _ _ => by simp)
  | parseU64 c base =>
    simp only [step]
    exact bind_not_oob (curParseU64_not_oob (hw.curOk c)) (fun _ _ => by simp)
  | normalizeSep b =>
    simp only [step]
    exact bind_not_oob (bufNormalizeSep_not_oob (hw.bufOk b)) (fun _ _ => by simp)
  | hashIgnoreCase c =>
    simp only [step]
    exact bind_not_oob (curHashIgnoreCase_not_oob (hw.curOk c)) (fun _ _ => by simp)
  | initFromFile b f useHint sizeHint =>
    simp only [step]
    split
    · simp
    · exact bind_not_oob (bufInitFromFile_not_oob (by omega)) (fun _ _ => by simp)

end AwsVerif.Proofs.C01
