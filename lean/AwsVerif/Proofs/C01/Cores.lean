import AwsVerif.Proofs.C01.Access
/-! C01 helper layer 3: one specification lemma per modelled API function. -/
namespace AwsVerif.Proofs.C01
open AwsVerif.ByteBuf

theorem bind_ok {ε α β : Type} {x : Except ε α} {f : α → Except ε β} {b : β}
    (e : (x >>= f) = .ok b) : ∃ a, x = .ok a ∧ f a = .ok b := by
  cases x with
  | error err => cases e
  | ok a => exact ⟨a, rfl, e⟩

theorem bind_not_oob {α β : Type} {x : Except Fault α} {f : α → Except Fault β}
    (hx : x ≠ .error .oob) (hf : ∀ a, x = .ok a → f a ≠ .error .oob) : (x >>= f) ≠ .error .oob := by
  cases x with
  | error err => intro e; apply hx; cases e; rfl
  | ok a => exact hf a rfl

/-- what an operation on one buffer does: only that buffer's block (or fresh blocks) change, the
resulting buffer is valid, and it lives in the same block, in no block, or in a fresh one -/
structure BufStep (h h' : Heap) (b b' : Buf) : Prop where
  frame : Frame h h' b.rid
  ok : BufOk h' b'
  rid : b'.rid = b.rid ∨ b'.rid = none ∨ ∃ r, b'.rid = some r ∧ h.length ≤ r

theorem BufStep.same {h : Heap} {b : Buf} (hb : BufOk h b) : BufStep h h b b :=
  ⟨Frame.refl _ _, hb, Or.inl rfl⟩

theorem BufOk.lens {h : Heap} {b : Buf} (hb : BufOk h b) : b.len ≤ b.cap ∧ b.cap ≤ SIZE_MAX := ⟨hb.1, hb.2.1⟩

theorem BufOk.rid_lt {h : Heap} {b : Buf} {r : Nat} (hb : BufOk h b) (hr : b.rid = some r) : r < h.length := by
  have h2 := hb.2.2
  simp [hr] at h2
  exact regLen_lt h2.2

/-- BufOk depends on the heap only through region lengths -/
theorem BufOk.of_regLen {h h' : Heap} {b : Buf} (hb : BufOk h b) (hl : ∀ x, regLen h' x = regLen h x) : BufOk h' b := by
  unfold BufOk at *
  refine ⟨hb.1, hb.2.1, ?_⟩
  have h2 := hb.2.2
  split
  · simp_all
  · rename_i r hr
    simp [hr] at h2
    exact ⟨h2.1, by rw [hl]; exact h2.2⟩

theorem BufOk.setLen {h : Heap} {b : Buf} (hb : BufOk h b) {l : Nat} (hl : l ≤ b.cap) : BufOk h { b with len := l } := by
  unfold BufOk at *
  exact ⟨hl, hb.2.1, hb.2.2⟩

/-- prefix of a block is untouched by a store at or after `k` -/
theorem store_prefix {h h' : Heap} {b : Buf} {i k : Nat} {cells : List Cell} (hb : RegOk h b)
    (e : b.store h i cells = .ok h') (hk : k ≤ i) (hi : i + cells.length ≤ b.cap) :
    (regionCells h' b.rid).take k = (regionCells h b.rid).take k := by
  rw [Buf.store_cells e]
  split
  · rfl
  · rename_i hne
    apply take_splice hk
    unfold RegOk at hb
    cases hr : b.rid with
    | none => simp [hr] at hb; omega
    | some r =>
      simp [hr] at hb
      unfold regLen at hb
      cases hreg : region? h r with
      | none => simp [hreg] at hb
      | some reg => simp [hreg] at hb; simp [regionCells, hreg]; omega

/-! ### aws_byte_buf_append -/
theorem bufAppend_spec {h h' : Heap} {to to' : Buf} {fr : Cur} {e : Option Err} (hb : BufOk h to)
    (eq : bufAppend h to fr = .ok (e, h', to')) :
    BufStep h h' to to' ∧ to'.rid = to.rid ∧ to'.cap = to.cap ∧ to'.owned = to.owned ∧
    (e.isSome → h' = h ∧ to' = to) ∧
    (e = none → to'.len = to.len + fr.len ∧ (regionCells h' to.rid).take to.len = (regionCells h to.rid).take to.len) := by
  have hs := subW_eq hb.1 hb.2.1
  have hlc := hb.1
  have hcm := hb.2.1
  unfold bufAppend at eq
  rw [hs] at eq
  split at eq
  · cases eq
    exact ⟨BufStep.same hb, rfl, rfl, rfl, fun _ => ⟨rfl, rfl⟩, (fun e => by cases e)⟩
  · rename_i hfit
    split at eq
    · obtain ⟨cells, hl, eq⟩ := bind_ok eq
      obtain ⟨h2, hst, eq⟩ := bind_ok eq
      cases eq
      have hlen := Cur.load_length hl
      have hle : to.len + fr.len ≤ to.cap := by omega
      have hadd : addW to.len fr.len = to.len + fr.len := addW_eq (by have := hb.2.1; omega)
      obtain ⟨hf, _, hreg⟩ := Buf.store_frame hst
      refine ⟨⟨hf, ?_, Or.inl rfl⟩, rfl, rfl, rfl, (fun e => by cases e), fun _ => ⟨hadd, ?_⟩⟩
      · rw [hadd]; exact (hb.of_regLen hreg).setLen hle
      · exact store_prefix hb.regOk hst (Nat.le_refl _) (by omega)
    · cases eq
      exact ⟨BufStep.same hb, rfl, rfl, rfl, (fun e => by cases e), fun _ => ⟨by omega, rfl⟩⟩

theorem bufAppend_not_oob {h : Heap} {to : Buf} {fr : Cur} (hb : BufOk h to) (hc : CurOk h fr) :
    bufAppend h to fr ≠ .error .oob := by
  have hs := subW_eq hb.1 hb.2.1
  have hlc := hb.1
  have hcm := hb.2.1
  unfold bufAppend
  rw [hs]
  split
  · simp
  · split
    · apply bind_not_oob (Cur.load_not_oob hc (by omega))
      intro cells hl
      apply bind_not_oob (Buf.store_not_oob hb.regOk (by rw [Cur.load_length hl]; omega))
      intro _ _; simp
    · simp


/-! ### aws_byte_buf_append_with_lookup -/
theorem bufAppendWithLookup_spec {h h' : Heap} {to to' : Buf} {fr : Cur} {e : Option Err} (hb : BufOk h to)
    (eq : bufAppendWithLookup h to fr = .ok (e, h', to')) :
    BufStep h h' to to' ∧ to'.rid = to.rid ∧ to'.cap = to.cap ∧ to'.owned = to.owned ∧
    (e.isSome → h' = h ∧ to' = to) ∧
    (e = none → to'.len = to.len + fr.len ∧ (regionCells h' to.rid).take to.len = (regionCells h to.rid).take to.len) := by
  have hs := subW_eq hb.1 hb.2.1
  have hlc := hb.1
  have hcm := hb.2.1
  unfold bufAppendWithLookup at eq
  rw [hs] at eq
  split at eq
  · cases eq
    exact ⟨BufStep.same hb, rfl, rfl, rfl, fun _ => ⟨rfl, rfl⟩, (fun e => by cases e)⟩
  · rename_i hfit
    obtain ⟨cells, hl, eq⟩ := bind_ok eq
    obtain ⟨h2, hst, eq⟩ := bind_ok eq
    have hlen := Cur.load_length hl
    have hle : to.len + fr.len ≤ to.cap := by omega
    have hsum : addChecked to.len fr.len = some (to.len + fr.len) := by
      unfold addChecked; have := hb.2.1; split
      · omega
      · rfl
    rw [hsum] at eq
    cases eq
    obtain ⟨hf, _, hreg⟩ := Buf.store_frame hst
    refine ⟨⟨hf, ?_, Or.inl rfl⟩, rfl, rfl, rfl, (fun e => by cases e), fun _ => ⟨rfl, ?_⟩⟩
    · exact (hb.of_regLen hreg).setLen hle
    · exact store_prefix hb.regOk hst (Nat.le_refl _) (by simp [hlen]; omega)

theorem bufAppendWithLookup_not_oob {h : Heap} {to : Buf} {fr : Cur} (hb : BufOk h to) (hc : CurOk h fr) :
    bufAppendWithLookup h to fr ≠ .error .oob := by
  have hs := subW_eq hb.1 hb.2.1
  have hlc := hb.1
  have hcm := hb.2.1
  unfold bufAppendWithLookup
  rw [hs]
  split
  · simp
  · apply bind_not_oob (Cur.load_not_oob hc (by omega))
    intro cells hl
    apply bind_not_oob (Buf.store_not_oob hb.regOk (by simp [Cur.load_length hl]; omega))
    intro _ _
    split <;> simp

/-! ### aws_byte_buf_write and friends -/
theorem bufWrite_spec {h h' : Heap} {b b' : Buf} {src : Src} {n : Nat} {ok : Bool} (hb : BufOk h b)
    (eq : bufWrite h b src n = .ok (ok, h', b')) :
    BufStep h h' b b' ∧ b'.rid = b.rid ∧ b'.cap = b.cap ∧ b'.owned = b.owned ∧
    (ok = true ↔ n = 0 ∨ (b.len ≤ HALF ∧ n ≤ HALF ∧ b.len + n ≤ b.cap)) ∧
    (ok = false → h' = h ∧ b' = b) ∧
    (ok = true → b'.len = b.len + n ∧ (regionCells h' b.rid).take b.len = (regionCells h b.rid).take b.len) := by
  unfold bufWrite at eq
  split at eq
  · rename_i hn
    cases eq
    exact ⟨BufStep.same hb, rfl, rfl, rfl, by simp [hn], (fun e => by cases e), fun _ => ⟨by omega, rfl⟩⟩
  · rename_i hn
    split at eq
    · rename_i hg
      cases eq
      refine ⟨BufStep.same hb, rfl, rfl, rfl, ?_, fun _ => ⟨rfl, rfl⟩, (fun e => by cases e)⟩
      simp only [Bool.false_eq_true, false_iff]
      omega
    · rename_i hg
      obtain ⟨cells, hl, eq⟩ := bind_ok eq
      obtain ⟨h2, hst, eq⟩ := bind_ok eq
      cases eq
      have hlen := Src.load_length hl
      obtain ⟨hf, _, hreg⟩ := Buf.store_frame hst
      refine ⟨⟨hf, ?_, Or.inl rfl⟩, rfl, rfl, rfl, ?_, (fun e => by cases e), fun _ => ⟨rfl, ?_⟩⟩
      · exact (hb.of_regLen hreg).setLen (by omega)
      · simp only [true_iff]; omega
      · exact store_prefix hb.regOk hst (Nat.le_refl _) (by omega)

theorem bufWrite_not_oob {h : Heap} {b : Buf} {src : Src} {n : Nat} (hb : BufOk h b) (hs : SrcOk h src)
    (hn : n ≤ src.len) : bufWrite h b src n ≠ .error .oob := by
  unfold bufWrite
  split
  · simp
  · split
    · simp
    · apply bind_not_oob (Src.load_not_oob hs (by omega))
      intro cells hl
      apply bind_not_oob (Buf.store_not_oob hb.regOk (by rw [Src.load_length hl]; omega))
      intro _ _; simp

theorem bufWriteU8N_spec {h h' : Heap} {b b' : Buf} {v : UInt8} {n : Nat} {ok : Bool} (hb : BufOk h b)
    (eq : bufWriteU8N h b v n = .ok (ok, h', b')) :
    BufStep h h' b b' ∧ b'.rid = b.rid ∧ b'.cap = b.cap ∧ b'.owned = b.owned ∧
    (ok = true ↔ (b.len ≤ HALF ∧ n ≤ HALF ∧ b.len + n ≤ b.cap)) ∧
    (ok = false → h' = h ∧ b' = b) ∧
    (ok = true → b'.len = b.len + n ∧ (regionCells h' b.rid).take b.len = (regionCells h b.rid).take b.len) := by
  unfold bufWriteU8N at eq
  split at eq
  · rename_i hg
    cases eq
    refine ⟨BufStep.same hb, rfl, rfl, rfl, ?_, fun _ => ⟨rfl, rfl⟩, (fun e => by cases e)⟩
    simp only [Bool.false_eq_true, false_iff]
    omega
  · rename_i hg
    obtain ⟨h2, hst, eq⟩ := bind_ok eq
    cases eq
    obtain ⟨hf, _, hreg⟩ := Buf.store_frame hst
    refine ⟨⟨hf, ?_, Or.inl rfl⟩, rfl, rfl, rfl, ?_, (fun e => by cases e), fun _ => ⟨rfl, ?_⟩⟩
    · exact (hb.of_regLen hreg).setLen (by omega)
    · simp only [true_iff]; omega
    · exact store_prefix hb.regOk hst (Nat.le_refl _) (by simp; omega)

theorem bufWriteU8N_not_oob {h : Heap} {b : Buf} {v : UInt8} {n : Nat} (hb : BufOk h b) :
    bufWriteU8N h b v n ≠ .error .oob := by
  unfold bufWriteU8N
  split
  · simp
  · apply bind_not_oob (Buf.store_not_oob hb.regOk (by simp; omega))
    intro _ _; simp

theorem beBytes_length (k x : Nat) : (beBytes k x).length = k := by
  induction k with
  | zero => rfl
  | succ k ih => simp [beBytes, ih]

theorem bufWriteBe24_spec {h h' : Heap} {b b' : Buf} {x : Nat} {ok : Bool} (hb : BufOk h b)
    (eq : bufWriteBe24 h b x = .ok (ok, h', b')) :
    BufStep h h' b b' ∧ b'.rid = b.rid ∧ b'.cap = b.cap ∧ b'.owned = b.owned ∧
    (ok = false → h' = h ∧ b' = b) ∧
    (ok = true → b'.len = b.len + 3 ∧ (regionCells h' b.rid).take b.len = (regionCells h b.rid).take b.len) := by
  unfold bufWriteBe24 at eq
  split at eq
  · cases eq
    exact ⟨BufStep.same hb, rfl, rfl, rfl, fun _ => ⟨rfl, rfl⟩, (fun e => by cases e)⟩
  · obtain ⟨h1, h2, h3, h4, _, h6, h7⟩ := bufWrite_spec hb eq
    exact ⟨h1, h2, h3, h4, h6, h7⟩

/-! ### aws_byte_buf_advance -/
theorem bufAdvance_spec {h : Heap} {b : Buf} {n : Nat} (hb : BufOk h b) :
    BufStep h h b (bufAdvance b n).2 ∧ (bufAdvance b n).2.rid = b.rid ∧ (bufAdvance b n).2.cap = b.cap ∧
    ((bufAdvance b n).1 = none → (bufAdvance b n).2 = b) ∧
    ((bufAdvance b n).1.isSome → (bufAdvance b n).2.len = b.len + n) := by
  have hs := subW_eq hb.1 hb.2.1
  have hlc := hb.1
  have hcm := hb.2.1
  unfold bufAdvance
  rw [hs]
  split
  · rename_i hg
    have hadd : addW b.len n = b.len + n := addW_eq (by have := hb.2.1; omega)
    refine ⟨⟨Frame.refl _ _, ?_, Or.inl rfl⟩, rfl, rfl, (fun e => by cases e), fun _ => hadd⟩
    rw [hadd]; exact hb.setLen (by omega)
  · exact ⟨BufStep.same hb, rfl, rfl, fun _ => rfl, (fun e => by cases e)⟩

/-! ### secure_zero / reset -/
theorem zeros_all (n : Nat) : ∀ c ∈ List.replicate n (some (0 : UInt8)), c = some 0 := by
  intro c hc; exact (List.mem_replicate.mp hc).2

theorem secureZeroMem_spec {h h' : Heap} {b : Buf} (hb : BufOk h b) (eq : secureZeroMem h b.rid b.cap = .ok h') :
    Frame h h' b.rid ∧ (∀ x, regLen h' x = regLen h x) ∧
    (∀ r, b.rid = some r → region? h' r = some (List.replicate b.cap (some 0))) := by
  unfold secureZeroMem at eq
  cases hr : b.rid with
  | none => simp [hr] at eq; cases eq; exact ⟨Frame.refl _ _, fun _ => rfl, fun r e => by cases e⟩
  | some r =>
    simp only [hr] at eq
    obtain ⟨hf, _, hreg⟩ := storeN_frame eq
    refine ⟨hf, hreg, ?_⟩
    intro r' e; cases e
    have h2 := hb.2.2
    simp [hr] at h2
    obtain ⟨hpos, hl⟩ := h2
    unfold regLen at hl
    cases hrg : region? h r with
    | none => simp [hrg] at hl
    | some reg =>
      simp [hrg] at hl
      rw [storeN_region eq hrg]
      have : ¬ (b.cap = 0) := by omega
      simp [this, splice, hl]

theorem secureZeroMem_not_oob {h : Heap} {b : Buf} (hb : BufOk h b) : secureZeroMem h b.rid b.cap ≠ .error .oob := by
  unfold secureZeroMem
  cases hr : b.rid with
  | none => simp
  | some r =>
    have h2 := hb.2.2
    simp [hr] at h2
    exact storeN_not_oob h2.2 (by simp)

theorem bufSecureZero_spec {h h' : Heap} {b b' : Buf} (hb : BufOk h b) (eq : bufSecureZero h b = .ok (h', b')) :
    BufStep h h' b b' ∧ b' = { b with len := 0 } ∧
    (∀ r, b.rid = some r → region? h' r = some (List.replicate b.cap (some 0))) := by
  unfold bufSecureZero at eq
  obtain ⟨h2, hz, eq⟩ := bind_ok eq
  cases eq
  obtain ⟨hf, hreg, hz⟩ := secureZeroMem_spec hb hz
  exact ⟨⟨hf, (hb.of_regLen hreg).setLen (Nat.zero_le _), Or.inl rfl⟩, rfl, hz⟩

theorem bufReset_spec {h h' : Heap} {b b' : Buf} {z : Bool} (hb : BufOk h b) (eq : bufReset h b z = .ok (h', b')) :
    BufStep h h' b b' ∧ b' = { b with len := 0 } := by
  unfold bufReset at eq
  split at eq
  · obtain ⟨⟨h2, b2⟩, hz, eq⟩ := bind_ok eq
    cases eq
    obtain ⟨hs, he, _⟩ := bufSecureZero_spec hb hz
    subst he
    exact ⟨hs, rfl⟩
  · cases eq
    exact ⟨⟨Frame.refl _ _, hb.setLen (Nat.zero_le _), Or.inl rfl⟩, rfl⟩

theorem bufSecureZero_not_oob {h : Heap} {b : Buf} (hb : BufOk h b) : bufSecureZero h b ≠ .error .oob := by
  unfold bufSecureZero
  apply bind_not_oob (secureZeroMem_not_oob hb)
  intro _ _; simp

theorem bufReset_not_oob {h : Heap} {b : Buf} {z : Bool} (hb : BufOk h b) : bufReset h b z ≠ .error .oob := by
  unfold bufReset
  split
  · apply bind_not_oob (bufSecureZero_not_oob hb)
    intro _ _; simp
  · simp

end AwsVerif.Proofs.C01
