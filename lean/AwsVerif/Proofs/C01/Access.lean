import AwsVerif.Proofs.C01.Basic
/-! C01 helper layer 2: object-level accessors (`Cur.load`, `Buf.load`, `Buf.store`, `Src.load`),
transport of the invariants along a `Frame`, size arithmetic. -/
namespace AwsVerif.Proofs.C01
open AwsVerif.ByteBuf

/-! ### size arithmetic -/
theorem W_eq : W = SIZE_MAX + 1 := by decide
theorem HALF_lt : 2 * HALF + 1 = SIZE_MAX := by decide

theorem subW_eq {a b : Nat} (hba : b ≤ a) (ha : a ≤ SIZE_MAX) : subW a b = a - b := by
  unfold subW
  have : a + W - b = W + (a - b) := by omega
  rw [this, Nat.add_mod_left, Nat.mod_eq_of_lt]
  have := W_eq; omega

theorem addW_eq {a b : Nat} (h : a + b ≤ SIZE_MAX) : addW a b = a + b := by
  unfold addW
  apply Nat.mod_eq_of_lt
  have := W_eq; omega

theorem addChecked_some {a b r : Nat} (e : addChecked a b = some r) : r = a + b ∧ a + b ≤ SIZE_MAX := by
  unfold addChecked at e
  split at e
  · cases e
  · cases e; omega

theorem addChecked_none {a b : Nat} (e : addChecked a b = none) : a + b > SIZE_MAX := by
  unfold addChecked at e
  split at e
  · assumption
  · cases e

theorem addSat_le (a b : Nat) : addSat a b ≤ SIZE_MAX := by
  unfold addSat; split <;> omega

theorem addSat_ge (a b : Nat) (ha : a ≤ SIZE_MAX) : a ≤ addSat a b := by
  unfold addSat; split <;> omega

/-! ### region-level view of a buffer -/

/-- the region part of `BufOk` -/
def RegOk (h : Heap) (b : Buf) : Prop :=
  match b.rid with
  | none => b.cap = 0
  | some r => regLen h r = some b.cap

theorem BufOk.regOk {h : Heap} {b : Buf} (hb : BufOk h b) : RegOk h b := by
  unfold BufOk at hb; unfold RegOk
  split <;> simp_all

/-- all cells of the block `rid` points to ([] for NULL / released) -/
def regionCells (h : Heap) (rid : Option Nat) : List Cell :=
  match rid with
  | none => []
  | some r => (region? h r).getD []

/-! ### transport along a frame -/

theorem CurOk.frame {h h' : Heap} {own : Option Nat} {c : Cur} (hc : CurOk h c) (f : Frame h h' own) : CurOk h' c := by
  unfold CurOk at *
  refine ⟨hc.1, ?_⟩
  have h2 := hc.2
  split
  · simp_all
  · rename_i r hr
    simp [hr] at h2
    exact ⟨Nat.lt_of_lt_of_le h2.1 f.len, fun n e => h2.2 n (f.own_len r h2.1 n e)⟩

theorem BufOk.frame {h h' : Heap} {own : Option Nat} {b : Buf} (hb : BufOk h b) (f : Frame h h' own)
    (hne : ∀ r, b.rid = some r → some r ≠ own) : BufOk h' b := by
  unfold BufOk at *
  refine ⟨hb.1, hb.2.1, ?_⟩
  have h2 := hb.2.2
  split
  · simp_all
  · rename_i r hr
    simp [hr] at h2
    refine ⟨h2.1, ?_⟩
    have hlt := regLen_lt h2.2
    unfold regLen
    rw [f.other r hlt (hne r hr)]
    exact h2.2

theorem regionCells_frame {h h' : Heap} {own : Option Nat} {b : Buf} (hb : BufOk h b) (f : Frame h h' own)
    (hne : ∀ r, b.rid = some r → some r ≠ own) : regionCells h' b.rid = regionCells h b.rid := by
  unfold regionCells
  split
  · rfl
  · rename_i r hr
    have h2 := hb.2.2
    simp [hr] at h2
    rw [f.other r (regLen_lt h2.2) (hne r hr)]

/-! ### Cur.load / Src.load -/

theorem Cur.load_length {h : Heap} {c : Cur} {i n : Nat} {cells : List Cell} (e : c.load h i n = .ok cells) :
    cells.length = n := by
  unfold Cur.load at e
  split at e
  · cases e; simp_all
  · split at e
    · exact loadN_length e
    · cases e

theorem Cur.load_not_oob {h : Heap} {c : Cur} {i n : Nat} (hc : CurOk h c) (hb : i + n ≤ c.len) :
    c.load h i n ≠ .error .oob := by
  unfold Cur.load
  split
  · simp
  · unfold CurOk at hc
    cases hr : c.rid with
    | none => simp [hr] at hc; omega
    | some r =>
      simp [hr] at hc
      unfold loadN
      split
      · simp
      · cases hreg : region? h r with
        | none => simp [hreg]
        | some reg =>
          have := hc.2.2 reg.length (regLen_of_region hreg)
          have h3 : c.off + i + n ≤ reg.length := by omega
          simp [hreg, h3]

theorem Src.load_length {h : Heap} {s : Src} {i n : Nat} {cells : List Cell} (e : s.load h i n = .ok cells) :
    cells.length = n := by
  cases s with
  | cur c => exact Cur.load_length e
  | lit bs =>
    simp [Src.load] at e
    split at e
    · cases e; simp [List.length_take, List.length_drop]; omega
    · cases e

/-- the source is readable over its whole length without an out-of-bounds access -/
def SrcOk (h : Heap) : Src → Prop
  | .cur c => CurOk h c
  | .lit bs => bs.length ≤ SIZE_MAX

theorem SrcOk.len_le {h : Heap} {s : Src} (hs : SrcOk h s) : s.len ≤ SIZE_MAX := by
  cases s with
  | cur c => exact hs.1
  | lit bs => exact hs

theorem SrcOk.frame {h h' : Heap} {own : Option Nat} {s : Src} (hs : SrcOk h s) (f : Frame h h' own) : SrcOk h' s := by
  cases s with
  | cur c => exact CurOk.frame hs f
  | lit bs => exact hs

theorem Src.load_not_oob {h : Heap} {s : Src} {i n : Nat} (hs : SrcOk h s) (hb : i + n ≤ s.len) :
    s.load h i n ≠ .error .oob := by
  cases s with
  | cur c => exact Cur.load_not_oob hs hb
  | lit bs =>
    simp [Src.load, Src.len] at *
    simp [hb]

/-! ### Buf.load / Buf.store -/

theorem Buf.load_length {h : Heap} {b : Buf} {i n : Nat} {cells : List Cell} (e : b.load h i n = .ok cells) :
    cells.length = n := by
  unfold Buf.load at e
  split at e
  · cases e; simp_all
  · split at e
    · exact loadN_length e
    · cases e

theorem Buf.load_not_oob {h : Heap} {b : Buf} {i n : Nat} (hb : RegOk h b) (hi : i + n ≤ b.cap) :
    b.load h i n ≠ .error .oob := by
  unfold Buf.load
  split
  · simp
  · unfold RegOk at hb
    cases hr : b.rid with
    | none => simp [hr] at hb; omega
    | some r =>
      simp [hr] at hb
      exact loadN_not_oob hb hi

theorem Buf.store_frame {h h' : Heap} {b : Buf} {i : Nat} {cells : List Cell} (e : b.store h i cells = .ok h') :
    Frame h h' b.rid ∧ h'.length = h.length ∧ ∀ x, regLen h' x = regLen h x := by
  unfold Buf.store at e
  split at e
  · cases e; exact ⟨Frame.refl _ _, rfl, fun _ => rfl⟩
  · split at e
    · cases hr : b.rid with
      | none => simp [hr, storeN] at e; simp_all
      | some r => rw [hr] at e; exact storeN_frame e
    · cases e

theorem Buf.store_not_oob {h : Heap} {b : Buf} {i : Nat} {cells : List Cell} (hb : RegOk h b)
    (hi : i + cells.length ≤ b.cap) : b.store h i cells ≠ .error .oob := by
  unfold Buf.store
  split
  · simp
  · unfold RegOk at hb
    cases hr : b.rid with
    | none => simp [hr] at hb; omega
    | some r =>
      simp [hr] at hb
      exact storeN_not_oob hb hi

/-- what a successful store leaves in the destination block -/
theorem Buf.store_cells {h h' : Heap} {b : Buf} {i : Nat} {cells : List Cell} (e : b.store h i cells = .ok h') :
    regionCells h' b.rid = if cells.length = 0 then regionCells h b.rid else splice (regionCells h b.rid) i cells := by
  unfold Buf.store at e
  split at e
  · cases e; simp_all
  · rename_i hne
    split at e
    · cases hr : b.rid with
      | none => simp [hr, storeN, hne] at e
      | some r =>
        rw [hr] at e
        cases hreg : region? h r with
        | none => simp [storeN, hne, hreg] at e
        | some reg =>
          have := storeN_region e hreg
          simp [regionCells, this, hreg, hne]
    · cases e

theorem take_splice {reg : Region} {off k : Nat} {cells : List Cell} (hk : k ≤ off) (ho : off ≤ reg.length) :
    (splice reg off cells).take k = reg.take k := by
  unfold splice
  rw [List.append_assoc, List.take_append_of_le_length (by simp [List.length_take]; omega)]
  rw [List.take_take]
  congr 1
  omega

theorem length_splice {reg : Region} {off : Nat} {cells : List Cell} (ho : off + cells.length ≤ reg.length) :
    (splice reg off cells).length = reg.length := by
  simp [splice, List.length_take, List.length_drop]; omega

end AwsVerif.Proofs.C01
