import AwsVerif.Proofs.C01.StepPrefix
/-! C01: the release log (`step_events`, `step_secure_exact`). -/
namespace AwsVerif.Proofs.C01
open AwsVerif.ByteBuf

theorem EvStep.of_eq {a b : List Release} (h : b = a) : EvStep a b := h ▸ EvStep.refl a

/-- every operation only appends to the release log, and what a secure path appends is all-zero -/
theorem step_events {s s' : State} {op : Op} {r : Res} (hw : WF s) (e : step s op = .ok (r, s')) :
    EvStep s.mem.events s'.mem.events := by
  cases op with
  | curFromBytes c bs =>
    simp only [step] at e
    split at e
    · cases e
    · split at e
      · cases e; exact EvStep.refl _
      · cases e
  | curNull c => simp only [step] at e; cases e; exact EvStep.refl _
  | curInto c b off len =>
    simp only [step] at e
    split at e
    · split at e <;> (cases e; exact EvStep.refl _)
    · cases e; exact EvStep.refl _
  | curFromBuf c b => simp only [step] at e; cases e; exact EvStep.refl _
  | curSub dst src off len =>
    simp only [step] at e
    split at e <;> (cases e; exact EvStep.refl _)
  | bufFromArray b bs =>
    simp only [step] at e
    split at e
    · cases e
    · split at e
      · cases e; exact EvStep.refl _
      · split at e
        · cases e; exact EvStep.refl _
        · cases e
  | bufFromEmptyArray b cap =>
    simp only [step] at e
    split at e
    · cases e
    · split at e <;> (cases e; exact EvStep.refl _)
  | init b cap =>
    simp only [step] at e
    split at e
    · cases e
    · cases e
      exact EvStep.of_eq (bufInit_spec (m := s.mem) (s.bufs b) (by omega)).2.1
  | initCopy d src =>
    simp only [step] at e
    obtain ⟨⟨e1, m1, nb⟩, hcore, e⟩ := bind_ok e
    cases e
    exact EvStep.of_eq (bufInitCopy_spec (hw.bufOk d) (hw.bufOk src) hcore).2.1
  | initCopyFromCursor d c =>
    simp only [step] at e
    obtain ⟨⟨e1, m1, nb⟩, hcore, e⟩ := bind_ok e
    cases e
    exact EvStep.of_eq (bufInitCopyFromCursor_spec (hw.bufOk d) (hw.curOk c) hcore).2.1
  | reset b zero =>
    simp only [step] at e
    obtain ⟨⟨h1, nb⟩, hcore, e⟩ := bind_ok e
    cases e; exact EvStep.refl _
  | secureZero b =>
    simp only [step] at e
    obtain ⟨⟨h1, nb⟩, hcore, e⟩ := bind_ok e
    cases e; exact EvStep.refl _
  | cleanUp b =>
    simp only [step] at e
    obtain ⟨⟨m1, nb⟩, hcore, e⟩ := bind_ok e
    cases e
    exact (bufCleanUp_spec (hw.bufOk b) (fun h => by cases h) hcore).2.2.1
  | cleanUpSecure b =>
    simp only [step] at e
    obtain ⟨⟨m1, nb⟩, hcore, e⟩ := bind_ok e
    cases e
    exact (bufCleanUpSecure_spec (hw.bufOk b) hcore).2.2.1
  | append b c =>
    simp only [step] at e
    obtain ⟨⟨e1, h1, nb⟩, hcore, e⟩ := bind_ok e
    cases e; exact EvStep.refl _
  | appendWithLookup b c =>
    simp only [step] at e
    obtain ⟨⟨e1, h1, nb⟩, hcore, e⟩ := bind_ok e
    cases e; exact EvStep.refl _
  | appendDynamic b c secure =>
    simp only [step] at e
    obtain ⟨⟨e1, m1, nb⟩, hcore, e⟩ := bind_ok e
    cases e
    exact (bufAppendDynamic_spec (fr := .cur (s.curs c)) (hw.bufOk b) (hw.curOk c).1 hcore).2.2.2.1
  | appendByteDynamic b v secure =>
    simp only [step] at e
    obtain ⟨⟨e1, m1, nb⟩, hcore, e⟩ := bind_ok e
    cases e
    exact (bufAppendDynamic_spec (hw.bufOk b) lit1_le hcore).2.2.2.1
  | appendAndUpdate b c =>
    simp only [step] at e
    obtain ⟨⟨e1, h1, nb, nc⟩, hcore, e⟩ := bind_ok e
    cases e; exact EvStep.refl _
  | appendNullTerminator b =>
    simp only [step] at e
    obtain ⟨⟨e1, m1, nb⟩, hcore, e⟩ := bind_ok e
    cases e
    exact (bufAppendDynamic_spec (hw.bufOk b) lit1_le hcore).2.2.2.1
  | cat d srcs =>
    simp only [step] at e
    obtain ⟨⟨e1, h1, nb⟩, hcore, e⟩ := bind_ok e
    cases e; exact EvStep.refl _
  | reserve b n =>
    simp only [step] at e
    split at e
    · cases e
    · obtain ⟨⟨e1, m1, nb⟩, hcore, e⟩ := bind_ok e
      cases e
      exact (bufReserve_spec (hw.bufOk b) (by omega) hcore).1.2.2.2
  | reserveRelative b n =>
    simp only [step] at e
    obtain ⟨⟨e1, m1, nb⟩, hcore, e⟩ := bind_ok e
    cases e
    exact (bufReserveRelative_spec (hw.bufOk b) hcore).2.2.2
  | reserveSmart b n =>
    simp only [step] at e
    split at e
    · cases e
    · obtain ⟨⟨e1, m1, nb⟩, hcore, e⟩ := bind_ok e
      cases e
      exact (bufReserveSmart_spec (hw.bufOk b) (by omega) hcore).2.2.2
  | reserveSmartRelative b n =>
    simp only [step] at e
    obtain ⟨⟨e1, m1, nb⟩, hcore, e⟩ := bind_ok e
    cases e
    exact (bufReserveSmartRelative_spec (hw.bufOk b) hcore).2.2.2
  | bufAdvance b n => simp only [step] at e; cases e; exact EvStep.refl _
  | write b bs n =>
    simp only [step] at e
    obtain ⟨⟨ok, h1, nb⟩, hcore, e⟩ := bind_ok e
    cases e; exact EvStep.refl _
  | writeFromWholeBuffer b src =>
    simp only [step] at e
    obtain ⟨⟨ok, h1, nb⟩, hcore, e⟩ := bind_ok e
    cases e; exact EvStep.refl _
  | writeFromWholeCursor b c =>
    simp only [step] at e
    obtain ⟨⟨ok, h1, nb⟩, hcore, e⟩ := bind_ok e
    cases e; exact EvStep.refl _
  | writeToCapacity b c =>
    simp only [step] at e
    obtain ⟨⟨wc, h1, nb, nc⟩, hcore, e⟩ := bind_ok e
    cases e; exact EvStep.refl _
  | writeU8 b v =>
    simp only [step] at e
    obtain ⟨⟨ok, h1, nb⟩, hcore, e⟩ := bind_ok e
    cases e; exact EvStep.refl _
  | writeU8N b v n =>
    simp only [step] at e
    obtain ⟨⟨ok, h1, nb⟩, hcore, e⟩ := bind_ok e
    cases e; exact EvStep.refl _
  | writeBe b k x =>
    simp only [step] at e
    obtain ⟨⟨ok, h1, nb⟩, hcore, e⟩ := bind_ok e
    cases e; exact EvStep.refl _
  | writeBe24 b x =>
    simp only [step] at e
    obtain ⟨⟨ok, h1, nb⟩, hcore, e⟩ := bind_ok e
    cases e; exact EvStep.refl _
  | advance c n => simp only [step] at e; cases e; exact EvStep.refl _
  | advanceNospec c n => simp only [step] at e; cases e; exact EvStep.refl _
  | read c n =>
    simp only [step] at e
    obtain ⟨⟨ok, bs, nc⟩, hcore, e⟩ := bind_ok e
    cases e; exact EvStep.refl _
  | readAndFillBuffer c b =>
    simp only [step] at e
    obtain ⟨⟨ok, h1, nc, nb⟩, hcore, e⟩ := bind_ok e
    cases e; exact EvStep.refl _
  | readBe c k =>
    simp only [step] at e
    obtain ⟨⟨ok, v, nc⟩, hcore, e⟩ := bind_ok e
    cases e; exact EvStep.refl _
  | readHexU8 c =>
    simp only [step] at e
    obtain ⟨⟨ok, v, nc⟩, hcore, e⟩ := bind_ok e
    cases e; exact EvStep.refl _
  | nextSplit input ch sub =>
    simp only [step] at e
    obtain ⟨⟨more, ns⟩, hcore, e⟩ := bind_ok e
    cases e; exact EvStep.refl _
  | splitOnCharN input ch n k =>
    simp only [step] at e
    obtain ⟨⟨e1, l⟩, hcore, e⟩ := bind_ok e
    cases e; exact EvStep.refl _
  | findExact input toFind out =>
    simp only [step] at e
    obtain ⟨⟨e1, nc⟩, hcore, e⟩ := bind_ok e
    cases e; exact EvStep.refl _
  | leftTrim c p =>
    simp only [step] at e
    obtain ⟨t, _, e⟩ := bind_ok e
    cases e; exact EvStep.refl _
  | rightTrim c p =>
    simp only [step] at e
    obtain ⟨t, _, e⟩ := bind_ok e
    cases e; exact EvStep.refl _
  | trim c p =>
    simp only [step] at e
    obtain ⟨t, _, e⟩ := bind_ok e
    cases e; exact EvStep.refl _
  | satisfies c p =>
    simp only [step] at e
    obtain ⟨t, _, e⟩ := bind_ok e
    cases e; exact EvStep.refl _
  | startsWith c p ic =>
    simp only [step] at e
    obtain ⟨t, _, e⟩ := bind_ok e
    cases e; exact EvStep.refl _
  | curEq a b ic =>
    simp only [step] at e
    obtain ⟨t, _, e⟩ := bind_ok e
    cases e; exact EvStep.refl _
  | curEqBuf c b ic =>
    simp only [step] at e
    obtain ⟨t, _, e⟩ := bind_ok e
    cases e; exact EvStep.refl _
  | curEqCStr c str ic =>
    simp only [step] at e
    obtain ⟨t, _, e⟩ := bind_ok e
    cases e; exact EvStep.refl _
  | bufEq a b ic =>
    simp only [step] at e
    obtain ⟨t, _, e⟩ := bind_ok e
    cases e; exact EvStep.refl _
  | bufEqCStr b str ic =>
    simp only [step] at e
    obtain ⟨t, _, e⟩ := bind_ok e
    cases e; exact EvStep.refl _
  | compareLexical a b =>
    simp only [step] at e
    obtain ⟨t, _, e⟩ := bind_ok e
    cases e; exact EvStep.refl _
  | compareLookup a b =>
    simp only [step] at e
    obtain ⟨t, _, e⟩ := bind_ok e
    cases e; exact EvStep.refl _
  | parseU64 c base =>
    simp only [step] at e
    obtain ⟨⟨e1, v⟩, _, e⟩ := bind_ok e
    cases e; exact EvStep.refl _
  | normalizeSep b =>
    simp only [step] at e
    obtain ⟨h1, hcore, e⟩ := bind_ok e
    cases e; exact EvStep.refl _
  | hashIgnoreCase c =>
    simp only [step] at e
    obtain ⟨v, _, e⟩ := bind_ok e
    cases e; exact EvStep.refl _
  | initFromFile b f useHint sizeHint =>
    simp only [step] at e
    split at e
    · cases e
    · rename_i hmax
      obtain ⟨⟨e1, m1, nb⟩, hcore, e⟩ := bind_ok e
      cases e
      exact (bufInitFromFile_spec (hw.bufOk b) (by omega) hcore).2.1

theorem secureZeroed_step {s s' : State} (hz : SecureZeroed s) (hev : EvStep s.mem.events s'.mem.events) :
    SecureZeroed s' := by
  obtain ⟨new, he, hp⟩ := hev
  intro ev hmem
  rw [he] at hmem
  rcases List.mem_append.mp hmem with h | h
  · exact hz ev h
  · exact hp ev h

/-- the `_secure` operations on buffer slot `b` -/
def _root_.AwsVerif.ByteBuf.Op.secureOn : Op → Option Nat
  | .appendDynamic b _ true => some b
  | .appendByteDynamic b _ true => some b
  | .cleanUpSecure b => some b
  | _ => none

theorem allZero_eq_replicate {l : List Cell} (h : ∀ c ∈ l, c = some 0) : l = List.replicate l.length (some 0) :=
  List.eq_replicate_iff.mpr ⟨rfl, h⟩

/-- what a `_secure` operation adds to the release log: nothing, or exactly the destination's old
block with an all-zero snapshot over its whole old capacity -/
theorem step_secure_exact {s s' : State} {op : Op} {r : Res} {b : Nat} (hw : WF s) (hop : op.secureOn = some b)
    (e : step s op = .ok (r, s')) :
    s'.mem.events = s.mem.events ∨
    ∃ rid, (s.bufs b).rid = some rid ∧
      s'.mem.events = s.mem.events ++ [⟨rid, List.replicate (s.bufs b).cap (some 0), true⟩] := by
  have key : ∀ {ev' : List Release}, EvStep s.mem.events ev' → RelInfo s.mem.events ev' (s.bufs b).rid (s.bufs b).cap true →
      ev' = s.mem.events ∨ ∃ rid, (s.bufs b).rid = some rid ∧
        ev' = s.mem.events ++ [⟨rid, List.replicate (s.bufs b).cap (some 0), true⟩] := by
    intro ev' hev hri
    rcases hri with h | ⟨rid, reg, hr, he, hl⟩
    · exact Or.inl h
    · right
      refine ⟨rid, hr, ?_⟩
      obtain ⟨new, hn, hp⟩ := hev
      have : new = [⟨rid, reg, true⟩] := List.append_cancel_left (hn.symm.trans he)
      have hz := hp ⟨rid, reg, true⟩ (by rw [this]; simp) rfl
      simp only at hz
      rw [he, allZero_eq_replicate hz, hl]
  cases op with
  | appendDynamic b' c secure =>
    cases secure with
    | false => cases hop
    | true =>
      cases hop
      simp only [step] at e
      obtain ⟨⟨e1, m1, nb⟩, hcore, e⟩ := bind_ok e
      cases e
      obtain ⟨_, _, _, h4, h5⟩ := bufAppendDynamic_spec (fr := .cur (s.curs c)) (hw.bufOk b) (hw.curOk c).1 hcore
      exact key h4 h5
  | appendByteDynamic b' v secure =>
    cases secure with
    | false => cases hop
    | true =>
      cases hop
      simp only [step] at e
      obtain ⟨⟨e1, m1, nb⟩, hcore, e⟩ := bind_ok e
      cases e
      obtain ⟨_, _, _, h4, h5⟩ := bufAppendDynamic_spec (hw.bufOk b) lit1_le hcore
      exact key h4 h5
  | cleanUpSecure b' =>
    cases hop
    simp only [step] at e
    obtain ⟨⟨m1, nb⟩, hcore, e⟩ := bind_ok e
    cases e
    obtain ⟨_, _, h4, h5⟩ := bufCleanUpSecure_spec (hw.bufOk b) hcore
    exact key h4 h5
  | _ => cases hop

end AwsVerif.Proofs.C01
