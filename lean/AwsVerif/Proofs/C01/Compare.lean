import AwsVerif.Proofs.C01.Parse
/-! C01 [B]: `aws_byte_cursor_compare_lexical` is the lexicographic comparison of the viewed bytes. -/
namespace AwsVerif.Proofs.C01
open AwsVerif.ByteBuf

/-- lexicographic three-way comparison of byte strings (a proper prefix is smaller) -/
def lexCmp : List UInt8 → List UInt8 → Int
  | [], [] => 0
  | [], _ :: _ => -1
  | _ :: _, [] => 1
  | a :: as, b :: bs => if a < b then -1 else if a > b then 1 else lexCmp as bs

theorem lexCmp_eq_zero : ∀ (x y : List UInt8), lexCmp x y = 0 ↔ x = y
  | [], [] => by simp [lexCmp]
  | [], _ :: _ => by simp [lexCmp]
  | _ :: _, [] => by simp [lexCmp]
  | a :: as, b :: bs => by
    simp only [lexCmp]
    split
    · rename_i h
      constructor
      · intro e; cases e
      · intro e; cases e; exact absurd h (UInt8.lt_irrefl _)
    · split
      · rename_i h1 h2
        constructor
        · intro e; cases e
        · intro e; cases e; exact absurd h2 (UInt8.lt_irrefl _)
      · rename_i h1 h2
        have hab : a = b := UInt8.le_antisymm (UInt8.not_lt.mp h2) (UInt8.not_lt.mp h1)
        subst hab
        rw [lexCmp_eq_zero as bs]
        simp

theorem lexCmp_antisymm : ∀ (x y : List UInt8), lexCmp y x = - lexCmp x y
  | [], [] => by simp [lexCmp]
  | [], _ :: _ => by simp [lexCmp]
  | _ :: _, [] => by simp [lexCmp]
  | a :: as, b :: bs => by
    simp only [lexCmp]
    by_cases h1 : a < b
    · have h2 : ¬ b < a := UInt8.not_lt.mpr (UInt8.le_of_lt h1)
      simp [h1, h2]
    · by_cases h2 : b < a
      · simp [h1, h2]
      · simp [h1, h2, lexCmp_antisymm as bs]

/-- memcmp over the common prefix, then the length rule = lexicographic comparison -/
theorem lexCmp_memcmp : ∀ (x y : List UInt8),
    lexCmp x y = if memcmpSign x y ≠ 0 then memcmpSign x y
      else if x.length ≠ y.length then (if x.length ≤ y.length then -1 else 1) else 0
  | [], [] => by simp [lexCmp, memcmpSign]
  | [], _ :: _ => by simp [lexCmp, memcmpSign]
  | _ :: _, [] => by simp [lexCmp, memcmpSign]
  | a :: as, b :: bs => by
    simp only [lexCmp, memcmpSign]
    split
    · simp
    · split
      · simp
      · rw [lexCmp_memcmp as bs]
        simp only [List.length_cons]
        by_cases hm : memcmpSign as bs ≠ 0
        · simp [hm]
        · simp only [hm, if_false]
          by_cases hl : as.length = bs.length
          · simp [hl]
          · have : as.length + 1 ≠ bs.length + 1 := by omega
            simp only [hl, this, ne_eq, not_false_eq_true, if_true]
            by_cases hle : as.length ≤ bs.length
            · have : as.length + 1 ≤ bs.length + 1 := by omega
              simp [hle, this]
            · have : ¬ as.length + 1 ≤ bs.length + 1 := by omega
              simp [hle, this]

theorem memcmpSign_take : ∀ (x y : List UInt8) (n : Nat), min x.length y.length ≤ n →
    memcmpSign (x.take n) (y.take n) = memcmpSign x y
  | [], _, _, _ => by simp [memcmpSign]
  | _ :: _, [], _, _ => by simp [memcmpSign]
  | a :: as, b :: bs, 0, h => by simp at h
  | a :: as, b :: bs, n + 1, h => by
    simp only [List.take_succ_cons, memcmpSign]
    rw [memcmpSign_take as bs n (by simp at h ⊢; omega)]

/-- reading a prefix through a cursor whose whole contents are known -/
theorem Cur.load_prefix {h : Heap} {c : Cur} {x : List UInt8} {n : Nat}
    (hl : c.load h 0 c.len = .ok (x.map some)) (hn : n ≤ c.len) : c.load h 0 n = .ok ((x.take n).map some) := by
  by_cases hn0 : n = 0
  · subst hn0; simp [Cur.load]
  · have hlen : c.len ≠ 0 := by omega
    unfold Cur.load at hl ⊢
    rw [if_neg hlen, if_pos (by omega)] at hl
    rw [if_neg hn0, if_pos (by omega)]
    unfold loadN at hl ⊢
    rw [if_neg hlen] at hl
    rw [if_neg hn0]
    cases hr : c.rid with
    | none => simp [hr] at hl
    | some r =>
      simp only [hr] at hl ⊢
      cases hreg : region? h r with
      | none => simp [hreg] at hl
      | some reg =>
        simp only [hreg] at hl ⊢
        split at hl
        · rename_i hfit
          rw [if_pos (by omega)]
          have heq : List.take c.len (List.drop (c.off + 0) reg) = x.map some := Except.ok.inj hl
          have := congrArg (List.take n) heq
          rw [List.take_take, Nat.min_eq_left hn] at this
          rw [this, List.map_take]
        · cases hl


theorem curCompareLexical_eq {h : Heap} {a b : Cur} {x y : List UInt8}
    (ha : a.load h 0 a.len = .ok (x.map some)) (hb : b.load h 0 b.len = .ok (y.map some)) :
    curCompareLexical h a b = .ok (lexCmp x y) := by
  have hxl : x.length = a.len := by simpa using Cur.load_length ha
  have hyl : y.length = b.len := by simpa using Cur.load_length hb
  unfold curCompareLexical
  simp only
  have hn1 : (if a.len > b.len then b.len else a.len) ≤ a.len := by split <;> omega
  have hn2 : (if a.len > b.len then b.len else a.len) ≤ b.len := by split <;> omega
  rw [Cur.load_prefix ha hn1, Cur.load_prefix hb hn2]
  simp only [bind, Except.bind, map_cellVal_some]
  rw [memcmpSign_take x y _ (by rw [hxl, hyl]; split <;> omega), lexCmp_memcmp x y, hxl, hyl]
  by_cases hm : memcmpSign x y ≠ 0
  · rw [if_pos hm, if_pos hm]
  · rw [if_neg hm, if_neg hm]
    by_cases hl : a.len = b.len
    · have : ¬ (a.len ≠ b.len) := fun h => h hl
      rw [if_neg this, if_neg this]
    · rw [if_pos hl, if_pos hl]
      by_cases hle : a.len ≤ b.len
      · have h1 : ¬ a.len > b.len := by omega
        rw [if_neg h1, if_pos rfl, if_pos hle]
      · have h1 : a.len > b.len := by omega
        have h2 : ¬ b.len = a.len := by omega
        rw [if_pos h1, if_neg h2, if_neg hle]

end AwsVerif.Proofs.C01
