import AwsVerif.Proofs.C01.Cursors
/-! C01 helper layer 3e: functions touching a buffer and a cursor; cat; next_split; find_exact. -/
namespace AwsVerif.Proofs.C01
open AwsVerif.ByteBuf

/-! ### aws_byte_buf_append_and_update -/
theorem bufAppendAndUpdate_spec {h h' : Heap} {to to' : Buf} {fr fr' : Cur} {e : Option Err} (hb : BufOk h to)
    (hc : CurOk h fr) (eq : bufAppendAndUpdate h to fr = .ok (e, h', to', fr')) :
    BufStep h h' to to' ∧ CurOk h' fr' ∧ (e.isSome → h' = h ∧ to' = to ∧ fr' = fr) ∧
    (e = none → to'.len = to.len + fr.len ∧ (regionCells h' to'.rid).take to.len = (regionCells h to.rid).take to.len) := by
  unfold bufAppendAndUpdate at eq
  obtain ⟨⟨e1, h1, t1⟩, ha, eq⟩ := bind_ok eq
  obtain ⟨s1, s2, s3, s4, s5, s6⟩ := bufAppend_spec hb ha
  simp only at eq
  split at eq
  · cases eq
    obtain ⟨a, b⟩ := s5 rfl
    subst a; subst b
    exact ⟨s1, hc, fun _ => ⟨rfl, rfl, rfl⟩, (fun e => by cases e)⟩
  · cases eq
    obtain ⟨hlen, hpre⟩ := s6 rfl
    have hok := s1.ok
    refine ⟨s1, ?_, (fun e => by cases e), fun _ => ⟨hlen, by rw [s2]; exact hpre⟩⟩
    have hsub : subW to'.len fr.len = to.len := by
      rw [hlen, subW_eq (by omega) (by have := hok.1; have := hok.2.1; omega)]; omega
    cases hr : to'.rid with
    | none =>
      simp only
      have h2 := hok.2.2
      simp [hr] at h2
      have := hok.1
      exact ⟨hc.1, by simp only; omega⟩
    | some r =>
      simp only
      have h2 := hok.2.2
      simp [hr] at h2
      refine ⟨hc.1, ?_⟩
      simp only
      refine ⟨regLen_lt h2.2, fun n e => ?_⟩
      rw [h2.2] at e; cases e
      rw [hsub]; have := hok.1; omega

theorem bufAppendAndUpdate_not_oob {h : Heap} {to : Buf} {fr : Cur} (hb : BufOk h to) (hc : CurOk h fr) :
    bufAppendAndUpdate h to fr ≠ .error .oob := by
  unfold bufAppendAndUpdate
  apply bind_not_oob (bufAppend_not_oob hb hc)
  intro ⟨e, h1, t1⟩ _
  simp only
  split <;> simp

/-! ### aws_byte_buf_write_to_capacity -/
theorem bufWriteToCapacity_spec {h h' : Heap} {b b' : Buf} {c c' wc : Cur} (hb : BufOk h b) (hc : CurOk h c)
    (eq : bufWriteToCapacity h b c = .ok (wc, h', b', c')) :
    BufStep h h' b b' ∧ CurOk h' c' ∧ (wc.rid = none → h' = h ∧ b' = b ∧ c' = c) ∧
    b.len ≤ b'.len ∧ b'.rid = b.rid ∧ (regionCells h' b.rid).take b.len = (regionCells h b.rid).take b.len := by
  unfold bufWriteToCapacity at eq
  simp only at eq
  obtain ⟨⟨ok, h1, b1⟩, hw, eq⟩ := bind_ok eq
  cases eq
  obtain ⟨a1, a2, a3, _⟩ := curAdvance_spec (n := if subW b.cap b.len < c.len then subW b.cap b.len else c.len) hc
  obtain ⟨s1, s2, s3, s4, s5, s6, s7⟩ := bufWrite_spec hb hw
  dsimp only
  refine ⟨s1, a2.frame s1.frame, ?_, ?_, s2, ?_⟩
  · intro hr
    have hcz := a1
    unfold CurOk at hcz
    rw [hr] at hcz
    simp only at hcz
    have hl0 := hcz.2
    rw [hl0] at hw
    simp [bufWrite] at hw
    obtain ⟨_, hh, hbb⟩ := hw
    subst hh; subst hbb
    exact ⟨rfl, rfl, a3 hr⟩
  · cases ok with
    | true => have := (s7 rfl).1; omega
    | false => rw [(s6 rfl).2]; exact Nat.le_refl _
  · cases ok with
    | true => exact (s7 rfl).2
    | false => rw [(s6 rfl).1]

theorem bufWriteToCapacity_not_oob {h : Heap} {b : Buf} {c : Cur} (hb : BufOk h b) (hc : CurOk h c) :
    bufWriteToCapacity h b c ≠ .error .oob := by
  unfold bufWriteToCapacity
  simp only
  obtain ⟨a1, _, _, _⟩ := curAdvance_spec (n := if subW b.cap b.len < c.len then subW b.cap b.len else c.len) hc
  apply bind_not_oob (bufWrite_not_oob hb (src := .cur _) a1 (Nat.le_refl _))
  intro _ _; simp

/-! ### aws_byte_cursor_read_and_fill_buffer -/
theorem curReadAndFill_spec {h h' : Heap} {c c' : Cur} {b b' : Buf} {ok : Bool} (hb : BufOk h b) (hc : CurOk h c)
    (eq : curReadAndFill h c b = .ok (ok, h', c', b')) :
    BufStep h h' b b' ∧ CurOk h' c' ∧ (ok = false → h' = h ∧ b' = b ∧ c' = c) := by
  unfold curReadAndFill at eq
  obtain ⟨⟨ok1, cells, c1⟩, hr, eq⟩ := bind_ok eq
  obtain ⟨r1, r2, r3⟩ := curRead_spec hc hr
  simp only at eq
  split at eq
  · rename_i hok
    obtain ⟨h2, hst, eq⟩ := bind_ok eq
    cases eq
    obtain ⟨hf, _, hreg⟩ := Buf.store_frame hst
    refine ⟨⟨hf, (hb.of_regLen hreg).setLen (Nat.le_refl _), Or.inl rfl⟩, r1.frame hf, fun e => by cases e⟩
  · rename_i hok
    cases eq
    have : ok1 = false := by simpa using hok
    exact ⟨BufStep.same hb, r1, fun _ => ⟨rfl, rfl, r2 this⟩⟩

theorem curReadAndFill_not_oob {h : Heap} {c : Cur} {b : Buf} (hb : BufOk h b) (hc : CurOk h c) :
    curReadAndFill h c b ≠ .error .oob := by
  unfold curReadAndFill
  apply bind_not_oob (curRead_not_oob hc)
  intro ⟨ok1, cells, c1⟩ hr
  obtain ⟨_, _, r3⟩ := curRead_spec hc hr
  simp only
  split
  · rename_i hok
    apply bind_not_oob (Buf.store_not_oob hb.regOk (by rw [r3 hok]; omega))
    intro _ _; simp
  · simp

/-! ### aws_byte_buf_cat -/
theorem catLoop_spec {bufs : Nat → Buf} {d : Nat} (srcs : List Nat) :
    ∀ {h h' : Heap} {dest dest' : Buf} {e : Option Err}, BufOk h dest →
    catLoop h bufs d srcs dest = .ok (e, h', dest') →
    BufStep h h' dest dest' ∧ dest'.rid = dest.rid ∧ dest'.cap = dest.cap ∧ dest'.owned = dest.owned ∧
    dest.len ≤ dest'.len ∧ (regionCells h' dest.rid).take dest.len = (regionCells h dest.rid).take dest.len ∧
    (srcs = [] → e = none) := by
  induction srcs with
  | nil =>
    intro h h' dest dest' e hb eq
    simp only [catLoop] at eq
    cases eq
    exact ⟨BufStep.same hb, rfl, rfl, rfl, Nat.le_refl _, rfl, fun _ => rfl⟩
  | cons s rest ih =>
    intro h h' dest dest' e hb eq
    simp only [catLoop] at eq
    obtain ⟨⟨e1, h1, d1⟩, ha, eq⟩ := bind_ok eq
    obtain ⟨s1, s2, s3, s4, s5, s6⟩ := bufAppend_spec hb ha
    simp only at eq
    split at eq
    · cases eq
      obtain ⟨a, b⟩ := s5 rfl
      subst a; subst b
      exact ⟨s1, rfl, rfl, rfl, Nat.le_refl _, rfl, (fun e => by cases e)⟩
    · obtain ⟨t1, t2, t3, t4, t5, t6, _⟩ := ih s1.ok eq
      obtain ⟨hlen, hpre⟩ := s6 rfl
      refine ⟨s1.trans t1 s2, t2.trans s2, t3.trans s3, t4.trans s4, by omega, ?_, (fun e => by cases e)⟩
      rw [s2] at t6
      have := congrArg (List.take dest.len) t6
      rw [List.take_take, List.take_take, Nat.min_eq_left (by omega)] at this
      rw [this, hpre]

theorem catLoop_not_oob {bufs : Nat → Buf} {d : Nat} (srcs : List Nat) :
    ∀ {h : Heap} {dest : Buf}, BufOk h dest → (∀ i, i ≠ d → CurOk h (bufs i).asCur) →
    catLoop h bufs d srcs dest ≠ .error .oob := by
  induction srcs with
  | nil => intro h dest _ _; simp [catLoop]
  | cons s rest ih =>
    intro h dest hb hcs
    simp only [catLoop]
    have hsrc : CurOk h (if s = d then dest else bufs s).asCur := by
      split
      · have hl := hb.1; have hm := hb.2.1
        refine ⟨by simp [Buf.asCur]; omega, ?_⟩
        simp only [Buf.asCur]
        have h2 := hb.2.2
        cases hr : dest.rid with
        | none => simp [hr] at h2; simp; omega
        | some r =>
          simp [hr] at h2
          simp only
          exact ⟨regLen_lt h2.2, fun n e => by rw [h2.2] at e; cases e; omega⟩
      · rename_i hs; exact hcs s hs
    apply bind_not_oob (bufAppend_not_oob hb hsrc)
    intro ⟨e1, h1, d1⟩ ha
    obtain ⟨s1, s2, _⟩ := bufAppend_spec hb ha
    simp only
    split
    · simp
    · apply ih s1.ok
      · intro i hi; exact (hcs i hi).frame s1.frame

end AwsVerif.Proofs.C01
