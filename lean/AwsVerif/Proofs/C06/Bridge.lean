import AwsVerif.Gen.HeapIdx
import AwsVerif.Proofs.C06.Ops
/-! Bridge between the hand-written heap model and the layer generated from /repo on every run
(`Gen/HeapIdx.lean`): index macros and the stale-handle guard of `aws_priority_queue_remove`. -/
namespace AwsVerif.Proofs.C06
open AwsVerif.Heap

theorem parentOf_gen {i : Nat} (h : i < 2^64) : parentOf i = Gen.HeapIdx.PARENT_OF i := by
  unfold parentOf Gen.HeapIdx.PARENT_OF
  simp only [Nat.and_one_is_mod, Nat.shiftRight_eq_div_pow]
  split
  · rfl
  · split
    · have : (i + 18446744073709551616 - 2) % 18446744073709551616 = i - 2 := by omega
      rw [this]
    · rfl

theorem leftOf_gen (i : Nat) : leftOf i = Gen.HeapIdx.LEFT_OF i := by
  unfold leftOf Gen.HeapIdx.LEFT_OF; rfl

theorem rightOf_gen (i : Nat) : rightOf i = Gen.HeapIdx.RIGHT_OF i := by
  unfold rightOf Gen.HeapIdx.RIGHT_OF; rfl

/-- the generated guard proceeds exactly when `current_index < length` and the back-pointer list exists, and
otherwise raises `PRIORITY_QUEUE_BAD_NODE` -/
theorem remove_guard_spec (ci len d : Nat) :
    (Gen.HeapIdx.remove_guard ci len d = 0 ↔ (ci < len ∧ d ≠ 0)) ∧
    (Gen.HeapIdx.remove_guard ci len d ≠ 0 → Gen.HeapIdx.remove_guard ci len d = Gen.HeapIdx.AWS_ERROR_PRIORITY_QUEUE_BAD_NODE) := by
  unfold Gen.HeapIdx.remove_guard Gen.HeapIdx.AWS_ERROR_PRIORITY_QUEUE_BAD_NODE
  by_cases h1 : ci < len <;> by_cases h2 : d = 0 <;> simp [h1, h2]

/-- `node->current_index` of a handle (`SIZE_MAX` when not in the queue) -/
def curIndex (o : Option Nat) : Nat := o.getD (2^64 - 1)

/-- the model's `remove` is: evaluate the generated guard on the three state reads; if it proceeds, `s_remove_node`
at `current_index`, otherwise fail with `BAD_NODE` and change nothing -/
theorem remove_eq_guard (c : Cmp) (q : PQ) (h : Nat) (hsz : q.items.size < 2^64) :
    remove c q h =
      if Gen.HeapIdx.remove_guard (curIndex (q.handles h)) q.items.size (if q.bp.isSome then 1 else 0) = 0
      then removeNode c q (curIndex (q.handles h)) else (q, .error .badNode) := by
  unfold remove
  cases hh : q.handles h with
  | none =>
    have : ¬ (curIndex none < q.items.size ∧ (if q.bp.isSome then 1 else 0) ≠ 0) := by
      simp only [curIndex, Option.getD_none]; omega
    simp only [(remove_guard_spec _ _ _).1, this, if_false]
  | some i =>
    simp only [curIndex, Option.getD_some, (remove_guard_spec _ _ _).1]
    by_cases h1 : i < q.items.size <;> by_cases h2 : q.bp.isSome = true <;> simp [h1, h2]

/-- the model's comparator test `c.gt a b` built from a C comparator `pred` returning a 32-bit `int`:
`pred(a, b) > 0` in two's complement -/
def cmpOfPred (pred : Nat → Nat → Nat) : Cmp := ⟨fun a b => decide (0 < pred a b ∧ pred a b < 2^31)⟩

/-- a C `int` value (32-bit two's complement, as a `Nat`) is positive -/
def intPos (r : Nat) : Prop := 0 < r ∧ r < 2^31

/-- The three places where the sift loops consult the comparator are, as generated from priority_queue.c:
`pred(first_item, other_item) > 0` twice in `s_sift_down` (candidate first, child second) and
`pred(parent_item, child_item) > 0` in `s_sift_up` — exactly the tests `c.gt (key first) (key other)` /
`c.gt (key parent) (key child)` of `pickFirst` / `siftUp` in the model with `c = cmpOfPred pred`.  Only the
documented contract of the comparator (`> 0`) is consulted: no `< 0`, no `== 0`, no swapped operands. -/
theorem sift_sites_bridge :
    Gen.HeapIdx.sift_down_site1_args = ["first_item", "other_item"] ∧
    Gen.HeapIdx.sift_down_site2_args = ["first_item", "other_item"] ∧
    Gen.HeapIdx.sift_up_site1_args = ["parent_item", "child_item"] ∧
    (∀ r, r < 2^32 → (Gen.HeapIdx.sift_down_site1_test r = true ↔ intPos r)) ∧
    (∀ r, r < 2^32 → (Gen.HeapIdx.sift_down_site2_test r = true ↔ intPos r)) ∧
    (∀ r, r < 2^32 → (Gen.HeapIdx.sift_up_site1_test r = true ↔ intPos r)) := by
  refine ⟨by decide, by decide, by decide, ?_, ?_, ?_⟩ <;>
  · intro r hr
    simp only [Gen.HeapIdx.sift_down_site1_test, Gen.HeapIdx.sift_down_site2_test, Gen.HeapIdx.sift_up_site1_test,
      decide_eq_true_eq, intPos]
    omega

/-- with `c = cmpOfPred pred`, the model's test is the generated site test applied to `pred` on the arguments in the
generated order -/
theorem cmpOfPred_gt (pred : Nat → Nat → Nat) (hp : ∀ a b, pred a b < 2^32) (a b : Nat) :
    (cmpOfPred pred).gt a b = Gen.HeapIdx.sift_down_site1_test (pred a b) ∧
    (cmpOfPred pred).gt a b = Gen.HeapIdx.sift_down_site2_test (pred a b) ∧
    (cmpOfPred pred).gt a b = Gen.HeapIdx.sift_up_site1_test (pred a b) := by
  have h := sift_sites_bridge
  have hr := hp a b
  have e : ∀ (x : Bool), (x = true ↔ intPos (pred a b)) → (cmpOfPred pred).gt a b = x := by
    intro x hx
    cases x
    · simp only [cmpOfPred, decide_eq_false_iff_not]
      intro hh; have := hx.mpr hh; cases this
    · simp only [cmpOfPred, decide_eq_true_eq]
      exact hx.mp rfl
  exact ⟨e _ (h.2.2.2.1 _ hr), e _ (h.2.2.2.2.1 _ hr), e _ (h.2.2.2.2.2 _ hr)⟩

end AwsVerif.Proofs.C06
