import AwsVerif.Proofs.C06.Swap
/-! `s_sift_down`, `s_sift_up`, `s_sift_either`: what they preserve and that they restore heap order. -/
namespace AwsVerif.Proofs.C06
open AwsVerif.Heap

/-- a predicate on queues that every in-bounds `s_swap` preserves -/
def SwapClosed (P : PQ → Prop) : Prop :=
  ∀ q a b, a < q.items.size → b < q.items.size → P q → P (sSwap q a b)

theorem pickFirst_cases (c : Cmp) (q : PQ) (root : Nat) :
    pickFirst c q root = root ∨ pickFirst c q root = leftOf root ∨
      (pickFirst c q root = rightOf root ∧ rightOf root < q.items.size) := by
  unfold pickFirst
  grind

theorem pickFirst_lt {c : Cmp} {q : PQ} {root : Nat} (hr : root < q.items.size) (hl : leftOf root < q.items.size) :
    pickFirst c q root < q.items.size := by
  rcases pickFirst_cases c q root with h | h | ⟨h, h'⟩ <;> rw [h] <;> assumption

theorem siftDown_ind {P : PQ → Prop} (hP : SwapClosed P) (c : Cmp) :
    ∀ fuel q root, root < q.items.size → P q → P (siftDown c fuel q root) := by
  intro fuel
  induction fuel with
  | zero => intro q root _ h; exact h
  | succ f ih =>
    intro q root hr h
    unfold siftDown
    split
    · next hl =>
      split
      · have hf := pickFirst_lt (c := c) hr hl
        exact ih _ _ (by simpa using hf) (hP _ _ _ hf hr h)
      · exact h
    · exact h

theorem siftUp_ind {P : PQ → Prop} (hP : SwapClosed P) (c : Cmp) :
    ∀ fuel q index, index < q.items.size → P q → P (siftUp c fuel q index).1 := by
  intro fuel
  induction fuel with
  | zero => intro q index _ h; exact h
  | succ f ih =>
    intro q index hi h
    unfold siftUp
    dsimp only
    split
    · split
      · have hp : parentOf index < q.items.size := by rw [parentOf_eq]; omega
        exact ih _ _ (by simpa using hp) (hP _ _ _ hi hp h)
      · exact h
    · exact h

theorem siftEither_ind {P : PQ → Prop} (hP : SwapClosed P) (c : Cmp) (q : PQ) (index : Nat)
    (hi : index < q.items.size) (h : P q) : P (siftEither c q index) := by
  unfold siftEither
  split
  · exact siftDown_ind hP c _ _ _ hi h
  · have h1 := siftUp_ind hP c (index + 1) q index hi h
    have hs : (siftUp c (index + 1) q index).1.items.size = q.items.size := by
      have := siftUp_ind (P := fun q' => q'.items.size = q.items.size)
        (fun q' a b _ _ hq' => by simpa using hq') c (index + 1) q index hi rfl
      exact this
    simp only
    split
    · exact siftDown_ind hP c _ _ _ (by omega) h1
    · exact h1

theorem swapClosed_same (q0 : PQ) : SwapClosed (fun q => Same q0 q) :=
  fun q a b _ _ h => h.trans (sSwap_same q a b)

theorem swapClosed_frame (owner ref) : SwapClosed (fun q => Frame q owner ref) :=
  fun _ _ _ ha hb h => sSwap_frame ha hb h

theorem swapClosed_and {P Q : PQ → Prop} (hP : SwapClosed P) (hQ : SwapClosed Q) : SwapClosed (fun q => P q ∧ Q q) :=
  fun q a b ha hb h => ⟨hP q a b ha hb h.1, hQ q a b ha hb h.2⟩

/-! ### heap order -/

theorem heapOrd_iff (c : Cmp) (a : Array Elem) : HeapOrd c a ↔ HeapOrdF c (kAt a) a.size := Iff.rfl

theorem Cmp.gt_trans' {c : Cmp} (hc : CmpOK c) {x y z : Nat} (h1 : c.gt x y = true) (h2 : c.gt y z = true) :
    c.gt x z = true := by
  cases h : c.gt x z
  · exfalso
    have l1 : c.le x z := h
    have l2 : c.le z y := Cmp.le_of_gt hc h2
    have l3 := hc.trans _ _ _ l1 l2
    unfold Cmp.le at l3; rw [h1] at l3; cases l3
  · rfl

theorem pickFirst_spec {c : Cmp} (hc : CmpOK c) {q : PQ} {r : Nat} (hr : r < 2^63 - 1) :
    (pickFirst c q r = r ∧ c.le (kAt q.items r) (kAt q.items (2 * r + 1)) ∧
        (2 * r + 2 < q.items.size → c.le (kAt q.items r) (kAt q.items (2 * r + 2)))) ∨
    ((pickFirst c q r = 2 * r + 1 ∨ (pickFirst c q r = 2 * r + 2 ∧ 2 * r + 2 < q.items.size)) ∧
        c.gt (kAt q.items r) (kAt q.items (pickFirst c q r)) = true ∧
        c.le (kAt q.items (pickFirst c q r)) (kAt q.items (2 * r + 1)) ∧
        (2 * r + 2 < q.items.size → c.le (kAt q.items (pickFirst c q r)) (kAt q.items (2 * r + 2)))) := by
  unfold pickFirst keyAt
  rw [leftOf_eq hr, rightOf_eq hr]
  dsimp only
  by_cases g1 : c.gt (kAt q.items r) (kAt q.items (2 * r + 1)) = true
  · rw [if_pos g1]
    by_cases hrr : 2 * r + 2 < q.items.size
    · rw [if_pos hrr]
      by_cases g2 : c.gt (kAt q.items (2 * r + 1)) (kAt q.items (2 * r + 2)) = true
      · rw [if_pos g2]
        right
        exact ⟨Or.inr ⟨rfl, hrr⟩, Cmp.gt_trans' hc g1 g2, Cmp.le_of_gt hc g2, fun _ => Cmp.le_refl hc _⟩
      · rw [if_neg g2]
        right
        exact ⟨Or.inl rfl, g1, Cmp.le_refl hc _, fun _ => Cmp.le_of_not_gt g2⟩
    · rw [if_neg hrr]
      right
      exact ⟨Or.inl rfl, g1, Cmp.le_refl hc _, fun h => absurd h hrr⟩
  · rw [if_neg g1]
    have l1 : c.le (kAt q.items r) (kAt q.items (2 * r + 1)) := Cmp.le_of_not_gt g1
    by_cases hrr : 2 * r + 2 < q.items.size
    · rw [if_pos hrr]
      by_cases g2 : c.gt (kAt q.items r) (kAt q.items (2 * r + 2)) = true
      · rw [if_pos g2]
        right
        exact ⟨Or.inr ⟨rfl, hrr⟩, g2, hc.trans _ _ _ (Cmp.le_of_gt hc g2) l1, fun _ => Cmp.le_refl hc _⟩
      · rw [if_neg g2]
        left
        exact ⟨rfl, l1, fun _ => Cmp.le_of_not_gt g2⟩
    · rw [if_neg hrr]
      left
      exact ⟨rfl, l1, fun h => absurd h hrr⟩

theorem siftDown_heap {c : Cmp} (hc : CmpOK c) : ∀ fuel (q : PQ) k, q.items.size < 2^63 → k < q.items.size → q.items.size - k ≤ fuel →
    DownInvF c (kAt q.items) q.items.size k → HeapOrd c (siftDown c fuel q k).items := by
  intro fuel
  induction fuel with
  | zero => intro q k _ hk hf; omega
  | succ f ih =>
    intro q k hsz hk hf hinv
    have hk' : k < 2^63 - 1 := by omega
    unfold siftDown
    rw [leftOf_eq hk']
    split
    · next hl =>
      rcases pickFirst_spec hc (q := q) hk' with ⟨he, h1, h2⟩ | ⟨hx, hlt, h1, h2⟩
      · simp only [he, ne_eq, not_true_eq_false, if_false]
        exact down_done hinv h1 h2
      · have hne : pickFirst c q k ≠ k := by omega
        have hcn : pickFirst c q k < q.items.size := by omega
        simp only [hne, ne_eq, not_false_eq_true, if_true]
        apply ih
        · simpa using hsz
        · simpa using hcn
        · simp only [sSwap_size]; omega
        · rw [sSwap_items, kAt_swap hcn hk, Array.size_swapIfInBounds]
          exact down_step hc hinv (by omega) hcn hlt (fun _ => h1) h2
    · next hl => exact down_done_nochild hinv (by omega)

theorem siftUp_heap {c : Cmp} (hc : CmpOK c) : ∀ fuel (q : PQ) k, k < q.items.size → k ≤ fuel →
    UpInvF c (kAt q.items) q.items.size k → HeapOrd c (siftUp c fuel q k).1.items := by
  intro fuel
  induction fuel with
  | zero =>
    intro q k _ hf hinv
    exact up_done hinv (by omega)
  | succ f ih =>
    intro q k hk hf hinv
    unfold siftUp
    dsimp only
    rw [parentOf_eq]
    split
    · next h0 =>
      split
      · next hgt =>
        have hp : (k - 1) / 2 < q.items.size := by omega
        apply ih
        · simpa using hp
        · omega
        · rw [sSwap_items, kAt_swap hk hp, Array.size_swapIfInBounds]
          exact up_step hc hinv (by omega) hk hgt
      · next hle =>
        show HeapOrd c q.items
        exact up_done hinv (Or.inr (Cmp.le_of_not_gt hle))
    · next h0 =>
      show HeapOrd c q.items
      exact up_done hinv (Or.inl (by omega))

theorem siftUp_not_moved {c : Cmp} {fuel : Nat} {q : PQ} {k : Nat} (h : (siftUp c (fuel + 1) q k).2 = false) :
    (siftUp c (fuel + 1) q k).1 = q ∧ (k = 0 ∨ c.le (kAt q.items ((k - 1) / 2)) (kAt q.items k)) := by
  unfold siftUp at h ⊢
  dsimp only at h ⊢
  rw [parentOf_eq] at h ⊢
  unfold keyAt at h ⊢
  by_cases h0 : k ≠ 0
  · rw [if_pos h0] at h ⊢
    by_cases hg : c.gt (kAt q.items ((k - 1) / 2)) (kAt q.items k) = true
    · rw [if_pos hg] at h; cases h
    · rw [if_neg hg]
      exact ⟨rfl, Or.inr (Cmp.le_of_not_gt hg)⟩
  · rw [if_neg h0]
    exact ⟨rfl, Or.inl (by omega)⟩

theorem siftUp_moved {c : Cmp} {fuel : Nat} {q : PQ} {k : Nat} (h : (siftUp c fuel q k).2 = true) :
    0 < k ∧ c.gt (kAt q.items ((k - 1) / 2)) (kAt q.items k) = true := by
  cases fuel with
  | zero => simp [siftUp] at h
  | succ f =>
    unfold siftUp at h
    dsimp only at h
    rw [parentOf_eq] at h
    unfold keyAt at h
    by_cases h0 : k ≠ 0
    · rw [if_pos h0] at h
      by_cases hg : c.gt (kAt q.items ((k - 1) / 2)) (kAt q.items k) = true
      · exact ⟨by omega, hg⟩
      · rw [if_neg hg] at h; cases h
    · rw [if_neg h0] at h; cases h

theorem siftEither_heap {c : Cmp} (hc : CmpOK c) {q : PQ} {k : Nat} (hsz : q.items.size < 2^63) (hk : k < q.items.size)
    (hinv : EitherInvF c (kAt q.items) q.items.size k) : HeapOrd c (siftEither c q k).items := by
  unfold siftEither
  split
  · next h0 => exact siftDown_heap hc _ _ _ hsz hk (by omega) (either_down hinv (Or.inl h0))
  · next h0 =>
    dsimp only
    cases hm : (siftUp c (k + 1) q k).2
    · obtain ⟨he, hle⟩ := siftUp_not_moved hm
      simp only [Bool.not_false, if_true, he]
      exact siftDown_heap hc _ _ _ hsz hk (by omega) (either_down hinv hle)
    · obtain ⟨hpos, hlt⟩ := siftUp_moved hm
      simp only [Bool.not_true, Bool.false_eq_true, if_false]
      exact siftUp_heap hc _ _ _ hk (by omega) (either_up hc hinv hpos hlt)

end AwsVerif.Proofs.C06
