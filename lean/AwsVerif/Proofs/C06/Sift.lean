import AwsVerif.Proofs.C06.Swap
/-! `s_sift_down`, `s_sift_up`, `s_sift_either`: what they preserve and that they restore heap order. -/
namespace AwsVerif.Proofs.C06
open AwsVerif.Heap

/-- a predicate on queues that every in-bounds `s_swap` preserves -/
def SwapClosed (P : PQ → Prop) : Prop :=
  ∀ q a b, a < q.items.size → b < q.items.size → P q → P (sSwap q a b)

theorem pickFirst_cases (q : PQ) (root : Nat) :
    pickFirst q root = root ∨ pickFirst q root = leftOf root ∨
      (pickFirst q root = rightOf root ∧ rightOf root < q.items.size) := by
  unfold pickFirst
  grind

theorem pickFirst_lt {q : PQ} {root : Nat} (hr : root < q.items.size) (hl : leftOf root < q.items.size) :
    pickFirst q root < q.items.size := by
  rcases pickFirst_cases q root with h | h | ⟨h, h'⟩ <;> rw [h] <;> assumption

theorem siftDown_ind {P : PQ → Prop} (hP : SwapClosed P) :
    ∀ fuel q root, root < q.items.size → P q → P (siftDown fuel q root) := by
  intro fuel
  induction fuel with
  | zero => intro q root _ h; exact h
  | succ f ih =>
    intro q root hr h
    unfold siftDown
    split
    · next hl =>
      split
      · have hf := pickFirst_lt hr hl
        exact ih _ _ (by simpa using hf) (hP _ _ _ hf hr h)
      · exact h
    · exact h

theorem siftUp_ind {P : PQ → Prop} (hP : SwapClosed P) :
    ∀ fuel q index, index < q.items.size → P q → P (siftUp fuel q index).1 := by
  intro fuel
  induction fuel with
  | zero => intro q index _ h; exact h
  | succ f ih =>
    intro q index hi h
    unfold siftUp
    dsimp only
    split
    · split
      · have hp : parentOf index < q.items.size := by rw [parentOf_eq]; omega
        exact ih _ _ (by simpa using hp) (hP _ _ _ hi hp h)
      · exact h
    · exact h

theorem siftEither_ind {P : PQ → Prop} (hP : SwapClosed P) (q : PQ) (index : Nat)
    (hi : index < q.items.size) (h : P q) : P (siftEither q index) := by
  unfold siftEither
  split
  · exact siftDown_ind hP _ _ _ hi h
  · have h1 := siftUp_ind hP (index + 1) q index hi h
    have hs : (siftUp (index + 1) q index).1.items.size = q.items.size := by
      have := siftUp_ind (P := fun q' => q'.items.size = q.items.size)
        (fun q' a b _ _ hq' => by simpa using hq') (index + 1) q index hi rfl
      exact this
    simp only
    split
    · exact siftDown_ind hP _ _ _ (by omega) h1
    · exact h1

theorem swapClosed_same (q0 : PQ) : SwapClosed (fun q => Same q0 q) :=
  fun q a b _ _ h => h.trans (sSwap_same q a b)

theorem swapClosed_frame (owner ref) : SwapClosed (fun q => Frame q owner ref) :=
  fun _ _ _ ha hb h => sSwap_frame ha hb h

theorem swapClosed_and {P Q : PQ → Prop} (hP : SwapClosed P) (hQ : SwapClosed Q) : SwapClosed (fun q => P q ∧ Q q) :=
  fun q a b ha hb h => ⟨hP q a b ha hb h.1, hQ q a b ha hb h.2⟩

/-! ### heap order -/

theorem heapOrd_iff (a : Array Elem) : HeapOrd a ↔ HeapOrdF (kAt a) a.size := Iff.rfl

theorem pickFirst_spec {q : PQ} {r : Nat} (hr : r < 2^63 - 1) :
    (pickFirst q r = r ∧ kAt q.items r ≤ kAt q.items (2 * r + 1) ∧
        (2 * r + 2 < q.items.size → kAt q.items r ≤ kAt q.items (2 * r + 2))) ∨
    ((pickFirst q r = 2 * r + 1 ∨ (pickFirst q r = 2 * r + 2 ∧ 2 * r + 2 < q.items.size)) ∧
        kAt q.items (pickFirst q r) < kAt q.items r ∧
        kAt q.items (pickFirst q r) ≤ kAt q.items (2 * r + 1) ∧
        (2 * r + 2 < q.items.size → kAt q.items (pickFirst q r) ≤ kAt q.items (2 * r + 2))) := by
  unfold pickFirst keyAt
  rw [leftOf_eq hr, rightOf_eq hr]
  grind

theorem siftDown_heap : ∀ fuel (q : PQ) k, q.items.size < 2^63 → k < q.items.size → q.items.size - k ≤ fuel →
    DownInvF (kAt q.items) q.items.size k → HeapOrd (siftDown fuel q k).items := by
  intro fuel
  induction fuel with
  | zero => intro q k _ hk hf; omega
  | succ f ih =>
    intro q k hsz hk hf hinv
    have hk' : k < 2^63 - 1 := by omega
    unfold siftDown
    rw [leftOf_eq hk']
    split
    · next hl =>
      rcases pickFirst_spec (q := q) hk' with ⟨he, h1, h2⟩ | ⟨hc, hlt, h1, h2⟩
      · simp only [he, ne_eq, not_true_eq_false, if_false]
        exact down_done hinv h1 h2
      · have hne : pickFirst q k ≠ k := by omega
        have hcn : pickFirst q k < q.items.size := by omega
        simp only [hne, ne_eq, not_false_eq_true, if_true]
        apply ih
        · simpa using hsz
        · simpa using hcn
        · simp only [sSwap_size]; omega
        · rw [sSwap_items, kAt_swap hcn hk, Array.size_swapIfInBounds]
          exact down_step hinv (by omega) hcn hlt (fun _ => h1) h2
      
    · next hl => exact down_done_nochild hinv (by omega)

theorem siftUp_heap : ∀ fuel (q : PQ) k, k < q.items.size → k ≤ fuel →
    UpInvF (kAt q.items) q.items.size k → HeapOrd (siftUp fuel q k).1.items := by
  intro fuel
  induction fuel with
  | zero =>
    intro q k _ hf hinv
    exact up_done hinv (by omega)
  | succ f ih =>
    intro q k hk hf hinv
    unfold siftUp
    dsimp only
    rw [parentOf_eq]
    split
    · next h0 =>
      split
      · next hgt =>
        have hp : (k - 1) / 2 < q.items.size := by omega
        apply ih
        · simpa using hp
        · omega
        · rw [sSwap_items, kAt_swap hk hp, Array.size_swapIfInBounds]
          exact up_step hinv (by omega) hk hgt
      · next hle =>
        show HeapOrd q.items
        exact up_done hinv (Or.inr (by unfold keyAt at hle; omega))
    · next h0 =>
      show HeapOrd q.items
      exact up_done hinv (Or.inl (by omega))

theorem siftUp_not_moved {fuel : Nat} {q : PQ} {k : Nat} (h : (siftUp (fuel + 1) q k).2 = false) :
    (siftUp (fuel + 1) q k).1 = q ∧ (k = 0 ∨ kAt q.items ((k - 1) / 2) ≤ kAt q.items k) := by
  unfold siftUp at h ⊢
  dsimp only at h ⊢
  rw [parentOf_eq] at h ⊢
  unfold keyAt at h ⊢
  grind

theorem siftUp_moved {fuel : Nat} {q : PQ} {k : Nat} (h : (siftUp fuel q k).2 = true) :
    0 < k ∧ kAt q.items k < kAt q.items ((k - 1) / 2) := by
  cases fuel with
  | zero => simp [siftUp] at h
  | succ f =>
    unfold siftUp at h
    dsimp only at h
    rw [parentOf_eq] at h
    unfold keyAt at h
    grind

theorem siftEither_heap {q : PQ} {k : Nat} (hsz : q.items.size < 2^63) (hk : k < q.items.size)
    (hinv : EitherInvF (kAt q.items) q.items.size k) : HeapOrd (siftEither q k).items := by
  unfold siftEither
  split
  · next h0 => exact siftDown_heap _ _ _ hsz hk (by omega) (either_down hinv (Or.inl h0))
  · next h0 =>
    dsimp only
    cases hm : (siftUp (k + 1) q k).2
    · obtain ⟨he, hle⟩ := siftUp_not_moved hm
      simp only [Bool.not_false, if_true, he]
      exact siftDown_heap _ _ _ hsz hk (by omega) (either_down hinv hle)
    · obtain ⟨hpos, hlt⟩ := siftUp_moved hm
      simp only [Bool.not_true, Bool.false_eq_true, if_false]
      exact siftUp_heap _ _ _ hk (by omega) (either_up hinv hpos hlt)

end AwsVerif.Proofs.C06
