import AwsVerif.Proofs.C06.Inv
/-! Static storage differs from dynamic storage only in the two refusals of `push_ref`. -/
namespace AwsVerif.Proofs.C06
open AwsVerif.Heap

@[simp] theorem setCap_items (q : PQ) (c) : (setCap q c).items = q.items := rfl
@[simp] theorem setCap_bp (q : PQ) (c) : (setCap q c).bp = q.bp := rfl
@[simp] theorem setCap_handles (q : PQ) (c) : (setCap q c).handles = q.handles := rfl
@[simp] theorem setCap_cap (q : PQ) (c) : (setCap q c).cap = c := rfl
@[simp] theorem setCap_setCap (q : PQ) (c d) : setCap (setCap q c) d = setCap q d := rfl

theorem sSwap_setCap (q : PQ) (c) (a b : Nat) : sSwap (setCap q c) a b = setCap (sSwap q a b) c := by
  unfold sSwap
  cases hq : q.bp <;> simp [hq, setCap]

@[simp] theorem keyAt_setCap (q : PQ) (c) (i : Nat) : keyAt (setCap q c) i = keyAt q i := rfl

@[simp] theorem pickFirst_setCap (q : PQ) (c) (r : Nat) : pickFirst (setCap q c) r = pickFirst q r := rfl

theorem siftDown_setCap (c) : ∀ fuel (q : PQ) r, siftDown fuel (setCap q c) r = setCap (siftDown fuel q r) c := by
  intro fuel
  induction fuel with
  | zero => intro q r; rfl
  | succ f ih =>
    intro q r
    unfold siftDown
    simp only [setCap_items, pickFirst_setCap, sSwap_setCap, ih]
    repeat' split
    all_goals rfl

theorem siftUp_setCap (c) : ∀ fuel (q : PQ) k,
    siftUp fuel (setCap q c) k = (setCap (siftUp fuel q k).1 c, (siftUp fuel q k).2) := by
  intro fuel
  induction fuel with
  | zero => intro q k; rfl
  | succ f ih =>
    intro q k
    unfold siftUp
    simp only [keyAt_setCap, sSwap_setCap, ih]
    repeat' split
    all_goals rfl

theorem siftEither_setCap (c) (q : PQ) (k : Nat) : siftEither (setCap q c) k = setCap (siftEither q k) c := by
  unfold siftEither
  simp only [setCap_items, siftUp_setCap, siftDown_setCap]
  split
  · rfl
  · split <;> rfl

theorem dropLast_setCap (c) (q : PQ) (k : Nat) : dropLast (setCap q c) k = setCap (dropLast q k) c := by
  unfold dropLast
  cases hq : q.bp <;> simp [hq, setCap]

theorem removeNode_setCap (c) (q : PQ) (i : Nat) :
    removeNode (setCap q c) i = (setCap (removeNode q i).1 c, (removeNode q i).2) := by
  unfold removeNode
  simp only [setCap_items]
  cases q.items[i]? with
  | none => rfl
  | some item =>
    simp only [sSwap_setCap]
    split <;> simp [dropLast_setCap, siftEither_setCap]

theorem remove_setCap (c) (q : PQ) (h : Nat) :
    remove (setCap q c) h = (setCap (remove q h).1 c, (remove q h).2) := by
  unfold remove
  simp only [setCap_handles, setCap_items, setCap_bp, removeNode_setCap]
  cases q.handles h with
  | none => rfl
  | some i =>
    simp only []
    repeat' split
    all_goals rfl

theorem pop_setCap (c) (q : PQ) : pop (setCap q c) = (setCap (pop q).1 c, (pop q).2) := by
  unfold pop
  simp only [setCap_items, removeNode_setCap]
  split <;> rfl

theorem top_setCap (c) (q : PQ) : top (setCap q c) = top q := rfl

theorem clear_setCap (c) (q : PQ) : clear (setCap q c) = setCap (clear q) c := rfl

theorem pushCore_setCap (c) (q : PQ) (e : Elem) (h : Option Nat) :
    pushCore (setCap q c) e h = setCap (pushCore q e h) c := rfl

/-- a push without handle on a static queue that is not full is the dynamic push -/
theorem pushRef_static_eq_dynamic {q : PQ} {c : Nat} (e : Elem) (hlt : q.items.size < c) :
    pushRef (setCap q (some c)) e none =
      (setCap (pushRef (setCap q none) e none).1 (some c), (pushRef (setCap q none) e none).2) := by
  have h1 : isFull (setCap q (some c)) = false := by
    simp only [isFull, setCap_cap, setCap_items]
    exact decide_eq_false (by omega)
  have h2 : isFull (setCap q none) = false := by simp [isFull]
  unfold pushRef
  simp only [h1, h2, Bool.false_eq_true, if_false, Option.isSome_none, false_and, pushCore_setCap, setCap_items,
    siftUp_setCap, setCap_setCap]

theorem pushRef_static_full {q : PQ} {c : Nat} (e : Elem) (h : Option Nat) (hq : q.cap = some c) (hge : c ≤ q.items.size) :
    pushRef q e h = (q, some .exceedsMax) := by
  have h1 : isFull q = true := by
    simp only [isFull, hq]
    exact decide_eq_true hge
  unfold pushRef; simp [h1]

end AwsVerif.Proofs.C06
