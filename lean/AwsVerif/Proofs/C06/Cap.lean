import AwsVerif.Proofs.C06.Inv
/-! Static storage differs from dynamic storage only in the two refusals of `push_ref`. -/
namespace AwsVerif.Proofs.C06
open AwsVerif.Heap

@[simp] theorem setCap_items (q : PQ) (cp) : (setCap q cp).items = q.items := rfl
@[simp] theorem setCap_bp (q : PQ) (cp) : (setCap q cp).bp = q.bp := rfl
@[simp] theorem setCap_handles (q : PQ) (cp) : (setCap q cp).handles = q.handles := rfl
@[simp] theorem setCap_cap (q : PQ) (cp) : (setCap q cp).cap = cp := rfl
@[simp] theorem setCap_setCap (q : PQ) (cp d) : setCap (setCap q cp) d = setCap q d := rfl

theorem sSwap_setCap (q : PQ) (cp) (a b : Nat) : sSwap (setCap q cp) a b = setCap (sSwap q a b) cp := by
  unfold sSwap
  cases hq : q.bp <;> simp [hq, setCap]

@[simp] theorem keyAt_setCap (q : PQ) (cp) (i : Nat) : keyAt (setCap q cp) i = keyAt q i := rfl

@[simp] theorem pickFirst_setCap (c : Cmp) (q : PQ) (cp) (r : Nat) : pickFirst c (setCap q cp) r = pickFirst c q r := rfl

theorem siftDown_setCap (c : Cmp) (cp) : ∀ fuel (q : PQ) r, siftDown c fuel (setCap q cp) r = setCap (siftDown c fuel q r) cp := by
  intro fuel
  induction fuel with
  | zero => intro q r; rfl
  | succ f ih =>
    intro q r
    unfold siftDown
    simp only [setCap_items, pickFirst_setCap, sSwap_setCap, ih]
    repeat' split
    all_goals rfl

theorem siftUp_setCap (c : Cmp) (cp) : ∀ fuel (q : PQ) k,
    siftUp c fuel (setCap q cp) k = (setCap (siftUp c fuel q k).1 cp, (siftUp c fuel q k).2) := by
  intro fuel
  induction fuel with
  | zero => intro q k; rfl
  | succ f ih =>
    intro q k
    unfold siftUp
    simp only [keyAt_setCap, sSwap_setCap, ih]
    repeat' split
    all_goals rfl

theorem siftEither_setCap (c : Cmp) (cp) (q : PQ) (k : Nat) : siftEither c (setCap q cp) k = setCap (siftEither c q k) cp := by
  unfold siftEither
  simp only [setCap_items, siftUp_setCap, siftDown_setCap]
  split
  · rfl
  · split <;> rfl

theorem dropLast_setCap (cp) (q : PQ) (k : Nat) : dropLast (setCap q cp) k = setCap (dropLast q k) cp := by
  unfold dropLast
  cases hq : q.bp <;> simp [hq, setCap]

theorem removeNode_setCap (c : Cmp) (cp) (q : PQ) (i : Nat) :
    removeNode c (setCap q cp) i = (setCap (removeNode c q i).1 cp, (removeNode c q i).2) := by
  unfold removeNode
  simp only [setCap_items]
  cases q.items[i]? with
  | none => rfl
  | some item =>
    simp only [sSwap_setCap]
    split <;> simp [dropLast_setCap, siftEither_setCap]

theorem remove_setCap (c : Cmp) (cp) (q : PQ) (h : Nat) :
    remove c (setCap q cp) h = (setCap (remove c q h).1 cp, (remove c q h).2) := by
  unfold remove
  simp only [setCap_handles, setCap_items, setCap_bp, removeNode_setCap]
  cases q.handles h with
  | none => rfl
  | some i =>
    simp only []
    repeat' split
    all_goals rfl

theorem pop_setCap (c : Cmp) (cp) (q : PQ) : pop c (setCap q cp) = (setCap (pop c q).1 cp, (pop c q).2) := by
  unfold pop
  simp only [setCap_items, removeNode_setCap]
  split <;> rfl

theorem top_setCap (cp) (q : PQ) : top (setCap q cp) = top q := rfl

theorem clear_setCap (cp) (q : PQ) : clear (setCap q cp) = setCap (clear q) cp := rfl

theorem pushCore_setCap (cp) (q : PQ) (e : Elem) (h : Option Nat) :
    pushCore (setCap q cp) e h = setCap (pushCore q e h) cp := rfl

/-- a push without handle on a static queue that is not full is the dynamic push -/
theorem pushRef_static_eq_dynamic (c : Cmp) {q : PQ} {cp : Nat} (e : Elem) (hlt : q.items.size < cp) :
    pushRef c (setCap q (some cp)) e none =
      (setCap (pushRef c (setCap q none) e none).1 (some cp), (pushRef c (setCap q none) e none).2) := by
  have h1 : isFull (setCap q (some cp)) = false := by
    simp only [isFull, setCap_cap, setCap_items]
    exact decide_eq_false (by omega)
  have h2 : isFull (setCap q none) = false := by simp [isFull]
  unfold pushRef
  simp only [h1, h2, Bool.false_eq_true, if_false, Option.isSome_none, false_and, pushCore_setCap, setCap_items,
    siftUp_setCap, setCap_setCap]

theorem pushRef_static_full (c : Cmp) {q : PQ} {cp : Nat} (e : Elem) (h : Option Nat) (hq : q.cap = some cp) (hge : cp ≤ q.items.size) :
    pushRef c q e h = (q, some .exceedsMax) := by
  have h1 : isFull q = true := by
    simp only [isFull, hq]
    exact decide_eq_true hge
  unfold pushRef; simp [h1]

end AwsVerif.Proofs.C06
