import AwsVerif.Proofs.C06.Sift
/-! The public operations at the level of one queue and a ghost `(owner, ref)`. -/
namespace AwsVerif.Proofs.C06
open AwsVerif.Heap

/-- invariant of a queue relative to the ghost state -/
structure QInv (c : Cmp) (q : PQ) (owner : Nat → Option Elem) (ref : List Elem) : Prop where
  frame : Frame q owner ref
  heap : HeapOrd c q.items
  capOK : ∀ c, q.cap = some c → q.items.size ≤ c ∧ q.bp = none

theorem perm_erase_of_append_singleton {l r : List Elem} {x : Elem} (h : (l ++ [x]).Perm r) : l.Perm (r.erase x) := by
  have h1 : ((l ++ [x]).erase x).Perm (r.erase x) := h.erase x
  have h2 : (l ++ [x]).Perm (x :: l) := List.perm_append_singleton x l
  have h3 : ((l ++ [x]).erase x).Perm ((x :: l).erase x) := h2.erase x
  rw [List.erase_cons_head] at h3
  exact h3.symm.trans h1

theorem toList_pop_append {a : Array Elem} {x : Elem} (h : a[a.size - 1]? = some x) :
    a.pop.toList ++ [x] = a.toList := by
  have hs : 0 < a.size := by
    rcases Nat.eq_zero_or_pos a.size with h0 | h0
    · simp [h0] at h
    · exact h0
  have : a = a.pop.push x := by
    apply Array.ext
    · simp; omega
    · intro i h1 h2
      by_cases hi : i < a.size - 1
      · simp [Array.getElem_push, hi]
      · have : i = a.size - 1 := by omega
        subst this
        simp [Array.getElem_push]
        have := Array.getElem?_eq_getElem (xs := a) (i := a.size - 1) (by omega)
        rw [this] at h
        exact Option.some.inj h
  conv => rhs; rw [this]
  simp

/-- handle function after `dropLast` when back-pointers exist -/
def dropH (hs : Nat → Option Nat) (B : Array (Option Nat)) (k : Nat) : Nat → Option Nat :=
  match ptrAt B k with
  | some h => upd hs h none
  | none => hs

theorem dropLast_frame {q : PQ} {owner ref} {item : Elem} (h : Frame q owner ref) (hnd : ref.Nodup)
    (hlast : q.items[q.items.size - 1]? = some item) :
    Frame (dropLast q (q.items.size - 1)) owner (ref.erase item) := by
  have hpos : 0 < q.items.size := by
    rcases Nat.eq_zero_or_pos q.items.size with h0 | h0
    · simp [h0] at hlast
    · exact h0
  have hperm : q.items.pop.toList.Perm (ref.erase item) := by
    apply perm_erase_of_append_singleton
    rw [toList_pop_append hlast]
    exact h.perm
  have hni : item ∉ ref.erase item := by
    intro hm
    exact (List.Nodup.mem_erase_iff hnd).mp hm |>.1 rfl
  cases hq : q.bp with
  | none =>
    have hb := h.bpok
    simp only [BpOK, hq] at hb
    have e : dropLast q (q.items.size - 1) = { q with items := q.items.pop } := by
      unfold dropLast; simp [hq]
    rw [e]
    refine ⟨?_, ?_, hperm, ?_⟩
    · simp only [BpOK, hq]; exact hb
    · intro x i hx; simp [hb x] at hx
    · intro x e' _ ho hm
      exact h.dead x e' (hb x) ho (List.mem_of_mem_erase hm)
  | some B =>
    have hb := h.bpok
    simp only [BpOK, hq] at hb
    obtain ⟨hs, hbij⟩ := hb
    have e : dropLast q (q.items.size - 1) =
        PQ.mk q.items.pop (some B.pop) (dropH q.handles B (q.items.size - 1)) q.cap := by
      unfold dropLast dropH; simp only [hq]; rfl
    rw [e]
    unfold dropH
    have hpt : ∀ x, ptrAt B (q.items.size - 1) = some x ↔ B[q.items.size - 1]? = some (some x) := fun x => ptrAt_eq
    refine ⟨?_, ?_, hperm, ?_⟩
    · simp only [BpOK]
      refine ⟨by simp [hs], ?_⟩
      intro x i
      have := hbij x
      cases hp : ptrAt B (q.items.size - 1) with
      | none =>
        simp only []
        have := hpt x
        grind
      | some h0 =>
        simp only [upd]
        have := (hpt h0).mp hp
        have := hbij h0
        grind
    · intro x i
      have := hbij x
      have t := h.tracks x i
      cases hp : ptrAt B (q.items.size - 1) with
      | none =>
        simp only []
        grind
      | some h0 =>
        simp only [upd]
        have := (hpt h0).mp hp
        have := hbij h0
        grind
    · intro x e'
      have d := h.dead x e'
      cases hp : ptrAt B (q.items.size - 1) with
      | none =>
        simp only []
        intro hx ho hm
        exact d hx ho (List.mem_of_mem_erase hm)
      | some h0 =>
        simp only [upd]
        have h1 := (hpt h0).mp hp
        have h2 := (hbij h0 (q.items.size - 1)).mpr h1
        have h3 := h.tracks h0 _ h2
        intro hx ho hm
        by_cases hx0 : x = h0
        · subst hx0
          rw [hlast, ho] at h3
          cases h3
          exact hni hm
        · simp only [hx0, if_false] at hx
          exact d hx ho (List.mem_of_mem_erase hm)

@[simp] theorem dropLast_items (q : PQ) (k : Nat) : (dropLast q k).items = q.items.pop := by
  unfold dropLast; split <;> rfl

@[simp] theorem dropLast_cap (q : PQ) (k : Nat) : (dropLast q k).cap = q.cap := by
  unfold dropLast; split <;> rfl

theorem dropLast_bp_isSome (q : PQ) (k : Nat) : (dropLast q k).bp.isSome = q.bp.isSome := by
  unfold dropLast; split <;> simp_all

theorem kAt_pop {a : Array Elem} {i : Nat} (hi : i < a.size - 1) : kAt a.pop i = kAt a i := by
  unfold kAt; rw [Array.getElem?_pop]; simp [hi]

theorem heapOrd_pop {c : Cmp} {a : Array Elem} (h : HeapOrd c a) : HeapOrd c a.pop := by
  intro i hi hn
  simp only [Array.size_pop] at hn
  rw [kAt_pop (by omega), kAt_pop hn]
  exact h i hi (by omega)

theorem sameOf_siftEither (c : Cmp) (q : PQ) (k : Nat) (hk : k < q.items.size) : Same q (siftEither c q k) :=
  siftEither_ind (swapClosed_same q) c q k hk (Same.refl q)

theorem removeNode_spec {c : Cmp} (hc : CmpOK c) {q : PQ} {owner ref} {idx : Nat} (hinv : QInv c q owner ref) (hnd : ref.Nodup)
    (hsz : q.items.size < 2^63) (hidx : idx < q.items.size) :
    ∃ e, q.items[idx]? = some e ∧ (removeNode c q idx).2 = .ok e ∧
      QInv c (removeNode c q idx).1 owner (ref.erase e) ∧
      (removeNode c q idx).1.items.size = q.items.size - 1 ∧ (removeNode c q idx).1.cap = q.cap ∧
      (removeNode c q idx).1.bp.isSome = q.bp.isSome := by
  have he : q.items[idx]? = some q.items[idx] := Array.getElem?_eq_getElem hidx
  refine ⟨q.items[idx], he, ?_⟩
  generalize q.items[idx] = e at he
  unfold removeNode
  simp only [he]
  by_cases hil : idx = q.items.size - 1
  · -- the last element: no swap, no sift
    simp only [hil, ne_eq, not_true_eq_false, if_false]
    have hlast : q.items[q.items.size - 1]? = some e := hil ▸ he
    have hf := dropLast_frame hinv.frame hnd hlast
    refine ⟨trivial, ⟨hf, ?_, ?_⟩, by simp, by simp, dropLast_bp_isSome _ _⟩
    · simpa using heapOrd_pop hinv.heap
    · intro cp hcp
      have := hinv.capOK cp (by simpa using hcp)
      refine ⟨by simp; omega, ?_⟩
      have hb := dropLast_bp_isSome q (q.items.size - 1)
      rw [this.2] at hb
      cases hx : (dropLast q (q.items.size - 1)).bp <;> simp_all
  · simp only [hil, ne_eq, not_false_eq_true, if_true]
    have hl : q.items.size - 1 < q.items.size := by omega
    have hf1 := sSwap_frame hidx hl hinv.frame
    have hlast : (sSwap q idx (q.items.size - 1)).items[(sSwap q idx (q.items.size - 1)).items.size - 1]? = some e := by
      simp only [sSwap_size]
      rw [sSwap_items, getElem?_swapIB hidx hl]
      simp [he]
      intro h; omega
    have hf3 := dropLast_frame hf1 hnd hlast
    simp only [sSwap_size] at hf3
    have hk3 : idx < (dropLast (sSwap q idx (q.items.size - 1)) (q.items.size - 1)).items.size := by
      simp; omega
    have hsame := sameOf_siftEither c _ _ hk3
    have hf4 := siftEither_ind (swapClosed_frame owner (ref.erase e)) c _ _ hk3 hf3
    have hheap : HeapOrd c (siftEither c (dropLast (sSwap q idx (q.items.size - 1)) (q.items.size - 1)) idx).items := by
      apply siftEither_heap hc (by simp; omega) hk3
      apply either_of_heap hc (hinv.heap) (n' := _) (by simp)
      intro i hi hne
      simp only [dropLast_items, Array.size_pop, sSwap_items, Array.size_swapIfInBounds] at hi ⊢
      rw [kAt_pop (by simpa using hi), kAt_swap hidx hl]
      simp only [swapF, hne, if_false]
      have : i ≠ q.items.size - 1 := by omega
      simp [this]
    refine ⟨trivial, ⟨hf4, hheap, ?_⟩, ?_, ?_, ?_⟩
    · intro cp hcp
      rw [hsame.2.1] at hcp
      have := hinv.capOK cp (by simpa using hcp)
      refine ⟨by rw [hsame.1]; simp; omega, ?_⟩
      have hb := hsame.2.2
      rw [dropLast_bp_isSome, (sSwap_same q idx (q.items.size - 1)).2.2, this.2] at hb
      cases hx : (siftEither c (dropLast (sSwap q idx (q.items.size - 1)) (q.items.size - 1)) idx).bp <;> simp_all
    · rw [hsame.1]; simp
    · rw [hsame.2.1]; simp
    · rw [hsame.2.2, dropLast_bp_isSome, (sSwap_same q idx (q.items.size - 1)).2.2]

theorem mem_items_of_mem_ref {c : Cmp} {q : PQ} {owner ref} (hinv : QInv c q owner ref) {x : Elem} (hx : x ∈ ref) :
    ∃ i, i < q.items.size ∧ q.items[i]? = some x := by
  have : x ∈ q.items.toList := hinv.frame.perm.symm.subset hx
  have := Array.mem_def.mpr this
  obtain ⟨i, hi, rfl⟩ := Array.getElem_of_mem this
  exact ⟨i, hi, Array.getElem?_eq_getElem hi⟩

theorem mem_ref_of_getElem? {c : Cmp} {q : PQ} {owner ref} (hinv : QInv c q owner ref) {x : Elem} {i : Nat}
    (hx : q.items[i]? = some x) : x ∈ ref := by
  apply hinv.frame.perm.subset
  have := Array.mem_of_getElem? hx
  exact Array.mem_def.mp this

/-- the root is a minimum of the reference multiset -/
theorem root_min {c : Cmp} (hc : CmpOK c) {q : PQ} {owner ref} (hinv : QInv c q owner ref) {e : Elem} (he : q.items[0]? = some e) :
    e ∈ ref ∧ ∀ x ∈ ref, c.le e.key x.key := by
  refine ⟨mem_ref_of_getElem? hinv he, ?_⟩
  intro x hx
  obtain ⟨i, hi, hxi⟩ := mem_items_of_mem_ref hinv hx
  have := heapOrdF_min hc ((heapOrd_iff c _).mp hinv.heap) i hi
  simpa [kAt, he, hxi] using this

theorem live_bounds {c : Cmp} {q : PQ} {owner ref} (hinv : QInv c q owner ref) {h i : Nat} (hh : q.handles h = some i) :
    i < q.items.size ∧ q.bp.isSome := by
  have hb := hinv.frame.bpok
  cases hq : q.bp with
  | none => simp only [BpOK, hq] at hb; simp [hb h] at hh
  | some B =>
    simp only [BpOK, hq] at hb
    have := (hb.2 h i).mp hh
    have : i < B.size := by
      rcases Nat.lt_or_ge i B.size with h1 | h1
      · exact h1
      · simp [Array.getElem?_eq_none h1] at this
    exact ⟨by omega, rfl⟩

theorem remove_stale {c : Cmp} {q : PQ} {h : Nat} (hh : q.handles h = none) : remove c q h = (q, .error .badNode) := by
  unfold remove; simp [hh]

theorem remove_live {c : Cmp} {q : PQ} {owner ref} (hinv : QInv c q owner ref) {h i : Nat} (hh : q.handles h = some i) :
    remove c q h = removeNode c q i := by
  obtain ⟨h1, h2⟩ := live_bounds hinv hh
  unfold remove; simp [hh, h1, h2]

theorem foldl_clear (l : List (Option Nat)) (hs0 : Nat → Option Nat) (h : Nat) :
    (l.foldl clearStep hs0) h =
      if some h ∈ l then none else hs0 h := by
  induction l generalizing hs0 with
  | nil => simp
  | cons o l ih =>
    rw [List.foldl_cons, ih]
    cases o with
    | none => simp [clearStep]
    | some x =>
      simp only [clearStep, upd, List.mem_cons, Option.some.injEq]
      grind

theorem clear_spec {c : Cmp} {q : PQ} {owner ref} (hinv : QInv c q owner ref) : QInv c (clear q) owner [] := by
  have hnone : ∀ h, (clear q).handles h = none := by
    intro h
    unfold clear
    simp only [foldl_clear]
    have hb := hinv.frame.bpok
    cases hq : q.bp with
    | none => simp only [BpOK, hq] at hb; simp [hb h]
    | some B =>
      simp only [BpOK, hq] at hb
      simp only [Option.getD_some]
      split
      · rfl
      · next hni =>
        cases hh : q.handles h with
        | none => rfl
        | some i =>
          exfalso
          apply hni
          have := (hb.2 h i).mp hh
          have := Array.mem_of_getElem? this
          exact Array.mem_def.mp this
  have hitems : (clear q).items = #[] := rfl
  have hbp : (clear q).bp = q.bp.map (fun _ => #[]) := rfl
  have hcap : (clear q).cap = q.cap := rfl
  refine ⟨⟨?_, ?_, ?_, ?_⟩, ?_, ?_⟩
  · simp only [BpOK, hbp]
    cases hq : q.bp with
    | none => simpa using hnone
    | some B => simp [hitems, hnone]
  · intro h i hh; simp [hnone h] at hh
  · simp [hitems]
  · intro _ _ _ _ hm; cases hm
  · intro i _ hi; simp [hitems] at hi
  · intro cp hcp
    rw [hcap] at hcp
    have := hinv.capOK cp hcp
    simp [hitems, hbp, this.2]

theorem bpSetAt_size {B : Array (Option Nat)} {v : Option Nat} : bpSetAt B B.size v = B.push v := by
  unfold bpSetAt; simp

theorem bpSetAt_empty {n : Nat} {v : Option Nat} : bpSetAt #[] n v = (Array.replicate n none).push v := by
  unfold bpSetAt; simp

/-- ghost owner map after a successful push with optional handle -/
def ownerPush (owner : Nat → Option Elem) (h : Option Nat) (e : Elem) : Nat → Option Elem :=
  match h with
  | some h0 => upd owner h0 (some e)
  | none => owner

theorem pushCore_items (q : PQ) (e : Elem) (h : Option Nat) : (pushCore q e h).items = q.items.push e := rfl
theorem pushCore_cap (q : PQ) (e : Elem) (h : Option Nat) : (pushCore q e h).cap = q.cap := rfl

theorem perm_push {a : Array Elem} {ref : List Elem} {e : Elem} (h : a.toList.Perm ref) :
    (a.push e).toList.Perm (e :: ref) := by
  rw [Array.toList_push]
  exact (List.perm_append_singleton e a.toList).trans (List.Perm.cons e h)

theorem pushCore_frame {q : PQ} {owner ref} {e : Elem} {h : Option Nat} (hf : Frame q owner ref)
    (hleg : ∀ h0, h = some h0 → q.handles h0 = none)
    (hfo : ∀ x e', h ≠ some x → owner x = some e' → e' ≠ e) :
    Frame (pushCore q e h) (ownerPush owner h e) (e :: ref) := by
  have hb := hf.bpok
  have hperm := perm_push (e := e) hf.perm
  cases h with
  | none =>
    cases hq : q.bp with
    | none =>
      simp only [BpOK, hq] at hb
      have e1 : pushCore q e none = PQ.mk (q.items.push e) none q.handles q.cap := by
        unfold pushCore; simp [hq]
      rw [e1]
      refine ⟨by simpa [BpOK] using hb, ?_, hperm, ?_⟩
      · intro x i hx; simp [hb x] at hx
      · intro x e' hx ho hm
        simp only [ownerPush] at ho
        rcases List.mem_cons.mp hm with rfl | hm
        · exact hfo x _ (by simp) ho rfl
        · exact hf.dead x e' hx ho hm
    | some B =>
      simp only [BpOK, hq] at hb
      obtain ⟨hs, hbij⟩ := hb
      have e1 : pushCore q e none = PQ.mk (q.items.push e) (some (B.push none)) q.handles q.cap := by
        unfold pushCore; simp [hq, ← hs, bpSetAt_size]
      rw [e1]
      refine ⟨?_, ?_, hperm, ?_⟩
      · simp only [BpOK]
        refine ⟨by simp [hs], ?_⟩
        intro x i
        have := hbij x i
        grind
      · intro x i hx
        have := (hbij x i).mp hx
        have t := hf.tracks x i hx
        simp only [ownerPush]
        grind
      · intro x e' hx ho hm
        simp only [ownerPush] at ho
        rcases List.mem_cons.mp hm with rfl | hm
        · exact hfo x _ (by simp) ho rfl
        · exact hf.dead x e' hx ho hm
  | some h0 =>
    have hl := hleg h0 rfl
    cases hq : q.bp with
    | none =>
      simp only [BpOK, hq] at hb
      have e1 : pushCore q e (some h0) = PQ.mk (q.items.push e)
          (some ((Array.replicate q.items.size none).push (some h0))) (upd q.handles h0 (some q.items.size)) q.cap := by
        unfold pushCore; simp [hq, bpSetAt_empty]
      rw [e1]
      refine ⟨?_, ?_, hperm, ?_⟩
      · simp only [BpOK]
        refine ⟨by simp, ?_⟩
        intro x i
        have := hb x
        simp only [upd]
        grind
      · intro x i
        have := hb x
        simp only [upd, ownerPush]
        grind
      · intro x e'
        simp only [upd, ownerPush]
        intro hx ho hm
        have hx0 : x ≠ h0 := by intro hh; simp [hh] at hx
        simp only [hx0, if_false] at hx ho
        rcases List.mem_cons.mp hm with rfl | hm
        · exact hfo x _ (by intro hh; exact hx0 (Option.some.inj hh).symm) ho rfl
        · exact hf.dead x e' hx ho hm
    | some B =>
      simp only [BpOK, hq] at hb
      obtain ⟨hs, hbij⟩ := hb
      have e1 : pushCore q e (some h0) = PQ.mk (q.items.push e) (some (B.push (some h0)))
          (upd q.handles h0 (some q.items.size)) q.cap := by
        unfold pushCore; simp [hq, ← hs, bpSetAt_size]
      rw [e1]
      refine ⟨?_, ?_, hperm, ?_⟩
      · simp only [BpOK]
        refine ⟨by simp [hs], ?_⟩
        intro x i
        have := hbij x i
        have := hbij h0 i
        simp only [upd]
        grind
      · intro x i
        have := hbij x i
        have t := hf.tracks x i
        simp only [upd, ownerPush]
        grind
      · intro x e'
        simp only [upd, ownerPush]
        intro hx ho hm
        have hx0 : x ≠ h0 := by intro hh; simp [hh] at hx
        simp only [hx0, if_false] at hx ho
        rcases List.mem_cons.mp hm with rfl | hm
        · exact hfo x _ (by intro hh; exact hx0 (Option.some.inj hh).symm) ho rfl
        · exact hf.dead x e' hx ho hm

theorem kAt_push {a : Array Elem} {e : Elem} {i : Nat} (hi : i < a.size) : kAt (a.push e) i = kAt a i := by
  unfold kAt; rw [Array.getElem?_push]; simp [Nat.ne_of_lt hi]

theorem pushCore_bp_none {q : PQ} {e : Elem} (hq : q.bp = none) : (pushCore q e none).bp = none := by
  unfold pushCore; simp [hq]

theorem pushRef_spec {c : Cmp} (hc : CmpOK c) {q : PQ} {owner ref} {e : Elem} {h : Option Nat} (hinv : QInv c q owner ref)
    (hleg : ∀ h0, h = some h0 → q.handles h0 = none)
    (hfo : ∀ x e', h ≠ some x → owner x = some e' → e' ≠ e) :
    (pushRef c q e h = (q, some .exceedsMax) ∧ isFull q = true) ∨
    (pushRef c q e h = (q, some .unsupported) ∧ isFull q = false ∧ h.isSome ∧ q.cap.isSome) ∨
    (∃ q', pushRef c q e h = (q', none) ∧ isFull q = false ∧ QInv c q' (ownerPush owner h e) (e :: ref) ∧
      q'.items.size = q.items.size + 1 ∧ q'.cap = q.cap) := by
  unfold pushRef
  by_cases hfull : isFull q = true
  · left; simp [hfull]
  · simp only [hfull, Bool.false_eq_true, if_false]
    by_cases hun : h.isSome ∧ q.bp.isNone ∧ q.cap.isSome
    · right; left
      simp only [hun, and_self, if_true]
    · right; right
      simp only [hun, if_false]
      refine ⟨_, rfl, by simp, ?_⟩
      have hk : (pushCore q e h).items.size - 1 < (pushCore q e h).items.size := by
        simp [pushCore_items]
      have hf1 := pushCore_frame (e := e) (h := h) hinv.frame hleg hfo
      have hf2 := siftUp_ind (swapClosed_frame _ _) c (pushCore q e h).items.size _ _ hk hf1
      have hsame := siftUp_ind (swapClosed_same (pushCore q e h)) c (pushCore q e h).items.size _ _ hk (Same.refl _)
      have hheap : HeapOrd c (siftUp c (pushCore q e h).items.size (pushCore q e h) ((pushCore q e h).items.size - 1)).1.items := by
        apply siftUp_heap hc _ _ _ hk (by omega)
        simp only [pushCore_items, Array.size_push, Nat.add_sub_cancel]
        exact up_of_heap_push ((heapOrd_iff c _).mp hinv.heap) (fun i hi => kAt_push hi)
      refine ⟨⟨hf2, hheap, ?_⟩, ?_, ?_⟩
      · intro cp hcp
        rw [hsame.2.1, pushCore_cap] at hcp
        have hcap := hinv.capOK cp hcp
        have hlt : q.items.size < cp := by
          unfold isFull at hfull; simp [hcp] at hfull; exact hfull
        refine ⟨by rw [hsame.1, pushCore_items]; simp; omega, ?_⟩
        have hnone : h = none := by
          cases h with
          | none => rfl
          | some h0 => exfalso; apply hun; simp [hcap.2, hcp]
        subst hnone
        have hb := hsame.2.2
        rw [pushCore_bp_none hcap.2] at hb
        cases hx : (siftUp c (pushCore q e none).items.size (pushCore q e none) ((pushCore q e none).items.size - 1)).1.bp <;> simp_all
      · rw [hsame.1, pushCore_items]; simp
      · rw [hsame.2.1, pushCore_cap]

end AwsVerif.Proofs.C06
