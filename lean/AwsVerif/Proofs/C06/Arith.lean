import AwsVerif.Model.Heap
/-! Index arithmetic of the heap macros and heap-order facts on key functions `Nat → Nat`. -/
namespace AwsVerif.Proofs.C06
open AwsVerif.Heap

theorem parentOf_eq (i : Nat) : parentOf i = (i - 1) / 2 := by
  unfold parentOf
  simp only [Nat.and_one_is_mod, Nat.shiftRight_eq_div_pow]
  split
  · omega
  · split <;> omega

theorem leftOf_eq {i : Nat} (h : i < 2^63 - 1) : leftOf i = 2 * i + 1 := by
  unfold leftOf
  simp only [Nat.shiftLeft_eq]
  omega

theorem rightOf_eq {i : Nat} (h : i < 2^63 - 1) : rightOf i = 2 * i + 2 := by
  unfold rightOf
  simp only [Nat.shiftLeft_eq]
  omega

/-- exchange of two values of a function -/
def swapF (f : Nat → Nat) (i j : Nat) : Nat → Nat := fun k => if k = i then f j else if k = j then f i else f k

theorem swapF_left (f : Nat → Nat) (a b : Nat) : swapF f a b a = f b := by simp [swapF]
theorem swapF_right (f : Nat → Nat) (a b : Nat) : swapF f a b b = f a := by
  simp only [swapF]; split
  · next h => rw [h]
  · simp
theorem swapF_other (f : Nat → Nat) {a b i : Nat} (h1 : i ≠ a) (h2 : i ≠ b) : swapF f a b i = f i := by
  simp [swapF, h1, h2]

theorem Cmp.le_refl {c : Cmp} (hc : CmpOK c) (a : Nat) : c.le a a := by
  rcases hc.total a a with h | h <;> exact h

/-- `pred(a, b) > 0` implies `b` may stay above `a` -/
theorem Cmp.le_of_gt {c : Cmp} (hc : CmpOK c) {a b : Nat} (h : c.gt a b = true) : c.le b a := by
  rcases hc.total a b with h' | h'
  · unfold Cmp.le at h'; rw [h] at h'; cases h'
  · exact h'

theorem Cmp.le_of_not_gt {c : Cmp} {a b : Nat} (h : ¬ c.gt a b = true) : c.le a b := by
  unfold Cmp.le; cases hg : c.gt a b
  · rfl
  · exact absurd hg h

/-- `Nat` keys with `≤` (the comparator `(a > b) - (a < b)`) are a total preorder -/
theorem natCmp_ok : CmpOK natCmp := by
  constructor
  · intro a b; simp only [Cmp.le, natCmp, decide_eq_false_iff_not]; omega
  · intro a b d; simp only [Cmp.le, natCmp, decide_eq_false_iff_not]; omega

theorem natCmp_le (a b : Nat) : natCmp.le a b ↔ a ≤ b := by
  simp only [Cmp.le, natCmp, decide_eq_false_iff_not]; omega

def HeapOrdF (c : Cmp) (f : Nat → Nat) (n : Nat) : Prop := ∀ i, 0 < i → i < n → c.le (f ((i - 1) / 2)) (f i)

/-- all edges hold except those from `k` to its children; `k`'s parent is below `k`'s children -/
def DownInvF (c : Cmp) (f : Nat → Nat) (n k : Nat) : Prop :=
  (∀ i, 0 < i → i < n → (i - 1) / 2 ≠ k → c.le (f ((i - 1) / 2)) (f i)) ∧
  (0 < k → ∀ i, 0 < i → i < n → (i - 1) / 2 = k → c.le (f ((k - 1) / 2)) (f i))

/-- all edges hold except the one from `k`'s parent to `k`; `k`'s parent is below `k`'s children -/
def UpInvF (c : Cmp) (f : Nat → Nat) (n k : Nat) : Prop :=
  (∀ i, 0 < i → i < n → i ≠ k → c.le (f ((i - 1) / 2)) (f i)) ∧
  (0 < k → ∀ i, 0 < i → i < n → (i - 1) / 2 = k → c.le (f ((k - 1) / 2)) (f i))

/-- all edges not touching `k` hold; `k`'s parent is below `k`'s children -/
def EitherInvF (c : Cmp) (f : Nat → Nat) (n k : Nat) : Prop :=
  (∀ i, 0 < i → i < n → i ≠ k → (i - 1) / 2 ≠ k → c.le (f ((i - 1) / 2)) (f i)) ∧
  (0 < k → ∀ i, 0 < i → i < n → (i - 1) / 2 = k → c.le (f ((k - 1) / 2)) (f i))

theorem heapOrdF_min {c : Cmp} (hc : CmpOK c) {f n} (h : HeapOrdF c f n) : ∀ i, i < n → c.le (f 0) (f i) := by
  intro i
  induction i using Nat.strongRecOn with
  | _ i ih =>
    intro hi
    by_cases h0 : i = 0
    · subst h0; exact Cmp.le_refl hc _
    · have h1 := h i (by omega) hi
      have h2 := ih ((i - 1) / 2) (by omega) (by omega)
      exact hc.trans _ _ _ h2 h1

theorem down_done_nochild {c : Cmp} {f n k} (h : DownInvF c f n k) (hl : n ≤ 2 * k + 1) : HeapOrdF c f n := by
  intro i hi hn
  exact h.1 i hi hn (by omega)

theorem down_done {c : Cmp} {f n k} (h : DownInvF c f n k) (hl : c.le (f k) (f (2 * k + 1)))
    (hr : 2 * k + 2 < n → c.le (f k) (f (2 * k + 2))) : HeapOrdF c f n := by
  intro i hi hn
  by_cases hp : (i - 1) / 2 = k
  · have : i = 2 * k + 1 ∨ i = 2 * k + 2 := by omega
    rcases this with rfl | rfl
    · rw [hp]; exact hl
    · rw [hp]; exact hr hn
  · exact h.1 i hi hn hp

/-- one iteration of `s_sift_down` that swaps `k` with the child `x` chosen by the loop body -/
theorem down_step {c : Cmp} (hc : CmpOK c) {f n k x} (h : DownInvF c f n k) (hx : x = 2 * k + 1 ∨ x = 2 * k + 2) (hxn : x < n)
    (hlt : c.gt (f k) (f x) = true)
    (hl : 2 * k + 1 < n → c.le (f x) (f (2 * k + 1))) (hr : 2 * k + 2 < n → c.le (f x) (f (2 * k + 2))) :
    DownInvF c (swapF f x k) n x := by
  obtain ⟨h1, h2⟩ := h
  have hle : c.le (f x) (f k) := Cmp.le_of_gt hc hlt
  have hpx : (x - 1) / 2 = k := by omega
  have hxk : x ≠ k := by omega
  constructor
  · intro i hi hn hp
    by_cases hik : i = k
    · -- edge parent(k) → k: k now holds f x
      subst hik
      rw [swapF_right, swapF_other f hp (by omega)]
      exact h2 hi x (by omega) hxn hpx
    · by_cases hix : i = x
      · subst hix
        rw [hpx, swapF_right, swapF_left]
        exact hle
      · by_cases hpk : (i - 1) / 2 = k
        · -- the other child of k
          have hi2 : i = 2 * k + 1 ∨ i = 2 * k + 2 := by omega
          rw [hpk, swapF_right, swapF_other f hix hik]
          rcases hi2 with rfl | rfl
          · exact hl hn
          · exact hr hn
        · rw [swapF_other f hp hpk, swapF_other f hix hik]
          exact h1 i hi hn hpk
  · intro _ i hi hn hp
    -- grandparent of i is k, which now holds f x; i itself is untouched
    have hix : i ≠ x := by omega
    have hik : i ≠ k := by omega
    rw [hpx, swapF_right, swapF_other f hix hik]
    have := h1 i hi hn (by omega)
    rw [hp] at this
    exact this

theorem up_done {c : Cmp} {f n k} (h : UpInvF c f n k) (hk : k = 0 ∨ c.le (f ((k - 1) / 2)) (f k)) : HeapOrdF c f n := by
  intro i hi hn
  by_cases hik : i = k
  · subst hik
    rcases hk with rfl | hk
    · omega
    · exact hk
  · exact h.1 i hi hn hik

/-- one iteration of `s_sift_up` that swaps `k` with its parent -/
theorem up_step {c : Cmp} (hc : CmpOK c) {f n k} (h : UpInvF c f n k) (hk : 0 < k) (hkn : k < n)
    (hlt : c.gt (f ((k - 1) / 2)) (f k) = true) :
    UpInvF c (swapF f k ((k - 1) / 2)) n ((k - 1) / 2) := by
  obtain ⟨h1, h2⟩ := h
  have hle : c.le (f k) (f ((k - 1) / 2)) := Cmp.le_of_gt hc hlt
  have hpk : (k - 1) / 2 ≠ k := by omega
  constructor
  · intro i hi hn hip
    by_cases hik : i = k
    · subst hik
      rw [swapF_right, swapF_left]
      exact hle
    · have a1 := h1 i hi hn hik
      by_cases hp : (i - 1) / 2 = k
      · -- child of k: k now holds the old parent value
        rw [hp, swapF_left, swapF_other f hik hip]
        exact h2 hk i hi hn hp
      · by_cases hpp : (i - 1) / 2 = (k - 1) / 2
        · -- sibling of k: the parent now holds f k, below the old parent value
          rw [hpp, swapF_right, swapF_other f hik hip]
          rw [hpp] at a1
          exact hc.trans _ _ _ hle a1
        · rw [swapF_other f hp hpp, swapF_other f hik hip]
          exact a1
  · intro hp0 i hi hn hp
    have hg1 : ((k - 1) / 2 - 1) / 2 ≠ k := by omega
    have hg2 : ((k - 1) / 2 - 1) / 2 ≠ (k - 1) / 2 := by omega
    have hgp := h1 ((k - 1) / 2) hp0 (by omega) hpk
    rw [swapF_other f hg1 hg2]
    by_cases hik : i = k
    · subst hik
      rw [swapF_left]
      exact hgp
    · have hip : i ≠ (k - 1) / 2 := by omega
      rw [swapF_other f hik hip]
      have a1 := h1 i hi hn hik
      rw [hp] at a1
      exact hc.trans _ _ _ hgp a1

theorem either_up {c : Cmp} (hc : CmpOK c) {f n k} (h : EitherInvF c f n k) (hk : 0 < k)
    (hlt : c.gt (f ((k - 1) / 2)) (f k) = true) : UpInvF c f n k := by
  refine ⟨?_, h.2⟩
  intro i hi hn hik
  by_cases hp : (i - 1) / 2 = k
  · have := h.2 hk i hi hn hp
    rw [hp]; exact hc.trans _ _ _ (Cmp.le_of_gt hc hlt) this
  · exact h.1 i hi hn hik hp

theorem either_down {c : Cmp} {f n k} (h : EitherInvF c f n k) (hk : k = 0 ∨ c.le (f ((k - 1) / 2)) (f k)) :
    DownInvF c f n k := by
  refine ⟨?_, h.2⟩
  intro i hi hn hp
  by_cases hik : i = k
  · subst hik
    rcases hk with rfl | hk
    · omega
    · exact hk
  · exact h.1 i hi hn hik hp

/-- after the last element has been moved into slot `k` and the length reduced -/
theorem either_of_heap {c : Cmp} (hc : CmpOK c) {f f' n n' k} (h : HeapOrdF c f n) (hn : n' ≤ n)
    (hf : ∀ i, i < n' → i ≠ k → f' i = f i) : EitherInvF c f' n' k := by
  constructor
  · intro i hi hin hik hp
    rw [hf i hin hik, hf _ (by omega) hp]
    exact h i hi (by omega)
  · intro hk i hi hin hp
    have hik : i ≠ k := by omega
    rw [hf i hin hik, hf _ (by omega) (by omega)]
    have h1 := h i hi (by omega)
    have h2 := h k hk (by omega)
    rw [hp] at h1
    exact hc.trans _ _ _ h2 h1

/-- a new last element -/
theorem up_of_heap_push {c : Cmp} {f f' n} (h : HeapOrdF c f n) (hf : ∀ i, i < n → f' i = f i) : UpInvF c f' (n + 1) n := by
  constructor
  · intro i hi hin hik
    rw [hf i (by omega), hf _ (by omega)]
    exact h i hi (by omega)
  · intro _ i hi hin hp
    omega

end AwsVerif.Proofs.C06
