import AwsVerif.Model.Heap
/-! Index arithmetic of the heap macros and heap-order facts on key functions `Nat → Nat`. -/
namespace AwsVerif.Proofs.C06
open AwsVerif.Heap

theorem parentOf_eq (i : Nat) : parentOf i = (i - 1) / 2 := by
  unfold parentOf
  simp only [Nat.and_one_is_mod, Nat.shiftRight_eq_div_pow]
  split
  · omega
  · split <;> omega

theorem leftOf_eq {i : Nat} (h : i < 2^63 - 1) : leftOf i = 2 * i + 1 := by
  unfold leftOf
  simp only [Nat.shiftLeft_eq]
  omega

theorem rightOf_eq {i : Nat} (h : i < 2^63 - 1) : rightOf i = 2 * i + 2 := by
  unfold rightOf
  simp only [Nat.shiftLeft_eq]
  omega

/-- exchange of two values of a function -/
def swapF (f : Nat → Nat) (i j : Nat) : Nat → Nat := fun k => if k = i then f j else if k = j then f i else f k

def HeapOrdF (f : Nat → Nat) (n : Nat) : Prop := ∀ i, 0 < i → i < n → f ((i - 1) / 2) ≤ f i

/-- all edges hold except those from `k` to its children; `k`'s parent is below `k`'s children -/
def DownInvF (f : Nat → Nat) (n k : Nat) : Prop :=
  (∀ i, 0 < i → i < n → (i - 1) / 2 ≠ k → f ((i - 1) / 2) ≤ f i) ∧
  (0 < k → ∀ i, 0 < i → i < n → (i - 1) / 2 = k → f ((k - 1) / 2) ≤ f i)

/-- all edges hold except the one from `k`'s parent to `k`; `k`'s parent is below `k`'s children -/
def UpInvF (f : Nat → Nat) (n k : Nat) : Prop :=
  (∀ i, 0 < i → i < n → i ≠ k → f ((i - 1) / 2) ≤ f i) ∧
  (0 < k → ∀ i, 0 < i → i < n → (i - 1) / 2 = k → f ((k - 1) / 2) ≤ f i)

/-- all edges not touching `k` hold; `k`'s parent is below `k`'s children -/
def EitherInvF (f : Nat → Nat) (n k : Nat) : Prop :=
  (∀ i, 0 < i → i < n → i ≠ k → (i - 1) / 2 ≠ k → f ((i - 1) / 2) ≤ f i) ∧
  (0 < k → ∀ i, 0 < i → i < n → (i - 1) / 2 = k → f ((k - 1) / 2) ≤ f i)

theorem heapOrdF_min {f n} (h : HeapOrdF f n) : ∀ i, i < n → f 0 ≤ f i := by
  intro i
  induction i using Nat.strongRecOn with
  | _ i ih =>
    intro hi
    by_cases h0 : i = 0
    · subst h0; exact Nat.le_refl _
    · have h1 := h i (by omega) hi
      have h2 := ih ((i - 1) / 2) (by omega) (by omega)
      omega

theorem down_done_nochild {f n k} (h : DownInvF f n k) (hl : n ≤ 2 * k + 1) : HeapOrdF f n := by
  intro i hi hn
  exact h.1 i hi hn (by omega)

theorem down_done {f n k} (h : DownInvF f n k) (hl : f k ≤ f (2 * k + 1)) (hr : 2 * k + 2 < n → f k ≤ f (2 * k + 2)) :
    HeapOrdF f n := by
  intro i hi hn
  by_cases hp : (i - 1) / 2 = k
  · have : i = 2 * k + 1 ∨ i = 2 * k + 2 := by omega
    rcases this with rfl | rfl
    · rw [hp]; exact hl
    · rw [hp]; exact hr hn
  · exact h.1 i hi hn hp

/-- one iteration of `s_sift_down` that swaps `k` with its smaller child `c` -/
theorem down_step {f n k c} (h : DownInvF f n k) (hc : c = 2 * k + 1 ∨ c = 2 * k + 2) (hcn : c < n)
    (hlt : f c < f k)
    (hl : 2 * k + 1 < n → f c ≤ f (2 * k + 1)) (hr : 2 * k + 2 < n → f c ≤ f (2 * k + 2)) :
    DownInvF (swapF f c k) n c := by
  obtain ⟨h1, h2⟩ := h
  have hpc : (c - 1) / 2 = k := by omega
  constructor
  · intro i hi hn hp
    have a1 := h1 i hi hn
    simp only [swapF]
    by_cases hik : i = k
    · have := h2 (by omega) c (by omega) hcn hpc
      grind
    · by_cases hpk : (i - 1) / 2 = k
      · have : i = 2 * k + 1 ∨ i = 2 * k + 2 := by omega
        grind
      · grind
  · intro _ i hi hn hp
    have := h1 i hi hn (by omega)
    simp only [swapF]
    grind

theorem up_done {f n k} (h : UpInvF f n k) (hk : k = 0 ∨ f ((k - 1) / 2) ≤ f k) : HeapOrdF f n := by
  intro i hi hn
  by_cases hik : i = k
  · subst hik
    rcases hk with rfl | hk
    · omega
    · exact hk
  · exact h.1 i hi hn hik

/-- one iteration of `s_sift_up` that swaps `k` with its parent -/
theorem up_step {f n k} (h : UpInvF f n k) (hk : 0 < k) (hkn : k < n) (hlt : f k < f ((k - 1) / 2)) :
    UpInvF (swapF f k ((k - 1) / 2)) n ((k - 1) / 2) := by
  obtain ⟨h1, h2⟩ := h
  have hpk : (k - 1) / 2 ≠ k := by omega
  constructor
  · intro i hi hn hip
    simp only [swapF]
    by_cases hik : i = k
    · grind
    · have a1 := h1 i hi hn hik
      by_cases hp : (i - 1) / 2 = k
      · have := h2 hk i hi hn hp
        grind
      · grind
  · intro hp0 i hi hn hp
    have hg1 : ((k - 1) / 2 - 1) / 2 ≠ k := by omega
    have hg2 : ((k - 1) / 2 - 1) / 2 ≠ (k - 1) / 2 := by omega
    have hgp := h1 ((k - 1) / 2) hp0 (by omega) hpk
    simp only [swapF]
    by_cases hik : i = k
    · grind
    · have hip : i ≠ (k - 1) / 2 := by omega
      have := h1 i hi hn hik
      grind

theorem either_up {f n k} (h : EitherInvF f n k) (hk : 0 < k) (hlt : f k < f ((k - 1) / 2)) : UpInvF f n k := by
  refine ⟨?_, h.2⟩
  intro i hi hn hik
  by_cases hp : (i - 1) / 2 = k
  · have := h.2 hk i hi hn hp
    rw [hp]; omega
  · exact h.1 i hi hn hik hp

theorem either_down {f n k} (h : EitherInvF f n k) (hk : k = 0 ∨ f ((k - 1) / 2) ≤ f k) : DownInvF f n k := by
  refine ⟨?_, h.2⟩
  intro i hi hn hp
  by_cases hik : i = k
  · subst hik
    rcases hk with rfl | hk
    · omega
    · exact hk
  · exact h.1 i hi hn hik hp

/-- after the last element has been moved into slot `k` and the length reduced -/
theorem either_of_heap {f f' n n' k} (h : HeapOrdF f n) (hn : n' ≤ n)
    (hf : ∀ i, i < n' → i ≠ k → f' i = f i) : EitherInvF f' n' k := by
  constructor
  · intro i hi hin hik hp
    rw [hf i hin hik, hf _ (by omega) hp]
    exact h i hi (by omega)
  · intro hk i hi hin hp
    have hik : i ≠ k := by omega
    rw [hf i hin hik, hf _ (by omega) (by omega)]
    have h1 := h i hi (by omega)
    have h2 := h k hk (by omega)
    rw [hp] at h1
    omega

/-- a new last element -/
theorem up_of_heap_push {f f' n} (h : HeapOrdF f n) (hf : ∀ i, i < n → f' i = f i) : UpInvF f' (n + 1) n := by
  constructor
  · intro i hi hin hik
    rw [hf i (by omega), hf _ (by omega)]
    exact h i hi (by omega)
  · intro _ i hi hin hp
    omega

end AwsVerif.Proofs.C06
