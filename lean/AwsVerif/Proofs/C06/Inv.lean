import AwsVerif.Proofs.C06.Ops
/-! The invariant of the ghosted system `G` and its preservation by every legal step. -/
namespace AwsVerif.Proofs.C06
open AwsVerif.Heap

structure GInv (c : Cmp) (g : G) : Prop where
  q : QInv c g.q g.owner g.ref
  nodup : g.ref.Nodup
  freshRef : ∀ e ∈ g.ref, e.uid < g.next
  freshOwner : ∀ h e, g.owner h = some e → e.uid < g.next
  size_le : g.q.items.size ≤ g.next

theorem qinv_init_dynamic (c : Cmp) : QInv c initDynamic (fun _ => none) [] := by
  refine ⟨⟨?_, ?_, ?_, ?_⟩, ?_, ?_⟩
  · simp [BpOK, initDynamic]
  · intro h i hh; simp [initDynamic] at hh
  · simp [initDynamic]
  · intro _ _ _ _ hm; cases hm
  · intro i _ hi; simp [initDynamic] at hi
  · intro c hc; simp [initDynamic] at hc

theorem qinv_init_static (c : Cmp) (cp : Nat) : QInv c (initStatic cp) (fun _ => none) [] := by
  refine ⟨⟨?_, ?_, ?_, ?_⟩, ?_, ?_⟩
  · simp [BpOK, initStatic]
  · intro h i hh; simp [initStatic] at hh
  · simp [initStatic]
  · intro _ _ _ _ hm; cases hm
  · intro i _ hi; simp [initStatic] at hi
  · intro c' _; simp [initStatic]

theorem ginv_init (c : Cmp) {q0 : PQ} (h : q0 = initDynamic ∨ ∃ cp, q0 = initStatic cp) : GInv c (G.init q0) := by
  have hq : QInv c q0 (fun _ => none) [] := by
    rcases h with rfl | ⟨cp, rfl⟩
    · exact qinv_init_dynamic c
    · exact qinv_init_static c cp
  have hs : q0.items.size = 0 := by
    rcases h with rfl | ⟨cp, rfl⟩ <;> rfl
  exact ⟨hq, List.nodup_nil, (by intro e he; cases he), (by intro h e he; cases he), (by simp [G.init, hs])⟩

theorem size_eq_length {c : Cmp} {g : G} (h : GInv c g) : g.q.items.size = g.ref.length := by
  have := h.q.frame.perm.length_eq
  simpa using this

theorem pop_eq {c : Cmp} {q : PQ} (h : q.items.size ≠ 0) : pop c q = removeNode c q 0 := by
  unfold pop; simp [h]

theorem pop_empty {c : Cmp} {q : PQ} (h : q.items.size = 0) : pop c q = (q, .error .empty) := by
  unfold pop; simp [h]

theorem gstep_next_le (c : Cmp) (g : G) (op : Op) : (gstep c g op).1.next ≤ g.next + 1 := by
  cases op <;> simp only [gstep] <;> (repeat' split) <;> simp

theorem gstep_inv {c : Cmp} (hc : CmpOK c) {g : G} {op : Op} (h : GInv c g) (hn : g.next + 1 < 2^63) (hl : legalOp g op = true) :
    GInv c (gstep c g op).1 := by
  have hsz : g.q.items.size < 2^63 := by have := h.size_le; omega
  cases op with
  | push k ho =>
    have hleg : ∀ h0, ho = some h0 → g.q.handles h0 = none := by
      intro h0 e; subst e; simpa [legalOp] using hl
    have hfo : ∀ x e', ho ≠ some x → g.owner x = some e' → e' ≠ ⟨k, g.next⟩ := by
      intro x e' _ hx he; have := h.freshOwner x e' hx; rw [he] at this; simp at this
    rcases pushRef_spec hc (e := ⟨k, g.next⟩) (h := ho) h.q hleg hfo with ⟨he, _⟩ | ⟨he, _⟩ | ⟨q', he, _, hq', hs', _⟩
    · simp only [gstep, he]
      exact ⟨h.q, h.nodup, fun e he => Nat.lt_succ_of_lt (h.freshRef e he),
        fun x e hx => Nat.lt_succ_of_lt (h.freshOwner x e hx), Nat.le_succ_of_le h.size_le⟩
    · simp only [gstep, he]
      exact ⟨h.q, h.nodup, fun e he => Nat.lt_succ_of_lt (h.freshRef e he),
        fun x e hx => Nat.lt_succ_of_lt (h.freshOwner x e hx), Nat.le_succ_of_le h.size_le⟩
    · simp only [gstep, he]
      refine ⟨?_, ?_, ?_, ?_, ?_⟩
      · cases ho <;> exact hq'
      · apply List.nodup_cons.mpr
        refine ⟨?_, h.nodup⟩
        intro hm; have := h.freshRef _ hm; simp at this
      · intro e he
        rcases List.mem_cons.mp he with rfl | he
        · simp
        · exact Nat.lt_succ_of_lt (h.freshRef e he)
      · intro x e hx
        cases ho with
        | none => exact Nat.lt_succ_of_lt (h.freshOwner x e hx)
        | some h0 =>
          simp only [upd] at hx
          split at hx
          · cases hx; simp
          · exact Nat.lt_succ_of_lt (h.freshOwner x e hx)
      · simp only [hs']; have := h.size_le; omega
  | pop =>
    by_cases h0 : g.q.items.size = 0
    · simp only [gstep, pop_empty h0]; exact h
    · obtain ⟨e, _, hr, hq', hs', _⟩ := removeNode_spec hc h.q h.nodup hsz (Nat.pos_of_ne_zero h0)
      simp only [gstep, pop_eq h0]
      have : removeNode c g.q 0 = ((removeNode c g.q 0).1, .ok e) := by rw [← hr]
      rw [this]
      exact ⟨hq', h.nodup.erase e, fun x hx => h.freshRef x (List.mem_of_mem_erase hx), h.freshOwner,
        by simp only [hs']; have := h.size_le; omega⟩
  | top =>
    simp only [gstep]; split <;> exact h
  | remove x =>
    cases hh : g.q.handles x with
    | none => simp only [gstep, remove_stale hh]; exact h
    | some i =>
      obtain ⟨hi, _⟩ := live_bounds h.q hh
      obtain ⟨e, _, hr, hq', hs', _⟩ := removeNode_spec hc h.q h.nodup hsz hi
      simp only [gstep, remove_live h.q hh]
      have : removeNode c g.q i = ((removeNode c g.q i).1, .ok e) := by rw [← hr]
      rw [this]
      exact ⟨hq', h.nodup.erase e, fun x hx => h.freshRef x (List.mem_of_mem_erase hx), h.freshOwner,
        by simp only [hs']; have := h.size_le; omega⟩
  | clear =>
    simp only [gstep]
    exact ⟨clear_spec h.q, List.nodup_nil, (by intro e he; cases he), h.freshOwner, (by simp [clear])⟩

theorem run_inv {c : Cmp} (hc : CmpOK c) : ∀ (ops : List Op) (g : G), GInv c g → g.next + ops.length < 2^63 → legal c g ops = true →
    GInv c (run c g ops) ∧ (run c g ops).next ≤ g.next + ops.length := by
  intro ops
  induction ops with
  | nil => intro g h _ _; exact ⟨h, by simp [run]⟩
  | cons op ops ih =>
    intro g h hn hl
    simp only [legal, Bool.and_eq_true] at hl
    simp only [List.length_cons] at hn
    have h1 := gstep_inv hc (op := op) h (by omega) hl.1
    have hle := gstep_next_le c g op
    have := ih (gstep c g op).1 h1 (by omega) hl.2
    simp only [run, List.length_cons]
    exact ⟨this.1, by omega⟩

theorem reach_inv {c : Cmp} (hc : CmpOK c) {g : G} (h : Reach c g) : GInv c g ∧ g.next + 1 < 2^63 := by
  obtain ⟨q0, ops, hq0, hlen, hleg, rfl⟩ := h
  have := run_inv hc ops (G.init q0) (ginv_init c hq0) (by simp [G.init]; omega) hleg
  refine ⟨this.1, ?_⟩
  have h2 := this.2
  have h3 : (G.init q0).next = 0 := rfl
  omega

/-- a handle is in the queue exactly when the element it was last pushed with is still stored -/
theorem live_iff {c : Cmp} {g : G} (h : GInv c g) (x : Nat) :
    (g.q.handles x).isSome ↔ ∃ e, g.owner x = some e ∧ e ∈ g.ref := by
  constructor
  · intro hs
    obtain ⟨i, hi⟩ := Option.isSome_iff_exists.mp hs
    have ht := h.q.frame.tracks x i hi
    obtain ⟨hlt, _⟩ := live_bounds h.q hi
    have he : g.q.items[i]? = some g.q.items[i] := Array.getElem?_eq_getElem hlt
    exact ⟨g.q.items[i], by rw [← ht, he], mem_ref_of_getElem? h.q he⟩
  · rintro ⟨e, ho, hm⟩
    cases hh : g.q.handles x with
    | none => exact absurd hm (h.q.frame.dead x e hh ho)
    | some i => rfl

theorem tracks_elem {c : Cmp} {g : G} (h : GInv c g) {x i : Nat} (hh : g.q.handles x = some i) :
    ∃ e, g.owner x = some e ∧ g.q.items[i]? = some e ∧ e ∈ g.ref ∧ i < g.q.items.size := by
  have ht := h.q.frame.tracks x i hh
  obtain ⟨hlt, _⟩ := live_bounds h.q hh
  have he : g.q.items[i]? = some g.q.items[i] := Array.getElem?_eq_getElem hlt
  exact ⟨g.q.items[i], by rw [← ht, he], he, mem_ref_of_getElem? h.q he, hlt⟩

end AwsVerif.Proofs.C06
