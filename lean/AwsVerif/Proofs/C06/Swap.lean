import AwsVerif.Proofs.C06.Arith
/-! Effect of `s_swap` on items, back-pointers and handles. -/
namespace AwsVerif.Proofs.C06
open AwsVerif.Heap

theorem getElem?_swapIB {α} {arr : Array α} {a b : Nat} (ha : a < arr.size) (hb : b < arr.size) (k : Nat) :
    (arr.swapIfInBounds a b)[k]? = if k = a then arr[b]? else if k = b then arr[a]? else arr[k]? := by
  grind

theorem kAt_swap {arr : Array Elem} {a b : Nat} (ha : a < arr.size) (hb : b < arr.size) :
    kAt (arr.swapIfInBounds a b) = swapF (kAt arr) a b := by
  funext k
  simp only [kAt, swapF, getElem?_swapIB ha hb]
  grind

@[simp] theorem sSwap_items (q : PQ) (a b : Nat) : (sSwap q a b).items = q.items.swapIfInBounds a b := by
  unfold sSwap; split <;> rfl

@[simp] theorem sSwap_cap (q : PQ) (a b : Nat) : (sSwap q a b).cap = q.cap := by
  unfold sSwap; split <;> rfl

@[simp] theorem sSwap_size (q : PQ) (a b : Nat) : (sSwap q a b).items.size = q.items.size := by simp

theorem sSwap_bp (q : PQ) (a b : Nat) : (sSwap q a b).bp = q.bp.map (·.swapIfInBounds a b) := by
  unfold sSwap; split <;> simp_all

theorem ptrAt_eq {B : Array (Option Nat)} {i h : Nat} : ptrAt B i = some h ↔ B[i]? = some (some h) := by
  unfold ptrAt; grind

theorem sSwap_none {q : PQ} (a b : Nat) (hq : q.bp = none) :
    sSwap q a b = { q with items := q.items.swapIfInBounds a b } := by
  unfold sSwap; simp [hq]

/-- the handle function after `s_swap` when the back-pointer array exists -/
def swapHandles (hs : Nat → Option Nat) (B : Array (Option Nat)) (a b : Nat) : Nat → Option Nat :=
  let hs1 := match ptrAt B b with
    | some h => upd hs h (some a)
    | none => hs
  match ptrAt B a with
    | some h => upd hs1 h (some b)
    | none => hs1

theorem ptrAt_swap {B : Array (Option Nat)} {a b : Nat} (ha : a < B.size) (hb : b < B.size) :
    ptrAt (B.swapIfInBounds a b) a = ptrAt B b ∧ ptrAt (B.swapIfInBounds a b) b = ptrAt B a := by
  simp only [ptrAt, getElem?_swapIB ha hb]
  grind

theorem sSwap_some {q : PQ} {B} (a b : Nat) (hq : q.bp = some B) (ha : a < B.size) (hb : b < B.size) :
    sSwap q a b = { q with items := q.items.swapIfInBounds a b, bp := some (B.swapIfInBounds a b),
                           handles := swapHandles q.handles B a b } := by
  unfold sSwap swapHandles
  simp only [hq, (ptrAt_swap ha hb).1, (ptrAt_swap ha hb).2]
  rfl

theorem swapHandles_eq {hs : Nat → Option Nat} {B : Array (Option Nat)} {a b : Nat} (h : Nat) :
    swapHandles hs B a b h =
      if B[a]? = some (some h) then some b else if B[b]? = some (some h) then some a else hs h := by
  unfold swapHandles upd
  have e1 : ∀ x, ptrAt B a = some x ↔ B[a]? = some (some x) := fun x => ptrAt_eq
  have e2 : ∀ x, ptrAt B b = some x ↔ B[b]? = some (some x) := fun x => ptrAt_eq
  cases h1 : ptrAt B a <;> cases h2 : ptrAt B b <;> simp only [] <;> grind

theorem sSwap_BpOK {q : PQ} {a b : Nat} (ha : a < q.items.size) (hb : b < q.items.size) (h : BpOK q) :
    BpOK (sSwap q a b) := by
  cases hq : q.bp with
  | none =>
    rw [sSwap_none a b hq]
    simp_all [BpOK]
  | some B =>
    simp only [BpOK, hq] at h
    obtain ⟨hs, hbij⟩ := h
    rw [sSwap_some a b hq (hs ▸ ha) (hs ▸ hb)]
    simp only [BpOK]
    refine ⟨by simp [hs], ?_⟩
    intro h i
    rw [swapHandles_eq, getElem?_swapIB (hs ▸ ha) (hs ▸ hb)]
    have := hbij h
    grind

/-- the part of the invariant that every `s_swap` preserves, relative to the ghost state -/
structure Frame (q : PQ) (owner : Nat → Option Elem) (ref : List Elem) : Prop where
  bpok : BpOK q
  tracks : ∀ h i, q.handles h = some i → q.items[i]? = owner h
  perm : q.items.toList.Perm ref
  dead : ∀ h e, q.handles h = none → owner h = some e → e ∉ ref

/-- quantities no sift changes -/
def Same (q q' : PQ) : Prop :=
  q'.items.size = q.items.size ∧ q'.cap = q.cap ∧ q'.bp.isSome = q.bp.isSome

theorem Same.refl (q : PQ) : Same q q := ⟨rfl, rfl, rfl⟩
theorem Same.trans {a b c : PQ} (h1 : Same a b) (h2 : Same b c) : Same a c :=
  ⟨h2.1.trans h1.1, h2.2.1.trans h1.2.1, h2.2.2.trans h1.2.2⟩

theorem sSwap_same (q : PQ) (a b : Nat) : Same q (sSwap q a b) := by
  refine ⟨by simp, by simp, ?_⟩
  rw [sSwap_bp]; cases q.bp <;> rfl

theorem sSwap_frame {q : PQ} {owner ref} {a b : Nat} (ha : a < q.items.size) (hb : b < q.items.size)
    (h : Frame q owner ref) : Frame (sSwap q a b) owner ref := by
  have hperm : (sSwap q a b).items.toList.Perm ref := by
    rw [sSwap_items]
    have : (q.items.swapIfInBounds a b).Perm q.items := by
      rw [Array.swapIfInBounds_def]; simp only [ha, hb, dite_true]; exact Array.swap_perm ha hb
    exact (Array.perm_iff_toList_perm.mp this).trans h.perm
  refine ⟨sSwap_BpOK ha hb h.bpok, ?_, hperm, ?_⟩
  · cases hq : q.bp with
    | none =>
      rw [sSwap_none a b hq]
      intro x i hx
      have := h.bpok
      simp only [BpOK, hq] at this
      simp_all
    | some B =>
      have hbp := h.bpok
      simp only [BpOK, hq] at hbp
      obtain ⟨hs, hbij⟩ := hbp
      rw [sSwap_some a b hq (hs ▸ ha) (hs ▸ hb)]
      intro x i
      simp only [swapHandles_eq, getElem?_swapIB ha hb]
      have t1 := h.tracks x
      have := hbij x
      grind
  · cases hq : q.bp with
    | none =>
      rw [sSwap_none a b hq]
      exact h.dead
    | some B =>
      have hbp := h.bpok
      simp only [BpOK, hq] at hbp
      obtain ⟨hs, hbij⟩ := hbp
      rw [sSwap_some a b hq (hs ▸ ha) (hs ▸ hb)]
      intro x e
      simp only [swapHandles_eq]
      have := h.dead x e
      grind

end AwsVerif.Proofs.C06
