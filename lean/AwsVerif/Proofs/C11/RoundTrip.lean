import AwsVerif.Proofs.C11.Tree
/-! C11: parse_value (print_value t) = t for int-only trees up to the nesting limit, compact and
formatted, by mutual structural induction on the tree. -/
namespace AwsVerif.Proofs.C11
open AwsVerif.Json

def okHead (c : UInt8) : Prop := c ≤ 32 ∨ c = 44 ∨ c = 93 ∨ c = 125

theorem okHead_not_num {c : UInt8} (h : okHead c) : isNumChar c = false := by
  rcases h with h | h | h | h
  · simp only [isNumChar, isDigit, Bool.or_eq_false_iff, Bool.and_eq_false_iff, decide_eq_false_iff_not]
    have h48 : ¬ (48 ≤ c) := fun h' => absurd (UInt8.le_trans h' h) (by decide)
    refine ⟨⟨⟨⟨⟨Or.inl h48, ?_⟩, ?_⟩, ?_⟩, ?_⟩, ?_⟩ <;> (intro hc; subst hc; revert h; decide)
  all_goals (subst h; decide)

theorem okRest_cons {c : UInt8} (r : Bytes) (h : okHead c) : okRest (c :: r) := by
  intro c' r' he
  cases he
  exact okHead_not_num h

theorem okRest_nil : okRest [] := by intro c r h; cases h

theorem okRest_ws_close (w rest : Bytes) (hw : isWsL w) : okRest (w ++ 125 :: rest) := by
  cases w with
  | nil => exact okRest_cons _ (Or.inr (Or.inr (Or.inr rfl)))
  | cons c w' => exact okRest_cons _ (Or.inl (hw c (by simp)))

theorem skipWs_start {c : UInt8} (tl : Bytes) (h : isStart c) : skipWs (c :: tl) = c :: tl :=
  skipWs_cons_gt c tl (isStart_facts h).1

theorem decInt_head (n : Int) : ∃ c tl, decInt n = c :: tl ∧ (c = 45 ∨ isDigit c = true) := by
  obtain ⟨c, tl, hd, hc⟩ := decNat_head n.natAbs
  by_cases hn : n < 0
  · exact ⟨45, decNat n.natAbs, by simp [decInt, hn], Or.inl rfl⟩
  · exact ⟨c, tl, by simp [decInt, hn, hd], Or.inr hc⟩

theorem cost_pos (t : JVal) : 1 ≤ cost t := by
  cases t <;> simp [cost]

mutual
theorem rt_value (env : NumEnv) : ∀ (t : JVal) (fmt : Bool) (d pd f : Nat) (rest : Bytes),
    IntTree t → pd + depth t ≤ Gen.CJSON_NESTING_LIMIT → cost t ≤ f → okRest rest →
    parseValue env f pd (printValue env fmt d t ++ rest) = some (t, rest)
  | .null, fmt, d, pd, f, rest, _, _, hf, _ => by
    obtain ⟨f', rfl⟩ : ∃ f', f = f' + 1 := ⟨f - 1, by simp [cost] at hf; omega⟩
    simp only [printValue, List.cons_append, List.nil_append]
    exact pv_null env f' pd rest
  | .bool true, fmt, d, pd, f, rest, _, _, hf, _ => by
    obtain ⟨f', rfl⟩ : ∃ f', f = f' + 1 := ⟨f - 1, by simp [cost] at hf; omega⟩
    simp only [printValue, List.cons_append, List.nil_append]
    exact pv_true env f' pd rest
  | .bool false, fmt, d, pd, f, rest, _, _, hf, _ => by
    obtain ⟨f', rfl⟩ : ∃ f', f = f' + 1 := ⟨f - 1, by simp [cost] at hf; omega⟩
    simp only [printValue, List.cons_append, List.nil_append]
    exact pv_false env f' pd rest
  | .num (.opaque _), _, _, _, _, _, h, _, _, _ => by simp [IntTree] at h
  | .num (.int n), fmt, d, pd, f, rest, h, _, hf, hrest => by
    obtain ⟨f', rfl⟩ : ∃ f', f = f' + 1 := ⟨f - 1, by simp [cost] at hf; omega⟩
    simp only [IntTree] at h
    obtain ⟨c, tl, hd, hc⟩ := decInt_head n
    have hp := parseNumber_decInt env n rest h.1 h.2 hrest
    simp only [printValue, printNum]
    rw [hd, List.cons_append, pv_num env f' pd c (tl ++ rest) hc, ← List.cons_append, ← hd, hp]
  | .str s, fmt, d, pd, f, rest, h, _, hf, _ => by
    obtain ⟨f', rfl⟩ : ∃ f', f = f' + 1 := ⟨f - 1, by simp [cost] at hf; omega⟩
    simp only [IntTree] at h
    have hp := parseString_printString s rest h
    simp only [printValue]
    simp only [printString, List.cons_append] at hp ⊢
    rw [pv_str, hp]
  | .arr xs, fmt, d, pd, f, rest, h, hdep, hf, _ => by
    obtain ⟨f', rfl⟩ : ∃ f', f = f' + 1 := ⟨f - 1, by simp [cost] at hf; omega⟩
    simp only [IntTree] at h
    simp only [depth] at hdep
    simp only [cost] at hf
    simp only [printValue, List.cons_append, List.append_assoc, List.nil_append]
    rw [pv_arr env f' pd _ (by omega)]
    match xs, h, hdep, hf with
    | [], _, _, _ =>
      simp [printElems, skipWs_cons_gt 93 rest (by decide)]
    | x :: r, h, hdep, hf =>
      have hx : IntTree x := by simp only [IntElems] at h; exact h.1
      obtain ⟨c, tl, hd, hc⟩ := printValue_head env fmt (d + 1) x hx
      have hR : ∃ tl', printElems env fmt (d + 1) (x :: r) ++ 93 :: rest = c :: tl' := by
        simp only [printElems, hd, List.cons_append, List.append_assoc]
        exact ⟨_, rfl⟩
      obtain ⟨tl', hR⟩ := hR
      have hE := rt_elems env (x :: r) fmt (d + 1) (pd + 1) f' [] rest (by simp) h (by omega) (by omega) isWsL_nil
      simp only [List.nil_append] at hE
      rw [hR] at hE ⊢
      rw [skipWs_start tl' hc]
      simp [(isStart_facts hc).2.1, hE]
  | .obj ms, fmt, d, pd, f, rest, h, hdep, hf, _ => by
    obtain ⟨f', rfl⟩ : ∃ f', f = f' + 1 := ⟨f - 1, by simp [cost] at hf; omega⟩
    simp only [IntTree] at h
    simp only [depth] at hdep
    simp only [cost] at hf
    simp only [printValue, List.cons_append, List.append_assoc, List.nil_append]
    rw [pv_obj env f' pd _ (by omega)]
    match ms, h, hdep, hf with
    | [], _, _, _ =>
      have hw : isWsL ((if fmt then [10] else []) ++ (if fmt then tabs d else [])) :=
        isWsL_append (isWsL_ite fmt _ isWsL_nl) (isWsL_ite fmt _ (isWsL_tabs d))
      have := skipWs_ws_append _ (125 :: rest) hw
      simp only [List.append_assoc] at this
      simp [printMembers, this, skipWs_cons_gt 125 rest (by decide)]
    | (k, v) :: r, h, hdep, hf =>
      have hM := rt_members env ((k, v) :: r) fmt (d + 1) (pd + 1) f' (if fmt then [10] else []) (if fmt then tabs d else []) rest
        (by simp) h (by omega) (by omega) (isWsL_ite fmt _ isWsL_nl) (isWsL_ite fmt _ (isWsL_tabs d))
      simp only [List.append_assoc] at hM
      -- the text after `{` starts (after whitespace) with the quote of the first key
      have hsk : ∃ X, skipWs ((if fmt then [10] else []) ++ (printMembers env fmt (d + 1) ((k, v) :: r) ++
          ((if fmt then tabs d else []) ++ 125 :: rest))) = 34 :: X := by
        simp only [printMembers, printString, List.cons_append, List.append_assoc]
        rw [skipWs_ws_append _ _ (isWsL_ite fmt _ isWsL_nl), skipWs_ws_append _ _ (isWsL_ite fmt _ (isWsL_tabs (d + 1)))]
        exact ⟨_, skipWs_cons_gt 34 _ (by decide)⟩
      obtain ⟨X, hsk⟩ := hsk
      rw [← parseMembers_skipWs, hsk] at hM
      rw [hsk]
      simp [hM]
theorem rt_elems (env : NumEnv) : ∀ (xs : List JVal) (fmt : Bool) (d pd f : Nat) (w rest : Bytes),
    xs ≠ [] → IntElems xs → pd + depthElems xs ≤ Gen.CJSON_NESTING_LIMIT → costElems xs ≤ f → isWsL w →
    parseElems env f pd (w ++ printElems env fmt d xs ++ 93 :: rest) = some (xs, rest)
  | [], _, _, _, _, _, _, hne, _, _, _, _ => absurd rfl hne
  | x :: r, fmt, d, pd, f, w, rest, _, h, hdep, hf, hw => by
    obtain ⟨f', rfl⟩ : ∃ f', f = f' + 1 := ⟨f - 1, by simp [costElems] at hf; omega⟩
    simp only [IntElems] at h
    simp only [depthElems] at hdep
    simp only [costElems] at hf
    have hcx := cost_pos x
    obtain ⟨c, tl, hd, hc⟩ := printValue_head env fmt d x h.1
    match r, h, hdep, hf with
    | [], h, hdep, hf =>
      have hV := rt_value env x fmt d pd f' (93 :: rest) h.1 (by omega) (by omega)
        (okRest_cons _ (Or.inr (Or.inr (Or.inl rfl))))
      simp only [printElems, List.isEmpty_nil, if_true, List.append_nil, List.append_assoc]
      rw [parseElems, skipWs_ws_append _ _ hw]
      rw [hd, List.cons_append, skipWs_start _ hc, ← List.cons_append, ← hd, hV]
      simp [skipWs_cons_gt 93 rest (by decide)]
    | y :: r', h, hdep, hf =>
      have hr : IntElems (y :: r') := h.2
      have hE := rt_elems env (y :: r') fmt d pd f' (if fmt then [32] else []) rest (by simp) hr
        (by omega) (by omega) (isWsL_ite fmt _ isWsL_sp)
      have hV := rt_value env x fmt d pd f'
        (44 :: ((if fmt then [32] else []) ++ printElems env fmt d (y :: r') ++ 93 :: rest)) h.1 (by omega) (by omega)
        (okRest_cons _ (Or.inr (Or.inl rfl)))
      rw [printElems]
      simp only [List.isEmpty_cons, Bool.false_eq_true, if_false, List.append_assoc, List.cons_append]
      simp only [List.append_assoc] at hV hE
      rw [parseElems, skipWs_ws_append _ _ hw]
      rw [hd, List.cons_append, skipWs_start _ hc, ← List.cons_append, ← hd, hV]
      simp [skipWs_cons_gt 44 _ (by decide), hE]
theorem rt_members (env : NumEnv) : ∀ (ms : List (Bytes × JVal)) (fmt : Bool) (d pd f : Nat) (w wc rest : Bytes),
    ms ≠ [] → IntMembers ms → pd + depthMembers ms ≤ Gen.CJSON_NESTING_LIMIT → costMembers ms ≤ f →
    isWsL w → isWsL wc →
    parseMembers env f pd (w ++ printMembers env fmt d ms ++ wc ++ 125 :: rest) = some (ms, rest)
  | [], _, _, _, _, _, _, _, hne, _, _, _, _, _ => absurd rfl hne
  | (k, v) :: r, fmt, d, pd, f, w, wc, rest, _, h, hdep, hf, hw, hwc => by
    obtain ⟨f', rfl⟩ : ∃ f', f = f' + 1 := ⟨f - 1, by simp [costMembers] at hf; omega⟩
    simp only [IntMembers] at h
    simp only [depthMembers] at hdep
    simp only [costMembers] at hf
    have hcv := cost_pos v
    obtain ⟨c, tl, hd, hc⟩ := printValue_head env fmt d v h.2.1
    match r, h, hdep, hf with
    | [], h, hdep, hf =>
      have hok : okRest ((if fmt then [10] else []) ++ wc ++ 125 :: rest) := by
        have := okRest_ws_close ((if fmt then [10] else []) ++ wc) rest (isWsL_append (isWsL_ite fmt _ isWsL_nl) hwc)
        simpa [List.append_assoc] using this
      have hV := rt_value env v fmt d pd f' ((if fmt then [10] else []) ++ wc ++ 125 :: rest) h.2.1 (by omega) (by omega) hok
      have hS := parseString_printString k
        (58 :: ((if fmt then [9] else []) ++ (printValue env fmt d v ++ ((if fmt then [10] else []) ++ wc ++ 125 :: rest)))) h.1
      have hws : skipWs ((if fmt then [10] else []) ++ wc ++ 125 :: rest) = 125 :: rest := by
        have := skipWs_ws_append ((if fmt then [10] else []) ++ wc) (125 :: rest) (isWsL_append (isWsL_ite fmt _ isWsL_nl) hwc)
        simp only [List.append_assoc] at this ⊢
        rw [this, skipWs_cons_gt 125 rest (by decide)]
      simp only [printMembers, List.isEmpty_nil, if_true, List.append_nil, List.append_assoc, List.cons_append]
      simp only [List.append_assoc] at hV hS hws
      rw [parseMembers, skipWs_ws_append _ _ hw, skipWs_ws_append _ _ (isWsL_ite fmt _ (isWsL_tabs d))]
      have hq : ∃ tlq, printString k = 34 :: tlq := ⟨_, rfl⟩
      obtain ⟨tlq, hq⟩ := hq
      rw [hq, List.cons_append, skipWs_cons_gt 34 _ (by decide), ← List.cons_append, ← hq, hS]
      simp only [skipWs_cons_gt 58 _ (by decide : (32 : UInt8) < 58)]
      rw [skipWs_ws_append _ _ (isWsL_ite fmt _ isWsL_tab)]
      rw [hd, List.cons_append, skipWs_start _ hc, ← List.cons_append, ← hd, hV]
      simp [hws]
    | m' :: r', h, hdep, hf =>
      have hr : IntMembers (m' :: r') := h.2.2
      have hM := rt_members env (m' :: r') fmt d pd f' (if fmt then [10] else []) wc rest (by simp) hr
        (by omega) (by omega) (isWsL_ite fmt _ isWsL_nl) hwc
      have hV := rt_value env v fmt d pd f'
        (44 :: ((if fmt then [10] else []) ++ printMembers env fmt d (m' :: r') ++ wc ++ 125 :: rest)) h.2.1 (by omega) (by omega)
        (okRest_cons _ (Or.inr (Or.inl rfl)))
      have hS := parseString_printString k
        (58 :: ((if fmt then [9] else []) ++ (printValue env fmt d v ++
          (44 :: ((if fmt then [10] else []) ++ printMembers env fmt d (m' :: r') ++ wc ++ 125 :: rest))))) h.1
      rw [printMembers]
      simp only [List.isEmpty_cons, Bool.false_eq_true, if_false, List.append_assoc, List.cons_append, List.nil_append]
      simp only [List.append_assoc] at hV hS hM
      rw [parseMembers, skipWs_ws_append _ _ hw, skipWs_ws_append _ _ (isWsL_ite fmt _ (isWsL_tabs d))]
      have hq : ∃ tlq, printString k = 34 :: tlq := ⟨_, rfl⟩
      obtain ⟨tlq, hq⟩ := hq
      rw [hq, List.cons_append, skipWs_cons_gt 34 _ (by decide), ← List.cons_append, ← hq, hS]
      simp only [skipWs_cons_gt 58 _ (by decide : (32 : UInt8) < 58)]
      rw [skipWs_ws_append _ _ (isWsL_ite fmt _ isWsL_tab)]
      rw [hd, List.cons_append, skipWs_start _ hc, ← List.cons_append, ← hd, hV]
      simp [skipWs_cons_gt 44 _ (by decide), hM]
end

end AwsVerif.Proofs.C11
