import AwsVerif.Model.Json
/-! C11: the parse-depth counter is balanced.  The parser that keeps `input_buffer->depth` as state
(`parseValueS`, the transcription the driver runs) returns, on every successful path, the counter
value it was entered with, and accepts exactly what the nesting-parameter parser `parseValue`
accepts with the same result: acceptance depends only on the true nesting depth. -/
namespace AwsVerif.Proofs.C11
open AwsVerif.Json

def liftV (d : Nat) (o : Option (JVal × Bytes)) : Option (JVal × Bytes × Nat) := o.map fun p => (p.1, p.2, d)
def liftE (d : Nat) (o : Option (List JVal × Bytes)) : Option (List JVal × Bytes × Nat) := o.map fun p => (p.1, p.2, d)
def liftM (d : Nat) (o : Option (List (Bytes × JVal) × Bytes)) : Option (List (Bytes × JVal) × Bytes × Nat) :=
  o.map fun p => (p.1, p.2, d)

theorem depth_balanced_all (env : NumEnv) : ∀ (f : Nat),
    (∀ d s, parseValueS env f d s = liftV d (parseValue env f d s)) ∧
    (∀ d s, parseElemsS env f d s = liftE d (parseElems env f d s)) ∧
    (∀ d s, parseMembersS env f d s = liftM d (parseMembers env f d s))
  | 0 => by simp [parseValueS, parseValue, parseElemsS, parseElems, parseMembersS, parseMembers, liftV, liftE, liftM]
  | f + 1 => by
    obtain ⟨ihV, ihE, ihM⟩ := depth_balanced_all env f
    refine ⟨?_, ?_, ?_⟩
    · intro d s
      simp only [parseValueS, parseValue]
      split
      · simp [liftV]
      split
      · simp [liftV]
      split
      · simp [liftV]
      cases s with
      | nil => simp [liftV]
      | cons c r =>
        simp only
        split
        · cases parseString (c :: r) with
          | none => simp [liftV]
          | some p => obtain ⟨b, rest⟩ := p; simp [liftV]
        split
        · cases parseNumber env (c :: r) with
          | none => simp [liftV]
          | some p => obtain ⟨b, rest⟩ := p; simp [liftV]
        split
        · split
          · simp [liftV]
          · cases skipWs r with
            | nil => simp [liftV]
            | cons c1 r1 =>
              simp only
              split
              · simp [liftV]
              · rw [ihE]
                cases parseElems env f (d + 1) (c1 :: r1) with
                | none => simp [liftV, liftE]
                | some p => obtain ⟨xs, rest⟩ := p; simp [liftV, liftE]
        split
        · split
          · simp [liftV]
          · cases skipWs r with
            | nil => simp [liftV]
            | cons c1 r1 =>
              simp only
              split
              · simp [liftV]
              · rw [ihM]
                cases parseMembers env f (d + 1) (c1 :: r1) with
                | none => simp [liftV, liftM]
                | some p => obtain ⟨xs, rest⟩ := p; simp [liftV, liftM]
        · simp [liftV]
    · intro d s
      simp only [parseElemsS, parseElems]
      rw [ihV]
      cases parseValue env f d (skipWs s) with
      | none => simp [liftV, liftE]
      | some p =>
        obtain ⟨v, r⟩ := p
        simp only [liftV, Option.map_some]
        cases skipWs r with
        | nil => simp [liftE]
        | cons c r2 =>
          simp only
          split
          · rw [ihE]
            cases parseElems env f d r2 with
            | none => simp [liftE]
            | some q => obtain ⟨xs, rest⟩ := q; simp [liftE]
          · split <;> simp [liftE]
    · intro d s
      simp only [parseMembersS, parseMembers]
      cases parseString (skipWs s) with
      | none => simp [liftM]
      | some p =>
        obtain ⟨k, r0⟩ := p
        simp only
        cases skipWs r0 with
        | nil => simp [liftM]
        | cons c0 r1 =>
          simp only
          split
          · simp [liftM]
          · rw [ihV]
            cases parseValue env f d (skipWs r1) with
            | none => simp [liftV, liftM]
            | some q =>
              obtain ⟨v, r⟩ := q
              simp only [liftV, Option.map_some]
              cases skipWs r with
              | nil => simp [liftM]
              | cons c r2 =>
                simp only
                split
                · rw [ihM]
                  cases parseMembers env f d r2 with
                  | none => simp [liftM]
                  | some q => obtain ⟨xs, rest⟩ := q; simp [liftM]
                · split <;> simp [liftM]

theorem parseTextS_eq (env : NumEnv) (s : Bytes) : parseTextS env s = parseText env s := by
  unfold parseTextS parseText parseCStrS parseCStr
  simp only [(depth_balanced_all env _).1]
  cases parseValue env (2 * (skipBom (cstr s)).length + 2) 0 (skipWs (skipBom (cstr s))) with
  | none => simp [liftV]
  | some p => obtain ⟨v, r⟩ := p; simp [liftV]

end AwsVerif.Proofs.C11
