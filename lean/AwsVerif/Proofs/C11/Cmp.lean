import AwsVerif.Proofs.C11.Tree
/-! C11: cJSON_Duplicate is the identity on the value tree; cJSON_Compare is reflexive on trees
whose objects have pairwise distinct keys (under the comparison's own key equality). -/
namespace AwsVerif.Proofs.C11
open AwsVerif.Json

mutual
theorem duplicate_eq : ∀ (t : JVal), duplicate t = t
  | .null => rfl
  | .bool _ => rfl
  | .num _ => rfl
  | .str _ => rfl
  | .arr xs => by rw [duplicate, duplicateElems_eq xs]
  | .obj ms => by rw [duplicate, duplicateMembers_eq ms]
theorem duplicateElems_eq : ∀ (xs : List JVal), duplicateElems xs = xs
  | [] => rfl
  | x :: r => by rw [duplicateElems, duplicate_eq x, duplicateElems_eq r]
theorem duplicateMembers_eq : ∀ (ms : List (Bytes × JVal)), duplicateMembers ms = ms
  | [] => rfl
  | (k, v) :: r => by rw [duplicateMembers, duplicate_eq v, duplicateMembers_eq r]
end

mutual
/-- within every object no two members have keys that the lookup `get_object_item(·, ·, cs)` identifies -/
def UniqKeys (cs : Bool) : JVal → Prop
  | .arr xs => UniqElems cs xs
  | .obj ms => ms.Pairwise (fun a b => keyEq cs a.1 b.1 = false) ∧ UniqMembers cs ms
  | _ => True
def UniqElems (cs : Bool) : List JVal → Prop
  | [] => True
  | x :: r => UniqKeys cs x ∧ UniqElems cs r
def UniqMembers (cs : Bool) : List (Bytes × JVal) → Prop
  | [] => True
  | (_, v) :: r => UniqKeys cs v ∧ UniqMembers cs r
end

theorem keyEq_refl (cs : Bool) (a : Bytes) : keyEq cs a a = true := by
  cases cs <;> simp [keyEq, keyEqCI]

theorem keyEq_symm (cs : Bool) (a b : Bytes) : keyEq cs a b = keyEq cs b a := by
  cases cs
  · simp only [keyEq, keyEqCI, Bool.false_eq_true, if_false]
    exact BEq.comm
  · simp only [keyEq, if_true]
    exact BEq.comm

theorem findMember_self (cs : Bool) : ∀ (ms : List (Bytes × JVal)),
    ms.Pairwise (fun a b => keyEq cs a.1 b.1 = false) → ∀ m ∈ ms, findMember cs m.1 ms = some m
  | [], _, m, hm => by cases hm
  | a :: r, hp, m, hm => by
    rw [List.pairwise_cons] at hp
    rcases List.mem_cons.mp hm with h | h
    · subst h; simp [findMember, keyEq_refl]
    · have : keyEq cs m.1 a.1 = false := by rw [keyEq_symm]; exact hp.1 m h
      simp [findMember, this, findMember_self cs r hp.2 m h]

theorem zipWith_self_all (g : JVal → JVal → Bool) : ∀ (xs : List JVal), (∀ x ∈ xs, g x x = true) →
    (List.zipWith g xs xs).all id = true
  | [], _ => rfl
  | x :: r, h => by
    simp only [List.zipWith_cons_cons, List.all_cons, id, Bool.and_eq_true]
    exact ⟨h x (by simp), zipWith_self_all g r (fun y hy => h y (by simp [hy]))⟩

mutual
theorem compareF_refl (env : NumEnv) (cs : Bool) : ∀ (t : JVal) (f : Nat), depth t + 1 ≤ f → IntTree t → UniqKeys cs t →
    compareF env cs f t t = true
  | .null, f, hf, _, _ => by
    obtain ⟨f', rfl⟩ : ∃ f', f = f' + 1 := ⟨f - 1, by omega⟩
    simp [compareF]
  | .bool b, f, hf, _, _ => by
    obtain ⟨f', rfl⟩ : ∃ f', f = f' + 1 := ⟨f - 1, by omega⟩
    simp [compareF]
  | .num (.opaque _), _, _, h, _ => by simp [IntTree] at h
  | .num (.int n), f, hf, _, _ => by
    obtain ⟨f', rfl⟩ : ∃ f', f = f' + 1 := ⟨f - 1, by omega⟩
    simp [compareF, cmpNum]
  | .str s, f, hf, _, _ => by
    obtain ⟨f', rfl⟩ : ∃ f', f = f' + 1 := ⟨f - 1, by omega⟩
    simp [compareF]
  | .arr xs, f, hf, h, hu => by
    obtain ⟨f', rfl⟩ : ∃ f', f = f' + 1 := ⟨f - 1, by omega⟩
    simp only [depth] at hf
    have := compareF_refl_elems env cs xs f' (by omega) (by simpa [IntTree] using h) (by simpa [UniqKeys] using hu)
    simp only [compareF, Bool.and_eq_true]
    exact ⟨by simp, zipWith_self_all (compareF env cs f') xs this⟩
  | .obj ms, f, hf, h, hu => by
    obtain ⟨f', rfl⟩ : ∃ f', f = f' + 1 := ⟨f - 1, by omega⟩
    simp only [depth] at hf
    simp only [UniqKeys] at hu
    have hm := compareF_refl_members env cs ms f' (by omega) (by simpa [IntTree] using h) hu.2
    have hall : ms.all (fun m => match findMember cs m.1 ms with
        | some n => compareF env cs f' m.2 n.2
        | none => false) = true := by
      rw [List.all_eq_true]
      intro m hmem
      rw [findMember_self cs ms hu.1 m hmem]
      exact hm m hmem
    simp only [compareF, Bool.and_eq_true]
    exact ⟨hall, hall⟩
theorem compareF_refl_elems (env : NumEnv) (cs : Bool) : ∀ (xs : List JVal) (f : Nat), depthElems xs + 1 ≤ f →
    IntElems xs → UniqElems cs xs → ∀ x ∈ xs, compareF env cs f x x = true
  | [], _, _, _, _, x, hx => by cases hx
  | y :: r, f, hf, h, hu, x, hx => by
    simp only [depthElems] at hf
    simp only [IntElems] at h
    simp only [UniqElems] at hu
    rcases List.mem_cons.mp hx with e | e
    · rw [e]; exact compareF_refl env cs y f (by omega) h.1 hu.1
    · exact compareF_refl_elems env cs r f (by omega) h.2 hu.2 x e
theorem compareF_refl_members (env : NumEnv) (cs : Bool) : ∀ (ms : List (Bytes × JVal)) (f : Nat), depthMembers ms + 1 ≤ f →
    IntMembers ms → UniqMembers cs ms → ∀ m ∈ ms, compareF env cs f m.2 m.2 = true
  | [], _, _, _, _, m, hm => by cases hm
  | (k, v) :: r, f, hf, h, hu, m, hm => by
    simp only [depthMembers] at hf
    simp only [IntMembers] at h
    simp only [UniqMembers] at hu
    rcases List.mem_cons.mp hm with e | e
    · rw [e]; exact compareF_refl env cs v f (by omega) h.2.1 hu.1
    · exact compareF_refl_members env cs r f (by omega) h.2.2 hu.2 m e
end

theorem compare_duplicate (env : NumEnv) (cs : Bool) (t : JVal) (h : IntTree t) (hu : UniqKeys cs t) :
    compare env cs (duplicate t) t = true := by
  rw [duplicate_eq]
  exact compareF_refl env cs t (depth t + 1) (Nat.le_refl _) h hu

end AwsVerif.Proofs.C11
