import AwsVerif.Model.Json
/-! C11 helper lemmas: `%d` printing and `parse_number` on its output. -/
namespace AwsVerif.Proofs.C11
open AwsVerif.Json

def ofDigitsRev : List Nat → Nat
  | [] => 0
  | d :: ds => d + 10 * ofDigitsRev ds

theorem digitsRev_lt : ∀ (f n : Nat), ∀ d ∈ digitsRev f n, d < 10
  | 0, _, d, h => by simp [digitsRev] at h
  | f + 1, n, d, h => by
    rw [digitsRev] at h
    split at h
    · simp at h; omega
    · simp at h
      rcases h with h | h
      · omega
      · exact digitsRev_lt f (n / 10) d h

theorem digitsRev_value : ∀ (f n : Nat), n < 10 ^ f → ofDigitsRev (digitsRev f n) = n
  | 0, n, h => by simp at h; simp [digitsRev, ofDigitsRev, h]
  | f + 1, n, h => by
    rw [digitsRev]
    split
    · simp [ofDigitsRev]
    · have : n / 10 < 10 ^ f := by
        rw [Nat.pow_succ] at h
        exact Nat.div_lt_of_lt_mul (by omega)
      simp [ofDigitsRev, digitsRev_value f (n / 10) this]
      omega

theorem digitsRev_length : ∀ (f n : Nat), (digitsRev f n).length ≤ f
  | 0, _ => by simp [digitsRev]
  | f + 1, n => by
    rw [digitsRev]
    split
    · simp
    · have := digitsRev_length f (n / 10); simp; omega

theorem digitsRev_ne_nil (f n : Nat) : digitsRev (f + 1) n ≠ [] := by
  rw [digitsRev]; split <;> simp

def ch (d : Nat) : UInt8 := UInt8.ofNat (48 + d)

theorem ch_digit (d : Nat) (h : d < 10) : isDigit (ch d) = true ∧ (ch d).toNat - 48 = d := by
  revert d; decide

theorem parseDec_append (xs : Bytes) (c : UInt8) : parseDec (xs ++ [c]) = parseDec xs * 10 + (c.toNat - 48) := by
  simp [parseDec, List.foldl_append]

theorem parseDec_rev : ∀ (l : List Nat), (∀ d ∈ l, d < 10) → parseDec (l.reverse.map ch) = ofDigitsRev l
  | [], _ => by simp [parseDec, ofDigitsRev]
  | d :: ds, h => by
    have hd := (ch_digit d (h d (by simp))).2
    have := parseDec_rev ds (fun x hx => h x (by simp [hx]))
    simp only [List.reverse_cons, List.map_append, List.map_cons, List.map_nil, parseDec_append, this, hd, ofDigitsRev]
    omega

theorem decNat_eq (n : Nat) : decNat n = (digitsRev 10 n).reverse.map ch := rfl

theorem decNat_all_digit (n : Nat) : (decNat n).all isDigit = true := by
  rw [decNat_eq]
  simp only [List.all_eq_true, List.mem_map, List.mem_reverse]
  rintro c ⟨d, hd, rfl⟩
  exact (ch_digit d (digitsRev_lt 10 n d hd)).1

theorem decNat_value (n : Nat) (h : n < 10 ^ 10) : parseDec (decNat n) = n := by
  rw [decNat_eq, parseDec_rev _ (digitsRev_lt 10 n), digitsRev_value 10 n h]

theorem decNat_ne_nil (n : Nat) : decNat n ≠ [] := by
  rw [decNat_eq]
  simp [digitsRev_ne_nil]

theorem decNat_length (n : Nat) : (decNat n).length ≤ 10 := by
  rw [decNat_eq]; simpa using digitsRev_length 10 n

theorem isDigit_numChar (c : UInt8) (h : isDigit c = true) : isNumChar c = true := by
  simp [isNumChar, h]

theorem isDigit_not_sign (c : UInt8) (h : isDigit c = true) : c ≠ 43 ∧ c ≠ 45 ∧ c ≠ 46 ∧ c ≠ 101 ∧ c ≠ 69 := by
  simp only [isDigit, Bool.and_eq_true, decide_eq_true_eq] at h
  refine ⟨?_, ?_, ?_, ?_, ?_⟩ <;> (intro hc; subst hc; revert h; decide)

/-- the text following a printed number never continues the number token -/
def okRest (rest : Bytes) : Prop := ∀ c r, rest = c :: r → isNumChar c = false

theorem takeWhile_append_all (p : UInt8 → Bool) : ∀ (ds rest : Bytes), ds.all p = true →
    (∀ c r, rest = c :: r → p c = false) → (ds ++ rest).takeWhile p = ds
  | [], rest, _, h => by
    cases rest with
    | nil => rfl
    | cons c r => simp [h c r rfl]
  | d :: ds, rest, ha, h => by
    simp only [List.all_cons, Bool.and_eq_true] at ha
    simp [ha.1, takeWhile_append_all p ds rest ha.2 h]

theorem takeWhile_all (p : UInt8 → Bool) (ds : Bytes) (h : ds.all p = true) : ds.takeWhile p = ds := by
  have := takeWhile_append_all p ds [] h (by intro c r hc; cases hc)
  simpa using this

theorem spanDigits_all (ds : Bytes) (h : ds.all isDigit = true) : spanDigits ds = ds.length := by
  simp [spanDigits, takeWhile_all isDigit ds h]

theorem strtodLen_digits (ds : Bytes) (hne : ds ≠ []) (h : ds.all isDigit = true) : strtodLen ds = ds.length := by
  cases ds with
  | nil => exact absurd rfl hne
  | cons c r =>
    have hc : isDigit c = true := by simp only [List.all_cons, Bool.and_eq_true] at h; exact h.1
    have ⟨h43, h45, _, _, _⟩ := isDigit_not_sign c hc
    simp [strtodLen, h43, h45, spanDigits_all (c :: r) h]

theorem strtodLen_neg_digits (ds : Bytes) (hne : ds ≠ []) (h : ds.all isDigit = true) :
    strtodLen (45 :: ds) = 1 + ds.length := by
  cases ds with
  | nil => exact absurd rfl hne
  | cons c r =>
    simp [strtodLen, spanDigits_all (c :: r) h]

theorem plainInt_digits (ds : Bytes) (hne : ds ≠ []) (h : ds.all isDigit = true) (hv : parseDec ds ≤ 2147483647) :
    plainInt? ds = some (Int.ofNat (parseDec ds)) := by
  cases ds with
  | nil => exact absurd rfl hne
  | cons c r =>
    have hc : isDigit c = true := by simp only [List.all_cons, Bool.and_eq_true] at h; exact h.1
    have ⟨_, h45, _, _, _⟩ := isDigit_not_sign c hc
    have hv' : ¬ parseDec (c :: r) > 2147483647 := by omega
    simp [plainInt?, h45, h, hv']

theorem plainInt_neg_digits (ds : Bytes) (hne : ds ≠ []) (h : ds.all isDigit = true)
    (h0 : parseDec ds ≠ 0) (hv : parseDec ds ≤ 2147483648) :
    plainInt? (45 :: ds) = some (-(Int.ofNat (parseDec ds))) := by
  have hv' : ¬ parseDec ds > 2147483648 := by omega
  have hemp : ds.isEmpty = false := by cases ds <;> simp_all
  simp [plainInt?, h, hv', h0, hemp]

theorem decInt_numChars (n : Int) : (decInt n).all isNumChar = true := by
  have hd : (decNat n.natAbs).all isNumChar = true := by
    have := decNat_all_digit n.natAbs
    simp only [List.all_eq_true] at this ⊢
    exact fun c hc => isDigit_numChar c (this c hc)
  unfold decInt
  split
  · simp only [List.all_cons, Bool.and_eq_true]; exact ⟨by decide, hd⟩
  · exact hd

theorem decInt_length (n : Int) : (decInt n).length ≤ 11 := by
  have := decNat_length n.natAbs
  unfold decInt; split <;> simp <;> omega

/-- `parse_number` reads back what `%d` printed, for every int in [INT_MIN, INT_MAX] -/
theorem parseNumber_decInt (env : NumEnv) (n : Int) (rest : Bytes)
    (hlo : INT_MIN ≤ n) (hhi : n ≤ INT_MAX) (hrest : okRest rest) :
    parseNumber env (decInt n ++ rest) = some (.int n, rest) := by
  have hall := decNat_all_digit n.natAbs
  have hne := decNat_ne_nil n.natAbs
  have hlen := decInt_length n
  simp only [INT_MIN, INT_MAX] at hlo hhi
  have hval := decNat_value n.natAbs (by omega)
  have htok : numToken (decInt n ++ rest) = decInt n := by
    unfold numToken
    rw [takeWhile_append_all isNumChar (decInt n) rest (decInt_numChars n) hrest]
    exact List.take_of_length_le (by omega)
  unfold parseNumber
  rw [htok]
  by_cases hneg : n < 0
  · have hk : strtodLen (decInt n) = (decInt n).length := by
      simp only [decInt, hneg, if_true]
      rw [strtodLen_neg_digits _ hne hall]; simp; omega
    have hp : plainInt? (decInt n) = some n := by
      simp only [decInt, hneg, if_true]
      rw [plainInt_neg_digits _ hne hall (by omega) (by omega), hval]
      simp only [Int.ofNat_eq_natCast]; congr 1; omega
    have hpos : (decInt n).length ≠ 0 := by simp [decInt, hneg]
    simp [hk, hp, hpos]
  · have hk : strtodLen (decInt n) = (decInt n).length := by
      simp only [decInt, hneg, if_false]
      exact strtodLen_digits _ hne hall
    have hp : plainInt? (decInt n) = some n := by
      simp only [decInt, hneg, if_false]
      rw [plainInt_digits _ hne hall (by omega), hval]
      simp only [Int.ofNat_eq_natCast]; congr 1; omega
    have hpos : (decInt n).length ≠ 0 := by
      simp only [decInt, hneg, if_false]
      intro h; exact hne (List.length_eq_zero_iff.mp h)
    simp [hk, hp, hpos]

end AwsVerif.Proofs.C11
