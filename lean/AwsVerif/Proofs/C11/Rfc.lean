import AwsVerif.Proofs.C11.Str
/-! An independent RFC 8259 recogniser written as a specification (not a transcription of cJSON):
`ws`, `value`, `object`, `array`, `number`, `string` of the RFC grammar on bytes.  Bytes ≥ 0x80
inside strings are accepted as `unescaped` (well-formedness of UTF-8 is the string owner's).
Proved here: every string literal the printer emits is an RFC string (`rfc_printString`). -/
namespace AwsVerif.Proofs.C11.Rfc
open AwsVerif.Json

def ws : Bytes → Bytes
  | [] => []
  | c :: r => if c = 32 ∨ c = 9 ∨ c = 10 ∨ c = 13 then ws r else c :: r

def isHex (c : UInt8) : Bool := (48 ≤ c && c ≤ 57) || (65 ≤ c && c ≤ 70) || (97 ≤ c && c ≤ 102)

def isSimpleEscape (e : UInt8) : Bool :=
  e = 34 || e = 92 || e = 47 || e = 98 || e = 102 || e = 110 || e = 114 || e = 116

/-- `*char quotation-mark`: text after the closing quote -/
def chars : Bytes → Option Bytes
  | [] => none
  | c :: r =>
    if c = 34 then some r
    else if c = 92 then
      match r with
      | [] => none
      | e :: r1 =>
        if isSimpleEscape e then chars r1
        else if e = 117 then
          match r1 with
          | a :: b :: c' :: d :: r2 => if isHex a && isHex b && isHex c' && isHex d then chars r2 else none
          | _ => none
        else none
    else if c < 32 then none
    else chars r

def string : Bytes → Option Bytes
  | [] => none
  | q :: r => if q = 34 then chars r else none

def dropDigits : Bytes → Bytes
  | [] => []
  | c :: r => if isDigit c then dropDigits r else c :: r

/-- `[ exp ]`: `e / E`, optional sign, `1*DIGIT` -/
def expPart (s : Bytes) : Option Bytes :=
  match s with
  | [] => some []
  | c :: r =>
    if c = 101 ∨ c = 69 then
      let r1 := match r with
        | [] => []
        | sg :: r' => if sg = 43 ∨ sg = 45 then r' else r
      match r1 with
      | [] => none
      | d :: r' => if isDigit d then some (dropDigits r') else none
    else some s

/-- `[ frac ]`: `.` `1*DIGIT` -/
def fracPart (s : Bytes) : Option Bytes :=
  match s with
  | [] => some []
  | c :: r =>
    if c = 46 then
      match r with
      | [] => none
      | d :: r' => if isDigit d then some (dropDigits r') else none
    else some s

/-- `int = zero / ( digit1-9 *DIGIT )` -/
def intPart (s : Bytes) : Option Bytes :=
  match s with
  | [] => none
  | c :: r => if c = 48 then some r else if 49 ≤ c ∧ c ≤ 57 then some (dropDigits r) else none

def stripMinus (s : Bytes) : Bytes :=
  match s with
  | [] => []
  | c :: r => if c = 45 then r else s

/-- `number = [ minus ] int [ frac ] [ exp ]` -/
def number (s : Bytes) : Option Bytes :=
  match intPart (stripMinus s) with
  | none => none
  | some s2 =>
    match fracPart s2 with
    | none => none
    | some s3 => expPart s3

mutual
def value : Nat → Bytes → Option Bytes
  | 0, _ => none
  | f + 1, s =>
    match s with
    | [] => none
    | c :: r =>
      if startsWith [110, 117, 108, 108] s then some (s.drop 4)
      else if startsWith [102, 97, 108, 115, 101] s then some (s.drop 5)
      else if startsWith [116, 114, 117, 101] s then some (s.drop 4)
      else if c = 34 then string s
      else if c = 45 ∨ isDigit c then number s
      else if c = 91 then
        match ws r with
        | [] => none
        | c1 :: r1 => if c1 = 93 then some r1 else elems f (c1 :: r1)
      else if c = 123 then
        match ws r with
        | [] => none
        | c1 :: r1 => if c1 = 125 then some r1 else members f (c1 :: r1)
      else none
def elems : Nat → Bytes → Option Bytes
  | 0, _ => none
  | f + 1, s =>
    match value f (ws s) with
    | none => none
    | some r =>
      match ws r with
      | [] => none
      | c :: r2 => if c = 44 then elems f r2 else if c = 93 then some r2 else none
def members : Nat → Bytes → Option Bytes
  | 0, _ => none
  | f + 1, s =>
    match string (ws s) with
    | none => none
    | some r0 =>
      match ws r0 with
      | [] => none
      | c0 :: r1 =>
        if c0 ≠ 58 then none else
        match value f (ws r1) with
        | none => none
        | some r =>
          match ws r with
          | [] => none
          | c :: r2 => if c = 44 then members f r2 else if c = 125 then some r2 else none
end

/-- `JSON-text = ws value ws` -/
def accepts (s : Bytes) : Bool :=
  match value (2 * s.length + 2) (ws s) with
  | some r => (ws r).isEmpty
  | none => false

/-! ### printed strings are RFC strings -/

theorem isHex_hexLower : ∀ n, n < 16 → isHex (hexLower n) = true := by decide

theorem chars_escapeByte (c : UInt8) (t : Bytes) : chars (escapeByte c ++ t) = chars t := by
  unfold escapeByte
  split
  · simp only [List.cons_append, List.nil_append]; rw [chars.eq_def]; simp [isSimpleEscape]
  split
  · simp only [List.cons_append, List.nil_append]; rw [chars.eq_def]; simp [isSimpleEscape]
  split
  · simp only [List.cons_append, List.nil_append]; rw [chars.eq_def]; simp [isSimpleEscape]
  split
  · simp only [List.cons_append, List.nil_append]; rw [chars.eq_def]; simp [isSimpleEscape]
  split
  · simp only [List.cons_append, List.nil_append]; rw [chars.eq_def]; simp [isSimpleEscape]
  split
  · simp only [List.cons_append, List.nil_append]; rw [chars.eq_def]; simp [isSimpleEscape]
  split
  · simp only [List.cons_append, List.nil_append]; rw [chars.eq_def]; simp [isSimpleEscape]
  split
  · rename_i h
    have hn := toNat_lt_of_lt h
    have h1 := isHex_hexLower (c.toNat / 16) (by omega)
    have h2 := isHex_hexLower (c.toNat % 16) (by omega)
    have h48 : isHex 48 = true := by decide
    simp only [List.cons_append, List.nil_append]; rw [chars.eq_def]; simp [isSimpleEscape, h48, h1, h2]
  · rename_i h1 h2 _ _ _ _ _ h3
    simp only [List.cons_append, List.nil_append]
    rw [chars.eq_def]
    simp [h1, h2, h3]

theorem chars_escape : ∀ (s rest : Bytes), chars (escape s ++ 34 :: rest) = some rest
  | [], rest => by rw [escape, List.nil_append, chars.eq_def]; simp
  | c :: r, rest => by
    simp only [escape, List.append_assoc]
    rw [chars_escapeByte, chars_escape r rest]

/-- every string literal `print_string_ptr` emits is `quotation-mark *char quotation-mark` -/
theorem rfc_printString (s rest : Bytes) : string (printString s ++ rest) = some rest := by
  simp only [printString, List.cons_append, List.append_assoc, List.nil_append, string]
  simp [chars_escape]

end AwsVerif.Proofs.C11.Rfc
