import AwsVerif.Proofs.C11.Str
import AwsVerif.Proofs.C11.Num
/-! C11 helper lemmas: print_value / parse_value round trip for trees whose numbers are ints. -/
namespace AwsVerif.Proofs.C11
open AwsVerif.Json

mutual
/-- strings and keys are C strings (no NUL) and every number is an int in [INT_MIN, INT_MAX] -/
def IntTree : JVal → Prop
  | .null => True
  | .bool _ => True
  | .num (.int n) => INT_MIN ≤ n ∧ n ≤ INT_MAX
  | .num (.opaque _) => False
  | .str s => noNul s
  | .arr xs => IntElems xs
  | .obj ms => IntMembers ms
def IntElems : List JVal → Prop
  | [] => True
  | x :: r => IntTree x ∧ IntElems r
def IntMembers : List (Bytes × JVal) → Prop
  | [] => True
  | (k, v) :: r => noNul k ∧ IntTree v ∧ IntMembers r
end

mutual
/-- fuel units `parseValue` uses on the printed text of a tree -/
def cost : JVal → Nat
  | .arr xs => 1 + costElems xs
  | .obj ms => 1 + costMembers ms
  | _ => 1
def costElems : List JVal → Nat
  | [] => 0
  | x :: r => 1 + cost x + costElems r
def costMembers : List (Bytes × JVal) → Nat
  | [] => 0
  | (_, v) :: r => 1 + cost v + costMembers r
end

/-! ### whitespace -/

def isWsL (w : Bytes) : Prop := ∀ c ∈ w, c ≤ 32

theorem skipWs_ws_append : ∀ (w s : Bytes), isWsL w → skipWs (w ++ s) = skipWs s
  | [], _, _ => rfl
  | c :: w, s, h => by
    have hc : c ≤ 32 := h c (by simp)
    have hw : isWsL w := fun x hx => h x (by simp [hx])
    simp [skipWs, hc, skipWs_ws_append w s hw]

theorem skipWs_cons_gt (c : UInt8) (s : Bytes) (h : 32 < c) : skipWs (c :: s) = c :: s := by
  have : ¬ c ≤ 32 := by
    intro h'; exact absurd (UInt8.lt_of_lt_of_le h h') (by simp)
  simp [skipWs, this]

theorem skipWs_idem : ∀ (s : Bytes), skipWs (skipWs s) = skipWs s
  | [] => rfl
  | c :: r => by
    by_cases h : c ≤ 32
    · simp [skipWs, h, skipWs_idem r]
    · simp [skipWs, h]

theorem isWsL_tabs (n : Nat) : isWsL (tabs n) := by
  intro c hc
  simp [tabs] at hc
  rw [hc.2]; decide

theorem isWsL_append {a b : Bytes} (ha : isWsL a) (hb : isWsL b) : isWsL (a ++ b) := by
  intro c hc
  rcases List.mem_append.mp hc with h | h
  · exact ha c h
  · exact hb c h

theorem isWsL_ite (b : Bool) (w : Bytes) (h : isWsL w) : isWsL (if b then w else []) := by
  cases b
  · simp [isWsL]
  · simpa using h

theorem isWsL_nil : isWsL [] := by simp [isWsL]
theorem isWsL_nl : isWsL [10] := by simp [isWsL]
theorem isWsL_sp : isWsL [32] := by simp [isWsL]
theorem isWsL_tab : isWsL [9] := by simp [isWsL]

/-! ### first character of a printed value -/

def isStart (c : UInt8) : Prop :=
  c = 110 ∨ c = 116 ∨ c = 102 ∨ c = 34 ∨ c = 45 ∨ isDigit c = true ∨ c = 91 ∨ c = 123

theorem isStart_facts {c : UInt8} (h : isStart c) : 32 < c ∧ c ≠ 93 ∧ c ≠ 125 ∧ c ≠ 44 := by
  rcases h with h | h | h | h | h | h | h | h
  all_goals first
    | (subst h; decide)
    | (simp only [isDigit, Bool.and_eq_true, decide_eq_true_eq] at h
       refine ⟨UInt8.lt_of_lt_of_le (by decide : (32 : UInt8) < 48) h.1, ?_, ?_, ?_⟩ <;>
         (intro hc; subst hc; revert h; decide))

theorem decNat_head (n : Nat) : ∃ c tl, decNat n = c :: tl ∧ isDigit c = true := by
  have hne := decNat_ne_nil n
  have hall := decNat_all_digit n
  cases hd : decNat n with
  | nil => exact absurd hd hne
  | cons c tl =>
    rw [hd] at hall
    simp only [List.all_cons, Bool.and_eq_true] at hall
    exact ⟨c, tl, rfl, hall.1⟩

theorem printValue_head (env : NumEnv) (fmt : Bool) (d : Nat) (t : JVal) (h : IntTree t) :
    ∃ c tl, printValue env fmt d t = c :: tl ∧ isStart c := by
  match t, h with
  | .null, _ => exact ⟨110, [117, 108, 108], by simp [printValue], by simp [isStart]⟩
  | .bool false, _ => exact ⟨102, [97, 108, 115, 101], by simp [printValue], by simp [isStart]⟩
  | .bool true, _ => exact ⟨116, [114, 117, 101], by simp [printValue], by simp [isStart]⟩
  | .num (.opaque b), h => simp [IntTree] at h
  | .num (.int n), _ =>
    obtain ⟨c, tl, hd, hc⟩ := decNat_head n.natAbs
    by_cases hn : n < 0
    · exact ⟨45, decNat n.natAbs, by simp [printValue, printNum, decInt, hn], by simp [isStart]⟩
    · exact ⟨c, tl, by simp [printValue, printNum, decInt, hn, hd], by simp [isStart, hc]⟩
  | .str s, _ => exact ⟨34, escape s ++ [34], by simp [printValue, printString], by simp [isStart]⟩
  | .arr xs, _ => exact ⟨91, printElems env fmt (d + 1) xs ++ [93], by simp [printValue], by simp [isStart]⟩
  | .obj ms, _ =>
    exact ⟨123, (if fmt then [10] else []) ++ printMembers env fmt (d + 1) ms ++ (if fmt then tabs d else []) ++ [125],
      by simp [printValue], by simp [isStart]⟩

/-! ### one step of parse_value, by first character -/

theorem pv_null (env : NumEnv) (f pd : Nat) (rest : Bytes) :
    parseValue env (f + 1) pd (110 :: 117 :: 108 :: 108 :: rest) = some (.null, rest) := by
  simp [parseValue, startsWith]

theorem pv_false (env : NumEnv) (f pd : Nat) (rest : Bytes) :
    parseValue env (f + 1) pd (102 :: 97 :: 108 :: 115 :: 101 :: rest) = some (.bool false, rest) := by
  simp [parseValue, startsWith]

theorem pv_true (env : NumEnv) (f pd : Nat) (rest : Bytes) :
    parseValue env (f + 1) pd (116 :: 114 :: 117 :: 101 :: rest) = some (.bool true, rest) := by
  simp [parseValue, startsWith]

theorem pv_str (env : NumEnv) (f pd : Nat) (tl : Bytes) :
    parseValue env (f + 1) pd (34 :: tl) =
      match parseString (34 :: tl) with
      | some (b, rest) => some (.str b, rest)
      | none => none := by
  simp [parseValue, startsWith]
  rcases parseString (34 :: tl) with _ | ⟨b, rest⟩ <;> rfl

theorem pv_num (env : NumEnv) (f pd : Nat) (c : UInt8) (tl : Bytes) (hc : c = 45 ∨ isDigit c = true) :
    parseValue env (f + 1) pd (c :: tl) =
      match parseNumber env (c :: tl) with
      | some (n, rest) => some (.num n, rest)
      | none => none := by
  have h : c ≠ 110 ∧ c ≠ 102 ∧ c ≠ 116 ∧ c ≠ 34 := by
    rcases hc with hc | hc
    · subst hc; decide
    · simp only [isDigit, Bool.and_eq_true, decide_eq_true_eq] at hc
      refine ⟨?_, ?_, ?_, ?_⟩ <;> (intro h; subst h; revert hc; decide)
  obtain ⟨h1, h2, h3, h4⟩ := h
  have e1 : ((110 : UInt8) == c) = false := by simp [Ne.symm h1]
  have e2 : ((102 : UInt8) == c) = false := by simp [Ne.symm h2]
  have e3 : ((116 : UInt8) == c) = false := by simp [Ne.symm h3]
  simp [parseValue, startsWith, e1, e2, e3, h4, hc]
  rcases parseNumber env (c :: tl) with _ | ⟨b, rest⟩ <;> rfl

theorem pv_arr (env : NumEnv) (f pd : Nat) (r : Bytes) (hd : pd < Gen.CJSON_NESTING_LIMIT) :
    parseValue env (f + 1) pd (91 :: r) =
      match skipWs r with
      | [] => none
      | c1 :: r1 =>
        if c1 = 93 then some (.arr [], r1)
        else match parseElems env f (pd + 1) (c1 :: r1) with
          | some (xs, rest) => some (.arr xs, rest)
          | none => none := by
  have : ¬ pd ≥ Gen.CJSON_NESTING_LIMIT := by omega
  simp [parseValue, startsWith, isDigit, this]
  rcases skipWs r with _ | ⟨c1, r1⟩
  · rfl
  · by_cases h : c1 = 93
    · simp [h]
    · simp [h]
      rcases parseElems env f (pd + 1) (c1 :: r1) with _ | ⟨xs, rest⟩ <;> rfl

theorem pv_obj (env : NumEnv) (f pd : Nat) (r : Bytes) (hd : pd < Gen.CJSON_NESTING_LIMIT) :
    parseValue env (f + 1) pd (123 :: r) =
      match skipWs r with
      | [] => none
      | c1 :: r1 =>
        if c1 = 125 then some (.obj [], r1)
        else match parseMembers env f (pd + 1) (c1 :: r1) with
          | some (ms, rest) => some (.obj ms, rest)
          | none => none := by
  have : ¬ pd ≥ Gen.CJSON_NESTING_LIMIT := by omega
  simp [parseValue, startsWith, isDigit, this]
  rcases skipWs r with _ | ⟨c1, r1⟩
  · rfl
  · by_cases h : c1 = 125
    · simp [h]
    · simp [h]
      rcases parseMembers env f (pd + 1) (c1 :: r1) with _ | ⟨xs, rest⟩ <;> rfl

theorem parseElems_skipWs (env : NumEnv) (f pd : Nat) (s : Bytes) :
    parseElems env f pd (skipWs s) = parseElems env f pd s := by
  cases f with
  | zero => simp [parseElems]
  | succ f => simp [parseElems, skipWs_idem]

theorem parseMembers_skipWs (env : NumEnv) (f pd : Nat) (s : Bytes) :
    parseMembers env f pd (skipWs s) = parseMembers env f pd s := by
  cases f with
  | zero => simp [parseMembers]
  | succ f => simp [parseMembers, skipWs_idem]

end AwsVerif.Proofs.C11
