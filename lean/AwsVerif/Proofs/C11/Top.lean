import AwsVerif.Proofs.C11.RoundTrip
/-! C11: the fuel `parseCStr` supplies suffices, printed text holds no NUL / BOM, top-level round trip. -/
namespace AwsVerif.Proofs.C11
open AwsVerif.Json

theorem printValue_len_pos (env : NumEnv) (fmt : Bool) (d : Nat) (t : JVal) (h : IntTree t) :
    1 ≤ (printValue env fmt d t).length := by
  obtain ⟨c, tl, hd, _⟩ := printValue_head env fmt d t h
  simp [hd]

mutual
theorem cost_le_value (env : NumEnv) : ∀ (t : JVal) (fmt : Bool) (d : Nat), IntTree t →
    cost t + 1 ≤ 2 * (printValue env fmt d t).length
  | .arr xs, fmt, d, h => by
    have := cost_le_elems env xs fmt (d + 1) (by simpa [IntTree] using h)
    simp only [cost, printValue, List.length_cons, List.length_append, List.length_nil]
    omega
  | .obj ms, fmt, d, h => by
    have := cost_le_members env ms fmt (d + 1) (by simpa [IntTree] using h)
    simp only [cost, printValue, List.length_cons, List.length_append, List.length_nil, List.cons_append]
    omega
  | .null, fmt, d, h => by have := printValue_len_pos env fmt d _ h; simp only [cost]; omega
  | .bool b, fmt, d, h => by have := printValue_len_pos env fmt d _ h; simp only [cost]; omega
  | .num n, fmt, d, h => by have := printValue_len_pos env fmt d _ h; simp only [cost]; omega
  | .str s, fmt, d, h => by have := printValue_len_pos env fmt d _ h; simp only [cost]; omega
theorem cost_le_elems (env : NumEnv) : ∀ (xs : List JVal) (fmt : Bool) (d : Nat), IntElems xs →
    costElems xs ≤ 2 * (printElems env fmt d xs).length
  | [], _, _, _ => by simp [costElems]
  | x :: r, fmt, d, h => by
    simp only [IntElems] at h
    have h1 := cost_le_value env x fmt d h.1
    have h2 := cost_le_elems env r fmt d h.2
    simp only [costElems, printElems, List.length_append]
    omega
theorem cost_le_members (env : NumEnv) : ∀ (ms : List (Bytes × JVal)) (fmt : Bool) (d : Nat), IntMembers ms →
    costMembers ms ≤ 2 * (printMembers env fmt d ms).length
  | [], _, _, _ => by simp [costMembers]
  | (k, v) :: r, fmt, d, h => by
    simp only [IntMembers] at h
    have h1 := cost_le_value env v fmt d h.2.1
    have h2 := cost_le_members env r fmt d h.2.2
    simp only [costMembers, printMembers, List.length_append]
    omega
end

/-! ### the printed text contains no NUL -/

theorem noNul_append {a b : Bytes} (ha : noNul a) (hb : noNul b) : noNul (a ++ b) := by
  intro c hc
  rcases List.mem_append.mp hc with h | h
  · exact ha c h
  · exact hb c h

theorem noNul_cons {c : UInt8} {b : Bytes} (hc : c ≠ 0) (hb : noNul b) : noNul (c :: b) := by
  intro x hx
  rcases List.mem_cons.mp hx with h | h
  · rw [h]; exact hc
  · exact hb x h

theorem noNul_nil : noNul [] := by intro c hc; cases hc

theorem noNul_ite (b : Bool) (w : Bytes) (h : noNul w) : noNul (if b then w else []) := by
  cases b
  · exact noNul_nil
  · simpa using h

theorem noNul_tabs (n : Nat) : noNul (tabs n) := by
  intro c hc
  simp [tabs] at hc
  rw [hc.2]; decide

theorem hexLower_ne_zero : ∀ n, n < 16 → hexLower n ≠ 0 := by decide

theorem noNul_escapeByte (c : UInt8) (hc : c ≠ 0) : noNul (escapeByte c) := by
  unfold escapeByte
  split; · (intro x hx; simp at hx; rcases hx with h | h <;> (rw [h]; decide))
  split; · (intro x hx; simp at hx; rw [hx]; decide)
  split; · (intro x hx; simp at hx; rcases hx with h | h <;> (rw [h]; decide))
  split; · (intro x hx; simp at hx; rcases hx with h | h <;> (rw [h]; decide))
  split; · (intro x hx; simp at hx; rcases hx with h | h <;> (rw [h]; decide))
  split; · (intro x hx; simp at hx; rcases hx with h | h <;> (rw [h]; decide))
  split; · (intro x hx; simp at hx; rcases hx with h | h <;> (rw [h]; decide))
  split
  · rename_i h
    have hn := toNat_lt_of_lt h
    have h1 := hexLower_ne_zero (c.toNat / 16) (by omega)
    have h2 := hexLower_ne_zero (c.toNat % 16) (by omega)
    exact noNul_cons (by decide) (noNul_cons (by decide) (noNul_cons (by decide) (noNul_cons (by decide)
      (noNul_cons h1 (noNul_cons h2 noNul_nil)))))
  · exact noNul_cons hc noNul_nil

theorem noNul_escape : ∀ (s : Bytes), noNul s → noNul (escape s)
  | [], _ => noNul_nil
  | c :: r, h => by
    rw [escape]
    exact noNul_append (noNul_escapeByte c (h c (by simp))) (noNul_escape r (fun x hx => h x (by simp [hx])))

theorem noNul_printString (s : Bytes) (h : noNul s) : noNul (printString s) :=
  noNul_cons (by decide) (noNul_append (noNul_escape s h) (noNul_cons (by decide) noNul_nil))

theorem noNul_decInt (n : Int) : noNul (decInt n) := by
  intro c hc
  have hall := decInt_numChars n
  simp only [List.all_eq_true] at hall
  have := hall c hc
  intro h0; rw [h0] at this; revert this; decide

mutual
theorem noNul_value (env : NumEnv) : ∀ (t : JVal) (fmt : Bool) (d : Nat), IntTree t → noNul (printValue env fmt d t)
  | .null, _, _, _ => by simp only [printValue]; intro c hc; simp at hc; rcases hc with h | h | h <;> (rw [h]; decide)
  | .bool true, _, _, _ => by
    simp only [printValue]; intro c hc; simp at hc; rcases hc with h | h | h | h <;> (rw [h]; decide)
  | .bool false, _, _, _ => by
    simp only [printValue]; intro c hc; simp at hc; rcases hc with h | h | h | h | h <;> (rw [h]; decide)
  | .num (.opaque _), _, _, h => by simp [IntTree] at h
  | .num (.int n), _, _, _ => by simp only [printValue, printNum]; exact noNul_decInt n
  | .str s, _, _, h => by simp only [printValue]; exact noNul_printString s (by simpa [IntTree] using h)
  | .arr xs, fmt, d, h => by
    simp only [printValue]
    exact noNul_cons (by decide) (noNul_append (noNul_elems env xs fmt (d + 1) (by simpa [IntTree] using h))
      (noNul_cons (by decide) noNul_nil))
  | .obj ms, fmt, d, h => by
    simp only [printValue]
    exact noNul_append (noNul_append (noNul_append (noNul_cons (by decide) (noNul_ite fmt _ (noNul_cons (by decide) noNul_nil)))
      (noNul_members env ms fmt (d + 1) (by simpa [IntTree] using h))) (noNul_ite fmt _ (noNul_tabs d)))
      (noNul_cons (by decide) noNul_nil)
theorem noNul_elems (env : NumEnv) : ∀ (xs : List JVal) (fmt : Bool) (d : Nat), IntElems xs → noNul (printElems env fmt d xs)
  | [], _, _, _ => by simp only [printElems]; exact noNul_nil
  | x :: r, fmt, d, h => by
    simp only [IntElems] at h
    simp only [printElems]
    refine noNul_append (noNul_append (noNul_value env x fmt d h.1) ?_) (noNul_elems env r fmt d h.2)
    split
    · exact noNul_nil
    · exact noNul_cons (by decide) (noNul_ite fmt _ (noNul_cons (by decide) noNul_nil))
theorem noNul_members (env : NumEnv) : ∀ (ms : List (Bytes × JVal)) (fmt : Bool) (d : Nat), IntMembers ms →
    noNul (printMembers env fmt d ms)
  | [], _, _, _ => by simp only [printMembers]; exact noNul_nil
  | (k, v) :: r, fmt, d, h => by
    simp only [IntMembers] at h
    simp only [printMembers]
    refine noNul_append (noNul_append (noNul_append (noNul_append (noNul_append (noNul_append (noNul_ite fmt _ (noNul_tabs d))
      (noNul_printString k h.1)) (noNul_cons (by decide) (noNul_ite fmt _ (noNul_cons (by decide) noNul_nil))))
      (noNul_value env v fmt d h.2.1)) ?_) (noNul_ite fmt _ (noNul_cons (by decide) noNul_nil))) (noNul_members env r fmt d h.2.2)
    split
    · exact noNul_nil
    · exact noNul_cons (by decide) noNul_nil
end

theorem skipBom_start {c : UInt8} (tl : Bytes) (h : isStart c) : skipBom (c :: tl) = c :: tl := by
  have hc : c ≠ 0xEF := by
    rcases h with h | h | h | h | h | h | h | h
    all_goals first
      | (subst h; decide)
      | (simp only [isDigit, Bool.and_eq_true, decide_eq_true_eq] at h
         intro hc; subst hc; revert h; decide)
  unfold skipBom
  rw [if_neg]
  intro ⟨_, h3⟩
  cases tl with
  | nil => simp [BOM] at h3
  | cons a tl =>
    cases tl with
    | nil => simp [BOM] at h3
    | cons b tl => simp [BOM] at h3; exact hc h3.1

/-- `aws_json_value_new_from_string (print t) = t`, compact and formatted -/
theorem parseText_printText (env : NumEnv) (fmt : Bool) (t : JVal) (h : IntTree t)
    (hd : depth t ≤ Gen.CJSON_NESTING_LIMIT) : parseText env (printText env fmt t) = some t := by
  unfold parseText printText
  rw [cstr_of_noNul _ (noNul_value env t fmt 0 h)]
  obtain ⟨c, tl, hp, hc⟩ := printValue_head env fmt 0 t h
  have hcost := cost_le_value env t fmt 0 h
  have hrt := rt_value env t fmt 0 0 (2 * (printValue env fmt 0 t).length + 2) [] h (by omega) (by omega) okRest_nil
  simp only [List.append_nil] at hrt
  unfold parseCStr
  simp only [hp, skipBom_start tl hc, skipWs_start tl hc]
  rw [hp] at hrt
  simp only [List.length_cons] at hrt ⊢
  rw [hrt]

end AwsVerif.Proofs.C11
