import AwsVerif.Proofs.C11.Rfc
import AwsVerif.Proofs.C11.Top
/-! C11: the printed text of an int-only tree is accepted by the RFC 8259 recogniser `Rfc`. -/
namespace AwsVerif.Proofs.C11.Rfc
open AwsVerif.Json AwsVerif.Proofs.C11

/-! ### whitespace of the RFC (`%x20 / %x09 / %x0A / %x0D`) -/

def isRwsL (w : Bytes) : Prop := ∀ c ∈ w, c = 32 ∨ c = 9 ∨ c = 10 ∨ c = 13

theorem ws_append : ∀ (w s : Bytes), isRwsL w → ws (w ++ s) = ws s
  | [], _, _ => rfl
  | c :: w, s, h => by
    have hc := h c (by simp)
    have hw : isRwsL w := fun x hx => h x (by simp [hx])
    simp [ws, hc, ws_append w s hw]

theorem ws_cons_gt (c : UInt8) (s : Bytes) (h : 32 < c) : ws (c :: s) = c :: s := by
  have : ¬ (c = 32 ∨ c = 9 ∨ c = 10 ∨ c = 13) := by
    intro h'
    rcases h' with h' | h' | h' | h' <;> (subst h'; revert h; decide)
  simp [ws, this]

theorem ws_idem : ∀ (s : Bytes), ws (ws s) = ws s
  | [] => rfl
  | c :: r => by
    by_cases h : c = 32 ∨ c = 9 ∨ c = 10 ∨ c = 13
    · simp [ws, h, ws_idem r]
    · simp [ws, h]

theorem isRwsL_tabs (n : Nat) : isRwsL (tabs n) := by
  intro c hc
  simp [tabs] at hc
  exact Or.inr (Or.inl hc.2)

theorem isRwsL_append {a b : Bytes} (ha : isRwsL a) (hb : isRwsL b) : isRwsL (a ++ b) := by
  intro c hc
  rcases List.mem_append.mp hc with h | h
  · exact ha c h
  · exact hb c h

theorem isRwsL_ite (b : Bool) (w : Bytes) (h : isRwsL w) : isRwsL (if b then w else []) := by
  cases b
  · simp [isRwsL]
  · simpa using h

theorem isRwsL_nil : isRwsL [] := by simp [isRwsL]
theorem isRwsL_nl : isRwsL [10] := by simp [isRwsL]
theorem isRwsL_sp : isRwsL [32] := by simp [isRwsL]
theorem isRwsL_tab : isRwsL [9] := by simp [isRwsL]

theorem isWsL_of_isRwsL {w : Bytes} (h : isRwsL w) : isWsL w := by
  intro c hc
  rcases h c hc with h | h | h | h <;> (subst h; decide)

theorem ws_start {c : UInt8} (tl : Bytes) (h : isStart c) : ws (c :: tl) = c :: tl :=
  ws_cons_gt c tl (isStart_facts h).1

/-! ### `%d` output is an RFC number (no leading zero) -/

theorem digitsRev_last_ne_zero : ∀ (f n : Nat), n ≠ 0 → n < 10 ^ (f + 1) →
    ∀ d, (digitsRev (f + 1) n).getLast? = some d → d ≠ 0
  | 0, n, hn, hlt, d, hd => by
    have : n < 10 := by simpa using hlt
    simp [digitsRev, this] at hd
    omega
  | f + 1, n, hn, hlt, d, hd => by
    rw [digitsRev] at hd
    split at hd
    · simp at hd; omega
    · rename_i h10
      have hq : n / 10 ≠ 0 := by omega
      have hql : n / 10 < 10 ^ (f + 1) := by
        rw [Nat.pow_succ] at hlt
        exact Nat.div_lt_of_lt_mul (by omega)
      have hne := digitsRev_ne_nil f (n / 10)
      rw [List.getLast?_cons_of_ne_nil hne] at hd
      exact digitsRev_last_ne_zero f (n / 10) hq hql d hd

theorem dropDigits_append_all : ∀ (ds rest : Bytes), ds.all isDigit = true →
    (∀ c r, rest = c :: r → isDigit c = false) → dropDigits (ds ++ rest) = rest
  | [], rest, _, h => by
    cases rest with
    | nil => rfl
    | cons c r => simp [dropDigits, h c r rfl]
  | d :: ds, rest, ha, h => by
    simp only [List.all_cons, Bool.and_eq_true] at ha
    simp [dropDigits, ha.1, dropDigits_append_all ds rest ha.2 h]

/-- `decNat n` is "0" or starts with a digit 1–9 -/
theorem decNat_shape (n : Nat) (h : n < 10 ^ 10) :
    decNat n = [48] ∨ ∃ c tl, decNat n = c :: tl ∧ 49 ≤ c ∧ c ≤ 57 ∧ tl.all isDigit = true := by
  by_cases hn : n = 0
  · left; subst hn; decide
  · right
    have hall := decNat_all_digit n
    have hne := digitsRev_ne_nil 9 n
    rw [decNat_eq] at hall ⊢
    -- head of the reversed list is the last digit
    cases hl : (digitsRev 10 n).reverse with
    | nil => simp at hl; exact absurd hl hne
    | cons d tl =>
      have hlast : (digitsRev 10 n).getLast? = some d := by
        rw [← List.head?_reverse, hl]; rfl
      have hd0 := digitsRev_last_ne_zero 9 n hn h d hlast
      have hd10 : d < 10 := digitsRev_lt 10 n d (by
        have : d ∈ (digitsRev 10 n).reverse := by rw [hl]; simp
        simpa using this)
      rw [hl] at hall
      simp only [List.map_cons, List.all_cons, Bool.and_eq_true] at hall
      refine ⟨ch d, tl.map ch, by simp, ?_, ?_, hall.2⟩
      · have : ∀ d, d < 10 → d ≠ 0 → 49 ≤ ch d := by decide
        exact this d hd10 hd0
      · have : ∀ d, d < 10 → ch d ≤ 57 := by decide
        exact this d hd10

theorem okRest_not_digit {rest : Bytes} (h : okRest rest) : ∀ c r, rest = c :: r → isDigit c = false := by
  intro c r hc
  have := h c r hc
  simp only [isNumChar, Bool.or_eq_false_iff] at this
  exact this.1.1.1.1.1

theorem number_tail {rest : Bytes} (h : okRest rest) :
    (match fracPart rest with
      | none => none
      | some s3 => expPart s3) = some rest := by
  cases rest with
  | nil => rfl
  | cons c r =>
    have := h c r rfl
    simp only [isNumChar, Bool.or_eq_false_iff, decide_eq_false_iff_not] at this
    obtain ⟨⟨⟨⟨⟨_, _⟩, _⟩, h101⟩, h69⟩, h46⟩ := this
    simp [fracPart, expPart, h46, h101, h69]

theorem number_digits (c : UInt8) (tl rest : Bytes) (h1 : 49 ≤ c) (h2 : c ≤ 57) (hall : tl.all isDigit = true)
    (hrest : okRest rest) (hneg : Bool) :
    number ((if hneg then [45] else []) ++ c :: (tl ++ rest)) = some rest := by
  have hc45 : c ≠ 45 := by intro h; subst h; revert h1; decide
  have hc48 : c ≠ 48 := by intro h; subst h; revert h1; decide
  have hd := dropDigits_append_all tl rest hall (okRest_not_digit hrest)
  have ht := number_tail hrest
  have hi : intPart (c :: (tl ++ rest)) = some rest := by simp [intPart, hc48, h1, h2, hd]
  cases hneg
  · simp only [Bool.false_eq_true, if_false, List.nil_append, number, stripMinus, hc45, hi]
    exact ht
  · simp only [if_true, List.cons_append, List.nil_append, number, stripMinus, hi]
    exact ht

theorem number_zero (rest : Bytes) (hrest : okRest rest) : number (48 :: rest) = some rest := by
  have ht := number_tail hrest
  have hi : intPart (stripMinus (48 :: rest)) = some rest := by simp [intPart, stripMinus]
  simp only [number, hi]
  exact ht

theorem number_decInt (n : Int) (rest : Bytes) (hlo : INT_MIN ≤ n) (hhi : n ≤ INT_MAX) (hrest : okRest rest) :
    number (decInt n ++ rest) = some rest := by
  simp only [INT_MIN, INT_MAX] at hlo hhi
  rcases decNat_shape n.natAbs (by omega) with h0 | ⟨c, tl, hd, h1, h2, hall⟩
  · have hn : n = 0 := by
      have hv := decNat_value n.natAbs (by omega)
      rw [h0] at hv
      have : parseDec [48] = 0 := by decide
      omega
    subst hn
    have : decInt 0 = [48] := by decide
    rw [this]
    exact number_zero rest hrest
  · by_cases hneg : n < 0
    · have := number_digits c tl rest h1 h2 hall hrest true
      simpa [decInt, hneg, hd] using this
    · have := number_digits c tl rest h1 h2 hall hrest false
      simpa [decInt, hneg, hd] using this

/-! ### one step of `value`, by first character -/

theorem rv_null (f : Nat) (rest : Bytes) : value (f + 1) (110 :: 117 :: 108 :: 108 :: rest) = some rest := by
  simp [value, startsWith]

theorem rv_false (f : Nat) (rest : Bytes) : value (f + 1) (102 :: 97 :: 108 :: 115 :: 101 :: rest) = some rest := by
  simp [value, startsWith]

theorem rv_true (f : Nat) (rest : Bytes) : value (f + 1) (116 :: 114 :: 117 :: 101 :: rest) = some rest := by
  simp [value, startsWith]

theorem rv_str (f : Nat) (tl : Bytes) : value (f + 1) (34 :: tl) = string (34 :: tl) := by
  simp [value, startsWith]

theorem rv_num (f : Nat) (c : UInt8) (tl : Bytes) (hc : c = 45 ∨ isDigit c = true) :
    value (f + 1) (c :: tl) = number (c :: tl) := by
  have h : c ≠ 110 ∧ c ≠ 102 ∧ c ≠ 116 ∧ c ≠ 34 := by
    rcases hc with hc | hc
    · subst hc; decide
    · simp only [isDigit, Bool.and_eq_true, decide_eq_true_eq] at hc
      refine ⟨?_, ?_, ?_, ?_⟩ <;> (intro h; subst h; revert hc; decide)
  obtain ⟨h1, h2, h3, h4⟩ := h
  have e1 : ((110 : UInt8) == c) = false := by simp [Ne.symm h1]
  have e2 : ((102 : UInt8) == c) = false := by simp [Ne.symm h2]
  have e3 : ((116 : UInt8) == c) = false := by simp [Ne.symm h3]
  simp [value, startsWith, e1, e2, e3, h4, hc]

theorem rv_arr (f : Nat) (r : Bytes) :
    value (f + 1) (91 :: r) =
      match ws r with
      | [] => none
      | c1 :: r1 => if c1 = 93 then some r1 else elems f (c1 :: r1) := by
  simp [value, startsWith, isDigit]
  rcases ws r with _ | ⟨c1, r1⟩ <;> rfl

theorem rv_obj (f : Nat) (r : Bytes) :
    value (f + 1) (123 :: r) =
      match ws r with
      | [] => none
      | c1 :: r1 => if c1 = 125 then some r1 else members f (c1 :: r1) := by
  simp [value, startsWith, isDigit]
  rcases ws r with _ | ⟨c1, r1⟩ <;> rfl

theorem elems_ws (f : Nat) (s : Bytes) : elems f (ws s) = elems f s := by
  cases f with
  | zero => simp [elems]
  | succ f => simp [elems, ws_idem]

theorem members_ws (f : Nat) (s : Bytes) : members f (ws s) = members f s := by
  cases f with
  | zero => simp [members]
  | succ f => simp [members, ws_idem]

mutual
theorem rfc_value (env : NumEnv) : ∀ (t : JVal) (fmt : Bool) (d f : Nat) (rest : Bytes),
    IntTree t → cost t ≤ f → okRest rest → value f (printValue env fmt d t ++ rest) = some rest
  | .null, fmt, d, f, rest, _, hf, _ => by
    obtain ⟨f', rfl⟩ : ∃ f', f = f' + 1 := ⟨f - 1, by simp [cost] at hf; omega⟩
    simp only [printValue, List.cons_append, List.nil_append]
    exact rv_null f' rest
  | .bool true, fmt, d, f, rest, _, hf, _ => by
    obtain ⟨f', rfl⟩ : ∃ f', f = f' + 1 := ⟨f - 1, by simp [cost] at hf; omega⟩
    simp only [printValue, List.cons_append, List.nil_append]
    exact rv_true f' rest
  | .bool false, fmt, d, f, rest, _, hf, _ => by
    obtain ⟨f', rfl⟩ : ∃ f', f = f' + 1 := ⟨f - 1, by simp [cost] at hf; omega⟩
    simp only [printValue, List.cons_append, List.nil_append]
    exact rv_false f' rest
  | .num (.opaque _), _, _, _, _, h, _, _ => by simp [IntTree] at h
  | .num (.int n), fmt, d, f, rest, h, hf, hrest => by
    obtain ⟨f', rfl⟩ : ∃ f', f = f' + 1 := ⟨f - 1, by simp [cost] at hf; omega⟩
    simp only [IntTree] at h
    obtain ⟨c, tl, hd, hc⟩ := decInt_head n
    have hp := number_decInt n rest h.1 h.2 hrest
    simp only [printValue, printNum]
    rw [hd, List.cons_append, rv_num f' c (tl ++ rest) hc, ← List.cons_append, ← hd, hp]
  | .str s, fmt, d, f, rest, _, hf, _ => by
    obtain ⟨f', rfl⟩ : ∃ f', f = f' + 1 := ⟨f - 1, by simp [cost] at hf; omega⟩
    have hp := rfc_printString s rest
    simp only [printValue]
    simp only [printString, List.cons_append] at hp ⊢
    rw [rv_str, hp]
  | .arr xs, fmt, d, f, rest, h, hf, _ => by
    obtain ⟨f', rfl⟩ : ∃ f', f = f' + 1 := ⟨f - 1, by simp [cost] at hf; omega⟩
    simp only [IntTree] at h
    simp only [cost] at hf
    simp only [printValue, List.cons_append, List.append_assoc, List.nil_append]
    rw [rv_arr f']
    match xs, h, hf with
    | [], _, _ =>
      simp [printElems, ws_cons_gt 93 rest (by decide)]
    | x :: r, h, hf =>
      have hx : IntTree x := by simp only [IntElems] at h; exact h.1
      obtain ⟨c, tl, hd, hc⟩ := printValue_head env fmt (d + 1) x hx
      have hR : ∃ tl', printElems env fmt (d + 1) (x :: r) ++ 93 :: rest = c :: tl' := by
        simp only [printElems, hd, List.cons_append, List.append_assoc]
        exact ⟨_, rfl⟩
      obtain ⟨tl', hR⟩ := hR
      have hE := rfc_elems env (x :: r) fmt (d + 1) f' [] rest (by simp) h (by omega) isRwsL_nil
      simp only [List.nil_append] at hE
      rw [hR] at hE ⊢
      rw [ws_start tl' hc]
      simp [(isStart_facts hc).2.1, hE]
  | .obj ms, fmt, d, f, rest, h, hf, _ => by
    obtain ⟨f', rfl⟩ : ∃ f', f = f' + 1 := ⟨f - 1, by simp [cost] at hf; omega⟩
    simp only [IntTree] at h
    simp only [cost] at hf
    simp only [printValue, List.cons_append, List.append_assoc, List.nil_append]
    rw [rv_obj f']
    match ms, h, hf with
    | [], _, _ =>
      have hw : isRwsL ((if fmt then [10] else []) ++ (if fmt then tabs d else [])) :=
        isRwsL_append (isRwsL_ite fmt _ isRwsL_nl) (isRwsL_ite fmt _ (isRwsL_tabs d))
      have := ws_append _ (125 :: rest) hw
      simp only [List.append_assoc] at this
      simp [printMembers, this, ws_cons_gt 125 rest (by decide)]
    | (k, v) :: r, h, hf =>
      have hM := rfc_members env ((k, v) :: r) fmt (d + 1) f' (if fmt then [10] else []) (if fmt then tabs d else []) rest
        (by simp) h (by omega) (isRwsL_ite fmt _ isRwsL_nl) (isRwsL_ite fmt _ (isRwsL_tabs d))
      simp only [List.append_assoc] at hM
      have hsk : ∃ X, ws ((if fmt then [10] else []) ++ (printMembers env fmt (d + 1) ((k, v) :: r) ++
          ((if fmt then tabs d else []) ++ 125 :: rest))) = 34 :: X := by
        simp only [printMembers, printString, List.cons_append, List.append_assoc]
        rw [ws_append _ _ (isRwsL_ite fmt _ isRwsL_nl), ws_append _ _ (isRwsL_ite fmt _ (isRwsL_tabs (d + 1)))]
        exact ⟨_, ws_cons_gt 34 _ (by decide)⟩
      obtain ⟨X, hsk⟩ := hsk
      rw [← members_ws, hsk] at hM
      rw [hsk]
      simp [hM]
theorem rfc_elems (env : NumEnv) : ∀ (xs : List JVal) (fmt : Bool) (d f : Nat) (w rest : Bytes),
    xs ≠ [] → IntElems xs → costElems xs ≤ f → isRwsL w →
    elems f (w ++ printElems env fmt d xs ++ 93 :: rest) = some rest
  | [], _, _, _, _, _, hne, _, _, _ => absurd rfl hne
  | x :: r, fmt, d, f, w, rest, _, h, hf, hw => by
    obtain ⟨f', rfl⟩ : ∃ f', f = f' + 1 := ⟨f - 1, by simp [costElems] at hf; omega⟩
    simp only [IntElems] at h
    simp only [costElems] at hf
    have hcx := cost_pos x
    obtain ⟨c, tl, hd, hc⟩ := printValue_head env fmt d x h.1
    match r, h, hf with
    | [], h, hf =>
      have hV := rfc_value env x fmt d f' (93 :: rest) h.1 (by omega)
        (okRest_cons _ (Or.inr (Or.inr (Or.inl rfl))))
      simp only [printElems, List.isEmpty_nil, if_true, List.append_nil, List.append_assoc]
      rw [elems, ws_append _ _ hw]
      rw [hd, List.cons_append, ws_start _ hc, ← List.cons_append, ← hd, hV]
      simp [ws_cons_gt 93 rest (by decide)]
    | y :: r', h, hf =>
      have hr : IntElems (y :: r') := h.2
      have hE := rfc_elems env (y :: r') fmt d f' (if fmt then [32] else []) rest (by simp) hr
        (by omega) (isRwsL_ite fmt _ isRwsL_sp)
      have hV := rfc_value env x fmt d f'
        (44 :: ((if fmt then [32] else []) ++ printElems env fmt d (y :: r') ++ 93 :: rest)) h.1 (by omega)
        (okRest_cons _ (Or.inr (Or.inl rfl)))
      rw [printElems]
      simp only [List.isEmpty_cons, Bool.false_eq_true, if_false, List.append_assoc, List.cons_append]
      simp only [List.append_assoc] at hV hE
      rw [elems, ws_append _ _ hw]
      rw [hd, List.cons_append, ws_start _ hc, ← List.cons_append, ← hd, hV]
      simp [ws_cons_gt 44 _ (by decide), hE]
theorem rfc_members (env : NumEnv) : ∀ (ms : List (Bytes × JVal)) (fmt : Bool) (d f : Nat) (w wc rest : Bytes),
    ms ≠ [] → IntMembers ms → costMembers ms ≤ f → isRwsL w → isRwsL wc →
    members f (w ++ printMembers env fmt d ms ++ wc ++ 125 :: rest) = some rest
  | [], _, _, _, _, _, _, hne, _, _, _, _ => absurd rfl hne
  | (k, v) :: r, fmt, d, f, w, wc, rest, _, h, hf, hw, hwc => by
    obtain ⟨f', rfl⟩ : ∃ f', f = f' + 1 := ⟨f - 1, by simp [costMembers] at hf; omega⟩
    simp only [IntMembers] at h
    simp only [costMembers] at hf
    have hcv := cost_pos v
    obtain ⟨c, tl, hd, hc⟩ := printValue_head env fmt d v h.2.1
    match r, h, hf with
    | [], h, hf =>
      have hok : okRest ((if fmt then [10] else []) ++ wc ++ 125 :: rest) := by
        have := okRest_ws_close ((if fmt then [10] else []) ++ wc) rest
          (isWsL_of_isRwsL (isRwsL_append (isRwsL_ite fmt _ isRwsL_nl) hwc))
        simpa [List.append_assoc] using this
      have hV := rfc_value env v fmt d f' ((if fmt then [10] else []) ++ wc ++ 125 :: rest) h.2.1 (by omega) hok
      have hS := rfc_printString k
        (58 :: ((if fmt then [9] else []) ++ (printValue env fmt d v ++ ((if fmt then [10] else []) ++ wc ++ 125 :: rest))))
      have hws : ws ((if fmt then [10] else []) ++ wc ++ 125 :: rest) = 125 :: rest := by
        have := ws_append ((if fmt then [10] else []) ++ wc) (125 :: rest) (isRwsL_append (isRwsL_ite fmt _ isRwsL_nl) hwc)
        simp only [List.append_assoc] at this ⊢
        rw [this, ws_cons_gt 125 rest (by decide)]
      simp only [printMembers, List.isEmpty_nil, if_true, List.append_nil, List.append_assoc, List.cons_append]
      simp only [List.append_assoc] at hV hS hws
      rw [members, ws_append _ _ hw, ws_append _ _ (isRwsL_ite fmt _ (isRwsL_tabs d))]
      have hq : ∃ tlq, printString k = 34 :: tlq := ⟨_, rfl⟩
      obtain ⟨tlq, hq⟩ := hq
      rw [hq, List.cons_append, ws_cons_gt 34 _ (by decide), ← List.cons_append, ← hq, hS]
      simp only [ws_cons_gt 58 _ (by decide : (32 : UInt8) < 58)]
      rw [ws_append _ _ (isRwsL_ite fmt _ isRwsL_tab)]
      rw [hd, List.cons_append, ws_start _ hc, ← List.cons_append, ← hd, hV]
      simp [hws]
    | m' :: r', h, hf =>
      have hr : IntMembers (m' :: r') := h.2.2
      have hM := rfc_members env (m' :: r') fmt d f' (if fmt then [10] else []) wc rest (by simp) hr
        (by omega) (isRwsL_ite fmt _ isRwsL_nl) hwc
      have hV := rfc_value env v fmt d f'
        (44 :: ((if fmt then [10] else []) ++ printMembers env fmt d (m' :: r') ++ wc ++ 125 :: rest)) h.2.1 (by omega)
        (okRest_cons _ (Or.inr (Or.inl rfl)))
      have hS := rfc_printString k
        (58 :: ((if fmt then [9] else []) ++ (printValue env fmt d v ++
          (44 :: ((if fmt then [10] else []) ++ printMembers env fmt d (m' :: r') ++ wc ++ 125 :: rest)))))
      rw [printMembers]
      simp only [List.isEmpty_cons, Bool.false_eq_true, if_false, List.append_assoc, List.cons_append, List.nil_append]
      simp only [List.append_assoc] at hV hS hM
      rw [members, ws_append _ _ hw, ws_append _ _ (isRwsL_ite fmt _ (isRwsL_tabs d))]
      have hq : ∃ tlq, printString k = 34 :: tlq := ⟨_, rfl⟩
      obtain ⟨tlq, hq⟩ := hq
      rw [hq, List.cons_append, ws_cons_gt 34 _ (by decide), ← List.cons_append, ← hq, hS]
      simp only [ws_cons_gt 58 _ (by decide : (32 : UInt8) < 58)]
      rw [ws_append _ _ (isRwsL_ite fmt _ isRwsL_tab)]
      rw [hd, List.cons_append, ws_start _ hc, ← List.cons_append, ← hd, hV]
      simp [ws_cons_gt 44 _ (by decide), hM]
end

/-- the printed text of an int-only tree (any depth) is `ws value ws` of RFC 8259 -/
theorem accepts_printText (env : NumEnv) (fmt : Bool) (t : JVal) (h : IntTree t) :
    accepts (printText env fmt t) = true := by
  unfold accepts printText
  obtain ⟨c, tl, hp, hc⟩ := printValue_head env fmt 0 t h
  have hcost := cost_le_value env t fmt 0 h
  have hrt := rfc_value env t fmt 0 (2 * (printValue env fmt 0 t).length + 2) [] h (by omega) okRest_nil
  simp only [List.append_nil] at hrt
  simp only [hp, ws_start tl hc]
  rw [hp] at hrt
  simp only [List.length_cons] at hrt ⊢
  rw [hrt]
  rfl

end AwsVerif.Proofs.C11.Rfc
