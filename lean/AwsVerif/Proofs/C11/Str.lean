import AwsVerif.Model.Json
/-! C11 helper lemmas: print_string_ptr / parse_string round trip. -/
namespace AwsVerif.Proofs.C11
open AwsVerif.Json

theorem cstr_of_noNul : ∀ (s : Bytes), noNul s → cstr s = s
  | [], _ => rfl
  | c :: r, h => by
    have hc : c ≠ 0 := h c (by simp)
    have hr : noNul r := fun x hx => h x (by simp [hx])
    simp [cstr, hc, cstr_of_noNul r hr]

theorem hexLower_ne : ∀ n, n < 16 → hexLower n ≠ 34 ∧ hexLower n ≠ 92 := by decide

theorem parseHex4_hexLower : ∀ n, n < 32 →
    parseHex4 48 48 (hexLower (n / 16)) (hexLower (n % 16)) = n := by decide

theorem utf8Encode_small : ∀ n, n < 32 → utf8Encode n = some [UInt8.ofNat n] := by decide

theorem scanBody_cons_plain (c : UInt8) (t : Bytes) (h1 : c ≠ 34) (h2 : c ≠ 92) :
    scanBody (c :: t) = (scanBody t).map fun p => (c :: p.1, p.2) := by
  rw [scanBody.eq_def]; simp [h1, h2]

theorem scanBody_esc (e : UInt8) (t : Bytes) :
    scanBody (92 :: e :: t) = (scanBody t).map fun p => (92 :: e :: p.1, p.2) := by
  simp [scanBody]

theorem toNat_lt_of_lt {c : UInt8} (h : c < 32) : c.toNat < 32 := by
  simpa [UInt8.lt_iff_toNat_lt] using h

/-- every escape image is skipped as a unit by the closing-quote scan -/
theorem scanBody_escapeByte (c : UInt8) (t : Bytes) :
    scanBody (escapeByte c ++ t) = (scanBody t).map fun p => (escapeByte c ++ p.1, p.2) := by
  unfold escapeByte
  split
  · simp [scanBody_esc]
  split
  · simp [scanBody_esc]
  split
  · simp [scanBody_esc]
  split
  · simp [scanBody_esc]
  split
  · simp [scanBody_esc]
  split
  · simp [scanBody_esc]
  split
  · simp [scanBody_esc]
  split
  · rename_i h
    have hn := toNat_lt_of_lt h
    have h1 := hexLower_ne (c.toNat / 16) (by omega)
    have h2 := hexLower_ne (c.toNat % 16) (by omega)
    simp only [List.cons_append, List.nil_append, scanBody_esc]
    rw [scanBody_cons_plain 48 _ (by decide) (by decide), scanBody_cons_plain 48 _ (by decide) (by decide),
      scanBody_cons_plain _ _ h1.1 h1.2, scanBody_cons_plain _ _ h2.1 h2.2]
    cases scanBody t <;> simp
  · rename_i h1 h2 _ _ _ _ _ _
    simp only [List.cons_append, List.nil_append]
    rw [scanBody_cons_plain c t h1 h2]

theorem scanBody_escape : ∀ (s rest : Bytes), scanBody (escape s ++ 34 :: rest) = some (escape s, rest)
  | [], rest => by rw [escape, scanBody.eq_def]; simp
  | c :: r, rest => by
    simp only [escape, List.append_assoc]
    rw [scanBody_escapeByte, scanBody_escape r rest]
    simp

theorem decodeBody_plain (c : UInt8) (t : Bytes) (h : c ≠ 92) :
    decodeBody (c :: t) = (decodeBody t).map (c :: ·) := by
  rw [decodeBody.eq_def]; simp [h]

theorem decodeBody_u00 (n : Nat) (hn : n < 32) (t : Bytes) :
    decodeBody (92 :: 117 :: 48 :: 48 :: hexLower (n / 16) :: hexLower (n % 16) :: t)
      = (decodeBody t).map (UInt8.ofNat n :: ·) := by
  rw [decodeBody.eq_def]
  simp only [parseHex4_hexLower n hn, utf8Encode_small n hn]
  have h1 : ¬ (0xDC00 ≤ n ∧ n ≤ 0xDFFF) := by omega
  have h2 : ¬ (0xD800 ≤ n ∧ n ≤ 0xDBFF) := by omega
  simp [h1, h2]
  cases decodeBody t <;> simp

/-- the un-escaper inverts every entry of the escape table -/
theorem decodeBody_escapeByte (c : UInt8) (t : Bytes) :
    decodeBody (escapeByte c ++ t) = (decodeBody t).map (c :: ·) := by
  unfold escapeByte
  split
  · subst_vars; rw [decodeBody.eq_def]; simp
  split
  · subst_vars; rw [decodeBody.eq_def]; simp
  split
  · subst_vars; rw [decodeBody.eq_def]; simp
  split
  · subst_vars; rw [decodeBody.eq_def]; simp
  split
  · subst_vars; rw [decodeBody.eq_def]; simp
  split
  · subst_vars; rw [decodeBody.eq_def]; simp
  split
  · subst_vars; rw [decodeBody.eq_def]; simp
  split
  · rename_i h
    have hn := toNat_lt_of_lt h
    simp only [List.cons_append, List.nil_append]
    rw [decodeBody_u00 c.toNat hn]
    simp
  · rename_i h1 h2 _ _ _ _ _ _
    simp only [List.cons_append, List.nil_append]
    rw [decodeBody_plain c t h2]

theorem decodeBody_escape : ∀ (s : Bytes), decodeBody (escape s) = some s
  | [] => by rw [escape, decodeBody.eq_def]
  | c :: r => by
    rw [escape, decodeBody_escapeByte, decodeBody_escape r]
    simp

/-- `parse_string (print_string s) = s`, with any text following the closing quote left over -/
theorem parseString_printString (s rest : Bytes) (h : noNul s) :
    parseString (printString s ++ rest) = some (s, rest) := by
  simp only [printString, List.cons_append, List.append_assoc, List.nil_append, parseString]
  simp [scanBody_escape, decodeBody_escape, cstr_of_noNul s h]

end AwsVerif.Proofs.C11
