import AwsVerif.Model.Json
/-! C11: object / array access layer of json.c. -/
namespace AwsVerif.Proofs.C11
open AwsVerif.Json

theorem keyEqCI_refl (k : Bytes) : keyEq false k k = true := by simp [keyEq, keyEqCI]

theorem findMember_append_new (k : Bytes) (v : JVal) : ∀ (ms : List (Bytes × JVal)),
    findMember false k ms = none → findMember false k (ms ++ [(k, v)]) = some (k, v)
  | [], _ => by simp [findMember, keyEqCI_refl]
  | m :: r, h => by
    simp only [findMember] at h
    by_cases hm : keyEq false k m.1 = true
    · simp [hm] at h
    · simp only [hm, Bool.false_eq_true, if_false] at h
      simp [findMember, hm, findMember_append_new k v r h]

theorem eraseMember_append_new (k : Bytes) (v : JVal) : ∀ (ms : List (Bytes × JVal)),
    findMember false k ms = none → eraseMember false k (ms ++ [(k, v)]) = ms
  | [], _ => by simp [eraseMember, keyEqCI_refl]
  | m :: r, h => by
    simp only [findMember] at h
    by_cases hm : keyEq false k m.1 = true
    · simp [hm] at h
    · simp only [hm, Bool.false_eq_true, if_false] at h
      simp [eraseMember, hm, eraseMember_append_new k v r h]

/-- a key equal to `k` up to ASCII case finds whatever `k` finds -/
theorem findMember_congr (k k' : Bytes) (hk : keyEq false k' k = true) : ∀ (ms : List (Bytes × JVal)),
    (findMember false k' ms).isSome = (findMember false k ms).isSome
  | [] => rfl
  | m :: r => by
    have : keyEq false k' m.1 = keyEq false k m.1 := by
      simp only [keyEq, keyEqCI, Bool.false_eq_true, if_false, beq_iff_eq] at hk ⊢
      rw [hk]
    simp only [findMember, this]
    split
    · rfl
    · exact findMember_congr k k' hk r

theorem hasMember_false_iff (k : Bytes) (ms : List (Bytes × JVal)) :
    hasMember k ms = false ↔ findMember false k ms = none := by
  simp [hasMember]

theorem getElem?_append_new (xs : List JVal) (v : JVal) : (xs ++ [v])[xs.length]? = some v := by
  simp

end AwsVerif.Proofs.C11
