import AwsVerif.Model.Json
/-! C11: object / array access layer of json.c. -/
namespace AwsVerif.Proofs.C11
open AwsVerif.Json

theorem keyEqCI_refl (k : Bytes) : keyEq false k k = true := by simp [keyEq, keyEqCI]

theorem findMember_append_new (k : Bytes) (v : JVal) : ∀ (ms : List (Bytes × JVal)),
    findMember false k ms = none → findMember false k (ms ++ [(k, v)]) = some (k, v)
  | [], _ => by simp [findMember, keyEqCI_refl]
  | m :: r, h => by
    simp only [findMember] at h
    by_cases hm : keyEq false k m.1 = true
    · simp [hm] at h
    · simp only [hm, Bool.false_eq_true, if_false] at h
      simp [findMember, hm, findMember_append_new k v r h]

theorem eraseMember_append_new (k : Bytes) (v : JVal) : ∀ (ms : List (Bytes × JVal)),
    findMember false k ms = none → eraseMember false k (ms ++ [(k, v)]) = ms
  | [], _ => by simp [eraseMember, keyEqCI_refl]
  | m :: r, h => by
    simp only [findMember] at h
    by_cases hm : keyEq false k m.1 = true
    · simp [hm] at h
    · simp only [hm, Bool.false_eq_true, if_false] at h
      simp [eraseMember, hm, eraseMember_append_new k v r h]

/-- a key equal to `k` up to ASCII case finds whatever `k` finds -/
theorem findMember_congr (k k' : Bytes) (hk : keyEq false k' k = true) : ∀ (ms : List (Bytes × JVal)),
    (findMember false k' ms).isSome = (findMember false k ms).isSome
  | [] => rfl
  | m :: r => by
    have : keyEq false k' m.1 = keyEq false k m.1 := by
      simp only [keyEq, keyEqCI, Bool.false_eq_true, if_false, beq_iff_eq] at hk ⊢
      rw [hk]
    simp only [findMember, this]
    split
    · rfl
    · exact findMember_congr k k' hk r

theorem hasMember_false_iff (k : Bytes) (ms : List (Bytes × JVal)) :
    hasMember k ms = false ↔ findMember false k ms = none := by
  simp [hasMember]

theorem getElem?_append_new (xs : List JVal) (v : JVal) : (xs ++ [v])[xs.length]? = some v := by
  simp

theorem findMember_setMember (k : Bytes) (v' : JVal) : ∀ (ms : List (Bytes × JVal)) (m : Bytes × JVal),
    findMember false k ms = some m → findMember false k (setMember k v' ms) = some (m.1, v')
  | [], _, h => by simp [findMember] at h
  | a :: r, m, h => by
    simp only [findMember] at h
    by_cases hk : keyEq false k a.1 = true
    · simp only [hk, if_true, Option.some.injEq] at h
      subst h
      simp [setMember, findMember, hk]
    · simp only [hk, Bool.false_eq_true, if_false] at h
      simp [setMember, findMember, hk, findMember_setMember k v' r m h]

/-- an operation through a borrowed pointer is seen through the same pointer afterwards -/
theorem getAt_setAt (v' : JVal) : ∀ (p : List Step) (t c : JVal), getAt t p = .ok c → getAt (setAt t p v') p = .ok v'
  | [], _, _, _ => by simp [setAt, getAt]
  | s :: r, t, c, h => by
    simp only [getAt] at h
    cases hs : getStep t s with
    | error e => simp [hs] at h
    | ok c1 =>
      simp only [hs] at h
      have ih := getAt_setAt v' r c1 c h
      cases s with
      | key k =>
        cases t with
        | obj ms =>
          simp only [getStep, getFromObject] at hs
          cases hf : findMember false k ms with
          | none => simp [hf] at hs
          | some m =>
            simp only [hf, Except.ok.injEq] at hs
            have := findMember_setMember k (setAt c1 r v') ms m hf
            simp [setAt, getAt, getStep, getFromObject, hf, hs, this, ih]
        | null => simp [getStep, getFromObject] at hs
        | bool b => simp [getStep, getFromObject] at hs
        | num n => simp [getStep, getFromObject] at hs
        | str x => simp [getStep, getFromObject] at hs
        | arr xs => simp [getStep, getFromObject] at hs
      | idx i =>
        cases t with
        | arr xs =>
          simp only [getStep, getArrayElement] at hs
          by_cases hi : i ≥ xs.length
          · simp [hi] at hs
          · have hlt : i < xs.length := by omega
            simp only [hi, if_false, List.getElem?_eq_getElem hlt, Except.ok.injEq] at hs
            simp [setAt, getAt, getStep, getArrayElement, hi, hlt, hs, ih]
        | null => simp [getStep, getArrayElement] at hs
        | bool b => simp [getStep, getArrayElement] at hs
        | num n => simp [getStep, getArrayElement] at hs
        | str x => simp [getStep, getArrayElement] at hs
        | obj ms => simp [getStep, getArrayElement] at hs

theorem iterateFrom_all {α : Type} : ∀ (xs : List α) (i : Nat), iterateFrom none none i xs = (xs, true)
  | [], _ => rfl
  | x :: r, i => by simp [iterateFrom, iterateFrom_all r (i + 1)]

theorem iterateFrom_stop {α : Type} (fail : Option Nat) : ∀ (xs : List α) (i k : Nat), k < xs.length →
    (∀ j, fail = some j → j < i ∨ i + k < j) →
    iterateFrom (some (i + k)) fail i xs = (xs.take (k + 1), true)
  | [], _, _, h, _ => by simp at h
  | x :: r, i, 0, _, hf => by
    have : fail ≠ some i := by
      intro e; rcases hf i e with h | h <;> omega
    simp [iterateFrom, this]
  | x :: r, i, k + 1, h, hf => by
    have h1 : fail ≠ some i := by
      intro e; rcases hf i e with h | h <;> omega
    have h2 : ¬ (i + 1 + k = i) := by omega
    have ih := iterateFrom_stop fail r (i + 1) k (by simpa using h) (by
      intro j e; rcases hf j e with h | h
      · left; omega
      · right; omega)
    have e : i + (k + 1) = i + 1 + k := by omega
    simp [iterateFrom, h1, h2, e, ih]

theorem iterateFrom_fail {α : Type} (stop : Option Nat) : ∀ (xs : List α) (i k : Nat), k < xs.length →
    (∀ j, stop = some j → j < i ∨ i + k ≤ j) →
    iterateFrom stop (some (i + k)) i xs = (xs.take (k + 1), false)
  | [], _, _, h, _ => by simp at h
  | x :: r, i, 0, _, _ => by simp [iterateFrom]
  | x :: r, i, k + 1, h, hs => by
    have h1 : stop ≠ some i := by
      intro e; rcases hs i e with h | h <;> omega
    have h2 : ¬ (i + 1 + k = i) := by omega
    have ih := iterateFrom_fail stop r (i + 1) k (by simpa using h) (by
      intro j e; rcases hs j e with h | h
      · left; omega
      · right; omega)
    have e : i + (k + 1) = i + 1 + k := by omega
    simp [iterateFrom, h1, h2, e, ih]

end AwsVerif.Proofs.C11
