import AwsVerif.Model.Codec
import AwsVerif.Model.CodecSpec
/-! C05: facts about the generated tables, each by `decide` over the *whole* table (a finite table,
fully enumerated, is a proof), and the bit-level identities of the block formulas.
An edited table entry in `/repo/source/encoding.c` changes `Gen/CodecTables.lean` and breaks a
named theorem here. `decide +kernel` = evaluation by the Lean kernel only (no compiler, no axiom). -/
namespace AwsVerif.Proofs.C05
open AwsVerif.Codec AwsVerif.CodecSpec AwsVerif.Gen.CodecTables

/-- the encoding table is the RFC 4648 alphabet -/
theorem encTable_is_alphabet : ∀ i, i < 64 → encChar i = ch i := by decide +kernel

/-- decoding table ∘ alphabet = id on 0..63 -/
theorem decTable_alphabet : ∀ i, i < 64 → tbl base64DecodingTable (ch i).toNat = i := by decide +kernel

/-- every entry of the decoding table is 0xDD (invalid), the sentinel, or the index of that very
character in the alphabet: exactly the 64 alphabet bytes and '=' are not 0xDD -/
theorem decTable_cases : ∀ c, c < 256 →
    (tbl base64DecodingTable c = 0xDD ∨ tbl base64DecodingTable c = 255 ∨
      (tbl base64DecodingTable c < 64 ∧ ch (tbl base64DecodingTable c) = UInt8.ofNat c)) := by decide +kernel

/-- the sentinel entry is at '=' and only there (the character `aws_base64_compute_decoded_len`
and the encoder's padding stores use) -/
theorem decTable_sentinel : ∀ c, c < 256 → (tbl base64DecodingTable c = 255 ↔ c = 61) := by decide +kernel

theorem sentinel_eq : sentinel = 255 := by decide +kernel

/-- no alphabet character is '=' -/
theorem ch_ne_pad : ∀ i, i < 64 → ch i ≠ 61 := by decide +kernel

theorem hexChars_are_digits : ∀ i, i < 16 → hexChar i = hexDigit i := by decide +kernel

/-- `s_hex_decode_char_to_int` is the base16 digit value, either case, and rejects everything else -/
theorem hexVal_is_spec : ∀ c, c < 256 → hexVal (UInt8.ofNat c) = specHexVal (UInt8.ofNat c) := by decide +kernel

theorem specHexVal_digit : ∀ i, i < 16 → specHexVal (hexDigit i) = some i := by decide +kernel

theorem specHexVal_lt : ∀ c, c < 256 → ∀ v, specHexVal (UInt8.ofNat c) = some v → v < 16 := by decide +kernel

/-! bit-level identities (all operands of the 6-bit / 4-bit domains enumerated) -/

theorem dec0_val : ∀ v1, v1 < 64 → ∀ v2, v2 < 64 → (dec0 v1 v2).toNat = v1 * 4 + v2 / 16 := by decide +kernel
theorem dec1_val : ∀ v2, v2 < 64 → ∀ v3, v3 < 64 → (dec1 v2 v3).toNat = v2 % 16 * 16 + v3 / 4 := by decide +kernel
theorem dec2_val : ∀ v3, v3 < 64 → ∀ v4, v4 < 64 → (dec2 v3 v4).toNat = v3 % 4 * 64 + v4 := by decide +kernel

theorem hexPair_val : ∀ h, h < 16 → ∀ l, l < 16 →
    UInt8.ofNat ((((h <<< 4) % 256) ||| l) % 256) = UInt8.ofNat (h * 16 + l) := by decide +kernel

theorem nibbles : ∀ b, b < 256 → ((b >>> 4) &&& 0x0f = b / 16 ∧ b &&& 0x0f = b % 16) := by decide +kernel

end AwsVerif.Proofs.C05
