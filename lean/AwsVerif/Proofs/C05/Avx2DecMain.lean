import AwsVerif.Proofs.C05.Avx2Dec
set_option linter.unusedSimpArgs false
namespace AwsVerif.Proofs.C05
open AwsVerif.Codec AwsVerif.CodecSpec AwsVerif.CodecAvx2 AwsVerif.Gen.CodecAvx2Consts

theorem strictVals_append : ∀ (a b : List UInt8), strictVals (a ++ b) =
    match strictVals a, strictVals b with
    | some x, some y => some (x ++ y)
    | _, _ => none
  | [], b => by cases h : strictVals b <;> simp [strictVals, h]
  | c :: a, b => by
    simp only [List.cons_append, strictVals, strictVals_append a b]
    cases decVal c false <;> cases strictVals a <;> cases strictVals b <;> simp

theorem quadBytes_append : ∀ (xs ys : List Nat), xs.length % 4 = 0 → quadBytes (xs ++ ys) = quadBytes xs ++ quadBytes ys
  | [], ys, _ => by simp [quadBytes]
  | [_], _, h | [_, _], _, h | [_, _, _], _, h => by simp at h
  | a :: b :: c :: e :: xs, ys, h => by
    have h' : xs.length % 4 = 0 := by simp only [List.length_cons] at h; omega
    simp [quadBytes, quadBytes_append xs ys h']

theorem quadBytes_length : ∀ (xs : List Nat), xs.length % 4 = 0 → (quadBytes xs).length = xs.length / 4 * 3
  | [], _ => by simp [quadBytes]
  | [_], h | [_, _], h | [_, _, _], h => by simp at h
  | a :: b :: c :: e :: xs, h => by
    have h' : xs.length % 4 = 0 := by simp only [List.length_cons] at h; omega
    simp only [quadBytes, List.length_cons, quadBytes_length xs h']
    omega

theorem dec_ofNat (v1 v2 v3 v4 : Nat) (l1 : v1 < 64) (l2 : v2 < 64) (l3 : v3 < 64) (l4 : v4 < 64) :
    dec0 v1 v2 = UInt8.ofNat (v1 * 4 + v2 / 16) ∧ dec1 v2 v3 = UInt8.ofNat (v2 % 16 * 16 + v3 / 4) ∧
    dec2 v3 v4 = UInt8.ofNat (v3 % 4 * 64 + v4) := by
  refine ⟨?_, ?_, ?_⟩
  · rw [← dec0_val v1 l1 v2 l2, UInt8.ofNat_toNat]
  · rw [← dec1_val v2 l2 v3 l3, UInt8.ofNat_toNat]
  · rw [← dec2_val v3 l3 v4 l4, UInt8.ofNat_toNat]

/-- the body loop of the portable decoder over a strict prefix -/
theorem decBlocks_prefix : ∀ (pre rest : List UInt8), pre.length % 4 = 0 → rest ≠ [] →
    (decBlocks (pre ++ rest)).ok = (match strictVals pre with | some _ => (decBlocks rest).ok | none => false) ∧
    (∀ vs, strictVals pre = some vs →
      (decBlocks (pre ++ rest)).wr = (quadBytes vs).map UInt8.ofNat ++ (decBlocks rest).wr)
  | [], rest, _, _ => by simp [strictVals, quadBytes]
  | [_], _, h, _ | [_, _], _, h, _ | [_, _, _], _, h, _ => by simp at h
  | c1 :: c2 :: c3 :: c4 :: pre, rest, h, hr => by
    have h' : pre.length % 4 = 0 := by simp only [List.length_cons] at h; omega
    obtain ⟨ih1, ih2⟩ := decBlocks_prefix pre rest h' hr
    have hne : (pre ++ rest).isEmpty = false := by
      cases pre <;> cases rest <;> simp_all
    simp only [List.cons_append, decBlocks, hne, Bool.false_eq_true, if_false, strictVals]
    cases h1 : decVal c1 false with
    | none => simp
    | some v1 =>
      cases h2 : decVal c2 false with
      | none => simp
      | some v2 =>
        cases h3 : decVal c3 false with
        | none => simp
        | some v3 =>
          cases h4 : decVal c4 false with
          | none => simp
          | some v4 =>
            obtain ⟨d0, d1, d2⟩ := dec_ofNat v1 v2 v3 v4 (decVal_strict h1).1 (decVal_strict h2).1 (decVal_strict h3).1
              (decVal_strict h4).1
            cases hs : strictVals pre with
            | none => simp [hs] at ih1 ⊢; exact ih1
            | some vs =>
              simp only [hs] at ih1 ⊢
              refine ⟨ih1, ?_⟩
              intro vs' hvs'
              simp only [Option.some.injEq] at hvs'
              subst hvs'
              simp [quadBytes, ih2 vs hs, d0, d1, d2]

/-! ### the bounce-buffer tail -/

theorem decStripMax_eq : decStripMax = 2 := by decide
theorem decPad_eq : decPad = 61 := by decide
theorem decPadRepl_eq : decPadRepl = 65 := by decide
theorem decFill_eq : decFill = 65 := by decide
theorem decLoopMin_eq : decLoopMin = 33 := by decide

theorem getD_mid (pre x fill : List Nat) (i : Nat) (hi : i < x.length) :
    (pre ++ x ++ fill).getD (pre.length + i) 0 = x.getD i 0 := by
  simp [List.getD_eq_getElem?_getD, List.append_assoc, List.getElem?_append_right, List.getElem?_append_left hi]

theorem set_mid (pre x fill : List Nat) (i v : Nat) (hi : i < x.length) :
    (pre ++ x ++ fill).set (pre.length + i) v = pre ++ x.set i v ++ fill := by
  rw [List.append_assoc, List.set_append_right _ _ (by omega), Nat.add_sub_cancel_left, List.set_append_left _ _ hi,
    List.append_assoc]

theorem strip_none (pre fill : List Nat) (n1 n2 n3 n4 fo : Nat) (h4 : n4 ≠ 61) :
    stripPad decStripMax (pre ++ [n1, n2, n3, n4] ++ fill, pre.length + 4, fo) =
      (pre ++ [n1, n2, n3, n4] ++ fill, pre.length + 4, fo) := by
  have g : (pre ++ [n1, n2, n3, n4] ++ fill).getD (pre.length + 4 - 1) 0 = n4 := by
    rw [show pre.length + 4 - 1 = pre.length + 3 by omega, getD_mid _ _ _ 3 (by simp)]; rfl
  have b : (n4 == 61) = false := by simp [h4]
  simp [decStripMax_eq, stripPad, decPad_eq, g, b]

theorem strip_one (pre fill : List Nat) (n1 n2 n3 fo : Nat) (h3 : n3 ≠ 61) :
    stripPad decStripMax (pre ++ [n1, n2, n3, 61] ++ fill, pre.length + 4, fo) =
      (pre ++ [n1, n2, n3, 65] ++ fill, pre.length + 3, fo - 1) := by
  have g : (pre ++ [n1, n2, n3, 61] ++ fill).getD (pre.length + 4 - 1) 0 = 61 := by
    rw [show pre.length + 4 - 1 = pre.length + 3 by omega, getD_mid _ _ _ 3 (by simp)]; rfl
  have s1 : (pre ++ [n1, n2, n3, 61] ++ fill).set (pre.length + 4 - 1) 65 = pre ++ [n1, n2, n3, 65] ++ fill := by
    rw [show pre.length + 4 - 1 = pre.length + 3 by omega, set_mid _ _ _ 3 65 (by simp)]; rfl
  have g2 : (pre ++ [n1, n2, n3, 65] ++ fill).getD (pre.length + 4 - 1 - 1) 0 = n3 := by
    rw [show pre.length + 4 - 1 - 1 = pre.length + 2 by omega, getD_mid _ _ _ 2 (by simp)]; rfl
  have b : (n3 == 61) = false := by simp [h3]
  simp [decStripMax_eq, stripPad, decPad_eq, decPadRepl_eq, g, s1, g2, b]

theorem strip_two (pre fill : List Nat) (n1 n2 fo : Nat) :
    stripPad decStripMax (pre ++ [n1, n2, 61, 61] ++ fill, pre.length + 4, fo) =
      (pre ++ [n1, n2, 65, 65] ++ fill, pre.length + 2, fo - 1 - 1) := by
  have g : (pre ++ [n1, n2, 61, 61] ++ fill).getD (pre.length + 4 - 1) 0 = 61 := by
    rw [show pre.length + 4 - 1 = pre.length + 3 by omega, getD_mid _ _ _ 3 (by simp)]; rfl
  have s1 : (pre ++ [n1, n2, 61, 61] ++ fill).set (pre.length + 4 - 1) 65 = pre ++ [n1, n2, 61, 65] ++ fill := by
    rw [show pre.length + 4 - 1 = pre.length + 3 by omega, set_mid _ _ _ 3 65 (by simp)]; rfl
  have g2 : (pre ++ [n1, n2, 61, 65] ++ fill).getD (pre.length + 4 - 1 - 1) 0 = 61 := by
    rw [show pre.length + 4 - 1 - 1 = pre.length + 2 by omega, getD_mid _ _ _ 2 (by simp)]; rfl
  have s2 : (pre ++ [n1, n2, 61, 65] ++ fill).set (pre.length + 4 - 1 - 1) 65 = pre ++ [n1, n2, 65, 65] ++ fill := by
    rw [show pre.length + 4 - 1 - 1 = pre.length + 2 by omega, set_mid _ _ _ 2 65 (by simp)]; rfl
  simp [decStripMax_eq, stripPad, decPad_eq, decPadRepl_eq, g, s1, g2, s2]


theorem decVal_A : decVal 65 false = some 0 := by decide +kernel
/-- for every byte but '=' the final quantum's lenient lookup equals the strict one -/
theorem decVal_true_eq : ∀ c, c < 256 → c ≠ 61 → decVal (UInt8.ofNat c) true = decVal (UInt8.ofNat c) false := by decide +kernel

theorem decVal_true_of_ne (c : UInt8) (h : c ≠ 61) : decVal c true = decVal c false := by
  have := decVal_true_eq c.toNat c.toNat_lt (by intro e; apply h; exact UInt8.toNat_inj.mp (by simpa using e))
  rwa [UInt8.ofNat_toNat] at this

theorem strictVals_fill : ∀ m : Nat, strictVals (List.replicate m 65) = some (List.replicate m 0)
  | 0 => rfl
  | m + 1 => by simp [List.replicate_succ, strictVals, decVal_A, strictVals_fill m]

theorem quadBytes_zeros : ∀ k : Nat, quadBytes (List.replicate (4 * k) 0) = List.replicate (3 * k) 0
  | 0 => rfl
  | k + 1 => by
    have e : 4 * (k + 1) = 4 * k + 1 + 1 + 1 + 1 := by omega
    have e3 : 3 * (k + 1) = 3 * k + 1 + 1 + 1 := by omega
    rw [e, e3]
    simp only [List.replicate_succ, quadBytes, quadBytes_zeros k]

/-- the 24 bytes `decode` produces for the bounce buffer `pre ++ [c1,c2,c3,c4] ++ "AAAA…"` -/
theorem decode32_tail (pre : List UInt8) (c1 c2 c3 c4 : UInt8) (hp : pre.length % 4 = 0) (hl : pre.length ≤ 28) :
    decode32 (pre.map (·.toNat) ++ [c1.toNat, c2.toNat, c3.toNat, c4.toNat] ++ List.replicate (32 - (pre.length + 4)) 65) =
      match strictVals pre, strictVals [c1, c2, c3, c4] with
      | some vs, some q => some (quadBytes vs ++ quadBytes q ++ List.replicate (3 * ((28 - pre.length) / 4)) 0)
      | _, _ => none := by
  have e : pre.map (·.toNat) ++ [c1.toNat, c2.toNat, c3.toNat, c4.toNat] ++ List.replicate (32 - (pre.length + 4)) 65 =
      (pre ++ [c1, c2, c3, c4] ++ List.replicate (28 - pre.length) (65 : UInt8)).map (·.toNat) := by
    simp only [List.map_append, List.map_cons, List.map_nil, List.map_replicate]
    have : 32 - (pre.length + 4) = 28 - pre.length := by omega
    rw [this]; rfl
  rw [e, decode32_eq _ (by simp; omega), strictVals_append, strictVals_append, strictVals_fill]
  cases h1 : strictVals pre with
  | none => simp
  | some vs =>
    cases h2 : strictVals [c1, c2, c3, c4] with
    | none => simp
    | some q =>
      obtain ⟨_, lv⟩ := strictVals_lt pre vs h1
      obtain ⟨_, lq⟩ := strictVals_lt _ q h2
      simp only [Option.map_some]
      have hk : 28 - pre.length = 4 * ((28 - pre.length) / 4) := by omega
      rw [quadBytes_append _ _ (by rw [List.length_append, lv, lq]; simp; omega), quadBytes_append _ _ (by rw [lv]; exact hp)]
      congr 2
      rw [hk, quadBytes_zeros]
      congr 1
      omega


theorem strictVals4 (c1 c2 c3 c4 : UInt8) :
    strictVals [c1, c2, c3, c4] =
      match decVal c1 false, decVal c2 false, decVal c3 false, decVal c4 false with
      | some v1, some v2, some v3, some v4 => some [v1, v2, v3, v4]
      | _, _, _, _ => none := by
  simp only [strictVals]
  cases decVal c1 false <;> cases decVal c2 false <;> cases decVal c3 false <;> cases decVal c4 false <;> rfl

theorem all_zero_append_zeros (Q : List Nat) (m : Nat) :
    (Q ++ List.replicate m 0).all (· == 0) = Q.all (· == 0) := by
  simp [List.all_append]

theorem u8_61 {c : UInt8} (h : c = 61) : c.toNat = 61 := by subst h; rfl
theorem u8_ne61 {c : UInt8} (h : c ≠ 61) : c.toNat ≠ 61 := by
  intro e; apply h; exact UInt8.toNat_inj.mp (by simpa using e)

theorem tail_pick (A Q Z : List Nat) (j : Nat) (_hZ : Z.all (· == 0) = true) :
    (if ((A ++ (Q ++ Z)).drop (A.length + j)).all (· == 0) = true then some ((A ++ (Q ++ Z)).take (A.length + j)) else none) =
      if ((Q ++ Z).drop j).all (· == 0) = true then some (A ++ (Q ++ Z).take j) else none := by
  have e1 : (A ++ (Q ++ Z)).drop (A.length + j) = (Q ++ Z).drop j := by
    rw [List.drop_append, List.drop_eq_nil_of_le (by omega), Nat.add_sub_cancel_left, List.nil_append]
  have e2 : (A ++ (Q ++ Z)).take (A.length + j) = A ++ (Q ++ Z).take j := by
    rw [List.take_append, List.take_of_length_le (by omega), Nat.add_sub_cancel_left]
  rw [e1, e2]

theorem zeros_all (m : Nat) : (List.replicate m 0).all (· == 0) = true := by simp

/-- the bounce-buffer tail of the vector decoder = the final part of the portable decoder
(strict quanta, then the final quantum with its padding and trailing-bits rules) -/
theorem decodeTail_eq (pre : List UInt8) (c1 c2 c3 c4 : UInt8) (hp : pre.length % 4 = 0) (hl : pre.length ≤ 28) :
    (decodeTail ((pre ++ [c1, c2, c3, c4]).map (·.toNat))).isSome = (decBlocks (pre ++ [c1, c2, c3, c4])).ok ∧
    ∀ bs, decodeTail ((pre ++ [c1, c2, c3, c4]).map (·.toNat)) = some bs →
      bs.map UInt8.ofNat = (decBlocks (pre ++ [c1, c2, c3, c4])).wr := by
  obtain ⟨pk, pw⟩ := decBlocks_prefix pre [c1, c2, c3, c4] hp (by simp)
  have hfin : decBlocks [c1, c2, c3, c4] = decFinal c1 c2 c3 c4 := by simp [decBlocks]
  rw [hfin] at pk pw
  rw [pk]
  have hmap : (pre ++ [c1, c2, c3, c4]).map (·.toNat) = pre.map (·.toNat) ++ [c1.toNat, c2.toNat, c3.toNat, c4.toNat] := by simp
  have hlen : (pre.map (·.toNat) ++ [c1.toNat, c2.toNat, c3.toNat, c4.toNat]).length = (pre.map (·.toNat)).length + 4 := by simp
  have hfo : 3 * ((pre.map (·.toNat)).length + 4) / 4 = pre.length / 4 * 3 + 3 := by simp; omega
  have hpl : (pre.map (·.toNat)).length = pre.length := by simp
  unfold decodeTail
  rw [hmap]
  dsimp only
  simp only [hlen, decFill_eq, hfo]
  -- the strict prefix fails: both sides fail
  cases hs : strictVals pre with
  | none =>
    have dnone : ∀ x y : UInt8, decode32 (pre.map (·.toNat) ++ [c1.toNat, c2.toNat, x.toNat, y.toNat] ++
        List.replicate (32 - ((pre.map (·.toNat)).length + 4)) 65) = none := by
      intro x y; rw [hpl, decode32_tail pre c1 c2 x y hp hl, hs]
    by_cases e4 : c4 = 61
    · by_cases e3 : c3 = 61
      · subst e4; subst e3
        rw [show [c1.toNat, c2.toNat, (61 : UInt8).toNat, (61 : UInt8).toNat] = [c1.toNat, c2.toNat, 61, 61] from rfl, strip_two]
        have := dnone 65 65
        rw [show [c1.toNat, c2.toNat, (65 : UInt8).toNat, (65 : UInt8).toNat] = [c1.toNat, c2.toNat, 65, 65] from rfl] at this
        simp only [this]; simp
      · subst e4
        rw [show [c1.toNat, c2.toNat, c3.toNat, (61 : UInt8).toNat] = [c1.toNat, c2.toNat, c3.toNat, 61] from rfl,
          strip_one _ _ _ _ _ _ (u8_ne61 e3)]
        have := dnone c3 65
        rw [show [c1.toNat, c2.toNat, c3.toNat, (65 : UInt8).toNat] = [c1.toNat, c2.toNat, c3.toNat, 65] from rfl] at this
        simp only [this]; simp
    · rw [strip_none _ _ _ _ _ _ _ (u8_ne61 e4)]
      simp only [dnone c3 c4]; simp
  | some vs =>
  have hA : (quadBytes vs).length = pre.length / 4 * 3 := by
    rw [quadBytes_length _ (by rw [(strictVals_lt pre vs hs).2]; exact hp), (strictVals_lt pre vs hs).2]
  have pw' := pw vs hs
  simp only []
  by_cases e4 : c4 = 61
  · by_cases e3 : c3 = 61
    · -- "xx=="
      subst e4; subst e3
      rw [show [c1.toNat, c2.toNat, (61 : UInt8).toNat, (61 : UInt8).toNat] = [c1.toNat, c2.toNat, 61, 61] from rfl, strip_two]
      have := decode32_tail pre c1 c2 65 65 hp hl
      rw [show [c1.toNat, c2.toNat, (65 : UInt8).toNat, (65 : UInt8).toNat] = [c1.toNat, c2.toNat, 65, 65] from rfl, hs] at this
      simp only [hpl, this, strictVals4, decVal_A]
      unfold decFinal at pw' ⊢
      rw [decVal_pad_true] at pw' ⊢
      cases h1 : decVal c1 false with
      | none => simp
      | some v1 =>
        cases h2 : decVal c2 false with
        | none => simp
        | some v2 =>
          have l1 := (decVal_strict h1).1
          have l2 := (decVal_strict h2).1
          obtain ⟨d0, _, _⟩ := dec_ofNat v1 v2 0 0 l1 l2 (by omega) (by omega)
          rw [h1, h2] at pw'
          simp only [sentinel_eq, and15] at pw' ⊢
          have fo : pre.length / 4 * 3 + 3 - 1 - 1 = (quadBytes vs).length + 1 := by omega
          simp only [fo, List.append_assoc, tail_pick _ _ _ _ (zeros_all _), quadBytes]
          by_cases hz : v2 % 16 = 0
          · simp [hz, -UInt8.ofNat_add, -UInt8.ofNat_mul] at pw' ⊢
            rw [pw', ← d0]
          · have z : ¬ (v2 % 16 * 16 = 0) := by omega
            simp [hz, z]
    · -- "xxx="
      subst e4
      have n3 := u8_ne61 e3
      rw [show [c1.toNat, c2.toNat, c3.toNat, (61 : UInt8).toNat] = [c1.toNat, c2.toNat, c3.toNat, 61] from rfl,
        strip_one _ _ _ _ _ _ n3]
      have := decode32_tail pre c1 c2 c3 65 hp hl
      rw [show [c1.toNat, c2.toNat, c3.toNat, (65 : UInt8).toNat] = [c1.toNat, c2.toNat, c3.toNat, 65] from rfl, hs] at this
      simp only [hpl, this, strictVals4, decVal_A]
      unfold decFinal at pw' ⊢
      rw [decVal_pad_true, decVal_true_of_ne c3 e3] at pw' ⊢
      cases h1 : decVal c1 false with
      | none => simp
      | some v1 =>
        cases h2 : decVal c2 false with
        | none => simp
        | some v2 =>
          cases h3 : decVal c3 false with
          | none => simp
          | some v3 =>
            have l1 := (decVal_strict h1).1
            have l2 := (decVal_strict h2).1
            have l3 := (decVal_strict h3).1
            obtain ⟨d0, d1, _⟩ := dec_ofNat v1 v2 v3 0 l1 l2 l3 (by omega)
            rw [h1, h2, h3] at pw'
            simp only [sentinel_eq, and3] at pw' ⊢
            have fo : pre.length / 4 * 3 + 3 - 1 = (quadBytes vs).length + 2 := by omega
            simp only [fo, List.append_assoc, tail_pick _ _ _ _ (zeros_all _), quadBytes]
            have nb : (v3 == 255) = false := by simp; omega
            by_cases hz : v3 % 4 = 0
            · simp [hz, nb, -UInt8.ofNat_add, -UInt8.ofNat_mul] at pw' ⊢
              rw [pw', ← d0, ← d1]
            · have z : ¬ (v3 % 4 * 64 = 0) := by omega
              simp [hz, z, nb]
  · -- no padding stripped
    have n4 := u8_ne61 e4
    rw [strip_none _ _ _ _ _ _ _ n4]
    simp only [hpl, decode32_tail pre c1 c2 c3 c4 hp hl, hs, strictVals4]
    unfold decFinal at pw' ⊢
    rw [decVal_true_of_ne c4 e4] at pw' ⊢
    cases h1 : decVal c1 false with
    | none => simp
    | some v1 =>
      cases h2 : decVal c2 false with
      | none => simp
      | some v2 =>
        by_cases e3 : c3 = 61
        · subst e3
          rw [decVal_pad_false, decVal_pad_true]
          cases h4 : decVal c4 false with
          | none => simp
          | some v4 =>
            have l4 := (decVal_strict h4).1
            have nb : (v4 != 255) = true := by simp; omega
            simp [sentinel_eq, nb]
        · rw [decVal_true_of_ne c3 e3] at pw' ⊢
          cases h3 : decVal c3 false with
          | none => simp
          | some v3 =>
            cases h4 : decVal c4 false with
            | none => simp
            | some v4 =>
              have l1 := (decVal_strict h1).1
              have l2 := (decVal_strict h2).1
              have l3 := (decVal_strict h3).1
              have l4 := (decVal_strict h4).1
              obtain ⟨d0, d1, d2⟩ := dec_ofNat v1 v2 v3 v4 l1 l2 l3 l4
              rw [h1, h2, h3, h4] at pw'
              simp only [sentinel_eq] at pw' ⊢
              have fo : pre.length / 4 * 3 + 3 = (quadBytes vs).length + 3 := by omega
              simp only [fo, List.append_assoc, tail_pick _ _ _ _ (zeros_all _), quadBytes]
              have nb3 : (v3 == 255) = false := by simp; omega
              have nb4 : (v4 == 255) = false := by simp; omega
              have nb4' : (v4 != 255) = true := by simp; omega
              simp [nb3, nb4, nb4', -UInt8.ofNat_add, -UInt8.ofNat_mul] at pw' ⊢
              rw [pw', ← d0, ← d1, ← d2]


/-! ### main loop + tail = the portable block decoder -/

theorem split_last4 (t : List UInt8) (h4 : t.length % 4 = 0) (hne : t ≠ []) :
    ∃ pre c1 c2 c3 c4, t = pre ++ [c1, c2, c3, c4] ∧ pre.length % 4 = 0 ∧ pre.length + 4 = t.length := by
  have hpos : t.length ≥ 4 := by
    cases t with
    | nil => exact absurd rfl hne
    | cons _ _ => simp only [List.length_cons] at h4 ⊢; omega
  have hd : (t.drop (t.length - 4)).length = 3 + 1 := by simp; omega
  obtain ⟨c1, r1, e1, l1⟩ := list_len_succ hd
  obtain ⟨c2, r2, e2, l2⟩ := list_len_succ l1
  obtain ⟨c3, r3, e3, l3⟩ := list_len_succ l2
  obtain ⟨c4, r4, e4, l4⟩ := list_len_succ l3
  have : r4 = [] := List.length_eq_zero_iff.mp l4
  subst this; subst e4; subst e3; subst e2
  refine ⟨t.take (t.length - 4), c1, c2, c3, c4, ?_, ?_, ?_⟩
  · rw [← e1, List.take_append_drop]
  · simp; omega
  · simp; omega

theorem decodeLoop_eq : ∀ (fuel : Nat) (t : List UInt8), t.length % 4 = 0 → t ≠ [] → t.length < fuel →
    (decodeLoop fuel (t.map (·.toNat))).2 = (decBlocks t).ok ∧
    ((decBlocks t).ok = true → (decodeLoop fuel (t.map (·.toNat))).1.map UInt8.ofNat = (decBlocks t).wr)
  | 0, _, _, _, h => by omega
  | fuel + 1, t, h4, hne, hf => by
    unfold decodeLoop
    simp only [List.length_map, decLoopMin_eq]
    by_cases hbig : t.length ≥ 33
    · rw [if_pos hbig]
      have ht : t = t.take 32 ++ t.drop 32 := (List.take_append_drop 32 t).symm
      have hcl : (t.take 32).length = 32 := by simp; omega
      have hrl : (t.drop 32).length = t.length - 32 := by simp
      have hrne : t.drop 32 ≠ [] := by intro e; rw [e] at hrl; simp at hrl; omega
      obtain ⟨pk, pw⟩ := decBlocks_prefix (t.take 32) (t.drop 32) (by rw [hcl]) hrne
      rw [← ht] at pk pw
      obtain ⟨ih1, ih2⟩ := decodeLoop_eq fuel (t.drop 32) (by rw [hrl]; omega) hrne (by rw [hrl]; omega)
      rw [← List.map_take, ← List.map_drop, decode32_eq _ hcl, pk]
      cases hs : strictVals (t.take 32) with
      | none => simp
      | some vs =>
        simp only [Option.map_some]
        refine ⟨ih1, ?_⟩
        intro hok
        rw [pw vs hs, List.map_append, ih2 hok]
    · rw [if_neg hbig]
      have hpos : t.length > 0 := by cases t with | nil => exact absurd rfl hne | cons _ _ => simp
      rw [if_pos hpos]
      obtain ⟨pre, c1, c2, c3, c4, rfl, hp, hl⟩ := split_last4 t h4 hne
      obtain ⟨tk, tw⟩ := decodeTail_eq pre c1 c2 c3 c4 hp (by omega)
      cases hd : decodeTail ((pre ++ [c1, c2, c3, c4]).map (·.toNat)) with
      | none =>
        rw [hd] at tk; simp at tk ⊢
        exact ⟨tk, fun h => by rw [tk] at h; cases h⟩
      | some bs =>
        rw [hd] at tk
        simp only [Option.isSome_some] at tk
        exact ⟨tk, fun _ => tw bs hd⟩

/-- `aws_base64_decode` through the AVX2 path, against the portable path: same return code, same
`output->len`, stores from offset 0, and on success the same bytes -/
theorem base64DecodeAvx2_eq (t : List UInt8) (outLen cap : Nat) :
    (base64DecodeAvx2 t outLen cap).err = (base64Decode t outLen cap).err ∧
    (base64DecodeAvx2 t outLen cap).len = (base64Decode t outLen cap).len ∧
    (base64DecodeAvx2 t outLen cap).off = (base64Decode t outLen cap).off ∧
    ((base64Decode t outLen cap).err = none → (base64DecodeAvx2 t outLen cap).wr = (base64Decode t outLen cap).wr) := by
  unfold base64DecodeAvx2 base64Decode
  cases hd : computeDecodedLen t with
  | error e => simp [Out.fail]
  | ok dl =>
    dsimp only
    by_cases hc : cap < dl
    · rw [if_pos hc, if_pos hc]; simp [Out.fail]
    · rw [if_neg hc, if_neg hc]
      by_cases h0 : (t.length == 0) = true
      · have : t = [] := by simpa using h0
        subst this
        have : dl = 0 := by simp [computeDecodedLen] at hd; omega
        subst this
        simp [decodeSse41, decodeLoop, decLoopMin_eq]
      · rw [if_neg h0]
        have hne : t ≠ [] := by intro e; subst e; simp at h0
        obtain ⟨h4, _⟩ := computeDecodedLen_ok hd hne
        have hs : decodeSse41 (t.map (·.toNat)) = decodeLoop (t.length + 1) (t.map (·.toNat)) := by
          unfold decodeSse41
          simp [h4]
        rw [hs]
        obtain ⟨lk, lw⟩ := decodeLoop_eq (t.length + 1) t h4 hne (by omega)
        rw [lk]
        by_cases hk : (decBlocks t).ok = true
        · rw [if_pos hk, if_pos hk]
          have hw := lw hk
          have hsound := decBlocks_sound t (decBlocks t).wr (by rw [← hk])
          have hlen := computeDecodedLen_spec (decBlocks t).wr
          rw [hsound, hd] at hlen
          simp only [Except.ok.injEq] at hlen
          refine ⟨rfl, ?_, rfl, fun _ => hw⟩
          show (decodeLoop (t.length + 1) (t.map (·.toNat))).1.length = dl
          rw [hlen, ← hw, List.length_map]
        · rw [if_neg hk, if_neg hk]
          simp [Out.fail]

end AwsVerif.Proofs.C05
