import AwsVerif.Model.Codec
import AwsVerif.Model.CodecSpec
/-! C05: the UTF-8 decoder state carries everything between updates (fold-append law). -/
namespace AwsVerif.Proofs.C05
open AwsVerif.Codec AwsVerif.CodecSpec

/-- updating with `xs ++ ys` = updating with `xs` and, unless that failed, with `ys` from the
state reached; reported code points concatenate -/
theorem update_append : ∀ (xs ys : List UInt8) (d : Utf8),
    update d (xs ++ ys) =
      match update d xs with
      | (d', some e, cps) => (d', some e, cps)
      | (d', none, cps) => ((update d' ys).1, (update d' ys).2.1, cps ++ (update d' ys).2.2)
  | [], ys, d => by simp [update]
  | b :: xs, ys, d => by
    simp only [List.cons_append, update]
    rcases hb : updateByte d b with ⟨d1, e1, cp⟩
    cases e1 with
    | some e => simp
    | none =>
      dsimp only
      rw [update_append xs ys d1]
      rcases hx : update d1 xs with ⟨d2, e2, cps⟩
      cases e2 with
      | some e => simp
      | none => simp [List.append_assoc]

/-- the run over chunks, in terms of one update over their concatenation -/
theorem runChunks_flatten : ∀ (cs : List (List UInt8)) (d : Utf8),
    runChunks d cs =
      match update d cs.flatten with
      | (_, some e, cps) => (some e, cps)
      | (d', none, cps) => ((finalize d').2, cps)
  | [], d => by simp [runChunks, update]
  | c :: cs, d => by
    simp only [runChunks, List.flatten_cons]
    rw [update_append c cs.flatten d]
    rcases hc : update d c with ⟨d1, e1, cps⟩
    cases e1 with
    | some e => simp
    | none =>
      dsimp only
      rw [runChunks_flatten cs d1]
      rcases hx : update d1 cs.flatten with ⟨d2, e2, cps2⟩
      cases e2 <;> simp

/-- the decoder without callback runs the same state machine and reports nothing -/
theorem updateNoCb_eq : ∀ (bs : List UInt8) (d : Utf8), updateNoCb d bs = ((update d bs).1, (update d bs).2.1)
  | [], d => by simp [updateNoCb, update]
  | b :: rest, d => by
    simp only [updateNoCb, update]
    rcases hb : updateByte d b with ⟨d1, e1, cp⟩
    cases e1 with
    | some e => simp
    | none =>
      dsimp only
      rw [updateNoCb_eq rest d1]

theorem runChunksNoCb_eq : ∀ (cs : List (List UInt8)) (d : Utf8), runChunksNoCb d cs = (runChunks d cs).1
  | [], d => by simp [runChunksNoCb, runChunks]
  | c :: cs, d => by
    simp only [runChunksNoCb, runChunks, updateNoCb_eq c d]
    rcases hc : update d c with ⟨d1, e1, cps⟩
    cases e1 with
    | some e => simp
    | none =>
      dsimp only
      rw [runChunksNoCb_eq cs d1]

theorem decodeUtf8NoCb_eq (bs : List UInt8) : decodeUtf8NoCb bs = (decodeUtf8 bs).1 := by
  unfold decodeUtf8NoCb decodeUtf8
  rw [updateNoCb_eq]
  rcases hc : update Utf8.init bs with ⟨d1, e1, cps⟩
  cases e1 <;> simp

end AwsVerif.Proofs.C05
