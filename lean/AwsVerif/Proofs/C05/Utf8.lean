import AwsVerif.Model.Codec
import AwsVerif.Model.CodecSpec
/-! C05: the UTF-8 decoder state carries everything between updates (fold-append law). -/
namespace AwsVerif.Proofs.C05
open AwsVerif.Codec AwsVerif.CodecSpec

/-- updating with `xs ++ ys` = updating with `xs` and, unless that failed, with `ys` from the
state reached; reported code points concatenate -/
theorem update_append : ∀ (xs ys : List UInt8) (d : Utf8),
    update d (xs ++ ys) =
      match update d xs with
      | (d', some e, cps) => (d', some e, cps)
      | (d', none, cps) => ((update d' ys).1, (update d' ys).2.1, cps ++ (update d' ys).2.2)
  | [], ys, d => by simp [update]
  | b :: xs, ys, d => by
    simp only [List.cons_append, update]
    rcases hb : updateByte d b with ⟨d1, e1, cp⟩
    cases e1 with
    | some e => simp
    | none =>
      dsimp only
      rw [update_append xs ys d1]
      rcases hx : update d1 xs with ⟨d2, e2, cps⟩
      cases e2 with
      | some e => simp
      | none => simp [List.append_assoc]

/-- the run over chunks, in terms of one update over their concatenation -/
theorem runChunks_flatten : ∀ (cs : List (List UInt8)) (d : Utf8),
    runChunks d cs =
      match update d cs.flatten with
      | (_, some e, cps) => (some e, cps)
      | (d', none, cps) => ((finalize d').2, cps)
  | [], d => by simp [runChunks, update]
  | c :: cs, d => by
    simp only [runChunks, List.flatten_cons]
    rw [update_append c cs.flatten d]
    rcases hc : update d c with ⟨d1, e1, cps⟩
    cases e1 with
    | some e => simp
    | none =>
      dsimp only
      rw [runChunks_flatten cs d1]
      rcases hx : update d1 cs.flatten with ⟨d2, e2, cps2⟩
      cases e2 <;> simp

/-- the decoder without callback runs the same state machine and reports nothing -/
theorem updateNoCb_eq : ∀ (bs : List UInt8) (d : Utf8), updateNoCb d bs = ((update d bs).1, (update d bs).2.1)
  | [], d => by simp [updateNoCb, update]
  | b :: rest, d => by
    simp only [updateNoCb, update]
    rcases hb : updateByte d b with ⟨d1, e1, cp⟩
    cases e1 with
    | some e => simp
    | none =>
      dsimp only
      rw [updateNoCb_eq rest d1]

theorem runChunksNoCb_eq : ∀ (cs : List (List UInt8)) (d : Utf8), runChunksNoCb d cs = (runChunks d cs).1
  | [], d => by simp [runChunksNoCb, runChunks]
  | c :: cs, d => by
    simp only [runChunksNoCb, runChunks, updateNoCb_eq c d]
    rcases hc : update d c with ⟨d1, e1, cps⟩
    cases e1 with
    | some e => simp
    | none =>
      dsimp only
      rw [runChunksNoCb_eq cs d1]

theorem decodeUtf8NoCb_eq (bs : List UInt8) : decodeUtf8NoCb bs = (decodeUtf8 bs).1 := by
  unfold decodeUtf8NoCb decodeUtf8
  rw [updateNoCb_eq]
  rcases hc : update Utf8.init bs with ⟨d1, e1, cps⟩
  cases e1 <;> simp

/-- fold-append law with a failing callback -/
theorem updateFail_append : ∀ (xs ys : List UInt8) (k : Nat) (d : Utf8),
    updateFail k d (xs ++ ys) =
      match updateFail k d xs with
      | (d', some s, cps, k') => (d', some s, cps, k')
      | (d', none, cps, k') =>
        ((updateFail k' d' ys).1, (updateFail k' d' ys).2.1, cps ++ (updateFail k' d' ys).2.2.1, (updateFail k' d' ys).2.2.2)
  | [], ys, k, d => by simp [updateFail]
  | b :: xs, ys, k, d => by
    simp only [List.cons_append, updateFail]
    rcases hb : updateByte d b with ⟨d1, e1, cp⟩
    cases e1 with
    | some e => simp
    | none =>
      cases cp with
      | none =>
        dsimp only
        rw [updateFail_append xs ys k d1]
      | some c =>
        cases k with
        | zero => simp
        | succ k' =>
          dsimp only
          rw [updateFail_append xs ys k' d1]
          rcases hx : updateFail k' d1 xs with ⟨d2, s2, cps, k2⟩
          cases s2 with
          | some s => simp
          | none => simp

theorem runChunksFail_flatten : ∀ (cs : List (List UInt8)) (k : Nat) (d : Utf8),
    runChunksFail k d cs =
      match updateFail k d cs.flatten with
      | (_, some s, cps, _) => (some s, cps)
      | (d', none, cps, _) => (((finalize d').2).map Stop.err, cps)
  | [], k, d => by simp [runChunksFail, updateFail]
  | c :: cs, k, d => by
    simp only [runChunksFail, List.flatten_cons]
    rw [updateFail_append c cs.flatten k d]
    rcases hc : updateFail k d c with ⟨d1, s1, cps, k1⟩
    cases s1 with
    | some s => simp
    | none =>
      dsimp only
      rw [runChunksFail_flatten cs k1 d1]
      rcases hx : updateFail k1 d1 cs.flatten with ⟨d2, s2, cps2, k2⟩
      cases s2 <;> simp

end AwsVerif.Proofs.C05
