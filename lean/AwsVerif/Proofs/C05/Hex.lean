import AwsVerif.Proofs.C05.Tables
/-! C05: hex encoder = lower-case base16 reference; decoder = reference with the odd-length rule. -/
namespace AwsVerif.Proofs.C05
open AwsVerif.Codec AwsVerif.CodecSpec AwsVerif.Gen.CodecTables

theorem hexEncBytes_eq : ∀ bs : List UInt8, hexEncBytes bs = specHexEncode bs
  | [] => rfl
  | b :: rest => by
    have hb := b.toNat_lt
    obtain ⟨n1, n2⟩ := nibbles b.toNat hb
    simp only [hexEncBytes, specHexEncode, n1, n2, hexEncBytes_eq rest]
    rw [hexChars_are_digits _ (by omega), hexChars_are_digits _ (by omega)]

theorem specHexEncode_length : ∀ bs : List UInt8, (specHexEncode bs).length = 2 * bs.length
  | [] => rfl
  | _ :: rest => by simp only [specHexEncode, List.length_cons, specHexEncode_length rest]; omega

theorem hexVal_eq (c : UInt8) : hexVal c = specHexVal c := by
  have := hexVal_is_spec c.toNat c.toNat_lt
  rwa [UInt8.ofNat_toNat] at this

theorem specHexVal_lt16 {c : UInt8} {v : Nat} (h : specHexVal c = some v) : v < 16 := by
  have := specHexVal_lt c.toNat c.toNat_lt v
  rw [UInt8.ofNat_toNat] at this
  exact this h

/-- the pair loop computes the reference, and says so through `ok` -/
theorem hexPairs_eq : ∀ t : List UInt8,
    specHexPairs t = if (hexPairs t).ok then some (hexPairs t).wr else none
  | [] => rfl
  | [_] => rfl
  | hi :: lo :: rest => by
    have ih := hexPairs_eq rest
    simp only [specHexPairs, hexPairs, hexVal_eq]
    cases h1 : specHexVal hi with
    | none => simp
    | some h =>
      cases h2 : specHexVal lo with
      | none => simp
      | some l =>
        simp only [ih]
        rw [hexPair_val h (specHexVal_lt16 h1) l (specHexVal_lt16 h2)]
        cases (hexPairs rest).ok <;> simp

theorem hexPairs_wr_len : ∀ t : List UInt8, (hexPairs t).wr.length ≤ t.length / 2
  | [] => by simp [hexPairs]
  | [_] => by simp [hexPairs]
  | hi :: lo :: rest => by
    have ih := hexPairs_wr_len rest
    simp only [hexPairs]
    split
    · simp only [List.length_cons]; omega
    · simp

theorem hexPairs_ok_len : ∀ t : List UInt8, (hexPairs t).ok = true → (hexPairs t).wr.length * 2 = t.length
  | [] => by simp [hexPairs]
  | [_] => by simp [hexPairs]
  | hi :: lo :: rest => by
    have ih := hexPairs_ok_len rest
    simp only [hexPairs]
    split
    · intro h; simp only [List.length_cons]; have := ih h; omega
    · simp

theorem and1 (x : Nat) : x &&& 0x01 = x % 2 := Nat.and_two_pow_sub_one_eq_mod x 1

theorem specHexVal_zero : specHexVal 48 = some 0 := by decide +kernel

theorem hexDecBytes_eq (t : List UInt8) :
    specHexDecode t = if (hexDecBytes t).ok then some (hexDecBytes t).wr else none := by
  unfold specHexDecode hexDecBytes
  rw [and1]
  by_cases ho : t.length % 2 = 1
  · have hb : (t.length % 2 != 0) = true := by simp [ho]
    rw [if_pos ho, if_pos hb]
    cases t with
    | nil => simp at ho
    | cons c rest =>
      simp only [specHexPairs, specHexVal_zero, hexVal_eq, hexPairs_eq rest]
      cases h1 : specHexVal c with
      | none => simp
      | some l =>
        have hl := specHexVal_lt16 h1
        have e : l % 256 = l := by omega
        simp only [e]
        cases (hexPairs rest).ok <;> simp
  · have hb : (t.length % 2 != 0) = false := by simp; omega
    rw [if_neg ho, hb]
    simp only [Bool.false_eq_true, if_false]
    exact hexPairs_eq t

theorem hexDecBytes_wr_len (t : List UInt8) : (hexDecBytes t).wr.length ≤ (t.length + 1) / 2 := by
  unfold hexDecBytes
  split
  · cases t with
    | nil => simp
    | cons c rest =>
      dsimp only
      split
      · have := hexPairs_wr_len rest
        simp only [List.length_cons]; omega
      · simp
  · have := hexPairs_wr_len t; omega

theorem hexDecBytes_ok_len (t : List UInt8) (h : (hexDecBytes t).ok = true) :
    (hexDecBytes t).wr.length = (t.length + 1) / 2 := by
  unfold hexDecBytes at h ⊢
  rw [and1] at h ⊢
  split at h
  · rename_i ho
    rw [if_pos ho]
    cases t with
    | nil => simp at h
    | cons c rest =>
      dsimp only at h ⊢
      split at h
      · rename_i l hl
        have := hexPairs_ok_len rest h
        simp only [List.length_cons] at ho ⊢; omega
      · simp at h
  · rename_i ho
    rw [if_neg ho]
    have := hexPairs_ok_len t h
    simp only [bne_iff_ne, ne_eq, Decidable.not_not] at ho
    omega

theorem hexComputeDecodedLen_eq (n : Nat) (hn : n < SIZE_MAX) : hexComputeDecodedLen n = .ok ((n + 1) / 2) := by
  unfold hexComputeDecodedLen wrap
  unfold SIZE_MAX at hn
  dsimp only
  have e : (n + 1) % 2 ^ 64 = n + 1 := by omega
  rw [e, if_neg (by omega), Nat.shiftRight_eq_div_pow]

theorem hexDecode_eq (t : List UInt8) (outLen cap : Nat) (hn : t.length < SIZE_MAX) :
    hexDecode t outLen cap =
      if cap < (t.length + 1) / 2 then Out.fail .shortBuffer outLen
      else if (hexDecBytes t).ok then { err := none, len := (t.length + 1) / 2, off := 0, wr := (hexDecBytes t).wr }
      else Out.fail .invalidHex outLen (hexDecBytes t).wr := by
  unfold hexDecode hexDecodeChecks
  rw [hexComputeDecodedLen_eq _ hn]
  dsimp only
  by_cases hc : cap < (t.length + 1) / 2
  · rw [if_pos hc, if_pos hc]
  · rw [if_neg hc, if_neg hc]

theorem specHexDecode_encode : ∀ bs : List UInt8, specHexPairs (specHexEncode bs) = some bs
  | [] => rfl
  | b :: rest => by
    have hb := b.toNat_lt
    simp only [specHexEncode, specHexPairs, specHexVal_digit _ (by omega : b.toNat / 16 < 16),
      specHexVal_digit _ (by omega : b.toNat % 16 < 16), specHexDecode_encode rest]
    have : b.toNat / 16 * 16 + b.toNat % 16 = b.toNat := by omega
    rw [this, UInt8.ofNat_toNat]

end AwsVerif.Proofs.C05
