import AwsVerif.Proofs.C05.Utf8
/-! C05: the UTF-8 decoder accepts exactly RFC 3629 §4 without the U+10FFFF bound, and reports the scalar values. -/
namespace AwsVerif.Proofs.C05
open AwsVerif.Codec AwsVerif.CodecSpec

theorem lead_class : ∀ b, b < 256 →
    ((b &&& 0x80 == 0x00) = decide (b ≤ 0x7F)) ∧
    ((b &&& 0xE0 == 0xC0) = decide (0xC0 ≤ b ∧ b ≤ 0xDF)) ∧
    ((b &&& 0xF0 == 0xE0) = decide (0xE0 ≤ b ∧ b ≤ 0xEF)) ∧
    ((b &&& 0xF8 == 0xF0) = decide (0xF0 ≤ b ∧ b ≤ 0xF7)) ∧
    ((b &&& 0xC0 != 0x80) = !(isTail b)) := by decide +kernel

theorem cp_shift (cp x : Nat) (h : cp < 2 ^ 26) : ((cp <<< 6) % 2 ^ 32) ||| (x &&& 0x3F) = cp * 64 + x % 64 := by
  have m : x &&& 0x3F = x % 64 := Nat.and_two_pow_sub_one_eq_mod x 6
  rw [m, Nat.mod_eq_of_lt (by rw [Nat.shiftLeft_eq]; omega),
    ← Nat.shiftLeft_add_eq_or_of_lt (by omega : x % 64 < 2 ^ 6), Nat.shiftLeft_eq]

/-- first byte of a sequence, in arithmetic form -/
theorem updateByte_lead (d : Utf8) (hd : d.remaining = 0) (b : UInt8) :
    updateByte d b =
      if b.toNat ≤ 0x7F then ({ remaining := 0, codepoint := b.toNat, min := 0 }, none, some b.toNat)
      else if 0xC0 ≤ b.toNat ∧ b.toNat ≤ 0xDF then ({ remaining := 1, codepoint := b.toNat % 32, min := 0x80 }, none, none)
      else if 0xE0 ≤ b.toNat ∧ b.toNat ≤ 0xEF then ({ remaining := 2, codepoint := b.toNat % 16, min := 0x800 }, none, none)
      else if 0xF0 ≤ b.toNat ∧ b.toNat ≤ 0xF7 then ({ remaining := 3, codepoint := b.toNat % 8, min := 0x10000 }, none, none)
      else (d, some .invalidUtf8, none) := by
  obtain ⟨c1, c2, c3, c4, _⟩ := lead_class b.toNat b.toNat_lt
  have m5 : b.toNat &&& 0x1F = b.toNat % 32 := Nat.and_two_pow_sub_one_eq_mod _ 5
  have m4 : b.toNat &&& 0x0F = b.toNat % 16 := Nat.and_two_pow_sub_one_eq_mod _ 4
  have m3 : b.toNat &&& 0x07 = b.toNat % 8 := Nat.and_two_pow_sub_one_eq_mod _ 3
  unfold updateByte
  simp only [hd, beq_self_eq_true, if_true, c1, c2, c3, c4, m5, m4, m3, decide_eq_true_eq]

/-- continuation byte, in arithmetic form -/
theorem updateByte_cont (d : Utf8) (r : Nat) (hd : d.remaining = r + 1) (hcp : d.codepoint < 2 ^ 26) (b : UInt8) :
    updateByte d b =
      if isTail b.toNat = false then (d, some .invalidUtf8, none) else
      if r = 0 then
        if d.codepoint * 64 + b.toNat % 64 < d.min then
          ({ d with codepoint := d.codepoint * 64 + b.toNat % 64, remaining := 0 }, some .invalidUtf8, none)
        else if 0xD800 ≤ d.codepoint * 64 + b.toNat % 64 ∧ d.codepoint * 64 + b.toNat % 64 ≤ 0xDFFF then
          ({ d with codepoint := d.codepoint * 64 + b.toNat % 64, remaining := 0 }, some .invalidUtf8, none)
        else ({ d with codepoint := d.codepoint * 64 + b.toNat % 64, remaining := 0 }, none, some (d.codepoint * 64 + b.toNat % 64))
      else ({ d with codepoint := d.codepoint * 64 + b.toNat % 64, remaining := r }, none, none) := by
  obtain ⟨_, _, _, _, c5⟩ := lead_class b.toNat b.toNat_lt
  unfold updateByte
  have h0 : (d.remaining == 0) = false := by simp [hd]
  simp only [h0, Bool.false_eq_true, if_false, c5, cp_shift _ _ hcp]
  simp only [hd, Nat.add_sub_cancel]
  cases ht : isTail b.toNat
  · simp
  · simp only [Bool.not_true, Bool.false_eq_true, if_false]
    by_cases hr : r = 0
    · subst hr
      simp
    · have : (r == 0) = false := by simp [hr]
      simp [this, hr]


/-! ### the decoder against RFC 3629 §4 (without the U+10FFFF bound) -/

/-- verdict of update-then-finalize -/
def okRun (r : Utf8 × Option Err × List Nat) : Bool := r.2.1.isNone && r.1.remaining == 0

theorem update_cons_ok {d d' : Utf8} {b : UInt8} {cp : Option Nat} (rest : List UInt8)
    (h : updateByte d b = (d', none, cp)) :
    update d (b :: rest) = ((update d' rest).1, (update d' rest).2.1, cp.toList ++ (update d' rest).2.2) := by
  simp only [update, h]

theorem update_cons_err {d d' : Utf8} {b : UInt8} {e : Err} {cp : Option Nat} (rest : List UInt8)
    (h : updateByte d b = (d', some e, cp)) : update d (b :: rest) = (d', some e, []) := by
  simp only [update, h]

theorem okRun_err (d : Utf8) (e : Err) (l : List Nat) : okRun (d, some e, l) = false := rfl

def Agree (fuel : Nat) (bs : List UInt8) (d : Utf8) : Prop :=
  match specUtf8Aux true fuel bs with
  | some cps => okRun (update d bs) = true ∧ (update d bs).2.2 = cps
  | none => okRun (update d bs) = false

theorem agree_step {cp fuel : Nat} {b0 : UInt8} {tl rest : List UInt8} {d d2 : Utf8}
    (hs : specSeq true (b0 :: tl) = some (cp, rest))
    (hu : update d (b0 :: tl) = ((update d2 rest).1, (update d2 rest).2.1, cp :: (update d2 rest).2.2))
    (h : Agree fuel rest d2) : Agree (fuel + 1) (b0 :: tl) d := by
  unfold Agree at h ⊢
  rw [specUtf8Aux, hs, hu]
  dsimp only
  cases hr : specUtf8Aux true fuel rest with
  | none => rw [hr] at h; simpa [okRun] using h
  | some cps =>
    rw [hr] at h
    simp only [Option.map_some]
    exact ⟨by simpa [okRun] using h.1, by rw [h.2]⟩

theorem agree_fail {fuel : Nat} {b0 : UInt8} {tl : List UInt8} {d : Utf8} (hs : specSeq true (b0 :: tl) = none)
    (hu : okRun (update d (b0 :: tl)) = false) : Agree (fuel + 1) (b0 :: tl) d := by
  unfold Agree; rw [specUtf8Aux, hs]; exact hu

theorem isTail_iff (x : Nat) : isTail x = true ↔ (0x80 ≤ x ∧ x ≤ 0xBF) := by simp [isTail]

theorem agree_ascii {fuel : Nat} {b0 : UInt8} {rest : List UInt8} {d : Utf8} (hd : d.remaining = 0) (ha : b0.toNat ≤ 0x7F)
    (ih : ∀ d2 : Utf8, d2.remaining = 0 → Agree fuel rest d2) : Agree (fuel + 1) (b0 :: rest) d := by
  have h0 : updateByte d b0 = ({ remaining := 0, codepoint := b0.toNat, min := 0 }, none, some b0.toNat) := by
    rw [updateByte_lead d hd b0, if_pos ha]
  refine agree_step (cp := b0.toNat) ?_ (by rw [update_cons_ok rest h0]; rfl) (ih _ rfl)
  simp only [specSeq, ha, if_true]

theorem agree_two {fuel : Nat} {b0 : UInt8} {rest : List UInt8} {d : Utf8} (hd : d.remaining = 0)
    (ha : 0xC0 ≤ b0.toNat ∧ b0.toNat ≤ 0xDF)
    (ih : ∀ rest', rest'.length < rest.length → ∀ d2 : Utf8, d2.remaining = 0 → Agree fuel rest' d2) :
    Agree (fuel + 1) (b0 :: rest) d := by
  have h0 : updateByte d b0 = ({ remaining := 1, codepoint := b0.toNat % 32, min := 0x80 }, none, none) := by
    rw [updateByte_lead d hd b0, if_neg (by omega), if_pos ha]
  have n1 : ¬ b0.toNat ≤ 0x7F := by omega
  have n3 : ¬ (0xE0 ≤ b0.toNat ∧ b0.toNat ≤ 0xEF) := by omega
  have n4 : ¬ (0xF0 ≤ b0.toNat ∧ b0.toNat ≤ 0xF7) := by omega
  cases rest with
  | nil =>
    refine agree_fail ?_ (by rw [update_cons_ok [] h0]; simp [update, okRun])
    simp only [specSeq, n1, n3, n4, if_true, if_false]; split <;> rfl
  | cons b1 rest' =>
    have hc := updateByte_cont { remaining := 1, codepoint := b0.toNat % 32, min := 0x80 } 0 rfl (by simp only; omega) b1
    simp only [if_true] at hc
    by_cases ht : isTail b1.toNat = true
    · have ht' := (isTail_iff _).1 ht
      by_cases hov : b0.toNat ≤ 0xC1
      · -- overlong two-byte form
        rw [ht, if_neg (by simp), if_pos (by omega)] at hc
        refine agree_fail ?_ (by rw [update_cons_ok _ h0, update_cons_err _ hc]; rfl)
        simp only [specSeq, n1, n3, n4, if_true, if_false, if_neg (show ¬ (0xC2 ≤ b0.toNat ∧ b0.toNat ≤ 0xDF) by omega)]
      · rw [ht, if_neg (by simp), if_neg (by omega), if_neg (by omega)] at hc
        refine agree_step (cp := b0.toNat % 32 * 64 + b1.toNat % 64) ?_
          (by rw [update_cons_ok _ h0, update_cons_ok _ hc]; rfl) (ih rest' (by simp) _ rfl)
        simp only [specSeq, n1, if_false, if_pos (show 0xC2 ≤ b0.toNat ∧ b0.toNat ≤ 0xDF by omega), ht, if_true]
        have : (b0.toNat - 0xC0) * 64 + (b1.toNat - 0x80) = b0.toNat % 32 * 64 + b1.toNat % 64 := by omega
        rw [this]
    · have hf : isTail b1.toNat = false := by simpa using ht
      rw [hf, if_pos rfl] at hc
      refine agree_fail ?_ (by rw [update_cons_ok _ h0, update_cons_err _ hc]; rfl)
      simp only [specSeq, n1, n3, n4, if_true, if_false, hf]
      split <;> simp

theorem agree_three {fuel : Nat} {b0 : UInt8} {rest : List UInt8} {d : Utf8} (hd : d.remaining = 0)
    (ha : 0xE0 ≤ b0.toNat ∧ b0.toNat ≤ 0xEF)
    (ih : ∀ rest', rest'.length < rest.length → ∀ d2 : Utf8, d2.remaining = 0 → Agree fuel rest' d2) :
    Agree (fuel + 1) (b0 :: rest) d := by
  have h0 : updateByte d b0 = ({ remaining := 2, codepoint := b0.toNat % 16, min := 0x800 }, none, none) := by
    rw [updateByte_lead d hd b0, if_neg (by omega), if_neg (by omega), if_pos ha]
  have n1 : ¬ b0.toNat ≤ 0x7F := by omega
  have n2 : ¬ (0xC2 ≤ b0.toNat ∧ b0.toNat ≤ 0xDF) := by omega
  have step1 (b1 : UInt8) (ht : isTail b1.toNat = true) :
      updateByte { remaining := 2, codepoint := b0.toNat % 16, min := 0x800 } b1 =
        ({ remaining := 1, codepoint := b0.toNat % 16 * 64 + b1.toNat % 64, min := 0x800 }, none, none) := by
    rw [updateByte_cont _ 1 rfl (by simp only; omega) b1, ht, if_neg (by simp), if_neg (by omega)]
  have fail1 (b1 : UInt8) (ht : isTail b1.toNat = false) :
      updateByte { remaining := 2, codepoint := b0.toNat % 16, min := 0x800 } b1 =
        ({ remaining := 2, codepoint := b0.toNat % 16, min := 0x800 }, some .invalidUtf8, none) := by
    rw [updateByte_cont _ 1 rfl (by simp only; omega) b1, ht, if_pos rfl]
  match rest with
  | [] =>
    refine agree_fail ?_ (by rw [update_cons_ok [] h0]; simp [update, okRun])
    simp only [specSeq, n1, n2, ha, if_true, if_false, and_self]
  | [b1] =>
    refine agree_fail (by simp only [specSeq, n1, n2, ha, if_true, if_false, and_self]) ?_
    cases ht : isTail b1.toNat
    · rw [update_cons_ok _ h0, update_cons_err _ (fail1 b1 ht)]; rfl
    · rw [update_cons_ok _ h0, update_cons_ok _ (step1 b1 ht)]; simp [update, okRun]
  | b1 :: b2 :: rest' =>
    cases ht1 : isTail b1.toNat
    · refine agree_fail ?_ (by rw [update_cons_ok _ h0, update_cons_err _ (fail1 b1 ht1)]; rfl)
      have nt := ht1
      simp only [isTail, Bool.and_eq_false_iff, decide_eq_false_iff_not] at nt
      simp only [specSeq, n1, n2, ha, if_true, if_false, and_self, ht1]
      rw [if_neg]
      intro ⟨h, _⟩
      split at h
      · omega
      · split at h
        · omega
        · simp at h
    · have ht1' := (isTail_iff _).1 ht1
      have hc := updateByte_cont { remaining := 1, codepoint := b0.toNat % 16 * 64 + b1.toNat % 64, min := 0x800 } 0 rfl
        (by simp only; omega) b2
      simp only [if_true] at hc
      cases ht2 : isTail b2.toNat
      · rw [ht2, if_pos rfl] at hc
        refine agree_fail ?_ (by rw [update_cons_ok _ h0, update_cons_ok _ (step1 b1 ht1), update_cons_err _ hc]; rfl)
        simp only [specSeq, n1, n2, ha, if_true, if_false, and_self, ht2]
        simp
      · have ht2' := (isTail_iff _).1 ht2
        rw [ht2, if_neg (by simp)] at hc
        by_cases hov : (b0.toNat % 16 * 64 + b1.toNat % 64) * 64 + b2.toNat % 64 < 0x800
        · -- overlong three-byte form
          rw [if_pos hov] at hc
          refine agree_fail ?_ (by rw [update_cons_ok _ h0, update_cons_ok _ (step1 b1 ht1), update_cons_err _ hc]; rfl)
          simp only [specSeq, n1, n2, ha, if_true, if_false, and_self, ht2]
          rw [if_neg]
          intro ⟨h, _⟩
          have e0 : b0.toNat = 0xE0 := by omega
          rw [if_pos e0] at h
          omega
        · rw [if_neg hov] at hc
          by_cases hsur : 0xD800 ≤ (b0.toNat % 16 * 64 + b1.toNat % 64) * 64 + b2.toNat % 64 ∧
              (b0.toNat % 16 * 64 + b1.toNat % 64) * 64 + b2.toNat % 64 ≤ 0xDFFF
          · -- surrogate
            rw [if_pos hsur] at hc
            refine agree_fail ?_ (by rw [update_cons_ok _ h0, update_cons_ok _ (step1 b1 ht1), update_cons_err _ hc]; rfl)
            simp only [specSeq, n1, n2, ha, if_true, if_false, and_self, ht2]
            rw [if_neg]
            intro ⟨h, _⟩
            have e0 : b0.toNat = 0xED := by omega
            rw [if_neg (by omega), if_pos e0] at h
            omega
          · rw [if_neg hsur] at hc
            refine agree_step (cp := (b0.toNat % 16 * 64 + b1.toNat % 64) * 64 + b2.toNat % 64) ?_
              (by rw [update_cons_ok _ h0, update_cons_ok _ (step1 b1 ht1), update_cons_ok _ hc]; rfl)
              (ih rest' (by simp only [List.length_cons]; omega) _ rfl)
            simp only [specSeq, n1, n2, ha, if_true, if_false, and_self, ht2]
            have sec : (if b0.toNat = 0xE0 then (0xA0 ≤ b1.toNat ∧ b1.toNat ≤ 0xBF)
                else if b0.toNat = 0xED then (0x80 ≤ b1.toNat ∧ b1.toNat ≤ 0x9F) else isTail b1.toNat = true) := by
              split
              · omega
              · split
                · omega
                · exact ht1
            rw [if_pos ⟨sec, trivial⟩]
            have : (b0.toNat - 0xE0) * 4096 + (b1.toNat - 0x80) * 64 + (b2.toNat - 0x80) =
                (b0.toNat % 16 * 64 + b1.toNat % 64) * 64 + b2.toNat % 64 := by omega
            rw [this]

theorem agree_four {fuel : Nat} {b0 : UInt8} {rest : List UInt8} {d : Utf8} (hd : d.remaining = 0)
    (ha : 0xF0 ≤ b0.toNat ∧ b0.toNat ≤ 0xF7)
    (ih : ∀ rest', rest'.length < rest.length → ∀ d2 : Utf8, d2.remaining = 0 → Agree fuel rest' d2) :
    Agree (fuel + 1) (b0 :: rest) d := by
  have h0 : updateByte d b0 = ({ remaining := 3, codepoint := b0.toNat % 8, min := 0x10000 }, none, none) := by
    rw [updateByte_lead d hd b0, if_neg (by omega), if_neg (by omega), if_neg (by omega), if_pos ha]
  have n1 : ¬ b0.toNat ≤ 0x7F := by omega
  have n2 : ¬ (0xC2 ≤ b0.toNat ∧ b0.toNat ≤ 0xDF) := by omega
  have n3 : ¬ (0xE0 ≤ b0.toNat ∧ b0.toNat ≤ 0xEF) := by omega
  have step1 (b1 : UInt8) (ht : isTail b1.toNat = true) :
      updateByte { remaining := 3, codepoint := b0.toNat % 8, min := 0x10000 } b1 =
        ({ remaining := 2, codepoint := b0.toNat % 8 * 64 + b1.toNat % 64, min := 0x10000 }, none, none) := by
    rw [updateByte_cont _ 2 rfl (by simp only; omega) b1, ht, if_neg (by simp), if_neg (by omega)]
  have fail1 (b1 : UInt8) (ht : isTail b1.toNat = false) :
      updateByte { remaining := 3, codepoint := b0.toNat % 8, min := 0x10000 } b1 =
        ({ remaining := 3, codepoint := b0.toNat % 8, min := 0x10000 }, some .invalidUtf8, none) := by
    rw [updateByte_cont _ 2 rfl (by simp only; omega) b1, ht, if_pos rfl]
  have step2 (b1 b2 : UInt8) (ht : isTail b2.toNat = true) :
      updateByte { remaining := 2, codepoint := b0.toNat % 8 * 64 + b1.toNat % 64, min := 0x10000 } b2 =
        ({ remaining := 1, codepoint := (b0.toNat % 8 * 64 + b1.toNat % 64) * 64 + b2.toNat % 64, min := 0x10000 }, none, none) := by
    rw [updateByte_cont _ 1 rfl (by simp only; omega) b2, ht, if_neg (by simp), if_neg (by omega)]
  have fail2 (b1 b2 : UInt8) (ht : isTail b2.toNat = false) :
      updateByte { remaining := 2, codepoint := b0.toNat % 8 * 64 + b1.toNat % 64, min := 0x10000 } b2 =
        ({ remaining := 2, codepoint := b0.toNat % 8 * 64 + b1.toNat % 64, min := 0x10000 }, some .invalidUtf8, none) := by
    rw [updateByte_cont _ 1 rfl (by simp only; omega) b2, ht, if_pos rfl]
  have hsnone : ∀ tl : List UInt8, tl.length < 3 → specSeq true (b0 :: tl) = none := by
    intro tl htl
    simp only [specSeq, n1, n2, n3, ha, if_true, if_false, and_self]
    match tl, htl with
    | [], _ | [_], _ | [_, _], _ => rfl
    | _ :: _ :: _ :: _, h => simp only [List.length_cons] at h; omega
  match rest with
  | [] =>
    exact agree_fail (hsnone _ (by simp)) (by rw [update_cons_ok [] h0]; simp [update, okRun])
  | [b1] =>
    refine agree_fail (hsnone _ (by simp)) ?_
    cases ht : isTail b1.toNat
    · rw [update_cons_ok _ h0, update_cons_err _ (fail1 b1 ht)]; rfl
    · rw [update_cons_ok _ h0, update_cons_ok _ (step1 b1 ht)]; simp [update, okRun]
  | [b1, b2] =>
    refine agree_fail (hsnone _ (by simp)) ?_
    cases ht : isTail b1.toNat
    · rw [update_cons_ok _ h0, update_cons_err _ (fail1 b1 ht)]; rfl
    · cases ht2 : isTail b2.toNat
      · rw [update_cons_ok _ h0, update_cons_ok _ (step1 b1 ht), update_cons_err _ (fail2 b1 b2 ht2)]; rfl
      · rw [update_cons_ok _ h0, update_cons_ok _ (step1 b1 ht), update_cons_ok _ (step2 b1 b2 ht2)]; simp [update, okRun]
  | b1 :: b2 :: b3 :: rest' =>
    cases ht1 : isTail b1.toNat
    · refine agree_fail ?_ (by rw [update_cons_ok _ h0, update_cons_err _ (fail1 b1 ht1)]; rfl)
      have nt := ht1
      simp only [isTail, Bool.and_eq_false_iff, decide_eq_false_iff_not] at nt
      simp only [specSeq, n1, n2, n3, ha, if_true, if_false, and_self, ht1]
      rw [if_neg]
      intro ⟨h, _⟩
      split at h
      · omega
      · simp at h
    · have ht1' := (isTail_iff _).1 ht1
      cases ht2 : isTail b2.toNat
      · refine agree_fail ?_ (by rw [update_cons_ok _ h0, update_cons_ok _ (step1 b1 ht1), update_cons_err _ (fail2 b1 b2 ht2)]; rfl)
        simp only [specSeq, n1, n2, n3, ha, if_true, if_false, and_self, ht2]
        simp
      · have ht2' := (isTail_iff _).1 ht2
        have hc := updateByte_cont
          { remaining := 1, codepoint := (b0.toNat % 8 * 64 + b1.toNat % 64) * 64 + b2.toNat % 64, min := 0x10000 } 0 rfl
          (by simp only; omega) b3
        simp only [if_true] at hc
        cases ht3 : isTail b3.toNat
        · rw [ht3, if_pos rfl] at hc
          refine agree_fail ?_ (by
            rw [update_cons_ok _ h0, update_cons_ok _ (step1 b1 ht1), update_cons_ok _ (step2 b1 b2 ht2), update_cons_err _ hc]; rfl)
          simp only [specSeq, n1, n2, n3, ha, if_true, if_false, and_self, ht3]
          simp
        · have ht3' := (isTail_iff _).1 ht3
          rw [ht3, if_neg (by simp)] at hc
          by_cases hov : ((b0.toNat % 8 * 64 + b1.toNat % 64) * 64 + b2.toNat % 64) * 64 + b3.toNat % 64 < 0x10000
          · -- overlong four-byte form
            rw [if_pos hov] at hc
            refine agree_fail ?_ (by
              rw [update_cons_ok _ h0, update_cons_ok _ (step1 b1 ht1), update_cons_ok _ (step2 b1 b2 ht2), update_cons_err _ hc]; rfl)
            simp only [specSeq, n1, n2, n3, ha, if_true, if_false, and_self, ht2, ht3]
            rw [if_neg]
            intro ⟨h, _⟩
            have e0 : b0.toNat = 0xF0 := by omega
            rw [if_pos e0] at h
            omega
          · rw [if_neg hov, if_neg (by omega)] at hc
            refine agree_step
              (cp := ((b0.toNat % 8 * 64 + b1.toNat % 64) * 64 + b2.toNat % 64) * 64 + b3.toNat % 64) ?_
              (by rw [update_cons_ok _ h0, update_cons_ok _ (step1 b1 ht1), update_cons_ok _ (step2 b1 b2 ht2),
                    update_cons_ok _ hc]; rfl)
              (ih rest' (by simp only [List.length_cons]; omega) _ rfl)
            simp only [specSeq, n1, n2, n3, ha, if_true, if_false, and_self, ht2, ht3]
            have sec : (if b0.toNat = 0xF0 then (0x90 ≤ b1.toNat ∧ b1.toNat ≤ 0xBF)
                else if b0.toNat = 0xF4 ∧ (!true) = true then (0x80 ≤ b1.toNat ∧ b1.toNat ≤ 0x8F)
                else isTail b1.toNat = true) := by
              split
              · omega
              · split
                · rename_i h; simp at h
                · exact ht1
            rw [if_pos ⟨sec, trivial⟩]
            have : (b0.toNat - 0xF0) * 262144 + (b1.toNat - 0x80) * 4096 + (b2.toNat - 0x80) * 64 + (b3.toNat - 0x80) =
                ((b0.toNat % 8 * 64 + b1.toNat % 64) * 64 + b2.toNat % 64) * 64 + b3.toNat % 64 := by omega
            rw [this]

theorem agree_badlead {fuel : Nat} {b0 : UInt8} {rest : List UInt8} {d : Utf8} (hd : d.remaining = 0)
    (ha : (0x80 ≤ b0.toNat ∧ b0.toNat ≤ 0xBF) ∨ 0xF8 ≤ b0.toNat) : Agree (fuel + 1) (b0 :: rest) d := by
  have h0 : updateByte d b0 = (d, some .invalidUtf8, none) := by
    rw [updateByte_lead d hd b0, if_neg (by omega), if_neg (by omega), if_neg (by omega), if_neg (by omega)]
  refine agree_fail ?_ (by rw [update_cons_err _ h0]; rfl)
  have n1 : ¬ b0.toNat ≤ 0x7F := by omega
  have n2 : ¬ (0xC2 ≤ b0.toNat ∧ b0.toNat ≤ 0xDF) := by omega
  have n3 : ¬ (0xE0 ≤ b0.toNat ∧ b0.toNat ≤ 0xEF) := by omega
  have n4 : ¬ (0xF0 ≤ b0.toNat ∧ b0.toNat ≤ 0xF7) := by omega
  simp only [specSeq, n1, n2, n3, n4, if_true, if_false]

theorem agree_all : ∀ (fuel : Nat) (bs : List UInt8), bs.length ≤ fuel → ∀ d : Utf8, d.remaining = 0 → Agree fuel bs d
  | fuel, [], _, d, hd => by
    unfold Agree
    rw [specUtf8Aux]
    simp [update, okRun, hd]
  | 0, _ :: _, h, _, _ => by simp at h
  | fuel + 1, b0 :: rest, h, d, hd => by
    have hl : rest.length ≤ fuel := by simp only [List.length_cons] at h; omega
    have ih : ∀ rest', rest'.length < rest.length → ∀ d2 : Utf8, d2.remaining = 0 → Agree fuel rest' d2 :=
      fun rest' hr d2 hd2 => agree_all fuel rest' (by omega) d2 hd2
    have hb := b0.toNat_lt
    by_cases c1 : b0.toNat ≤ 0x7F
    · exact agree_ascii hd c1 (fun d2 hd2 => agree_all fuel rest hl d2 hd2)
    · by_cases c2 : 0xC0 ≤ b0.toNat ∧ b0.toNat ≤ 0xDF
      · exact agree_two hd c2 ih
      · by_cases c3 : 0xE0 ≤ b0.toNat ∧ b0.toNat ≤ 0xEF
        · exact agree_three hd c3 ih
        · by_cases c4 : 0xF0 ≤ b0.toNat ∧ b0.toNat ≤ 0xF7
          · exact agree_four hd c4 ih
          · exact agree_badlead hd (by omega)

/-- `aws_decode_utf8` against the reference -/
theorem decodeUtf8_spec (bs : List UInt8) :
    match specUtf8 true bs with
    | some cps => decodeUtf8 bs = (none, cps)
    | none => (decodeUtf8 bs).1 ≠ none := by
  have h := agree_all bs.length bs (Nat.le_refl _) Utf8.init rfl
  unfold Agree at h
  unfold specUtf8 decodeUtf8 finalize
  rcases hu : update Utf8.init bs with ⟨d', e, cps'⟩
  rw [hu] at h
  cases hs : specUtf8Aux true bs.length bs with
  | some cps =>
    rw [hs] at h
    obtain ⟨h1, h2⟩ := h
    cases e with
    | some e => simp [okRun] at h1
    | none =>
      simp only [okRun, Option.isNone_none, Bool.true_and, beq_iff_eq] at h1
      simp only at h2
      subst h2
      simp [h1]
  | none =>
    rw [hs] at h
    cases e with
    | some e => simp
    | none =>
      simp only [okRun, Option.isNone_none, Bool.true_and, beq_eq_false_iff_ne] at h
      simp [h]

/-- what RFC 3629 accepts, the relaxed reference accepts with the same scalar -/
theorem specSeq_mono (x : List UInt8) (r : Nat × List UInt8) (h : specSeq false x = some r) : specSeq true x = some r := by
  cases x with
  | nil => simp [specSeq] at h
  | cons b0 rest =>
    simp only [specSeq] at h ⊢
    by_cases c1 : b0.toNat ≤ 0x7F
    · simpa only [c1, if_true] using h
    · simp only [c1, if_false] at h ⊢
      by_cases c2 : 0xC2 ≤ b0.toNat ∧ b0.toNat ≤ 0xDF
      · simpa only [c2, and_self, if_true] using h
      · simp only [c2, if_false] at h ⊢
        by_cases c3 : 0xE0 ≤ b0.toNat ∧ b0.toNat ≤ 0xEF
        · simpa only [c3, and_self, if_true] using h
        · simp only [c3, if_false] at h ⊢
          by_cases c4 : 0xF0 ≤ b0.toNat ∧ b0.toNat ≤ 0xF4
          · have c4' : 0xF0 ≤ b0.toNat ∧ b0.toNat ≤ 0xF7 := by omega
            simp only [Bool.false_eq_true, if_false, c4, and_self, if_true, Bool.not_false, and_true] at h
            simp only [if_true, c4', and_self, Bool.not_true, Bool.false_eq_true, and_false, if_false]
            match rest, h with
            | b1 :: b2 :: b3 :: rest', h =>
              simp only [Option.ite_none_right_eq_some] at h ⊢
              obtain ⟨⟨hsec, ht2, ht3⟩, hx⟩ := h
              refine ⟨⟨?_, ht2, ht3⟩, hx⟩
              by_cases e0 : b0.toNat = 0xF0
              · rw [if_pos e0] at hsec ⊢; exact hsec
              · rw [if_neg e0] at hsec ⊢
                by_cases e4 : b0.toNat = 0xF4
                · rw [if_pos e4] at hsec
                  simp only [isTail, Bool.and_eq_true, decide_eq_true_eq]; omega
                · rw [if_neg e4] at hsec; exact hsec
            | [], h | [_], h | [_, _], h => simp at h
          · simp only [Bool.false_eq_true, if_false, c4, if_false] at h
            cases h

theorem specUtf8Aux_mono : ∀ (fuel : Nat) (bs : List UInt8) (cps : List Nat),
    specUtf8Aux false fuel bs = some cps → specUtf8Aux true fuel bs = some cps
  | _, [], cps, h => by rw [specUtf8Aux] at h ⊢; exact h
  | 0, _ :: _, _, h => by simp [specUtf8Aux] at h
  | fuel + 1, b :: bs, cps, h => by
    rw [specUtf8Aux] at h ⊢
    cases hs : specSeq false (b :: bs) with
    | none => rw [hs] at h; cases h
    | some r =>
      obtain ⟨cp, rest⟩ := r
      rw [hs] at h
      rw [specSeq_mono _ _ hs]
      dsimp only at h ⊢
      cases hr : specUtf8Aux false fuel rest with
      | none => rw [hr] at h; cases h
      | some cps' =>
        rw [hr] at h
        rw [specUtf8Aux_mono fuel rest cps' hr]
        exact h

end AwsVerif.Proofs.C05
